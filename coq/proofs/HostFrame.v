(** C07 (frame): the modelled derived queries are functions of the [view], invariant under the
    renaming of FileIds.

    [pindex fuel V p] is the indexer's include traversal on paths only, reading the workspace [V]
    (path, content, include map with paths as targets).  [index_frame]: for every state produced by
    a touch, the trace of [Host.index] with every FileId translated to its path is [pindex] of the
    view; [links_frame]: the same for document_link.  Hence ([queries_of_view]) two states with the
    same view - e.g. after a history and after a fresh start (C07_history_independent) - answer the
    modelled queries identically, keyed by path. *)
From Coq Require Import List NArith Bool Lia Arith.
From TG.Model Require Import Includes Host.
From TG.Proofs Require Import IncludesGraph IncludesRefine HostIndex IncludesLinks HostHistory HostTheorems.
Import ListNotations.
Local Open Scope nat_scope.

Section Frame.
Context {path istr : Type} {PA : PathAlg path istr} {PAok : PathAlgOk path istr}.
Notation content := (content istr).
Notation item := (item istr).
Notation world := (world path istr).
Notation fsys := (@fsys path istr).
Notation inputs := (@inputs path istr).
Notation entry := (@entry path istr).
Notation state := (@state path istr).

(** ** the traversal on paths *)
Inductive pevent :=
| PFile (p : path)
| PDecl (p : path) (name : N)
| PNotFound (p : path) (sid : rng).

Record pctx := { pindexed : list path; ptrace : list pevent }.

Definition pmemP (q : path) (l : list path) : bool := existsb (fun x => path_eqb x q) l.
Definition pemit (e : pevent) (cx : pctx) : pctx := {| pindexed := pindexed cx; ptrace := e :: ptrace cx |}.
Definition penter (g : path) (cx : pctx) : pctx :=
  {| pindexed := g :: pindexed cx; ptrace := PFile g :: ptrace cx |}.

Fixpoint pindex_items (rec : path -> pctx -> outcome pctx) (l : list (rng * path)) (p : path)
         (its : list item) (cx : pctx) : outcome pctx :=
  match its with
  | [] => Done cx
  | IDecl nm :: r => pindex_items rec l p r (pemit (PDecl p nm) cx)
  | IInc sid reached _ :: r =>
      if reached then
        match im_getA sid l with
        | None => pindex_items rec l p r (pemit (PNotFound p sid) cx)
        | Some g =>
            if pmemP g (pindexed cx) then pindex_items rec l p r cx
            else match rec g (penter g cx) with
                 | Done cx' => pindex_items rec l p r cx'
                 | OutOfFuel => OutOfFuel
                 | Panic e => Panic e
                 end
        end
      else pindex_items rec l p r cx
  end.

Definition vget (V : list entry) (p : path) : option entry :=
  find (fun e => path_eqb (e_path e) p) V.

Fixpoint pindex_file (fuel : nat) (V : list entry) (p : path) (cx : pctx) : outcome pctx :=
  match fuel with
  | O => OutOfFuel
  | S n =>
      match vget V p with
      | None => Panic PUnsetContent
      | Some e => pindex_items (pindex_file n V) (e_links e) p (c_items (e_content e)) cx
      end
  end.

Definition pindex (fuel : nat) (V : list entry) (p : path) : outcome (list pevent) :=
  match pindex_file fuel V p {| pindexed := [p]; ptrace := [PFile p] |} with
  | Done cx => Done (rev (ptrace cx))
  | OutOfFuel => OutOfFuel
  | Panic e => Panic e
  end.

(** document_link on paths *)
Fixpoint plinks_of (l : list (rng * path)) (its : list item) : list (rng * path) :=
  match its with
  | [] => []
  | IInc sid _ (Some (_, lr)) :: r =>
      match im_getA sid l with
      | Some t => (lr, t) :: plinks_of l r
      | None => plinks_of l r
      end
  | _ :: r => plinks_of l r
  end.

(** ** the simulation *)
Variable fs : fsys.
Variable db : inputs.
Variable fset : list (N * path).
Variable V : list entry.
Hypothesis W : wf_fs fs.
Hypothesis F : Forall2 (erel fs db) fset V.
Hypothesis ND : NoDup (map e_path V).
(** the include maps stay inside the workspace *)
Hypothesis Closed : forall x lid sid g,
  In x fset -> rim db (fst x) = Some lid -> In (sid, g) lid -> In g (map fst fset).

Definition evrel (a : event) (b : pevent) : Prop :=
  match a, b with
  | EvFile f, PFile p => path_for_file fs f = Some p
  | EvDecl f n, PDecl p m => path_for_file fs f = Some p /\ n = m
  | EvNotFound f s, PNotFound p t => path_for_file fs f = Some p /\ s = t
  | _, _ => False
  end.

Definition crel (cx : ictx) (pcx : pctx) : Prop :=
  Forall2 (fun f q => path_for_file fs f = Some q) (indexed cx) (pindexed pcx) /\
  Forall2 evrel (trace cx) (ptrace pcx).

Definition orel (r : outcome ictx) (pr : outcome pctx) : Prop :=
  match r, pr with
  | Done cx, Done pcx => crel cx pcx
  | OutOfFuel, OutOfFuel => True
  | Panic e, Panic e' => e = e'
  | _, _ => False
  end.

Lemma mem_rel : forall g q idx pidx,
  path_for_file fs g = Some q ->
  Forall2 (fun f p => path_for_file fs f = Some p) idx pidx ->
  memN g idx = pmemP q pidx.
Proof.
  intros g q idx pidx Hg H. unfold memN, pmemP.
  induction H as [|f p idx pidx Hf _ IH]; [reflexivity|]. cbn [existsb]. rewrite IH. f_equal.
  destruct (f =? g)%N eqn:E.
  - apply N.eqb_eq in E. subst f. symmetry. apply path_eqb_ok. congruence.
  - symmetry. apply path_eqb_false. intro Hx. subst p. apply N.eqb_neq in E. apply E.
    eapply pof_inj; eauto.
Qed.

Lemma fset_entry : forall f, In f (map fst fset) ->
  exists p e lid, In (f, p) fset /\ In e V /\ erel fs db (f, p) e /\ rim db f = Some lid /\
                  Forall2 (lrel fs) lid (e_links e).
Proof.
  intros f Hf. apply in_map_iff in Hf. destruct Hf as [[f' p] [E Hi]]. cbn [fst] in E. subst f'.
  destruct (Forall2_in_l _ _ _ _ _ F (f, p) Hi) as [e [He R]].
  pose proof R as [_ [_ [_ [lid [D L]]]]]. cbn [fst] in D.
  exists p, e, lid. split; [exact Hi|]. split; [exact He|]. split; [exact R|]. split; [exact D|exact L].
Qed.

Lemma vget_in_gen : forall (V0 : list entry), NoDup (map e_path V0) ->
  forall e, In e V0 -> vget V0 (e_path e) = Some e.
Proof.
  unfold vget. induction V0 as [|x V' IH]; intros ND0 e He; [contradiction|].
  cbn [map] in ND0. inversion ND0 as [|? ? Hn ND']; subst. cbn [find].
  destruct He as [<-|He].
  - rewrite path_eqb_refl. reflexivity.
  - destruct (path_eqb (e_path x) (e_path e)) eqn:E.
    + apply path_eqb_ok in E. exfalso. apply Hn. rewrite E. apply in_map. exact He.
    + apply IH; assumption.
Qed.

Lemma vget_in : forall e, In e V -> vget V (e_path e) = Some e.
Proof. exact (vget_in_gen V ND). Qed.

Definition rec_rel (rec : N -> ictx -> outcome ictx) (prec : path -> pctx -> outcome pctx) : Prop :=
  forall g q cx pcx, In g (map fst fset) -> path_for_file fs g = Some q -> crel cx pcx ->
                     orel (rec g cx) (prec q pcx).

Lemma sim_items : forall rec prec, rec_rel rec prec ->
  forall f p lid l, path_for_file fs f = Some p -> rim db f = Some lid ->
    Forall2 (lrel fs) lid l ->
    (forall sid g, In (sid, g) lid -> In g (map fst fset)) ->
    forall its cx pcx, crel cx pcx ->
      orel (index_items rec db f its cx) (pindex_items prec l p its pcx).
Proof.
  intros rec prec Hrec f p lid l Hf Hm Hl Hcl. induction its as [|it r IH]; intros cx pcx C.
  - exact C.
  - destruct it as [sid reached tgt|nm]; cbn [index_items pindex_items].
    + destruct reached; [|apply IH; exact C]. rewrite Hm.
      pose proof (im_get_rel N path (fun t q => path_for_file fs t = Some q) sid lid l Hl) as R.
      rewrite <- im_get_A in R.
      assert (Hin : forall g, im_get sid lid = Some g -> In g (map fst fset)).
      { intros g Hg. apply im_get_in in Hg. apply in_map_iff in Hg. destruct Hg as [[s' g'] [E Hi]].
        cbn [snd] in E. subst g'. eapply Hcl; eauto. }
      destruct (im_get sid lid) as [g|], (im_getA sid l) as [q|]; try contradiction.
      * rewrite (mem_rel g q _ _ R (proj1 C)).
        destruct (pmemP q (pindexed pcx)); [apply IH; exact C|].
        assert (C1 : crel (enter g cx) (penter q pcx)).
        { destruct C as [C1 C2]. split; cbn [enter penter indexed pindexed trace ptrace]; constructor; auto. }
        pose proof (Hrec g q _ _ (Hin g eq_refl) R C1) as O.
        destruct (rec g (enter g cx)) as [cx'| |e], (prec q (penter q pcx)) as [pcx'| |e']; cbn [orel] in O;
          try contradiction; try exact I.
        -- apply IH. exact O.
        -- exact O.
      * apply IH. destruct C as [C1 C2]. split; cbn [emit pemit indexed pindexed trace ptrace]; auto.
        constructor; [split; [exact Hf|reflexivity]|exact C2].
    + apply IH. destruct C as [C1 C2]. split; cbn [emit pemit indexed pindexed trace ptrace]; auto.
      constructor; [split; [exact Hf|reflexivity]|exact C2].
Qed.

Lemma sim_file : forall n, rec_rel (index_file n db) (fun q => pindex_file n V q).
Proof.
  induction n as [|n IH]; intros g q cx pcx Hg Hq C; [exact I|].
  cbn [index_file pindex_file].
  destruct (fset_entry g Hg) as [p [e [lid [Hi [He [R [Hm Hl]]]]]]].
  pose proof R as [A [B [Cc _]]]. cbn [fst snd] in A, B, Cc.
  assert (Hpq : p = q) by congruence.
  rewrite Cc. rewrite <- Hpq, A, (vget_in e He).
  apply (sim_items _ _ IH g (e_path e) lid (e_links e)).
  - rewrite <- A. exact B.
  - exact Hm.
  - exact Hl.
  - intros sid t Ht. exact (Closed (g, p) lid sid t Hi Hm Ht).
  - exact C.
Qed.

Definition ev_path (a : event) : option pevent :=
  match a with
  | EvFile f => option_map PFile (path_for_file fs f)
  | EvDecl f n => option_map (fun p => PDecl p n) (path_for_file fs f)
  | EvNotFound f s => option_map (fun p => PNotFound p s) (path_for_file fs f)
  end.

Lemma evrel_map : forall tr ptr, Forall2 evrel tr ptr -> all_some (map ev_path tr) = Some ptr.
Proof.
  intros tr ptr H. induction H as [|a b tr ptr Hab _ IH]; [reflexivity|].
  cbn [map all_some]. rewrite IH.
  destruct a, b; cbn [evrel] in Hab; try contradiction; cbn [ev_path].
  - rewrite Hab. reflexivity.
  - destruct Hab as [-> ->]. reflexivity.
  - destruct Hab as [-> ->]. reflexivity.
Qed.

Lemma Forall2_rev : forall (A B : Type) (R : A -> B -> Prop) l l',
  Forall2 R l l' -> Forall2 R (rev l) (rev l').
Proof.
  intros A B R l l' H. induction H as [|a b l l' Hab _ IH]; [constructor|].
  cbn [rev]. apply Forall2_app; [exact IH|constructor; [exact Hab|constructor]].
Qed.

(** the index query, read through the id table, is [pindex] of the view *)
Theorem index_frame : forall fuel root p,
  sroot db = Some (fset, root) -> path_for_file fs root = Some p -> In root (map fst fset) ->
  match index fuel db, pindex fuel V p with
  | Done tr, Done ptr => all_some (map ev_path tr) = Some ptr
  | OutOfFuel, OutOfFuel => True
  | Panic e, Panic e' => e = e'
  | _, _ => False
  end.
Proof.
  intros fuel root p S R Hr. unfold index, pindex. rewrite S.
  assert (C0 : crel {| indexed := [root]; trace := [EvFile root] |} {| pindexed := [p]; ptrace := [PFile p] |}).
  { split; cbn; constructor; auto. }
  pose proof (sim_file fuel root p _ _ Hr R C0) as O. cbn beta in O.
  destruct (index_file fuel db root _) as [cx| |e], (pindex_file fuel V p _) as [pcx| |e']; cbn [orel] in O;
    try contradiction; try exact I; [|exact O].
  apply evrel_map. apply Forall2_rev. exact (proj2 O).
Qed.

(** document_link read through the id table *)
Lemma links_rel : forall lid l its, Forall2 (lrel fs) lid l ->
  Forall2 (lrel fs) (links_of lid its) (plinks_of l its).
Proof.
  intros lid l its Hl. induction its as [|it r IH]; [constructor|].
  destruct it as [sid reached [[s lr]|]|nm]; cbn [links_of plinks_of]; try exact IH.
  pose proof (im_get_rel N path (fun t q => path_for_file fs t = Some q) sid lid l Hl) as R.
  rewrite <- im_get_A in R.
  destruct (im_get sid lid) as [g|], (im_getA sid l) as [q|]; try contradiction; [|exact IH].
  constructor; [split; [reflexivity|exact R]|exact IH].
Qed.

Theorem links_frame : forall f p e, In (f, p) fset -> In e V -> erel fs db (f, p) e ->
  exists l, document_link db f = Done l /\
            tr_links fs l = Some (plinks_of (e_links e) (c_items (e_content e))).
Proof.
  intros f p e Hi He [A [B [C [lid [D L]]]]]. cbn [fst snd] in *.
  exists (links_of lid (c_items (e_content e))). split.
  - unfold document_link. rewrite D, C. reflexivity.
  - apply tr_links_rel. apply links_rel. exact L.
Qed.

End Frame.

(** ** the modelled queries after a history = after a fresh start *)
Section FrameSession.
Context {path istr : Type} {PA : PathAlg path istr} {PAok : PathAlgOk path istr}.
Notation content := (content istr).
Notation world := (world path istr).
Notation state := (@state path istr).
Notation entry := (@entry path istr).

(** the index query with every FileId translated to its path *)
Definition index_by_path (st : state) (fuel : nat) : outcome (option (list (@pevent path))) :=
  match index fuel (snd st) with
  | Done tr => Done (all_some (map (ev_path (fst st)) tr))
  | OutOfFuel => OutOfFuel
  | Panic e => Panic e
  end.

(** document_link of the file at path [q], targets translated to paths *)
Definition links_by_path (st : state) (q : path) : option (outcome (option (list (rng * path)))) :=
  match file_for_path (fst st) q with
  | None => None
  | Some f => Some match document_link (snd st) f with
                   | Done l => Done (tr_links (fst st) l)
                   | OutOfFuel => OutOfFuel
                   | Panic e => Panic e
                   end
  end.

Definition workspace_by_path (st : state) : option (list path) :=
  option_map (map snd) (workspace (snd st)).

(** what a session state looks like, in terms of its view *)
Lemma session_frame : forall (w : world) fuel h p c (st : state),
  run fuel w st_init (h ++ [(p, c)]) = Done st ->
  exists (V : list entry) fset root,
    view st = Some (p, V) /\
    pcollect (truth w (h ++ [(p, c)])) (extra w) fuel [p] [] = Done V /\
    sroot (snd st) = Some (fset, root) /\ path_for_file (fst st) root = Some p /\
    In root (map fst fset) /\ wf_fs (fst st) /\
    Forall2 (erel (fst st) (snd st)) fset V /\ NoDup (map e_path V) /\
    (forall x lid sid g, In x fset -> rim (snd st) (fst x) = Some lid -> In (sid, g) lid ->
                         In g (map fst fset)).
Proof.
  intros w fuel h p c st E.
  destruct (run_view w fuel h p c st E) as [s1 [V [_ [_ [HV [Hview [[fset [root [S [R [F [[W _] _]]]]]] _]]]]]]].
  assert (Hr : truth w (h ++ [(p, c)]) p <> None).
  { unfold truth, last_text. rewrite rev_app_distr. cbn [rev app assoc]. rewrite path_eqb_refl. discriminate. }
  destruct (pcollect_reach _ _ p fuel V Hr HV) as [Hreach [ND Hok]].
  assert (Hid : forall t g, path_for_file (fst st) g = Some t ->
                            reach (truth w (h ++ [(p, c)])) (extra w) p t -> In g (map fst fset)).
  { intros t g Hg Ht. apply Hreach in Ht. rewrite <- (erel_paths _ _ _ _ F) in Ht.
    apply in_map_iff in Ht. destruct Ht as [[g' t'] [Et Hi]]. cbn [snd] in Et. subst t'.
    pose proof (erel_pof _ _ _ _ _ _ F Hi) as Hg'.
    assert (g = g') by (eapply pof_inj; eauto). subst g'.
    change g with (fst (g, t)). apply in_map. exact Hi. }
  exists V, fset, root. split; [exact Hview|]. split; [exact HV|]. split; [exact S|]. split; [exact R|].
  split; [apply (Hid p root R); constructor|]. split; [exact W|]. split; [exact F|]. split; [exact ND|].
  intros [f q] lid sid g Hi Hm Hg. cbn [fst] in Hm.
  destruct (Forall2_in_l _ _ _ _ _ F (f, q) Hi) as [e [He [A [B [_ [lid' [D L]]]]]]]. cbn [fst snd] in A, B, D.
  assert (lid' = lid) by congruence. subst lid'.
  destruct (Forall2_in_l _ _ _ _ _ L (sid, g) Hg) as [[sid2 t] [Ht [_ Hgt]]]. cbn [snd] in Hgt.
  rewrite Forall_forall in Hok. pose proof (entry_ok_links _ _ e (Hok e He)) as El.
  apply (Hid t g Hgt). apply reach_step with (p := e_path e) (sid := sid2).
  - apply Hreach. apply in_map. exact He.
  - rewrite <- El. exact Ht.
Qed.

Lemma index_by_path_view : forall (w : world) fuel h p c (st : state) fuelq,
  run fuel w st_init (h ++ [(p, c)]) = Done st ->
  exists V, view st = Some (p, V) /\
    index_by_path st fuelq = match pindex fuelq V p with
                             | Done ptr => Done (Some ptr)
                             | OutOfFuel => OutOfFuel
                             | Panic e => Panic e
                             end.
Proof.
  intros w fuel h p c st fuelq E.
  destruct (session_frame w fuel h p c st E) as [V [fset [root [Hv [_ [S [R [Hr [W [F [ND Cl]]]]]]]]]]].
  exists V. split; [exact Hv|].
  pose proof (index_frame (fst st) (snd st) fset V W F ND Cl fuelq root p S R Hr) as K.
  unfold index_by_path.
  destruct (index fuelq (snd st)) as [tr| |e], (pindex fuelq V p) as [ptr| |e']; try contradiction;
    try reflexivity; [rewrite K; reflexivity|congruence].
Qed.

Lemma links_by_path_view : forall (w : world) fuel h p c (st : state) V e,
  run fuel w st_init (h ++ [(p, c)]) = Done st ->
  view st = Some (p, V) -> In e V ->
  links_by_path st (e_path e) = Some (Done (Some (plinks_of (e_links e) (c_items (e_content e))))).
Proof.
  intros w fuel h p c st V e E Hv He.
  destruct (session_frame w fuel h p c st E) as [V' [fset [root [Hv' [_ [S [R [Hr [W [F [ND Cl]]]]]]]]]]].
  rewrite Hv in Hv'. injection Hv' as <-.
  assert (Hx : exists f, In (f, e_path e) fset /\ erel (fst st) (snd st) (f, e_path e) e).
  { clear - F He. induction F as [|x e' fset V Hxe _ IH]; [contradiction|].
    destruct He as [<-|He].
    - destruct x as [f q]. pose proof Hxe as [A _]. cbn [snd] in A. subst q.
      exists f. split; [left; reflexivity|exact Hxe].
    - destruct (IH He) as [f [Hi Hr]]. exists f. split; [right; exact Hi|exact Hr]. }
  destruct Hx as [f [Hi Hr']].
  destruct (links_frame (fst st) (snd st) fset V f (e_path e) e Hi He Hr') as [l [Hl Ht]].
  unfold links_by_path. pose proof Hr' as [_ [B _]]. cbn [fst snd] in B.
  rewrite (wf_pf _ W _ _ B), Hl, Ht. reflexivity.
Qed.

Theorem queries_history_independent : forall (w : world) h p c fuel1 fuel2 (st1 st2 : state),
  run fuel1 w st_init (h ++ [(p, c)]) = Done st1 ->
  run fuel2 (overlay w (h ++ [(p, c)])) st_init [(p, c)] = Done st2 ->
  workspace_by_path st1 = workspace_by_path st2 /\
  (forall fuelq, index_by_path st1 fuelq = index_by_path st2 fuelq) /\
  (forall q, In q (match workspace_by_path st1 with Some l => l | None => [] end) ->
             links_by_path st1 q = links_by_path st2 q).
Proof.
  intros w h p c fuel1 fuel2 st1 st2 E1 E2.
  destruct (history_independent w h p c fuel1 fuel2 st1 st2 E1 E2) as [Hv [V [Hv1 _]]].
  assert (Hv2 : view st2 = Some (p, V)) by congruence.
  destruct (session_frame w fuel1 h p c st1 E1) as [V1 [fset1 [root1 [A1 [_ [S1 [_ [_ [_ [F1 _]]]]]]]]]].
  destruct (session_frame (overlay w (h ++ [(p, c)])) fuel2 [] p c st2 E2)
    as [V2 [fset2 [root2 [A2 [_ [S2 [_ [_ [_ [F2 _]]]]]]]]]].
  assert (V1 = V) by congruence. assert (V2 = V) by congruence. subst V1 V2.
  assert (Hws : forall (st : state) fset root, sroot (snd st) = Some (fset, root) ->
                  Forall2 (erel (fst st) (snd st)) fset V -> workspace_by_path st = Some (map e_path V)).
  { intros st fset root S F. unfold workspace_by_path, workspace. rewrite S. cbn [option_map].
    rewrite (erel_paths _ _ _ _ F). reflexivity. }
  rewrite (Hws st1 _ _ S1 F1), (Hws st2 _ _ S2 F2).
  split; [reflexivity|]. split.
  - intro fuelq.
    destruct (index_by_path_view w fuel1 h p c st1 fuelq E1) as [Va [Ha Ia]].
    destruct (index_by_path_view (overlay w (h ++ [(p, c)])) fuel2 [] p c st2 fuelq E2) as [Vb [Hb Ib]].
    assert (Va = V) by congruence. assert (Vb = V) by congruence. subst Va Vb. congruence.
  - intros q Hq. apply in_map_iff in Hq. destruct Hq as [e [<- He]].
    rewrite (links_by_path_view w fuel1 h p c st1 V e E1 Hv1 He).
    rewrite (links_by_path_view (overlay w (h ++ [(p, c)])) fuel2 [] p c st2 V e E2 Hv2 He).
    reflexivity.
Qed.

End FrameSession.
