(** The bridge is LINEAR: core_of_tree visits every Identifier node at most once, so the identifier occurrences of the
    CoreAst have pairwise different ranges (given that they are non-empty, which holds for every parse:
    IdNonEmpty.parse_id_nonempty).  This is the AST-side fact a proof of symmap's [log_fresh] starts from.

    Method: every translator, called on the located node x, produces identifier ranges that lie WITHIN x; the nodes a
    translator hands to its sub-translators are children of x with pairwise disjoint spans - different accessor
    fields of one node select different children, which is a finite CHECK on the generated accessor table
    ([field_nonoverlap], evaluated by computation for each pair of fields the bridge uses). *)
From Coq Require Import List NArith ZArith Bool String PeanoNat Lia.
From TG.Gen Require Import GenTokens GenAst.
From TG.Model Require Import Chars Lexer Tree AstAccess CoreAst AstToCore CoreParts.
From TG.Proofs Require Import ParserTile BridgeProofs.
Import ListNotations.
Close Scope string_scope.
Open Scope N_scope.
Open Scope list_scope.

(** * Spans of located nodes *)
Definition before (y1 y2 : lnode) : Prop := l_end y1 <= fst y2.
Definition Disj (y1 y2 : lnode) : Prop := before y1 y2 \/ before y2 y1.
Lemma Disj_sym a b : Disj a b -> Disj b a. Proof. unfold Disj. tauto. Qed.

Inductive chain : list lnode -> Prop :=
| chain_nil : chain []
| chain_cons : forall y l, Forall (before y) l -> chain l -> chain (y :: l).

Lemma with_offsets_ge : forall cs o y, In y (with_offsets o cs) -> o <= fst y.
Proof.
  induction cs as [|c r IH]; intros o y H; cbn [with_offsets] in H; [contradiction|].
  destruct H as [<-|H]; [cbn; lia|]. apply IH in H. lia.
Qed.
Lemma with_offsets_chain : forall cs o, chain (with_offsets o cs).
Proof.
  induction cs as [|c r IH]; intros o; cbn [with_offsets]; constructor; [|apply IH].
  apply Forall_forall. intros y Hy. apply with_offsets_ge in Hy. unfold before, l_end. cbn [fst snd]. exact Hy.
Qed.
Lemma lchildren_chain x : chain (lchildren x).
Proof. apply with_offsets_chain. Qed.

Lemma chain_filter p : forall l, chain l -> chain (filter p l).
Proof.
  induction 1 as [|y l F C IH]; cbn [filter]; [constructor|]. destruct (p y); [|exact IH].
  constructor; [|exact IH]. apply Forall_forall. intros z Hz. apply filter_In in Hz. rewrite Forall_forall in F. apply F. tauto.
Qed.
Lemma chain_firstn n : forall l, chain l -> chain (firstn n l).
Proof.
  induction n; intros l C; [constructor|]. destruct C as [|y l F C]; cbn [firstn]; constructor; [|apply IHn; exact C].
  apply Forall_forall. intros z Hz. apply firstn_In' in Hz. rewrite Forall_forall in F. auto.
Qed.
Lemma chain_nth : forall l, chain l -> forall i j y1 y2, (i < j)%nat -> nth_error l i = Some y1 -> nth_error l j = Some y2 -> before y1 y2.
Proof.
  induction 1 as [|y l F C IH]; intros i j y1 y2 LT H1 H2; [destruct i; discriminate|].
  destruct j as [|j]; [lia|]. cbn [nth_error] in H2. destruct i as [|i]; cbn [nth_error] in H1.
  - inversion H1; subst. rewrite Forall_forall in F. apply F. eapply nth_error_In. exact H2.
  - eapply IH; [|exact H1|exact H2]. lia.
Qed.
Lemma chain_in : forall l, chain l -> forall y1 y2, In y1 l -> In y2 l -> y1 = y2 \/ Disj y1 y2.
Proof.
  induction 1 as [|y l F C IH]; intros y1 y2 H1 H2; [contradiction|]. rewrite Forall_forall in F.
  destruct H1 as [<-|H1], H2 as [<-|H2]; auto.
  - right. left. auto.
  - right. right. auto.
Qed.

Definition sel (x : lnode) (ks : list SyntaxKind) : list lnode :=
  filter (fun c => is_node (snd c) && kind_in (kind_of (snd c)) ks) (lchildren x).
Definition pick (m : acc_mode) (cs : list lnode) : list lnode :=
  match m with AChild => firstn 1 cs | AChildren => cs | ANth i => match nth_error cs i with Some c => [c] | None => [] end end.
Lemma laccess_eq x ks m : laccess x ks m = pick m (sel x ks).
Proof. reflexivity. Qed.
Lemma sel_chain x ks : chain (sel x ks).
Proof. apply chain_filter, lchildren_chain. Qed.
Lemma pick_in m cs y : In y (pick m cs) -> In y cs.
Proof.
  destruct m as [| |i]; cbn [pick]; intros H; [eapply firstn_In'; exact H|exact H|].
  destruct (nth_error cs i) eqn:E; [|contradiction]. destruct H as [<-|[]]. eapply nth_error_In. exact E.
Qed.
Lemma pick_chain m cs : chain cs -> chain (pick m cs).
Proof.
  intros C. destruct m as [| |i]; cbn [pick]; [apply chain_firstn; exact C|exact C|].
  destruct (nth_error cs i); constructor; constructor.
Qed.
Lemma laccess_chain x ks m : chain (laccess x ks m).
Proof. rewrite laccess_eq. apply pick_chain, sel_chain. Qed.

Lemma forest_len_app a b : forest_len (a ++ b) = forest_len a + forest_len b.
Proof. induction a as [|d a IH]; unfold forest_len in *; cbn [app fold_right]; [reflexivity|]. rewrite IH. apply N.add_assoc. Qed.
Lemma forest_len_cons c b : forest_len (c :: b) = tree_len c + forest_len b.
Proof. reflexivity. Qed.

Lemma child_within x y : In y (lchildren x) -> fst x <= fst y /\ l_end y <= l_end x.
Proof.
  destruct x as [o [k cs|k tx]]; unfold lchildren; cbn [fst snd children_of]; intros H; [|contradiction].
  destruct y as [oy c]. destruct (with_offsets_split _ _ _ _ H) as (a & b & -> & ->). unfold l_end. cbn [fst snd].
  rewrite tree_len_node, forest_len_app, forest_len_cons. clear H.
  generalize (forest_len a) (tree_len c) (forest_len b). intros na nc nb. lia.
Qed.

(** * Different fields select different children: a check on the generated table *)
Fixpoint kinds_disjoint (a b : list SyntaxKind) : bool :=
  match a with [] => true | k :: r => negb (kind_in k b) && kinds_disjoint r b end.
Definition mode_idx (m : acc_mode) : option nat := match m with AChild => Some O | ANth i => Some i | AChildren => None end.
Definition acc_nonoverlap (a b : string * list SyntaxKind * acc_mode) : bool :=
  kinds_disjoint (acc_kinds a) (acc_kinds b) ||
  (kinds_same (acc_kinds a) (acc_kinds b) &&
   match mode_idx (acc_mode_of a), mode_idx (acc_mode_of b) with Some i, Some j => negb (Nat.eqb i j) | _, _ => false end).
Definition field_acc (k : SyntaxKind) (f : string) : option (string * list SyntaxKind * acc_mode) :=
  find (fun a => String.eqb (fst (fst a)) f) (accessors_of k).
Definition field_nonoverlap (k : SyntaxKind) (fa fb : string) : bool :=
  match field_acc k fa, field_acc k fb with Some a, Some b => acc_nonoverlap a b | _, _ => true end.

Lemma kinds_disjoint_spec a b k : kinds_disjoint a b = true -> kind_in k a = true -> kind_in k b = true -> False.
Proof.
  induction a as [|x a IH]; cbn [kinds_disjoint kind_in existsb]; [discriminate|]. intros H Ha Hb.
  apply andb_true_iff in H. destruct H as [H1 H2]. apply orb_true_iff in Ha. destruct Ha as [Ha|Ha].
  - apply sk_eqb_eq in Ha. subst x. rewrite Hb in H1. discriminate.
  - apply IH; assumption.
Qed.
Lemma kinds_same_eq' a : forall b, kinds_same a b = true -> a = b.
Proof.
  induction a as [|x a IH]; intros [|y b] H; cbn [kinds_same] in H; try discriminate; [reflexivity|].
  apply andb_true_iff in H. destruct H as [H1 H2]. apply sk_eqb_eq in H1. f_equal; auto.
Qed.

Lemma single_of_mode (cs : list lnode) m i y : mode_idx m = Some i -> In y (pick m cs) -> nth_error cs i = Some y.
Proof.
  destruct m as [| |k]; cbn [mode_idx pick]; intros E H; inversion E; subst.
  - destruct cs as [|c r]; cbn [firstn] in H; [contradiction|]. destruct H as [<-|[]]. reflexivity.
  - destruct (nth_error cs i) as [c|]; [destruct H as [<-|[]]; reflexivity|contradiction].
Qed.

Lemma laccess_disj x a b y1 y2 : acc_nonoverlap a b = true ->
  In y1 (laccess x (acc_kinds a) (acc_mode_of a)) -> In y2 (laccess x (acc_kinds b) (acc_mode_of b)) -> Disj y1 y2.
Proof.
  intros NO H1 H2. unfold acc_nonoverlap in NO. apply orb_true_iff in NO. destruct NO as [NO|NO].
  - destruct (laccess_is_node _ _ _ _ H1) as (_ & K1). destruct (laccess_is_node _ _ _ _ H2) as (_ & K2).
    apply laccess_children in H1. apply laccess_children in H2.
    destruct (chain_in _ (lchildren_chain x) _ _ H1 H2) as [E|D]; [|exact D]. subst y2. exfalso. eapply kinds_disjoint_spec; eauto.
  - apply andb_true_iff in NO. destruct NO as [KS NO]. apply kinds_same_eq' in KS.
    destruct (mode_idx (acc_mode_of a)) as [i|] eqn:Ma; [|discriminate]. destruct (mode_idx (acc_mode_of b)) as [j|] eqn:Mb; [|discriminate].
    apply negb_true_iff, Nat.eqb_neq in NO. rewrite laccess_eq in H1, H2. rewrite <- KS in H2.
    pose proof (single_of_mode _ _ _ _ Ma H1) as N1. pose proof (single_of_mode _ _ _ _ Mb H2) as N2.
    pose proof (sel_chain x (acc_kinds a)) as C.
    destruct (Nat.lt_ge_cases i j) as [LT|GE].
    + left. eapply chain_nth; eauto.
    + right. eapply chain_nth; [exact C| |exact N2|exact N1]. lia.
Qed.

Lemma field_disj x fa fb y1 y2 : field_nonoverlap (l_kind x) fa fb = true ->
  In y1 (field x fa) -> In y2 (field x fb) -> Disj y1 y2.
Proof.
  unfold field_nonoverlap, field_acc, field. intros NO H1 H2.
  destruct (find (fun a => String.eqb (fst (fst a)) fa) (accessors_of (l_kind x))) as [a|]; [|contradiction].
  destruct (find (fun a => String.eqb (fst (fst a)) fb) (accessors_of (l_kind x))) as [b|]; [|contradiction].
  eapply laccess_disj; eauto.
Qed.
Lemma field_chain x f : chain (field x f).
Proof. unfold field. destruct (find _ _); [apply laccess_chain|constructor]. Qed.
Lemma field_within x f y : In y (field x f) -> fst x <= fst y /\ l_end y <= l_end x.
Proof. intros H. apply child_within. eapply field_children. exact H. Qed.

(** * Identifier ranges of a part list, and where they lie *)
Definition ids (L : list part) : list rng := flat_map (fun p => match p with PI i => [i_rng i] | PR _ => [] end) L.
Lemma ids_app a b : ids (a ++ b) = ids a ++ ids b.
Proof. unfold ids. apply flat_map_app. Qed.
Lemma ids_flat_map {A} (g : A -> list part) (l : list A) : ids (flat_map g l) = flat_map (fun v => ids (g v)) l.
Proof. induction l as [|v l IH]; [reflexivity|]. cbn [flat_map]. rewrite ids_app, IH. reflexivity. Qed.
Lemma ids_opt {A} (g : A -> list part) (o : option A) : ids (opt_parts g o) = match o with Some a => ids (g a) | None => [] end.
Proof. destruct o; reflexivity. Qed.

Definition within (y : lnode) (r : rng) : Prop := fst y <= r_lo r /\ r_hi r <= l_end y.
Definition nonempty (r : rng) : Prop := r_lo r < r_hi r.
Definition okr (ys : list lnode) (R : list rng) : Prop :=
  (Forall nonempty R -> NoDup R) /\ Forall (fun r => Exists (fun y => within y r) ys) R.

Lemma okr_nil ys : okr ys [].
Proof. split; [intros; constructor|constructor]. Qed.
Lemma okr_single y r : within y r -> okr [y] [r].
Proof. intros W. split; [intros; constructor; [intros []|constructor]|]. constructor; [constructor; exact W|constructor]. Qed.
Lemma okr_incl ys ys' R : incl ys ys' -> okr ys R -> okr ys' R.
Proof.
  intros I (N & F). split; [exact N|]. eapply Forall_impl; [|exact F]. intros r E. apply Exists_exists in E.
  destruct E as (y & Hy & W). apply Exists_exists. exists y. split; [apply I; exact Hy|exact W].
Qed.
Lemma okr_in ys y R : In y ys -> okr [y] R -> okr ys R.
Proof. intros H. apply okr_incl. intros z [<-|[]]. exact H. Qed.
Lemma okr_collapse x ys R : (forall y, In y ys -> fst x <= fst y /\ l_end y <= l_end x) -> okr ys R -> okr [x] R.
Proof.
  intros H (N & F). split; [exact N|]. eapply Forall_impl; [|exact F]. intros r E. apply Exists_exists in E.
  destruct E as (y & Hy & (W1 & W2)). constructor. destruct (H y Hy). unfold within. lia.
Qed.

Lemma NoDup_app' {A} (a b : list A) : NoDup a -> NoDup b -> (forall x, In x a -> In x b -> False) -> NoDup (a ++ b).
Proof.
  induction a as [|x a IH]; intros Na Nb H; [exact Nb|]. inversion Na; subst. cbn [app]. constructor.
  - intros I. apply in_app_or in I. destruct I as [I|I]; [contradiction|]. eapply H; [left; reflexivity|exact I].
  - apply IH; auto. intros y Hy. apply H. right. exact Hy.
Qed.

Lemma okr_app ys1 ys2 R1 R2 :
  (forall y1 y2, In y1 ys1 -> In y2 ys2 -> Disj y1 y2) -> okr ys1 R1 -> okr ys2 R2 -> okr (ys1 ++ ys2) (R1 ++ R2).
Proof.
  intros D (N1 & F1) (N2 & F2). split.
  - intros NE. apply Forall_app in NE. destruct NE as [NE1 NE2]. apply NoDup_app'; auto.
    intros r I1 I2. rewrite Forall_forall in F1, F2, NE1.
    pose proof (F1 r I1) as E1. pose proof (F2 r I2) as E2. apply Exists_exists in E1, E2.
    destruct E1 as (y1 & H1 & (A1 & B1)). destruct E2 as (y2 & H2 & (A2 & B2)).
    pose proof (NE1 r I1) as NEr. unfold nonempty in NEr. destruct (D y1 y2 H1 H2) as [B|B]; unfold before in B; lia.
  - apply Forall_app. split; (eapply Forall_impl; [|eassumption]); intros r E; apply Exists_exists in E;
      destruct E as (y & Hy & W); apply Exists_exists; exists y; (split; [apply in_or_app; auto|exact W]).
Qed.

(** a chain of nodes, each with its own ranges *)
Lemma okr_concat : forall ys Rs, chain ys -> Forall2 (fun y R => okr [y] R) ys Rs -> okr ys (List.concat Rs).
Proof.
  intros ys Rs C F. revert C. induction F as [|y R ys Rs H F IH]; intros C; [apply okr_nil|].
  inversion C as [|y0 l0 B C']; subst. cbn [List.concat].
  change (y :: ys) with ([y] ++ ys). apply okr_app; [|exact H|apply IH; exact C'].
  intros y1 y2 [<-|[]] H2. left. rewrite Forall_forall in B. apply B. exact H2.
Qed.

Lemma mapM_forall2 {A B} (f : A -> res B) : forall l ys, mapM f l = Ok ys -> Forall2 (fun x y => f x = Ok y) l ys.
Proof.
  induction l as [|x l IH]; intros ys E; cbn [mapM] in E; [inversion E; constructor|].
  destruct (f x) as [b| |] eqn:G; cbn [bind] in E; try discriminate.
  destruct (mapM f l) as [bs| |] eqn:M; cbn [bind] in E; try discriminate. inversion E; subst. constructor; [exact G|apply IH; reflexivity].
Qed.

Lemma okr_mapM {A} (f : lnode -> res A) (g : A -> list part) ys vs :
  chain ys -> mapM f ys = Ok vs -> (forall y v, In y ys -> f y = Ok v -> okr [y] (ids (g v))) -> okr ys (ids (flat_map g vs)).
Proof.
  intros C M H. rewrite ids_flat_map. rewrite flat_map_concat_map. apply okr_concat; [exact C|].
  apply mapM_forall2 in M. clear C. induction M as [|y v ys vs E M IH]; cbn [map]; constructor.
  - apply H; [left; reflexivity|exact E].
  - apply IH. intros y0 v0 H0. apply H. right. exact H0.
Qed.

(** the fields of one node *)
Definition fields (x : lnode) (names : list string) : list lnode := flat_map (field x) names.
Lemma okr_fnil x : okr (fields x []) [].
Proof. apply okr_nil. Qed.
Lemma okr_fcons x fa names R1 R2 :
  forallb (fun fb => field_nonoverlap (l_kind x) fa fb) names = true ->
  okr (field x fa) R1 -> okr (fields x names) R2 -> okr (fields x (fa :: names)) (R1 ++ R2).
Proof.
  intros NO H1 H2. unfold fields. cbn [flat_map]. apply okr_app; [|exact H1|exact H2].
  intros y1 y2 I1 I2. apply in_flat_map in I2. destruct I2 as (fb & Hfb & I2).
  rewrite forallb_forall in NO. eapply field_disj; [apply NO; exact Hfb|exact I1|exact I2].
Qed.
Lemma okr_flast x fa R : okr (field x fa) R -> okr (fields x [fa]) R.
Proof. intros H. unfold fields. cbn [flat_map]. rewrite app_nil_r. exact H. Qed.
Lemma okr_fcollapse x names R : okr (fields x names) R -> okr [x] R.
Proof.
  apply okr_collapse. intros y Hy. unfold fields in Hy. apply in_flat_map in Hy. destruct Hy as (f & _ & Hy).
  eapply field_within. exact Hy.
Qed.

(** * Results of the small combinators *)
Lemma need_ok_in {A} (l : list A) w a : need l w = Ok a -> In a l.
Proof. destruct l; cbn [need]; intros E; inversion E. left. reflexivity. Qed.
Lemma opt_with_ok {A} (f : lnode -> res A) l o : opt_with f l = Ok o ->
  (l = [] /\ o = None) \/ (exists v r a, l = v :: r /\ f v = Ok a /\ o = Some a).
Proof.
  destruct l as [|v r]; cbn [opt_with]; intros E; [inversion E; auto|].
  destruct (f v) as [a| |] eqn:F; cbn [bind] in E; try discriminate. inversion E. right. eauto 6.
Qed.

Lemma first_tok_within : forall t0 off o k txt, first_tok off t0 = Some (o, Tok k txt) ->
  off <= o /\ o + bytes txt <= off + tree_len t0.
Proof.
  fix IH 1. intros [k0 cs|k0 tx] off o k txt E.
  - destruct cs as [|c r]; cbn [first_tok] in E; [discriminate|]. destruct (IH c off o k txt E) as (A & B).
    rewrite tree_len_node, forest_len_cons. split; [exact A|]. generalize dependent (tree_len c). intros. lia.
  - cbn [first_tok] in E. inversion E; subst. cbn [tree_len]. split; lia.
Qed.

Lemma c_ident_within c y i : c_ident c y = Ok i -> within y (i_rng i).
Proof.
  unfold c_ident. destruct (sk_eqb (l_kind y) S_Identifier); [|discriminate]. unfold m_identifier, first_token.
  destruct (first_tok (fst y) (snd y)) as [[o [k cs|k txt]]|] eqn:F; cbn [need_opt]; try discriminate.
  intros E. inversion E; subst i. cbn [i_rng]. destruct (first_tok_within _ _ _ _ _ F) as (A & B).
  unfold within, l_end. cbn [r_lo r_hi]. split; assumption.
Qed.
Lemma m_identifier_within c y i : m_identifier c y = Some i -> within y (i_rng i).
Proof.
  unfold m_identifier, first_token. destruct (first_tok (fst y) (snd y)) as [[o [k cs|k txt]]|] eqn:F; try discriminate.
  intros E. inversion E; subst i. cbn [i_rng]. destruct (first_tok_within _ _ _ _ _ F) as (A & B).
  unfold within, l_end. cbn [r_lo r_hi]. split; assumption.
Qed.

(** * The table checks: the fields the bridge combines select different children, for EVERY node kind *)
Ltac chk := intros k; destruct k; reflexivity.
Lemma no_sv_suf : forall k, field_nonoverlap k "simple_value" "suffixes" = true. Proof. chk. Qed.
Lemma no_op_al : forall k, field_nonoverlap k "operator" "arg_list" = true. Proof. chk. Qed.
Lemma no_name_avl : forall k, field_nonoverlap k "name" "arg_value_list" = true. Proof. chk. Qed.
Lemma no_type_values : forall k, field_nonoverlap k "type" "values" = true. Proof. chk. Qed.
Lemma no_cond_value : forall k, field_nonoverlap k "condition" "value" = true. Proof. chk. Qed.
Lemma no_type_name : forall k, field_nonoverlap k "type" "name" = true. Proof. chk. Qed.
Lemma no_type_value : forall k, field_nonoverlap k "type" "value" = true. Proof. chk. Qed.
Lemma no_name_value : forall k, field_nonoverlap k "name" "value" = true. Proof. chk. Qed.
Lemma no_cond_msg : forall k, field_nonoverlap k "condition" "message" = true. Proof. chk. Qed.
Lemma no_pcl_body : forall k, field_nonoverlap k "parent_class_list" "body" = true. Proof. chk. Qed.
Lemma no_name_tal : forall k, field_nonoverlap k "name" "template_arg_list" = true. Proof. chk. Qed.
Lemma no_name_rb : forall k, field_nonoverlap k "name" "record_body" = true. Proof. chk. Qed.
Lemma no_tal_rb : forall k, field_nonoverlap k "template_arg_list" "record_body" = true. Proof. chk. Qed.
Lemma no_name_pcl : forall k, field_nonoverlap k "name" "parent_class_list" = true. Proof. chk. Qed.
Lemma no_type_sl : forall k, field_nonoverlap k "type" "statement_list" = true. Proof. chk. Qed.
Lemma no_name_sl : forall k, field_nonoverlap k "name" "statement_list" = true. Proof. chk. Qed.
Lemma no_it_body : forall k, field_nonoverlap k "iterator" "body" = true. Proof. chk. Qed.
Lemma no_name_init : forall k, field_nonoverlap k "name" "init" = true. Proof. chk. Qed.
Lemma no_cond_then : forall k, field_nonoverlap k "condition" "then_body" = true. Proof. chk. Qed.
Lemma no_cond_else : forall k, field_nonoverlap k "condition" "else_body" = true. Proof. chk. Qed.
Lemma no_then_else : forall k, field_nonoverlap k "then_body" "else_body" = true. Proof. chk. Qed.
Lemma no_ll_sl : forall k, field_nonoverlap k "let_list" "statement_list" = true. Proof. chk. Qed.
Lemma no_tal_pcl : forall k, field_nonoverlap k "template_arg_list" "parent_class_list" = true. Proof. chk. Qed.
Lemma no_tal_sl : forall k, field_nonoverlap k "template_arg_list" "statement_list" = true. Proof. chk. Qed.
Lemma no_pcl_sl : forall k, field_nonoverlap k "parent_class_list" "statement_list" = true. Proof. chk. Qed.

(** * The translators *)
Lemma okr_field x f y R : In y (field x f) -> okr [y] R -> okr [x] R.
Proof. intros H O. eapply okr_collapse; [|exact O]. intros z [<-|[]]. eapply field_within. exact H. Qed.
Lemma okr_field_in x f y R : In y (field x f) -> okr [y] R -> okr (field x f) R.
Proof. intros H. apply okr_in. exact H. Qed.

Ltac wb := repeat (apply wsafe_bind; intros ? ?).
Ltac inn := repeat match goal with H : need _ _ = Ok _ |- _ => apply need_ok_in in H end.

Section Lin.
Variable c : cx.

Lemma l_typ : forall n x, wsafe (fun t => okr [x] (ids (ty_parts t))) (c_typ n c x).
Proof.
  induction n as [|n IH]; intros x; [exact I|]. cbn [c_typ].
  destruct (l_kind x); try exact I; try (cbn [wsafe ty_parts ids flat_map]; apply okr_nil).
  - wb. destruct (a0 <? 0)%Z; cbn [wsafe ty_parts ids flat_map]; [exact I|apply okr_nil].
  - wb. inn. cbn [wsafe ty_parts]. pose proof (IH a) as W. rewrite H0 in W. eapply okr_field; eauto.
  - wb. inn. cbn [wsafe ty_parts ids flat_map app]. eapply okr_field; [exact H|]. apply okr_single. eapply c_ident_within; eauto.
Qed.

Lemma l_suffix x : wsafe (fun s => okr [x] (ids (suffix_parts s))) (c_suffix c x).
Proof.
  unfold c_suffix. destruct (l_kind x); try exact I; try (cbn [wsafe suffix_parts ids flat_map]; apply okr_nil).
  wb. inn. cbn [wsafe suffix_parts ids flat_map app]. eapply okr_field; [exact H|]. apply okr_single. eapply c_ident_within; eauto.
Qed.

Lemma mapM_app {A B} (f : A -> res B) : forall a b vs, mapM f (a ++ b) = Ok vs ->
  exists va vb, vs = va ++ vb /\ mapM f a = Ok va /\ mapM f b = Ok vb.
Proof.
  induction a as [|x a IH]; intros b vs E; cbn [app] in E; [exists [], vs; auto|]. cbn [mapM] in *.
  destruct (f x) as [y| |]; cbn [bind] in *; try discriminate.
  destruct (mapM f (a ++ b)) as [ys| |] eqn:M; cbn [bind] in E; try discriminate. inversion E; subst.
  destruct (IH b ys M) as (va & vb & -> & Ea & Eb). exists (y :: va), vb. rewrite Ea. cbn [bind]. auto.
Qed.
Lemma mapM_concat {A B} (f : A -> res B) : forall ls vs, mapM f (List.concat ls) = Ok vs ->
  exists vss, vs = List.concat vss /\ Forall2 (fun l vl => mapM f l = Ok vl) ls vss.
Proof.
  induction ls as [|l ls IH]; intros vs E; cbn [List.concat] in E; [cbn in E; inversion E; exists []; split; [reflexivity|constructor]|].
  destruct (mapM_app f _ _ _ E) as (va & vb & -> & Ea & Eb). destruct (IH vb Eb) as (vss & -> & F).
  exists (va :: vss). split; [reflexivity|constructor; assumption].
Qed.

Definition lin_values (n : nat) : Prop :=
  (forall x, wsafe (fun v => okr [x] (ids (value_parts v))) (c_value n c x)) /\
  (forall x, wsafe (fun v => okr [x] (ids (inner_parts v))) (c_inner n c x)) /\
  (forall x, wsafe (fun v => okr [x] (ids (simple_parts v))) (c_simple n c x)) /\
  (forall x, wsafe (fun v => okr [x] (ids (arg_parts v))) (c_arg n c x)).

(** values of a list of nodes that are children of [x] through the field [f] *)
Lemma okr_values n x f vs : (forall y, wsafe (fun v => okr [y] (ids (value_parts v))) (c_value n c y)) ->
  mapM (c_value n c) (field x f) = Ok vs -> okr (field x f) (ids (flat_map value_parts vs)).
Proof.
  intros IH M. eapply okr_mapM; [apply field_chain|exact M|]. intros y v _ E. pose proof (IH y) as W. rewrite E in W. exact W.
Qed.

Lemma ids_concat_values (vss : list (list value)) :
  ids (flat_map value_parts (List.concat vss)) = List.concat (map (fun vl => ids (flat_map value_parts vl)) vss).
Proof. induction vss as [|vl vss IH]; [reflexivity|]. cbn [List.concat map]. rewrite flat_map_app, ids_app, IH. reflexivity. Qed.

Lemma lin_values_all : forall n, lin_values n.
Proof.
  induction n as [|n (IHv & IHi & IHs & IHa)]; [repeat split; intros; exact I|].
  split; [|split; [|split]]; intros x.
  - (* value *)
    cbn [c_value]. wb. destruct a as [|i0 ir]; [exact I|]. cbn [wsafe value_parts]. change (ids (PR (rng_of c x) :: flat_map inner_parts (i0 :: ir))) with (ids (flat_map inner_parts (i0 :: ir))).
    eapply okr_fcollapse with (names := ["inner_values"%string]). apply okr_flast.
    eapply okr_mapM; [apply field_chain|exact H|]. intros y v _ E. pose proof (IHi y) as W. rewrite E in W. exact W.
  - (* inner *)
    cbn [c_inner]. wb. inn. cbn [wsafe inner_parts]. rewrite ids_app.
    eapply okr_fcollapse with (names := ["simple_value"%string; "suffixes"%string]).
    apply okr_fcons; [cbn [forallb]; rewrite no_sv_suf; reflexivity| |apply okr_flast].
    + eapply okr_field_in; [exact H|]. pose proof (IHs a) as W. rewrite H0 in W. exact W.
    + eapply okr_mapM; [apply field_chain|exact H1|]. intros y v _ E. pose proof (l_suffix y) as W. rewrite E in W. exact W.
  - (* simple *)
    cbn [c_simple]. destruct (l_kind x) eqn:K; try exact I; try (cbn [wsafe simple_parts ids flat_map]; apply okr_nil).
    + (* Bits *) wb. inn. cbn [wsafe simple_parts]. eapply okr_field; [exact H|].
      eapply okr_fcollapse with (names := ["values"%string]). apply okr_flast. eapply okr_values; eauto.
    + (* List *) wb. inn. cbn [wsafe simple_parts]. eapply okr_field; [exact H|].
      eapply okr_fcollapse with (names := ["values"%string]). apply okr_flast. eapply okr_values; eauto.
    + (* Dag *)
      wb. cbn [wsafe simple_parts]. destruct (mapM_app _ _ _ _ H) as (va & vb & -> & Ea & Eb). rewrite flat_map_app, ids_app.
      assert (DV : forall l vs, chain l -> mapM (c_value n c) (dag_values l) = Ok vs -> okr l (ids (flat_map value_parts vs))).
      { intros l vs C M. unfold dag_values in M. rewrite flat_map_concat_map in M.
        destruct (mapM_concat _ _ _ M) as (vss & -> & F). rewrite ids_concat_values. apply okr_concat; [exact C|].
        clear M C. revert vss F. induction l as [|a l IHl]; intros vss F; inversion F; subst; cbn [map]; constructor.
        - eapply okr_fcollapse with (names := ["value"%string]). apply okr_flast. eapply okr_values; eauto.
        - apply IHl. assumption. }
      eapply okr_fcollapse with (names := ["operator"%string; "arg_list"%string]).
      apply okr_fcons; [cbn [forallb]; rewrite no_op_al; reflexivity|apply DV; [apply field_chain|exact Ea]|apply okr_flast].
      destruct (field x "arg_list") as [|al r] eqn:AL; [cbn in Eb; inversion Eb; apply okr_nil|].
      assert (Hal : In al (al :: r)) by (left; reflexivity). eapply okr_in; [exact Hal|].
      eapply okr_fcollapse with (names := ["args"%string]). apply okr_flast. apply DV; [apply field_chain|exact Eb].
    + (* Identifier *)
      wb. cbn [wsafe simple_parts ids flat_map app]. apply okr_single. eapply c_ident_within; eauto.
    + (* ClassValue *)
      wb. inn. cbn [wsafe simple_parts]. change (ids (PI a0 :: PR (rng_of c x) :: flat_map arg_parts a1)) with ([i_rng a0] ++ ids (flat_map arg_parts a1)).
      eapply okr_fcollapse with (names := ["name"%string; "arg_value_list"%string]).
      apply okr_fcons; [cbn [forallb]; rewrite no_name_avl; reflexivity| |apply okr_flast].
      * eapply okr_field_in; [exact H|]. apply okr_single. eapply c_ident_within; eauto.
      * unfold args_with in H1. destruct (field x "arg_value_list") as [|avl r] eqn:AV; [inversion H1; apply okr_nil|].
        assert (Havl : In avl (avl :: r)) by (left; reflexivity). eapply okr_in; [exact Havl|].
        eapply okr_fcollapse with (names := ["arg_values"%string]). apply okr_flast.
        eapply okr_mapM; [apply field_chain|exact H1|]. intros y v _ E. pose proof (IHa y) as W. rewrite E in W. exact W.
    + (* BangOperator *)
      wb. destruct (bop_of_kind a); [|exact I]. cbn [wsafe simple_parts].
      change (ids (PR (rng_of c x) :: match a0 with Some (t, tr) => PR tr :: ty_parts t | None => [] end ++ flat_map value_parts a1))
        with (ids (match a0 with Some (t, tr) => PR tr :: ty_parts t | None => [] end ++ flat_map value_parts a1)).
      rewrite ids_app.
      eapply okr_fcollapse with (names := ["type"%string; "values"%string]).
      apply okr_fcons; [cbn [forallb]; rewrite no_type_values; reflexivity| |apply okr_flast; eapply okr_values; eauto].
      destruct (opt_with_ok _ _ _ H0) as [(_ & ->)|(v & r & p & EL & Ep & ->)]; [apply okr_nil|].
      destruct (c_typ n c v) as [t'| |] eqn:ET; cbn [bind] in Ep; try discriminate. inversion Ep; subst p.
      change (ids (PR (rng_of c v) :: ty_parts t')) with (ids (ty_parts t')).
      rewrite EL. assert (Hv : In v (v :: r)) by (left; reflexivity). eapply okr_in; [exact Hv|].
      pose proof (l_typ n v) as W. rewrite ET in W. exact W.
    + (* CondOperator *)
      wb. cbn [wsafe simple_parts].
      destruct (mapM_concat _ _ _ H0) as (vss & -> & F).
      rewrite ids_concat_values. eapply okr_fcollapse with (names := ["clauses"%string]). apply okr_flast. apply okr_concat; [apply field_chain|].
      apply mapM_forall2 in H. clear H0. revert vss F. induction H as [|cl pair cls pairs Hcl Hrest IHc]; intros vss F; inversion F; subst; cbn [map]; constructor.
      * (* one clause *)
        destruct (need (field cl "condition") "cond condition") as [cn| |] eqn:E1; cbn [bind] in Hcl; try discriminate.
        destruct (need (field cl "value") "cond value") as [v| |] eqn:E2; cbn [bind] in Hcl; try discriminate. inversion Hcl; subst pair.
        apply need_ok_in in E1. apply need_ok_in in E2.
        match goal with M : mapM (c_value n c) [cn; v] = Ok ?y |- _ => cbn [mapM] in M;
          destruct (c_value n c cn) as [v1| |] eqn:V1; cbn [bind] in M; try discriminate;
          destruct (c_value n c v) as [v2| |] eqn:V2; cbn [bind] in M; try discriminate; inversion M; subst y end.
        cbn [flat_map]. rewrite app_nil_r, ids_app.
        eapply okr_fcollapse with (names := ["condition"%string; "value"%string]).
        apply okr_fcons; [cbn [forallb]; rewrite no_cond_value; reflexivity| |apply okr_flast].
        -- eapply okr_field_in; [exact E1|]. pose proof (IHv cn) as W. rewrite V1 in W. exact W.
        -- eapply okr_field_in; [exact E2|]. pose proof (IHv v) as W. rewrite V2 in W. exact W.
      * apply IHc. assumption.
  - (* arg *)
    cbn [c_arg]. destruct (l_kind x) eqn:K; try exact I.
    + wb. inn. cbn [wsafe arg_parts]. change (ids (PR (rng_of c x) :: value_parts a0)) with (ids (value_parts a0)).
      eapply okr_field; [exact H|]. pose proof (IHv a) as W. rewrite H0 in W. exact W.
    + wb. destruct (l_kind a1); try (cbn [wsafe arg_parts ids flat_map]; apply okr_nil); wb; inn; cbn [wsafe arg_parts].
      * change (ids (PR (rng_of c x) :: value_parts a3)) with (ids (value_parts a3)).
        eapply okr_field; [exact H2|]. pose proof (IHv a2) as W. rewrite H3 in W. exact W.
      * change (ids (PR (rng_of c x) :: value_parts a4)) with (ids (value_parts a4)).
        eapply okr_field; [exact H3|]. pose proof (IHv a3) as W. rewrite H4 in W. exact W.
Qed.
End Lin.

Section Lin2.
Variable c : cx.

Lemma l_value n x : wsafe (fun v => okr [x] (ids (value_parts v))) (c_value n c x).
Proof. apply (lin_values_all c n). Qed.
Lemma l_arg n x : wsafe (fun v => okr [x] (ids (arg_parts v))) (c_arg n c x).
Proof. apply (lin_values_all c n). Qed.

(** an optional value / value list / argument list taken from ONE field of [x] *)
Lemma l_opt_value n x f o : c_opt_value n c (field x f) = Ok o -> okr (field x f) (ids (opt_parts value_parts o)).
Proof.
  intros E. unfold c_opt_value in E. destruct (opt_with_ok _ _ _ E) as [(_ & ->)|(v & r & a & EL & Ea & ->)]; [apply okr_nil|].
  rewrite EL. assert (Hv : In v (v :: r)) by (left; reflexivity). eapply okr_in; [exact Hv|]. cbn [opt_parts].
  pose proof (l_value n v) as W. rewrite Ea in W. exact W.
Qed.
Lemma l_args n x f a : c_args n c (field x f) = Ok a -> okr (field x f) (ids (flat_map arg_parts a)).
Proof.
  intros E. unfold c_args, args_with in E. destruct (field x f) as [|avl r] eqn:AV; [inversion E; apply okr_nil|].
  assert (Havl : In avl (avl :: r)) by (left; reflexivity). eapply okr_in; [exact Havl|].
  eapply okr_fcollapse with (names := ["arg_values"%string]). apply okr_flast.
  eapply okr_mapM; [apply field_chain|exact E|]. intros y v _ Ey. pose proof (l_arg n y) as W. rewrite Ey in W. exact W.
Qed.

Lemma l_targ n a t :
  (t0 <- need (field a "type") "template arg type" ;; t' <- c_typ n c t0 ;; nm <- need (field a "name") "template arg name" ;;
   i <- c_ident c nm ;; d <- c_opt_value n c (field a "value") ;; Ok (TArg t' i d)) = Ok t -> okr [a] (ids (targ_parts t)).
Proof.
  intros E.
  destruct (need (field a "type") "template arg type") as [t0| |] eqn:E0; cbn [bind] in E; try discriminate.
  destruct (c_typ n c t0) as [t'| |] eqn:E1; cbn [bind] in E; try discriminate.
  destruct (need (field a "name") "template arg name") as [nm| |] eqn:E2; cbn [bind] in E; try discriminate.
  destruct (c_ident c nm) as [i| |] eqn:E3; cbn [bind] in E; try discriminate.
  destruct (c_opt_value n c (field a "value")) as [d| |] eqn:E4; cbn [bind] in E; try discriminate. inversion E; subst t.
  apply need_ok_in in E0. apply need_ok_in in E2. cbn [targ_parts]. rewrite ids_app.
  change (ids (PI i :: opt_parts value_parts d)) with ([i_rng i] ++ ids (opt_parts value_parts d)).
  eapply okr_fcollapse with (names := ["type"%string; "name"%string; "value"%string]).
  apply okr_fcons; [cbn [forallb]; rewrite no_type_name, no_type_value; reflexivity| |].
  - eapply okr_field_in; [exact E0|]. pose proof (l_typ c n t0) as W. rewrite E1 in W. exact W.
  - apply okr_fcons; [cbn [forallb]; rewrite no_name_value; reflexivity| |apply okr_flast; eapply l_opt_value; eauto].
    eapply okr_field_in; [exact E2|]. apply okr_single. eapply c_ident_within; eauto.
Qed.

Lemma l_targs n x f o : c_targs n c (field x f) = Ok o -> okr (field x f) (ids (opt_parts (flat_map targ_parts) o)).
Proof.
  intros E. unfold c_targs in E. destruct (opt_with_ok _ _ _ E) as [(_ & ->)|(tl & r & l & EL & El & ->)]; [apply okr_nil|].
  rewrite EL. assert (Hv : In tl (tl :: r)) by (left; reflexivity). eapply okr_in; [exact Hv|]. cbn [opt_parts].
  eapply okr_fcollapse with (names := ["args"%string]). apply okr_flast.
  eapply okr_mapM; [apply field_chain|exact El|]. intros a t _ Ea. eapply l_targ. exact Ea.
Qed.

Lemma l_parents n pl ps : c_parents n c pl = Ok ps -> okr [pl] (ids (flat_map classref_parts ps)).
Proof.
  intros E. unfold c_parents in E. eapply okr_fcollapse with (names := ["classes"%string]). apply okr_flast.
  eapply okr_mapM; [apply field_chain|exact E|]. intros cr r _ Er. cbv beta in Er.
  destruct (need (field cr "name") "class ref name") as [nm| |] eqn:E0; cbn [bind] in Er; try discriminate.
  destruct (c_ident c nm) as [i| |] eqn:E1; cbn [bind] in Er; try discriminate.
  destruct (c_args n c (field cr "arg_value_list")) as [a| |] eqn:E2; cbn [bind] in Er; try discriminate. injection Er as Hr. rewrite <- Hr. clear Hr.
  apply need_ok_in in E0. cbn [classref_parts].
  change (ids (PI i :: PR (rng_of c cr) :: flat_map arg_parts a)) with ([i_rng i] ++ ids (flat_map arg_parts a)).
  eapply okr_fcollapse with (names := ["name"%string; "arg_value_list"%string]).
  apply okr_fcons; [cbn [forallb]; rewrite no_name_avl; reflexivity| |apply okr_flast; eapply l_args; eauto].
  eapply okr_field_in; [exact E0|]. apply okr_single. eapply c_ident_within; eauto.
Qed.

Lemma l_item n x : wsafe (fun it => okr [x] (ids (item_parts it))) (c_item n c x).
Proof.
  unfold c_item. destruct (l_kind x); try exact I; wb; inn; cbn [wsafe item_parts].
  - (* Defvar *) change (ids (PI a0 :: value_parts a2)) with ([i_rng a0] ++ ids (value_parts a2)).
    eapply okr_fcollapse with (names := ["name"%string; "value"%string]).
    apply okr_fcons; [cbn [forallb]; rewrite no_name_value; reflexivity| |apply okr_flast].
    + eapply okr_field_in; [exact H|]. apply okr_single. eapply c_ident_within; eauto.
    + eapply okr_field_in; [exact H1|]. pose proof (l_value n a1) as W. rewrite H2 in W. exact W.
  - (* Dump *) eapply okr_field; [exact H|]. pose proof (l_value n a) as W. rewrite H0 in W. exact W.
  - (* Assert *) rewrite ids_app.
    eapply okr_fcollapse with (names := ["condition"%string; "message"%string]).
    apply okr_fcons; [cbn [forallb]; rewrite no_cond_msg; reflexivity| |apply okr_flast].
    + eapply okr_field_in; [exact H|]. pose proof (l_value n a) as W. rewrite H0 in W. exact W.
    + eapply okr_field_in; [exact H1|]. pose proof (l_value n a1) as W. rewrite H2 in W. exact W.
  - (* FieldDef *) rewrite ids_app. change (ids (PI a2 :: opt_parts value_parts a3)) with ([i_rng a2] ++ ids (opt_parts value_parts a3)).
    eapply okr_fcollapse with (names := ["type"%string; "name"%string; "value"%string]).
    apply okr_fcons; [cbn [forallb]; rewrite no_type_name, no_type_value; reflexivity| |].
    + eapply okr_field_in; [exact H|]. pose proof (l_typ c n a) as W. rewrite H0 in W. exact W.
    + apply okr_fcons; [cbn [forallb]; rewrite no_name_value; reflexivity| |apply okr_flast; eapply l_opt_value; eauto].
      eapply okr_field_in; [exact H1|]. apply okr_single. eapply c_ident_within; eauto.
  - (* FieldLet *) change (ids (PI a0 :: value_parts a2)) with ([i_rng a0] ++ ids (value_parts a2)).
    eapply okr_fcollapse with (names := ["name"%string; "value"%string]).
    apply okr_fcons; [cbn [forallb]; rewrite no_name_value; reflexivity| |apply okr_flast].
    + eapply okr_field_in; [exact H|]. apply okr_single. eapply c_ident_within; eauto.
    + eapply okr_field_in; [exact H1|]. pose proof (l_value n a1) as W. rewrite H2 in W. exact W.
Qed.

Lemma l_record_body n rb b : c_record_body n c rb = Ok b ->
  okr [rb] (ids (flat_map classref_parts (fst b)) ++ ids (flat_map item_parts (snd b))).
Proof.
  intros E. unfold c_record_body in E.
  destruct (need (field rb "parent_class_list") "parent class list") as [pl| |] eqn:E0; cbn [bind] in E; try discriminate.
  destruct (need (field rb "body") "body") as [body| |] eqn:E1; cbn [bind] in E; try discriminate.
  destruct (mapM (c_item n c) (field body "items")) as [items| |] eqn:E2; cbn [bind] in E; try discriminate.
  destruct (c_parents n c pl) as [ps| |] eqn:E3; cbn [bind] in E; try discriminate. inversion E; subst b. cbn [fst snd].
  apply need_ok_in in E0. apply need_ok_in in E1.
  eapply okr_fcollapse with (names := ["parent_class_list"%string; "body"%string]).
  apply okr_fcons; [cbn [forallb]; rewrite no_pcl_body; reflexivity| |apply okr_flast].
  - eapply okr_field_in; [exact E0|]. eapply l_parents. exact E3.
  - eapply okr_field_in; [exact E1|]. eapply okr_fcollapse with (names := ["items"%string]). apply okr_flast.
    eapply okr_mapM; [apply field_chain|exact E2|]. intros y v _ Ey. pose proof (l_item n y) as W. rewrite Ey in W. exact W.
Qed.
End Lin2.

Section Lin3.
Variable c : cx.

Definition lin_stmts (n : nat) : Prop :=
  (forall x, wsafe (fun l => okr [x] (ids (flat_map stmt_parts l))) (c_stmts n c x)) /\
  (forall x, wsafe (fun s => okr [x] (ids (stmt_parts s))) (c_stmt n c x)).

Lemma lin_stmts_all : forall n, lin_stmts n.
Proof.
  induction n as [|n (IHl & IHs)]; [split; intros; exact I|].
  assert (SL : forall x f y b, In y (field x f) -> c_stmts n c y = Ok b -> okr (field x f) (ids (flat_map stmt_parts b))).
  { intros x f y b Hy E. eapply okr_field_in; [exact Hy|]. pose proof (IHl y) as W. rewrite E in W. exact W. }
  split; intros x.
  - cbn [c_stmts]. destruct (mapM (c_stmt n c) (field x "statements")) as [l| |] eqn:M; cbn [wsafe]; try exact I.
    eapply okr_fcollapse with (names := ["statements"%string]). apply okr_flast.
    eapply okr_mapM; [apply field_chain|exact M|]. intros y v _ E. pose proof (IHs y) as W. rewrite E in W. exact W.
  - cbn [c_stmt]. destruct (l_kind x); try exact I; wb; inn; cbn [wsafe stmt_parts].
    + (* Include *) cbn [ids flat_map]. apply okr_nil.
    + (* Class *)
      change (ids (PI a0 :: opt_parts (flat_map targ_parts) a1 ++ flat_map classref_parts (fst a3) ++ flat_map item_parts (snd a3)))
        with ([i_rng a0] ++ ids (opt_parts (flat_map targ_parts) a1 ++ flat_map classref_parts (fst a3) ++ flat_map item_parts (snd a3))).
      rewrite !ids_app.
      eapply okr_fcollapse with (names := ["name"%string; "template_arg_list"%string; "record_body"%string]).
      apply okr_fcons; [cbn [forallb]; rewrite no_name_tal, no_name_rb; reflexivity| |].
      * eapply okr_field_in; [exact H|]. apply okr_single. eapply c_ident_within; eauto.
      * apply okr_fcons; [cbn [forallb]; rewrite no_tal_rb; reflexivity|eapply l_targs; eauto|apply okr_flast].
        eapply okr_field_in; [exact H2|]. eapply l_record_body. exact H3.
    + (* Def *)
      rewrite ids_app.
      change (ids (PR (rng_of c x) :: flat_map classref_parts (fst a1) ++ flat_map item_parts (snd a1)))
        with (ids (flat_map classref_parts (fst a1) ++ flat_map item_parts (snd a1))). rewrite ids_app.
      eapply okr_fcollapse with (names := ["name"%string; "record_body"%string]).
      apply okr_fcons; [cbn [forallb]; rewrite no_name_rb; reflexivity|eapply l_opt_value; eauto|apply okr_flast].
      eapply okr_field_in; [exact H0|]. eapply l_record_body. exact H1.
    + (* Let *)
      rewrite ids_app. unfold c_values in H1.
      eapply okr_fcollapse with (names := ["let_list"%string; "statement_list"%string]).
      apply okr_fcons; [cbn [forallb]; rewrite no_ll_sl; reflexivity| |apply okr_flast; eapply SL; eauto].
      eapply okr_field_in; [exact H|]. eapply okr_fcollapse with (names := ["items"%string]). apply okr_flast.
      (* the values of the items, item by item *)
      apply mapM_forall2 in H0. apply mapM_forall2 in H1. rewrite ids_flat_map, flat_map_concat_map.
      apply okr_concat; [apply field_chain|]. clear H H2 H3. revert a1 H1. induction H0 as [|it v its vs Hit Hrest IHc]; intros vs' H1; inversion H1; subst; cbn [map]; constructor.
      * apply need_ok_in in Hit. eapply okr_field; [exact Hit|]. match goal with E : c_value n c v = Ok ?y |- _ => pose proof (l_value c n v) as W; rewrite E in W; exact W end.
      * apply IHc. assumption.
    + (* MultiClass *)
      change (ids (PI a0 :: opt_parts (flat_map targ_parts) a1 ++ flat_map classref_parts a3 ++ flat_map stmt_parts a5))
        with ([i_rng a0] ++ ids (opt_parts (flat_map targ_parts) a1 ++ flat_map classref_parts a3 ++ flat_map stmt_parts a5)).
      rewrite !ids_app.
      eapply okr_fcollapse with (names := ["name"%string; "template_arg_list"%string; "parent_class_list"%string; "statement_list"%string]).
      apply okr_fcons; [cbn [forallb]; rewrite no_name_tal, no_name_pcl, no_name_sl; reflexivity| |].
      * eapply okr_field_in; [exact H|]. apply okr_single. eapply c_ident_within; eauto.
      * apply okr_fcons; [cbn [forallb]; rewrite no_tal_pcl, no_tal_sl; reflexivity|eapply l_targs; eauto|].
        apply okr_fcons; [cbn [forallb]; rewrite no_pcl_sl; reflexivity| |apply okr_flast; eapply SL; eauto].
        eapply okr_field_in; [exact H2|]. eapply l_parents. exact H3.
    + (* Defm *)
      rewrite ids_app. change (ids (PR (rng_of c x) :: flat_map classref_parts a1)) with (ids (flat_map classref_parts a1)).
      eapply okr_fcollapse with (names := ["name"%string; "parent_class_list"%string]).
      apply okr_fcons; [cbn [forallb]; rewrite no_name_pcl; reflexivity|eapply l_opt_value; eauto|apply okr_flast].
      eapply okr_field_in; [exact H0|]. eapply l_parents. exact H1.
    + (* Defset *)
      rewrite ids_app. change (ids (PI a2 :: flat_map stmt_parts a4)) with ([i_rng a2] ++ ids (flat_map stmt_parts a4)).
      eapply okr_fcollapse with (names := ["type"%string; "name"%string; "statement_list"%string]).
      apply okr_fcons; [cbn [forallb]; rewrite no_type_name, no_type_sl; reflexivity| |].
      * eapply okr_field_in; [exact H|]. pose proof (l_typ c n a) as W. rewrite H0 in W. exact W.
      * apply okr_fcons; [cbn [forallb]; rewrite no_name_sl; reflexivity| |apply okr_flast; eapply SL; eauto].
        eapply okr_field_in; [exact H1|]. apply okr_single. eapply c_ident_within; eauto.
    + (* Defvar *)
      change (ids (PI a0 :: value_parts a2)) with ([i_rng a0] ++ ids (value_parts a2)).
      eapply okr_fcollapse with (names := ["name"%string; "value"%string]).
      apply okr_fcons; [cbn [forallb]; rewrite no_name_value; reflexivity| |apply okr_flast].
      * eapply okr_field_in; [exact H|]. apply okr_single. eapply c_ident_within; eauto.
      * eapply okr_field_in; [exact H1|]. pose proof (l_value c n a1) as W. rewrite H2 in W. exact W.
    + (* Dump *) eapply okr_field; [exact H|]. pose proof (l_value c n a) as W. rewrite H0 in W. exact W.
    + (* Foreach *)
      change (ids (PI a3 :: match a1 with FeRange => [] | FeValue v => value_parts v end ++ flat_map stmt_parts a5))
        with ([i_rng a3] ++ ids (match a1 with FeRange => [] | FeValue v => value_parts v end ++ flat_map stmt_parts a5)).
      rewrite ids_app, app_assoc.
      eapply okr_fcollapse with (names := ["iterator"%string; "body"%string]).
      apply okr_fcons; [cbn [forallb]; rewrite no_it_body; reflexivity| |apply okr_flast; eapply SL; eauto].
      eapply okr_field_in; [exact H|].
      (* inside the iterator: name and init; the emission order is name, init *)
      eapply okr_fcollapse with (names := ["name"%string; "init"%string]).
      apply okr_fcons; [cbn [forallb]; rewrite no_name_init; reflexivity| |apply okr_flast].
      * eapply okr_field_in; [exact H2|]. apply okr_single. eapply c_ident_within; eauto.
      * eapply okr_field_in; [exact H0|]. destruct (l_kind a0); try discriminate; try (inversion H1; subst a1; apply okr_nil).
        destruct (c_value n c a0) as [v'| |] eqn:EV; cbn [bind] in H1; try discriminate. inversion H1; subst a1.
        pose proof (l_value c n a0) as W. rewrite EV in W. exact W.
    + (* If *)
      rewrite !ids_app.
      eapply okr_fcollapse with (names := ["condition"%string; "then_body"%string; "else_body"%string]).
      apply okr_fcons; [cbn [forallb]; rewrite no_cond_then, no_cond_else; reflexivity| |].
      * eapply okr_field_in; [exact H|]. pose proof (l_value c n a) as W. rewrite H0 in W. exact W.
      * apply okr_fcons; [cbn [forallb]; rewrite no_then_else; reflexivity|eapply SL; eauto|apply okr_flast].
        destruct (opt_with_ok _ _ _ H3) as [(_ & ->)|(v & r & b & EL & Eb & ->)]; [apply okr_nil|].
        cbn [opt_parts]. eapply SL; [rewrite EL; left; reflexivity|exact Eb].
    + (* Assert *)
      rewrite ids_app.
      eapply okr_fcollapse with (names := ["condition"%string; "message"%string]).
      apply okr_fcons; [cbn [forallb]; rewrite no_cond_msg; reflexivity| |apply okr_flast].
      * eapply okr_field_in; [exact H|]. pose proof (l_value c n a) as W. rewrite H0 in W. exact W.
      * eapply okr_field_in; [exact H1|]. pose proof (l_value c n a1) as W. rewrite H2 in W. exact W.
Qed.
End Lin3.

(** * The theorem *)
Theorem core_idents_nodup_if_nonempty : forall file links t ss,
  core_of_tree file links t = Ok ss ->
  Forall nonempty (map i_rng (file_idents ss)) -> NoDup (map i_rng (file_idents ss)).
Proof.
  intros file links t ss E. unfold core_of_tree, c_file in E.
  destruct (l_kind (0, t)); try discriminate. destruct (snd (0, t)); try discriminate.
  destruct (need (field (0, t) "statement_list") "statement list") as [sl| |]; cbn [bind] in E; try discriminate.
  pose proof (proj1 (lin_stmts_all (mkCx file links) (S (S (height t)))) sl) as W. rewrite E in W. cbn [wsafe] in W.
  assert (EQ : map i_rng (file_idents ss) = ids (flat_map stmt_parts ss)).
  { unfold file_idents, ids. generalize (flat_map stmt_parts ss). intros L. induction L as [|[r|i] L IH]; cbn [flat_map map app]; [reflexivity|exact IH|].
    f_equal. exact IH. }
  rewrite EQ. exact (proj1 W).
Qed.
