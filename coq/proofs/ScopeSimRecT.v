(** ScopeSimRecT: ScopeSimRec.v for the TYPED resolver ScopeSpecT.v: all statements, parent classes, FIELD ACCESS.
    [Inh] additionally aligns the class / def tables of the environment with the model's name maps position by
    position ([CF2], [DF2]); [Pre2] carries the typed locals [TL]; the record-body and multiclass relations carry
    the types of their frame part by part ([RT], [MT]).  Copy of ScopeSimRec.v, extended. *)
From Coq Require Import List NArith Bool Lia Arith.
From TG.Model Require Import CoreAst Scope BangOps Indexer .
From TG.Model Require Import ScopeSpecT.
From TG.Proofs Require Import ScopeBalance ScopeFrame GenericResp.
From TG.Proofs Require Import ScopeSimT ScopeSimStmtT.
Import ListNotations.
Open Scope N_scope.

(** ---- the declaration range of an existing symbol never changes *)
Definition LocR (s s' : st) : Prop :=
  forall sym d, define_loc s sym = Some d -> define_loc s' sym = Some d.
Lemma LocR_refl : forall s, LocR s s. Proof. intros s sym d H; exact H. Qed.
Lemma LocR_trans : forall a b c, LocR a b -> LocR b c -> LocR a c.
Proof. intros a b c H1 H2 sym d H. auto. Qed.

Lemma define_loc_app_recs : forall s r sym d,
    define_loc s sym = Some d -> define_loc (set_recs (s_recs s ++ [r]) s) sym = Some d.
Proof.
  intros s r sym d H. destruct sym; simpl in *; auto.
  destruct (nthN (s_recs s) i) eqn:E; [|discriminate]. now rewrite (nthN_app_some _ _ [r] _ _ E).
Qed.
Lemma define_loc_app_leaves : forall s l sym d,
    define_loc s sym = Some d -> define_loc (set_leaves (s_leaves s ++ [l]) s) sym = Some d.
Proof.
  intros s l sym d H. destruct sym; simpl in *; auto.
  destruct (nthN (s_leaves s) i) eqn:E; [|discriminate]. now rewrite (nthN_app_some _ _ [l] _ _ E).
Qed.
Lemma define_loc_app_mcs : forall s m sym d,
    define_loc s sym = Some d -> define_loc (set_mcs (s_mcs s ++ [m]) s) sym = Some d.
Proof.
  intros s m sym d H. destruct sym; simpl in *; auto.
  destruct (nthN (s_mcs s) i) eqn:E; [|discriminate]. now rewrite (nthN_app_some _ _ [m] _ _ E).
Qed.
Lemma define_loc_add_pos : forall r id s sym, define_loc (add_pos r id s) sym = define_loc s sym.
Proof. intros. unfold add_pos. destruct (rng_empty r); reflexivity. Qed.

Lemma LocR_record_mut : forall id g, (forall r, rc_loc (g r) = rc_loc r) -> resp LocR (record_mut id g).
Proof.
  intros id g Hg s sym d H. unfold record_mut. destruct (nthN (s_recs s) id) eqn:E; simpl; [|exact H].
  destruct sym; simpl in *; auto.
  rewrite nthN_set_nth. destruct (N.eqb id i) eqn:Ei; [|exact H].
  destruct (nthN (s_recs s) i); simpl in *; [|discriminate]. now rewrite Hg.
Qed.
Lemma LocR_multiclass_mut : forall id g, (forall m, mc_loc (g m) = mc_loc m) -> resp LocR (multiclass_mut id g).
Proof.
  intros id g Hg s sym d H. unfold multiclass_mut. destruct (nthN (s_mcs s) id) eqn:E; simpl; [|exact H].
  destruct sym; simpl in *; auto.
  rewrite nthN_set_nth. destruct (N.eqb id i) eqn:Ei; [|exact H].
  destruct (nthN (s_mcs s) i); simpl in *; [|discriminate]. now rewrite Hg.
Qed.

Ltac locr_same := let s := fresh "s" in let sym := fresh "sym" in let d := fresh "d" in let H := fresh "H" in
  intros s sym d H; simpl; rewrite ?define_loc_add_pos; simpl; exact H.

Lemma LocR_index_stmt : forall files n x, resp LocR (index_stmt files n x).
Proof.
  apply (r_index_stmt LocR LocR_refl LocR_trans).
  - intros A. locr_same.
  - intros r k. locr_same.
  - intros id l. unfold add_reference, upd. locr_same.
  - intros n c l s sym d H. unfold add_record; simpl. rewrite define_loc_add_pos.
    destruct c; simpl; apply (define_loc_app_recs s _ sym d H).
  - intros n l s sym d H. simpl. apply (define_loc_app_recs s _ sym d H).
  - intros l s sym d H. unfold add_leaf; simpl. rewrite define_loc_add_pos. apply (define_loc_app_leaves s _ sym d H).
  - intros l s sym d H. simpl. apply (define_loc_app_leaves s _ sym d H).
  - intros l s sym d H. unfold add_defset; simpl. rewrite define_loc_add_pos. simpl.
    apply (define_loc_app_leaves s _ sym d H).
  - intros n l s sym d H. unfold add_multiclass; simpl. rewrite define_loc_add_pos. simpl.
    apply (define_loc_app_mcs s _ sym d H).
  - intros id n t. apply LocR_record_mut. reflexivity.
  - intros id n t. apply LocR_record_mut. reflexivity.
  - intros id p. apply LocR_record_mut. reflexivity.
  - intros id n t. apply LocR_multiclass_mut. reflexivity.
  - intros id p. apply LocR_multiclass_mut. reflexivity.
  - intros k. locr_same.
  - intros s sym d H. unfold pop_scope. destruct (s_scopes s); simpl; exact H.
  - intros l. unfold scopes_add_variable. apply (resp_bind LocR LocR_trans).
    + intros s sym d H. unfold add_leaf; simpl. rewrite define_loc_add_pos. apply (define_loc_app_leaves s _ sym d H).
    + intros id s sym d H. destruct (s_scopes s); simpl; exact H.
  - intros f. locr_same.
  - intros s sym d H. unfold pop_file. destruct (s_trace s); simpl; exact H.
  - locr_same.
  - intros f. locr_same.
Qed.

(** every class of the environment is a record of the model with that field table; the class whose body is open
    ([open]) is exempt: its entry in the environment has no fields until the body ends *)
Definition CFo (open : option N) (e : env) (s : st) : Prop :=
  forall nm ci, lookup nm (e_cls e) = Some ci ->
    exists cid, find_class s nm = Some cid /\ nthN (s_recs s) cid <> None /\
                (open <> Some cid -> FLD s cid (ci_fields ci) /\ FLDT s cid (ci_ftys ci)).
Definition Inh (open : option N) (e : env) (s : st) : Prop :=
  REC (s_recs s) /\ CFo open e s /\ CF2 open e s /\ DF2 open e s.

Lemma Inh_initial : Inh None env0 st0.
Proof.
  split; [intros id rc H; unfold nthN in H; simpl in H; destruct (N.to_nat id); discriminate|].
  split; [intros nm ci H; discriminate|]. split; [constructor|split; [constructor|reflexivity]].
Qed.

Lemma CR_eq : forall o s s' tb id,
    CR o s tb id -> REC (s_recs s) -> s_recs s' = s_recs s -> (exists ext, s_leaves s' = s_leaves s ++ ext) -> CR o s' tb id.
Proof.
  intros o s s' tb id (A & B & C) HR Hr Hl. split; [now rewrite Hr|]. split; [|exact C].
  intros Ho. apply (FLD_same_recs s s'); auto.
Qed.

Lemma CRT_eq : forall o s s' ci id,
    CRT o s ci id -> REC (s_recs s) -> s_recs s' = s_recs s -> s_nclass s' = s_nclass s -> s_ndef s' = s_ndef s ->
    (exists ext, s_leaves s' = s_leaves s ++ ext) -> CRT o s' ci id.
Proof.
  intros o s s' ci id [A B] HR Hr Hn Hnd Hl. split; [now apply (CR_eq o s s')|].
  intros Ho. apply (FLDT_same_recs s s'); auto. now apply GRW_same.
Qed.
(** anything that leaves the records and the class / def names alone (and only appends leaves) *)
Lemma Inh_eq : forall o e e' s s',
    Inh o e s -> e_cls e' = e_cls e -> e_dtbl e' = e_dtbl e -> e_defs e' = e_defs e ->
    s_recs s' = s_recs s -> s_nclass s' = s_nclass s -> s_ndef s' = s_ndef s ->
    (exists ext, s_leaves s' = s_leaves s ++ ext) -> Inh o e' s'.
Proof.
  intros o e e' s s' (HR & HC & H2 & [D1 D2]) He Hdt Hde Hr Hn Hnd Hl. split; [now rewrite Hr|]. split; [|split; [|split]].
  - intros nm ci H. rewrite He in H. destruct (HC nm ci H) as (cid & A & B & C).
    exists cid. unfold find_class in *. rewrite Hn, Hr. split; [exact A|]. split; [exact B|].
    intros Ho. destruct (C Ho) as [C1 C2]. split.
    + apply (FLD_mono s s' cid (ci_fields ci) (N.succ cid)); auto; [lia|]. intros id _. now rewrite Hr.
    + apply (FLDT_same_recs s s'); auto. now apply GRW_same.
  - unfold CF2 in *. rewrite He, Hn. eapply Forall2_imp; [|exact H2].
    intros a b [X Y]. split; [exact X|]. now apply (CRT_eq o s s').
  - rewrite Hdt, Hnd. eapply Forall2_imp; [|exact D1].
    intros a b (X & Y & Z). split; [exact X|]. split; [now apply (CRT_eq o s s')|]. now rewrite Hr.
  - now rewrite Hde, Hdt.
Qed.
(** the tables never mention a record that does not exist yet *)
Lemma CR_fresh : forall s tb id rid, CR None s tb id -> lenN (s_recs s) <= rid -> CR (Some rid) s tb id.
Proof.
  intros s tb id rid (A & B & C) Hle. split; [exact A|].
  assert (Hne : id <> rid).
  { destruct (nthN (s_recs s) id) eqn:E; [|congruence]. apply nthN_some_lt in E. unfold lenN in Hle. lia. }
  split; [intros _; apply B; discriminate|]. intros X. congruence.
Qed.
Lemma CRT_fresh : forall s ci id rid, CRT None s ci id -> lenN (s_recs s) <= rid -> CRT (Some rid) s ci id.
Proof.
  intros s ci id rid [A B] Hle. split; [now apply CR_fresh|]. intros _. apply B. discriminate.
Qed.
Lemma Inh_fresh : forall e s rid, Inh None e s -> lenN (s_recs s) <= rid -> Inh (Some rid) e s.
Proof.
  intros e s rid (HR & HC & H2 & [D1 D2]) Hle. split; [exact HR|]. split; [|split; [|split]].
  - intros nm ci H. destruct (HC nm ci H) as (cid & A & B & C). exists cid. split; [exact A|]. split; [exact B|]. intros _. apply C. discriminate.
  - eapply Forall2_imp; [|exact H2]. intros a b [X Y]. split; [exact X|now apply CRT_fresh].
  - eapply Forall2_imp; [|exact D1]. intros a b (X & Y & Z). split; [exact X|]. split; [now apply CRT_fresh|exact Z].
  - exact D2.
Qed.
Lemma Inh_VR : forall o e s s', Inh o e s -> VR s s' -> Inh o e s'.
Proof.
  intros o e s s' H V. pose proof V as (Hr & Hm & Hc & Hd & Hmc & Hds & Ht & Hl).
  eapply Inh_eq; eauto.
Qed.
Lemma Inh_globals : forall o e e' s, same_globals e e' -> e_dtbl e' = e_dtbl e -> Inh o e s -> Inh o e' s.
Proof.
  intros o e e' s (G1 & _ & G3 & _) G H. eapply Inh_eq; eauto. exists []. now rewrite app_nil_r.
Qed.

(** ---------------------------------------------------------------------------------------------
    the relation, split into locals and globals *)
Definition locals_of (e : env) (nm : name) : option rng := first_some (frame_lookup nm) (e_frames e).

Record Pre2 (f : N) (e : env) (s : st) : Prop := mkPre2 {
  p2_file : current_file s = f;
  p2_loc_some : forall nm d, locals_of e nm = Some d ->
                             exists sym, find_local s nm = Some sym /\ define_loc s sym = Some d;
  p2_loc_none : forall nm, locals_of e nm = None -> find_local s nm = None;
  p2_def_some : forall nm d, lookup nm (e_defs e) = Some d ->
                             exists id, find_def s nm = Some id /\ define_loc s (SyRecord id) = Some d;
  p2_def_none : forall nm, lookup nm (e_defs e) = None -> find_def s nm = None;
  p2_dset_some : forall nm d, lookup nm (e_dsets e) = Some d ->
                              exists id, find_defset s nm = Some id /\ define_loc s (SyLeaf id) = Some d;
  p2_dset_none : forall nm, lookup nm (e_dsets e) = None -> find_defset s nm = None;
  p2_cls_some : forall nm d, lookup_class e nm = Some d -> class_view s nm = Some d;
  p2_cls_none : forall nm, lookup_class e nm = None -> find_class s nm = None;
  p2_mc_some : forall nm d, lookup_mc e nm = Some d -> mc_view s nm = Some d;
  p2_mc_none : forall nm, lookup_mc e nm = None -> find_multiclass s nm = None;
  p2_tl : TL e s }.

Lemma Pre2_Pre : forall f e s, Pre2 f e s -> Inh (current_record_id s) e s -> Pre f e s.
Proof.
  intros f e s [F L1 L2 D1 D2 S1 S2 C1 C2 M1 M2 TLx] (_ & _ & HC2 & HD2). split; auto.
  - intros nm d H. unfold lookup_id in H. fold (locals_of e nm) in H. unfold lookup_view, resolve_id.
    destruct (locals_of e nm) as [d0|] eqn:El.
    + injection H as <-. destruct (L1 nm d0 El) as [sym [Hs Hd]]. now rewrite Hs.
    + rewrite (L2 nm El). destruct (lookup nm (e_defs e)) as [d1|] eqn:Ed.
      * injection H as <-. destruct (D1 nm d1 Ed) as [id [Hs Hd]]. now rewrite Hs.
      * rewrite (D2 nm Ed). destruct (S1 nm d H) as [id [Hs Hd]]. rewrite Hs. exact Hd.
  - intros nm H. unfold lookup_id in H. fold (locals_of e nm) in H. unfold resolve_id.
    destruct (locals_of e nm) as [d0|] eqn:El; [discriminate|]. rewrite (L2 nm El).
    destruct (lookup nm (e_defs e)) as [d1|] eqn:Ed; [discriminate|]. rewrite (D2 nm Ed).
    now rewrite (S2 nm H).
  - split; [exact HC2|]. split; [exact HD2|]. split; [exact TLx|].
    intros nm. fold (locals_of e nm). split; [apply L2|]. intros H.
    destruct (locals_of e nm) as [d|] eqn:El; [|reflexivity].
    destruct (L1 nm d El) as [sym [Hs _]]. congruence.
Qed.
(** at the level of statements no record is open *)
Lemma Pre2_Pre0 : forall f e s, Pre2 f e s -> current_record_id s = None -> Inh None e s -> Pre f e s.
Proof. intros f e s P Hn HI. apply Pre2_Pre; [exact P|]. now rewrite Hn. Qed.

Lemma Pre2_initial : Pre2 0 env0 st0.
Proof. split; try reflexivity; intros; discriminate. Qed.

Lemma find_local_eq : forall s s' nm,
    s_scopes s' = s_scopes s -> s_recs s' = s_recs s -> s_mcs s' = s_mcs s -> find_local s' nm = find_local s nm.
Proof.
  intros s s' nm Hs Hr Hm. unfold find_local. rewrite Hs.
  apply find_map_ext. intros c. now apply scope_find_eq.
Qed.

(** values (and anything else that respects VR and the scope stack) keep the relation *)
Lemma Pre2_VR : forall f e s s', Pre2 f e s -> VR s s' -> s_scopes s' = s_scopes s -> Pre2 f e s'.
Proof.
  intros f e s s' [F L1 L2 D1 D2 S1 S2 C1 C2 M1 M2 TLx] V Hs.
  pose proof V as (Hr & Hm & Hc & Hd & Hmc & Hds & Ht & Hl).
  assert (FL : forall nm, find_local s' nm = find_local s nm) by (intros; now apply find_local_eq).
  split.
  - unfold current_file in *. now rewrite Ht.
  - intros nm d H. destruct (L1 nm d H) as [sym [A B]]. exists sym. rewrite FL. split; [exact A|].
    now apply (define_loc_ext s s').
  - intros nm H. rewrite FL. now apply L2.
  - intros nm d H. destruct (D1 nm d H) as [id [A B]]. exists id. unfold find_def in *. rewrite Hd.
    split; [exact A|]. now apply (define_loc_ext s s').
  - intros nm H. unfold find_def in *. rewrite Hd. now apply D2.
  - intros nm d H. destruct (S1 nm d H) as [id [A B]]. exists id. unfold find_defset in *. rewrite Hds.
    split; [exact A|]. now apply (define_loc_ext s s').
  - intros nm H. unfold find_defset in *. rewrite Hds. now apply S2.
  - intros nm d H. specialize (C1 nm d H). unfold class_view, find_class in *. now rewrite Hc, Hr.
  - intros nm H. unfold find_class in *. rewrite Hc. now apply C2.
  - intros nm d H. specialize (M1 nm d H). unfold mc_view, find_multiclass in *. now rewrite Hmc, Hm.
  - intros nm H. unfold find_multiclass in *. rewrite Hmc. now apply M2.
  - intros nm sym ty H1 H2. rewrite FL in H1. apply (TYPS_VR s s'); auto. eapply TLx; eassumption.
Qed.
Lemma Pre2_Step : forall f e s s' E, Pre2 f e s -> Step s s' E -> Pre2 f e s'.
Proof. intros f e s s' E P [_ V S _]. eapply Pre2_VR; eassumption. Qed.

(** ---------------------------------------------------------------------------------------------
    statement level *)
Record Stat (s : st) : Prop := mkStat {
  sta_norec : current_record_id s = None;
  sta_mcv : mc_scopes_valid s;
  sta_ne : s_scopes s <> [] }.

Record ResB (f : N) (s s' : st) (E : list ev) (e' : env) : Prop := mkResB {
  rb_uses : s_uses s' = rev E ++ s_uses s;
  rb_nf : nf s' = nf s;
  rb_scopes : exists vs, s_scopes s' = add_vars vs (s_scopes s);
  rb_pre : Pre2 f e' s';
  rb_stat : Stat s';
  rb_frames : e_frames e' <> [];
  rb_inh : Inh None e' s' }.

(** two states that differ at most in their scope stacks *)
Definition same_but_scopes (a b : st) : Prop :=
  s_trace a = s_trace b /\ s_recs a = s_recs b /\ s_mcs a = s_mcs b /\ s_leaves a = s_leaves b /\
  s_nclass a = s_nclass b /\ s_ndef a = s_ndef b /\ s_nmc a = s_nmc b /\ s_ndset a = s_ndset b /\
  s_uses a = s_uses b /\ s_diags a = s_diags b.

Lemma define_loc_sbs : forall a b sym, same_but_scopes a b -> define_loc a sym = define_loc b sym.
Proof. intros a b sym (_ & Hr & Hm & Hl & _). destruct sym; simpl; congruence. Qed.

Lemma mc_valid_after : forall s s', s_scopes s' = s_scopes s -> mcs_pref (s_mcs s) (s_mcs s') ->
    mc_scopes_valid s -> mc_scopes_valid s'.
Proof.
  intros s s' Hs Hp Hv c mid Hin Hk. rewrite Hs in Hin. specialize (Hv c mid Hin Hk).
  destruct (nthN (s_mcs s) mid) as [m0|] eqn:E; [|congruence].
  destruct (Hp _ _ E) as [m' [E' _]]. congruence.
Qed.

(** the global half of the relation *)
Record Pre2g (f : N) (e : env) (s : st) : Prop := mkPre2g {
  g_file : current_file s = f;
  g_def_some : forall nm d, lookup nm (e_defs e) = Some d ->
                            exists id, find_def s nm = Some id /\ define_loc s (SyRecord id) = Some d;
  g_def_none : forall nm, lookup nm (e_defs e) = None -> find_def s nm = None;
  g_dset_some : forall nm d, lookup nm (e_dsets e) = Some d ->
                             exists id, find_defset s nm = Some id /\ define_loc s (SyLeaf id) = Some d;
  g_dset_none : forall nm, lookup nm (e_dsets e) = None -> find_defset s nm = None;
  g_cls_some : forall nm d, lookup_class e nm = Some d -> class_view s nm = Some d;
  g_cls_none : forall nm, lookup_class e nm = None -> find_class s nm = None;
  g_mc_some : forall nm d, lookup_mc e nm = Some d -> mc_view s nm = Some d;
  g_mc_none : forall nm, lookup_mc e nm = None -> find_multiclass s nm = None }.
Lemma Pre2_g : forall f e s, Pre2 f e s -> Pre2g f e s.
Proof. intros f e s [F L1 L2 D1 D2 S1 S2 C1 C2 M1 M2 TLx]. split; auto. Qed.
Lemma Pre2g_globals : forall f e e' s, same_globals e e' -> Pre2g f e s -> Pre2g f e' s.
Proof.
  intros f e e' s (G1 & G2 & G3 & G4) [F D1 D2 S1 S2 C1 C2 M1 M2].
  assert (Hcl : forall nm, lookup_class e' nm = lookup_class e nm) by (intros; unfold lookup_class; now rewrite G1).
  assert (Hmcl : forall nm, lookup_mc e' nm = lookup_mc e nm) by (intros; unfold lookup_mc; now rewrite G2).
  split; auto.
  - intros nm d H. rewrite G3 in H. auto.
  - intros nm H. rewrite G3 in H. auto.
  - intros nm d H. rewrite G4 in H. auto.
  - intros nm H. rewrite G4 in H. auto.
  - intros nm d H. rewrite Hcl in H. auto.
  - intros nm H. rewrite Hcl in H. auto.
  - intros nm d H. rewrite Hmcl in H. auto.
  - intros nm H. rewrite Hmcl in H. auto.
Qed.

Ltac grw_prim :=
  intros; let s := fresh "s" in intros s;
  unfold add_reference, scopes_add_variable, add_leaf, add_leaf_nopos, add_defset, add_record, add_anonymous_def,
    add_multiclass, record_mut, multiclass_mut, next_anonymous, push_file, pop_file, bind, upd, bad, error,
    push_scope, pop_scope, add_pos; simpl;
  repeat match goal with |- context [match ?x with _ => _ end] => destruct x end; simpl;
  (split; [first [exists []; now rewrite app_nil_r|eexists; reflexivity]|]);
  (split; first [exists []; reflexivity|eexists (_ :: nil); reflexivity]).
Lemma GRW_index_stmt : forall files n x, resp GRW (index_stmt files n x).
Proof. intros. apply (r_index_stmt GRW GRW_refl GRW_trans); grw_prim. Qed.

Definition globals_equiv (e e' : env) : Prop :=
  (forall nm, lookup_class e' nm = lookup_class e nm) /\ e_mcs e' = e_mcs e /\ e_defs e' = e_defs e /\ e_dsets e' = e_dsets e.
Lemma same_globals_equiv : forall e e', same_globals e e' -> globals_equiv e e'.
Proof. intros e e' (A & B & C & D). repeat split; auto. intros nm. unfold lookup_class. now rewrite A. Qed.

(** after a block-like statement whose body ended in [s_in] (related to [e1]): the locals are those of before
    the statement, the globals those of the end of the body *)
Lemma finish_block_like : forall files n x f e e1 e' s s_in E,
    block_like x = true -> Stat s -> Pre2 f e s -> e_frames e <> [] ->
    e_frames e' = e_frames e -> e_tfr e' = e_tfr e -> globals_equiv e1 e' ->
    Pre2g f e1 s_in -> same_but_scopes (snd (index_stmt files n x s)) s_in ->
    s_uses s_in = rev E ++ s_uses s -> nf s_in = nf s -> Inh None e' s_in ->
    ResB f s (snd (index_stmt files n x s)) E e'.
Proof.
  intros files n x f e e1 e' s s_in E Hx [Hnr Hmv Hne] P He Hfr Htf (Hcl & G2 & G3 & G4) P1 SB HU HN HI.
  assert (Hloc : forall nm, locals_of e' nm = locals_of e nm) by (intros; unfold locals_of; now rewrite Hfr).
  assert (Hmcl : forall nm, lookup_mc e' nm = lookup_mc e1 nm) by (intros; unfold lookup_mc; now rewrite G2).
  set (s' := snd (index_stmt files n x s)) in *.
  pose proof (scopes_balanced files n x s Hx) as Hsc. fold s' in Hsc.
  pose proof (LocR_index_stmt files n x s) as HL. fold s' in HL.
  destruct (RS_index_stmt files n x s) as [_ Hpm]. fold s' in Hpm. specialize (Hpm Hnr).
  assert (FL : forall nm, find_local s' nm = find_local s nm)
    by (intros; apply locals_do_not_leak; assumption).
  pose proof SB as (Ht & Hr & Hm & Hl & Hc & Hd & Hmc & Hds & Hu & Hdg).
  destruct P as [F L1 L2 D1 D2 S1 S2 C1 C2 M1 M2 TLx].
  destruct P1 as [F' D1' D2' S1' S2' C1' C2' M1' M2'].
  split.
  - now rewrite Hu.
  - unfold nf in *. now rewrite Hdg.
  - exists []. now rewrite add_vars_nil.
  - split.
    + unfold current_file in *. now rewrite Ht.
    + intros nm d H. rewrite Hloc in H. destruct (L1 nm d H) as [sym [A B]]. exists sym. rewrite FL.
      split; [exact A|now apply HL].
    + intros nm H. rewrite Hloc in H. rewrite FL. now apply L2.
    + intros nm d H. rewrite G3 in H. destruct (D1' nm d H) as [id [A B]]. exists id. unfold find_def in *. rewrite Hd.
      split; [exact A|]. now rewrite (define_loc_sbs s' s_in).
    + intros nm H. rewrite G3 in H. unfold find_def in *. rewrite Hd. now apply D2'.
    + intros nm d H. rewrite G4 in H. destruct (S1' nm d H) as [id [A B]]. exists id. unfold find_defset in *.
      rewrite Hds. split; [exact A|]. now rewrite (define_loc_sbs s' s_in).
    + intros nm H. rewrite G4 in H. unfold find_defset in *. rewrite Hds. now apply S2'.
    + intros nm d H. rewrite Hcl in H. specialize (C1' nm d H). unfold class_view, find_class in *. now rewrite Hc, Hr.
    + intros nm H. rewrite Hcl in H. unfold find_class in *. rewrite Hc. now apply C2'.
    + intros nm d H. rewrite Hmcl in H. specialize (M1' nm d H). unfold mc_view, find_multiclass in *. now rewrite Hmc, Hm.
    + intros nm H. rewrite Hmcl in H. unfold find_multiclass in *. rewrite Hmc. now apply M2'.
    + intros nm sym ty H1 H2. rewrite FL in H1. rewrite Htf in H2.
      apply (TYPS_GRW s s'); [apply GRW_index_stmt|]. eapply TLx; eassumption.
  - split.
    + unfold current_record_id in *. now rewrite Hsc.
    + now apply (mc_valid_after s s').
    + now rewrite Hsc.
  - now rewrite Hfr.
  - eapply Inh_eq; [exact HI|reflexivity|reflexivity|reflexivity|exact Hr|exact Hc|exact Hd|exists []; now rewrite Hl, app_nil_r].
Qed.

(** ---- Pre2 under the scope operations *)
Lemma find_local_pushed : forall k s nm, plain_kind k = true -> find_local (pushed k s) nm = find_local s nm.
Proof.
  intros k s nm Hk. unfold find_local, pushed; simpl.
  unfold scope_find at 1, sc_find_variable; simpl. destruct k; try discriminate; reflexivity.
Qed.
Lemma define_loc_pushed : forall k s sym, define_loc (pushed k s) sym = define_loc s sym.
Proof. intros. destruct sym; reflexivity. Qed.

Lemma Pre2_pushed : forall f e s k, Pre2 f e s -> plain_kind k = true -> Pre2 f (push_vars e []) (pushed k s).
Proof.
  intros f e s k [F L1 L2 D1 D2 S1 S2 C1 C2 M1 M2 TLx] Hk. split; auto.
  - intros nm d H. change (locals_of (push_vars e []) nm) with (locals_of e nm) in H.
    destruct (L1 nm d H) as [sym [A B]]. exists sym. rewrite find_local_pushed by assumption. auto.
  - intros nm H. change (locals_of (push_vars e []) nm) with (locals_of e nm) in H.
    rewrite find_local_pushed by assumption. now apply L2.
  - intros nm sym ty H1 H2. rewrite find_local_pushed in H1 by assumption. exact (TLx nm sym ty H1 H2).
Qed.
Lemma Stat_pushed : forall k s, Stat s -> plain_kind k = true -> Stat (pushed k s).
Proof.
  intros k s [A B C] Hk. split.
  - unfold current_record_id, pushed in *; simpl. unfold sc_record_id at 1; simpl. destruct k; try discriminate; exact A.
  - intros c mid [<-|Hin] Hc; simpl in *.
    + destruct k; try discriminate.
    + apply (B c mid Hin Hc).
  - discriminate.
Qed.

Lemma find_local_pushed_foreach : forall nmv vid s nm,
    find_local (pushed (KForeach nmv vid) s) nm
    = if name_eqb nm nmv then Some (SyLeaf vid) else find_local s nm.
Proof.
  intros. unfold find_local, pushed; simpl.
  unfold scope_find at 1, sc_find_variable; simpl. destruct (name_eqb nm nmv); reflexivity.
Qed.
Lemma Pre2_pushed_foreach : forall f e s i vid loc ty,
    Pre2 f e s -> option_map lf_loc (nthN (s_leaves s) vid) = Some loc -> TYPS s (SyLeaf vid) ty ->
    Pre2 f (push_tvar e (i_name i) loc ty) (pushed (KForeach (i_name i) vid) s).
Proof.
  intros f e s i vid loc ty0 [F L1 L2 D1 D2 S1 S2 C1 C2 M1 M2 TLx] Hl Hty0. split; auto.
  - intros nm d H. unfold locals_of, push_tvar in H. simpl in H. unfold frame_lookup at 1 in H. simpl in H.
    rewrite find_local_pushed_foreach. destruct (name_eqb nm (i_name i)).
    + injection H as <-. exists (SyLeaf vid). split; [reflexivity|exact Hl].
    + destruct (L1 nm d H) as [sym [A B]]. exists sym. auto.
  - intros nm H. unfold locals_of, push_tvar in H. simpl in H. unfold frame_lookup at 1 in H. simpl in H.
    rewrite find_local_pushed_foreach. destruct (name_eqb nm (i_name i)); [discriminate|]. now apply L2.
  - intros nm sym ty H1 H2. rewrite find_local_pushed_foreach in H1.
    unfold push_tvar in H2. simpl in H2. unfold tframe_lookup at 1 in H2. simpl in H2.
    destruct (name_eqb nm (i_name i)); [injection H2 as <-; injection H1 as <-; exact Hty0|]. exact (TLx nm sym ty H1 H2).
Qed.
Lemma Stat_pushed_foreach : forall nmv vid s, Stat s -> Stat (pushed (KForeach nmv vid) s).
Proof.
  intros nmv vid s [A B C]. split.
  - unfold current_record_id, pushed in *; simpl. exact A.
  - intros c mid [<-|Hin] Hc; simpl in *; [discriminate|apply (B c mid Hin Hc)].
  - discriminate.
Qed.

Lemma find_local_with_var : forall s l c t nm, s_scopes s = c :: t ->
    find_local (with_var s l) nm
    = if name_eqb nm (lf_name l) then Some (SyLeaf (lenN (s_leaves s))) else find_local s nm.
Proof.
  intros s l c t nm Hs. destruct (with_var_facts s l c t Hs) as (Hsc & Hl & _ & _ & V).
  pose proof V as (Hr & Hm & _).
  unfold find_local. rewrite Hsc, Hs. simpl.
  rewrite (scope_find_add s (with_var s l) c (lf_name l) (lenN (s_leaves s)) nm Hr Hm).
  destruct (name_eqb nm (lf_name l)); [reflexivity|].
  rewrite (find_map_ext _ _ (fun c0 => scope_find (with_var s l) c0 nm) (fun c0 => scope_find s c0 nm));
    [reflexivity|]. intros c0. apply scope_find_eq; assumption.
Qed.
Lemma locals_of_add_var : forall e n r nm, e_frames e <> [] ->
    locals_of (add_var e n r) nm = if name_eqb nm n then Some r else locals_of e nm.
Proof.
  intros e n r nm H. unfold locals_of, add_var. destruct (e_frames e) as [|fr t]; [congruence|]. simpl.
  unfold frame_lookup at 1. simpl. destruct (name_eqb nm n); reflexivity.
Qed.
Lemma globals_add_var : forall e n r,
    e_defs (add_var e n r) = e_defs e /\ e_dsets (add_var e n r) = e_dsets e.
Proof. intros. unfold add_var. destruct (e_frames e); split; reflexivity. Qed.

Lemma Pre2_with_var : forall f e s nm ty c t sty,
    Pre2 f e s -> s_scopes s = c :: t -> e_frames e <> [] -> TYPm s ty sty ->
    let loc := mkR f (r_lo (i_rng nm)) (r_hi (i_rng nm)) in
    Pre2 f (tset_var (add_var e (i_name nm) loc) (i_name nm) sty) (with_var s (mkLeaf LVar (i_name nm) ty false loc)).
Proof.
  intros f e s nm ty c t sty P Hs He Hty loc.
  set (l := mkLeaf LVar (i_name nm) ty false loc).
  destruct (with_var_facts s l c t Hs) as (Hsc & Hl & _ & _ & V).
  destruct P as [F L1 L2 D1 D2 S1 S2 C1 C2 M1 M2 TLx].
  pose proof V as (Hr & Hm & Hc & Hd & Hmc & Hds & Ht & _).
  set (E := tset_var (add_var e (i_name nm) loc) (i_name nm) sty).
  assert (Hloc : forall n0, locals_of E n0 = if name_eqb n0 (i_name nm) then Some loc else locals_of e n0).
  { intros n0. change (locals_of E n0) with (locals_of (add_var e (i_name nm) loc) n0). now apply locals_of_add_var. }
  assert (G : e_defs E = e_defs e /\ e_dsets E = e_dsets e /\ e_cls E = e_cls e /\ e_mcs E = e_mcs e).
  { unfold E, tset_var, with_tfr, with_frames, add_var. destruct (e_frames e); repeat split. }
  destruct G as (Gd & Gs & Gc & Gm).
  assert (Hcl : forall n0, lookup_class E n0 = lookup_class e n0) by (intros; unfold lookup_class; now rewrite Gc).
  assert (Hml : forall n0, lookup_mc E n0 = lookup_mc e n0) by (intros; unfold lookup_mc; now rewrite Gm).
  split.
  - unfold current_file in *. now rewrite Ht.
  - intros n0 d H. rewrite Hloc in H.
    rewrite (find_local_with_var s l c t n0 Hs). simpl.
    destruct (name_eqb n0 (i_name nm)).
    + injection H as <-. exists (SyLeaf (lenN (s_leaves s))). split; [reflexivity|].
      simpl. rewrite Hl, nthN_app_last. reflexivity.
    + destruct (L1 n0 d H) as [sym [A B]]. exists sym. split; [exact A|now apply (define_loc_ext s _ _ _ V)].
  - intros n0 H. rewrite Hloc in H.
    rewrite (find_local_with_var s l c t n0 Hs). simpl.
    destruct (name_eqb n0 (i_name nm)); [discriminate|]. now apply L2.
  - intros n0 d H. rewrite Gd in H. destruct (D1 n0 d H) as [id [A B]]. exists id. unfold find_def in *. rewrite Hd.
    split; [exact A|now apply (define_loc_ext s _ _ _ V)].
  - intros n0 H. rewrite Gd in H. unfold find_def in *. rewrite Hd. now apply D2.
  - intros n0 d H. rewrite Gs in H. destruct (S1 n0 d H) as [id [A B]]. exists id. unfold find_defset in *. rewrite Hds.
    split; [exact A|now apply (define_loc_ext s _ _ _ V)].
  - intros n0 H. rewrite Gs in H. unfold find_defset in *. rewrite Hds. now apply S2.
  - intros n0 d H. rewrite Hcl in H.
    specialize (C1 n0 d H). unfold class_view, find_class in *. now rewrite Hc, Hr.
  - intros n0 H. rewrite Hcl in H. unfold find_class in *. rewrite Hc. now apply C2.
  - intros n0 d H. rewrite Hml in H.
    specialize (M1 n0 d H). unfold mc_view, find_multiclass in *. now rewrite Hmc, Hm.
  - intros n0 H. rewrite Hml in H. unfold find_multiclass in *. rewrite Hmc. now apply M2.
  - apply (TL_with_var e s (i_name nm) loc l c t sty); auto. discriminate.
Qed.

(** ---------------------------------------------------------------------------------------------
    fragment B: all statements but include; no field access *)
Notation fragB_stmt := frag_stmt (only parsing).
Definition fragB_stmts (l : list stmt) : bool := forallb frag_stmt l.
Lemma fragB_local : forall l,
    (fix go (l : list stmt) : bool := match l with [] => true | y :: r => fragB_stmt y && go r end) l = fragB_stmts l.
Proof. induction l as [|y r IH]; [reflexivity|]. simpl. now rewrite IH. Qed.

Definition sim_B (files : list (list stmt)) (n : nat) : Prop := forall x f e s,
    fragB_stmt x = true -> Pre2 f e s -> Stat s -> e_frames e <> [] -> Inh None e s ->
    forallb resolved (fst (spec_stmt f e x)) = true ->
    s_bad (snd (index_stmt files n x s)) = false ->
    ResB f s (snd (index_stmt files n x s)) (fst (spec_stmt f e x)) (snd (spec_stmt f e x)).

Lemma ResB_trans : forall f a b c E1 E2 e1 e2,
    ResB f a b E1 e1 -> ResB f b c E2 e2 -> ResB f a c (E1 ++ E2) e2.
Proof.
  intros f a b c E1 E2 e1 e2 [U1 N1 [v1 S1] _ _ _ _] [U2 N2 [v2 S2] P2 T2 F2 I2]. split; auto.
  - rewrite U2, U1, rev_app_distr, app_assoc. reflexivity.
  - congruence.
  - exists (v2 ++ v1). now rewrite S2, S1, add_vars_app.
Qed.

Lemma stmtsB_sim : forall files n, sim_B files n -> forall l f e s,
    fragB_stmts l = true -> Pre2 f e s -> Stat s -> e_frames e <> [] -> Inh None e s ->
    forallb resolved (fst (spec_stmts f e l)) = true ->
    s_bad (snd (iterM (index_stmt files n) l s)) = false ->
    ResB f s (snd (iterM (index_stmt files n) l s)) (fst (spec_stmts f e l)) (snd (spec_stmts f e l)).
Proof.
  intros files n IH l. induction l as [|y r IHl]; intros f e s Hf P T He HI HR Hb.
  - simpl. split; auto. exists []. now rewrite add_vars_nil.
  - simpl in Hf. apply andb_true_iff in Hf. destruct Hf as [Hf1 Hf2].
    rewrite spec_stmts_cons in *. simpl in Hb |- *. unfold seq in *.
    destruct (spec_stmt f e y) as [ev1 e1] eqn:E1.
    destruct (spec_stmts f e1 r) as [ev2 e2] eqn:E2. simpl in *.
    rewrite forallb_app in HR. apply andb_true_iff in HR. destruct HR as [HR1 HR2].
    assert (Hb1 : s_bad (snd (index_stmt files n y s)) = false)
      by (eapply (bad_false_before _ (iterM (index_stmt files n) r)); [apply BM_stmts|exact Hb]).
    pose proof (IH y f e s Hf1 P T He HI) as R1. rewrite E1 in R1. simpl in R1. specialize (R1 HR1 Hb1).
    pose proof R1 as [_ _ _ P1 T1 F1 I1].
    pose proof (IHl f e1 (snd (index_stmt files n y s)) Hf2 P1 T1 F1 I1) as R2.
    rewrite E2 in R2. simpl in R2. specialize (R2 HR2 Hb).
    eapply ResB_trans; eassumption.
Qed.

Lemma Stat_same_scopes : forall s s', Stat s -> s_scopes s' = s_scopes s -> s_mcs s' = s_mcs s -> Stat s'.
Proof.
  intros s s' [A B C] Hs Hm. split.
  - unfold current_record_id in *. now rewrite Hs.
  - intros c mid Hin Hk. rewrite Hs in Hin. rewrite Hm. apply (B c mid Hin Hk).
  - now rewrite Hs.
Qed.
Lemma ResB_of_Step : forall f e s s' E,
    Step s s' E -> Pre2 f e s -> Stat s -> e_frames e <> [] -> Inh None e s -> ResB f s s' E e.
Proof.
  intros f e s s' E St P T He HI. pose proof St as [U V S N]. split; auto.
  - exists []. now rewrite add_vars_nil.
  - eapply Pre2_Step; eassumption.
  - destruct V as (_ & Hm & _). eapply Stat_same_scopes; eassumption.
  - eapply Inh_VR; eassumption.
Qed.

Lemma scoped_final : forall A k (body : M A) s vs,
    s_scopes (snd (body (pushed k s))) = add_vars vs (s_scopes (pushed k s)) ->
    snd (scoped k body s) = set_scopes (s_scopes s) (snd (body (pushed k s))).
Proof.
  intros A k body s vs H. unfold scoped, seq, bind, try_, push_scope, upd; simpl. fold (pushed k s).
  destruct (body (pushed k s)) as [o s2]; simpl in *. unfold lift, pop_scope. rewrite H. reflexivity.
Qed.
Lemma sbs_set_scopes : forall sc s, same_but_scopes (set_scopes sc s) s.
Proof. intros. repeat split. Qed.
Lemma same_globals_leave : forall e e1, same_globals e1 (leave e e1).
Proof. intros. repeat split. Qed.

Section CasesB.
  Variable files : list (list stmt).
  Variable n : nat.
  Hypothesis IH : sim_B files n.

  Lemma block_B : forall b f e s,
      fragB_stmts b = true -> Pre2 f e s -> Stat s -> e_frames e <> [] -> Inh None e s ->
      forallb resolved (fst (spec_stmts f (push_vars e []) b)) = true ->
      s_bad (snd (scoped KBlock (iterM (index_stmt files n) b) s)) = false ->
      ResB f s (snd (scoped KBlock (iterM (index_stmt files n) b) s))
           (fst (spec_stmts f (push_vars e []) b)) (leave e (snd (spec_stmts f (push_vars e []) b))).
  Proof.
    intros b f e s Hf P T He HI HR Hb.
    assert (Hb' := Hb). apply scoped_bad in Hb'.
    pose proof (stmtsB_sim files n IH b f (push_vars e []) (pushed KBlock s) Hf
                           (Pre2_pushed f e s KBlock P eq_refl) (Stat_pushed KBlock s T eq_refl)) as R.
    destruct R as [U N [vs Sc] P1 T1 F1]; auto; [discriminate|].
    change (snd (scoped KBlock (iterM (index_stmt files n) b) s))
      with (snd (index_stmt files (S n) (SLet [] b) s)).
    eapply (finish_block_like files (S n) (SLet [] b) f e _ _ s); eauto.
    - apply same_globals_equiv, same_globals_leave.
    - apply Pre2_g. exact P1.
    - change (snd (index_stmt files (S n) (SLet [] b) s)) with (snd (scoped KBlock (iterM (index_stmt files n) b) s)).
      rewrite (scoped_final _ KBlock _ s vs Sc). apply sbs_set_scopes.
  Qed.
End CasesB.

Lemma Stat_with_var : forall s l c t, Stat s -> s_scopes s = c :: t -> Stat (with_var s l).
Proof.
  intros s l c t [A B C] Hs. destruct (with_var_facts s l c t Hs) as (Hsc & _ & _ & _ & V).
  destruct V as (_ & Hm & _). split.
  - unfold current_record_id in *. rewrite Hsc, Hs in *. simpl in *. exact A.
  - intros c0 mid Hin Hk. rewrite Hsc in Hin. rewrite Hm. destruct Hin as [<-|Hin].
    + apply (B c mid); [rewrite Hs; now left|exact Hk].
    + apply (B c0 mid); [rewrite Hs; now right|exact Hk].
  - rewrite Hsc. discriminate.
Qed.

Section CasesB2.
  Variable files : list (list stmt).
  Variable n : nat.
  Hypothesis IH : sim_B files n.

  Lemma fragB_of_local : forall l,
      (fix go (l : list stmt) : bool := match l with [] => true | y :: r => fragB_stmt y && go r end) l = true ->
      fragB_stmts l = true.
  Proof. intros l H. now rewrite fragB_local in H. Qed.

  Lemma caseB_assert : forall c m f e s,
      frag_value c = true -> frag_value m = true -> Pre2 f e s -> Stat s -> e_frames e <> [] -> Inh None e s ->
      forallb resolved (spec_value f e m ++ spec_value f e c) = true ->
      s_bad (snd (index_stmt files (S n) (SAssert c m) s)) = false ->
      ResB f s (snd (index_stmt files (S n) (SAssert c m) s)) (spec_value f e m ++ spec_value f e c) e.
  Proof.
    intros c m f e s Hfc Hfm P T He HI HR Hb.
    rewrite forallb_app in HR. apply andb_true_iff in HR. destruct HR as [HR1 HR2].
    simpl in Hb |- *. unfold seq in *. simpl in *.
    assert (Hb1 : s_bad (snd (index_value n m s)) = false)
      by (eapply (bad_false_before _ (index_value n c)); [apply BM_index_value|exact Hb]).
    pose proof (value_agrees n m f e s Hfm (Pre2_Pre0 _ _ _ P (sta_norec _ T) HI) HR1 Hb1) as S1.
    pose proof (value_agrees n c f e _ Hfc (Pre_Step _ _ _ _ _ (Pre2_Pre0 _ _ _ P (sta_norec _ T) HI) S1) HR2 Hb) as S2.
    apply ResB_of_Step; auto. eapply Step_trans; eassumption.
  Qed.

  Lemma caseB_defvar : forall i v f e s,
      frag_value v = true -> Pre2 f e s -> Stat s -> e_frames e <> [] -> Inh None e s ->
      forallb resolved (spec_value f e v) = true ->
      s_bad (snd (index_defvar n i v s)) = false ->
      ResB f s (snd (index_defvar n i v s)) (spec_value f e v)
           (tset_var (add_var e (i_name i) (at_file f (i_rng i))) (i_name i) (sty_value e v)).
  Proof.
    intros i v f e s Hf P T He HI HR Hb.
    assert (P0 : Pre f e s) by (now apply (Pre2_Pre0 _ _ _ P (sta_norec _ T) HI)).
    unfold index_defvar, bind, here, get, try_ in *. simpl in *.
    destruct (index_value n v s) as [o s1] eqn:E1. simpl in *.
    set (l := mkLeaf LVar (i_name i) match o with Some t => t | None => MUnknown end false
                     {| r_file := current_file s; r_lo := r_lo (i_rng i); r_hi := r_hi (i_rng i) |}) in *.
    assert (Hb1 : s_bad s1 = false).
    { eapply (bad_false_before _ (scopes_add_variable l)); [bm_prim|exact Hb]. }
    assert (S1 : Step s s1 (spec_value f e v)).
    { replace s1 with (snd (index_value n v s)) by now rewrite E1. apply value_agrees; auto. now rewrite E1. }
    assert (P1 : Pre2 f e s1) by (eapply Pre2_Step; eassumption).
    assert (T1 : Stat s1).
    { destruct S1 as [_ (_ & Hm & _) Sc _]. eapply Stat_same_scopes; eassumption. }
    assert (Hty : TYPm s1 (match o with Some t => t | None => MUnknown end) (sty_value e v)).
    { pose proof (value_typed n v f e s P0 HR) as X. rewrite E1 in X. apply X. exact Hb1. }
    destruct (s_scopes s1) as [|c t] eqn:Esc; [destruct T1 as [_ _ Hne]; congruence|].
    fold (with_var s1 l).
    assert (Hl : l = mkLeaf LVar (i_name i) match o with Some t => t | None => MUnknown end false
                        (mkR f (r_lo (i_rng i)) (r_hi (i_rng i)))).
    { unfold l. now rewrite (p2_file f e s P). }
    destruct (with_var_facts s1 l c t Esc) as (Hsc & _ & Hu & Hn & Vw).
    destruct S1 as [U1 V1 Sc1 N1].
    split.
    - rewrite Hu. exact U1.
    - rewrite Hn. exact N1.
    - exists [(lf_name l, lenN (s_leaves s1))]. rewrite Hsc, <- Sc1, Esc. reflexivity.
    - rewrite Hl. apply (Pre2_with_var f e s1 i _ c t (sty_value e v)); assumption.
    - eapply Stat_with_var; eassumption.
    - change (e_frames (add_var e (i_name i) (at_file f (i_rng i))) <> []).
      unfold add_var. destruct (e_frames e); [congruence|discriminate].
    - eapply (Inh_eq None e); [eapply Inh_VR; [|exact Vw]; eapply Inh_VR; eassumption| | | | | | |];
        try reflexivity; try (unfold tset_var, with_tfr, with_frames, add_var; destruct (e_frames e); reflexivity).
      exists []. now rewrite app_nil_r.
  Qed.
End CasesB2.

(** ---- steps that may also add a parent to a multiclass (defm / multiclass parent lists) *)
Definition MR (a b : list mcd) : Prop :=
  forall id m, nthN a id = Some m ->
               exists m', nthN b id = Some m' /\ mc_loc m' = mc_loc m /\ mc_targs m' = mc_targs m.
Definition VRm (s s' : st) : Prop :=
  s_recs s' = s_recs s /\ MR (s_mcs s) (s_mcs s') /\ s_nclass s' = s_nclass s /\ s_ndef s' = s_ndef s /\
  s_nmc s' = s_nmc s /\ s_ndset s' = s_ndset s /\ s_trace s' = s_trace s /\
  (exists ext, s_leaves s' = s_leaves s ++ ext).
Lemma MR_refl : forall a, MR a a. Proof. intros a id m H. eauto. Qed.
Lemma MR_trans : forall a b c, MR a b -> MR b c -> MR a c.
Proof.
  intros a b c H1 H2 id m H. destruct (H1 _ _ H) as [m1 [A [B C]]]. destruct (H2 _ _ A) as [m2 [A2 [B2 C2]]].
  exists m2. repeat split; congruence.
Qed.
Lemma VR_VRm : forall s s', VR s s' -> VRm s s'.
Proof. intros s s' (A & B & C & D & E & F & G & H). repeat split; auto. rewrite B. apply MR_refl. Qed.
Lemma VRm_refl : forall s, VRm s s. Proof. intros. apply VR_VRm, VR_refl. Qed.
Lemma VRm_trans : forall a b c, VRm a b -> VRm b c -> VRm a c.
Proof.
  intros a b c (A1 & A2 & A3 & A4 & A5 & A6 & A7 & [x1 A8]) (B1 & B2 & B3 & B4 & B5 & B6 & B7 & [x2 B8]).
  repeat split; try congruence; [eapply MR_trans; eassumption|].
  exists (x1 ++ x2). now rewrite B8, A8, app_assoc.
Qed.

Lemma Inh_VRm : forall o e s s', Inh o e s -> VRm s s' -> Inh o e s'.
Proof.
  intros o e s s' H V. pose proof V as (Hr & Hm & Hc & Hd & Hmc & Hds & Ht & Hl).
  eapply Inh_eq; eauto.
Qed.
Lemma scope_find_MR : forall s s' c nm,
    s_recs s' = s_recs s -> MR (s_mcs s) (s_mcs s') ->
    (forall mid, sc_kind c = KMulticlass mid -> nthN (s_mcs s) mid <> None) ->
    scope_find s' c nm = scope_find s c nm.
Proof.
  intros s s' c nm Hr Hm Hv. unfold scope_find, rec_fuel. rewrite Hr.
  destruct (sc_find_variable c nm); [reflexivity|].
  destruct (sc_kind c) eqn:Ek; try reflexivity.
  destruct (nthN (s_mcs s) id) as [m|] eqn:E; [|exfalso; now apply (Hv id)].
  destruct (Hm _ _ E) as [m' [A [_ C]]]. now rewrite A, C.
Qed.

Lemma define_loc_VRm : forall s s' sym d, VRm s s' -> define_loc s sym = Some d -> define_loc s' sym = Some d.
Proof.
  intros s s' sym d (Hr & Hm & _ & _ & _ & _ & _ & [ext Hl]) H. destruct sym; simpl in *.
  - now rewrite Hr.
  - destruct (nthN (s_mcs s) i) as [m|] eqn:E; [|discriminate]. destruct (Hm _ _ E) as [m' [A [B _]]].
    rewrite A. simpl in *. congruence.
  - rewrite Hl. destruct (nthN (s_leaves s) i) eqn:E; [|discriminate]. now rewrite (nthN_app_some _ _ ext _ _ E).
Qed.

Lemma Pre2_VRm : forall f e s s', Pre2 f e s -> Stat s -> VRm s s' -> s_scopes s' = s_scopes s -> Pre2 f e s'.
Proof.
  intros f e s s' [F L1 L2 D1 D2 S1 S2 C1 C2 M1 M2 TLx] [_ Hv _] V Hs.
  pose proof V as (Hr & Hm & Hc & Hd & Hmc & Hds & Ht & Hl).
  assert (FL : forall nm, find_local s' nm = find_local s nm).
  { intros nm. unfold find_local. rewrite Hs.
    assert (G : forall l, (forall c, In c l -> In c (s_scopes s)) ->
                          find_map (fun c => scope_find s' c nm) l = find_map (fun c => scope_find s c nm) l).
    { induction l as [|c t IHl]; intros Hin; simpl; [reflexivity|].
      rewrite (scope_find_MR s s' c nm Hr Hm); [|intros mid Hk; apply (Hv c mid); [apply Hin; now left|exact Hk]].
      destruct (scope_find s c nm); [reflexivity|]. apply IHl. intros; apply Hin; now right. }
    apply G. auto. }
  split.
  - unfold current_file in *. now rewrite Ht.
  - intros nm d H. destruct (L1 nm d H) as [sym [A B]]. exists sym. rewrite FL. split; [exact A|].
    now apply (define_loc_VRm s s').
  - intros nm H. rewrite FL. now apply L2.
  - intros nm d H. destruct (D1 nm d H) as [id [A B]]. exists id. unfold find_def in *. rewrite Hd.
    split; [exact A|]. now apply (define_loc_VRm s s').
  - intros nm H. unfold find_def in *. rewrite Hd. now apply D2.
  - intros nm d H. destruct (S1 nm d H) as [id [A B]]. exists id. unfold find_defset in *. rewrite Hds.
    split; [exact A|]. now apply (define_loc_VRm s s').
  - intros nm H. unfold find_defset in *. rewrite Hds. now apply S2.
  - intros nm d H. specialize (C1 nm d H). unfold class_view, find_class in *. now rewrite Hc, Hr.
  - intros nm H. unfold find_class in *. rewrite Hc. now apply C2.
  - intros nm d H. specialize (M1 nm d H). unfold mc_view, find_multiclass in *. rewrite Hmc.
    destruct (alookup nm (s_nmc s)) as [id|]; [|discriminate].
    destruct (nthN (s_mcs s) id) as [m|] eqn:E; [|discriminate]. destruct (Hm _ _ E) as [m' [A [B _]]].
    rewrite A. simpl in *. congruence.
  - intros nm H. unfold find_multiclass in *. rewrite Hmc. now apply M2.
  - intros nm sym ty H1 H2. rewrite FL in H1. apply (TYPS_GRW s s'); [|eapply TLx; eassumption].
    split; [exact Hl|]. split; exists []; simpl; assumption.
Qed.

Lemma Stat_VRm : forall s s', Stat s -> VRm s s' -> s_scopes s' = s_scopes s -> Stat s'.
Proof.
  intros s s' [A B C] (_ & Hm & _) Hs. split.
  - unfold current_record_id in *. now rewrite Hs.
  - intros c mid Hin Hk. rewrite Hs in Hin. specialize (B c mid Hin Hk).
    destruct (nthN (s_mcs s) mid) as [m|] eqn:E; [|congruence]. destruct (Hm _ _ E) as [m' [A' _]]. congruence.
  - now rewrite Hs.
Qed.

Record StepM (s s' : st) (E : list ev) : Prop := mkStepM {
  sm_uses : s_uses s' = rev E ++ s_uses s;
  sm_vr : VRm s s';
  sm_scopes : s_scopes s' = s_scopes s;
  sm_nf : nf s' = nf s }.
Lemma Step_StepM : forall s s' E, Step s s' E -> StepM s s' E.
Proof. intros s s' E [U V S N]. split; auto. now apply VR_VRm. Qed.
Lemma StepM_refl : forall s, StepM s s []. Proof. intros. apply Step_StepM, Step_refl. Qed.
Lemma StepM_trans : forall a b c E1 E2, StepM a b E1 -> StepM b c E2 -> StepM a c (E1 ++ E2).
Proof.
  intros a b c E1 E2 [U1 V1 S1 N1] [U2 V2 S2 N2]. split.
  - rewrite U2, U1, rev_app_distr, app_assoc. reflexivity.
  - eapply VRm_trans; eassumption.
  - congruence.
  - congruence.
Qed.
Lemma ResB_of_StepM : forall f e s s' E,
    StepM s s' E -> Pre2 f e s -> Stat s -> e_frames e <> [] -> Inh None e s -> ResB f s s' E e.
Proof.
  intros f e s s' E [U V Sc N] P T He HI. split; auto.
  - exists []. now rewrite add_vars_nil.
  - eapply Pre2_VRm; eassumption.
  - eapply Stat_VRm; eassumption.
  - eapply Inh_VRm; eassumption.
Qed.

(** ---- references to multiclasses (parents of a multiclass, of a defm) *)
Lemma mcref_sim : forall n c f e s,
    frag_classref c = true -> Pre f e s -> forallb resolved (spec_mcref f e c) = true ->
    s_bad (snd (resolve_class_ref_as_multiclass n c s)) = false ->
    Step s (snd (resolve_class_ref_as_multiclass n c s)) (spec_mcref f e c).
Proof.
  intros n [i args r] f e s Hf P HR Hb. simpl in Hf.
  change (spec_mcref f e (CRef i args r)) with ((at_file f (i_rng i), lookup_mc e (i_name i)) :: spec_args f e args) in *.
  simpl in HR. apply andb_true_iff in HR. destruct HR as [HR1 HR2]. unfold resolved in HR1; simpl in HR1.
  destruct (lookup_mc e (i_name i)) as [d|] eqn:El; [|discriminate].
  pose proof (pre_mc_some f e s P _ _ El) as Hc. unfold mc_view in Hc.
  simpl in Hb |- *. unfold bind at 1 in Hb. unfold bind at 1. unfold here, get in *. simpl in *.
  unfold bind at 1 in Hb. unfold bind at 1. unfold state, get in *. simpl in *.
  destruct (find_multiclass s (i_name i)) as [mid|] eqn:Ef; [|discriminate].
  unfold seq at 1 in Hb. unfold seq at 1.
  set (loc := {| r_file := current_file s; r_lo := r_lo (i_rng i); r_hi := r_hi (i_rng i) |}) in *.
  pose proof (Step_add_reference s (SyMc mid) loc) as S1.
  set (s1 := snd (add_reference (SyMc mid) loc s)) in *.
  assert (E1 : define_loc s (SyMc mid) = Some d) by exact Hc.
  assert (Hmc : nthN (s_mcs s1) mid <> None).
  { destruct S1 as [_ (_ & Hm & _) _ _]. rewrite Hm. destruct (nthN (s_mcs s) mid); discriminate. }
  unfold bind at 1 in Hb. unfold bind at 1. simpl in *.
  unfold bind at 1 in Hb. unfold bind at 1. unfold lift at 1 in Hb. unfold lift at 1.
  destruct (nthN (s_mcs s1) mid) as [mc|] eqn:Emc; [|congruence].
  assert (P1 : Pre f e s1) by (eapply Pre_Step; eassumption).
  unfold bind at 1 in Hb. unfold bind at 1. unfold index_args in *.
  assert (S2 : s_bad (snd (mapM_opt (index_arg n) args s1)) = false ->
               Step s1 (snd (mapM_opt (index_arg n) args s1)) (flat_map (spec_arg f e) args)).
  { intros Hb2. destruct (mapM_opt_state _ _ (index_arg n) args s1) as [E _]. rewrite E in *.
    apply (iter_sim _ _ (index_arg n) (spec_arg f e) f e); auto.
    - intros; apply BM_index_arg.
    - intros x s0 Hin P0 HR0 Hb0. apply arg_agrees; auto. eapply forallb_In; eassumption. }
  destruct (mapM_opt (index_arg n) args s1) as [[avs|] s2] eqn:Em; simpl in *.
  2:{ destruct (mapM_opt_state _ _ (index_arg n) args s1) as [_ Hsome]. rewrite Em in Hsome. simpl in Hsome. congruence. }
  unfold seq in Hb |- *. simpl in *.
  assert (Hb2 : s_bad s2 = false).
  { eapply (bad_false_before _ (emit (check_template_args s2 (targ_leaves s1 (mc_targs mc)) avs r))); [|exact Hb].
    unfold emit. apply (resp_iterM BadMono BM_refl BM_trans). intros; apply BM_err. }
  eapply Step_eq.
  - eapply Step_trans; [exact S1|]. eapply Step_trans; [apply S2; exact Hb2|].
    apply Step_emit. intros d0 Hd0. eapply cta_kinds. exact Hd0.
  - simpl. rewrite E1, app_nil_r. unfold at_file, loc. now rewrite (pre_file f e s P).
Qed.

Lemma BM_resolve_mc : forall n c, resp BadMono (resolve_class_ref_as_multiclass n c).
Proof. intros. apply (r_resolve_multiclass BadMono BM_refl BM_trans); bm_prim. Qed.

Lemma StepM_mc_add_parent : forall s mid p, StepM s (snd (multiclass_mut mid (mc_add_parent p) s)) [].
Proof.
  intros s mid p. unfold multiclass_mut. destruct (nthN (s_mcs s) mid) as [m|] eqn:E.
  - split; [reflexivity| |reflexivity|reflexivity].
    split; [reflexivity|]. split.
    + intros id m0 H. cbn [snd s_mcs set_mcs]. rewrite nthN_set_nth.
      destruct (N.eqb mid id); [rewrite H; simpl; eauto|eauto].
    + repeat split; auto. exists []. now rewrite app_nil_r.
  - split; [reflexivity| |reflexivity|reflexivity]. repeat split; auto; [apply MR_refl|exists []; now rewrite app_nil_r].
Qed.

Lemma mcrefs_local : forall f e l,
    (fix go (e : env) (l : list classref) : list ev :=
       match l with [] => [] | c :: r => spec_mcref f e c ++ go e r end) e l = flat_map (spec_mcref f e) l.
Proof. intros f e l. induction l as [|c r IH]; [reflexivity|]. simpl. now rewrite IH. Qed.


(** `ParentClassList::index` outside a record: the references are resolved as multiclasses *)
Lemma parents_mc_sim : forall n ps f e s,
    forallb frag_classref ps = true -> Pre2 f e s -> Stat s -> Inh None e s ->
    (current_multiclass_id s <> None \/ current_defm_id s <> None) ->
    forallb resolved (flat_map (spec_mcref f e) ps) = true ->
    s_bad (snd (index_parents n ps s)) = false ->
    StepM s (snd (index_parents n ps s)) (flat_map (spec_mcref f e) ps).
Proof.
  intros n ps f e s Hf P T HI Hk HR Hb. unfold index_parents in *.
  unfold bind at 1 in Hb. unfold bind at 1. unfold state, get in *. simpl in *.
  rewrite (sta_norec s T) in *.
  (* both remaining branches iterate over the references; they differ in what follows a resolved one *)
  assert (G : forall (after : option N -> M unit),
             (forall o s0, StepM s0 (snd (after o s0)) []) -> (forall o, resp BadMono (after o)) ->
             forall l s0, forallb frag_classref l = true -> Pre2 f e s0 -> Stat s0 -> Inh None e s0 ->
                          forallb resolved (flat_map (spec_mcref f e) l) = true ->
                          s_bad (snd (iterM (fun cr => bind (try_ (resolve_class_ref_as_multiclass n cr)) after) l s0)) = false ->
                          StepM s0 (snd (iterM (fun cr => bind (try_ (resolve_class_ref_as_multiclass n cr)) after) l s0))
                                (flat_map (spec_mcref f e) l)).
  { intros after Ha HBa l. induction l as [|c r IHl]; intros s0 Hfl P0 T0 I0 HR0 Hb0; simpl; [apply StepM_refl|].
    simpl in Hfl. apply andb_true_iff in Hfl. destruct Hfl as [Hf1 Hf2].
    simpl in HR0. rewrite forallb_app in HR0. apply andb_true_iff in HR0. destruct HR0 as [HR1 HR2].
    simpl in Hb0. unfold seq in *.
    set (g := fun cr => bind (try_ (resolve_class_ref_as_multiclass n cr)) after) in *.
    assert (BMg : forall cr, resp BadMono (g cr)).
    { intros cr. unfold g. apply (resp_bind BadMono BM_trans); [apply (resp_try BadMono), BM_resolve_mc|apply HBa]. }
    assert (Hb1 : s_bad (snd (g c s0)) = false).
    { eapply (bad_false_before _ (iterM g r)); [|exact Hb0]. apply (resp_iterM BadMono BM_refl BM_trans). intros; apply BMg. }
    assert (S1 : StepM s0 (snd (g c s0)) (spec_mcref f e c)).
    { unfold g, bind, try_ in *. destruct (resolve_class_ref_as_multiclass n c s0) as [o s1] eqn:Er. simpl in *.
      assert (Hbr : s_bad s1 = false) by (eapply (bad_false_before _ (after o)); [apply HBa|exact Hb1]).
      rewrite <- (app_nil_r (spec_mcref f e c)). eapply StepM_trans; [|apply Ha].
      apply Step_StepM. replace s1 with (snd (resolve_class_ref_as_multiclass n c s0)) by now rewrite Er.
      apply mcref_sim; auto; [now apply (Pre2_Pre0 _ _ _ P0 (sta_norec _ T0) I0)|now rewrite Er]. }
    eapply StepM_trans; [exact S1|]. destruct S1 as [_ V1 Sc1 _].
    apply IHl; auto; [eapply Pre2_VRm; eassumption|eapply Stat_VRm; eassumption|eapply Inh_VRm; eassumption]. }
  destruct (current_multiclass_id s) as [mid|] eqn:Em.
  - apply (G (fun o => match o with Some p => multiclass_mut mid (mc_add_parent p) | None => ret tt end)); auto.
    + intros [p|] s0; [apply StepM_mc_add_parent|apply StepM_refl].
    + intros [p|]; [bm_prim|apply (resp_ret BadMono BM_refl)].
  - destruct (current_defm_id s) as [did|] eqn:Ed; [|destruct Hk; congruence].
    (* the defm branch iterates `resolve` directly: the same loop with a trivial continuation *)
    assert (Eq : forall l s0, snd (iterM (fun cr => resolve_class_ref_as_multiclass n cr) l s0)
                              = snd (iterM (fun cr => bind (try_ (resolve_class_ref_as_multiclass n cr)) (fun _ => ret tt)) l s0)).
    { induction l as [|c r IHl]; intros s0; simpl; [reflexivity|]. unfold seq. rewrite IHl.
      unfold bind, try_. destruct (resolve_class_ref_as_multiclass n c s0); reflexivity. }
    rewrite Eq in *. apply (G (fun _ => ret tt)); auto.
    + intros; apply StepM_refl.
    + intros; apply (resp_ret BadMono BM_refl).
Qed.

Section CasesB3.
  Variable files : list (list stmt).
  Variable n : nat.
  Hypothesis IH : sim_B files n.

  Lemma caseB_dump : forall v f e s,
      frag_value v = true -> Pre2 f e s -> Stat s -> e_frames e <> [] -> Inh None e s ->
      forallb resolved (spec_value f e v) = true ->
      s_bad (snd (index_stmt files (S n) (SDump v) s)) = false ->
      ResB f s (snd (index_stmt files (S n) (SDump v) s)) (spec_value f e v) e.
  Proof.
    intros v f e s Hf P T He HI HR Hb. simpl in Hb |- *. unfold seq in *. simpl in *.
    apply ResB_of_Step; auto. apply value_agrees; auto. now apply (Pre2_Pre0 _ _ _ P (sta_norec _ T) HI).
  Qed.

  Lemma caseB_let : forall vs b f e s,
      forallb frag_value vs = true -> fragB_stmts b = true -> Pre2 f e s -> Stat s -> e_frames e <> [] -> Inh None e s ->
      forallb resolved (fst (spec_stmt f e (SLet vs b))) = true ->
      s_bad (snd (index_stmt files (S n) (SLet vs b) s)) = false ->
      ResB f s (snd (index_stmt files (S n) (SLet vs b) s)) (fst (spec_stmt f e (SLet vs b))) (snd (spec_stmt f e (SLet vs b))).
  Proof.
    intros vs b f e s Hfv Hfb P T He HI HR Hb. rewrite spec_let in *.
    destruct (spec_stmts f (push_vars e []) b) as [ev1 e1] eqn:Eb. simpl in HR |- *.
    rewrite forallb_app in HR. apply andb_true_iff in HR. destruct HR as [HRv HR1].
    simpl in Hb |- *. unfold seq at 1 in Hb. unfold seq at 1.
    set (s1 := snd (iterM (index_value n) vs s)) in *.
    assert (Hb1 : s_bad s1 = false)
      by (eapply (bad_false_before _ (scoped KBlock (iterM (index_stmt files n) b))); [apply BM_block|exact Hb]).
    assert (S0 : Step s s1 (spec_values f e vs)).
    { unfold spec_values, s1. apply (iter_sim _ _ (index_value n) (spec_value f e) f e); auto.
      - intros; apply BM_index_value.
      - intros x s0 Hin P0 HR0 Hb0. apply value_agrees; auto. eapply forallb_In; eassumption.
      - now apply (Pre2_Pre0 _ _ _ P (sta_norec _ T) HI). }
    pose proof (ResB_of_Step f e s s1 _ S0 P T He HI) as R0. pose proof R0 as [_ _ _ P1 T1 _ I1].
    pose proof (block_B files n IH b f e s1 Hfb P1 T1 He I1) as R1. rewrite Eb in R1. simpl in R1.
    eapply ResB_trans; [exact R0|apply R1; assumption].
  Qed.

  Lemma caseB_if : forall c th el f e s,
      frag_value c = true -> fragB_stmts th = true -> match el with Some b => fragB_stmts b | None => true end = true ->
      Pre2 f e s -> Stat s -> e_frames e <> [] -> Inh None e s ->
      forallb resolved (fst (spec_stmt f e (SIf c th el))) = true ->
      s_bad (snd (index_stmt files (S n) (SIf c th el) s)) = false ->
      ResB f s (snd (index_stmt files (S n) (SIf c th el) s)) (fst (spec_stmt f e (SIf c th el))) (snd (spec_stmt f e (SIf c th el))).
  Proof.
    intros c th el f e s Hfc Hft Hfe P T He HI HR Hb. rewrite spec_if in *.
    destruct (spec_stmts f (push_vars e []) th) as [ev1 e1] eqn:Et.
    simpl in Hb |- *. unfold seq at 1 in Hb. unfold seq at 1.
    assert (BMrest : resp BadMono (iterM (fun body => scoped KBlock (iterM (index_stmt files n) body))
                                        (th :: match el with Some e0 => [e0] | None => [] end))).
    { apply (resp_iterM BadMono BM_refl BM_trans). intros; apply BM_block. }
    assert (Hbc : s_bad (snd (index_value n c s)) = false) by (eapply bad_false_before; [exact BMrest|exact Hb]).
    simpl in Hb |- *. unfold seq at 1 in Hb. unfold seq at 1.
    set (s1 := snd (index_value n c s)) in *.
    destruct el as [eb|].
    - simpl in Hb |- *. try unfold seq at 1 in Hb. try unfold seq at 1. simpl in Hb |- *.
      set (s2 := snd (scoped KBlock (iterM (index_stmt files n) th) s1)) in *.
      assert (Hb2 : s_bad s2 = false)
        by (eapply (bad_false_before _ (scoped KBlock (iterM (index_stmt files n) eb))); [apply BM_block|exact Hb]).
      destruct (spec_stmts f (push_vars (leave e e1) []) eb) as [ev2 e2] eqn:Ee. simpl in HR |- *.
      rewrite forallb_app in HR. apply andb_true_iff in HR. destruct HR as [HRc HR].
      rewrite forallb_app in HR. apply andb_true_iff in HR. destruct HR as [HR1 HR2].
      pose proof (value_agrees n c f e s Hfc (Pre2_Pre0 _ _ _ P (sta_norec _ T) HI) HRc Hbc) as S0. fold s1 in S0.
      pose proof (ResB_of_Step f e s s1 _ S0 P T He HI) as R0. pose proof R0 as [_ _ _ P1 T1 _ I1].
      pose proof (block_B files n IH th f e s1 Hft P1 T1 He I1) as R1. rewrite Et in R1. simpl in R1.
      specialize (R1 HR1 Hb2). fold s2 in R1. pose proof R1 as [_ _ _ P2 T2 F2 I2].
      pose proof (block_B files n IH eb f (leave e e1) s2 Hfe P2 T2 F2 I2) as R2. rewrite Ee in R2. simpl in R2.
      specialize (R2 HR2 Hb).
      replace (leave e e2) with (leave (leave e e1) e2) by reflexivity.
      eapply ResB_trans; [exact R0|]. eapply ResB_trans; [exact R1|exact R2].
    - simpl in Hb, HR |- *.
      rewrite forallb_app in HR. apply andb_true_iff in HR. destruct HR as [HRc HR].
      rewrite app_nil_r in *.
      pose proof (value_agrees n c f e s Hfc (Pre2_Pre0 _ _ _ P (sta_norec _ T) HI) HRc Hbc) as S0. fold s1 in S0.
      pose proof (ResB_of_Step f e s s1 _ S0 P T He HI) as R0. pose proof R0 as [_ _ _ P1 T1 _ I1].
      pose proof (block_B files n IH th f e s1 Hft P1 T1 He I1) as R1. rewrite Et in R1. simpl in R1.
      eapply ResB_trans; [exact R0|apply R1; assumption].
  Qed.
End CasesB3.

Lemma uses_add_leaf : forall l s, s_uses (snd (add_leaf l s)) = s_uses s /\ nf (snd (add_leaf l s)) = nf s
                                 /\ s_scopes (snd (add_leaf l s)) = s_scopes s /\ s_mcs (snd (add_leaf l s)) = s_mcs s.
Proof. intros. unfold add_leaf; simpl. unfold add_pos, nf. destruct (rng_empty (lf_loc l)); repeat split. Qed.

Section CasesB4.
  Variable files : list (list stmt).
  Variable n : nat.
  Hypothesis IH : sim_B files n.

  Lemma caseB_foreach : forall i init b f e s,
      match init with FeRange => true | FeValue v => frag_value v end = true -> fragB_stmts b = true ->
      Pre2 f e s -> Stat s -> e_frames e <> [] -> Inh None e s ->
      forallb resolved (fst (spec_stmt f e (SForeach i init b))) = true ->
      s_bad (snd (index_stmt files (S n) (SForeach i init b) s)) = false ->
      ResB f s (snd (index_stmt files (S n) (SForeach i init b) s))
           (fst (spec_stmt f e (SForeach i init b))) (snd (spec_stmt f e (SForeach i init b))).
  Proof.
    intros i init b f e s Hfi Hfb P T He HI HR Hb.
    pose proof (finish_block_like files (S n) (SForeach i init b) f e) as FIN.
    set (final := snd (index_stmt files (S n) (SForeach i init b) s)) in *.
    rewrite spec_foreach in *. cbv zeta in HR |- *.
    set (vty := match init with FeRange => TUnk | FeValue v => elem_sty (sty_value e v) end) in *.
    set (e2 := push_tvar e (i_name i) (at_file f (i_rng i)) vty) in *.
    destruct (spec_stmts f e2 b) as [ev1 e1] eqn:Eb. simpl in HR |- *.
    rewrite forallb_app in HR. apply andb_true_iff in HR. destruct HR as [HR0 HR1].
    set (ev0 := match init with FeRange => [] | FeValue v => spec_value f e v end) in *.
    (* run the model up to the body *)
    set (minit := match init with
                  | FeRange => ret MInt
                  | FeValue v => bind (index_value n v) (fun t => lift (element_typ t))
                  end).
    set (loc := {| r_file := current_file s; r_lo := r_lo (i_rng i); r_hi := r_hi (i_rng i) |}).
    set (lf := fun o : option mty => mkLeaf LVar (i_name i) match o with Some t => t | None => MUnknown end false loc).
    set (k := fun s1 : st => KForeach (i_name i) (lenN (s_leaves s1))).
    assert (Efin : final = snd (scoped (k (snd (minit s))) (iterM (index_stmt files n) b)
                                       (snd (add_leaf (lf (fst (minit s))) (snd (minit s)))))).
    { unfold final. simpl. unfold bind at 1. unfold here, get. simpl. unfold bind at 1. unfold try_.
      fold minit. destruct (minit s) as [o s1]. simpl. unfold bind at 1. reflexivity. }
    rewrite Efin in Hb |- *.
    assert (BMi : resp BadMono minit).
    { unfold minit. destruct init; [apply (resp_ret BadMono BM_refl)|].
      apply (resp_bind BadMono BM_trans); [apply BM_index_value|intros; apply (resp_lift BadMono BM_refl)]. }
    destruct (minit s) as [o s1] eqn:Ei. simpl in *.
    set (s2 := snd (add_leaf (lf o) s1)) in *.
    assert (Hb2 : s_bad s2 = false)
      by (eapply (bad_false_before _ (scoped (k s1) (iterM (index_stmt files n) b))); [apply BM_block|exact Hb]).
    assert (Hb1 : s_bad s1 = false) by (eapply (bad_false_before _ (add_leaf (lf o))); [bm_prim|exact Hb2]).
    assert (S0 : Step s s1 ev0).
    { unfold minit, ev0 in *. destruct init as [|v].
      - injection Ei as _ <-. apply Step_refl.
      - unfold bind in Ei. destruct (index_value n v s) as [[t|] s1'] eqn:Ev; simpl in Ei;
          injection Ei as _ <-; replace s1' with (snd (index_value n v s)) by (now rewrite Ev);
          apply value_agrees; auto; try (now apply (Pre2_Pre0 _ _ _ P (sta_norec _ T) HI)); now rewrite Ev. }
    pose proof (ResB_of_Step f e s s1 _ S0 P T He HI) as [U0 N0 _ P1 T1 _ I1].
    assert (S1 : Step s1 s2 []) by apply Step_add_leaf.
    pose proof (ResB_of_Step f e s1 s2 _ S1 P1 T1 He I1) as [U1 N1 _ P2 T2 _ I2].
    assert (Hloc : loc = at_file f (i_rng i)) by (unfold loc, at_file; now rewrite (p2_file f e s P)).
    assert (Hleaf : option_map lf_loc (nthN (s_leaves s2) (lenN (s_leaves s1))) = Some (at_file f (i_rng i))).
    { unfold s2. rewrite leaves_add_leaf, nthN_app_last. simpl. now rewrite Hloc. }
    assert (Htv : TYPm s1 (lf_ty (lf o)) vty).
    { unfold vty, minit in *. destruct init as [|v]; [exact I|].
      destruct (sty_value e v) as [|kc|kd|ty'] eqn:Esv; try exact I. cbn [elem_sty].
      pose proof (value_typed n v f e s (Pre2_Pre0 _ _ _ P (sta_norec _ T) HI) HR0) as X. rewrite Esv in X.
      unfold bind in Ei. destruct (index_value n v s) as [[t|] s1'] eqn:Ev; cbn [fst snd] in Ei, X.
      - unfold lift in Ei. injection Ei as Eo Es1. subst s1'. specialize (X Hb1). simpl in X.
        destruct X as (t' & -> & Hm). simpl in Eo. subst o. exact Hm.
      - injection Ei as Eo Es1. subst s1'. specialize (X Hb1). simpl in X. destruct X as (t' & Hx & _). discriminate. }
    assert (Hty3 : TYPS s2 (SyLeaf (lenN (s_leaves s1))) vty).
    { apply TYPS_iff. right. exists (lenN (s_leaves s1)), (lf o). split; [reflexivity|].
      split; [unfold s2; rewrite leaves_add_leaf; apply nthN_app_last|]. split; [discriminate|].
      destruct S1 as [_ V1 _ _]. exact (TYPm_VR s1 s2 _ _ V1 Htv). }
    pose proof (Pre2_pushed_foreach f e s2 i (lenN (s_leaves s1)) (at_file f (i_rng i)) vty P2 Hleaf Hty3) as P3.
    fold e2 in P3. change (KForeach (i_name i) (lenN (s_leaves s1))) with (k s1) in P3.
    assert (Hb3 := Hb). apply scoped_bad in Hb3.
    pose proof (stmtsB_sim files n IH b f e2 (pushed (k s1) s2) Hfb P3 (Stat_pushed_foreach _ _ s2 T2)) as R3.
    rewrite Eb in R3. simpl in R3. destruct R3 as [U3 N3 [vs Sc3] P4 T4 F4 I4]; auto; [discriminate|].
    rewrite <- Efin. unfold final.
    eapply (FIN e1 (leave e e1) s (snd (iterM (index_stmt files n) b (pushed (k s1) s2))) (ev0 ++ ev1)); auto.
    - apply same_globals_equiv, same_globals_leave.
    - now apply Pre2_g.
    - change (same_but_scopes final (snd (iterM (index_stmt files n) b (pushed (k s1) s2)))).
      rewrite Efin. erewrite (scoped_final _ _ _ s2 vs); [apply sbs_set_scopes|exact Sc3].
    - rewrite U3. simpl. rewrite U1. simpl. rewrite U0, rev_app_distr, app_assoc. reflexivity.
    - rewrite N3. unfold nf, pushed; simpl. fold (nf s2). rewrite N1, N0. reflexivity.
  Qed.

  Lemma caseB_defm : forall nm r ps f e s,
      frag_name nm = true -> forallb frag_classref ps = true ->
      Pre2 f e s -> Stat s -> e_frames e <> [] -> Inh None e s ->
      forallb resolved (fst (spec_stmt f e (SDefm nm r ps))) = true ->
      s_bad (snd (index_stmt files (S n) (SDefm nm r ps) s)) = false ->
      ResB f s (snd (index_stmt files (S n) (SDefm nm r ps) s))
           (fst (spec_stmt f e (SDefm nm r ps))) (snd (spec_stmt f e (SDefm nm r ps))).
  Proof.
    intros nm r ps f e s Hfn Hfp P T He HI HR Hb.
    pose proof (finish_block_like files (S n) (SDefm nm r ps) f e) as FIN.
    set (final := snd (index_stmt files (S n) (SDefm nm r ps) s)) in *.
    change (spec_stmt f e (SDefm nm r ps)) with
      ((fix go (e : env) (l : list classref) : list ev :=
          match l with [] => [] | c :: r0 => spec_mcref f e c ++ go e r0 end) (push_vars e []) ps, e) in *.
    rewrite mcrefs_local in *. simpl in HR |- *.
    set (mdid := match nm with
                 | Some v => bind (index_name_value v) (fun p => add_leaf (mkLeaf LDefm (fst p) MUnknown false (snd p)))
                 | None => seq next_anonymous (bind (here r) (fun loc => add_leaf_nopos (mkLeaf LDefm [] MUnknown false loc)))
                 end).
    assert (Sd : Step s (snd (mdid s)) [] /\ fst (mdid s) <> None).
    { unfold mdid. destruct nm as [v|].
      - unfold frag_name, is_ident_first in Hfn. rewrite first_ident_eq in Hfn.
        destruct v as [rv [|[[] sufs] rest]]; simpl in Hfn; try discriminate.
        split; [|discriminate].
        exact (Step_add_leaf s (mkLeaf LDefm (i_name i) MUnknown false
                                       (mkR (current_file s) (r_lo (i_rng i)) (r_hi (i_rng i))))).
      - unfold seq, bind, here, get, next_anonymous, upd, add_leaf_nopos; simpl. split; [|discriminate].
        split; simpl; auto. repeat split; auto. eexists; reflexivity. }
    destruct Sd as [Sd Hsome].
    assert (Efin : final = match fst (mdid s) with
                           | Some did => snd (scoped (KDefm did) (index_parents n ps) (snd (mdid s)))
                           | None => snd (mdid s)
                           end).
    { unfold final. simpl. unfold bind at 1. fold mdid. destruct (mdid s) as [[did|] s1]; reflexivity. }
    destruct (mdid s) as [[did|] s1] eqn:Ed; [|simpl in Hsome; congruence]. simpl in *.
    rewrite Efin in Hb |- *.
    pose proof (ResB_of_Step f e s s1 _ Sd P T He HI) as [U0 N0 _ P1 T1 _ I1].
    set (k := KDefm did) in *.
    assert (Hb3 := Hb). apply scoped_bad in Hb3.
    assert (Tp : Stat (pushed k s1)) by (apply Stat_pushed; [exact T1|reflexivity]).
    assert (Pp : Pre2 f (push_vars e []) (pushed k s1)) by (apply Pre2_pushed; [exact P1|reflexivity]).
    assert (Hk : current_multiclass_id (pushed k s1) <> None \/ current_defm_id (pushed k s1) <> None).
    { right. unfold current_defm_id, pushed; simpl. unfold sc_defm_id; simpl. discriminate. }
    destruct (parents_mc_sim n ps f (push_vars e []) (pushed k s1) Hfp Pp Tp I1 Hk HR Hb3) as [U2 V2 Sc2 N2].
    rewrite <- Efin. unfold final.
    eapply (FIN e e s (snd (index_parents n ps (pushed k s1))) (flat_map (spec_mcref f (push_vars e [])) ps)); auto.
    - apply same_globals_equiv, same_globals_refl.
    - eapply (Pre2g_globals f (push_vars e []) e); [repeat split|]. apply Pre2_g. eapply Pre2_VRm; eassumption.
    - change (same_but_scopes final (snd (index_parents n ps (pushed k s1)))).
      rewrite Efin. rewrite (scoped_final _ k _ s1 []); [apply sbs_set_scopes|]. rewrite Sc2. now rewrite add_vars_nil.
    - rewrite U2. simpl. rewrite U0. simpl. reflexivity.
    - rewrite N2. unfold nf, pushed; simpl. fold (nf s1). exact N0.
    - eapply Inh_VRm; [|exact V2]. exact I1.
  Qed.
End CasesB4.

(** ---------------------------------------------------------------------------------------------
    record bodies: the innermost scope is the record's, its variables / fields / template
    arguments correspond to the three parts of the innermost frame *)
Definition AL (s : st) (l : list (name * N)) (l' : list (name * rng)) : Prop :=
  forall nm, match alookup nm l with
             | Some id => exists lf, nthN (s_leaves s) id = Some lf /\ lookup nm l' = Some (lf_loc lf)
             | None => lookup nm l' = None
             end.

(** the types of the declarations of the open record's frame, part by part, and of the frames around it *)
Definition KEQ {V W} (tl : list (name * V)) (l : list (name * W)) : Prop :=
  forall nm, lookup nm tl = None <-> lookup nm l = None.
Definition RT (e : env) (s : st) (rid : N) (vars : list (name * N)) (t : list scope) (rc : recd) (fr : frame) : Prop :=
  exists tf tfs, e_tfr e = tf :: tfs /\
    KEQ (tf_vars tf) (fr_vars fr) /\ KEQ (tf_fields tf) (fr_fields fr) /\ KEQ (tf_targs tf) (fr_targs fr) /\
    (forall nm v ty, alookup nm vars = Some v -> lookup nm (tf_vars tf) = Some ty -> TYPS s (SyLeaf v) ty) /\
    (forall nm fid ty, find_field (rec_fuel s) (s_recs s) rid nm = Some fid -> lookup nm (tf_fields tf) = Some ty ->
                       TYPS s (SyLeaf fid) ty) /\
    (forall nm id ty, alookup nm (rc_targs rc) = Some id -> lookup nm (tf_targs tf) = Some ty -> TYPS s (SyLeaf id) ty) /\
    (forall nm sym ty, find_local (set_scopes t s) nm = Some sym -> first_some (tframe_lookup nm) tfs = Some ty ->
                       TYPS s sym ty).

Inductive RB (f : N) (e : env) (s : st) (rid : N) : Prop :=
| mkRB : forall (vars : list (name * N)) (tail : list scope) (fr : frame) (frs : list frame) (rc : recd),
    s_scopes s = mkScope (KRecord rid) vars :: tail ->
    e_frames e = fr :: frs ->
    nthN (s_recs s) rid = Some rc ->
    lenN (s_recs s) = N.succ rid ->
    AL s vars (fr_vars fr) ->
    FLD s rid (fr_fields fr) ->
    AL s (rc_targs rc) (fr_targs fr) ->
    Inh (Some rid) e s ->
    (forall n0 ci, lookup n0 (e_cls e) = Some ci -> find_class s n0 = Some rid -> ci_fields ci = []) ->
    RT e s rid vars tail rc fr ->
    (forall nm d, first_some (frame_lookup nm) frs = Some d ->
                  exists sym, find_local (set_scopes tail s) nm = Some sym /\ define_loc s sym = Some d) ->
    (forall nm, first_some (frame_lookup nm) frs = None -> find_local (set_scopes tail s) nm = None) ->
    current_record_id (set_scopes tail s) = None ->
    RB f e s rid.

Lemma find_local_cons : forall s c t nm, s_scopes s = c :: t ->
    find_local s nm = match scope_find s c nm with Some x => Some x | None => find_local (set_scopes t s) nm end.
Proof.
  intros s c t nm H. unfold find_local. rewrite H. simpl. destruct (scope_find s c nm); [reflexivity|].
  apply find_map_ext. intros c0. reflexivity.
Qed.

Lemma RB_Pre2 : forall f e s rid, RB f e s rid -> Pre2g f e s -> Pre2 f e s.
Proof.
  intros f e s rid [vars t fr frs rc Hsc Hfe Hrec Hlast Av Af At HI HS HT T1 T2 T3] [F D1 D2 S1 S2 C1 C2 M1 M2].
  assert (SF : forall nm, scope_find s (mkScope (KRecord rid) vars) nm
                          = match alookup nm vars with
                            | Some v => Some (SyLeaf v)
                            | None => match find_field (rec_fuel s) (s_recs s) rid nm with
                                      | Some x => Some (SyLeaf x)
                                      | None => option_map SyLeaf (alookup nm (rc_targs rc))
                                      end
                            end).
  { intros nm. unfold scope_find, sc_find_variable. cbn [sc_kind sc_vars].
    destruct (alookup nm vars); [reflexivity|]. rewrite Hrec. reflexivity. }
  split; auto.
  - intros nm d H. unfold locals_of in H. rewrite Hfe in H. simpl in H.
    rewrite (find_local_cons s _ t nm Hsc), SF. unfold frame_lookup in H.
    specialize (Av nm). specialize (Af nm). specialize (At nm).
    destruct (alookup nm vars) as [v|].
    + destruct Av as [lf [A B]]. rewrite B in H. injection H as <-. exists (SyLeaf v). simpl. now rewrite A.
    + rewrite Av in H. destruct (find_field (rec_fuel s) (s_recs s) rid nm) as [x|].
      * destruct Af as [lf [A B]]. rewrite B in H. injection H as <-. exists (SyLeaf x). simpl. now rewrite A.
      * rewrite Af in H. destruct (alookup nm (rc_targs rc)) as [y|]; simpl.
        -- destruct At as [lf [A B]]. rewrite B in H. injection H as <-. exists (SyLeaf y). simpl. now rewrite A.
        -- rewrite At in H. apply T1. exact H.
  - intros nm H. unfold locals_of in H. rewrite Hfe in H. simpl in H.
    rewrite (find_local_cons s _ t nm Hsc), SF. unfold frame_lookup in H.
    specialize (Av nm). specialize (Af nm). specialize (At nm).
    destruct (alookup nm vars) as [v|]; [destruct Av as [lf [A B]]; rewrite B in H; discriminate|].
    rewrite Av in H. destruct (find_field (rec_fuel s) (s_recs s) rid nm) as [x|]; [destruct Af as [lf [A B]]; rewrite B in H; discriminate|].
    rewrite Af in H. destruct (alookup nm (rc_targs rc)) as [y|]; [destruct At as [lf [A B]]; rewrite B in H; discriminate|].
    rewrite At in H. simpl. apply T2. exact H.
  - (* typed locals: the same case analysis on both sides *)
    destruct HT as (tf & tfs & Htf & KV & KF & KT & VT & FT & TT & TLt).
    intros nm sym ty H1 H2. rewrite Htf in H2. simpl in H2. unfold tframe_lookup in H2.
    rewrite (find_local_cons s _ t nm Hsc), SF in H1.
    specialize (Av nm). specialize (Af nm). specialize (At nm).
    destruct (alookup nm vars) as [v|] eqn:Ev.
    + injection H1 as <-. destruct Av as [lf [A B]].
      destruct (lookup nm (tf_vars tf)) as [ty0|] eqn:Et; [|apply (KV nm) in Et; congruence].
      injection H2 as <-. now apply (VT nm v ty0).
    + assert (Et : lookup nm (tf_vars tf) = None) by (now apply (KV nm)). rewrite Et in H2.
      destruct (find_field (rec_fuel s) (s_recs s) rid nm) as [x|] eqn:Ex.
      * injection H1 as <-. destruct Af as [lf [A B]].
        destruct (lookup nm (tf_fields tf)) as [ty0|] eqn:Et2; [|apply (KF nm) in Et2; congruence].
        injection H2 as <-. now apply (FT nm x ty0).
      * assert (Et2 : lookup nm (tf_fields tf) = None) by (now apply (KF nm)). rewrite Et2 in H2.
        destruct (alookup nm (rc_targs rc)) as [y|] eqn:Ey; simpl in H1.
        -- injection H1 as <-. destruct At as [lf [A B]].
           destruct (lookup nm (tf_targs tf)) as [ty0|] eqn:Et3; [|apply (KT nm) in Et3; congruence].
           injection H2 as <-. now apply (TT nm y ty0).
        -- assert (Et3 : lookup nm (tf_targs tf) = None) by (now apply (KT nm)). rewrite Et3 in H2.
           now apply (TLt nm sym ty).
Qed.


Lemma AL_ext : forall s s' l l', AL s l l' -> (exists ext, s_leaves s' = s_leaves s ++ ext) -> AL s' l l'.
Proof.
  intros s s' l l' H [ext Hl] nm. specialize (H nm). destruct (alookup nm l) as [id|]; [|exact H].
  destruct H as [lf [A B]]. exists lf. split; [|exact B]. rewrite Hl. now apply nthN_app_some.
Qed.

Lemma find_local_tail_eq : forall t s s' nm,
    s_mcs s' = s_mcs s -> current_record_id (set_scopes t s) = None ->
    find_local (set_scopes t s') nm = find_local (set_scopes t s) nm.
Proof.
  intros t s s' nm Hm Hnr. unfold find_local; simpl.
  assert (G : forall l, find_map sc_record_id l = None ->
                        find_map (fun c => scope_find (set_scopes t s') c nm) l
                        = find_map (fun c => scope_find (set_scopes t s) c nm) l).
  { induction l as [|c r IHl]; intros Hn; simpl; [reflexivity|]. simpl in Hn.
    destruct (sc_record_id c) eqn:Ec; [discriminate|].
    assert (E : scope_find (set_scopes t s') c nm = scope_find (set_scopes t s) c nm).
    { unfold scope_find. destruct (sc_find_variable c nm); [reflexivity|].
      unfold sc_record_id in Ec. destruct (sc_kind c); try reflexivity; try discriminate. simpl. now rewrite Hm. }
    rewrite E. destruct (scope_find (set_scopes t s) c nm); [reflexivity|]. now apply IHl. }
  apply G. exact Hnr.
Qed.

Lemma RT_VR : forall e s s' rid vars t rc fr,
    RT e s rid vars t rc fr -> VR s s' -> current_record_id (set_scopes t s) = None -> RT e s' rid vars t rc fr.
Proof.
  intros e s s' rid vars t rc fr (tf & tfs & Htf & KV & KF & KT & VT & FT & TT & TLt) V T3.
  pose proof V as (Hr & Hm & _).
  exists tf, tfs. repeat split; try assumption; try (apply KV); try (apply KF); try (apply KT).
  - intros nm v ty H1 H2. apply (TYPS_VR s s'); auto. eapply VT; eassumption.
  - intros nm fid ty H1 H2. unfold rec_fuel in H1. rewrite Hr in H1. apply (TYPS_VR s s'); auto. eapply FT; eassumption.
  - intros nm id ty H1 H2. apply (TYPS_VR s s'); auto. eapply TT; eassumption.
  - intros nm sym ty H1 H2. rewrite (find_local_tail_eq t s s' nm Hm T3) in H1. apply (TYPS_VR s s'); auto. eapply TLt; eassumption.
Qed.

(** values keep the record-body relation *)
Lemma RB_VR : forall f e s s' rid, RB f e s rid -> VR s s' -> s_scopes s' = s_scopes s -> RB f e s' rid.
Proof.
  intros f e s s' rid [vars t fr frs rc Hsc Hfe Hrec Hlast Av Af At HI HS HT T1 T2 T3] V Hs.
  pose proof V as (Hr & Hm & Hc & Hd & Hmc & Hds & Ht & Hl).
  apply (mkRB f e s' rid vars t fr frs rc); auto.
  - now rewrite Hs.
  - now rewrite Hr.
  - now rewrite Hr.
  - now apply (AL_ext s s').
  - now apply (FLD_same_recs s s').
  - now apply (AL_ext s s').
  - eapply Inh_VR; eassumption.
  - intros n0 ci H1 H2. unfold find_class in *. rewrite Hc in H2. eapply HS; eassumption.
  - now apply (RT_VR e s s').
  - intros nm d H. destruct (T1 nm d H) as [sym [A B]]. exists sym.
    rewrite (find_local_tail_eq t s s' nm Hm T3). split; [exact A|now apply (define_loc_ext s s')].
  - intros nm H. rewrite (find_local_tail_eq t s s' nm Hm T3). now apply T2.
Qed.
Lemma Pre2g_VR : forall f e s s', Pre2g f e s -> VR s s' -> Pre2g f e s'.
Proof.
  intros f e s s' [F D1 D2 S1 S2 C1 C2 M1 M2] V.
  pose proof V as (Hr & Hm & Hc & Hd & Hmc & Hds & Ht & Hl). split.
  - unfold current_file in *. now rewrite Ht.
  - intros nm d H. destruct (D1 nm d H) as [id [A B]]. exists id. unfold find_def in *. rewrite Hd.
    split; [exact A|now apply (define_loc_ext s s')].
  - intros nm H. unfold find_def in *. rewrite Hd. now apply D2.
  - intros nm d H. destruct (S1 nm d H) as [id [A B]]. exists id. unfold find_defset in *. rewrite Hds.
    split; [exact A|now apply (define_loc_ext s s')].
  - intros nm H. unfold find_defset in *. rewrite Hds. now apply S2.
  - intros nm d H. specialize (C1 nm d H). unfold class_view, find_class in *. now rewrite Hc, Hr.
  - intros nm H. unfold find_class in *. rewrite Hc. now apply C2.
  - intros nm d H. specialize (M1 nm d H). unfold mc_view, find_multiclass in *. now rewrite Hmc, Hm.
  - intros nm H. unfold find_multiclass in *. rewrite Hmc. now apply M2.
Qed.

(** ---- pieces used by the record-body steps *)
Lemma name_eqb_eq : forall a b, name_eqb a b = true <-> a = b.
Proof.
  induction a as [|x a IH]; intros [|y b]; simpl; split; intros H; try discriminate; try reflexivity.
  - apply andb_true_iff in H. destruct H as [H1 H2]. apply N.eqb_eq in H1. apply IH in H2. now subst.
  - injection H as -> ->. rewrite N.eqb_refl. simpl. now apply IH.
Qed.
Lemma name_eqb_spec : forall a b, reflect (a = b) (name_eqb a b).
Proof.
  intros a b. destruct (name_eqb a b) eqn:E; constructor.
  - now apply name_eqb_eq.
  - intros H. apply name_eqb_eq in H. congruence.
Qed.

Lemma alookup_imap_insert : forall V (k : name) (v : V) l nm,
    alookup nm (imap_insert k v l) = if name_eqb nm k then Some v else alookup nm l.
Proof.
  intros V k v l nm. induction l as [|[k' v'] r IH]; simpl.
  - destruct (name_eqb nm k); reflexivity.
  - destruct (name_eqb_spec k k') as [->|Hne]; simpl.
    + destruct (name_eqb nm k'); reflexivity.
    + rewrite IH. destruct (name_eqb_spec nm k') as [->|Hn2]; [|reflexivity].
      destruct (name_eqb_spec k' k) as [Heq|_]; [congruence|reflexivity].
Qed.

Lemma ty_sim_some : forall t f e s,
    Pre f e s -> forallb resolved (spec_ty f e t) = true -> fst (index_ty t s) <> None.
Proof.
  induction t; intros f e s P HR; simpl; try discriminate.
  - unfold bind. specialize (IHt f e s P HR). destruct (index_ty t s) as [[x|] s1]; simpl in *; [discriminate|congruence].
  - simpl in HR. rewrite andb_true_r in HR. unfold resolved in HR; simpl in HR.
    destruct (lookup_class e (i_name i)) as [d|] eqn:El; [|discriminate].
    pose proof (pre_cls_some f e s P _ _ El) as Hc. unfold class_view in Hc.
    unfold bind, here, state, get; simpl.
    destruct (find_class s (i_name i)) as [c|] eqn:Ef; [|discriminate]. simpl. discriminate.
Qed.

(** a state update that appends leaves and changes the open record (its maps only) *)
Definition rec_update (s s' : st) (rid : N) (g : recd -> recd) : Prop :=
  s_scopes s' = s_scopes s /\ s_mcs s' = s_mcs s /\ s_trace s' = s_trace s /\
  s_nclass s' = s_nclass s /\ s_ndef s' = s_ndef s /\ s_nmc s' = s_nmc s /\ s_ndset s' = s_ndset s /\
  (exists ext, s_leaves s' = s_leaves s ++ ext) /\
  s_recs s' = set_nth (N.to_nat rid) g (s_recs s).

Lemma define_loc_rec_update : forall s s' rid g sym d,
    rec_update s s' rid g -> (forall r, rc_loc (g r) = rc_loc r) ->
    define_loc s sym = Some d -> define_loc s' sym = Some d.
Proof.
  intros s s' rid g sym d (Hs & Hm & _ & _ & _ & _ & _ & [ext Hl] & Hr) Hg H. destruct sym; simpl in *.
  - rewrite Hr, nthN_set_nth. destruct (N.eqb rid i); [|exact H].
    destruct (nthN (s_recs s) i); simpl in *; [|discriminate]. now rewrite Hg.
  - now rewrite Hm.
  - rewrite Hl. destruct (nthN (s_leaves s) i) eqn:E; [|discriminate]. now rewrite (nthN_app_some _ _ ext _ _ E).
Qed.

Lemma Pre2g_rec_update : forall f e s s' rid g,
    Pre2g f e s -> rec_update s s' rid g -> (forall r, rc_loc (g r) = rc_loc r) -> Pre2g f e s'.
Proof.
  intros f e s s' rid g [F D1 D2 S1 S2 C1 C2 M1 M2] U Hg.
  pose proof U as (Hs & Hm & Ht & Hc & Hd & Hmc & Hds & Hl & Hr).
  split.
  - unfold current_file in *. now rewrite Ht.
  - intros nm d H. destruct (D1 nm d H) as [id [A B]]. exists id. unfold find_def in *. rewrite Hd.
    split; [exact A|]. eapply define_loc_rec_update; eassumption.
  - intros nm H. unfold find_def in *. rewrite Hd. now apply D2.
  - intros nm d H. destruct (S1 nm d H) as [id [A B]]. exists id. unfold find_defset in *. rewrite Hds.
    split; [exact A|]. eapply define_loc_rec_update; eassumption.
  - intros nm H. unfold find_defset in *. rewrite Hds. now apply S2.
  - intros nm d H. specialize (C1 nm d H). unfold class_view, find_class in *. rewrite Hc.
    destruct (alookup nm (s_nclass s)) as [id|]; [|discriminate].
    change (define_loc s' (SyRecord id) = Some d). eapply define_loc_rec_update; eassumption.
  - intros nm H. unfold find_class in *. rewrite Hc. now apply C2.
  - intros nm d H. specialize (M1 nm d H). unfold mc_view, find_multiclass in *. now rewrite Hmc, Hm.
  - intros nm H. unfold find_multiclass in *. rewrite Hmc. now apply M2.
Qed.

Lemma set_nth_length : forall A (f : A -> A) l k, length (set_nth k f l) = length l.
Proof. intros A f l. induction l as [|x r IH]; intros [|k]; simpl; auto. Qed.

Lemma ff_par_agree : forall recs recs' nm b k ps, REC recs ->
    (forall id, id < b -> nthN recs' id = nthN recs id) -> (forall p, In p ps -> p < b) ->
    ff_par k recs' nm ps = ff_par k recs nm ps.
Proof.
  intros recs recs' nm b k ps HR Hag. induction ps as [|p r IH]; intros Hp; [reflexivity|]. simpl.
  rewrite (ff_agree recs recs' nm b HR Hag k p) by (apply Hp; now left).
  destruct (find_field k recs p nm); [reflexivity|]. apply IH. intros q Hq. apply Hp. now right.
Qed.

Lemma lookup_app : forall V nm (a b : list (name * V)),
    lookup nm (a ++ b) = match lookup nm a with Some x => Some x | None => lookup nm b end.
Proof.
  intros V nm a b. induction a as [|[k v] r IH]; [reflexivity|]. simpl. destruct (name_eqb nm k); [reflexivity|exact IH].
Qed.

(** the open record gets one more own field *)
Lemma FLD_add_field : forall s s' rid rc nm id lf l,
    FLD s rid l -> REC (s_recs s) -> nthN (s_recs s) rid = Some rc ->
    s_recs s' = set_nth (N.to_nat rid) (rec_add_field nm id) (s_recs s) ->
    (exists ext, s_leaves s' = s_leaves s ++ ext) -> nthN (s_leaves s') id = Some lf ->
    FLD s' rid ((nm, lf_loc lf) :: l).
Proof.
  intros s s' rid rc nm id lf l H HR Hrec Hr [ext Hl] Hid nm'. specialize (H nm').
  unfold rec_fuel in *. rewrite Hr, set_nth_length. rewrite find_field_S in *.
  rewrite nthN_set_nth, N.eqb_refl, Hrec in *. cbn [option_map rec_add_field rc_fields rc_parents].
  rewrite alookup_imap_insert. simpl. destruct (name_eqb nm' nm).
  - exists lf. auto.
  - rewrite (ff_par_agree (s_recs s) _ nm' rid _ _ HR).
    + destruct (match alookup nm' (rc_fields rc) with Some x => Some x | None => ff_par (length (s_recs s)) (s_recs s) nm' (rc_parents rc) end) as [x|];
        [|exact H]. destruct H as [lf0 [A B]]. exists lf0. split; [|exact B]. rewrite Hl. now apply nthN_app_some.
    + intros j Hj. rewrite nthN_set_nth. destruct (N.eqb_spec rid j); [lia|reflexivity].
    + intros p0 Hp0. apply (HR rid rc Hrec p0 Hp0).
Qed.
(** ... or something that is not a field *)
Lemma FLD_same_fields : forall s s' rid rc g l,
    FLD s rid l -> REC (s_recs s) -> nthN (s_recs s) rid = Some rc ->
    rc_fields (g rc) = rc_fields rc -> rc_parents (g rc) = rc_parents rc ->
    s_recs s' = set_nth (N.to_nat rid) g (s_recs s) ->
    (exists ext, s_leaves s' = s_leaves s ++ ext) ->
    FLD s' rid l.
Proof.
  intros s s' rid rc g l H HR Hrec Hgf Hgp Hr [ext Hl] nm'. specialize (H nm').
  unfold rec_fuel in *. rewrite Hr, set_nth_length. rewrite find_field_S in *.
  rewrite nthN_set_nth, N.eqb_refl, Hrec in *. cbn [option_map]. rewrite Hgf, Hgp.
  rewrite (ff_par_agree (s_recs s) _ nm' rid _ _ HR).
  - destruct (match alookup nm' (rc_fields rc) with Some x => Some x | None => ff_par (length (s_recs s)) (s_recs s) nm' (rc_parents rc) end) as [x|];
      [|exact H]. destruct H as [lf0 [A B]]. exists lf0. split; [|exact B]. rewrite Hl. now apply nthN_app_some.
  - intros j Hj. rewrite nthN_set_nth. destruct (N.eqb_spec rid j); [lia|reflexivity].
  - intros p0 Hp0. apply (HR rid rc Hrec p0 Hp0).
Qed.
(** ... or one more parent, whose fields come behind what the record already has *)
Lemma FLD_add_parent : forall s s' rid rc cid l lc,
    FLD s rid l -> FLD s cid lc -> REC (s_recs s) -> nthN (s_recs s) rid = Some rc -> cid < rid ->
    s_recs s' = set_nth (N.to_nat rid) (rec_add_parent cid) (s_recs s) ->
    (exists ext, s_leaves s' = s_leaves s ++ ext) ->
    FLD s' rid (l ++ lc).
Proof.
  intros s s' rid rc cid l lc H Hc HR Hrec Hlt Hr [ext Hl] nm'. specialize (H nm'). specialize (Hc nm').
  assert (Vr : (N.to_nat rid < length (s_recs s))%nat) by (eapply nthN_some_lt; eassumption).
  assert (Hag : forall j, j < rid -> nthN (set_nth (N.to_nat rid) (rec_add_parent cid) (s_recs s)) j = nthN (s_recs s) j).
  { intros j Hj. rewrite nthN_set_nth. destruct (N.eqb_spec rid j); [lia|reflexivity]. }
  unfold rec_fuel in *. rewrite Hr, set_nth_length. rewrite find_field_S in H |- *.
  rewrite nthN_set_nth, N.eqb_refl, Hrec in *. cbn [option_map rec_add_parent rc_fields rc_parents].
  rewrite lookup_app, ff_par_app.
  rewrite (ff_par_agree (s_recs s) _ nm' rid _ _ HR Hag) by (intros p0 Hp0; apply (HR rid rc Hrec p0 Hp0)).
  simpl. rewrite (ff_agree (s_recs s) _ nm' rid HR Hag _ cid Hlt).
  rewrite (ff_fuel (s_recs s) nm' HR (length (s_recs s)) (S (length (s_recs s))) cid) by lia.
  assert (Hold : forall x, (exists lf0, nthN (s_leaves s) x = Some lf0 /\ lookup nm' l = Some (lf_loc lf0)) ->
                         exists lf0, nthN (s_leaves s') x = Some lf0 /\
                                     match lookup nm' l with Some x0 => Some x0 | None => lookup nm' lc end = Some (lf_loc lf0)).
  { intros x [lf0 [A B]]. exists lf0. rewrite B. split; [|reflexivity]. rewrite Hl. now apply nthN_app_some. }
  destruct (alookup nm' (rc_fields rc)) as [x|]; [now apply Hold|].
  destruct (ff_par (length (s_recs s)) (s_recs s) nm' (rc_parents rc)) as [x|]; [now apply Hold|].
  rewrite H. destruct (find_field (S (length (s_recs s))) (s_recs s) cid nm') as [x|]; [|exact Hc].
  destruct Hc as [lf0 [A B]]. exists lf0. split; [|exact B]. rewrite Hl. now apply nthN_app_some.
Qed.

(** ---- what the lookup in the open record finds after each of its three updates *)
Lemma ff_add_own : forall s s' rid rc nm0 id nm,
    REC (s_recs s) -> nthN (s_recs s) rid = Some rc ->
    s_recs s' = set_nth (N.to_nat rid) (rec_add_field nm0 id) (s_recs s) ->
    find_field (rec_fuel s') (s_recs s') rid nm
    = if name_eqb nm nm0 then Some id else find_field (rec_fuel s) (s_recs s) rid nm.
Proof.
  intros s s' rid rc nm0 id nm HR Hrec Hr.
  unfold rec_fuel. rewrite Hr, set_nth_length. rewrite !find_field_S.
  rewrite nthN_set_nth, N.eqb_refl, Hrec. cbn [option_map rec_add_field rc_fields rc_parents].
  rewrite alookup_imap_insert. destruct (name_eqb nm nm0); [reflexivity|].
  rewrite (ff_par_agree (s_recs s) _ nm rid _ _ HR); [reflexivity| |].
  - intros j Hj. rewrite nthN_set_nth. destruct (N.eqb_spec rid j); [lia|reflexivity].
  - intros p0 Hp0. apply (HR rid rc Hrec p0 Hp0).
Qed.
Lemma ff_same : forall s s' rid rc g nm,
    REC (s_recs s) -> nthN (s_recs s) rid = Some rc ->
    rc_fields (g rc) = rc_fields rc -> rc_parents (g rc) = rc_parents rc ->
    s_recs s' = set_nth (N.to_nat rid) g (s_recs s) ->
    find_field (rec_fuel s') (s_recs s') rid nm = find_field (rec_fuel s) (s_recs s) rid nm.
Proof.
  intros s s' rid rc g nm HR Hrec Hgf Hgp Hr.
  unfold rec_fuel. rewrite Hr, set_nth_length. rewrite !find_field_S.
  rewrite nthN_set_nth, N.eqb_refl, Hrec. cbn [option_map]. rewrite Hgf, Hgp.
  rewrite (ff_par_agree (s_recs s) _ nm rid _ _ HR); [reflexivity| |].
  - intros j Hj. rewrite nthN_set_nth. destruct (N.eqb_spec rid j); [lia|reflexivity].
  - intros p0 Hp0. apply (HR rid rc Hrec p0 Hp0).
Qed.
Lemma ff_add_par : forall s s' rid rc cid nm,
    REC (s_recs s) -> nthN (s_recs s) rid = Some rc -> cid < rid ->
    s_recs s' = set_nth (N.to_nat rid) (rec_add_parent cid) (s_recs s) ->
    find_field (rec_fuel s') (s_recs s') rid nm
    = match find_field (rec_fuel s) (s_recs s) rid nm with
      | Some x => Some x
      | None => find_field (rec_fuel s) (s_recs s) cid nm
      end.
Proof.
  intros s s' rid rc cid nm HR Hrec Hlt Hr.
  assert (Vr : (N.to_nat rid < length (s_recs s))%nat) by (eapply nthN_some_lt; eassumption).
  assert (Hag : forall j, j < rid -> nthN (set_nth (N.to_nat rid) (rec_add_parent cid) (s_recs s)) j = nthN (s_recs s) j).
  { intros j Hj. rewrite nthN_set_nth. destruct (N.eqb_spec rid j); [lia|reflexivity]. }
  unfold rec_fuel. rewrite Hr, set_nth_length. rewrite find_field_S. rewrite (find_field_S _ _ rid).
  rewrite nthN_set_nth, N.eqb_refl, Hrec. cbn [option_map rec_add_parent rc_fields rc_parents].
  rewrite ff_par_app.
  rewrite (ff_par_agree (s_recs s) _ nm rid _ _ HR Hag) by (intros p0 Hp0; apply (HR rid rc Hrec p0 Hp0)).
  cbn [ff_par]. rewrite (ff_agree (s_recs s) _ nm rid HR Hag _ cid Hlt).
  rewrite (ff_fuel (s_recs s) nm HR (length (s_recs s)) (S (length (s_recs s))) cid) by lia.
  destruct (alookup nm (rc_fields rc)); [reflexivity|].
  destruct (ff_par (length (s_recs s)) (s_recs s) nm (rc_parents rc)); [reflexivity|].
  destruct (find_field (S (length (s_recs s))) (s_recs s) cid nm); reflexivity.
Qed.
Lemma lookup_unk : forall nm l ty, lookup nm (unk l) = Some ty -> ty = TUnk.
Proof.
  intros nm l ty. induction l as [|[k v] r IH]; simpl; [discriminate|].
  destruct (name_eqb nm k); [congruence|exact IH].
Qed.
Lemma lookup_unk_none : forall nm l, lookup nm (unk l) = None <-> lookup nm l = None.
Proof.
  intros nm l. induction l as [|[k v] r IH]; simpl; [tauto|].
  destruct (name_eqb nm k); [split; discriminate|exact IH].
Qed.

Lemma lookup_align : forall nm l ft ty, lookup nm (align l ft) = Some ty ->
    ty = match lookup nm ft with Some t => t | None => TUnk end.
Proof.
  intros nm l ft ty. induction l as [|[k v] r IH]; simpl; [discriminate|].
  destruct (name_eqb nm k) eqn:E; [|exact IH]. intros H. injection H as <-.
  apply name_eqb_eq in E. now subst k.
Qed.
Lemma lookup_align_none : forall nm l ft, lookup nm (align l ft) = None <-> lookup nm l = None.
Proof.
  intros nm l ft. induction l as [|[k v] r IH]; simpl; [tauto|].
  destruct (name_eqb nm k); [split; discriminate|exact IH].
Qed.
Lemma align_nil : forall ft, align [] ft = [].
Proof. reflexivity. Qed.

(** the classes other than the open record keep their field tables when the open (newest) record changes *)
Lemma CR_rec_update : forall s s' rid g tb id,
    CR (Some rid) s tb id -> REC (s_recs s) -> rec_update s s' rid g -> lenN (s_recs s) = N.succ rid ->
    CR (Some rid) s' tb id.
Proof.
  intros s s' rid g tb id (A & B & C) HR U Hlast.
  pose proof U as (Hs & Hm & Ht & Hc & Hd & Hmc & Hds & Hl & Hr).
  split; [|split; [|exact C]].
  - rewrite Hr, nthN_set_nth. destruct (N.eqb rid id); [|exact A]. destruct (nthN (s_recs s) id); [discriminate|congruence].
  - intros Ho. specialize (B Ho).
    assert (Hlt : id < rid).
    { destruct (nthN (s_recs s) id) as [rc|] eqn:E; [|congruence]. apply nthN_some_lt in E.
      assert (id <> rid) by congruence. unfold lenN in Hlast. lia. }
    apply (FLD_mono s s' id tb rid); auto.
    intros j Hj. rewrite Hr, nthN_set_nth. destruct (N.eqb_spec rid j); [lia|reflexivity].
Qed.
Lemma CRT_rec_update : forall s s' rid g ci id,
    CRT (Some rid) s ci id -> REC (s_recs s) -> rec_update s s' rid g -> lenN (s_recs s) = N.succ rid ->
    CRT (Some rid) s' ci id.
Proof.
  intros s s' rid g ci id [A B] HR U Hlast. split; [eapply CR_rec_update; eassumption|].
  intros Ho. specialize (B Ho). destruct A as (Av & _).
  pose proof U as (Hs & Hm & Ht & Hc & Hd & Hmc & Hds & Hl & Hr).
  assert (Hlt : id < rid).
  { destruct (nthN (s_recs s) id) as [rc|] eqn:E; [|congruence]. apply nthN_some_lt in E.
    assert (id <> rid) by congruence. unfold lenN in Hlast. lia. }
  apply (FLDT_mono s s' id (ci_ftys ci) rid); auto.
  - intros j Hj. rewrite Hr, nthN_set_nth. destruct (N.eqb_spec rid j); [lia|reflexivity].
  - now apply GRW_same.
Qed.
Lemma Inh_rec_update : forall e e' s s' rid g,
    Inh (Some rid) e s -> rec_update s s' rid g -> lenN (s_recs s) = N.succ rid ->
    (forall r p, In p (rc_parents (g r)) -> In p (rc_parents r) \/ p < rid) ->
    (forall r, rc_class (g r) = rc_class r) ->
    e_cls e' = e_cls e -> e_dtbl e' = e_dtbl e -> e_defs e' = e_defs e -> Inh (Some rid) e' s'.
Proof.
  intros e e' s s' rid g (HR & HC & H2 & [D1 D2]) U Hlast Hg Hcl He Hdt Hde.
  pose proof U as (Hs & Hm & Ht & Hc & Hd & Hmc & Hds & Hl & Hr).
  assert (Hag : forall j, j < rid -> nthN (s_recs s') j = nthN (s_recs s) j).
  { intros j Hj. rewrite Hr, nthN_set_nth. destruct (N.eqb_spec rid j); [lia|reflexivity]. }
  split; [|split; [|split; [|split]]].
  - intros id rc' H p0 Hp0. rewrite Hr, nthN_set_nth in H. destruct (N.eqb_spec rid id) as [<-|Hne].
    + destruct (nthN (s_recs s) rid) as [rc|] eqn:E; [|discriminate]. simpl in H. injection H as <-.
      destruct (Hg rc p0 Hp0) as [Hin|Hlt]; [apply (HR rid rc E p0 Hin)|exact Hlt].
    + apply (HR id rc' H p0 Hp0).
  - intros nm ci H. rewrite He in H. destruct (HC nm ci H) as (cid & A & B & C).
    exists cid. unfold find_class in *. rewrite Hc. split; [exact A|]. split.
    + rewrite Hr, nthN_set_nth. destruct (N.eqb rid cid); [|exact B].
      destruct (nthN (s_recs s) cid); [discriminate|congruence].
    + intros Ho. specialize (C Ho).
      assert (Hlt : cid < rid).
      { destruct (nthN (s_recs s) cid) as [rc|] eqn:E; [|congruence]. apply nthN_some_lt in E.
        assert (cid <> rid) by congruence. unfold lenN in Hlast. lia. }
      destruct C as [C1 C2]. split; [apply (FLD_mono s s' cid (ci_fields ci) rid); auto|].
      apply (FLDT_mono s s' cid (ci_ftys ci) rid); auto. now apply GRW_same.
  - unfold CF2 in *. rewrite He, Hc. eapply Forall2_imp; [|exact H2].
    intros a b [X Y]. split; [exact X|]. eapply CRT_rec_update; eassumption.
  - rewrite Hdt, Hd. eapply Forall2_imp; [|exact D1].
    intros a b (X & Y & Z). split; [exact X|]. split; [eapply CRT_rec_update; eassumption|].
    intros r H. rewrite Hr, nthN_set_nth in H. destruct (N.eqb rid (snd b)); [|now apply Z].
    destruct (nthN (s_recs s) (snd b)) as [r0|] eqn:E; [|discriminate]. simpl in H. injection H as <-.
    rewrite Hcl. now apply Z.
  - now rewrite Hde, Hdt.
Qed.

(** the frames around the record and their types are not affected by an update of the open record *)
Lemma TYPS_rec_update : forall s s' rid g sym ty, rec_update s s' rid g -> TYPS s sym ty -> TYPS s' sym ty.
Proof.
  intros s s' rid g sym ty (Hs & Hm & Ht & Hc & Hd & Hmc & Hds & Hl & Hr) H.
  apply (TYPS_GRW s s'); [|exact H]. split; [exact Hl|]. split; exists []; simpl; assumption.
Qed.

Lemma RB_rec_update : forall f e e' s s' rid g,
    RB f e s rid -> rec_update s s' rid g ->
    (forall r, rc_loc (g r) = rc_loc r) ->
    (forall r p, In p (rc_parents (g r)) -> In p (rc_parents r) \/ p < rid) ->
    (forall r, rc_class (g r) = rc_class r) ->
    e_cls e' = e_cls e -> e_dtbl e' = e_dtbl e -> e_defs e' = e_defs e ->
    (forall vars t fr frs rc,
        s_scopes s = mkScope (KRecord rid) vars :: t -> e_frames e = fr :: frs -> nthN (s_recs s) rid = Some rc ->
        FLD s rid (fr_fields fr) -> AL s (rc_targs rc) (fr_targs fr) -> RT e s rid vars t rc fr ->
        current_record_id (set_scopes t s) = None ->
        exists fr', e_frames e' = fr' :: frs /\ fr_vars fr' = fr_vars fr /\
                    FLD s' rid (fr_fields fr') /\ AL s' (rc_targs (g rc)) (fr_targs fr') /\
                    RT e' s' rid vars t (g rc) fr') ->
    RB f e' s' rid.
Proof.
  intros f e e' s s' rid g [vars t fr frs rc Hsc Hfe Hrec Hlast Av Af At HI HS HT T1 T2 T3] U Hg Hp Hcl He Hdt Hde Hnew.
  pose proof U as (Hs & Hm & Ht & Hc & Hd & Hmc & Hds & Hl & Hr).
  destruct (Hnew vars t fr frs rc Hsc Hfe Hrec Af At HT T3) as (fr' & Hfe' & Hv' & Af' & At' & HT').
  apply (mkRB f e' s' rid vars t fr' frs (g rc)); auto.
  - now rewrite Hs.
  - rewrite Hr, nthN_set_nth, N.eqb_refl, Hrec. reflexivity.
  - unfold lenN in *. now rewrite Hr, set_nth_length.
  - rewrite Hv'. now apply (AL_ext s s').
  - eapply Inh_rec_update; eassumption.
  - intros n0 ci H1 H2. unfold find_class in *. rewrite Hc in H2. rewrite He in H1. eapply HS; eassumption.
  - intros nm d H. destruct (T1 nm d H) as [sym [A B]]. exists sym.
    rewrite (find_local_tail_eq t s s' nm Hm T3). split; [exact A|]. eapply define_loc_rec_update; eassumption.
  - intros nm H. rewrite (find_local_tail_eq t s s' nm Hm T3). now apply T2.
Qed.

Record ResR (f : N) (s s' : st) (E : list ev) (e' : env) (rid : N) : Prop := mkResR {
  rr_uses : s_uses s' = rev E ++ s_uses s;
  rr_nf : nf s' = nf s;
  rr_rb : RB f e' s' rid;
  rr_g : Pre2g f e' s';
  rr_ncls : s_nclass s' = s_nclass s }.
Lemma ResR_trans : forall f a b c E1 E2 e1 e2 rid,
    ResR f a b E1 e1 rid -> ResR f b c E2 e2 rid -> ResR f a c (E1 ++ E2) e2 rid.
Proof.
  intros f a b c E1 E2 e1 e2 rid [U1 N1 _ _ C1] [U2 N2 R2 G2 C2]. split; auto.
  - rewrite U2, U1, rev_app_distr, app_assoc. reflexivity.
  - congruence.
  - congruence.
Qed.
Lemma ResR_of_Step : forall f e s s' E rid,
    Step s s' E -> RB f e s rid -> Pre2g f e s -> ResR f s s' E e rid.
Proof.
  intros f e s s' E rid [U V Sc N] R G. split; auto.
  - eapply RB_VR; eassumption.
  - eapply Pre2g_VR; eassumption.
  - now destruct V as (_ & _ & Hc & _).
Qed.

Lemma RB_current : forall f e s rid, RB f e s rid -> current_record_id s = Some rid.
Proof. intros f e s rid [vars t fr frs rc Hsc _ _ _ _ _ _ _ _ _ _ _ _]. unfold current_record_id. rewrite Hsc. reflexivity. Qed.
Lemma RB_valid : forall f e s rid, RB f e s rid -> exists rc, nthN (s_recs s) rid = Some rc.
Proof. intros f e s rid [vars t fr frs rc _ _ Hrec _ _ _ _ _ _ _ _ _ _]. eauto. Qed.
Lemma RB_inh : forall f e s rid, RB f e s rid -> Inh (Some rid) e s.
Proof. intros f e s rid [vars t fr frs rc _ _ _ _ _ _ _ HI _ _ _ _ _]. exact HI. Qed.
Lemma RB_self : forall f e s rid, RB f e s rid ->
    forall n0 ci, lookup n0 (e_cls e) = Some ci -> find_class s n0 = Some rid -> ci_fields ci = [].
Proof. intros f e s rid [vars t fr frs rc _ _ _ _ _ _ _ _ HS _ _ _ _]. exact HS. Qed.
Lemma RB_last : forall f e s rid, RB f e s rid -> lenN (s_recs s) = N.succ rid.
Proof. intros f e s rid [vars t fr frs rc _ _ _ Hl _ _ _ _ _ _ _ _ _]. exact Hl. Qed.

(** the state after `add_leaf l; record_mut rid g` for an existing record *)
Lemma leaf_then_mut : forall s l rid g rc,
    nthN (s_recs s) rid = Some rc ->
    let s3 := snd (record_mut rid g (snd (add_leaf l s))) in
    rec_update s s3 rid g /\ s_uses s3 = s_uses s /\ nf s3 = nf s /\ s_leaves s3 = s_leaves s ++ [l] /\ s_bad s3 = s_bad s.
Proof.
  intros s l rid g rc H s3. unfold s3, record_mut, add_leaf; simpl. unfold add_pos.
  destruct (rng_empty (lf_loc l)); simpl; rewrite H; simpl; repeat split; auto; eexists; reflexivity.
Qed.

Lemma add_field_frames : forall e fr frs n r, e_frames e = fr :: frs ->
    e_frames (add_field e n r) = mkFrame (fr_vars fr) ((n, r) :: fr_fields fr) (fr_targs fr) :: frs.
Proof. intros e fr frs n r H. unfold add_field. rewrite H. reflexivity. Qed.
Lemma add_targ_frames : forall e fr frs n r, e_frames e = fr :: frs ->
    e_frames (add_targ e n r) = mkFrame (fr_vars fr) (fr_fields fr) ((n, r) :: fr_targs fr) :: frs.
Proof. intros e fr frs n r H. unfold add_targ. rewrite H. reflexivity. Qed.
Lemma same_globals_add_field : forall e n r, same_globals e (add_field e n r).
Proof. intros. unfold add_field. destruct (e_frames e); repeat split. Qed.
Lemma same_globals_add_targ : forall e n r, same_globals e (add_targ e n r).
Proof. intros. unfold add_targ. destruct (e_frames e); repeat split. Qed.

Lemma AL_insert : forall s s' l l' nm0 id lf,
    AL s l l' -> (exists ext, s_leaves s' = s_leaves s ++ ext) -> nthN (s_leaves s') id = Some lf ->
    AL s' (imap_insert nm0 id l) ((nm0, lf_loc lf) :: l').
Proof.
  intros s s' l l' nm0 id lf H Hext Hid nm. rewrite alookup_imap_insert. simpl.
  destruct (name_eqb nm nm0).
  - exists lf. auto.
  - apply (AL_ext s s' l l' H Hext nm).
Qed.

Lemma TYPS_new_leaf : forall s s' l sty id,
    TYPm s (lf_ty l) sty -> lf_kind l <> LDefm -> nthN (s_leaves s') id = Some l ->
    GRW s s' -> TYPS s' (SyLeaf id) sty.
Proof.
  intros s s' l sty id Hty Hk Hid G. apply TYPS_iff. right. exists id, l.
  split; [reflexivity|]. split; [exact Hid|]. split; [exact Hk|]. exact (TYPm_GRW s s' (lf_ty l) sty G Hty).
Qed.
Lemma GRW_rec_update : forall s s' rid g, rec_update s s' rid g -> GRW s s'.
Proof.
  intros s s' rid g (Hs & Hm & Ht & Hc & Hd & Hmc & Hds & Hl & Hr). split; [exact Hl|]. split; exists []; simpl; assumption.
Qed.
Lemma globals_tset : forall e n ty,
    (e_cls (tset_field e n ty) = e_cls e /\ e_dtbl (tset_field e n ty) = e_dtbl e /\ e_defs (tset_field e n ty) = e_defs e) /\
    (e_cls (tset_targ e n ty) = e_cls e /\ e_dtbl (tset_targ e n ty) = e_dtbl e /\ e_defs (tset_targ e n ty) = e_defs e) /\
    (e_cls (tset_var e n ty) = e_cls e /\ e_dtbl (tset_var e n ty) = e_dtbl e /\ e_defs (tset_var e n ty) = e_defs e).
Proof. intros. repeat split. Qed.
Lemma globals_add_field0 : forall e n r,
    e_cls (add_field e n r) = e_cls e /\ e_dtbl (add_field e n r) = e_dtbl e /\ e_defs (add_field e n r) = e_defs e /\
    e_tfr (add_field e n r) = e_tfr e.
Proof. intros. unfold add_field. destruct (e_frames e); repeat split. Qed.
Lemma globals_add_targ0 : forall e n r,
    e_cls (add_targ e n r) = e_cls e /\ e_dtbl (add_targ e n r) = e_dtbl e /\ e_defs (add_targ e n r) = e_defs e /\
    e_tfr (add_targ e n r) = e_tfr e.
Proof. intros. unfold add_targ. destruct (e_frames e); repeat split. Qed.
Lemma Pre2g_su : forall f e e' s, Pre2g f e s ->
    e_cls e' = e_cls e -> e_mcs e' = e_mcs e -> e_defs e' = e_defs e -> e_dsets e' = e_dsets e -> Pre2g f e' s.
Proof. intros f e e' s G A B C D. apply (Pre2g_globals f e); [repeat split; assumption|exact G]. Qed.

(** declaring a field (FieldDef before its initialiser, or the re-declaration by a FieldLet) *)
Lemma RB_add_field : forall f e s rid l sty,
    RB f e s rid -> Pre2g f e s -> TYPm s (lf_ty l) sty -> lf_kind l <> LDefm ->
    let s3 := snd (record_mut rid (rec_add_field (lf_name l) (lenN (s_leaves s))) (snd (add_leaf l s))) in
    ResR f s s3 [] (tset_field (add_field e (lf_name l) (lf_loc l)) (lf_name l) sty) rid.
Proof.
  intros f e s rid l sty R G Hty Hk s3.
  destruct (RB_valid _ _ _ _ R) as [rc Hrc].
  destruct (leaf_then_mut s l rid (rec_add_field (lf_name l) (lenN (s_leaves s))) rc Hrc) as (U & Hu & Hn & Hl & _).
  fold s3 in U, Hu, Hn, Hl.
  assert (Hext : exists ext, s_leaves s3 = s_leaves s ++ ext) by (eexists; exact Hl).
  assert (Hid : nthN (s_leaves s3) (lenN (s_leaves s)) = Some l) by (rewrite Hl; apply nthN_app_last).
  pose proof (RB_inh _ _ _ _ R) as [HREC _].
  pose proof U as (_ & _ & _ & _ & _ & _ & _ & _ & Hr3).
  destruct (globals_add_field0 e (lf_name l) (lf_loc l)) as (A1 & A2 & A3 & A4).
  set (E := tset_field (add_field e (lf_name l) (lf_loc l)) (lf_name l) sty).
  split; auto.
  - eapply (RB_rec_update f e E s s3 rid _ R U); try reflexivity; try assumption.
    + intros r p Hp. left. exact Hp.
    + intros vars t fr frs rc0 Hsc Hfe Hrec Af At (tf & tfs & Htf & KV & KF & KT & VT & FT & TT & TLt) T3.
      exists (mkFrame (fr_vars fr) ((lf_name l, lf_loc l) :: fr_fields fr) (fr_targs fr)).
      split; [now apply add_field_frames|]. split; [reflexivity|]. split; [|split].
      * simpl. eapply (FLD_add_field s s3 rid rc0); eassumption.
      * simpl. now apply (AL_ext s s3).
      * exists (mkTF (tf_vars tf) ((lf_name l, sty) :: tf_fields tf) (tf_targs tf)), tfs.
        split; [unfold E, tset_field, with_tfr, with_frames; simpl; now rewrite A4, Htf|].
        split; [exact KV|]. split.
        { intros nm. simpl. destruct (name_eqb nm (lf_name l)); [split; discriminate|apply KF]. }
        split; [exact KT|]. split; [|split; [|split]].
        -- intros nm v ty H1 H2. apply (TYPS_rec_update s s3 rid _ _ _ U). eapply VT; eassumption.
        -- intros nm fid ty H1 H2. rewrite (ff_add_own s s3 rid rc0 (lf_name l) (lenN (s_leaves s)) nm HREC Hrec Hr3) in H1.
           simpl in H2. destruct (name_eqb nm (lf_name l)).
           ++ injection H1 as <-. injection H2 as <-.
              apply (TYPS_new_leaf s s3 l sty _ Hty Hk Hid). eapply GRW_rec_update; exact U.
           ++ apply (TYPS_rec_update s s3 rid _ _ _ U). eapply FT; eassumption.
        -- intros nm id ty H1 H2. apply (TYPS_rec_update s s3 rid _ _ _ U). eapply TT; eassumption.
        -- intros nm sym ty H1 H2. pose proof U as (_ & Hm & _).
           rewrite (find_local_tail_eq t s s3 nm Hm T3) in H1.
           apply (TYPS_rec_update s s3 rid _ _ _ U). eapply TLt; eassumption.
  - apply (Pre2g_su f e); [eapply Pre2g_rec_update; [exact G|exact U|reflexivity]|exact A1| | |];
      unfold E, tset_field, with_tfr, with_frames, add_field; destruct (e_frames e); reflexivity.
  - now destruct U as (_ & _ & _ & Hc & _).
Qed.
Lemma RB_add_targ : forall f e s rid l sty,
    RB f e s rid -> Pre2g f e s -> TYPm s (lf_ty l) sty -> lf_kind l <> LDefm ->
    let s3 := snd (record_mut rid (rec_add_targ (lf_name l) (lenN (s_leaves s))) (snd (add_leaf l s))) in
    ResR f s s3 [] (tset_targ (add_targ e (lf_name l) (lf_loc l)) (lf_name l) sty) rid.
Proof.
  intros f e s rid l sty R G Hty Hk s3.
  destruct (RB_valid _ _ _ _ R) as [rc Hrc].
  destruct (leaf_then_mut s l rid (rec_add_targ (lf_name l) (lenN (s_leaves s))) rc Hrc) as (U & Hu & Hn & Hl & _).
  fold s3 in U, Hu, Hn, Hl.
  assert (Hext : exists ext, s_leaves s3 = s_leaves s ++ ext) by (eexists; exact Hl).
  assert (Hid : nthN (s_leaves s3) (lenN (s_leaves s)) = Some l) by (rewrite Hl; apply nthN_app_last).
  pose proof (RB_inh _ _ _ _ R) as [HREC _].
  pose proof U as (_ & _ & _ & _ & _ & _ & _ & _ & Hr3).
  destruct (globals_add_targ0 e (lf_name l) (lf_loc l)) as (A1 & A2 & A3 & A4).
  set (E := tset_targ (add_targ e (lf_name l) (lf_loc l)) (lf_name l) sty).
  split; auto.
  - eapply (RB_rec_update f e E s s3 rid _ R U); try reflexivity; try assumption.
    + intros r p Hp. left. exact Hp.
    + intros vars t fr frs rc0 Hsc Hfe Hrec Af At (tf & tfs & Htf & KV & KF & KT & VT & FT & TT & TLt) T3.
      exists (mkFrame (fr_vars fr) (fr_fields fr) ((lf_name l, lf_loc l) :: fr_targs fr)).
      split; [now apply add_targ_frames|]. split; [reflexivity|]. split; [|split].
      * simpl. apply (FLD_same_fields s s3 rid rc0 (rec_add_targ (lf_name l) (lenN (s_leaves s))) _ Af HREC Hrec); [reflexivity|reflexivity|exact Hr3|exact Hext].
      * simpl. now apply (AL_insert s s3).
      * exists (mkTF (tf_vars tf) (tf_fields tf) ((lf_name l, sty) :: tf_targs tf)), tfs.
        split; [unfold E, tset_targ, with_tfr, with_frames; simpl; now rewrite A4, Htf|].
        split; [exact KV|]. split; [exact KF|]. split.
        { intros nm. simpl. destruct (name_eqb nm (lf_name l)); [split; discriminate|apply KT]. }
        split; [|split; [|split]].
        -- intros nm v ty H1 H2. apply (TYPS_rec_update s s3 rid _ _ _ U). eapply VT; eassumption.
        -- intros nm fid ty H1 H2.
           rewrite (ff_same s s3 rid rc0 (rec_add_targ (lf_name l) (lenN (s_leaves s))) nm HREC Hrec eq_refl eq_refl Hr3) in H1.
           apply (TYPS_rec_update s s3 rid _ _ _ U). eapply FT; eassumption.
        -- intros nm id ty H1 H2. cbn [rec_add_targ rc_targs] in H1. rewrite alookup_imap_insert in H1.
           simpl in H2. destruct (name_eqb nm (lf_name l)).
           ++ injection H1 as <-. injection H2 as <-.
              apply (TYPS_new_leaf s s3 l sty _ Hty Hk Hid). eapply GRW_rec_update; exact U.
           ++ apply (TYPS_rec_update s s3 rid _ _ _ U). eapply TT; eassumption.
        -- intros nm sym ty H1 H2. pose proof U as (_ & Hm & _).
           rewrite (find_local_tail_eq t s s3 nm Hm T3) in H1.
           apply (TYPS_rec_update s s3 rid _ _ _ U). eapply TLt; eassumption.
  - apply (Pre2g_su f e); [eapply Pre2g_rec_update; [exact G|exact U|reflexivity]|exact A1| | |];
      unfold E, tset_targ, with_tfr, with_frames, add_targ; destruct (e_frames e); reflexivity.
  - now destruct U as (_ & _ & _ & Hc & _).
Qed.

Lemma AL_cons : forall s s' l l' nm0 id lf,
    AL s l l' -> (exists ext, s_leaves s' = s_leaves s ++ ext) -> nthN (s_leaves s') id = Some lf ->
    AL s' ((nm0, id) :: l) ((nm0, lf_loc lf) :: l').
Proof.
  intros s s' l l' nm0 id lf H Hext Hid nm. simpl. destruct (name_eqb nm nm0).
  - exists lf. auto.
  - apply (AL_ext s s' l l' H Hext nm).
Qed.

Lemma RB_with_var : forall f e s rid l sty,
    RB f e s rid -> Pre2g f e s -> TYPm s (lf_ty l) sty -> lf_kind l <> LDefm ->
    ResR f s (with_var s l) [] (tset_var (add_var e (lf_name l) (lf_loc l)) (lf_name l) sty) rid.
Proof.
  intros f e s rid l sty R G Hty Hk.
  destruct R as [vars t fr frs rc Hsc Hfe Hrec Hlast Av Af At HI HS HT T1 T2 T3].
  destruct (with_var_facts s l _ _ Hsc) as (Hsc' & Hl & Hu & Hn & V).
  pose proof V as (Hr & Hm & _).
  assert (Hext : exists ext, s_leaves (with_var s l) = s_leaves s ++ ext) by (eexists; exact Hl).
  assert (Hid : nthN (s_leaves (with_var s l)) (lenN (s_leaves s)) = Some l) by (rewrite Hl; apply nthN_app_last).
  set (E := tset_var (add_var e (lf_name l) (lf_loc l)) (lf_name l) sty).
  assert (GE : e_cls E = e_cls e /\ e_dtbl E = e_dtbl e /\ e_defs E = e_defs e /\ e_mcs E = e_mcs e /\ e_dsets E = e_dsets e).
  { unfold E, tset_var, with_tfr, with_frames, add_var. destruct (e_frames e); repeat split. }
  destruct GE as (G1 & G2 & G3 & G4 & G5).
  split; auto.
  - apply (mkRB f E (with_var s l) rid ((lf_name l, lenN (s_leaves s)) :: vars) t
                 (mkFrame ((lf_name l, lf_loc l) :: fr_vars fr) (fr_fields fr) (fr_targs fr)) frs rc); auto.
    + change (e_frames E) with (e_frames (add_var e (lf_name l) (lf_loc l))). unfold add_var. rewrite Hfe. reflexivity.
    + now rewrite Hr.
    + now rewrite Hr.
    + simpl. now apply (AL_cons s (with_var s l)).
    + simpl. now apply (FLD_same_recs s (with_var s l)).
    + simpl. now apply (AL_ext s (with_var s l)).
    + eapply (Inh_eq _ e); [eapply Inh_VR; eassumption| | | | | | |]; auto; try reflexivity. exists []. now rewrite app_nil_r.
    + intros n0 ci H1 H2. destruct V as (_ & _ & Hc & _). unfold find_class in *. rewrite Hc in H2.
      eapply HS; [|exact H2]. now rewrite <- G1.
    + destruct HT as (tf & tfs & Htf & KV & KF & KT & VT & FT & TT & TLt).
      exists (mkTF ((lf_name l, sty) :: tf_vars tf) (tf_fields tf) (tf_targs tf)), tfs.
      split; [unfold E, tset_var, with_tfr, with_frames; simpl; now rewrite e_tfr_add_var, Htf|]. split.
      { intros nm. simpl. destruct (name_eqb nm (lf_name l)); [split; discriminate|apply KV]. }
      split; [exact KF|]. split; [exact KT|]. split; [|split; [|split]].
      * intros nm v ty H1 H2. simpl in H1, H2. destruct (name_eqb nm (lf_name l)).
        -- injection H1 as <-. injection H2 as <-. apply (TYPS_new_leaf s _ l sty _ Hty Hk Hid).
           split; [exact Hext|]. destruct V as (_ & _ & Hc & Hd & _). split; exists []; simpl; assumption.
        -- apply (TYPS_VR s _ _ _ V). eapply VT; eassumption.
      * intros nm fid ty H1 H2. unfold rec_fuel in H1. rewrite Hr in H1. apply (TYPS_VR s _ _ _ V). eapply FT; eassumption.
      * intros nm id ty H1 H2. apply (TYPS_VR s _ _ _ V). eapply TT; eassumption.
      * intros nm sym ty H1 H2. rewrite (find_local_tail_eq t s (with_var s l) nm Hm T3) in H1.
        apply (TYPS_VR s _ _ _ V). eapply TLt; eassumption.
    + intros nm d H. destruct (T1 nm d H) as [sym [A B]]. exists sym.
      rewrite (find_local_tail_eq t s (with_var s l) nm Hm T3). split; [exact A|now apply (define_loc_ext s _ _ _ V)].
    + intros nm H. rewrite (find_local_tail_eq t s (with_var s l) nm Hm T3). now apply T2.
  - apply (Pre2g_su f e); auto. eapply Pre2g_VR; eassumption.
  - now destruct V as (_ & _ & Hc & _).
Qed.

Lemma RB_Pre : forall f e s rid, RB f e s rid -> Pre2g f e s -> Pre f e s.
Proof.
  intros f e s rid R G. apply Pre2_Pre; [eapply RB_Pre2; eassumption|].
  rewrite (RB_current _ _ _ _ R). exact (RB_inh _ _ _ _ R).
Qed.

Lemma value_ResR : forall n v f e s rid,
    frag_value v = true -> RB f e s rid -> Pre2g f e s -> forallb resolved (spec_value f e v) = true ->
    s_bad (snd (index_value n v s)) = false ->
    ResR f s (snd (index_value n v s)) (spec_value f e v) e rid.
Proof.
  intros n v f e s rid Hf R G HR Hb. apply ResR_of_Step; auto. apply value_agrees; auto. eapply RB_Pre; eassumption.
Qed.

Lemma err_ResR : forall f e s rid r k, nf_kind k = false -> RB f e s rid -> Pre2g f e s ->
    ResR f s (snd (err r k s)) [] e rid.
Proof. intros. apply ResR_of_Step; auto. now apply Step_err. Qed.

Lemma BM_record_mut : forall id g, resp BadMono (record_mut id g).
Proof. intros. bm_prim. Qed.
Lemma BM_add_leaf : forall l, resp BadMono (add_leaf l).
Proof. intros. bm_prim. Qed.

(** the state reached by `FieldDef::index`, as a function of the states of its parts *)
Definition after_decl (s1 : st) (rid : N) (lf : leaf) : st :=
  snd (record_mut rid (rec_add_field (lf_name lf) (lenN (s_leaves s1))) (snd (add_leaf lf s1))).

Definition field_state (n : nat) (t : ty) (i : ident) (v : option value) (rid : N) (s : st) : st :=
  let loc := mkR (current_file s) (r_lo (i_rng i)) (r_hi (i_rng i)) in
  match index_ty t s with
  | (None, s1) => s1
  | (Some typ, s1) =>
    let s3 := after_decl s1 rid (mkLeaf LField (i_name i) typ false loc) in
    match v with
    | None => s3
    | Some v' =>
      match index_value n v' s3 with
      | (None, s4) => s4
      | (Some vt, s4) => if can_cast s4 vt typ then s4 else snd (err (value_rng v') DFieldIncompat s4)
      end
    end
  end.
Lemma field_state_eq : forall n t i v rid s, current_record_id s = Some rid ->
    snd (index_item n (IField t i v) s) = field_state n t i v rid s.
Proof.
  intros n t i v rid s Hc. unfold field_state, after_decl. simpl.
  unfold bind at 1. unfold state, get. simpl. rewrite Hc.
  unfold bind at 1. unfold here, get. simpl. unfold bind at 1.
  destruct (index_ty t s) as [[typ|] s1]; simpl; [|reflexivity].
  unfold bind at 1. simpl. unfold seq at 1. unfold bind at 1. unfold lift at 1.
  destruct v as [v'|]; simpl; [|reflexivity].
  unfold bind at 1. destruct (index_value n v' _) as [[vt|] s4]; simpl; [|reflexivity].
  unfold bind, state, get. simpl. destruct (can_cast s4 vt typ); reflexivity.
Qed.

Arguments find_field : simpl never.
Arguments rec_fuel : simpl never.

(** ... and by `FieldLet::index` *)
Definition let_state (n : nat) (i : ident) (v : value) (rid : N) (s : st) : st :=
  let loc := mkR (current_file s) (r_lo (i_rng i)) (r_hi (i_rng i)) in
  match find_field (rec_fuel s) (s_recs s) rid (i_name i) with
  | None => s
  | Some fid =>
    match nthN (s_leaves s) fid with
    | None => s
    | Some fl =>
      let s3 := after_decl s rid (mkLeaf LField (i_name i) (lf_ty fl) false loc) in
      let s4 := snd (add_reference (SyLeaf fid) loc s3) in
      match index_value n v s4 with
      | (None, s5) => s5
      | (Some vt, s5) => if can_cast s5 vt (lf_ty fl) then s5 else snd (err (value_rng v) DFieldIncompat s5)
      end
    end
  end.
Lemma let_state_eq : forall n i v rid s, current_record_id s = Some rid ->
    snd (index_item n (ILet i v) s) = let_state n i v rid s.
Proof.
  intros n i v rid s Hc. unfold let_state, after_decl. simpl.
  unfold bind at 1. unfold here, get. simpl. unfold bind at 1. unfold state, get. simpl. rewrite Hc.
  unfold bind at 1. unfold lift at 1.
  destruct (find_field (rec_fuel s) (s_recs s) rid (i_name i)) as [fid|]; simpl; [|reflexivity].
  unfold bind at 1. unfold leaf_of, bind, state, get, lift. simpl.
  destruct (nthN (s_leaves s) fid) as [fl|]; simpl; [|reflexivity].
  unfold seq. simpl.
  destruct (index_value n v _) as [[vt|] s5]; simpl; [|reflexivity].
  destruct (can_cast s5 vt (lf_ty fl)); reflexivity.
Qed.

Lemma item_sim : forall n it f e s rid,
    frag_item it = true -> RB f e s rid -> Pre2g f e s ->
    forallb resolved (fst (spec_item f e it)) = true ->
    s_bad (snd (index_item n it s)) = false ->
    ResR f s (snd (index_item n it s)) (fst (spec_item f e it)) (snd (spec_item f e it)) rid.
Proof.
  intros n it f e s rid Hf R G HR Hb. destruct it as [t i v|i v|i v|c m|v].
  - (* field *)
    rewrite (field_state_eq n t i v rid s (RB_current _ _ _ _ R)) in *.
    change (spec_item f e (IField t i v)) with
      (spec_ty f e t ++ match v with
                        | Some v' => spec_value f (tset_field (add_field e (i_name i) (at_file f (i_rng i))) (i_name i) (sty_of_ty e t)) v'
                        | None => []
                        end,
       tset_field (add_field e (i_name i) (at_file f (i_rng i))) (i_name i) (sty_of_ty e t)) in *.
    simpl in HR |- *. set (e1 := tset_field (add_field e (i_name i) (at_file f (i_rng i))) (i_name i) (sty_of_ty e t)) in *.
    rewrite forallb_app in HR. apply andb_true_iff in HR. destruct HR as [HRt HRv].
    unfold field_state in *.
    set (loc := mkR (current_file s) (r_lo (i_rng i)) (r_hi (i_rng i))) in *.
    assert (Hloc : loc = at_file f (i_rng i)) by (unfold loc, at_file; now rewrite (g_file f e s G)).
    pose proof (RB_Pre _ _ _ _ R G) as P.
    pose proof (ty_sim t f e s P HRt) as St. pose proof (ty_sim_some t f e s P HRt) as Hts.
    destruct (index_ty t s) as [[typ|] s1] eqn:Et; [|simpl in Hts; congruence]. simpl in St.
    pose proof (ResR_of_Step f e s s1 _ rid St R G) as R1. pose proof R1 as [_ _ Rb1 G1 _].
    set (lf := mkLeaf LField (i_name i) typ false loc) in *.
    assert (Hty : TYPm s1 typ (sty_of_ty e t)).
    { pose proof (ty_typed t f e s typ P) as X. rewrite Et in X. apply X. reflexivity. }
    pose proof (RB_add_field f e s1 rid lf (sty_of_ty e t) Rb1 G1 Hty) as R2.
    assert (Ee : tset_field (add_field e (lf_name lf) (lf_loc lf)) (lf_name lf) (sty_of_ty e t) = e1)
      by (unfold e1, lf; simpl; now rewrite Hloc).
    rewrite Ee in R2. specialize (R2 ltac:(discriminate)). change (ResR f s1 (after_decl s1 rid lf) [] e1 rid) in R2.
    set (s3 := after_decl s1 rid lf) in *. pose proof R2 as [_ _ Rb3 G3 _].
    destruct v as [v|]; simpl in Hf, HRv |- *.
    + destruct (index_value n v s3) as [[vt|] s4] eqn:Ev.
      * assert (Hb4 : s_bad s4 = false) by (destruct (can_cast s4 vt typ); simpl in Hb; exact Hb).
        assert (R4 : ResR f s3 s4 (spec_value f e1 v) e1 rid).
        { replace s4 with (snd (index_value n v s3)) by now rewrite Ev.
          apply value_ResR; [exact Hf|exact Rb3|exact G3|exact HRv|now rewrite Ev]. }
        destruct (can_cast s4 vt typ).
        -- eapply ResR_trans; [exact R1|]. change (spec_value f e1 v) with ([] ++ spec_value f e1 v).
           eapply ResR_trans; [exact R2|exact R4].
        -- pose proof R4 as [_ _ Rb4 G4 _].
           pose proof (err_ResR f e1 s4 rid (value_rng v) DFieldIncompat eq_refl Rb4 G4) as R5.
           eapply ResR_trans; [exact R1|]. change (spec_value f e1 v) with ([] ++ spec_value f e1 v).
           eapply ResR_trans; [exact R2|]. rewrite <- (app_nil_r (spec_value f e1 v)).
           eapply ResR_trans; [exact R4|exact R5].
      * assert (R4 : ResR f s3 s4 (spec_value f e1 v) e1 rid).
        { replace s4 with (snd (index_value n v s3)) by now rewrite Ev.
          apply value_ResR; [exact Hf|exact Rb3|exact G3|exact HRv|now rewrite Ev]. }
        eapply ResR_trans; [exact R1|]. change (spec_value f e1 v) with ([] ++ spec_value f e1 v).
        eapply ResR_trans; [exact R2|exact R4].
    + rewrite app_nil_r. rewrite <- (app_nil_r (spec_ty f e t)). eapply ResR_trans; [exact R1|exact R2].
  - (* let *)
    rewrite (let_state_eq n i v rid s (RB_current _ _ _ _ R)) in *.
    set (lty := match lookup (i_name i) (top_tfields e) with Some t0 => t0 | None => TUnk end).
    change (spec_item f e (ILet i v)) with
      ((at_file f (i_rng i), lookup (i_name i) (top_fields e))
         :: spec_value f (tset_field (add_field e (i_name i) (at_file f (i_rng i))) (i_name i) lty) v,
       tset_field (add_field e (i_name i) (at_file f (i_rng i))) (i_name i) lty) in *.
    simpl in HR, Hf |- *. set (e1 := tset_field (add_field e (i_name i) (at_file f (i_rng i))) (i_name i) lty) in *.
    apply andb_true_iff in HR. destruct HR as [HR1 HRv]. unfold resolved in HR1; simpl in HR1.
    unfold let_state in *.
    set (loc := mkR (current_file s) (r_lo (i_rng i)) (r_hi (i_rng i))) in *.
    assert (Hloc : loc = at_file f (i_rng i)) by (unfold loc, at_file; now rewrite (g_file f e s G)).
    (* the field exists: the specification resolved it among the fields of the innermost frame *)
    destruct R as [vars t fr frs rc Hsc Hfe Hrec Hlast Av Af At HI HS HT T1 T2 T3] eqn:ER.
    assert (Htop : top_fields e = fr_fields fr) by (unfold top_fields; now rewrite Hfe).
    rewrite Htop in *.
    destruct (lookup (i_name i) (fr_fields fr)) as [d|] eqn:El; [|discriminate].
    pose proof (Af (i_name i)) as Afi.
    destruct (find_field (rec_fuel s) (s_recs s) rid (i_name i)) as [fid|] eqn:Hff; [|congruence].
    destruct Afi as [fl [Hfl Hd]].
    assert (Hty : TYPm s (lf_ty fl) lty).
    { unfold lty, top_tfields. pose proof HT as (tf & tfs & Htf & _ & _ & _ & _ & FT & _). rewrite Htf.
      destruct (lookup (i_name i) (tf_fields tf)) as [ty|] eqn:Ety; [|exact I].
      specialize (FT (i_name i) fid ty Hff Ety).
      apply TYPS_iff in FT. destruct FT as [->|(id & lf' & A & B & K & C)]; [exact I|]. injection A as <-. rewrite Hfl in B.
      injection B as <-. exact C. }
    rewrite Hfl in *.
    assert (Hdd : d = lf_loc fl) by congruence. subst d.
    set (lf := mkLeaf LField (i_name i) (lf_ty fl) false loc) in *.
    pose proof (RB_add_field f e s rid lf lty (mkRB f e s rid vars t fr frs rc Hsc Hfe Hrec Hlast Av Af At HI HS HT T1 T2 T3) G Hty) as R2.
    assert (Ee : tset_field (add_field e (lf_name lf) (lf_loc lf)) (lf_name lf) lty = e1) by (unfold e1, lf; simpl; now rewrite Hloc).
    rewrite Ee in R2. specialize (R2 ltac:(discriminate)). change (ResR f s (after_decl s rid lf) [] e1 rid) in R2.
    set (s3 := after_decl s rid lf) in *. pose proof R2 as [_ _ Rb3 G3 _].
    pose proof (Step_add_reference s3 (SyLeaf fid) loc) as Sr.
    set (s4 := snd (add_reference (SyLeaf fid) loc s3)) in *.
    assert (Hdl : define_loc s3 (SyLeaf fid) = Some (lf_loc fl)).
    { destruct (leaf_then_mut s lf rid (rec_add_field (lf_name lf) (lenN (s_leaves s))) rc Hrec) as (_ & _ & _ & Hl3 & _).
      simpl. fold (after_decl s rid lf) in Hl3. fold s3 in Hl3. rewrite Hl3, (nthN_app_some _ _ _ _ _ Hfl). reflexivity. }
    rewrite Hdl, Hloc in Sr.
    pose proof (ResR_of_Step f e1 s3 s4 _ rid Sr Rb3 G3) as R3. pose proof R3 as [_ _ Rb4 G4 _].
    destruct (index_value n v s4) as [[vt|] s5] eqn:Ev.
    + assert (Hb5 : s_bad s5 = false) by (destruct (can_cast s5 vt (lf_ty fl)); simpl in Hb; exact Hb).
      assert (R5 : ResR f s4 s5 (spec_value f e1 v) e1 rid).
      { replace s5 with (snd (index_value n v s4)) by now rewrite Ev.
        apply value_ResR; [exact Hf|exact Rb4|exact G4|exact HRv|now rewrite Ev]. }
      destruct (can_cast s5 vt (lf_ty fl)).
      * change ((at_file f (i_rng i), Some (lf_loc fl)) :: spec_value f e1 v)
          with ([] ++ ([(at_file f (i_rng i), Some (lf_loc fl))] ++ spec_value f e1 v)).
        eapply ResR_trans; [exact R2|]. eapply ResR_trans; [exact R3|exact R5].
      * pose proof R5 as [_ _ Rb5 G5 _].
        pose proof (err_ResR f e1 s5 rid (value_rng v) DFieldIncompat eq_refl Rb5 G5) as R6.
        change ((at_file f (i_rng i), Some (lf_loc fl)) :: spec_value f e1 v)
          with ([] ++ ([(at_file f (i_rng i), Some (lf_loc fl))] ++ spec_value f e1 v)).
        eapply ResR_trans; [exact R2|]. eapply ResR_trans; [exact R3|].
        rewrite <- (app_nil_r (spec_value f e1 v)). eapply ResR_trans; [exact R5|exact R6].
    + assert (R5 : ResR f s4 s5 (spec_value f e1 v) e1 rid).
      { replace s5 with (snd (index_value n v s4)) by now rewrite Ev.
        apply value_ResR; [exact Hf|exact Rb4|exact G4|exact HRv|now rewrite Ev]. }
      change ((at_file f (i_rng i), Some (lf_loc fl)) :: spec_value f e1 v)
        with ([] ++ ([(at_file f (i_rng i), Some (lf_loc fl))] ++ spec_value f e1 v)).
      eapply ResR_trans; [exact R2|]. eapply ResR_trans; [exact R3|exact R5].
  - (* defvar *)
    simpl in Hf, HR, Hb |- *. unfold index_defvar, bind, here, get, try_ in *. simpl in *.
    destruct (index_value n v s) as [o s1] eqn:E1. simpl in *.
    set (l := mkLeaf LVar (i_name i) match o with Some t => t | None => MUnknown end false
                     {| r_file := current_file s; r_lo := r_lo (i_rng i); r_hi := r_hi (i_rng i) |}) in *.
    assert (Hb1 : s_bad s1 = false) by (eapply (bad_false_before _ (scopes_add_variable l)); [bm_prim|exact Hb]).
    assert (R1 : ResR f s s1 (spec_value f e v) e rid).
    { replace s1 with (snd (index_value n v s)) by now rewrite E1. apply value_ResR; auto. now rewrite E1. }
    pose proof R1 as [_ _ Rb1 G1 _]. fold (with_var s1 l).
    assert (Hty : TYPm s1 (lf_ty l) (sty_value e v)).
    { pose proof (value_typed n v f e s (RB_Pre _ _ _ _ R G) HR) as X. rewrite E1 in X. apply X. exact Hb1. }
    pose proof (RB_with_var f e s1 rid l (sty_value e v) Rb1 G1 Hty ltac:(discriminate)) as R2. simpl in R2.
    assert (Hloc : {| r_file := current_file s; r_lo := r_lo (i_rng i); r_hi := r_hi (i_rng i) |} = at_file f (i_rng i))
      by (unfold at_file; now rewrite (g_file f e s G)).
    rewrite Hloc in R2. rewrite <- (app_nil_r (spec_value f e v)). eapply ResR_trans; eassumption.
  - (* assert *)
    simpl in Hf, HR, Hb |- *. apply andb_true_iff in Hf. destruct Hf as [Hfc Hfm].
    rewrite forallb_app in HR. apply andb_true_iff in HR. destruct HR as [HR1 HR2].
    unfold seq in *. simpl in *.
    assert (Hb1 : s_bad (snd (index_value n m s)) = false)
      by (eapply (bad_false_before _ (index_value n c)); [apply BM_index_value|exact Hb]).
    pose proof (value_ResR n m f e s rid Hfm R G HR1 Hb1) as R1. pose proof R1 as [_ _ Rb1 G1 _].
    eapply ResR_trans; [exact R1|]. apply value_ResR; auto.
  - (* dump *)
    simpl in Hf, HR, Hb |- *. unfold seq in *. simpl in *. apply value_ResR; auto.
Qed.

Lemma items_sim : forall n l f e s rid,
    forallb frag_item l = true -> RB f e s rid -> Pre2g f e s ->
    forallb resolved (fst (spec_items f e l)) = true ->
    s_bad (snd (iterM (index_item n) l s)) = false ->
    ResR f s (snd (iterM (index_item n) l s)) (fst (spec_items f e l)) (snd (spec_items f e l)) rid.
Proof.
  intros n l. induction l as [|it r IHl]; intros f e s rid Hf R G HR Hb.
  - simpl. split; auto.
  - simpl in Hf. apply andb_true_iff in Hf. destruct Hf as [Hf1 Hf2].
    simpl in HR, Hb |- *. unfold seq in *.
    destruct (spec_item f e it) as [ev1 e1] eqn:E1. destruct (spec_items f e1 r) as [ev2 e2] eqn:E2. simpl in *.
    rewrite forallb_app in HR. apply andb_true_iff in HR. destruct HR as [HR1 HR2].
    assert (BMi : forall x, resp BadMono (index_item n x)).
    { intros x. apply (r_index_item BadMono BM_refl BM_trans); bm_prim. }
    assert (Hb1 : s_bad (snd (index_item n it s)) = false).
    { eapply (bad_false_before _ (iterM (index_item n) r)); [|exact Hb].
      apply (resp_iterM BadMono BM_refl BM_trans). intros; apply BMi. }
    pose proof (item_sim n it f e s rid Hf1 R G) as R1. rewrite E1 in R1. simpl in R1. specialize (R1 HR1 Hb1).
    pose proof R1 as [_ _ Rb1 G1 _].
    pose proof (IHl f e1 _ rid Hf2 Rb1 G1) as R2. rewrite E2 in R2. simpl in R2. specialize (R2 HR2 Hb).
    eapply ResR_trans; eassumption.
Qed.

(** a template argument of a record *)
Definition targ_state (n : nat) (t : ty) (i : ident) (d : option value) (rid : N) (s : st) : st :=
  let loc := mkR (current_file s) (r_lo (i_rng i)) (r_hi (i_rng i)) in
  match index_ty t s with
  | (None, s1) => s1
  | (Some typ, s1) =>
    let lf := mkLeaf LTArg (i_name i) typ match d with Some _ => true | None => false end loc in
    let s3 := snd (record_mut rid (rec_add_targ (i_name i) (lenN (s_leaves s1))) (snd (add_leaf lf s1))) in
    match d with Some v => snd (index_value n v s3) | None => s3 end
  end.
Lemma targ_state_eq : forall n t i d rid s, current_record_id s = Some rid -> nthN (s_recs s) rid <> None ->
    snd (index_targ n (TArg t i d) s) = targ_state n t i d rid s.
Proof.
  intros n t i d rid s Hc Hv. unfold targ_state, index_targ.
  unfold bind at 1. unfold here at 1, get. cbn [fst snd].
  unfold bind at 1.
  pose proof (keeps_index_ty t s) as Hk.
  destruct (index_ty t s) as [[typ|] s1]; cbn [fst snd] in *; [|reflexivity].
  set (lf := mkLeaf LTArg (i_name i) typ match d with Some _ => true | None => false end
                    (mkR (current_file s) (r_lo (i_rng i)) (r_hi (i_rng i)))).
  unfold bind at 1.
  assert (Ea : add_leaf lf s1 = (Some (lenN (s_leaves s1)), snd (add_leaf lf s1))) by reflexivity.
  rewrite Ea. cbn [fst snd].
  unfold bind at 1. unfold state at 1, get. cbn [fst snd].
  assert (Hc1 : current_record_id (snd (add_leaf lf s1)) = Some rid).
  { unfold current_record_id in *. rewrite (keeps_add_leaf lf s1), Hk. exact Hc. }
  rewrite Hc1. unfold seq. destruct d as [v|]; reflexivity.
Qed.

Lemma targ_sim : forall n a f e s rid,
    frag_targ a = true -> RB f e s rid -> Pre2g f e s ->
    forallb resolved (fst (spec_targ f e a)) = true ->
    s_bad (snd (index_targ n a s)) = false ->
    ResR f s (snd (index_targ n a s)) (fst (spec_targ f e a)) (snd (spec_targ f e a)) rid.
Proof.
  intros n [t i d] f e s rid Hf R G HR Hb.
  destruct (RB_valid _ _ _ _ R) as [rc Hrc].
  rewrite (targ_state_eq n t i d rid s (RB_current _ _ _ _ R)) in * by congruence.
  change (spec_targ f e (TArg t i d)) with
    (spec_ty f e t ++ match d with
                      | Some v => spec_value f (tset_targ (add_targ e (i_name i) (at_file f (i_rng i))) (i_name i) (sty_of_ty e t)) v
                      | None => []
                      end,
     tset_targ (add_targ e (i_name i) (at_file f (i_rng i))) (i_name i) (sty_of_ty e t)) in *.
  simpl in HR, Hf |- *. set (e1 := tset_targ (add_targ e (i_name i) (at_file f (i_rng i))) (i_name i) (sty_of_ty e t)) in *.
  rewrite forallb_app in HR. apply andb_true_iff in HR. destruct HR as [HRt HRv].
  unfold targ_state in *.
  set (loc := mkR (current_file s) (r_lo (i_rng i)) (r_hi (i_rng i))) in *.
  assert (Hloc : loc = at_file f (i_rng i)) by (unfold loc, at_file; now rewrite (g_file f e s G)).
  pose proof (RB_Pre _ _ _ _ R G) as P.
  pose proof (ty_sim t f e s P HRt) as St. pose proof (ty_sim_some t f e s P HRt) as Hts.
  destruct (index_ty t s) as [[typ|] s1] eqn:Et; [|simpl in Hts; congruence]. simpl in St.
  pose proof (ResR_of_Step f e s s1 _ rid St R G) as R1. pose proof R1 as [_ _ Rb1 G1 _].
  set (lf := mkLeaf LTArg (i_name i) typ match d with Some _ => true | None => false end loc) in *.
  assert (Hty : TYPm s1 typ (sty_of_ty e t)).
  { pose proof (ty_typed t f e s typ P) as X. rewrite Et in X. apply X. reflexivity. }
  pose proof (RB_add_targ f e s1 rid lf (sty_of_ty e t) Rb1 G1 Hty ltac:(discriminate)) as R2.
  assert (Ee : tset_targ (add_targ e (lf_name lf) (lf_loc lf)) (lf_name lf) (sty_of_ty e t) = e1)
    by (unfold e1, lf; simpl; now rewrite Hloc).
  rewrite Ee in R2. simpl in R2.
  set (s3 := snd (record_mut rid (rec_add_targ (i_name i) (lenN (s_leaves s1))) (snd (add_leaf lf s1)))) in *.
  pose proof R2 as [_ _ Rb3 G3 _].
  destruct d as [v|]; simpl in Hf, HRv |- *.
  - eapply ResR_trans; [exact R1|]. change (spec_value f e1 v) with ([] ++ spec_value f e1 v).
    eapply ResR_trans; [exact R2|]. apply value_ResR; assumption.
  - rewrite app_nil_r. rewrite <- (app_nil_r (spec_ty f e t)). eapply ResR_trans; [exact R1|exact R2].
Qed.

Lemma targs_sim : forall n l f e s rid,
    forallb frag_targ l = true -> RB f e s rid -> Pre2g f e s ->
    forallb resolved (fst (spec_targs f e l)) = true ->
    s_bad (snd (iterM (index_targ n) l s)) = false ->
    ResR f s (snd (iterM (index_targ n) l s)) (fst (spec_targs f e l)) (snd (spec_targs f e l)) rid.
Proof.
  intros n l. induction l as [|a r IHl]; intros f e s rid Hf R G HR Hb.
  - simpl. split; auto.
  - simpl in Hf. apply andb_true_iff in Hf. destruct Hf as [Hf1 Hf2].
    simpl in HR, Hb |- *. unfold seq in *.
    destruct (spec_targ f e a) as [ev1 e1] eqn:E1. destruct (spec_targs f e1 r) as [ev2 e2] eqn:E2. simpl in *.
    rewrite forallb_app in HR. apply andb_true_iff in HR. destruct HR as [HR1 HR2].
    assert (BMi : forall x, resp BadMono (index_targ n x)).
    { intros x. apply (r_index_targ BadMono BM_refl BM_trans); bm_prim. }
    assert (Hb1 : s_bad (snd (index_targ n a s)) = false).
    { eapply (bad_false_before _ (iterM (index_targ n) r)); [|exact Hb].
      apply (resp_iterM BadMono BM_refl BM_trans). intros; apply BMi. }
    pose proof (targ_sim n a f e s rid Hf1 R G) as R1. rewrite E1 in R1. simpl in R1. specialize (R1 HR1 Hb1).
    pose proof R1 as [_ _ Rb1 G1 _].
    pose proof (IHl f e1 _ rid Hf2 Rb1 G1) as R2. rewrite E2 in R2. simpl in R2. specialize (R2 HR2 Hb).
    eapply ResR_trans; eassumption.
Qed.

(** ---- starting a record: `add_record` then the pushed record scope *)
Lemma parents_nil_rec : forall n s rid, current_record_id s = Some rid -> snd (index_parents n [] s) = s.
Proof. intros n s rid H. unfold index_parents, bind, state, get; simpl. rewrite H. reflexivity. Qed.

Lemma add_record_facts : forall nm cls loc s,
    let s1 := snd (add_record nm cls loc s) in
    s_scopes s1 = s_scopes s /\ s_mcs s1 = s_mcs s /\ s_leaves s1 = s_leaves s /\ s_trace s1 = s_trace s /\
    s_recs s1 = s_recs s ++ [mkRec nm cls [] [] [] loc] /\ s_uses s1 = s_uses s /\ nf s1 = nf s /\
    s_nmc s1 = s_nmc s /\ s_ndset s1 = s_ndset s /\
    (if cls then s_nclass s1 = (nm, lenN (s_recs s)) :: s_nclass s /\ s_ndef s1 = s_ndef s
     else s_ndef s1 = (nm, lenN (s_recs s)) :: s_ndef s /\ s_nclass s1 = s_nclass s) /\
    s_bad s1 = s_bad s.
Proof.
  intros nm cls loc s s1. unfold s1, add_record; simpl. unfold add_pos, nf.
  destruct (rng_empty loc); destruct cls; simpl; repeat split; auto.
Qed.

Lemma define_loc_app_rec : forall s s1 r sym d,
    s_recs s1 = s_recs s ++ [r] -> s_mcs s1 = s_mcs s -> s_leaves s1 = s_leaves s ->
    define_loc s sym = Some d -> define_loc s1 sym = Some d.
Proof.
  intros s s1 r sym d Hr Hm Hl H. destruct sym; simpl in *.
  - rewrite Hr. destruct (nthN (s_recs s) i) eqn:E; [|discriminate]. now rewrite (nthN_app_some _ _ [r] _ _ E).
  - now rewrite Hm.
  - now rewrite Hl.
Qed.

Lemma Pre2g_add_record : forall f e s nm (cls : bool) loc flds ftys,
    Pre2g f e s ->
    Pre2g f (if cls then set_cls e nm (mkCi loc flds ftys) else set_def e nm loc) (snd (add_record nm cls loc s)).
Proof.
  intros f e s nm cls loc flds ftys [F D1 D2 S1 S2 C1 C2 M1 M2].
  destruct (add_record_facts nm cls loc s) as (Hsc & Hm & Hl & Ht & Hr & _ & _ & Hmc & Hds & Hn & _).
  set (s1 := snd (add_record nm cls loc s)) in *.
  assert (DL : forall sym d, define_loc s sym = Some d -> define_loc s1 sym = Some d)
    by (intros; eapply define_loc_app_rec; eassumption).
  assert (Hnew : define_loc s1 (SyRecord (lenN (s_recs s))) = Some loc).
  { simpl. rewrite Hr, nthN_app_last. reflexivity. }
  assert (HF : current_file s1 = f) by (unfold current_file in *; now rewrite Ht).
  destruct cls; destruct Hn as [Hn1 Hn2].
  - (* class *)
    split; [exact HF| | | | | | | |].
    + intros n0 d H. destruct (D1 n0 d H) as [id [A B]]. exists id. unfold find_def in *. rewrite Hn2. split; [exact A|exact (DL _ _ B)].
    + intros n0 H. unfold find_def in *. rewrite Hn2. now apply D2.
    + intros n0 d H. destruct (S1 n0 d H) as [id [A B]]. exists id. unfold find_defset in *. rewrite Hds. split; [exact A|exact (DL _ _ B)].
    + intros n0 H. unfold find_defset in *. rewrite Hds. now apply S2.
    + intros n0 d H. unfold lookup_class, set_cls in H. simpl in H.
      unfold class_view, find_class. rewrite Hn1. simpl.
      destruct (name_eqb n0 nm).
      * simpl in H. injection H as <-. exact Hnew.
      * specialize (C1 n0 d H). unfold class_view, find_class in C1.
        destruct (alookup n0 (s_nclass s)) as [id|]; [|discriminate]. apply (DL (SyRecord id) d C1).
    + intros n0 H. unfold lookup_class, set_cls in H. simpl in H. unfold find_class. rewrite Hn1. simpl.
      destruct (name_eqb n0 nm); [discriminate|]. now apply C2.
    + intros n0 d H. specialize (M1 n0 d H). unfold mc_view, find_multiclass in *. now rewrite Hmc, Hm.
    + intros n0 H. unfold find_multiclass in *. rewrite Hmc. now apply M2.
  - (* def *)
    split; [exact HF| | | | | | | |].
    + intros n0 d H. unfold set_def in H. simpl in H. unfold find_def. rewrite Hn1. simpl.
      destruct (name_eqb n0 nm).
      * injection H as <-. exists (lenN (s_recs s)). split; [reflexivity|exact Hnew].
      * destruct (D1 n0 d H) as [id [A B]]. exists id. split; [exact A|exact (DL _ _ B)].
    + intros n0 H. unfold set_def in H. simpl in H. unfold find_def. rewrite Hn1. simpl.
      destruct (name_eqb n0 nm); [discriminate|]. now apply D2.
    + intros n0 d H. destruct (S1 n0 d H) as [id [A B]]. exists id. unfold find_defset in *. rewrite Hds. split; [exact A|exact (DL _ _ B)].
    + intros n0 H. unfold find_defset in *. rewrite Hds. now apply S2.
    + intros n0 d H. specialize (C1 n0 d H). unfold class_view, find_class in *. rewrite Hn2.
      destruct (alookup n0 (s_nclass s)) as [id|]; [|discriminate]. apply (DL (SyRecord id) d C1).
    + intros n0 H. unfold find_class in *. rewrite Hn2. now apply C2.
    + intros n0 d H. specialize (M1 n0 d H). unfold mc_view, find_multiclass in *. now rewrite Hmc, Hm.
    + intros n0 H. unfold find_multiclass in *. rewrite Hmc. now apply M2.
Qed.

(** the record-body relation at the start of the body *)
Lemma RB_start : forall f e e0 s s1 rid nm cls loc,
    Pre2 f e s -> Stat s -> e_frames e0 = e_frames e -> e_tfr e0 = e_tfr e ->
    s_scopes s1 = s_scopes s -> s_mcs s1 = s_mcs s -> s_leaves s1 = s_leaves s ->
    s_recs s1 = s_recs s ++ [mkRec nm cls [] [] [] loc] -> rid = lenN (s_recs s) -> GRW s s1 ->
    Inh (Some rid) e0 s1 ->
    (forall n0 ci, lookup n0 (e_cls e0) = Some ci -> find_class s1 n0 = Some rid -> ci_fields ci = []) ->
    RB f (push_vars e0 []) (pushed (KRecord rid) s1) rid.
Proof.
  intros f e e0 s s1 rid nm cls loc [F L1 L2 _ _ _ _ _ _ _ _ TLx] [Hnr _ _] Hfe Htf Hsc Hm Hl Hr -> HG HI HS.
  assert (Hnew : nthN (s_recs (pushed (KRecord (lenN (s_recs s))) s1)) (lenN (s_recs s)) = Some (mkRec nm cls [] [] [] loc)).
  { unfold pushed; simpl. rewrite Hr. apply nthN_app_last. }
  assert (FLt : forall n0, find_local (set_scopes (s_scopes s1) (pushed (KRecord (lenN (s_recs s))) s1)) n0 = find_local s n0).
  { intros n0. unfold find_local; simpl. rewrite Hsc.
    assert (G : forall l, find_map sc_record_id l = None ->
                          find_map (fun c => scope_find (set_scopes (s_scopes s) (pushed (KRecord (lenN (s_recs s))) s1)) c n0) l
                          = find_map (fun c => scope_find s c n0) l).
    { induction l as [|c r IHl]; intros Hn; simpl; [reflexivity|]. simpl in Hn.
      destruct (sc_record_id c) eqn:Ec; [discriminate|].
      assert (E : scope_find (set_scopes (s_scopes s) (pushed (KRecord (lenN (s_recs s))) s1)) c n0 = scope_find s c n0).
      { unfold scope_find. destruct (sc_find_variable c n0); [reflexivity|].
        unfold sc_record_id in Ec. destruct (sc_kind c); try reflexivity; try discriminate. simpl. now rewrite Hm. }
      rewrite E. destruct (scope_find s c n0); [reflexivity|]. now apply IHl. }
    apply G. exact Hnr. }
  apply (mkRB f _ _ _ [] (s_scopes s1) (mkFrame [] [] []) (e_frames e0) (mkRec nm cls [] [] [] loc)); auto.
  - unfold pushed; simpl. rewrite Hr. unfold lenN. rewrite app_length. simpl. lia.
  - intros n0. reflexivity.
  - intros n0. unfold rec_fuel. rewrite find_field_S, Hnew. reflexivity.
  - intros n0. reflexivity.
  - exists (mkTF [] [] []), (e_tfr e0). split; [reflexivity|].
    split; [intros n0; split; reflexivity|]. split; [intros n0; split; reflexivity|]. split; [intros n0; split; reflexivity|].
    split; [intros n0 v ty H; discriminate|]. split; [|split].
    + intros n0 fid ty H. unfold rec_fuel in H. rewrite find_field_S, Hnew in H. discriminate.
    + intros n0 id ty H. discriminate.
    + intros n0 sym ty H1 H2. rewrite FLt in H1. rewrite Htf in H2.
      apply (TYPS_GRW s _ sym ty); [|exact (TLx n0 sym ty H1 H2)].
      destruct HG as (A & B & C). split; [exact A|]. split; assumption.
  - intros n0 d H. rewrite Hfe in H. destruct (L1 n0 d H) as [sym [A B]]. exists sym. split.
    + now rewrite FLt.
    + change (define_loc s1 sym = Some d). eapply define_loc_app_rec; eassumption.
  - intros n0 H. rewrite Hfe in H. rewrite FLt. now apply L2.
  - unfold current_record_id in *; simpl. now rewrite Hsc.
Qed.

Definition same_g5 (e e' : env) : Prop := same_globals e e' /\ e_dtbl e' = e_dtbl e.
Lemma same_g5_refl : forall e, same_g5 e e. Proof. intros; split; [apply same_globals_refl|reflexivity]. Qed.
Lemma same_g5_trans : forall a b c, same_g5 a b -> same_g5 b c -> same_g5 a c.
Proof. intros a b c [A1 A2] [B1 B2]. split; [eapply same_globals_trans; eassumption|congruence]. Qed.
Lemma same_g5_tset_targ : forall e n r ty, same_g5 e (tset_targ (add_targ e n r) n ty).
Proof. intros. unfold tset_targ, with_tfr, with_frames, add_targ. destruct (e_frames e); repeat split. Qed.
Lemma same_g5_tset_field : forall e n r ty, same_g5 e (tset_field (add_field e n r) n ty).
Proof. intros. unfold tset_field, with_tfr, with_frames, add_field. destruct (e_frames e); repeat split. Qed.
Lemma same_g5_tset_var : forall e n r ty, same_g5 e (tset_var (add_var e n r) n ty).
Proof. intros. unfold tset_var, with_tfr, with_frames, add_var. destruct (e_frames e); repeat split. Qed.

Lemma same_g5_spec_targs : forall f l e, same_g5 e (snd (spec_targs f e l)).
Proof.
  intros f l. induction l as [|[t i d] r IH]; intros e; simpl; [apply same_g5_refl|].
  destruct (spec_targs f (tset_targ (add_targ e (i_name i) (at_file f (i_rng i))) (i_name i) (sty_of_ty e t)) r) as [ev2 e2] eqn:E.
  simpl. eapply same_g5_trans; [apply same_g5_tset_targ|].
  specialize (IH (tset_targ (add_targ e (i_name i) (at_file f (i_rng i))) (i_name i) (sty_of_ty e t))).
  rewrite E in IH. exact IH.
Qed.
Lemma same_g5_spec_items : forall f l e, same_g5 e (snd (spec_items f e l)).
Proof.
  intros f l. induction l as [|it r IH]; intros e; simpl; [apply same_g5_refl|].
  destruct (spec_item f e it) as [ev1 e1] eqn:E1. destruct (spec_items f e1 r) as [ev2 e2] eqn:E2. simpl.
  assert (G1 : same_g5 e e1).
  { destruct it; simpl in E1; injection E1 as _ <-;
      first [apply same_g5_tset_field|apply same_g5_tset_var|apply same_g5_refl]. }
  eapply same_g5_trans; [exact G1|]. specialize (IH e1). rewrite E2 in IH. exact IH.
Qed.
Lemma same_globals_spec_targs : forall f l e, same_globals e (snd (spec_targs f e l)).
Proof. intros. apply same_g5_spec_targs. Qed.
Lemma same_globals_spec_items : forall f l e, same_globals e (snd (spec_items f e l)).
Proof. intros. apply same_g5_spec_items. Qed.

Lemma spec_class_nopar : forall f e i targs b,
    spec_stmt f e (SClass i targs [] b)
    = let loc := at_file f (i_rng i) in
      let e1 := push_vars (set_cls e (i_name i) (mkCi loc [] [])) [] in
      let '(ev1, e2) := match targs with Some l => spec_targs f e1 l | None => ([], e1) end in
      let '(ev3, e4) := spec_items f e2 b in
      (ev1 ++ ev3, set_cls e (i_name i) (mkCi loc (top_fields e4) (top_tfields e4))).
Proof.
  intros. simpl. destruct (match targs with Some l => spec_targs f _ l | None => _ end) as [ev1 e2].
  destruct (spec_items f e2 b) as [ev3 e4]. reflexivity.
Qed.

Lemma Pre2g_pushed : forall f e s k, Pre2g f e s -> Pre2g f (push_vars e []) (pushed k s).
Proof. intros f e s k [F D1 D2 S1 S2 C1 C2 M1 M2]. split; auto. Qed.

(** ---------------------------------------------------------------------------------------------
    parent classes of a record *)
Lemma clsref_eq : forall n i args r s cid rc,
    find_class s (i_name i) = Some cid ->
    let loc := mkR (current_file s) (r_lo (i_rng i)) (r_hi (i_rng i)) in
    let s1 := snd (add_reference (SyRecord cid) loc s) in
    nthN (s_recs s1) cid = Some rc ->
    resolve_class_ref_as_class n (CRef i args r) s
    = match mapM_opt (index_arg n) args s1 with
      | (Some avs, s2) => (Some cid, snd (emit (check_template_args s2 (targ_leaves s1 (rc_targs rc)) avs r) s2))
      | (None, s2) => (None, s2)
      end.
Proof.
  intros n i args r s cid rc Hf loc s1 Hrc. unfold resolve_class_ref_as_class.
  unfold bind at 1. unfold here at 1, get at 1. cbn [fst snd].
  unfold bind at 1. unfold state at 1, get at 1. cbn [fst snd]. rewrite Hf.
  unfold seq at 1. fold loc. fold s1.
  unfold bind at 1. unfold state at 1, get at 1. cbn [fst snd].
  unfold bind at 1. unfold lift at 1. rewrite Hrc.
  unfold bind at 1. unfold index_args.
  destruct (mapM_opt (index_arg n) args s1) as [[avs|] s2]; [|reflexivity].
  unfold bind at 1. unfold state at 1, get at 1. cbn [fst snd].
  unfold seq, ret. reflexivity.
Qed.

Lemma clsref_sim : forall n i args r f e s,
    frag_classref (CRef i args r) = true -> Pre f e s ->
    forallb resolved (spec_classref f e (CRef i args r)) = true ->
    s_bad (snd (resolve_class_ref_as_class n (CRef i args r) s)) = false ->
    Step s (snd (resolve_class_ref_as_class n (CRef i args r) s)) (spec_classref f e (CRef i args r)) /\
    exists cid, fst (resolve_class_ref_as_class n (CRef i args r) s) = Some cid /\ find_class s (i_name i) = Some cid.
Proof.
  intros n i args r f e s Hf P HR Hb. simpl in Hf.
  change (spec_classref f e (CRef i args r)) with ((at_file f (i_rng i), lookup_class e (i_name i)) :: spec_args f e args) in *.
  simpl in HR. apply andb_true_iff in HR. destruct HR as [HR1 HR2]. unfold resolved in HR1; simpl in HR1.
  destruct (lookup_class e (i_name i)) as [d|] eqn:El; [|discriminate].
  pose proof (pre_cls_some f e s P _ _ El) as Hc. unfold class_view in Hc.
  destruct (find_class s (i_name i)) as [cid|] eqn:Ef; [|discriminate].
  set (loc := mkR (current_file s) (r_lo (i_rng i)) (r_hi (i_rng i))) in *.
  pose proof (Step_add_reference s (SyRecord cid) loc) as S1.
  set (s1 := snd (add_reference (SyRecord cid) loc s)) in *.
  assert (E1 : define_loc s (SyRecord cid) = Some d) by exact Hc.
  assert (Hrc : exists rc, nthN (s_recs s1) cid = Some rc).
  { destruct S1 as [_ (Hr & _) _ _]. rewrite Hr. simpl in E1. destruct (nthN (s_recs s) cid) as [rc|]; [eauto|discriminate]. }
  destruct Hrc as [rc Hrc].
  rewrite (clsref_eq n i args r s cid rc Ef Hrc) in *. fold loc in Hb |- *. fold s1 in Hb |- *.
  assert (P1 : Pre f e s1) by (eapply Pre_Step; eassumption).
  assert (S2 : s_bad (snd (mapM_opt (index_arg n) args s1)) = false ->
               Step s1 (snd (mapM_opt (index_arg n) args s1)) (flat_map (spec_arg f e) args)).
  { intros Hb2. destruct (mapM_opt_state _ _ (index_arg n) args s1) as [E _]. rewrite E in *.
    apply (iter_sim _ _ (index_arg n) (spec_arg f e) f e); auto.
    - intros; apply BM_index_arg.
    - intros x s0 Hin P0 HR0 Hb0. apply arg_agrees; auto. eapply forallb_In; eassumption. }
  destruct (mapM_opt (index_arg n) args s1) as [[avs|] s2] eqn:Em; simpl in *.
  2:{ destruct (mapM_opt_state _ _ (index_arg n) args s1) as [_ Hsome]. rewrite Em in Hsome. simpl in Hsome. congruence. }
  assert (Hb2 : s_bad s2 = false).
  { eapply (bad_false_before _ (emit (check_template_args s2 (targ_leaves s1 (rc_targs rc)) avs r))); [|exact Hb].
    unfold emit. apply (resp_iterM BadMono BM_refl BM_trans). intros; apply BM_err. }
  split; [|exists cid; split; reflexivity].
  eapply Step_eq.
  - eapply Step_trans; [exact S1|]. eapply Step_trans; [apply S2; exact Hb2|].
    apply Step_emit. intros d0 Hd0. eapply cta_kinds. exact Hd0.
  - simpl. rewrite E1, app_nil_r. unfold at_file, loc. now rewrite (pre_file f e s P).
Qed.

Lemma record_mut_facts : forall s rid g rc,
    nthN (s_recs s) rid = Some rc ->
    rec_update s (snd (record_mut rid g s)) rid g /\ s_uses (snd (record_mut rid g s)) = s_uses s /\
    nf (snd (record_mut rid g s)) = nf s /\ s_bad (snd (record_mut rid g s)) = s_bad s.
Proof.
  intros s rid g rc H. unfold record_mut. rewrite H. simpl. repeat split; auto. exists []. now rewrite app_nil_r.
Qed.
Lemma add_inherited_frames : forall e fr frs l lt, e_frames e = fr :: frs ->
    e_frames (add_inherited e l lt) = mkFrame (fr_vars fr) (fr_fields fr ++ l) (fr_targs fr) :: frs.
Proof. intros e fr frs l lt H. unfold add_inherited. rewrite H. reflexivity. Qed.
Lemma same_globals_add_inherited : forall e l lt, same_globals e (add_inherited e l lt).
Proof. intros. unfold add_inherited. destruct (e_frames e); repeat split. Qed.

Lemma same_g5_add_inherited : forall e l lt, same_g5 e (add_inherited e l lt).
Proof. intros. unfold add_inherited. destruct (e_frames e); repeat split. Qed.
Lemma e_tfr_add_inherited : forall e fr frs tf tfs l lt, e_frames e = fr :: frs -> e_tfr e = tf :: tfs ->
    e_tfr (add_inherited e l lt) = mkTF (tf_vars tf) (tf_fields tf ++ align l lt) (tf_targs tf) :: tfs.
Proof. intros e fr frs tf tfs l lt H1 H2. unfold add_inherited. rewrite H1. simpl. rewrite H2. reflexivity. Qed.

(** one more parent class: its fields come behind what the record has *)
Lemma RB_add_parent : forall f e s rid cid lc lt,
    RB f e s rid -> Pre2g f e s -> cid < rid -> FLD s cid lc -> FLDT s cid lt ->
    ResR f s (snd (record_mut rid (rec_add_parent cid) s)) [] (add_inherited e lc lt) rid.
Proof.
  intros f e s rid cid lc lt R G Hlt Hc Hct.
  destruct (RB_valid _ _ _ _ R) as [rc Hrc].
  destruct (record_mut_facts s rid (rec_add_parent cid) rc Hrc) as (U & Hu & Hn & _).
  set (s2 := snd (record_mut rid (rec_add_parent cid) s)) in *.
  pose proof (RB_inh _ _ _ _ R) as [HREC _].
  pose proof U as (_ & _ & _ & Hcl & _ & _ & _ & Hext & Hr3).
  destruct (same_g5_add_inherited e lc lt) as [(A1 & A2 & A3 & A4) A5].
  split; auto.
  - eapply (RB_rec_update f e _ s s2 rid _ R U); try reflexivity; try assumption.
    + intros r p Hp. simpl in Hp. apply in_app_or in Hp. destruct Hp as [Hp|[<-|[]]]; [now left|now right].
    + intros vars t fr frs rc0 Hsc Hfe Hrec Af At (tf & tfs & Htf & KV & KF & KT & VT & FT & TT & TLt) T3.
      exists (mkFrame (fr_vars fr) (fr_fields fr ++ lc) (fr_targs fr)).
      split; [now apply add_inherited_frames|]. split; [reflexivity|]. split; [|split].
      * simpl. eapply (FLD_add_parent s s2 rid rc0 cid); eassumption.
      * simpl. now apply (AL_ext s s2).
      * exists (mkTF (tf_vars tf) (tf_fields tf ++ align lc lt) (tf_targs tf)), tfs.
        split; [now apply (e_tfr_add_inherited e fr frs)|].
        split; [exact KV|]. split.
        { intros nm. simpl. rewrite !lookup_app. destruct (KF nm) as [K1 K2].
          destruct (lookup nm (tf_fields tf)) as [x|] eqn:E1; destruct (lookup nm (fr_fields fr)) as [y|] eqn:E2.
          - split; discriminate.
          - specialize (K2 eq_refl). discriminate.
          - specialize (K1 eq_refl). discriminate.
          - apply lookup_align_none. }
        split; [exact KT|]. split; [|split; [|split]].
        -- intros nm v ty H1 H2. apply (TYPS_rec_update s s2 rid _ _ _ U). eapply VT; eassumption.
        -- intros nm fid ty H1 H2. simpl in H2. rewrite lookup_app in H2.
           rewrite (ff_add_par s s2 rid rc0 cid nm HREC Hrec Hlt Hr3) in H1.
           destruct (find_field (rec_fuel s) (s_recs s) rid nm) as [x|] eqn:Ex.
           ++ injection H1 as <-. pose proof (Af nm) as Afn. rewrite Ex in Afn. destruct Afn as (lf0 & _ & B).
              destruct (lookup nm (tf_fields tf)) as [ty0|] eqn:E1; [|apply (KF nm) in E1; congruence].
              injection H2 as <-. apply (TYPS_rec_update s s2 rid _ _ _ U). eapply FT; eassumption.
           ++ pose proof (Af nm) as Afn. rewrite Ex in Afn.
              assert (E1 : lookup nm (tf_fields tf) = None) by (now apply (KF nm)). rewrite E1 in H2.
              rewrite (lookup_align nm lc lt ty H2).
              destruct (lookup nm lt) as [t0|] eqn:Et0; [|exact I].
              apply (TYPS_rec_update s s2 rid _ _ _ U). eapply Hct; eassumption.
        -- intros nm id ty H1 H2. apply (TYPS_rec_update s s2 rid _ _ _ U). eapply TT; eassumption.
        -- intros nm sym ty H1 H2. pose proof U as (_ & Hm & _).
           rewrite (find_local_tail_eq t s s2 nm Hm T3) in H1.
           apply (TYPS_rec_update s s2 rid _ _ _ U). eapply TLt; eassumption.
  - apply (Pre2g_su f e); auto. eapply Pre2g_rec_update; [exact G|exact U|reflexivity].
Qed.

(** a reference to the record itself (reported, not attached): the class has no fields yet *)
Lemma RB_inherit_nil : forall f e s rid lt, RB f e s rid -> Pre2g f e s -> ResR f s s [] (add_inherited e [] lt) rid.
Proof.
  intros f e s rid lt R G.
  destruct R as [vars t fr frs rc Hsc Hfe Hrec Hlast Av Af At HI HS HT T1 T2 T3].
  destruct (same_g5_add_inherited e [] lt) as [(A & A2 & A3 & A4) A5].
  split; auto.
  - apply (mkRB f _ s rid vars t (mkFrame (fr_vars fr) (fr_fields fr ++ []) (fr_targs fr)) frs rc); auto.
    + now apply add_inherited_frames.
    + simpl. now rewrite app_nil_r.
    + eapply (Inh_eq _ e); [exact HI| | | | | | |]; auto. exists []. now rewrite app_nil_r.
    + intros n0 ci H1 H2. rewrite A in H1. eapply HS; eassumption.
    + destruct HT as (tf & tfs & Htf & KV & KF & KT & VT & FT & TT & TLt).
      exists (mkTF (tf_vars tf) (tf_fields tf ++ align [] lt) (tf_targs tf)), tfs.
      split; [now apply (e_tfr_add_inherited e fr frs)|]. simpl. rewrite !app_nil_r.
      repeat split; try assumption; try apply KV; try apply KF; try apply KT.
  - apply (Pre2g_su f e); auto.
Qed.

Definition parent_step (n : nat) (rid : N) (cr : classref) : M unit :=
  bind (try_ (resolve_class_ref_as_class n cr))
       (fun o => match o with
                 | Some cid => if cid =? rid then err (classref_rng cr) DSelfInherit
                               else record_mut rid (rec_add_parent cid)
                 | None => ret tt
                 end).

Lemma BM_parent_step : forall n rid cr, resp BadMono (parent_step n rid cr).
Proof.
  intros n rid cr. unfold parent_step. apply (resp_bind BadMono BM_trans).
  - apply (resp_try BadMono). apply (r_resolve_class BadMono BM_refl BM_trans); bm_prim.
  - intros [cid|]; [|apply (resp_ret BadMono BM_refl)]. destruct (cid =? rid); [apply BM_err|apply BM_record_mut].
Qed.

Lemma parent_sim : forall n c f e s rid,
    frag_classref c = true -> RB f e s rid -> Pre2g f e s ->
    forallb resolved (spec_classref f e c) = true ->
    s_bad (snd (parent_step n rid c s)) = false ->
    ResR f s (snd (parent_step n rid c s)) (spec_classref f e c) (add_inherited e (classref_fields e c) (classref_ftys e c)) rid.
Proof.
  intros n [i args r] f e s rid Hf R G HR Hb.
  pose proof (RB_Pre _ _ _ _ R G) as P.
  assert (Hl : exists ci, lookup (i_name i) (e_cls e) = Some ci).
  { simpl in HR. apply andb_true_iff in HR. destruct HR as [HR1 _]. unfold resolved, lookup_class in HR1; simpl in HR1.
    destruct (lookup (i_name i) (e_cls e)) as [ci|]; [eauto|discriminate]. }
  destruct Hl as [ci Hci].
  assert (Hcf : classref_fields e (CRef i args r) = ci_fields ci) by (simpl; now rewrite Hci).
  assert (Hct : classref_ftys e (CRef i args r) = ci_ftys ci) by (simpl; now rewrite Hci).
  rewrite Hcf, Hct.
  unfold parent_step, bind, try_ in *.
  destruct (resolve_class_ref_as_class n (CRef i args r) s) as [o s1] eqn:Er. cbn [fst snd] in *.
  assert (Hb1 : s_bad s1 = false).
  { destruct (s_bad s1) eqn:E; [|reflexivity].
    assert (X : resp BadMono (match o with
                              | Some cid => if cid =? rid then err (classref_rng (CRef i args r)) DSelfInherit
                                            else record_mut rid (rec_add_parent cid)
                              | None => ret tt
                              end)).
    { destruct o as [cid|]; [|apply (resp_ret BadMono BM_refl)]. destruct (cid =? rid); [apply BM_err|apply BM_record_mut]. }
    rewrite (X s1 E) in Hb. discriminate. }
  destruct (clsref_sim n i args r f e s Hf P HR) as (S1 & cid & Hfst & Hfc); [now rewrite Er|].
  rewrite Er in S1, Hfst. simpl in S1, Hfst. subst o.
  pose proof (ResR_of_Step f e s s1 _ rid S1 R G) as R1. pose proof R1 as [_ _ Rb1 G1 C1].
  destruct (N.eqb_spec cid rid) as [Heq|Hne].
  - (* the record itself *)
    subst cid.
    assert (Hnil : ci_fields ci = []) by (eapply (RB_self _ _ _ _ R); eassumption).
    rewrite Hnil.
    pose proof (err_ResR f e s1 rid r DSelfInherit eq_refl Rb1 G1) as R2. pose proof R2 as [_ _ Rb2 G2 _].
    pose proof (RB_inherit_nil f e _ rid (ci_ftys ci) Rb2 G2) as R3.
    rewrite <- (app_nil_r (spec_classref f e (CRef i args r))). eapply ResR_trans; [exact R1|].
    change (@nil ev) with (@nil ev ++ []). eapply ResR_trans; [exact R2|exact R3].
  - destruct (RB_inh _ _ _ _ Rb1) as (_ & HC & _). destruct (HC _ _ Hci) as (cid' & A & B & C).
    unfold find_class in A, Hfc. rewrite C1, Hfc in A. injection A as <-.
    assert (Hlt : cid < rid).
    { destruct (nthN (s_recs s1) cid) as [rc0|] eqn:E; [|congruence]. apply nthN_some_lt in E.
      pose proof (RB_last _ _ _ _ Rb1) as Hl. unfold lenN in Hl. lia. }
    pose proof (RB_add_parent f e s1 rid cid (ci_fields ci) (ci_ftys ci) Rb1 G1 Hlt) as R2.
    rewrite <- (app_nil_r (spec_classref f e (CRef i args r))). eapply ResR_trans; [exact R1|].
    assert (Hne' : Some rid <> Some cid) by congruence. destruct (C Hne') as [C1' C2']. now apply R2.
Qed.

Lemma parents_rec_sim : forall n ps f e s rid,
    forallb frag_classref ps = true -> RB f e s rid -> Pre2g f e s ->
    forallb resolved (fst (spec_parents f e ps)) = true ->
    s_bad (snd (iterM (parent_step n rid) ps s)) = false ->
    ResR f s (snd (iterM (parent_step n rid) ps s)) (fst (spec_parents f e ps)) (snd (spec_parents f e ps)) rid.
Proof.
  intros n ps. induction ps as [|c r IHl]; intros f e s rid Hf R G HR Hb.
  - simpl. split; auto.
  - simpl in Hf. apply andb_true_iff in Hf. destruct Hf as [Hf1 Hf2].
    simpl in HR, Hb |- *. unfold seq in *.
    destruct (spec_parents f (add_inherited e (classref_fields e c) (classref_ftys e c)) r) as [ev2 e2] eqn:E2. simpl in *.
    rewrite forallb_app in HR. apply andb_true_iff in HR. destruct HR as [HR1 HR2].
    assert (Hb1 : s_bad (snd (parent_step n rid c s)) = false).
    { eapply (bad_false_before _ (iterM (parent_step n rid) r)); [|exact Hb].
      apply (resp_iterM BadMono BM_refl BM_trans). intros; apply BM_parent_step. }
    pose proof (parent_sim n c f e s rid Hf1 R G HR1 Hb1) as R1. pose proof R1 as [_ _ Rb1 G1 _].
    pose proof (IHl f _ _ rid Hf2 Rb1 G1) as R2. rewrite E2 in R2. simpl in R2. specialize (R2 HR2 Hb).
    eapply ResR_trans; eassumption.
Qed.

Lemma index_parents_rec : forall n ps s rid, current_record_id s = Some rid ->
    index_parents n ps s = iterM (parent_step n rid) ps s.
Proof. intros n ps s rid H. unfold index_parents, bind, state, get; simpl. rewrite H. reflexivity. Qed.

(** ---- opening and closing a record *)
Lemma nthN_app_inv : forall A (l : list A) x id y,
    nthN (l ++ [x]) id = Some y -> nthN l id = Some y \/ (id = lenN l /\ y = x).
Proof.
  intros A l x id y H. unfold nthN, lenN in *.
  destruct (Nat.lt_ge_cases (N.to_nat id) (length l)) as [Hlt|Hge].
  - rewrite nth_error_app1 in H by exact Hlt. now left.
  - rewrite nth_error_app2 in H by exact Hge. right.
    destruct (N.to_nat id - length l)%nat as [|k] eqn:E; simpl in H.
    + injection H as <-. split; [lia|reflexivity].
    + destruct k; discriminate.
Qed.
Lemma nthN_app_lt : forall A (l ext : list A) id, id < lenN l -> nthN (l ++ ext) id = nthN l id.
Proof. intros A l ext id H. unfold nthN, lenN in *. apply nth_error_app1. lia. Qed.

Lemma REC_app : forall recs r, REC recs -> rc_parents r = [] -> REC (recs ++ [r]).
Proof.
  intros recs r HR Hp id rc H p0 Hp0. destruct (nthN_app_inv _ _ _ _ _ H) as [Ho|[_ ->]].
  - apply (HR id rc Ho p0 Hp0).
  - rewrite Hp in Hp0. destruct Hp0.
Qed.

Lemma FLD_app : forall s s1 r cid l,
    FLD s cid l -> REC (s_recs s) -> nthN (s_recs s) cid <> None ->
    s_recs s1 = s_recs s ++ [r] -> s_leaves s1 = s_leaves s -> FLD s1 cid l.
Proof.
  intros s s1 r cid l H HR Hv Hr Hl.
  assert (Hlt : cid < lenN (s_recs s)).
  { destruct (nthN (s_recs s) cid) eqn:E; [|congruence]. apply nthN_some_lt in E. unfold lenN. lia. }
  apply (FLD_mono s s1 cid l (lenN (s_recs s))); auto.
  - intros id Hid. rewrite Hr. now apply nthN_app_lt.
  - exists []. now rewrite Hl, app_nil_r.
Qed.

Lemma CR_app : forall o s s1 r tb id,
    CR o s tb id -> REC (s_recs s) -> s_recs s1 = s_recs s ++ [r] -> s_leaves s1 = s_leaves s -> CR o s1 tb id.
Proof.
  intros o s s1 r tb id (A & B & C) HR Hr Hl. split; [|split; [|exact C]].
  - rewrite Hr. destruct (nthN (s_recs s) id) as [x|] eqn:E; [|congruence]. now rewrite (nthN_app_some _ _ [r] _ _ E).
  - intros Ho. eapply FLD_app; eauto.
Qed.
Lemma CRT_app : forall o s s1 r ci id,
    CRT o s ci id -> REC (s_recs s) -> s_recs s1 = s_recs s ++ [r] -> s_leaves s1 = s_leaves s ->
    s_nclass s1 = s_nclass s -> s_ndef s1 = s_ndef s -> CRT o s1 ci id.
Proof.
  intros o s s1 r ci id [A B] HR Hr Hl Hn Hnd. split; [eapply CR_app; eassumption|].
  intros Ho. specialize (B Ho). destruct A as (Av & _).
  assert (Hlt : id < lenN (s_recs s)).
  { destruct (nthN (s_recs s) id) eqn:E; [|congruence]. apply nthN_some_lt in E. unfold lenN. lia. }
  apply (FLDT_mono s s1 id (ci_ftys ci) (lenN (s_recs s))); auto.
  - intros j Hj. rewrite Hr. now apply nthN_app_lt.
  - apply GRW_same; auto. exists []. now rewrite Hl, app_nil_r.
Qed.
Lemma class_false_app : forall s s1 r did,
    nthN (s_recs s) did <> None -> (forall r0, nthN (s_recs s) did = Some r0 -> rc_class r0 = false) ->
    s_recs s1 = s_recs s ++ [r] -> forall r0, nthN (s_recs s1) did = Some r0 -> rc_class r0 = false.
Proof.
  intros s s1 r did Hv Hc Hr r0 H. rewrite Hr in H. destruct (nthN (s_recs s) did) as [x|] eqn:E; [|congruence].
  rewrite (nthN_app_some _ _ [r] _ _ E) in H. injection H as <-. now apply Hc.
Qed.
Lemma Forall2_and : forall A B (R1 R2 : A -> B -> Prop) l l',
    Forall2 R1 l l' -> Forall2 R2 l l' -> Forall2 (fun a b => R1 a b /\ R2 a b) l l'.
Proof.
  intros A B R1 R2 l l' F1. induction F1; intros F2; inversion F2; subst; constructor; auto.
Qed.

(** a new record (anonymous def, or what a def / class statement allocates before its name is entered) *)
Lemma Inh_app : forall o e e' s s1 r,
    Inh o e s -> e_cls e' = e_cls e -> e_dtbl e' = e_dtbl e -> e_defs e' = e_defs e ->
    s_recs s1 = s_recs s ++ [r] -> rc_parents r = [] ->
    s_leaves s1 = s_leaves s -> s_nclass s1 = s_nclass s -> s_ndef s1 = s_ndef s -> Inh o e' s1.
Proof.
  intros o e e' s s1 r (HR & HC & H2 & [D1 D2]) He Hdt Hde Hr Hp Hl Hn Hnd.
  split; [rewrite Hr; now apply REC_app|]. split; [|split; [|split]].
  - intros n0 ci H. rewrite He in H. destruct (HC n0 ci H) as (cid & A & B & C).
    exists cid. unfold find_class in *. rewrite Hn. split; [exact A|]. split.
    + rewrite Hr. destruct (nthN (s_recs s) cid) as [x|] eqn:E; [|congruence]. now rewrite (nthN_app_some _ _ [r] _ _ E).
    + intros Ho. destruct (C Ho) as [C1 C2]. split; [eapply FLD_app; eauto|].
      assert (Hlt : cid < lenN (s_recs s)).
      { destruct (nthN (s_recs s) cid) eqn:E; [|congruence]. apply nthN_some_lt in E. unfold lenN. lia. }
      apply (FLDT_mono s s1 cid (ci_ftys ci) (lenN (s_recs s))); auto.
      * intros id Hid. rewrite Hr. now apply nthN_app_lt.
      * apply GRW_same; auto. exists []. now rewrite Hl, app_nil_r.
  - unfold CF2 in *. rewrite He, Hn. eapply Forall2_imp; [|exact H2]. intros a b [X Y]. split; [exact X|]. eapply CRT_app; eassumption.
  - rewrite Hdt, Hnd. eapply Forall2_imp; [|exact D1]. intros a b (X & Y & Z). split; [exact X|]. split; [eapply CRT_app; eassumption|].
    destruct Y as ((Yv & _) & _). eapply class_false_app; eassumption.
  - now rewrite Hde, Hdt.
Qed.

Lemma Inh_app_cls : forall e s s1 r nm loc,
    Inh None e s -> s_recs s1 = s_recs s ++ [r] -> rc_parents r = [] -> s_leaves s1 = s_leaves s ->
    s_nclass s1 = (nm, lenN (s_recs s)) :: s_nclass s -> s_ndef s1 = s_ndef s ->
    Inh (Some (lenN (s_recs s))) (set_cls e nm (mkCi loc [] [])) s1.
Proof.
  intros e s s1 r nm loc HI Hr Hp Hl Hn Hnd.
  assert (HI2 : Inh (Some (lenN (s_recs s))) e (set_names (s_nclass s) (s_ndef s) (s_nmc s1) s1)).
  { eapply (Inh_app _ e e s _ r (Inh_fresh e s _ HI (N.le_refl _))); auto. }
  destruct HI2 as (HR & HC & H2 & [D1 D2]). simpl in HR.
  split; [exact HR|]. split; [|split; [|split]].
  - intros n0 ci H. unfold set_cls in H. simpl in H. unfold find_class. rewrite Hn. simpl.
    destruct (name_eqb n0 nm).
    + exists (lenN (s_recs s)). split; [reflexivity|]. split; [rewrite Hr, nthN_app_last; discriminate|].
      intros Ho. congruence.
    + destruct (HC n0 ci H) as (cid & A & B & C). exists cid. split; [exact A|]. split; [exact B|].
      intros Ho. destruct (C Ho) as [C1 C2]. split; [exact C1|].
      apply (FLDT_same_recs (set_names (s_nclass s) (s_ndef s) (s_nmc s1) s1) s1); [exact C2|reflexivity|].
      split; [exists []; simpl; now rewrite app_nil_r|].
      split; [exists [(nm, lenN (s_recs s))]; simpl; exact Hn|exists []; simpl; exact Hnd].
  - unfold CF2, set_cls. simpl. rewrite Hn. constructor.
    + split; [reflexivity|]. split; [|intros X; simpl in X; congruence].
      simpl. split; [rewrite Hr, nthN_app_last; discriminate|]. split; [intros X; congruence|reflexivity].
    + eapply Forall2_imp; [|exact H2]. intros a b [X [Y1 Y2]]. split; [exact X|]. split; [exact Y1|].
      intros Ho. apply (FLDT_same_recs (set_names (s_nclass s) (s_ndef s) (s_nmc s1) s1) s1); [exact (Y2 Ho)|reflexivity|].
      split; [exists []; simpl; now rewrite app_nil_r|].
      split; [exists [(nm, lenN (s_recs s))]; simpl; exact Hn|exists []; simpl; exact Hnd].
  - simpl. rewrite Hnd. eapply Forall2_imp; [|exact D1]. intros a b (X & [Y1 Y2] & Z). split; [exact X|]. split; [|exact Z].
    split; [exact Y1|].
    intros Ho. apply (FLDT_same_recs (set_names (s_nclass s) (s_ndef s) (s_nmc s1) s1) s1); [exact (Y2 Ho)|reflexivity|].
    split; [exists []; simpl; now rewrite app_nil_r|].
    split; [exists [(nm, lenN (s_recs s))]; simpl; exact Hn|exists []; simpl; exact Hnd].
  - exact D2.
Qed.
Lemma Inh_app_def : forall e s s1 r nm loc,
    Inh None e s -> s_recs s1 = s_recs s ++ [r] -> rc_parents r = [] -> rc_class r = false -> s_leaves s1 = s_leaves s ->
    s_nclass s1 = s_nclass s -> s_ndef s1 = (nm, lenN (s_recs s)) :: s_ndef s ->
    Inh (Some (lenN (s_recs s))) (set_def e nm loc) s1.
Proof.
  intros e s s1 r nm loc HI Hr Hp Hcl Hl Hn Hnd.
  assert (HI2 : Inh (Some (lenN (s_recs s))) e (set_names (s_nclass s) (s_ndef s) (s_nmc s1) s1)).
  { eapply (Inh_app _ e e s _ r (Inh_fresh e s _ HI (N.le_refl _))); auto. }
  destruct HI2 as (HR & HC & H2 & [D1 D2]). simpl in HR.
  split; [exact HR|]. split; [|split; [|split]].
  - intros n0 ci H. destruct (HC n0 ci H) as (cid & A & B & C). exists cid.
    unfold find_class in *. simpl in A. rewrite Hn. split; [exact A|]. split; [exact B|].
    intros Ho. destruct (C Ho) as [C1 C2]. split; [exact C1|].
    apply (FLDT_same_recs (set_names (s_nclass s) (s_ndef s) (s_nmc s1) s1) s1); [exact C2|reflexivity|].
    split; [exists []; simpl; now rewrite app_nil_r|].
    split; [exists []; simpl; exact Hn|exists [(nm, lenN (s_recs s))]; simpl; exact Hnd].
  - unfold CF2 in *. simpl in *. rewrite Hn. eapply Forall2_imp; [|exact H2].
    intros a b [X [Y1 Y2]]. split; [exact X|]. split; [exact Y1|].
    intros Ho. apply (FLDT_same_recs (set_names (s_nclass s) (s_ndef s) (s_nmc s1) s1) s1); [exact (Y2 Ho)|reflexivity|].
    split; [exists []; simpl; now rewrite app_nil_r|].
    split; [exists []; simpl; exact Hn|exists [(nm, lenN (s_recs s))]; simpl; exact Hnd].
  - unfold set_def. simpl. rewrite Hnd. constructor.
    + split; [reflexivity|]. simpl. split.
      * split; [|intros X; congruence].
        split; [rewrite Hr, nthN_app_last; discriminate|]. split; [intros X; congruence|reflexivity].
      * intros r0 H. rewrite Hr, nthN_app_last in H. injection H as <-. exact Hcl.
    + eapply Forall2_imp; [|exact D1]. intros a b (X & [Y1 Y2] & Z). split; [exact X|]. split; [|exact Z].
      split; [exact Y1|].
      intros Ho. apply (FLDT_same_recs (set_names (s_nclass s) (s_ndef s) (s_nmc s1) s1) s1); [exact (Y2 Ho)|reflexivity|].
      split; [exists []; simpl; now rewrite app_nil_r|].
      split; [exists []; simpl; exact Hn|exists [(nm, lenN (s_recs s))]; simpl; exact Hnd].
  - unfold set_def. simpl. now rewrite D2.
Qed.

Lemma Inh_valid_lt : forall o e s n0 ci cid,
    Inh o e s -> lookup n0 (e_cls e) = Some ci -> find_class s n0 = Some cid -> cid < lenN (s_recs s).
Proof.
  intros o e s n0 ci cid (_ & HC & _) H1 H2. destruct (HC n0 ci H1) as (cid' & A & B & _).
  assert (cid' = cid) by congruence. subst cid'.
  destruct (nthN (s_recs s) cid) eqn:E; [|congruence]. apply nthN_some_lt in E. unfold lenN. lia.
Qed.

(** closing: every entry other than the record that was open denotes an older record *)
Lemma CR_close : forall s s3 rid tb id, CR None s tb id -> lenN (s_recs s) <= rid -> CR (Some rid) s3 tb id -> CR None s3 tb id.
Proof.
  intros s s3 rid tb id (A & _) Hle (B & C & D).
  assert (Hne : id <> rid).
  { destruct (nthN (s_recs s) id) eqn:E; [|congruence]. apply nthN_some_lt in E. unfold lenN in Hle. lia. }
  split; [exact B|]. split; [intros _; apply C; congruence|discriminate].
Qed.

Lemma CRT_close : forall s s3 rid ci id, CRT None s ci id -> lenN (s_recs s) <= rid -> CRT (Some rid) s3 ci id -> CRT None s3 ci id.
Proof.
  intros s s3 rid ci id [A _] Hle [B C]. split; [eapply CR_close; eassumption|].
  intros _. apply C. destruct A as (Av & _).
  destruct (nthN (s_recs s) id) eqn:E; [|congruence]. apply nthN_some_lt in E. unfold lenN in Hle. intros X. injection X as X. lia.
Qed.
(** at the end of a class body the entry of the class gets the field table the body has built *)
Lemma Inh_close_class : forall f e e4 s s3 nm loc,
    Inh None e s -> RB f e4 s3 (lenN (s_recs s)) ->
    e_cls e4 = (nm, mkCi loc [] []) :: e_cls e -> e_dtbl e4 = e_dtbl e -> e_defs e4 = e_defs e ->
    s_nclass s3 = (nm, lenN (s_recs s)) :: s_nclass s -> s_ndef s3 = s_ndef s ->
    Inh None (set_cls e nm (mkCi loc (top_fields e4) (top_tfields e4))) s3.
Proof.
  intros f e e4 s s3 nm loc HI0 R He Hdt Hde Hn Hnd.
  destruct R as [vars t fr frs rc Hsc Hfe Hrec Hlast Av Af At HI HS HT T1 T2 T3].
  destruct HI as (HR & HC & H2 & [D1 D2]). destruct HI0 as (HR0 & HC0 & H20 & [D10 D20]).
  assert (Hfld : FLD s3 (lenN (s_recs s)) (top_fields e4)) by (unfold top_fields; rewrite Hfe; exact Af).
  assert (Hfldt : FLDT s3 (lenN (s_recs s)) (top_tfields e4)).
  { destruct HT as (tf & tfs & Htf & _ & _ & _ & _ & FT & _). unfold top_tfields. rewrite Htf. exact FT. }
  split; [exact HR|]. split; [|split; [|split]].
  - intros n0 ci H. unfold set_cls in H. simpl in H. unfold find_class. rewrite Hn. simpl.
    destruct (name_eqb n0 nm) eqn:Hne.
    + injection H as <-. exists (lenN (s_recs s)). split; [reflexivity|]. split; [congruence|]. intros _. split; [exact Hfld|exact Hfldt].
    + assert (H' : lookup n0 (e_cls e4) = Some ci) by (rewrite He; simpl; now rewrite Hne).
      destruct (HC n0 ci H') as (cid & A & B & C).
      unfold find_class in A. rewrite Hn in A. simpl in A. rewrite Hne in A.
      exists cid. split; [exact A|]. split; [exact B|]. intros _. apply C.
      destruct (HC0 n0 ci H) as (cid0 & A0 & B0 & _). unfold find_class in A0. assert (cid0 = cid) by congruence. subst cid0.
      destruct (nthN (s_recs s) cid) eqn:E; [|congruence]. apply nthN_some_lt in E. intros X. injection X as X. unfold lenN in X. lia.
  - unfold CF2 in *. rewrite He, Hn in H2. inversion H2 as [|a b l l' Hab Ft]; subst.
    unfold set_cls. simpl. rewrite Hn. constructor.
    + split; [reflexivity|]. split; [|intros _; exact Hfldt]. simpl. split; [congruence|]. split; [intros _; exact Hfld|discriminate].
    + eapply Forall2_imp; [|apply (Forall2_and _ _ _ _ _ _ H20 Ft)].
      intros a0 b0 [[X0 Y0] [X Y]]. split; [exact X|]. eapply CRT_close; [exact Y0|apply N.le_refl|exact Y].
  - simpl. rewrite Hdt, Hnd in D1. rewrite Hnd.
    eapply Forall2_imp; [|apply (Forall2_and _ _ _ _ _ _ D10 D1)].
    intros a0 b0 [(X0 & Y0 & Z0) (X & Y & Z)]. split; [exact X|]. split; [|exact Z].
    eapply CRT_close; [exact Y0|apply N.le_refl|exact Y].
  - simpl. exact D20.
Qed.
(** ... the same for a named def: its field table is entered; and nothing is entered for an anonymous def *)
Lemma Inh_close_def : forall f e e4 s s3 nm loc,
    Inh None e s -> RB f e4 s3 (lenN (s_recs s)) ->
    e_cls e4 = e_cls e -> e_dtbl e4 = (nm, mkCi loc [] []) :: e_dtbl e -> e_defs e4 = (nm, loc) :: e_defs e ->
    s_nclass s3 = s_nclass s -> s_ndef s3 = (nm, lenN (s_recs s)) :: s_ndef s ->
    Inh None (set_dtbl (set_def e nm loc) (top_fields e4) (top_tfields e4)) s3.
Proof.
  intros f e e4 s s3 nm loc HI0 R He Hdt Hde Hn Hnd.
  destruct R as [vars t fr frs rc Hsc Hfe Hrec Hlast Av Af At HI HS HT T1 T2 T3].
  destruct HI as (HR & HC & H2 & [D1 D2]). destruct HI0 as (HR0 & HC0 & H20 & [D10 D20]).
  assert (Hfld : FLD s3 (lenN (s_recs s)) (top_fields e4)) by (unfold top_fields; rewrite Hfe; exact Af).
  assert (Hfldt : FLDT s3 (lenN (s_recs s)) (top_tfields e4)).
  { destruct HT as (tf & tfs & Htf & _ & _ & _ & _ & FT & _). unfold top_tfields. rewrite Htf. exact FT. }
  split; [exact HR|]. split; [|split; [|split]].
  - intros n0 ci H. change (lookup n0 (e_cls e) = Some ci) in H. assert (H' := H). rewrite <- He in H'.
    destruct (HC n0 ci H') as (cid & A & B & C). exists cid. split; [exact A|]. split; [exact B|]. intros _. apply C.
    destruct (HC0 n0 ci H) as (cid0 & A0 & B0 & _). unfold find_class in A, A0. rewrite Hn in A. assert (cid0 = cid) by congruence. subst cid0.
    destruct (nthN (s_recs s) cid) eqn:E; [|congruence]. apply nthN_some_lt in E. intros X. injection X as X. unfold lenN in X. lia.
  - unfold CF2 in *. change (e_cls (set_dtbl (set_def e nm loc) (top_fields e4) (top_tfields e4))) with (e_cls e). rewrite He, Hn in H2. rewrite Hn.
    eapply Forall2_imp; [|apply (Forall2_and _ _ _ _ _ _ H20 H2)].
    intros a0 b0 [[X0 Y0] [X Y]]. split; [exact X|]. eapply CRT_close; [exact Y0|apply N.le_refl|exact Y].
  - rewrite Hdt, Hnd in D1. inversion D1 as [|a b l l' Hab Ft]; subst.
    unfold set_dtbl, set_def. simpl. rewrite Hnd. constructor.
    + destruct Hab as (X & [Y Y'] & Z). split; [reflexivity|]. simpl. split; [|exact Z].
      split; [|intros _; exact Hfldt].
      split; [destruct Y as (Yv & _); simpl in *; congruence|]. split; [intros _; exact Hfld|discriminate].
    + eapply Forall2_imp; [|apply (Forall2_and _ _ _ _ _ _ D10 Ft)].
      intros a0 b0 [(X0 & Y0 & Z0) (X & Y & Z)]. split; [exact X|]. split; [|exact Z].
      eapply CRT_close; [exact Y0|apply N.le_refl|exact Y].
  - unfold set_dtbl, set_def. simpl. now rewrite D20.
Qed.
Lemma Inh_close_anon : forall f e e4 s s3,
    Inh None e s -> RB f e4 s3 (lenN (s_recs s)) ->
    e_cls e4 = e_cls e -> e_dtbl e4 = e_dtbl e -> e_defs e4 = e_defs e ->
    s_nclass s3 = s_nclass s -> s_ndef s3 = s_ndef s -> Inh None e s3.
Proof.
  intros f e e4 s s3 HI0 R He Hdt Hde Hn Hnd.
  destruct R as [vars t fr frs rc Hsc Hfe Hrec Hlast Av Af At HI HS HT T1 T2 T3].
  destruct HI as (HR & HC & H2 & [D1 D2]). destruct HI0 as (HR0 & HC0 & H20 & [D10 D20]).
  split; [exact HR|]. split; [|split; [|split]].
  - intros n0 ci H. assert (H' := H). rewrite <- He in H'.
    destruct (HC n0 ci H') as (cid & A & B & C). exists cid. split; [exact A|]. split; [exact B|]. intros _. apply C.
    destruct (HC0 n0 ci H) as (cid0 & A0 & B0 & _). unfold find_class in A, A0. rewrite Hn in A. assert (cid0 = cid) by congruence. subst cid0.
    destruct (nthN (s_recs s) cid) eqn:E; [|congruence]. apply nthN_some_lt in E. intros X. injection X as X. unfold lenN in X. lia.
  - unfold CF2 in *. rewrite He, Hn in H2. rewrite Hn.
    eapply Forall2_imp; [|apply (Forall2_and _ _ _ _ _ _ H20 H2)].
    intros a0 b0 [[X0 Y0] [X Y]]. split; [exact X|]. eapply CRT_close; [exact Y0|apply N.le_refl|exact Y].
  - rewrite Hdt, Hnd in D1. rewrite Hnd.
    eapply Forall2_imp; [|apply (Forall2_and _ _ _ _ _ _ D10 D1)].
    intros a0 b0 [(X0 & Y0 & Z0) (X & Y & Z)]. split; [exact X|]. split; [|exact Z].
    eapply CRT_close; [exact Y0|apply N.le_refl|exact Y].
  - exact D20.
Qed.

Lemma self_start_cls : forall e s s1 nm loc,
    Inh None e s -> s_nclass s1 = (nm, lenN (s_recs s)) :: s_nclass s ->
    forall n0 ci, lookup n0 (e_cls (set_cls e nm (mkCi loc [] []))) = Some ci ->
                  find_class s1 n0 = Some (lenN (s_recs s)) -> ci_fields ci = [].
Proof.
  intros e s s1 nm loc HI Hn n0 ci H1 H2. unfold set_cls in H1. simpl in H1.
  unfold find_class in H2. rewrite Hn in H2. simpl in H2.
  destruct (name_eqb n0 nm); [injection H1 as <-; reflexivity|].
  pose proof (Inh_valid_lt _ _ _ _ _ _ HI H1 H2). lia.
Qed.
Lemma self_start_def : forall e e0 s s1,
    Inh None e s -> e_cls e0 = e_cls e -> s_nclass s1 = s_nclass s ->
    forall n0 ci, lookup n0 (e_cls e0) = Some ci -> find_class s1 n0 = Some (lenN (s_recs s)) -> ci_fields ci = [].
Proof.
  intros e e0 s s1 HI He Hn n0 ci H1 H2. rewrite He in H1. unfold find_class in H2. rewrite Hn in H2.
  pose proof (Inh_valid_lt _ _ _ _ _ _ HI H1 H2). lia.
Qed.

Lemma same_globals_spec_parents : forall f l e, same_globals e (snd (spec_parents f e l)).
Proof.
  intros f l. induction l as [|c r IH]; intros e; simpl; [apply same_globals_refl|].
  destruct (spec_parents f (add_inherited e (classref_fields e c) (classref_ftys e c)) r) as [ev2 e2] eqn:E. simpl.
  eapply same_globals_trans; [apply same_globals_add_inherited|].
  specialize (IH (add_inherited e (classref_fields e c) (classref_ftys e c))). rewrite E in IH. exact IH.
Qed.

Lemma same_g5_spec_parents : forall f l e, same_g5 e (snd (spec_parents f e l)).
Proof.
  intros f l. induction l as [|c r IH]; intros e; simpl; [apply same_g5_refl|].
  destruct (spec_parents f (add_inherited e (classref_fields e c) (classref_ftys e c)) r) as [ev2 e2] eqn:E. simpl.
  eapply same_g5_trans; [apply same_g5_add_inherited|].
  specialize (IH (add_inherited e (classref_fields e c) (classref_ftys e c))). rewrite E in IH. exact IH.
Qed.

Lemma spec_class_eq : forall f e i targs ps b,
    spec_stmt f e (SClass i targs ps b)
    = let loc := at_file f (i_rng i) in
      let e1 := push_vars (set_cls e (i_name i) (mkCi loc [] [])) [] in
      let '(ev1, e2) := match targs with Some l => spec_targs f e1 l | None => ([], e1) end in
      let '(ev2, e3) := spec_parents f e2 ps in
      let '(ev3, e4) := spec_items f e3 b in
      (ev1 ++ ev2 ++ ev3, set_cls e (i_name i) (mkCi loc (top_fields e4) (top_tfields e4))).
Proof. intros. reflexivity. Qed.

(** the body of a record declares no class and no def *)
Definition NK (s s' : st) : Prop := s_ndef s' = s_ndef s /\ s_nclass s' = s_nclass s.
Lemma NK_refl : forall s, NK s s. Proof. intros; split; reflexivity. Qed.
Lemma NK_trans : forall a b c, NK a b -> NK b c -> NK a c.
Proof. intros a b c [A1 A2] [B1 B2]. split; congruence. Qed.
Ltac nk_prim :=
  intros; let s := fresh "s" in intros s;
  unfold add_reference, scopes_add_variable, add_leaf, add_leaf_nopos, record_mut, multiclass_mut, bind, upd, bad, error,
    push_scope, pop_scope, add_pos; simpl;
  repeat match goal with |- context [match ?x with _ => _ end] => destruct x end; simpl; split; reflexivity.
Lemma NK_record_body : forall n ps b, resp NK (index_record_body n ps b).
Proof. intros. apply (r_record_body NK NK_refl NK_trans); nk_prim. Qed.
Lemma NK_targs : forall n (o : option (list targ)),
    resp NK (match o with Some l => iterM (index_targ n) l | None => ret tt end).
Proof. intros. apply (r_targs NK NK_refl NK_trans); nk_prim. Qed.

Section CasesB5.
  Variable files : list (list stmt).
  Variable n : nat.

  Lemma BM_class_body : forall rid (targs : option (list targ)) ps b,
      resp BadMono (scoped (KRecord rid)
                      (seq (match targs with Some l => iterM (index_targ n) l | None => ret tt end)
                           (index_record_body n ps b))).
  Proof.
    intros rid targs ps b. apply (r_scoped BadMono BM_refl BM_trans); [bm_prim|bm_prim|].
    apply (resp_seq BadMono BM_trans).
    - destruct targs as [l|]; [|apply (resp_ret BadMono BM_refl)].
      apply (resp_iterM BadMono BM_refl BM_trans). intros x _. apply (r_index_targ BadMono BM_refl BM_trans); bm_prim.
    - apply (r_record_body BadMono BM_refl BM_trans); bm_prim.
  Qed.

  Lemma BM_items : forall b, resp BadMono (iterM (index_item n) b).
  Proof.
    intros b. apply (resp_iterM BadMono BM_refl BM_trans). intros x _.
    apply (r_index_item BadMono BM_refl BM_trans); bm_prim.
  Qed.

  Lemma caseB_class : forall i targs ps b f e s,
      match targs with Some l => forallb frag_targ l | None => true end = true ->
      forallb frag_classref ps = true -> forallb frag_item b = true ->
      Pre2 f e s -> Stat s -> e_frames e <> [] -> Inh None e s ->
      forallb resolved (fst (spec_stmt f e (SClass i targs ps b))) = true ->
      s_bad (snd (index_stmt files (S n) (SClass i targs ps b) s)) = false ->
      ResB f s (snd (index_stmt files (S n) (SClass i targs ps b) s))
           (fst (spec_stmt f e (SClass i targs ps b))) (snd (spec_stmt f e (SClass i targs ps b))).
  Proof.
    intros i targs ps b f e s Hft Hfp Hfb P T He HI HR Hb.
    pose proof (finish_block_like files (S n) (SClass i targs ps b) f e) as FIN.
    set (final := snd (index_stmt files (S n) (SClass i targs ps b) s)) in *.
    rewrite spec_class_eq in *. cbv zeta in HR |- *.
    set (loc := at_file f (i_rng i)) in *.
    set (e0 := set_cls e (i_name i) (mkCi loc [] [])) in *.
    set (e1 := push_vars e0 []) in *.
    destruct (match targs with Some l => spec_targs f e1 l | None => ([], e1) end) as [ev1 e2] eqn:Et.
    destruct (spec_parents f e2 ps) as [ev2 e3] eqn:Ep.
    destruct (spec_items f e3 b) as [ev3 e4] eqn:Ei. simpl in HR |- *.
    rewrite forallb_app in HR. apply andb_true_iff in HR. destruct HR as [HR1 HR].
    rewrite forallb_app in HR. apply andb_true_iff in HR. destruct HR as [HR2 HR3].
    (* the model *)
    set (mloc := mkR (current_file s) (r_lo (i_rng i)) (r_hi (i_rng i))).
    assert (Hloc : mloc = loc) by (unfold mloc, loc, at_file; now rewrite (p2_file f e s P)).
    set (s1 := snd (add_record (i_name i) true mloc s)).
    set (rid := lenN (s_recs s)).
    set (body := seq (match targs with Some l => iterM (index_targ n) l | None => ret tt end) (index_record_body n ps b)).
    assert (Efin : final = snd (scoped (KRecord rid) body s1)).
    { unfold final. simpl. unfold bind at 1. unfold here, get. simpl. unfold bind at 1. reflexivity. }
    rewrite Efin in Hb |- *.
    destruct (add_record_facts (i_name i) true mloc s) as (Hsc & Hm & Hl & Ht & Hr & Hu & Hn & Hmc & Hds & [Hnc Hnd] & Hbd).
    fold s1 in Hsc, Hm, Hl, Ht, Hr, Hu, Hn, Hmc, Hds, Hnc, Hnd, Hbd.
    assert (Hb' := Hb). apply scoped_bad in Hb'.
    (* relation at the start of the body *)
    assert (HG1 : GRW s s1).
    { split; [exists []; now rewrite Hl, app_nil_r|]. split; [exists [(i_name i, lenN (s_recs s))]; exact Hnc|exists []; exact Hnd]. }
    assert (R0 : RB f e1 (pushed (KRecord rid) s1) rid).
    { apply (RB_start f e e0 s s1 rid (i_name i) true mloc); auto.
      - unfold e0, rid. eapply Inh_app_cls; eauto.
      - unfold e0, rid. eapply self_start_cls; eauto. }
    assert (G0 : Pre2g f e1 (pushed (KRecord rid) s1)).
    { apply Pre2g_pushed. unfold e0. rewrite <- Hloc.
      apply (Pre2g_add_record f e s (i_name i) true mloc [] []). now apply Pre2_g. }
    unfold body, seq in Hb'.
    (* template arguments *)
    set (st := snd ((match targs with Some l => iterM (index_targ n) l | None => ret tt end) (pushed (KRecord rid) s1))) in *.
    assert (Hbt : s_bad st = false).
    { eapply (bad_false_before _ (index_record_body n ps b)); [|exact Hb'].
      apply (r_record_body BadMono BM_refl BM_trans); bm_prim. }
    assert (R1 : ResR f (pushed (KRecord rid) s1) st ev1 e2 rid).
    { unfold st. destruct targs as [l|]; simpl in Et |- *.
      - pose proof (targs_sim n l f e1 (pushed (KRecord rid) s1) rid Hft R0 G0) as X.
        rewrite Et in X. simpl in X. apply X; auto.
      - injection Et as <- <-. split; auto. }
    pose proof R1 as [U1 N1 Rb1 G1 C1].
    (* parents *)
    unfold index_record_body, seq in Hb'. rewrite (index_parents_rec n ps st rid (RB_current _ _ _ _ Rb1)) in Hb'.
    set (sp := snd (iterM (parent_step n rid) ps st)) in *.
    assert (Hbp : s_bad sp = false) by (eapply (bad_false_before _ (iterM (index_item n) b)); [apply BM_items|exact Hb']).
    pose proof (parents_rec_sim n ps f e2 st rid Hfp Rb1 G1) as R2. rewrite Ep in R2. simpl in R2.
    specialize (R2 HR2 Hbp). fold sp in R2. pose proof R2 as [U2 N2 Rb2 G2 C2].
    (* items *)
    pose proof (items_sim n b f e3 sp rid Hfb Rb2 G2) as R3. rewrite Ei in R3. simpl in R3. specialize (R3 HR3 Hb').
    destruct R3 as [U3 N3 Rb3 G3 C3].
    set (s3 := snd (iterM (index_item n) b sp)) in *.
    assert (Ebody : snd (body (pushed (KRecord rid) s1)) = s3).
    { unfold body, seq, index_record_body, seq. fold st.
      rewrite (index_parents_rec n ps st rid (RB_current _ _ _ _ Rb1)). reflexivity. }
    destruct (grows_class_body n targs ps b (pushed (KRecord rid) s1)) as [vs Hvs]. fold body in Hvs.
    assert (GG5 : same_g5 e1 e4).
    { eapply same_g5_trans; [|pose proof (same_g5_spec_items f b e3) as X; rewrite Ei in X; exact X].
      eapply same_g5_trans; [|pose proof (same_g5_spec_parents f ps e2) as X; rewrite Ep in X; exact X].
      destruct targs as [l|]; simpl in Et; [pose proof (same_g5_spec_targs f l e1) as X; rewrite Et in X; exact X|].
      injection Et as _ <-. apply same_g5_refl. }
    destruct GG5 as [GG Gdt].
    assert (NKb : NK (pushed (KRecord rid) s1) s3).
    { rewrite <- Ebody. unfold body. apply (resp_seq NK NK_trans); [apply NK_targs|apply NK_record_body]. }
    rewrite <- Efin. unfold final.
    eapply (FIN e4 _ s s3 (ev1 ++ ev2 ++ ev3)); auto.
    - (* globals: the class table differs only in the field list of the class itself *)
      destruct GG as (A & B & C & D). repeat split; auto.
      intros nm. unfold lookup_class. rewrite A. unfold e1, e0, set_cls. simpl.
      destruct (name_eqb nm (i_name i)); reflexivity.
    - change (same_but_scopes final s3). rewrite Efin.
      rewrite (scoped_final _ (KRecord rid) body s1 vs Hvs). rewrite Ebody. apply sbs_set_scopes.
    - rewrite U3, U2, U1. simpl. rewrite Hu, !rev_app_distr, !app_assoc. reflexivity.
    - rewrite N3, N2, N1. unfold nf, pushed; simpl. fold (nf s1). exact Hn.
    - destruct GG as (A & _ & A3 & _). destruct NKb as [K1 K2].
      apply (Inh_close_class f e e4 s s3 (i_name i) loc HI Rb3).
      + rewrite A. reflexivity.
      + rewrite Gdt. reflexivity.
      + rewrite A3. reflexivity.
      + rewrite K2. exact Hnc.
      + rewrite K1. exact Hnd.
  Qed.
End CasesB5.

Lemma Pre2g_app_rec : forall f e s s1 r,
    Pre2g f e s -> s_recs s1 = s_recs s ++ [r] -> s_mcs s1 = s_mcs s -> s_leaves s1 = s_leaves s ->
    s_trace s1 = s_trace s -> s_nclass s1 = s_nclass s -> s_ndef s1 = s_ndef s -> s_nmc s1 = s_nmc s ->
    s_ndset s1 = s_ndset s -> Pre2g f e s1.
Proof.
  intros f e s s1 r [F D1 D2 S1 S2 C1 C2 M1 M2] Hr Hm Hl Ht Hc Hd Hmc Hds.
  assert (DL : forall sym d, define_loc s sym = Some d -> define_loc s1 sym = Some d)
    by (intros; eapply define_loc_app_rec; eassumption).
  split.
  - unfold current_file in *. now rewrite Ht.
  - intros n0 d H. destruct (D1 n0 d H) as [id [A B]]. exists id. unfold find_def in *. rewrite Hd.
    split; [exact A|exact (DL _ _ B)].
  - intros n0 H. unfold find_def in *. rewrite Hd. now apply D2.
  - intros n0 d H. destruct (S1 n0 d H) as [id [A B]]. exists id. unfold find_defset in *. rewrite Hds.
    split; [exact A|exact (DL _ _ B)].
  - intros n0 H. unfold find_defset in *. rewrite Hds. now apply S2.
  - intros n0 d H. specialize (C1 n0 d H). unfold class_view, find_class in *. rewrite Hc.
    destruct (alookup n0 (s_nclass s)) as [id|]; [|discriminate]. exact (DL (SyRecord id) d C1).
  - intros n0 H. unfold find_class in *. rewrite Hc. now apply C2.
  - intros n0 d H. specialize (M1 n0 d H). unfold mc_view, find_multiclass in *. now rewrite Hmc, Hm.
  - intros n0 H. unfold find_multiclass in *. rewrite Hmc. now apply M2.
Qed.

Lemma spec_def_eq : forall f e nm r ps b,
    spec_stmt f e (SDef nm r ps b)
    = let e0 := match name_ident nm with Some i => set_def e (i_name i) (at_file f (i_rng i)) | None => e end in
      let '(ev2, e3) := spec_parents f (push_vars e0 []) ps in
      let '(ev3, e4) := spec_items f e3 b in
      (ev2 ++ ev3, match name_ident nm with Some _ => set_dtbl e0 (top_fields e4) (top_tfields e4) | None => e0 end).
Proof. intros. reflexivity. Qed.

Section CasesB6.
  Variable files : list (list stmt).
  Variable n : nat.

  (** a record statement without template arguments, once the record has been allocated; [efin] is the environment
      after the statement as a function of the environment at the end of the body *)
  Lemma record_tail : forall x f e e0 (efin : env -> env) s s1 rid rnm (rcls : bool) rloc ps b,
      block_like x = true -> forallb frag_classref ps = true -> forallb frag_item b = true ->
      Pre2 f e s -> Stat s -> e_frames e <> [] -> Inh None e s ->
      e_frames e0 = e_frames e -> e_tfr e0 = e_tfr e ->
      s_scopes s1 = s_scopes s -> s_mcs s1 = s_mcs s -> s_leaves s1 = s_leaves s ->
      s_recs s1 = s_recs s ++ [mkRec rnm rcls [] [] [] rloc] -> rid = lenN (s_recs s) -> GRW s s1 ->
      s_uses s1 = s_uses s -> nf s1 = nf s ->
      Inh (Some rid) e0 s1 ->
      (forall n0 ci, lookup n0 (e_cls e0) = Some ci -> find_class s1 n0 = Some rid -> ci_fields ci = []) ->
      Pre2g f e0 s1 ->
      (forall e4, e_frames (efin e4) = e_frames e /\ e_tfr (efin e4) = e_tfr e) ->
      (forall e4, same_g5 (push_vars e0 []) e4 -> globals_equiv e4 (efin e4)) ->
      (forall e4 s3, RB f e4 s3 rid -> same_g5 (push_vars e0 []) e4 -> NK s1 s3 -> Inh None (efin e4) s3) ->
      snd (index_stmt files (S n) x s) = snd (scoped (KRecord rid) (index_record_body n ps b) s1) ->
      forallb resolved (fst (spec_parents f (push_vars e0 []) ps)) = true ->
      forallb resolved (fst (spec_items f (snd (spec_parents f (push_vars e0 []) ps)) b)) = true ->
      s_bad (snd (index_stmt files (S n) x s)) = false ->
      ResB f s (snd (index_stmt files (S n) x s))
           (fst (spec_parents f (push_vars e0 []) ps) ++ fst (spec_items f (snd (spec_parents f (push_vars e0 []) ps)) b))
           (efin (snd (spec_items f (snd (spec_parents f (push_vars e0 []) ps)) b))).
  Proof.
    intros x f e e0 efin s s1 rid rnm rcls rloc ps b Hx Hfp Hfb P T He HI Hfe Htf Hsc Hm Hl Hr Hrid HG Hu Hn HI1 HS1 G1
           Hefr Hegl Hclose Efin HR2 HR3 Hb.
    pose proof (finish_block_like files (S n) x f e) as FIN.
    set (final := snd (index_stmt files (S n) x s)) in *.
    rewrite Efin in Hb.
    assert (Hb' := Hb). apply scoped_bad in Hb'.
    assert (R0 : RB f (push_vars e0 []) (pushed (KRecord rid) s1) rid)
      by (apply (RB_start f e e0 s s1 rid rnm rcls rloc); auto).
    assert (G0 : Pre2g f (push_vars e0 []) (pushed (KRecord rid) s1)) by (now apply Pre2g_pushed).
    unfold index_record_body, seq in Hb'.
    rewrite (index_parents_rec n ps _ rid (RB_current _ _ _ _ R0)) in Hb'.
    set (sp := snd (iterM (parent_step n rid) ps (pushed (KRecord rid) s1))) in *.
    assert (Hbp : s_bad sp = false) by (eapply (bad_false_before _ (iterM (index_item n) b)); [apply BM_items|exact Hb']).
    destruct (spec_parents f (push_vars e0 []) ps) as [ev2 e3] eqn:Ep.
    pose proof (parents_rec_sim n ps f (push_vars e0 []) (pushed (KRecord rid) s1) rid Hfp R0 G0) as R2.
    rewrite Ep in R2. simpl in R2, HR2, HR3 |- *. specialize (R2 HR2 Hbp). fold sp in R2.
    pose proof R2 as [U2 N2 Rb2 G2 C2].
    destruct (spec_items f e3 b) as [ev3 e4] eqn:Ei.
    pose proof (items_sim n b f e3 sp rid Hfb Rb2 G2) as R3.
    rewrite Ei in R3. simpl in R3, HR3 |- *. specialize (R3 HR3 Hb'). destruct R3 as [U3 N3 Rb3 G3 C3].
    set (s3 := snd (iterM (index_item n) b sp)) in *.
    assert (Ebody : snd (index_record_body n ps b (pushed (KRecord rid) s1)) = s3).
    { unfold index_record_body, seq. rewrite (index_parents_rec n ps _ rid (RB_current _ _ _ _ R0)). reflexivity. }
    destruct (grows_record_body n ps b (pushed (KRecord rid) s1)) as [vs Hvs].
    assert (GG5 : same_g5 (push_vars e0 []) e4).
    { eapply same_g5_trans; [|pose proof (same_g5_spec_items f b e3) as X; rewrite Ei in X; exact X].
      pose proof (same_g5_spec_parents f ps (push_vars e0 [])) as X. rewrite Ep in X. exact X. }
    assert (NKb : NK (pushed (KRecord rid) s1) s3) by (rewrite <- Ebody; apply NK_record_body).
    destruct (Hefr e4) as [Hf1 Hf2].
    unfold final.
    eapply (FIN e4 (efin e4) s s3 (ev2 ++ ev3)); auto.
    - change (same_but_scopes final s3). rewrite Efin.
      rewrite (scoped_final _ (KRecord rid) _ s1 vs Hvs). rewrite Ebody. apply sbs_set_scopes.
    - rewrite U3, U2. simpl. rewrite Hu, rev_app_distr, app_assoc. reflexivity.
    - rewrite N3, N2. unfold nf, pushed; simpl. fold (nf s1). exact Hn.
  Qed.
End CasesB6.

Section CasesB7.
  Variable files : list (list stmt).
  Variable n : nat.

  Lemma caseB_def : forall nm r ps b f e s,
      frag_name nm = true -> forallb frag_classref ps = true -> forallb frag_item b = true ->
      Pre2 f e s -> Stat s -> e_frames e <> [] -> Inh None e s ->
      forallb resolved (fst (spec_stmt f e (SDef nm r ps b))) = true ->
      s_bad (snd (index_stmt files (S n) (SDef nm r ps b) s)) = false ->
      ResB f s (snd (index_stmt files (S n) (SDef nm r ps b) s))
           (fst (spec_stmt f e (SDef nm r ps b))) (snd (spec_stmt f e (SDef nm r ps b))).
  Proof.
    intros nm r ps b f e s Hfn Hfp Hfb P T He HI HR Hb.
    rewrite spec_def_eq in *. cbv zeta in HR |- *.
    destruct nm as [v|].
    - (* named *)
      unfold frag_name, is_ident_first in Hfn. rewrite first_ident_eq in Hfn.
      destruct v as [rv [|[[] sufs] rest]]; simpl in Hfn; try discriminate.
      simpl name_ident in *. cbv iota in HR |- *.
      set (e0 := set_def e (i_name i) (at_file f (i_rng i))) in *.
      set (mloc := mkR (current_file s) (r_lo (i_rng i)) (r_hi (i_rng i))).
      assert (Hloc : mloc = at_file f (i_rng i)) by (unfold mloc, at_file; now rewrite (p2_file f e s P)).
      destruct (add_record_facts (i_name i) false mloc s) as (Hsc & Hm & Hl & Ht & Hr & Hu & Hn & Hmc & Hds & [Hnd Hnc] & Hbd).
      set (s1 := snd (add_record (i_name i) false mloc s)) in *.
      assert (HG1 : GRW s s1).
      { split; [exists []; now rewrite Hl, app_nil_r|]. split; [exists []; exact Hnc|exists [(i_name i, lenN (s_recs s))]; exact Hnd]. }
      assert (HI1 : Inh (Some (lenN (s_recs s))) e0 s1) by (unfold e0; eapply Inh_app_def; eauto).
      pose proof (record_tail files n (SDef (Some (Val rv (Inner (SId i) sufs :: rest))) r ps b) f e e0
                              (fun e4 => set_dtbl e0 (top_fields e4) (top_tfields e4)) s s1 (lenN (s_recs s)) (i_name i) false mloc ps b
                              eq_refl Hfp Hfb P T He HI eq_refl eq_refl Hsc Hm Hl Hr eq_refl HG1 Hu Hn HI1) as X.
      destruct (spec_parents f (push_vars e0 []) ps) as [ev2 e3] eqn:Ep. cbn [fst snd] in X.
      destruct (spec_items f e3 b) as [ev3 e4] eqn:Ei. cbn [fst snd] in X. simpl in HR |- *.
      rewrite forallb_app in HR. apply andb_true_iff in HR. destruct HR as [HR2 HR3].
      apply X; [| | | | |reflexivity|exact HR2|exact HR3|exact Hb].
      + eapply (self_start_def e e0 s s1 HI); [reflexivity|exact Hnc].
      + unfold e0. rewrite <- Hloc. apply (Pre2g_add_record f e s (i_name i) false mloc [] []). now apply Pre2_g.
      + intros e5. split; reflexivity.
      + intros e5 [(A & B & C & D) _]. split; [|split; [|split]].
        * intros n0. unfold lookup_class. change (e_cls (set_dtbl e0 (top_fields e5) (top_tfields e5))) with (e_cls e0). now rewrite A.
        * change (e_mcs e0 = e_mcs e5). now rewrite B.
        * change (e_defs e0 = e_defs e5). now rewrite C.
        * change (e_dsets e0 = e_dsets e5). now rewrite D.
      + intros e5 s3 R5 [(A & B & C & D) G5] [K1 K2].
        apply (Inh_close_def f e e5 s s3 (i_name i) (at_file f (i_rng i)) HI R5); auto.
        * rewrite K2. exact Hnc.
        * rewrite K1. exact Hnd.
    - (* anonymous *)
      simpl name_ident in *. cbv iota in HR |- *.
      set (mloc := mkR (current_file s) (r_lo r) (r_hi r)).
      set (s0 := snd (next_anonymous s)).
      set (s1 := snd (add_anonymous_def [] mloc s0)).
      assert (HG1 : GRW s s1) by (split; [exists []; now rewrite app_nil_r|split; exists []; reflexivity]).
      assert (HI1 : Inh (Some (lenN (s_recs s))) e s1).
      { eapply (Inh_app _ e e s s1 (mkRec [] false [] [] [] mloc) (Inh_fresh e s _ HI (N.le_refl _))); reflexivity. }
      pose proof (record_tail files n (SDef None r ps b) f e e (fun _ => e) s s1 (lenN (s_recs s)) [] false mloc ps b
                              eq_refl Hfp Hfb P T He HI eq_refl eq_refl) as X.
      destruct (spec_parents f (push_vars e []) ps) as [ev2 e3] eqn:Ep. cbn [fst snd] in X.
      destruct (spec_items f e3 b) as [ev3 e4] eqn:Ei. cbn [fst snd] in X. simpl in HR |- *.
      rewrite forallb_app in HR. apply andb_true_iff in HR. destruct HR as [HR2 HR3].
      apply X; [reflexivity|reflexivity|reflexivity|reflexivity|reflexivity|exact HG1|reflexivity|reflexivity|exact HI1| | | | | |reflexivity|exact HR2|exact HR3|exact Hb].
      + eapply (self_start_def e e s s1 HI); reflexivity.
      + apply (Pre2g_app_rec f e s s1 (mkRec [] false [] [] [] mloc)); try reflexivity. now apply Pre2_g.
      + intros e5. split; reflexivity.
      + intros e5 [(A & B & C & D) _]. split; [|split; [|split]]; try (symmetry; assumption).
        intros n0. unfold lookup_class. now rewrite A.
      + intros e5 s3 R5 [(A & B & C & D) G5] [K1 K2].
        apply (Inh_close_anon f e e5 s s3 HI R5); auto.
  Qed.
End CasesB7.

(** ---- defset *)
Lemma add_defset_facts : forall l s,
    let s1 := snd (add_defset l s) in
    s_scopes s1 = s_scopes s /\ s_mcs s1 = s_mcs s /\ s_recs s1 = s_recs s /\ s_trace s1 = s_trace s /\
    s_leaves s1 = s_leaves s ++ [l] /\ s_uses s1 = s_uses s /\ nf s1 = nf s /\
    s_nclass s1 = s_nclass s /\ s_ndef s1 = s_ndef s /\ s_nmc s1 = s_nmc s /\
    s_ndset s1 = (lf_name l, lenN (s_leaves s)) :: s_ndset s.
Proof.
  intros l s s1. unfold s1, add_defset; simpl. unfold add_pos, nf. destruct (rng_empty (lf_loc l)); repeat split.
Qed.

Lemma Pre2_add_defset : forall f e s l,
    Pre2 f e s -> Pre2 f (set_dset e (lf_name l) (lf_loc l)) (snd (add_defset l s)).
Proof.
  intros f e s l [F L1 L2 D1 D2 S1 S2 C1 C2 M1 M2 TLx].
  destruct (add_defset_facts l s) as (Hsc & Hm & Hr & Ht & Hl & _ & _ & Hc & Hd & Hmc & Hds).
  set (s1 := snd (add_defset l s)) in *.
  assert (DL : forall sym d, define_loc s sym = Some d -> define_loc s1 sym = Some d).
  { intros sym d H. destruct sym; simpl in *; [now rewrite Hr|now rewrite Hm|].
    rewrite Hl. destruct (nthN (s_leaves s) i) eqn:E; [|discriminate]. now rewrite (nthN_app_some _ _ [l] _ _ E). }
  assert (FL : forall nm, find_local s1 nm = find_local s nm) by (intros; now apply find_local_eq).
  split.
  - unfold current_file in *. now rewrite Ht.
  - intros nm d H. destruct (L1 nm d H) as [sym [A B]]. exists sym. rewrite FL. split; [exact A|exact (DL _ _ B)].
  - intros nm H. rewrite FL. now apply L2.
  - intros nm d H. destruct (D1 nm d H) as [id [A B]]. exists id. unfold find_def in *. rewrite Hd.
    split; [exact A|exact (DL _ _ B)].
  - intros nm H. unfold find_def in *. rewrite Hd. now apply D2.
  - intros nm d H. unfold set_dset in H. simpl in H. unfold find_defset. rewrite Hds. simpl.
    destruct (name_eqb nm (lf_name l)).
    + injection H as <-. exists (lenN (s_leaves s)). split; [reflexivity|]. simpl. rewrite Hl, nthN_app_last. reflexivity.
    + destruct (S1 nm d H) as [id [A B]]. exists id. split; [exact A|exact (DL _ _ B)].
  - intros nm H. unfold set_dset in H. simpl in H. unfold find_defset. rewrite Hds. simpl.
    destruct (name_eqb nm (lf_name l)); [discriminate|]. now apply S2.
  - intros nm d H. specialize (C1 nm d H). unfold class_view, find_class in *. now rewrite Hc, Hr.
  - intros nm H. unfold find_class in *. rewrite Hc. now apply C2.
  - intros nm d H. specialize (M1 nm d H). unfold mc_view, find_multiclass in *. now rewrite Hmc, Hm.
  - intros nm H. unfold find_multiclass in *. rewrite Hmc. now apply M2.
  - intros nm sym ty H1 H2. rewrite FL in H1. apply (TYPS_GRW s s1); [|exact (TLx nm sym ty H1 H2)].
    split; [eexists; exact Hl|]. split; exists []; simpl; assumption.
Qed.

Lemma spec_defset : forall f e t i b,
    spec_stmt f e (SDefset t i b)
    = let e0 := set_dset e (i_name i) (at_file f (i_rng i)) in
      let '(ev1, e1) := spec_stmts f (push_vars e0 []) b in (spec_ty f e t ++ ev1, leave e0 e1).
Proof. intros. simpl. rewrite spec_local. reflexivity. Qed.

Section CasesB8.
  Variable files : list (list stmt).
  Variable n : nat.
  Hypothesis IH : sim_B files n.

  Lemma caseB_defset : forall t i b f e s,
      fragB_stmts b = true -> Pre2 f e s -> Stat s -> e_frames e <> [] -> Inh None e s ->
      forallb resolved (fst (spec_stmt f e (SDefset t i b))) = true ->
      s_bad (snd (index_stmt files (S n) (SDefset t i b) s)) = false ->
      ResB f s (snd (index_stmt files (S n) (SDefset t i b) s))
           (fst (spec_stmt f e (SDefset t i b))) (snd (spec_stmt f e (SDefset t i b))).
  Proof.
    intros t i b f e s Hfb P T He HI HR Hb.
    pose proof (finish_block_like files (S n) (SDefset t i b) f e) as FIN.
    set (final := snd (index_stmt files (S n) (SDefset t i b) s)) in *.
    rewrite spec_defset in *. cbv zeta in HR |- *.
    set (e0 := set_dset e (i_name i) (at_file f (i_rng i))) in *.
    destruct (spec_stmts f (push_vars e0 []) b) as [ev1 e1] eqn:Eb. simpl in HR |- *.
    rewrite forallb_app in HR. apply andb_true_iff in HR. destruct HR as [HRt HR1].
    set (mloc := mkR (current_file s) (r_lo (i_rng i)) (r_hi (i_rng i))).
    assert (Hloc : mloc = at_file f (i_rng i)) by (unfold mloc, at_file; now rewrite (p2_file f e s P)).
    pose proof (Pre2_Pre0 _ _ _ P (sta_norec _ T) HI) as P0.
    pose proof (ty_sim t f e s P0 HRt) as St. pose proof (ty_sim_some t f e s P0 HRt) as Hts.
    assert (Efin : final = match index_ty t s with
                           | (Some typ, s1) =>
                             let l := mkLeaf LDefset (i_name i) typ false mloc in
                             snd (scoped (KDefset (lenN (s_leaves s1))) (iterM (index_stmt files n) b) (snd (add_defset l s1)))
                           | (None, s1) => s1
                           end).
    { unfold final. simpl. unfold bind at 1. unfold here, get. simpl. unfold bind at 1.
      destruct (index_ty t s) as [[typ|] s1]; [|reflexivity]. simpl. unfold bind at 1. reflexivity. }
    destruct (index_ty t s) as [[typ|] s1] eqn:Et; [|simpl in Hts; congruence]. simpl in St.
    cbv zeta in Efin. set (l := mkLeaf LDefset (i_name i) typ false mloc) in *.
    set (k := KDefset (lenN (s_leaves s1))) in *. set (s2 := snd (add_defset l s1)) in *.
    rewrite Efin in Hb |- *.
    pose proof (ResB_of_Step f e s s1 _ St P T He HI) as [U0 N0 _ P1 T1 _ I1].
    destruct (add_defset_facts l s1) as (Hsc & Hm & Hr & Ht & Hl & Hu & Hn & Hc & Hd & Hmc & Hds). fold s2 in Hsc, Hm, Hu, Hn.
    assert (P2 : Pre2 f e0 s2).
    { pose proof (Pre2_add_defset f e s1 l P1) as X.
      assert (Ee : set_dset e (lf_name l) (lf_loc l) = e0) by (unfold e0, l; simpl; now rewrite Hloc).
      rewrite Ee in X. exact X. }
    assert (T2 : Stat s2) by (eapply Stat_same_scopes; eassumption).
    assert (I2 : Inh None e0 s2) by (eapply (Inh_eq None e e0 s1 s2 I1); [reflexivity|reflexivity|reflexivity|exact Hr|exact Hc|exact Hd|eexists; exact Hl]).
    assert (Hb3 := Hb). apply scoped_bad in Hb3.
    pose proof (stmtsB_sim files n IH b f (push_vars e0 []) (pushed k s2) Hfb
                           (Pre2_pushed f e0 s2 k P2 eq_refl) (Stat_pushed k s2 T2 eq_refl)) as R3.
    rewrite Eb in R3. simpl in R3. destruct R3 as [U3 N3 [vs Sc3] P4 T4 F4 I4]; auto; [discriminate|].
    rewrite <- Efin. unfold final.
    eapply (FIN e1 (leave e0 e1) s (snd (iterM (index_stmt files n) b (pushed k s2))) (spec_ty f e t ++ ev1)); auto.
    - apply same_globals_equiv, same_globals_leave.
    - now apply Pre2_g.
    - change (same_but_scopes final (snd (iterM (index_stmt files n) b (pushed k s2)))).
      rewrite Efin. erewrite (scoped_final _ _ _ s2 vs); [apply sbs_set_scopes|exact Sc3].
    - rewrite U3. simpl. rewrite Hu, U0, rev_app_distr, app_assoc. reflexivity.
    - rewrite N3. unfold nf, pushed; simpl. fold (nf s2). rewrite Hn, N0. reflexivity.
  Qed.
End CasesB8.

(** ---------------------------------------------------------------------------------------------
    multiclass: the template arguments live in the multiclass, the body statements in its scope *)
Definition MT (e : env) (s : st) (t : list scope) (mc : mcd) (fr : frame) : Prop :=
  exists tf tfs, e_tfr e = tf :: tfs /\ tf_vars tf = [] /\ tf_fields tf = [] /\ KEQ (tf_targs tf) (fr_targs fr) /\
    (forall nm id ty, alookup nm (mc_targs mc) = Some id -> lookup nm (tf_targs tf) = Some ty -> TYPS s (SyLeaf id) ty) /\
    (forall nm sym ty, find_local (set_scopes t s) nm = Some sym -> first_some (tframe_lookup nm) tfs = Some ty ->
                       TYPS s sym ty).

Inductive MB (f : N) (e : env) (s : st) (mid : N) : Prop :=
| mkMB : forall (tail : list scope) (fr : frame) (frs : list frame) (mc : mcd),
    s_scopes s = mkScope (KMulticlass mid) [] :: tail ->
    e_frames e = fr :: frs -> fr_vars fr = [] -> fr_fields fr = [] ->
    nthN (s_mcs s) mid = Some mc ->
    AL s (mc_targs mc) (fr_targs fr) ->
    (forall nm d, first_some (frame_lookup nm) frs = Some d ->
                  exists sym, find_local (set_scopes tail s) nm = Some sym /\ define_loc s sym = Some d) ->
    (forall nm, first_some (frame_lookup nm) frs = None -> find_local (set_scopes tail s) nm = None) ->
    current_record_id (set_scopes tail s) = None ->
    (forall c, In c tail -> sc_kind c <> KMulticlass mid) ->
    mc_scopes_valid (set_scopes tail s) ->
    Inh None e s ->
    MT e s tail mc fr ->
    MB f e s mid.

Lemma MB_Pre2 : forall f e s mid, MB f e s mid -> Pre2g f e s -> Pre2 f e s.
Proof.
  intros f e s mid [t fr frs mc Hsc Hfe Hv Hfl Hmc At T1 T2 T3 T4 T5 T6 T7] [F D1 D2 S1 S2 C1 C2 M1 M2].
  assert (SF : forall nm, scope_find s (mkScope (KMulticlass mid) []) nm = option_map SyLeaf (alookup nm (mc_targs mc))).
  { intros nm. unfold scope_find, sc_find_variable. cbn [sc_kind sc_vars alookup]. now rewrite Hmc. }
  split; auto.
  - intros nm d H. unfold locals_of in H. rewrite Hfe in H. simpl in H.
    rewrite (find_local_cons s _ t nm Hsc), SF. unfold frame_lookup in H. rewrite Hv, Hfl in H. simpl in H.
    specialize (At nm). destruct (alookup nm (mc_targs mc)) as [y|]; simpl.
    + destruct At as [lf [A B]]. rewrite B in H. injection H as <-. exists (SyLeaf y). simpl. now rewrite A.
    + rewrite At in H. apply T1. exact H.
  - intros nm H. unfold locals_of in H. rewrite Hfe in H. simpl in H.
    rewrite (find_local_cons s _ t nm Hsc), SF. unfold frame_lookup in H. rewrite Hv, Hfl in H. simpl in H.
    specialize (At nm). destruct (alookup nm (mc_targs mc)) as [y|]; [destruct At as [lf [A B]]; rewrite B in H; discriminate|].
    rewrite At in H. simpl. apply T2. exact H.
  - destruct T7 as (tf & tfs & Htf & Kv & Kf & KT & TT & TLt).
    intros nm sym ty H1 H2. rewrite Htf in H2. simpl in H2. unfold tframe_lookup in H2. rewrite Kv, Kf in H2. simpl in H2.
    rewrite (find_local_cons s _ t nm Hsc), SF in H1. specialize (At nm).
    destruct (alookup nm (mc_targs mc)) as [y|] eqn:Ey; simpl in H1.
    + injection H1 as <-. destruct At as [lf [A B]].
      destruct (lookup nm (tf_targs tf)) as [ty0|] eqn:Et; [|apply (KT nm) in Et; congruence].
      injection H2 as <-. now apply (TT nm y ty0).
    + assert (Et : lookup nm (tf_targs tf) = None) by (now apply (KT nm)). rewrite Et in H2.
      now apply (TLt nm sym ty).
Qed.

Lemma MB_inh : forall f e s mid, MB f e s mid -> Inh None e s.
Proof. intros f e s mid [t fr frs mc Hsc Hfe Hv Hfl Hmc At T1 T2 T3 T4 T5 T6 T7]. exact T6. Qed.
Lemma MB_Stat : forall f e s mid, MB f e s mid -> Stat s.
Proof.
  intros f e s mid [t fr frs mc Hsc Hfe Hv Hfl Hmc At T1 T2 T3 T4 T5 T6 T7]. split.
  - unfold current_record_id in *. rewrite Hsc. simpl in *. exact T3.
  - intros c m Hin Hk. rewrite Hsc in Hin. destruct Hin as [<-|Hin].
    + simpl in Hk. injection Hk as <-. congruence.
    + apply (T5 c m); [exact Hin|exact Hk].
  - rewrite Hsc. discriminate.
Qed.

Lemma MB_VR : forall f e s s' mid, MB f e s mid -> VR s s' -> s_scopes s' = s_scopes s -> MB f e s' mid.
Proof.
  intros f e s s' mid [t fr frs mc Hsc Hfe Hv Hfl Hmc At T1 T2 T3 T4 T5 T6 T7] V Hs.
  pose proof V as (Hr & Hm & Hc & Hd & Hmcn & Hds & Ht & Hl).
  apply (mkMB f e s' mid t fr frs mc); auto.
  - now rewrite Hs.
  - now rewrite Hm.
  - now apply (AL_ext s s').
  - intros nm d H. destruct (T1 nm d H) as [sym [A B]]. exists sym.
    rewrite (find_local_tail_eq t s s' nm Hm T3). split; [exact A|now apply (define_loc_ext s s')].
  - intros nm H. rewrite (find_local_tail_eq t s s' nm Hm T3). now apply T2.
  - intros c m Hin Hk. simpl. rewrite Hm. apply (T5 c m Hin Hk).
  - eapply Inh_VR; eassumption.
  - destruct T7 as (tf & tfs & Htf & Kv & Kf & KT & TT & TLt). exists tf, tfs. repeat split; try assumption; try apply KT.
    + intros nm id ty H1 H2. apply (TYPS_VR s s'); auto. eapply TT; eassumption.
    + intros nm sym ty H1 H2. rewrite (find_local_tail_eq t s s' nm Hm T3) in H1. apply (TYPS_VR s s'); auto. eapply TLt; eassumption.
Qed.

(** the multiclass [mid] gets a template argument *)
Definition mc_update (s s' : st) (mid : N) (g : mcd -> mcd) : Prop :=
  s_scopes s' = s_scopes s /\ s_recs s' = s_recs s /\ s_trace s' = s_trace s /\
  s_nclass s' = s_nclass s /\ s_ndef s' = s_ndef s /\ s_nmc s' = s_nmc s /\ s_ndset s' = s_ndset s /\
  (exists ext, s_leaves s' = s_leaves s ++ ext) /\
  s_mcs s' = set_nth (N.to_nat mid) g (s_mcs s).

Lemma define_loc_mc_update : forall s s' mid g sym d,
    mc_update s s' mid g -> (forall m, mc_loc (g m) = mc_loc m) ->
    define_loc s sym = Some d -> define_loc s' sym = Some d.
Proof.
  intros s s' mid g sym d (Hs & Hr & _ & _ & _ & _ & _ & [ext Hl] & Hm) Hg H. destruct sym; simpl in *.
  - now rewrite Hr.
  - rewrite Hm, nthN_set_nth. destruct (N.eqb mid i); [|exact H].
    destruct (nthN (s_mcs s) i); simpl in *; [|discriminate]. now rewrite Hg.
  - rewrite Hl. destruct (nthN (s_leaves s) i) eqn:E; [|discriminate]. now rewrite (nthN_app_some _ _ ext _ _ E).
Qed.

Lemma Pre2g_mc_update : forall f e s s' mid g,
    Pre2g f e s -> mc_update s s' mid g -> (forall m, mc_loc (g m) = mc_loc m) -> Pre2g f e s'.
Proof.
  intros f e s s' mid g [F D1 D2 S1 S2 C1 C2 M1 M2] U Hg.
  pose proof U as (Hs & Hr & Ht & Hc & Hd & Hmc & Hds & Hl & Hm).
  split.
  - unfold current_file in *. now rewrite Ht.
  - intros nm d H. destruct (D1 nm d H) as [id [A B]]. exists id. unfold find_def in *. rewrite Hd.
    split; [exact A|]. eapply define_loc_mc_update; eassumption.
  - intros nm H. unfold find_def in *. rewrite Hd. now apply D2.
  - intros nm d H. destruct (S1 nm d H) as [id [A B]]. exists id. unfold find_defset in *. rewrite Hds.
    split; [exact A|]. eapply define_loc_mc_update; eassumption.
  - intros nm H. unfold find_defset in *. rewrite Hds. now apply S2.
  - intros nm d H. specialize (C1 nm d H). unfold class_view, find_class in *. now rewrite Hc, Hr.
  - intros nm H. unfold find_class in *. rewrite Hc. now apply C2.
  - intros nm d H. specialize (M1 nm d H). unfold mc_view, find_multiclass in *. rewrite Hmc.
    destruct (alookup nm (s_nmc s)) as [id|]; [|discriminate].
    change (define_loc s' (SyMc id) = Some d). eapply define_loc_mc_update; eassumption.
  - intros nm H. unfold find_multiclass in *. rewrite Hmc. now apply M2.
Qed.

Lemma find_local_tail_mc : forall t s s' mid g nm,
    s_mcs s' = set_nth (N.to_nat mid) g (s_mcs s) ->
    current_record_id (set_scopes t s) = None -> (forall c, In c t -> sc_kind c <> KMulticlass mid) ->
    find_local (set_scopes t s') nm = find_local (set_scopes t s) nm.
Proof.
  intros t s s' mid g nm Hm Hnr Hne. unfold find_local; simpl.
  assert (G : forall l, find_map sc_record_id l = None -> (forall c, In c l -> sc_kind c <> KMulticlass mid) ->
                        find_map (fun c => scope_find (set_scopes t s') c nm) l
                        = find_map (fun c => scope_find (set_scopes t s) c nm) l).
  { induction l as [|c r IHl]; intros Hn Hk; simpl; [reflexivity|]. simpl in Hn.
    destruct (sc_record_id c) eqn:Ec; [discriminate|].
    assert (E : scope_find (set_scopes t s') c nm = scope_find (set_scopes t s) c nm).
    { unfold scope_find. destruct (sc_find_variable c nm); [reflexivity|].
      unfold sc_record_id in Ec. destruct (sc_kind c) eqn:Ek; try reflexivity; try discriminate. simpl.
      rewrite Hm, nthN_set_nth.
      destruct (N.eqb_spec mid id) as [->|Hd]; [exfalso; apply (Hk c); [now left|exact Ek]|reflexivity]. }
    rewrite E. destruct (scope_find (set_scopes t s) c nm); [reflexivity|].
    apply IHl; [exact Hn|intros; apply Hk; now right]. }
  apply G; assumption.
Qed.

Record ResM (f : N) (s s' : st) (E : list ev) (e' : env) (mid : N) : Prop := mkResM {
  rm_uses : s_uses s' = rev E ++ s_uses s;
  rm_nf : nf s' = nf s;
  rm_mb : MB f e' s' mid;
  rm_g : Pre2g f e' s' }.
Lemma ResM_trans : forall f a b c E1 E2 e1 e2 mid,
    ResM f a b E1 e1 mid -> ResM f b c E2 e2 mid -> ResM f a c (E1 ++ E2) e2 mid.
Proof.
  intros f a b c E1 E2 e1 e2 mid [U1 N1 _ _] [U2 N2 R2 G2]. split; auto.
  - rewrite U2, U1, rev_app_distr, app_assoc. reflexivity.
  - congruence.
Qed.
Lemma ResM_of_Step : forall f e s s' E mid,
    Step s s' E -> MB f e s mid -> Pre2g f e s -> ResM f s s' E e mid.
Proof.
  intros f e s s' E mid [U V Sc N] R G. split; auto.
  - eapply MB_VR; eassumption.
  - eapply Pre2g_VR; eassumption.
Qed.

Lemma GRW_mc_update : forall s s' mid g, mc_update s s' mid g -> GRW s s'.
Proof.
  intros s s' mid g (Hs & Hr & Ht & Hc & Hd & Hmcn & Hds & Hext & Hm). split; [exact Hext|]. split; exists []; simpl; assumption.
Qed.
Lemma MB_add_targ : forall f e s mid l sty,
    MB f e s mid -> Pre2g f e s -> TYPm s (lf_ty l) sty -> lf_kind l <> LDefm ->
    let s3 := snd (multiclass_mut mid (mc_add_targ (lf_name l) (lenN (s_leaves s))) (snd (add_leaf l s))) in
    ResM f s s3 [] (tset_targ (add_targ e (lf_name l) (lf_loc l)) (lf_name l) sty) mid.
Proof.
  intros f e s mid l sty [t fr frs mc Hsc Hfe Hv Hfl Hmc At T1 T2 T3 T4 T5 T6 T7] G Hty Hk s3.
  assert (U : mc_update s s3 mid (mc_add_targ (lf_name l) (lenN (s_leaves s))) /\ s_uses s3 = s_uses s /\ nf s3 = nf s
              /\ s_leaves s3 = s_leaves s ++ [l]).
  { unfold s3, multiclass_mut, add_leaf; simpl. unfold add_pos.
    destruct (rng_empty (lf_loc l)); simpl; rewrite Hmc; simpl; repeat split; auto; eexists; reflexivity. }
  destruct U as (U & Hu & Hn & Hl).
  pose proof U as (Hs & Hr & Ht & Hc & Hd & Hmcn & Hds & Hext & Hm).
  pose proof (GRW_mc_update _ _ _ _ U) as HG.
  assert (Hid : nthN (s_leaves s3) (lenN (s_leaves s)) = Some l) by (rewrite Hl; apply nthN_app_last).
  destruct (globals_add_targ0 e (lf_name l) (lf_loc l)) as (A1 & A2 & A3 & A4).
  set (E := tset_targ (add_targ e (lf_name l) (lf_loc l)) (lf_name l) sty).
  split; auto.
  - apply (mkMB f E s3 mid t (mkFrame (fr_vars fr) (fr_fields fr) ((lf_name l, lf_loc l) :: fr_targs fr)) frs
                 (mc_add_targ (lf_name l) (lenN (s_leaves s)) mc)); auto.
    + now rewrite Hs.
    + change (e_frames E) with (e_frames (add_targ e (lf_name l) (lf_loc l))). now apply add_targ_frames.
    + rewrite Hm, nthN_set_nth, N.eqb_refl, Hmc. reflexivity.
    + simpl. now apply (AL_insert s s3).
    + intros nm d H. destruct (T1 nm d H) as [sym [A B]]. exists sym.
      rewrite (find_local_tail_mc t s s3 mid _ nm Hm T3 T4). split; [exact A|].
      eapply define_loc_mc_update; [exact U|reflexivity|exact B].
    + intros nm H. rewrite (find_local_tail_mc t s s3 mid _ nm Hm T3 T4). now apply T2.
    + intros c m Hin Hk0. simpl. rewrite Hm, nthN_set_nth.
      destruct (N.eqb mid m); [|apply (T5 c m Hin Hk0)].
      pose proof (T5 c m Hin Hk0) as X. simpl in X. destruct (nthN (s_mcs s) m); [discriminate|congruence].
    + eapply (Inh_eq None e E s s3 T6); auto.
    + destruct T7 as (tf & tfs & Htf & Kv & Kf & KT & TT & TLt).
      exists (mkTF (tf_vars tf) (tf_fields tf) ((lf_name l, sty) :: tf_targs tf)), tfs.
      split; [unfold E, tset_targ, with_tfr, with_frames; simpl; now rewrite A4, Htf|].
      split; [exact Kv|]. split; [exact Kf|]. split.
      { intros nm. simpl. destruct (name_eqb nm (lf_name l)); [split; discriminate|apply KT]. }
      split.
      * intros nm id ty H1 H2. cbn [mc_add_targ mc_targs] in H1. rewrite alookup_imap_insert in H1.
        simpl in H2. destruct (name_eqb nm (lf_name l)).
        -- injection H1 as <-. injection H2 as <-. exact (TYPS_new_leaf s s3 l sty _ Hty Hk Hid HG).
        -- apply (TYPS_GRW s s3 _ _ HG). eapply TT; eassumption.
      * intros nm sym ty H1 H2. rewrite (find_local_tail_mc t s s3 mid _ nm Hm T3 T4) in H1.
        apply (TYPS_GRW s s3 _ _ HG). eapply TLt; eassumption.
  - apply (Pre2g_su f e); [eapply Pre2g_mc_update; [exact G|exact U|reflexivity]|exact A1| | |];
      unfold E, tset_targ, with_tfr, with_frames, add_targ; destruct (e_frames e); reflexivity.
Qed.

Lemma MB_Pre : forall f e s mid, MB f e s mid -> Pre2g f e s -> Pre f e s.
Proof.
  intros f e s mid R G. pose proof (MB_Pre2 _ _ _ _ R G) as P2.
  destruct R as [t fr frs mc Hsc Hfe Hv Hfl Hmc At T1 T2 T3 T4 T5 T6 T7].
  apply Pre2_Pre; [exact P2|].
  assert (Hc : current_record_id s = None) by (unfold current_record_id in *; rewrite Hsc; simpl in *; exact T3).
  now rewrite Hc.
Qed.
Lemma MB_current : forall f e s mid, MB f e s mid ->
    current_record_id s = None /\ current_multiclass_id s = Some mid.
Proof.
  intros f e s mid [t fr frs mc Hsc _ _ _ _ _ _ _ T3 _ _]. split.
  - unfold current_record_id in *. rewrite Hsc. simpl in *. exact T3.
  - unfold current_multiclass_id. rewrite Hsc. reflexivity.
Qed.

Definition mtarg_state (n : nat) (t : ty) (i : ident) (d : option value) (mid : N) (s : st) : st :=
  let loc := mkR (current_file s) (r_lo (i_rng i)) (r_hi (i_rng i)) in
  match index_ty t s with
  | (None, s1) => s1
  | (Some typ, s1) =>
    let lf := mkLeaf LTArg (i_name i) typ match d with Some _ => true | None => false end loc in
    let s3 := snd (multiclass_mut mid (mc_add_targ (i_name i) (lenN (s_leaves s1))) (snd (add_leaf lf s1))) in
    match d with Some v => snd (index_value n v s3) | None => s3 end
  end.
Lemma mtarg_state_eq : forall n t i d mid s,
    current_record_id s = None -> current_multiclass_id s = Some mid ->
    snd (index_targ n (TArg t i d) s) = mtarg_state n t i d mid s.
Proof.
  intros n t i d mid s Hc Hm. unfold mtarg_state, index_targ.
  unfold bind at 1. unfold here at 1, get. cbn [fst snd].
  unfold bind at 1.
  pose proof (keeps_index_ty t s) as Hk.
  destruct (index_ty t s) as [[typ|] s1]; cbn [fst snd] in *; [|reflexivity].
  set (lf := mkLeaf LTArg (i_name i) typ match d with Some _ => true | None => false end
                    (mkR (current_file s) (r_lo (i_rng i)) (r_hi (i_rng i)))).
  unfold bind at 1.
  assert (Ea : add_leaf lf s1 = (Some (lenN (s_leaves s1)), snd (add_leaf lf s1))) by reflexivity.
  rewrite Ea. cbn [fst snd].
  unfold bind at 1. unfold state at 1, get. cbn [fst snd].
  assert (Hc1 : current_record_id (snd (add_leaf lf s1)) = None)
    by (unfold current_record_id in *; rewrite (keeps_add_leaf lf s1), Hk; exact Hc).
  assert (Hm1 : current_multiclass_id (snd (add_leaf lf s1)) = Some mid)
    by (unfold current_multiclass_id in *; rewrite (keeps_add_leaf lf s1), Hk; exact Hm).
  rewrite Hc1, Hm1. unfold seq. destruct d as [v|]; reflexivity.
Qed.

Lemma mtarg_sim : forall n a f e s mid,
    frag_targ a = true -> MB f e s mid -> Pre2g f e s ->
    forallb resolved (fst (spec_targ f e a)) = true ->
    s_bad (snd (index_targ n a s)) = false ->
    ResM f s (snd (index_targ n a s)) (fst (spec_targ f e a)) (snd (spec_targ f e a)) mid.
Proof.
  intros n [t i d] f e s mid Hf R G HR Hb.
  destruct (MB_current _ _ _ _ R) as [Hcr Hcm].
  rewrite (mtarg_state_eq n t i d mid s Hcr Hcm) in *.
  change (spec_targ f e (TArg t i d)) with
    (spec_ty f e t ++ match d with
                      | Some v => spec_value f (tset_targ (add_targ e (i_name i) (at_file f (i_rng i))) (i_name i) (sty_of_ty e t)) v
                      | None => []
                      end,
     tset_targ (add_targ e (i_name i) (at_file f (i_rng i))) (i_name i) (sty_of_ty e t)) in *.
  simpl in HR, Hf |- *. set (e1 := tset_targ (add_targ e (i_name i) (at_file f (i_rng i))) (i_name i) (sty_of_ty e t)) in *.
  rewrite forallb_app in HR. apply andb_true_iff in HR. destruct HR as [HRt HRv].
  unfold mtarg_state in *.
  set (loc := mkR (current_file s) (r_lo (i_rng i)) (r_hi (i_rng i))) in *.
  assert (Hloc : loc = at_file f (i_rng i)) by (unfold loc, at_file; now rewrite (g_file f e s G)).
  pose proof (MB_Pre _ _ _ _ R G) as P.
  pose proof (ty_sim t f e s P HRt) as St. pose proof (ty_sim_some t f e s P HRt) as Hts.
  destruct (index_ty t s) as [[typ|] s1] eqn:Et; [|simpl in Hts; congruence]. simpl in St.
  pose proof (ResM_of_Step f e s s1 _ mid St R G) as R1. pose proof R1 as [_ _ Rb1 G1].
  set (lf := mkLeaf LTArg (i_name i) typ match d with Some _ => true | None => false end loc) in *.
  assert (Hty : TYPm s1 typ (sty_of_ty e t)).
  { pose proof (ty_typed t f e s typ P) as X. rewrite Et in X. apply X. reflexivity. }
  pose proof (MB_add_targ f e s1 mid lf (sty_of_ty e t) Rb1 G1 Hty ltac:(discriminate)) as R2.
  assert (Ee : tset_targ (add_targ e (lf_name lf) (lf_loc lf)) (lf_name lf) (sty_of_ty e t) = e1)
    by (unfold e1, lf; simpl; now rewrite Hloc).
  rewrite Ee in R2. simpl in R2.
  set (s3 := snd (multiclass_mut mid (mc_add_targ (i_name i) (lenN (s_leaves s1))) (snd (add_leaf lf s1)))) in *.
  pose proof R2 as [_ _ Rb3 G3].
  destruct d as [v|]; simpl in Hf, HRv |- *.
  - eapply ResM_trans; [exact R1|]. change (spec_value f e1 v) with ([] ++ spec_value f e1 v).
    eapply ResM_trans; [exact R2|]. apply ResM_of_Step; auto. apply value_agrees; auto. eapply MB_Pre; eassumption.
  - rewrite app_nil_r. rewrite <- (app_nil_r (spec_ty f e t)). eapply ResM_trans; [exact R1|exact R2].
Qed.

Lemma mtargs_sim : forall n l f e s mid,
    forallb frag_targ l = true -> MB f e s mid -> Pre2g f e s ->
    forallb resolved (fst (spec_targs f e l)) = true ->
    s_bad (snd (iterM (index_targ n) l s)) = false ->
    ResM f s (snd (iterM (index_targ n) l s)) (fst (spec_targs f e l)) (snd (spec_targs f e l)) mid.
Proof.
  intros n l. induction l as [|a r IHl]; intros f e s mid Hf R G HR Hb.
  - simpl. split; auto.
  - simpl in Hf. apply andb_true_iff in Hf. destruct Hf as [Hf1 Hf2].
    simpl in HR, Hb |- *. unfold seq in *.
    destruct (spec_targ f e a) as [ev1 e1] eqn:E1. destruct (spec_targs f e1 r) as [ev2 e2] eqn:E2. simpl in *.
    rewrite forallb_app in HR. apply andb_true_iff in HR. destruct HR as [HR1 HR2].
    assert (BMi : forall x, resp BadMono (index_targ n x)).
    { intros x. apply (r_index_targ BadMono BM_refl BM_trans); bm_prim. }
    assert (Hb1 : s_bad (snd (index_targ n a s)) = false).
    { eapply (bad_false_before _ (iterM (index_targ n) r)); [|exact Hb].
      apply (resp_iterM BadMono BM_refl BM_trans). intros; apply BMi. }
    pose proof (mtarg_sim n a f e s mid Hf1 R G) as R1. rewrite E1 in R1. simpl in R1. specialize (R1 HR1 Hb1).
    pose proof R1 as [_ _ Rb1 G1].
    pose proof (IHl f e1 _ mid Hf2 Rb1 G1) as R2. rewrite E2 in R2. simpl in R2. specialize (R2 HR2 Hb).
    eapply ResM_trans; eassumption.
Qed.

Lemma add_multiclass_facts : forall nm loc s,
    let s1 := snd (add_multiclass nm loc s) in
    s_scopes s1 = s_scopes s /\ s_recs s1 = s_recs s /\ s_leaves s1 = s_leaves s /\ s_trace s1 = s_trace s /\
    s_mcs s1 = s_mcs s ++ [mkMc nm [] [] loc] /\ s_uses s1 = s_uses s /\ nf s1 = nf s /\
    s_nclass s1 = s_nclass s /\ s_ndef s1 = s_ndef s /\ s_ndset s1 = s_ndset s /\
    s_nmc s1 = (nm, lenN (s_mcs s)) :: s_nmc s.
Proof.
  intros nm loc s s1. unfold s1, add_multiclass; simpl. unfold add_pos, nf. destruct (rng_empty loc); repeat split.
Qed.

Lemma define_loc_app_mc : forall s s1 m sym d,
    s_mcs s1 = s_mcs s ++ [m] -> s_recs s1 = s_recs s -> s_leaves s1 = s_leaves s ->
    define_loc s sym = Some d -> define_loc s1 sym = Some d.
Proof.
  intros s s1 m sym d Hm Hr Hl H. destruct sym; simpl in *.
  - now rewrite Hr.
  - rewrite Hm. destruct (nthN (s_mcs s) i) eqn:E; [|discriminate]. now rewrite (nthN_app_some _ _ [m] _ _ E).
  - now rewrite Hl.
Qed.

Lemma Pre2g_add_multiclass : forall f e s nm loc,
    Pre2g f e s -> Pre2g f (set_mc e nm loc) (snd (add_multiclass nm loc s)).
Proof.
  intros f e s nm loc [F D1 D2 S1 S2 C1 C2 M1 M2].
  destruct (add_multiclass_facts nm loc s) as (Hsc & Hr & Hl & Ht & Hm & _ & _ & Hc & Hd & Hds & Hmc).
  set (s1 := snd (add_multiclass nm loc s)) in *.
  assert (DL : forall sym d, define_loc s sym = Some d -> define_loc s1 sym = Some d)
    by (intros; eapply define_loc_app_mc; eassumption).
  split.
  - unfold current_file in *. now rewrite Ht.
  - intros n0 d H. destruct (D1 n0 d H) as [id [A B]]. exists id. unfold find_def in *. rewrite Hd.
    split; [exact A|exact (DL _ _ B)].
  - intros n0 H. unfold find_def in *. rewrite Hd. now apply D2.
  - intros n0 d H. destruct (S1 n0 d H) as [id [A B]]. exists id. unfold find_defset in *. rewrite Hds.
    split; [exact A|exact (DL _ _ B)].
  - intros n0 H. unfold find_defset in *. rewrite Hds. now apply S2.
  - intros n0 d H. specialize (C1 n0 d H). unfold class_view, find_class in *. now rewrite Hc, Hr.
  - intros n0 H. unfold find_class in *. rewrite Hc. now apply C2.
  - intros n0 d H. unfold lookup_mc, set_mc in H. simpl in H. unfold mc_view, find_multiclass. rewrite Hmc. simpl.
    destruct (name_eqb n0 nm).
    + injection H as <-. rewrite Hm, nthN_app_last. reflexivity.
    + specialize (M1 n0 d H). unfold mc_view, find_multiclass in M1.
      destruct (alookup n0 (s_nmc s)) as [id|]; [|discriminate]. exact (DL (SyMc id) d M1).
  - intros n0 H. unfold lookup_mc, set_mc in H. simpl in H. unfold find_multiclass. rewrite Hmc. simpl.
    destruct (name_eqb n0 nm); [discriminate|]. now apply M2.
Qed.

Lemma MB_start : forall f e e0 s s1 mid nm loc,
    Pre2 f e s -> Stat s -> e_frames e0 = e_frames e -> e_tfr e0 = e_tfr e ->
    s_scopes s1 = s_scopes s -> s_recs s1 = s_recs s -> s_leaves s1 = s_leaves s ->
    s_mcs s1 = s_mcs s ++ [mkMc nm [] [] loc] -> mid = lenN (s_mcs s) -> GRW s s1 ->
    Inh None e0 s1 ->
    MB f (push_vars e0 []) (pushed (KMulticlass mid) s1) mid.
Proof.
  intros f e e0 s s1 mid nm loc [F L1 L2 _ _ _ _ _ _ _ _ TLx] [Hnr Hmv _] Hfe Htf Hsc Hr Hl Hm -> HG HI.
  assert (Hval : forall c m, In c (s_scopes s) -> sc_kind c = KMulticlass m -> m <> lenN (s_mcs s)).
  { intros c m Hin Hk Heq. subst m. apply (Hmv c _ Hin Hk). unfold nthN, lenN. rewrite Nat2N.id.
    apply nth_error_None. lia. }
  assert (FLeq : forall nm0, find_local (set_scopes (s_scopes s1) (pushed (KMulticlass (lenN (s_mcs s))) s1)) nm0
                             = find_local s nm0).
  { intros nm0. unfold find_local; simpl. rewrite Hsc.
    assert (G : forall l, find_map sc_record_id l = None -> (forall c, In c l -> In c (s_scopes s)) ->
                          find_map (fun c => scope_find (set_scopes (s_scopes s) (pushed (KMulticlass (lenN (s_mcs s))) s1)) c nm0) l
                          = find_map (fun c => scope_find s c nm0) l).
    { induction l as [|c r IHl]; intros Hn Hin; simpl; [reflexivity|]. simpl in Hn.
      destruct (sc_record_id c) eqn:Ec; [discriminate|].
      assert (E : scope_find (set_scopes (s_scopes s) (pushed (KMulticlass (lenN (s_mcs s))) s1)) c nm0 = scope_find s c nm0).
      { unfold scope_find. destruct (sc_find_variable c nm0); [reflexivity|].
        unfold sc_record_id in Ec. destruct (sc_kind c) eqn:Ek; try reflexivity; try discriminate. simpl.
        rewrite Hm. pose proof (Hmv c id (Hin c (or_introl eq_refl)) Ek) as Hv.
        destruct (nthN (s_mcs s) id) as [m0|] eqn:E0; [|congruence]. now rewrite (nthN_app_some _ _ _ _ _ E0). }
      rewrite E. destruct (scope_find s c nm0); [reflexivity|]. apply IHl; [exact Hn|intros; apply Hin; now right]. }
    apply G; auto. }
  apply (mkMB f _ _ _ (s_scopes s1) (mkFrame [] [] []) (e_frames e0) (mkMc nm [] [] loc)); auto.
  - unfold pushed; simpl. rewrite Hm. apply nthN_app_last.
  - intros n0. reflexivity.
  - intros n0 d H. rewrite Hfe in H. destruct (L1 n0 d H) as [sym [A B]]. exists sym. split.
    + rewrite FLeq. exact A.
    + change (define_loc s1 sym = Some d). eapply define_loc_app_mc; eassumption.
  - intros n0 H. rewrite Hfe in H. rewrite FLeq. now apply L2.
  - unfold current_record_id in *; simpl. now rewrite Hsc.
  - intros c Hin Hk. rewrite Hsc in Hin. apply (Hval c _ Hin Hk). reflexivity.
  - intros c m Hin Hk. simpl in *. rewrite Hsc in Hin. rewrite Hm.
    pose proof (Hmv c m Hin Hk) as Hv. destruct (nthN (s_mcs s) m) as [m0|] eqn:E0; [|congruence].
    rewrite (nthN_app_some _ _ _ _ _ E0). discriminate.
  - exists (mkTF [] [] []), (e_tfr e0). split; [reflexivity|]. split; [reflexivity|]. split; [reflexivity|].
    split; [intros n0; split; reflexivity|]. split; [intros n0 id ty H; discriminate|].
    intros n0 sym ty H1 H2. rewrite FLeq in H1. rewrite Htf in H2.
    apply (TYPS_GRW s _ sym ty HG). exact (TLx n0 sym ty H1 H2).
Qed.

Lemma spec_multiclass : forall f e i targs ps b,
    spec_stmt f e (SMulticlass i targs ps b)
    = let e0 := set_mc e (i_name i) (at_file f (i_rng i)) in
      let e1 := push_vars e0 [] in
      let '(ev1, e2) := match targs with Some l => spec_targs f e1 l | None => ([], e1) end in
      let ev2 := flat_map (spec_mcref f e2) ps in
      let '(ev3, e3) := spec_stmts f e2 b in
      (ev1 ++ ev2 ++ ev3, leave e0 e3).
Proof.
  intros. simpl. destruct (match targs with Some l => spec_targs f _ l | None => _ end) as [ev1 e2].
  rewrite mcrefs_local, spec_local. reflexivity.
Qed.

Section CasesB9.
  Variable files : list (list stmt).
  Variable n : nat.
  Hypothesis IH : sim_B files n.

  Lemma BM_mc_body : forall mid (targs : option (list targ)) ps b,
      resp BadMono (scoped (KMulticlass mid)
                      (seq (match targs with Some l => iterM (index_targ n) l | None => ret tt end)
                           (seq (index_parents n ps) (iterM (index_stmt files n) b)))).
  Proof.
    intros mid targs ps b. apply (r_scoped BadMono BM_refl BM_trans); [bm_prim|bm_prim|].
    apply (resp_seq BadMono BM_trans).
    - destruct targs as [l|]; [|apply (resp_ret BadMono BM_refl)].
      apply (resp_iterM BadMono BM_refl BM_trans). intros x _. apply (r_index_targ BadMono BM_refl BM_trans); bm_prim.
    - apply (resp_seq BadMono BM_trans); [apply (r_index_parents BadMono BM_refl BM_trans); bm_prim|apply BM_stmts].
  Qed.

  Lemma caseB_multiclass : forall i targs ps b f e s,
      match targs with Some l => forallb frag_targ l | None => true end = true ->
      forallb frag_classref ps = true -> fragB_stmts b = true ->
      Pre2 f e s -> Stat s -> e_frames e <> [] -> Inh None e s ->
      forallb resolved (fst (spec_stmt f e (SMulticlass i targs ps b))) = true ->
      s_bad (snd (index_stmt files (S n) (SMulticlass i targs ps b) s)) = false ->
      ResB f s (snd (index_stmt files (S n) (SMulticlass i targs ps b) s))
           (fst (spec_stmt f e (SMulticlass i targs ps b))) (snd (spec_stmt f e (SMulticlass i targs ps b))).
  Proof.
    intros i targs ps b f e s Hft Hfp Hfb P T He HI HR Hb.
    pose proof (finish_block_like files (S n) (SMulticlass i targs ps b) f e) as FIN.
    set (final := snd (index_stmt files (S n) (SMulticlass i targs ps b) s)) in *.
    rewrite spec_multiclass in *. cbv zeta in HR |- *.
    set (loc := at_file f (i_rng i)) in *.
    set (e0 := set_mc e (i_name i) loc) in *.
    set (e1 := push_vars e0 []) in *.
    destruct (match targs with Some l => spec_targs f e1 l | None => ([], e1) end) as [ev1 e2] eqn:Et.
    destruct (spec_stmts f e2 b) as [ev3 e3] eqn:Eb. simpl in HR |- *.
    rewrite forallb_app in HR. apply andb_true_iff in HR. destruct HR as [HR1 HR].
    rewrite forallb_app in HR. apply andb_true_iff in HR. destruct HR as [HR2 HR3].
    set (mloc := mkR (current_file s) (r_lo (i_rng i)) (r_hi (i_rng i))).
    assert (Hloc : mloc = loc) by (unfold mloc, loc, at_file; now rewrite (p2_file f e s P)).
    set (s1 := snd (add_multiclass (i_name i) mloc s)).
    set (mid := lenN (s_mcs s)).
    set (body := seq (match targs with Some l => iterM (index_targ n) l | None => ret tt end)
                     (seq (index_parents n ps) (iterM (index_stmt files n) b))).
    assert (Efin : final = snd (scoped (KMulticlass mid) body s1)).
    { unfold final. simpl. unfold bind at 1. unfold here, get. simpl. unfold bind at 1. reflexivity. }
    rewrite Efin in Hb |- *.
    destruct (add_multiclass_facts (i_name i) mloc s) as (Hsc & Hr & Hl & Ht & Hm & Hu & Hn & Hc & Hd & Hds & Hmc).
    fold s1 in Hsc, Hr, Hl, Ht, Hm, Hu, Hn, Hc, Hd, Hds, Hmc.
    assert (Hb' := Hb). apply scoped_bad in Hb'.
    assert (I0 : Inh None e0 s1)
      by (eapply (Inh_eq None e e0 s s1 HI); [reflexivity|reflexivity|reflexivity|exact Hr|exact Hc|exact Hd|exists []; now rewrite Hl, app_nil_r]).
    assert (HG1 : GRW s s1) by (split; [exists []; now rewrite Hl, app_nil_r|split; exists []; simpl; assumption]).
    assert (R0 : MB f e1 (pushed (KMulticlass mid) s1) mid)
      by (apply (MB_start f e e0 s s1 mid (i_name i) mloc); auto).
    assert (G0 : Pre2g f e1 (pushed (KMulticlass mid) s1)).
    { apply Pre2g_pushed. unfold e0. rewrite <- Hloc. apply Pre2g_add_multiclass. now apply Pre2_g. }
    unfold body, seq in Hb'.
    set (st := snd ((match targs with Some l => iterM (index_targ n) l | None => ret tt end) (pushed (KMulticlass mid) s1))) in *.
    assert (Hbp : s_bad (snd (index_parents n ps st)) = false)
      by (eapply (bad_false_before _ (iterM (index_stmt files n) b)); [apply BM_stmts|exact Hb']).
    assert (Hbt : s_bad st = false).
    { eapply (bad_false_before _ (index_parents n ps)); [|exact Hbp]. apply (r_index_parents BadMono BM_refl BM_trans); bm_prim. }
    assert (R1 : ResM f (pushed (KMulticlass mid) s1) st ev1 e2 mid).
    { unfold st. destruct targs as [l|]; simpl in Et |- *.
      - pose proof (mtargs_sim n l f e1 (pushed (KMulticlass mid) s1) mid Hft R0 G0) as X.
        rewrite Et in X. simpl in X. apply X; auto.
      - injection Et as <- <-. split; auto. }
    destruct R1 as [U1 N1 Rb1 G1].
    pose proof (MB_Pre2 _ _ _ _ Rb1 G1) as P2. pose proof (MB_Stat _ _ _ _ Rb1) as T2. pose proof (MB_inh _ _ _ _ Rb1) as I2.
    assert (F2 : e_frames e2 <> []) by (destruct Rb1 as [t fr frs mc _ Hfe2 _ _ _ _ _ _ _ _ _ _]; rewrite Hfe2; discriminate).
    (* parents *)
    assert (Hk : current_multiclass_id st <> None \/ current_defm_id st <> None).
    { left. destruct (MB_current _ _ _ _ Rb1) as [_ X]. rewrite X. discriminate. }
    pose proof (parents_mc_sim n ps f e2 st Hfp P2 T2 I2 Hk HR2 Hbp) as S2.
    pose proof (ResB_of_StepM f e2 st _ _ S2 P2 T2 F2 I2) as R2. pose proof R2 as [U2 N2 _ P3 T3 _ I3].
    (* body statements *)
    pose proof (stmtsB_sim files n IH b f e2 (snd (index_parents n ps st)) Hfb P3 T3 F2 I3) as R3.
    rewrite Eb in R3. simpl in R3. specialize (R3 HR3 Hb'). destruct R3 as [U3 N3 _ P4 T4 F4 I4].
    set (s4 := snd (iterM (index_stmt files n) b (snd (index_parents n ps st)))) in *.
    assert (Ebody : snd (body (pushed (KMulticlass mid) s1)) = s4) by reflexivity.
    destruct (grows_mc_body files n (fun l => grows_iterM _ _ _ l (fun x _ => grows_index_stmt files n x)) targs ps b
                            (pushed (KMulticlass mid) s1)) as [vs Hvs].
    fold body in Hvs.
    rewrite <- Efin. unfold final.
    eapply (FIN e3 (leave e0 e3) s s4 (ev1 ++ flat_map (spec_mcref f e2) ps ++ ev3)); auto.
    - apply same_globals_equiv, same_globals_leave.
    - now apply Pre2_g.
    - change (same_but_scopes final s4). rewrite Efin.
      rewrite (scoped_final _ (KMulticlass mid) body s1 vs Hvs). rewrite Ebody. apply sbs_set_scopes.
    - rewrite U3, U2, U1. simpl. rewrite Hu, !rev_app_distr, !app_assoc. reflexivity.
    - rewrite N3, N2, N1. unfold nf, pushed; simpl. fold (nf s1). exact Hn.
  Qed.
End CasesB9.

(** ---------------------------------------------------------------------------------------------
    all statements of fragment B *)
Theorem statements_agree : forall files n, sim_B files n.
Proof.
  intros files n. induction n as [|n IH].
  - intros x f e s Hf P T He HI HR Hb. simpl in Hb. discriminate.
  - intros x f e s Hf P T He HI HR Hb. destruct x; simpl in Hf; try discriminate.
    + (* assert *) apply andb_true_iff in Hf. destruct Hf as [Hfc Hfm].
      change (spec_stmt f e (SAssert c m)) with (spec_value f e m ++ spec_value f e c, e) in *.
      apply caseB_assert; auto.
    + (* class *)
      apply andb_true_iff in Hf. destruct Hf as [Hf Hfb]. apply andb_true_iff in Hf. destruct Hf as [Hft Hfp].
      apply caseB_class; auto.
    + (* def *)
      apply andb_true_iff in Hf. destruct Hf as [Hf Hfb]. apply andb_true_iff in Hf. destruct Hf as [Hfn Hfp].
      apply caseB_def; auto.
    + (* defm *) apply andb_true_iff in Hf. destruct Hf as [Hfn Hfp]. apply caseB_defm; auto.
    + (* defset *) apply (caseB_defset files n IH); auto; try (now apply fragB_of_local).
    + (* defvar *)
      change (spec_stmt f e (SDefvar i v)) with
        (spec_value f e v, tset_var (add_var e (i_name i) (at_file f (i_rng i))) (i_name i) (sty_value e v)) in *.
      apply caseB_defvar; auto.
    + (* dump *) change (spec_stmt f e (SDump v)) with (spec_value f e v, e) in *. apply caseB_dump; auto.
    + (* foreach *) apply andb_true_iff in Hf. destruct Hf as [Hfi Hfb].
      apply (caseB_foreach files n IH); auto; try (now apply fragB_of_local).
    + (* if *) apply andb_true_iff in Hf. destruct Hf as [Hf Hfe]. apply andb_true_iff in Hf. destruct Hf as [Hfc Hft].
      apply (caseB_if files n IH); auto; try (now apply fragB_of_local);
        try (destruct el; [now apply fragB_of_local|reflexivity]).
    + (* let *) apply andb_true_iff in Hf. destruct Hf as [Hfv Hfb].
      apply (caseB_let files n IH); auto; try (now apply fragB_of_local).
    + (* multiclass *)
      apply andb_true_iff in Hf. destruct Hf as [Hf Hfb]. apply andb_true_iff in Hf. destruct Hf as [Hft Hfp].
      apply (caseB_multiclass files n IH); auto; try (now apply fragB_of_local).
Qed.

(** C05_resolution for one file of the fragment (all statements, parent classes, FIELD ACCESS included; no
    include): the model's log of resolved uses is exactly the specification's list *)
Theorem file_resolution : forall files n l,
    fragB_stmts l = true ->
    forallb resolved (fst (spec_stmts 0 env0 l)) = true ->
    s_bad (snd (iterM (index_stmt files n) l st0)) = false ->
    rev (s_uses (snd (iterM (index_stmt files n) l st0))) = fst (spec_stmts 0 env0 l) /\
    nf (snd (iterM (index_stmt files n) l st0)) = [].
Proof.
  intros files n l Hf HR Hb.
  assert (T0 : Stat st0).
  { split; [reflexivity| |discriminate]. intros c mid [<-|[]] Hk. discriminate. }
  destruct (stmtsB_sim files n (statements_agree files n) l 0 env0 st0 Hf Pre2_initial T0) as [U N _ _ _ _ _]; auto;
    try discriminate; try apply Inh_initial.
  split.
  - rewrite U. simpl. rewrite app_nil_r. apply rev_involutive.
  - rewrite N. reflexivity.
Qed.
