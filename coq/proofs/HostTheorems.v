(** The session-level theorems behind props/C16.v, props/C07.v and props/C12.v.
    Everything is stated for an arbitrary path algebra with a decidable equality, an arbitrary world
    (disk : path -> option content, any function; $INCLUDE_DIR list), an arbitrary session state
    satisfying the invariant [hinv] (every state reached by a history does: [run_hinv]). *)
From Coq Require Import List NArith Bool Lia Arith.
From TG.Model Require Import Includes Host HostInst.
From TG.Proofs Require Import IncludesGraph IncludesRefine HostIndex IncludesLinks HostHistory.
Import ListNotations.
Local Open Scope nat_scope.

Section Theorems.
Context {path istr : Type} {PA : PathAlg path istr} {PAok : PathAlgOk path istr}.
Notation content := (content istr).
Notation item := (item istr).
Notation world := (world path istr).
Notation fsys := (@fsys path istr).
Notation inputs := (@inputs path istr).
Notation entry := (@entry path istr).
Notation state := (@state path istr).

(** the effective file system of a touch: the Vfs once the new text is registered *)
Definition eff (w : world) (st : state) (p : path) (c : content) : path -> option content :=
  read w (set_open (fst st) p c).

Lemma eff_root : forall w st p c, eff w st p c p = Some c.
Proof.
  intros w st p c. unfold eff, read. cbn [set_open opened assoc]. rewrite path_eqb_refl. reflexivity.
Qed.

(** every state of a session satisfies the invariant *)
Theorem session_hinv : forall w fuel h st, run fuel w st_init h = Done st -> hinv w st.
Proof. intros w fuel h st H. exact (proj1 (run_hinv w fuel h st_init st (hinv_init w) H)). Qed.

(** ** C16: termination *)
Theorem touch_terminates : forall w st p c R fuel,
  hinv w st ->
  (forall q, reach (eff w st p c) (extra w) p q -> In q R) ->
  (forall q, reach (eff w st p c) (extra w) p q -> parent q <> None) ->
  fuel_bound (eff w st p c) (extra w) R <= fuel ->
  exists st', touch fuel w st p c = Done st'.
Proof.
  intros w [fs db] p c R fuel H HR HP Hf.
  assert (Hr : eff w (fs, db) p c p <> None) by (rewrite eff_root; discriminate).
  destruct (pcollect_terminates (eff w (fs, db) p c) (extra w) p R fuel Hr HR HP Hf) as [V HV].
  pose proof (touch_spec w fuel fs db p c H) as S. unfold eff in HV. cbn [fst] in HV.
  destruct (touch fuel w (fs, db) p c) as [st'| |e].
  - exists st'. reflexivity.
  - congruence.
  - congruence.
Qed.

(** ** C16: the workspace is exactly the reachable set *)
Lemma erel_paths : forall (fs : fsys) (db : inputs) fset V,
  Forall2 (erel fs db) fset V -> map snd fset = map e_path V.
Proof.
  intros fs db fset V H. induction H as [|x e fset V [A _] _ IH]; [reflexivity|].
  cbn [map]. rewrite A, IH. reflexivity.
Qed.

Lemma erel_ids_nodup : forall (fs : fsys) (db : inputs) fset V,
  Forall2 (erel fs db) fset V -> NoDup (map snd fset) -> NoDup (map fst fset).
Proof.
  intros fs db fset V H. induction H as [|x e fset V [A [B _]] F IH]; intro ND; [constructor|].
  cbn [map] in *. inversion ND as [|? ? Hn ND']; subst. constructor; [|apply IH; exact ND'].
  intro Hi. apply Hn. apply in_map_iff in Hi. destruct Hi as [y [Ey Hy]].
  destruct (Forall2_in_l _ _ _ _ _ F y Hy) as [e' [_ [A' [B' _]]]].
  rewrite Ey in B'. apply in_map_iff. exists y. split; [congruence|exact Hy].
Qed.

Lemma erel_pof : forall (fs : fsys) (db : inputs) fset V f q,
  Forall2 (erel fs db) fset V -> In (f, q) fset -> path_for_file fs f = Some q.
Proof.
  intros fs db fset V f q F Hi. destruct (Forall2_in_l _ _ _ _ _ F (f, q) Hi) as [e [_ [_ [B _]]]].
  exact B.
Qed.

Theorem touch_reach : forall w fuel st p c st',
  hinv w st -> touch fuel w st p c = Done st' ->
  exists fset root,
    sroot (snd st') = Some (fset, root) /\
    path_for_file (fst st') root = Some p /\
    NoDup (map snd fset) /\ NoDup (map fst fset) /\
    (forall f q, In (f, q) fset -> path_for_file (fst st') f = Some q) /\
    (forall q, In q (map snd fset) <-> reach (eff w st p c) (extra w) p q).
Proof.
  intros w fuel st p c st' H E.
  destruct (touch_done w fuel st p c st' H E) as [V [HV [fset [root [S [R [F _]]]]]]].
  assert (Hr : eff w st p c p <> None) by (rewrite eff_root; discriminate).
  destruct (pcollect_reach (eff w st p c) (extra w) p fuel V Hr HV) as [Hreach [ND _]].
  exists fset, root. split; [exact S|]. split; [exact R|].
  rewrite (erel_paths _ _ _ _ F).
  split; [exact ND|]. split; [eapply erel_ids_nodup; [exact F|rewrite (erel_paths _ _ _ _ F); exact ND]|].
  split; [intros f q Hi; eapply erel_pof; eauto|exact Hreach].
Qed.

(** every file of the workspace, with what the database holds for it *)
Lemma workspace_entry : forall w fuel st p c st' fset root f q,
  hinv w st -> touch fuel w st p c = Done st' ->
  sroot (snd st') = Some (fset, root) -> In (f, q) fset ->
  exists c0 d lid,
    eff w st p c q = Some c0 /\ parent q = Some d /\
    path_for_file (fst st') f = Some q /\
    fc (snd st') f = Some c0 /\ rim (snd st') f = Some lid /\
    Forall2 (lrel (fst st')) lid
            (presolve_all (eff w st p c) (d :: extra w) (list_includes (c_items c0))) /\
    reach (eff w st p c) (extra w) p q.
Proof.
  intros w fuel st p c st' fset root f q H E S Hi.
  destruct (touch_done w fuel st p c st' H E) as [V [HV [fset' [root' [S' [R [F _]]]]]]].
  rewrite S in S'. injection S' as <- <-.
  assert (Hr : eff w st p c p <> None) by (rewrite eff_root; discriminate).
  destruct (pcollect_reach (eff w st p c) (extra w) p fuel V Hr HV) as [Hreach [_ Hok]].
  destruct (Forall2_in_l _ _ _ _ _ F (f, q) Hi) as [e [He [A [B [C [lid [D L]]]]]]].
  cbn [fst snd] in A, B, C, D.
  rewrite Forall_forall in Hok. destruct (Hok e He) as [K1 [d [K2 K3]]].
  exists (e_content e), d, lid. rewrite A.
  split; [exact K1|]. split; [exact K2|]. split; [rewrite <- A; exact B|]. split; [exact C|].
  split; [exact D|]. split; [rewrite <- K3; exact L|].
  apply Hreach. apply in_map. exact He.
Qed.

(** ** C16: document links *)
Theorem touch_links : forall w fuel st p c st' fset root f q,
  hinv w st -> touch fuel w st p c = Done st' ->
  sroot (snd st') = Some (fset, root) -> In (f, q) fset ->
  exists c0 d,
    eff w st p c q = Some c0 /\ parent q = Some d /\ fc (snd st') f = Some c0 /\
    (NoDup (inc_sids (c_items c0)) ->
     exists l, document_link (snd st') f = Done l /\
       Forall2 (lrel (fst st')) l (spec_links (eff w st p c) (d :: extra w) (c_items c0))).
Proof.
  intros w fuel st p c st' fset root f q H E S Hi.
  destruct (workspace_entry w fuel st p c st' fset root f q H E S Hi)
    as [c0 [d [lid [K1 [K2 [K3 [K4 [K5 [K6 K7]]]]]]]]].
  exists c0, d. split; [exact K1|]. split; [exact K2|]. split; [exact K4|].
  intro ND. exists (links_of lid (c_items c0)). split.
  - unfold document_link. rewrite K5, K4. reflexivity.
  - apply links_spec; assumption.
Qed.

(** ** C16: not-found diagnostics and single indexing *)
Theorem touch_index : forall w fuel st p c st' fset root fuel' tr,
  hinv w st -> touch fuel w st p c = Done st' ->
  sroot (snd st') = Some (fset, root) ->
  index fuel' (snd st') = Done tr ->
  NoDup (files_of tr) /\
  forall f q, In (f, q) fset ->
    exists c0 d,
      eff w st p c q = Some c0 /\ parent q = Some d /\
      (In f (files_of tr) ->
         outline_of f tr = decls (c_items c0) /\
         (NoDup (inc_sids (c_items c0)) ->
          notfound_of f tr = spec_notfound (eff w st p c) (d :: extra w) (c_items c0))) /\
      (~ In f (files_of tr) -> outline_of f tr = [] /\ notfound_of f tr = []).
Proof.
  intros w fuel st p c st' fset root fuel' tr H E S Hx.
  destruct (index_char (snd st') fuel' tr Hx) as [ND [Hin Hout]].
  split; [exact ND|]. intros f q Hi.
  destruct (workspace_entry w fuel st p c st' fset root f q H E S Hi)
    as [c0 [d [lid [K1 [K2 [K3 [K4 [K5 [K6 K7]]]]]]]]].
  exists c0, d. split; [exact K1|]. split; [exact K2|]. split.
  - intro Hf. destruct (Hin f Hf) as [_ [Hn Ho]].
    unfold items_of in Hn, Ho. unfold map_of in Hn. rewrite K4 in Hn, Ho. rewrite K5 in Hn.
    split; [exact Ho|]. intro NDs. rewrite Hn. eapply nf_spec_spec; eauto.
  - intro Hf. destruct (Hout f Hf) as [_ [Hn Ho]]. split; assumption.
Qed.

Lemma im_get_in : forall sid (m : list (rng * N)) g, im_get sid m = Some g -> In g (map snd m).
Proof.
  intros sid. induction m as [|[s t] r IH]; intros g H; [discriminate|]. cbn [im_get] in H.
  cbn [map snd]. destruct (im_get sid r) as [g'|].
  - right. apply IH. exact H.
  - destruct (rng_eqb s sid); [injection H as <-; left; reflexivity|discriminate].
Qed.

Theorem touch_index_terminates : forall w fuel st p c st' fset root fuel',
  hinv w st -> touch fuel w st p c = Done st' ->
  sroot (snd st') = Some (fset, root) ->
  length fset < fuel' ->
  exists tr, index fuel' (snd st') = Done tr.
Proof.
  intros w fuel st p c st' fset root fuel' H E S Hf.
  destruct (touch_reach w fuel st p c st' H E) as [fset' [root' [S' [R [ND [NDi [Hp Hreach]]]]]]].
  rewrite S in S'. injection S' as <- <-.
  assert (Hwf : wf_fs (fst st')).
  { destruct (touch_done w fuel st p c st' H E) as [V [_ [a [b [_ [_ [_ [[W _] _]]]]]]]]. exact W. }
  assert (Hid : forall t g, path_for_file (fst st') g = Some t ->
                            reach (eff w st p c) (extra w) p t -> In g (map fst fset)).
  { intros t g Hg Ht. apply Hreach in Ht. apply in_map_iff in Ht. destruct Ht as [[g' t'] [Et Hi]].
    cbn [snd] in Et. subst t'. pose proof (Hp g' t Hi) as Hg'.
    assert (g = g') by (eapply pof_inj; eauto). subst g'.
    change g with (fst (g, t)). apply in_map. exact Hi. }
  apply (index_terminates (snd st') (map fst fset) fset root fuel' S).
  - apply (Hid p root R). constructor.
  - intros f Hfi. apply in_map_iff in Hfi. destruct Hfi as [[f' q] [Ef Hi]]. cbn [fst] in Ef. subst f'.
    destruct (workspace_entry w fuel st p c st' fset root f q H E S Hi)
      as [c0 [d [lid [K1 [K2 [K3 [K4 [K5 [K6 K7]]]]]]]]].
    split; [rewrite K4; discriminate|]. exists lid. split; [exact K5|].
    intros sid g Hg. apply im_get_in in Hg. apply in_map_iff in Hg. destruct Hg as [[sid' g'] [Eg Hgi]].
    cbn [snd] in Eg. subst g'.
    destruct (Forall2_in_l _ _ _ _ _ K6 (sid', g) Hgi) as [[sid2 t] [Ht [_ Hgt]]]. cbn [snd] in Hgt.
    apply (Hid t g Hgt). apply reach_step with (p := q) (sid := sid2); [exact K7|].
    unfold succs, dirs_of. rewrite K1, K2. exact Ht.
  - rewrite map_length. exact Hf.
Qed.

(** ** C16: when every include statement of the workspace is reached (well-formed enclosing
    statements), the indexer enters EVERY workspace file: together with [touch_index], every include
    statement of the workspace that does not resolve has its not-found diagnostic *)
Definition all_reached (its : list item) : Prop :=
  forall sid reached tgt, In (IInc sid reached tgt) its -> reached = true.

Theorem touch_all_entered : forall w fuel st p c st' fset root fuel' tr,
  hinv w st -> touch fuel w st p c = Done st' ->
  sroot (snd st') = Some (fset, root) ->
  index fuel' (snd st') = Done tr ->
  (forall q c0, reach (eff w st p c) (extra w) p q -> eff w st p c q = Some c0 ->
                NoDup (inc_sids (c_items c0)) /\ all_reached (c_items c0)) ->
  forall f q, In (f, q) fset -> In f (files_of tr).
Proof.
  intros w fuel st p c st' fset root fuel' tr H E S Hx Hwf.
  destruct (touch_reach w fuel st p c st' H E) as [fset' [root' [S' [R [ND [NDi [Hp Hreach]]]]]]].
  rewrite S in S'. injection S' as <- <-.
  assert (Hwfs : wf_fs (fst st')).
  { destruct (touch_done w fuel st p c st' H E) as [V [_ [a [b [_ [_ [_ [[W _] _]]]]]]]]. exact W. }
  destruct (index_closed (snd st') fuel' fset root tr S Hx) as [Hroot Hclosed].
  assert (G : forall q, reach (eff w st p c) (extra w) p q ->
                forall f, path_for_file (fst st') f = Some q -> In f (files_of tr)).
  { intros q Hq. induction Hq as [|q1 sid q Hq1 IH Hs]; intros f Hf.
    - assert (f = root) by (eapply pof_inj; eauto). subst f. exact Hroot.
    - pose proof Hq1 as Hin. apply Hreach in Hin. apply in_map_iff in Hin.
      destruct Hin as [[f1 q1'] [Eq Hi1]]. cbn [snd] in Eq. subst q1'.
      destruct (workspace_entry w fuel st p c st' fset root f1 q1 H E S Hi1)
        as [c0 [d [lid [K1 [K2 [K3 [K4 [K5 [K6 K7]]]]]]]]].
      destruct (Hwf q1 c0 Hq1 K1) as [NDs Hall].
      unfold succs, dirs_of in Hs. rewrite K1, K2 in Hs.
      destruct (presolve_all_in _ _ _ _ _ Hs) as [s [Hinc Hres]].
      destruct (list_includes_in _ _ _ Hinc) as [reached [lr Hitem]].
      pose proof (Hall _ _ _ Hitem) as ->.
      pose proof (lookup_id (eff w st p c) (fst st') (d :: extra w) (c_items c0) lid NDs K6
                            sid true (Some (s, lr)) Hitem) as L.
      cbn [resolves] in L. rewrite Hres in L.
      destruct (im_get sid lid) as [t|] eqn:Et; [|contradiction].
      assert (f = t) by (eapply pof_inj; eauto). subst t.
      pose proof (Hclosed f1 (IH f1 K3)) as Hc.
      apply (Hc sid (Some (s, lr)) f).
      + unfold items_of. rewrite K4. exact Hitem.
      + unfold map_of. rewrite K5. exact Et. }
  intros f q Hi. apply (G q).
  - apply Hreach. change q with (snd (f, q)). apply in_map. exact Hi.
  - apply Hp. exact Hi.
Qed.

End Theorems.

(** ** C07: the inputs after a history = the inputs of a fresh host given the final texts *)
Section C07.
Context {path istr : Type} {PA : PathAlg path istr} {PAok : PathAlgOk path istr}.
Notation content := (content istr).
Notation world := (world path istr).

(** the final file contents: the disk overlaid by the last text of every touched path *)
Definition overlay (w : world) (h : list (path * content)) : world :=
  {| disk := truth w h; extra := extra w |}.

Theorem history_independent : forall (w : world) h p c fuel1 fuel2 st1 st2,
  run fuel1 w st_init (h ++ [(p, c)]) = Done st1 ->
  run fuel2 (overlay w (h ++ [(p, c)])) st_init [(p, c)] = Done st2 ->
  view st1 = view st2 /\
  exists V, view st1 = Some (p, V) /\
            pcollect (truth w (h ++ [(p, c)])) (extra w) fuel1 [p] [] = Done V.
Proof.
  intros w h p c fuel1 fuel2 st1 st2 E1 E2.
  destruct (run_view w fuel1 h p c st1 E1) as [s1 [V1 [_ [_ [HV1 [Hv1 _]]]]]].
  destruct (run_view (overlay w (h ++ [(p, c)])) fuel2 [] p c st2 E2) as [s2 [V2 [_ [_ [HV2 [Hv2 _]]]]]].
  cbn [overlay extra app] in HV2.
  assert (Ext : forall q, truth (overlay w (h ++ [(p, c)])) [(p, c)] q = truth w (h ++ [(p, c)]) q).
  { intro q. unfold truth at 1. unfold last_text. cbn [rev app assoc overlay disk].
    destruct (path_eqb p q) eqn:Epq; [|reflexivity].
    apply path_eqb_ok in Epq. subst q. unfold truth, last_text.
    rewrite rev_app_distr. cbn [rev app assoc]. rewrite path_eqb_refl. reflexivity. }
  rewrite (pcollect_ext _ _ Ext) in HV2.
  assert (V1 = V2) by (eapply pcollect_det; eauto). subst V2.
  split; [congruence|]. exists V1. split; assumption.
Qed.

(** ** C12: the database holds the editor's text for opened documents, the disk text otherwise *)
Theorem buffers_win : forall (w : world) fuel h st,
  run fuel w st_init h = Done st ->
  (forall f c, fc (snd st) f = Some c ->
     exists q, path_for_file (fst st) f = Some q /\ truth w h q = Some c) /\
  (forall q c, last_text h q = Some c ->
     exists f, path_for_file (fst st) f = Some q /\ fc (snd st) f = Some c) /\
  (forall fset root f q, sroot (snd st) = Some (fset, root) -> In (f, q) fset ->
     path_for_file (fst st) f = Some q /\ fc (snd st) f = truth w h q /\ fc (snd st) f <> None).
Proof.
  intros w fuel h st E.
  destruct (run_hinv w fuel h st_init st (hinv_init w) E) as [[W [T K]] O].
  cbn [st_init fst fs_init opened] in O. rewrite app_nil_r in O.
  assert (A : forall f c, fc (snd st) f = Some c ->
                exists q, path_for_file (fst st) f = Some q /\ truth w h q = Some c).
  { intros f c Hf. destruct (T f c Hf) as [q [Hq Hr]]. exists q. split; [exact Hq|].
    rewrite <- Hr. unfold truth, last_text, rd. rewrite O. reflexivity. }
  split; [exact A|]. split.
  - intros q c Hq. unfold last_text in Hq. rewrite <- O in Hq.
    destruct (K q c Hq) as [f [Hf Hc]]. exists f. split; [exact Hf|].
    destruct (fc (snd st) f) as [c'|] eqn:Ec; [|congruence].
    destruct (A f c' Ec) as [q' [Hq' Ht]]. assert (q' = q) by congruence. subst q'.
    unfold truth, last_text in Ht. rewrite <- O, Hq in Ht. congruence.
  - intros fset root f q S Hi.
    destruct (rev h) as [|[p c] rh] eqn:Erh.
    + assert (h = []) by (rewrite <- (rev_involutive h), Erh; reflexivity). subst h.
      cbn [run] in E. injection E as <-. discriminate.
    + assert (Hh : h = rev rh ++ [(p, c)]) by (rewrite <- (rev_involutive h), Erh; reflexivity).
      rewrite Hh in E.
      destruct (run_view w fuel (rev rh) p c st E) as [s1 [V [_ [_ [_ [_ [[fset' [root' [S' [_ [F _]]]]] _]]]]]]].
      rewrite S in S'. injection S' as <- <-.
      destruct (Forall2_in_l _ _ _ _ _ F (f, q) Hi) as [e [_ [_ [B [C _]]]]]. cbn [fst snd] in B, C.
      split; [exact B|].
      destruct (A f _ C) as [q' [Hq' Ht]]. assert (q' = q) by congruence. subst q'.
      rewrite C. split; [symmetry; exact Ht|discriminate].
Qed.

End C07.

(** ** the same theorems with "a state of a session" spelled out *)
Section Session.
Context {path istr : Type} {PA : PathAlg path istr} {PAok : PathAlgOk path istr}.
Notation content := (content istr).
Notation world := (world path istr).
Notation state := (@state path istr).

Theorem session_terminates : forall (w : world) fuel0 h (st : state) p c R fuel,
  run fuel0 w st_init h = Done st ->
  (forall q, reach (eff w st p c) (extra w) p q -> In q R) ->
  (forall q, reach (eff w st p c) (extra w) p q -> parent q <> None) ->
  fuel_bound (eff w st p c) (extra w) R <= fuel ->
  exists st', touch fuel w st p c = Done st'.
Proof. intros. eapply touch_terminates; eauto using session_hinv. Qed.

Theorem session_fuel_bound : forall (rd : path -> option content) extra R D,
  (forall q, In q R -> length (succs rd extra q) <= D) ->
  fuel_bound rd extra R <= 1 + length R * (1 + D).
Proof. intros. apply fuel_bound_le. assumption. Qed.

Theorem session_reach : forall (w : world) fuel0 h (st : state) fuel p c st',
  run fuel0 w st_init h = Done st ->
  touch fuel w st p c = Done st' ->
  exists fset root,
    sroot (snd st') = Some (fset, root) /\
    path_for_file (fst st') root = Some p /\
    NoDup (map snd fset) /\ NoDup (map fst fset) /\
    (forall f q, In (f, q) fset -> path_for_file (fst st') f = Some q) /\
    (forall q, In q (map snd fset) <-> reach (eff w st p c) (extra w) p q).
Proof. intros. eapply touch_reach; eauto using session_hinv. Qed.

Theorem session_links : forall (w : world) fuel0 h (st : state) fuel p c st' fset root f q,
  run fuel0 w st_init h = Done st ->
  touch fuel w st p c = Done st' ->
  sroot (snd st') = Some (fset, root) -> In (f, q) fset ->
  exists c0 d,
    eff w st p c q = Some c0 /\ parent q = Some d /\ fc (snd st') f = Some c0 /\
    (NoDup (inc_sids (c_items c0)) ->
     exists l, document_link (snd st') f = Done l /\
       Forall2 (fun a b => fst a = fst b /\ path_for_file (fst st') (snd a) = Some (snd b))
               l (spec_links (eff w st p c) (d :: extra w) (c_items c0))).
Proof. intros. eapply touch_links; eauto using session_hinv. Qed.

Theorem session_notfound : forall (w : world) fuel0 h (st : state) fuel p c st' fset root fuel' tr f q,
  run fuel0 w st_init h = Done st ->
  touch fuel w st p c = Done st' ->
  sroot (snd st') = Some (fset, root) ->
  index fuel' (snd st') = Done tr ->
  In (f, q) fset ->
  exists c0 d,
    eff w st p c q = Some c0 /\ parent q = Some d /\
    (In f (files_of tr) -> NoDup (inc_sids (c_items c0)) ->
       notfound_of f tr = spec_notfound (eff w st p c) (d :: extra w) (c_items c0)) /\
    (~ In f (files_of tr) -> notfound_of f tr = []).
Proof.
  intros w fuel0 h st fuel p c st' fset root fuel' tr f q Hs Ht S Hx Hi.
  destruct (touch_index w fuel st p c st' fset root fuel' tr (session_hinv _ _ _ _ Hs) Ht S Hx) as [_ K].
  destruct (K f q Hi) as [c0 [d [A [B [C D]]]]]. exists c0, d.
  split; [exact A|]. split; [exact B|]. split.
  - intros Hf ND. exact (proj2 (C Hf) ND).
  - intro Hf. exact (proj2 (D Hf)).
Qed.

Theorem session_once : forall (db : @inputs path istr) fuel tr,
  index fuel db = Done tr ->
  NoDup (files_of tr) /\
  forall g, (In g (files_of tr) -> outline_of g tr = decls (items_of db g)) /\
            (~ In g (files_of tr) -> outline_of g tr = []).
Proof.
  intros db fuel tr H. destruct (index_char db fuel tr H) as [ND [A B]]. split; [exact ND|].
  intro g. split; intro Hg.
  - exact (proj2 (proj2 (A g Hg))).
  - exact (proj2 (proj2 (B g Hg))).
Qed.

Theorem session_index_terminates : forall (w : world) fuel0 h (st : state) fuel p c st' fset root fuel',
  run fuel0 w st_init h = Done st ->
  touch fuel w st p c = Done st' ->
  sroot (snd st') = Some (fset, root) ->
  length fset < fuel' ->
  exists tr, index fuel' (snd st') = Done tr.
Proof. intros. eapply touch_index_terminates; eauto using session_hinv. Qed.

Theorem session_all_entered : forall (w : world) fuel0 h (st : state) fuel p c st' fset root fuel' tr,
  run fuel0 w st_init h = Done st ->
  touch fuel w st p c = Done st' ->
  sroot (snd st') = Some (fset, root) ->
  index fuel' (snd st') = Done tr ->
  (forall q c0, reach (eff w st p c) (extra w) p q -> eff w st p c q = Some c0 ->
                NoDup (inc_sids (c_items c0)) /\ all_reached (c_items c0)) ->
  forall f q, In (f, q) fset -> In f (files_of tr).
Proof. intros. eapply touch_all_entered; eauto using session_hinv. Qed.

(** closure criterion used by the examples: a list that contains the root and is closed under
    [succs] covers the reachable set *)
Lemma reach_closed : forall (rd : path -> option content) extra root R,
  In root R ->
  (forall p sid q, In p R -> In (sid, q) (succs rd extra p) -> In q R) ->
  forall q, reach rd extra root q -> In q R.
Proof.
  intros rd extra root R Hr Hc q H. induction H as [|p sid q Hp IH Hs]; [exact Hr|].
  eapply Hc; eauto.
Qed.

End Session.

(** ** the executable instance satisfies the requirement on paths *)
Lemma lN_eqb_ok : forall a b, lN_eqb a b = true <-> a = b.
Proof.
  induction a as [|x a IH]; destruct b as [|y b]; cbn [lN_eqb]; split; intro H;
    try reflexivity; try discriminate.
  - apply andb_true_iff in H. destruct H as [H1 H2]. apply N.eqb_eq in H1. apply IH in H2. congruence.
  - injection H as -> ->. apply andb_true_iff. split; [apply N.eqb_refl|apply IH; reflexivity].
Qed.

Global Instance SegPathOk : PathAlgOk spath spath := {| path_eqb_ok := lN_eqb_ok |}.
