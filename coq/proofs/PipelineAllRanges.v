(** Totality and range validity of the complete analysis (model/PipelineAll.v), composed from the theorems of the
    groups that own the parts:
      IndexerTotalPipeline.analyze_total (bridge / C03)      the pipeline answers, the indexer model does not panic
      OutlineTotalProofs.oix_total (b-outline)               the outline slice of the indexer does not panic
      IndexerSim.c03_symbol_map_total_core (b-symmap)        the symbol-map readers do not panic on abs (index_ws w)
      IndexerPipeline.c17_pipeline_core, PipelineDiagnostics.c17_pipeline_diagnostics,
      SymbolRangesTree.c17_parse_ranges_valid (b-symmap)     every range is valid in the texts of the analysis
    through PipelineAllProofs.full_state_conservative. *)
From Coq Require Import List NArith Bool Lia.
From TG.Gen Require Import GenTokens GenGrammar.
From TG.Model Require Import Chars Tree ParserPrims GInterp CoreAst AstToCore Scope Indexer Pipeline PipelineAll.
From TG.Model Require SymbolMap SymbolWf IndexerOps OutlineIndex Folding.
From TG.Proofs Require Import PipelineProofs BridgeSymbol PipelineAllProofs.
From TG.Proofs Require IndexerTotalPipeline OutlineTotalProofs IndexerSim IndexerPipeline PipelineDiagnostics SymbolRangesTree.
Import ListNotations.
Open Scope N_scope.

(** ---- totality *)
Theorem analyze_all_total : forall (files : list (text * text)) (root : text),
  components root <> [] -> Forall (fun pt => components (fst pt) <> []) files ->
  exists pfuel cfuel a,
    analyze pfuel cfuel files root = Some a /\
    Forall (fun fp => exists t es st, pf_out (snd fp) = ParseOk t es st) (an_files a) /\
    an_core a <> Fuel /\
    (forall w, an_core a = Ok w ->
       exists A, analyze_all pfuel cfuel files root = Some A /\ aa_an A = a /\ aa_ws A = w /\
         s_bad (aa_st A) = false /\
         OutlineIndex.oi_bad (OutlineIndex.oix w) = false /\
         (forall f p, exists o, q_goto_sm A f p = SM.SOk o) /\
         (forall f p, exists o, q_references_sm A f p = SM.SOk o) /\
         (forall loc, exists o, SM.iter_symbols_in_range (aa_sm A) loc = SM.SOk o)).
Proof.
  intros files root Hr Hf. destruct (IndexerTotalPipeline.analyze_total files root Hr Hf) as (pfuel & cfuel & a & HA & HP & HN & HB).
  exists pfuel, cfuel, a. split; [exact HA|]. split; [exact HP|]. split; [exact HN|].
  intros w HC. destruct (analyze_all_some _ _ _ _ _ _ HA HC) as (A & HAll & E1 & E2 & E3 & _).
  exists A. split; [exact HAll|]. split; [exact E1|]. split; [exact E2|].
  split; [rewrite E3; exact (HB w HC)|]. split; [apply OutlineTotalProofs.oix_total|].
  destruct (q_sm_is_abs _ _ _ _ _ HAll) as (G1 & G2 & G3 & _). rewrite E2 in G1, G2, G3.
  destruct (IndexerSim.c03_symbol_map_total_core w) as (_ & T1 & T2 & T3 & _).
  split; [intros f p; rewrite G1; apply T1|]. split; [intros f p; rewrite G2; apply T2|].
  intros loc. rewrite G3. apply T3.
Qed.

(** ---- range validity *)
Lemma perrs_of_core : forall pfuel cfuel files root a w,
  analyze pfuel cfuel files root = Some a -> an_core a = Ok w ->
  forall f lo hi m, In (f, lo, hi, m) (an_perrs a) -> In (mkR f lo hi) (ws_perrs w).
Proof.
  intros pfuel cfuel files root a w A E f lo hi m Hin.
  destruct (analyze_assemble _ _ _ _ _ A) as (ids & dl & wsf & -> & _ & _).
  unfold assemble in *. cbn [an_core an_perrs] in *.
  destruct (firstErr (map (core_of_pfile ids dl) (number_from 0 wsf))) as [fl|e|]; try discriminate.
  inversion E; subst w. cbn [ws_perrs]. apply in_map_iff. exists (f, lo, hi, m). split; [reflexivity|exact Hin].
Qed.

Lemma nth_numbered_map {A B} : forall (g : N * A -> B) (l : list A) f y,
  nth_error (map g (number_from 0 l)) (N.to_nat f) = Some y ->
  exists x, nth_error l (N.to_nat f) = Some x /\ y = g (f, x).
Proof.
  intros g l f y H. rewrite nth_error_map, number_from_nth in H.
  destruct (nth_error l (N.to_nat f)) as [x|]; [|discriminate]. cbn in H. rewrite Nnat.N2Nat.id in H.
  exists x. split; [reflexivity|]. inversion H. reflexivity.
Qed.

Theorem analyze_all_ranges_valid : forall pfuel cfuel files root A,
  analyze_all pfuel cfuel files root = Some A ->
  let ws := an_texts (aa_an A) in
  (* definition, references, the symbols of a range: the symbol-map readers on the joined state *)
  (forall f p t, q_goto_sm A f p = SM.SOk (Some t) -> SymbolWf.range_valid ws t = true) /\
  (forall f p rs r, q_references_sm A f p = SM.SOk (Some rs) -> In r rs -> SymbolWf.range_valid ws r = true) /\
  (forall loc l r s, SM.iter_symbols_in_range (aa_sm A) loc = SM.SOk (Some l) -> In (r, s) l -> SymbolWf.range_valid ws r = true) /\
  (* every diagnostic of every file, syntax errors and index diagnostics *)
  (forall f l lo hi m, q_diagnostics A f = Some l -> In (lo, hi, m) l -> SymbolWf.range_valid ws (SM.mkFR f lo hi) = true) /\
  (* every folding range *)
  (forall f l r, q_folding A f = Some l -> In r l -> SymbolWf.range_valid ws (SM.mkFR f (fst r) (snd r)) = true).
Proof.
  intros pfuel cfuel files root A H ws.
  destruct (analyze_all_inv _ _ _ _ _ H) as (HA & HC & ES & _ & ET & ED).
  destruct (q_sm_is_abs _ _ _ _ _ H) as (G1 & G2 & G3 & _).
  destruct (IndexerPipeline.c17_pipeline_core _ _ _ _ _ _ HA HC) as (R1 & R2 & R3 & _ & _).
  split; [intros f p t Q; rewrite G1 in Q; exact (R1 f p t Q)|].
  split; [intros f p rs r Q Hin; rewrite G2 in Q; exact (R2 f p rs r Q Hin)|].
  split; [intros loc l r s Q Hin; rewrite G3 in Q; exact (R3 loc l r s Q Hin)|].
  split.
  - intros f l lo hi m Q Hin. unfold q_diagnostics in Q. rewrite ED in Q.
    apply nth_numbered_map in Q. destruct Q as (fp & _ & ->). cbn [fst] in Hin.
    unfold diags_of_file in Hin. apply in_app_or in Hin. destruct Hin as [Hin|Hin].
    + apply in_flat_map in Hin. destruct Hin as ([[[f0 lo0] hi0] m0] & Hp & Hin).
      destruct (f0 =? f) eqn:Ef; [|destruct Hin]. apply N.eqb_eq in Ef. subst f0.
      destruct Hin as [Hin|[]]. inversion Hin; subst lo0 hi0 m. clear Hin.
      pose proof (perrs_of_core _ _ _ _ _ _ HA HC _ _ _ _ Hp) as Hw.
      pose proof (PipelineDiagnostics.c17_pipeline_diagnostics _ _ _ _ _ _ HA HC (mkR f lo hi, DSyntax)) as V.
      cbn [fst r_file r_lo r_hi] in V. apply V. unfold an_diagnostics, diagnostics. apply in_or_app. left.
      apply in_map_iff. exists (mkR f lo hi). split; [reflexivity|exact Hw].
    + apply in_flat_map in Hin. destruct Hin as ([r dk] & Hd & Hin). cbn [fst snd] in Hin.
      destruct (r_file r =? f) eqn:Ef; [|destruct Hin]. apply N.eqb_eq in Ef.
      destruct Hin as [Hin|[]]. inversion Hin; subst lo hi m. clear Hin.
      pose proof (PipelineDiagnostics.c17_pipeline_diagnostics _ _ _ _ _ _ HA HC (r, dk)) as V.
      cbn [fst] in V. rewrite Ef in V. apply V. unfold an_diagnostics, diagnostics. apply in_or_app. right.
      rewrite <- ES. exact Hd.
  - intros f l r Q Hin. unfold q_folding, aa_tree in Q. rewrite ET, nth_error_map in Q.
    destruct (nth_error (an_files (aa_an A)) (N.to_nat f)) as [[fid p]|] eqn:Hk; [|discriminate]. cbn [option_map snd] in Q.
    destruct (pf_tree p) as [t|] eqn:Ht; [|discriminate]. cbn [option_map] in Q. inversion Q; subst l. clear Q.
    destruct (PipelineDiagnostics.pipeline_files_parsed _ _ _ _ _ HA _ _ _ Hk) as (fuel & Ho).
    unfold pf_tree in Ht. destruct (pf_out p) as [t' errs st| |] eqn:Eo; try discriminate. inversion Ht; subst t'.
    assert (G : SymbolMap.fmap_get ws (N.of_nat (N.to_nat f)) = Some (pf_text p)).
    { unfold ws, an_texts. pose proof (fmap_get_numbered (an_files (aa_an A)) 0 _ fid p Hk) as G. rewrite N.add_0_l in G. exact G. }
    rewrite Nnat.N2Nat.id in G.
    destruct (SymbolRangesTree.c17_parse_ranges_valid fuel (pf_text p) t errs st ws f G (eq_sym Ho)) as (_ & _ & _ & _ & H5).
    exact (H5 r Hin).
Qed.
Print Assumptions analyze_all_total.
Print Assumptions analyze_all_ranges_valid.
