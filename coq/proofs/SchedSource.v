(** The skeletons and handler scripts of model/Sched.v ARE the ordered synchronisation operations of the current
    crates/lsp/src/server.rs + from_proto.rs: gen/GenServerSkel.v is regenerated from the sources on every run by
    tools/translate/t_server.py and compared here, by computation.  A change of the protocol in the sources (a lock
    taken earlier or later, one more acquisition, a missing barrier, a guard or the snapshot living longer, a hook
    point moved) changes the generated file and breaks this file (or makes the translator refuse the source). *)
From Coq Require Import List Bool.
From TG.Model Require Import Sched.
From TG.Gen Require Import GenServerSkel.
Import ListNotations.

Section Source.
Context {P : Type}.

(** which generated definition belongs to which request kind *)
Definition gen_skeleton (k : kind) : list (wact P) :=
  match k with
  | KHover => gen_hover true
  | KCompletion => gen_completion true
  | KDocumentSymbol => gen_document_symbol true
  | KFoldingRange => gen_folding_range true
  | KInlayHint => gen_inlay_hint true
  | KDefinition f => gen_definition f
  | KReferences f => gen_references f
  | KDocumentLink f => gen_document_link f
  end.

Definition gen_request (k : kind) : list (mact P) :=
  match k with
  | KHover => gen_main_hover true
  | KCompletion => gen_main_completion true
  | KDocumentSymbol => gen_main_document_symbol true
  | KFoldingRange => gen_main_folding_range true
  | KInlayHint => gen_main_inlay_hint true
  | KDefinition f => gen_main_definition f
  | KReferences f => gen_main_references f
  | KDocumentLink f => gen_main_document_link f
  end.

(** the kinds without a second acquisition do the same whether the query finds something or not *)
Lemma found_irrelevant (f : bool) :
  @gen_hover P f = gen_hover true /\ @gen_completion P f = gen_completion true /\
  @gen_document_symbol P f = gen_document_symbol true /\ @gen_folding_range P f = gen_folding_range true /\
  @gen_inlay_hint P f = gen_inlay_hint true.
Proof. destruct f; repeat split; reflexivity. Qed.

Lemma gen_skeleton_eq (k : kind) : gen_skeleton k = skeleton k.
Proof. destruct k as [| | | | |[]|[]|[]]; reflexivity. Qed.

Lemma gen_diag_eq (pubs : list P) : gen_diag pubs = diag pubs.
Proof. reflexivity. Qed.

Lemma gen_request_eq (k : kind) : gen_request k = block (IReq k).
Proof. destruct k as [| | | | |[]|[]|[]]; reflexivity. Qed.

Lemma gen_did_open_eq (k : nat) (pubs : list P) : gen_main_did_open k pubs = handler k pubs.
Proof. reflexivity. Qed.

Lemma gen_did_change_eq (k : nat) (pubs : list P) : gen_main_did_change k pubs = handler k pubs.
Proof. reflexivity. Qed.

(** the script of the real server for a sequence of messages, assembled from the GENERATED pieces only *)
Definition gen_block (it : item P) : list (mact P) :=
  match it with INotif k pubs => gen_main_did_change k pubs | IReq kd => gen_request kd end.
Definition gen_script (items : list (item P)) : list (mact P) := flat_map gen_block items.

Theorem skeletons_are_source :
  (forall k : kind, gen_skeleton k = @skeleton P k) /\
  (forall pubs : list P, gen_diag pubs = diag pubs) /\
  (forall (k : nat) (pubs : list P), gen_main_did_open k pubs = handler k pubs /\ gen_main_did_change k pubs = handler k pubs) /\
  (forall k : kind, gen_request k = block (IReq k)) /\
  (forall items : list (item P), gen_script items = script_of items).
Proof.
  split; [exact gen_skeleton_eq|]. split; [exact gen_diag_eq|].
  split; [intros k pubs; split; reflexivity|]. split; [exact gen_request_eq|].
  intros items. unfold gen_script, script_of. induction items as [|it r IH]; [reflexivity|].
  cbn [flat_map]. rewrite IH. f_equal. destruct it as [k pubs|kd]; [reflexivity|apply gen_request_eq].
Qed.

Corollary publication_protocol_is_source :
  (forall pubs : list P, gen_diag pubs = diag pubs) /\
  (forall items : list (item P), gen_script items = script_of items).
Proof. destruct skeletons_are_source as (_ & H1 & _ & _ & H2). split; assumption. Qed.

End Source.
