(** PosLog: `SymbolMap::find_symbol_at` on the position log of the model (iset::IntervalMap semantics: an insert
    on an equal interval replaces, lookups go in interval order).
    [goto_newest_entry]: when the identifier ranges that contain a position are all the same range (tokens of a
    parse tree are disjoint), the symbol found at that position is the one of the NEWEST log entry with that
    range; hence `goto_definition` lands on its declaration and `references` returns its reference list. *)
From Coq Require Import List NArith Bool Lia.
From TG.Model Require Import CoreAst Scope.
Import ListNotations.
Open Scope N_scope.

Lemma rng_lt_irrefl : forall r, rng_lt r r = false.
Proof.
  intros r. unfold rng_lt. rewrite N.ltb_irrefl, N.eqb_refl. simpl. now rewrite N.ltb_irrefl.
Qed.

(** once the best candidate has range [r], later (older) entries with the same range or not containing the
    position do not change it *)
Lemma scan_keeps : forall (l : list (rng * symid)) r sym f p,
    (forall e, In e l -> rng_has (fst e) f p = true -> fst e = r) ->
    find_symbol_at_from (Some (r, sym)) l f p = Some (r, sym).
Proof.
  induction l as [|[r0 id0] rest IH]; intros r sym f p H; simpl; [reflexivity|].
  destruct (rng_has r0 f p) eqn:E.
  - assert (r0 = r) by (apply (H (r0, id0)); [now left|exact E]). subst r0.
    rewrite rng_lt_irrefl. apply IH. intros e He. apply H. now right.
  - apply IH. intros e He. apply H. now right.
Qed.

Lemma scan_first : forall (l1 l2 : list (rng * symid)) r sym f p,
    (forall e, In e l1 -> rng_has (fst e) f p = false) ->
    rng_has r f p = true ->
    (forall e, In e l2 -> rng_has (fst e) f p = true -> fst e = r) ->
    find_symbol_at_from None (l1 ++ (r, sym) :: l2) f p = Some (r, sym).
Proof.
  induction l1 as [|[r0 id0] rest IH]; intros l2 r sym f p H1 Hr H2; simpl.
  - rewrite Hr. now apply scan_keeps.
  - pose proof (H1 (r0, id0) (or_introl eq_refl)) as E0. simpl in E0. rewrite E0.
    apply IH; auto. intros e He. apply H1. now right.
Qed.

Theorem goto_newest_entry : forall s l1 l2 r sym f p,
    s_pos s = l1 ++ (r, sym) :: l2 ->
    (forall e, In e l1 -> rng_has (fst e) f p = false) ->
    rng_has r f p = true ->
    (forall e, In e l2 -> rng_has (fst e) f p = true -> fst e = r) ->
    find_symbol_at s f p = Some sym /\
    goto_definition s f p = define_loc s sym /\
    references s f p = Some (reference_locs s sym).
Proof.
  intros s l1 l2 r sym f p Hs H1 Hr H2.
  assert (E : find_symbol_at s f p = Some sym).
  { unfold find_symbol_at. rewrite Hs, (scan_first l1 l2 r sym f p H1 Hr H2). reflexivity. }
  split; [exact E|]. split.
  - unfold goto_definition. now rewrite E.
  - unfold references. now rewrite E.
Qed.

(** `add_reference` makes the reference the newest entry of its (non-empty) range, and logs the use *)
Theorem add_reference_logs : forall s sym loc,
    rng_empty loc = false ->
    let s' := snd (add_reference sym loc s) in
    s_pos s' = (loc, sym) :: s_pos s /\ s_refs s' = (sym, loc) :: s_refs s /\
    s_uses s' = (loc, define_loc s sym) :: s_uses s.
Proof.
  intros s sym loc H. unfold add_reference, upd, add_pos; simpl. rewrite H. simpl. auto.
Qed.
