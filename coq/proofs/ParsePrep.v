(** ParsePrep: the parser model (ParserPrims / GInterp) sees the token stream only through
    [p_lex] (= the preprocessor's [prep_next]) and [p_save] (= one builder token, plus [take_error]
    iff the kind is Error), strictly alternating.  Hence, for EVERY program of the grammar DSL:
    the leaves of the tree are, in order, exactly the entries the preprocessor delivered
    (PrepConform.xentry: kind, covered raw tokens, taken error), and every recorded error range is the
    range of one delivered entry.  Combined with PrepConform (the delivered entries of a well-nested
    arrangement are the selected tokens plus T_PreProcessor trivia covering the disabled text):
    disabled text produces neither nodes nor diagnostics (C15, parser level). *)
From Coq Require Import List Arith NArith Bool Lia.
From TG.Gen Require Import GenTokens GenLexTables GenGrammar.
From TG.Model Require Import Chars Lexer Prep PrepRun PrepSpec Tree ParserPrims GInterp.
From TG.Proofs Require Import LexBasics PrepBasics PrepConform ParserTile GTile.
Import ListNotations.
Close Scope string_scope.
Close Scope nat_scope.
Open Scope N_scope.

(** * 1. The history of deliveries *)

Definition xkind (x : xentry) : TokenKind := fst (fst x).
Definition xcov (x : xentry) : list rtok := snd (fst x).

(** what [p_save] does to the preprocessor state, and the message it records *)
Definition after_save (k : TokenKind) (st1 : pstate) : pstate :=
  if tk_eqb k T_Error then snd (take_error st1) else st1.
Definition entry_err (k : TokenKind) (st1 : pstate) : option any_err :=
  if tk_eqb k T_Error then fst (take_error st1) else None.

(** [hist st raw h st' raw']: delivering (and saving) the entries [h] one after the other leads
    from [(st, raw)] to [(st', raw')]; may continue after Eof (a program may lex past Eof) *)
Inductive hist : pstate -> list rtok -> list xentry -> pstate -> list rtok -> Prop :=
| hist_nil st raw : hist st raw [] st raw
| hist_cons st raw k len st1 r1 pre h st' raw' :
    prep_next st raw = (k, len, st1, r1) -> raw = pre ++ r1 ->
    hist (after_save k st1) r1 h st' raw' ->
    hist st raw ((k, pre, entry_err k st1) :: h) st' raw'.

Lemma hist_snoc st raw h st0 r0 : hist st raw h st0 r0 ->
  forall k len st1 r1 pre, prep_next st0 r0 = (k, len, st1, r1) -> r0 = pre ++ r1 ->
  hist st raw (h ++ [(k, pre, entry_err k st1)]) (after_save k st1) r1.
Proof.
  induction 1 as [st raw|st raw k0 len0 st10 r10 pre0 h st' raw' HN E _ IH]; intros k len st1 r1 pre HN' E'.
  - cbn [app]. eapply hist_cons; [exact HN'|exact E'|constructor].
  - cbn [app]. eapply hist_cons; [exact HN|exact E|]. eapply IH; eassumption.
Qed.

Definition not_eofx (x : xentry) : bool := negb (tk_eqb (xkind x) T_Eof).

Lemma hist_after_eof st raw h st' raw' : hist st raw h st' raw' -> raw = [] -> openc st = 0 ->
  Forall (fun x => xkind x = T_Eof) h.
Proof.
  induction 1 as [st raw|st raw k len st1 r1 pre h st' raw' HN E _ IH]; intros R O; [constructor|].
  rewrite R, prep_next_nil in HN. replace (0 <? openc st) with false in HN by (rewrite O; reflexivity).
  inversion HN; subst k len st1 r1. constructor; [reflexivity|]. apply IH; [reflexivity|exact O].
Qed.

Lemma filter_all_eof h : Forall (fun x => xkind x = T_Eof) h -> filter not_eofx h = [].
Proof.
  induction 1 as [|x h K _ IH]; [reflexivity|]. cbn [filter]. unfold not_eofx at 1. rewrite K. exact IH.
Qed.

Lemma filter_not_eofx_keep k c e l : tk_eqb k T_Eof = false ->
  filter not_eofx ((k, c, e) :: l) = (k, c, e) :: filter not_eofx l.
Proof. intros K. cbn [filter]. unfold not_eofx at 1. cbn [xkind fst]. rewrite K. reflexivity. Qed.

Lemma filter_not_eofx_drop c e l : filter not_eofx ((T_Eof, c, e) :: l) = filter not_eofx l.
Proof. reflexivity. Qed.

(** up to the Eof entries, the history is the run of the preprocessor *)
Lemma hist_pruns st raw h st' raw' : hist st raw h st' raw' ->
  Forall (fun t => rk t <> T_Eof) raw ->
  forall len st'' raw'' l stf, prep_next st' raw' = (T_Eof, len, st'', raw'') -> pruns st raw l stf ->
  filter not_eofx h = filter not_eofx l.
Proof.
  induction 1 as [st raw|st raw k len st1 r1 pre h st' raw' HN E HH IH]; intros NE len' st'' raw'' l stf HE R.
  - inversion R as [? ? len0 st10 r10 pre0 HN0 E0|? ? len0 st10 r10 pre0 e st2 l' ? HN0 E0 T R'
                    |? ? k0 len0 st10 r10 pre0 l' ? HN0 E0 K1 K2 R']; subst.
    + reflexivity.
    + rewrite HE in HN0. discriminate.
    + rewrite HE in HN0. inversion HN0; subst. discriminate.
  - assert (NE1 : Forall (fun t => rk t <> T_Eof) r1) by (rewrite E in NE; apply Forall_app in NE; tauto).
    inversion R as [? ? len0 st10 r10 pre0 HN0 E0|? ? len0 st10 r10 pre0 e st2 l' ? HN0 E0 T R'
                    |? ? k0 len0 st10 r10 pre0 l' ? HN0 E0 K1 K2 R']; subst raw0 st0.
    + rewrite HN in HN0. inversion HN0; subst k len0 st10 r10. subst l stf.
      pose proof (prep_next_eof _ _ _ _ _ NE HN) as RN.
      assert (r1 = [] /\ st1 = st /\ openc st = 0) as (-> & -> & O).
      { rewrite RN, prep_next_nil in HN. destruct (0 <? openc st) eqn:O; inversion HN; subst.
        repeat split. apply N.ltb_ge in O. lia. }
      rewrite !filter_not_eofx_drop. cbn [filter].
      apply filter_all_eof. eapply hist_after_eof; [exact HH|reflexivity|exact O].
    + rewrite HN in HN0. inversion HN0; subst k len0 st10 r10. subst l.
      rewrite E in E0. apply app_inv_tail in E0. subst pre0.
      unfold entry_err, after_save in *. change (tk_eqb T_Error T_Error) with true in *. cbv iota in *.
      rewrite T in *. cbn [fst snd] in *. rewrite !(filter_not_eofx_keep T_Error) by reflexivity. f_equal.
      eapply IH; [exact NE1|exact HE|exact R'].
    + rewrite HN in HN0. inversion HN0; subst k0 len0 st10 r10. subst l.
      rewrite E in E0. apply app_inv_tail in E0. subst pre0.
      unfold entry_err, after_save in *. rewrite K2 in *. rewrite !(filter_not_eofx_keep k) by exact K1. f_equal. eapply IH; [exact NE1|exact HE|exact R'].
Qed.

Lemma hist_runx raw0 h st' raw' len st'' raw'' :
  Forall (fun t => rk t <> T_Eof) raw0 -> hist pinit raw0 h st' raw' ->
  prep_next st' raw' = (T_Eof, len, st'', raw'') ->
  filter not_eofx h = filter not_eofx (prep_runx raw0).
Proof.
  intros NE HH HE. destruct (pruns_total pinit raw0) as (l & stf & R).
  destruct (pruns_run _ _ _ R) as (_ & B & _). rewrite B. eapply hist_pruns; eassumption.
Qed.

(** * 2. The leaves handed to the builder, without offsets *)

Fixpoint tleaves (t : tree) : list (SyntaxKind * text) :=
  match t with
  | Tok k txt => [(k, txt)]
  | Node _ cs => (fix go (l : list tree) : list (SyntaxKind * text) :=
                    match l with [] => [] | c :: r => tleaves c ++ go r end) cs
  end.
Definition forest_tl (cs : list tree) : list (SyntaxKind * text) := concat (map tleaves cs).

Lemma tl_node k cs : tleaves (Node k cs) = forest_tl cs.
Proof.
  cbn [tleaves]. unfold forest_tl. induction cs as [|c r IH]; [reflexivity|]. cbn [map concat]. rewrite <- IH. reflexivity.
Qed.

Lemma forest_tl_app a b : forest_tl (a ++ b) = forest_tl a ++ forest_tl b.
Proof. unfold forest_tl. rewrite map_app, concat_app. reflexivity. Qed.

Lemma forest_tl_single t : forest_tl [t] = tleaves t.
Proof. unfold forest_tl. cbn [map concat]. apply app_nil_r. Qed.

Definition bleaves (b : builder) : list (SyntaxKind * text) := forest_tl (rev (children b)).

Lemma bleaves_token b k t : bleaves (b_token b k t) = bleaves b ++ [(k, t)].
Proof. unfold bleaves, b_token. cbn [children rev]. rewrite forest_tl_app. reflexivity. Qed.

Lemma bleaves_start_node b k : bleaves (b_start_node b k) = bleaves b.
Proof. reflexivity. Qed.

Lemma bleaves_start_node_at b cp k b' : b_start_node_at b cp k = Some b' -> bleaves b' = bleaves b.
Proof.
  unfold b_start_node_at. destruct (Nat.leb cp _); [|discriminate].
  destruct (parents b) as [|[k0 first] ps].
  - intros H; inversion H; reflexivity.
  - destruct (Nat.leb first cp); [|discriminate]. intros H; inversion H; reflexivity.
Qed.

Lemma bleaves_finish_node b b' : b_finish_node b = Some b' -> bleaves b' = bleaves b.
Proof.
  unfold b_finish_node. destruct (parents b) as [|[k first] ps]; [discriminate|].
  intros H; inversion H; subst; clear H. unfold bleaves. cbn [children rev].
  set (n := (List.length (children b) - first)%nat).
  rewrite forest_tl_app. unfold forest_tl at 2. cbn [map concat]. rewrite app_nil_r, tl_node.
  rewrite <- forest_tl_app, <- rev_app_distr, firstn_skipn. reflexivity.
Qed.

Lemma bleaves_finish b t : b_finish b = Some t -> tleaves t = bleaves b.
Proof.
  unfold b_finish, bleaves. destruct (children b) as [|c r]; [discriminate|].
  destruct c as [k cs|k tx]; [|discriminate]. destruct r; [|discriminate].
  intros H. assert (t = Node k cs) by (destruct (parents b); congruence). subst t.
  cbn [rev app]. rewrite forest_tl_single. reflexivity.
Qed.

Definition strip (l : leaf) : SyntaxKind * text := let '(k, _, _, tx) := l in (k, tx).

Lemma strip_leaves_from : forall t off, map strip (leaves_from off t) = tleaves t.
Proof.
  fix IH 1. intros [k cs|k tx] off.
  - rewrite leaves_from_node, tl_node. revert off. induction cs as [|c r IHr]; intros off; [reflexivity|].
    cbn [forest_leaves]. unfold forest_tl in *. cbn [map concat]. rewrite map_app, IH, IHr. reflexivity.
  - reflexivity.
Qed.

(** * 3. The invariants *)

Definition xleaf (x : xentry) : SyntaxKind * text := (sk_of_tk (xkind x), raw_text (xcov x)).
Definition hlen (h : list xentry) : N := sumlen (concat (map xcov h)).

Lemma hlen_snoc h x : hlen (h ++ [x]) = hlen h + sumlen (xcov x).
Proof. unfold hlen. rewrite map_app, concat_app, sumlen_app. cbn [map concat]. rewrite app_nil_r. reflexivity. Qed.

Lemma bytes_raw_text_sumlen l : bytes (raw_text l) = sumlen l.
Proof. apply bytes_raw_text. Qed.

(** a recorded error is the range of ONE delivered entry, which is not trivia - or ([strict = false])
    the very first entry (a program may report an error before its first [skip]) *)
Definition err_at (strict : bool) (hall : list xentry) (e : N * N * parse_msg) : Prop :=
  let '(lo, hi, _) := e in
  exists a x b, hall = a ++ x :: b /\ lo = hlen a /\ hi = lo + sumlen (xcov x)
                /\ (is_trivia (xkind x) = false \/ (strict = false /\ a = [])).

Lemma err_at_mono strict hall more e : err_at strict hall e -> err_at strict (hall ++ more) e.
Proof.
  destruct e as [[lo hi] m]. intros (a & x & b & E & L & H & C). exists a, x, (b ++ more).
  rewrite E, <- app_assoc. cbn [app]. auto.
Qed.

(** between [save] and [lex] *)
Definition HPreH (strict : bool) (txt : text) (s : pst) (h : list xentry) : Prop :=
  Pre txt s /\ hist pinit (raw_lex txt) h (pp s) (raw s) /\ bleaves (bld s) = map xleaf h
  /\ cursor s = hlen h /\ Forall (err_at strict h) (errs s).

Definition curx (s : pst) (pre : list rtok) : xentry := (cur s, pre, entry_err (cur s) (pp s)).

(** between [lex] and [save]: [h] = what has been saved, the look-ahead is the next delivery *)
Definition HTileH (strict : bool) (txt : text) (s : pst) (h : list xentry) : Prop :=
  Tile txt s /\ exists st0 r0 len pre,
    hist pinit (raw_lex txt) h st0 r0 /\ prep_next st0 r0 = (cur s, len, pp s, raw s) /\ r0 = pre ++ raw s
    /\ cur_text s = raw_text pre /\ cur_lo s = hlen h /\ bleaves (bld s) = map xleaf h
    /\ Forall (err_at strict (h ++ [curx s pre])) (errs s).

(** what the grammar DSL sees between two primitives *)
Definition HT (strict : bool) (txt : text) (s : pst) : Prop :=
  exists h, HTileH strict txt s h /\ (is_trivia (cur s) = false \/ (strict = false /\ h = [])).

Lemma p_lex_h strict txt s h : HPreH strict txt s h -> HTileH strict txt (p_lex s) h.
Proof.
  intros (P & HH & BL & CU & ER). split; [apply p_lex_tile; exact P|].
  destruct (prep_next (pp s) (raw s)) as [[[k len] pp'] raw'] eqn:EP.
  destruct (prep_next_span_sumlen _ _ _ _ _ _ EP) as (pre & ERW & EL).
  assert (TB : take_bytes len (src s) = (raw_text pre, raw_text raw')).
  { rewrite (p_src _ _ P), ERW, raw_text_app, EL, <- bytes_raw_text_sumlen. apply take_bytes_app. }
  assert (E : p_lex s = {| raw := raw'; src := raw_text raw'; pp := pp'; cursor := cursor s + len;
     cur := k; cur_lo := cursor s; cur_text := raw_text pre;
     bld := bld s; errs := errs s; after_err := after_err s; nlex := nlex s + 1; nstart := nstart s |})
    by (rewrite p_lex_eq, EP, TB; reflexivity).
  rewrite E. cbn [raw pp cur cur_lo cur_text bld errs]. exists (pp s), (raw s), len, pre.
  repeat split; try assumption; try reflexivity.
  eapply Forall_impl; [|exact ER]. intros e. apply err_at_mono.
Qed.

Lemma p_save_h strict txt s h : HTileH strict txt s h -> forall s1, p_save s = Some s1 ->
  exists pre, HPreH strict txt s1 (h ++ [curx s pre]).
Proof.
  intros (T & st0 & r0 & len & pre & HH & EP & ERW & CT & CL & BL & ER) s1 SV.
  exists pre. destruct (p_save_tile txt s T) as (s1' & SV' & P1). rewrite SV in SV'. inversion SV'; subst s1'. clear SV'.
  pose proof (hist_snoc _ _ _ _ _ HH _ _ _ _ _ EP ERW) as HS.
  assert (XL : map xleaf (h ++ [curx s pre]) = map xleaf h ++ [(sk_of_tk (cur s), cur_text s)]).
  { rewrite map_app. cbn [map]. unfold xleaf, curx. cbn [xkind xcov fst snd]. rewrite CT. reflexivity. }
  assert (HL : hlen (h ++ [curx s pre]) = cursor s).
  { rewrite hlen_snoc, (t_cursor _ _ T), CL, CT, bytes_raw_text_sumlen. reflexivity. }
  unfold p_save in SV. destruct (tk_eqb (cur s) T_Error) eqn:K.
  - cbn [with_bld pp] in SV. destruct (take_error (pp s)) as [[e|] pp'] eqn:TE; [|discriminate].
    inversion SV; subst s1; clear SV.
    split; [exact P1|].
    cbn [p_error with_pp_after with_bld raw pp cursor bld errs cur_lo cur_text after_err].
    split. { unfold curx in HS. unfold after_save in HS. rewrite K, TE in HS. exact HS. }
    split. { rewrite bleaves_token, BL, XL. reflexivity. }
    split. { symmetry. exact HL. }
    constructor; [|exact ER].
    unfold err_at, cur_hi. cbn [cur_lo cur_text with_pp_after with_bld]. exists h, (curx s pre), [].
    repeat split; [exact CL|cbn [curx xcov fst snd]; rewrite CT, bytes_raw_text_sumlen; reflexivity|].
    left. apply LexBasics.tk_eqb_eq in K. cbn [curx xkind fst]. rewrite K. reflexivity.
  - inversion SV; subst s1; clear SV.
    split; [exact P1|].
    cbn [with_pp_after with_bld raw pp cursor bld errs].
    split. { unfold curx in HS. unfold after_save in HS. rewrite K in HS. exact HS. }
    split. { rewrite bleaves_token, BL, XL. reflexivity. }
    split. { symmetry. exact HL. }
    exact ER.
Qed.

Lemma p_skip_h strict txt : forall fuel s h s', HTileH strict txt s h -> p_skip fuel s = Some s' ->
  exists h', HTileH strict txt s' h' /\ is_trivia (cur s') = false.
Proof.
  induction fuel as [|x fuel IH]; intros s h s' H SK; cbn [p_skip] in SK.
  - destruct (is_trivia (cur s)) eqn:TR; [discriminate|]. inversion SK; subst. eauto.
  - destruct (is_trivia (cur s)) eqn:TR; [|inversion SK; subst; eauto].
    destruct (p_save s) as [s1|] eqn:SV; [|discriminate].
    destruct (p_save_h _ _ _ _ H _ SV) as (pre & H1).
    eapply IH; [apply p_lex_h; exact H1|exact SK].
Qed.

Lemma p_skip_all_h strict txt s h s' : HTileH strict txt s h -> p_skip_all s = Some s' ->
  exists h', HTileH strict txt s' h' /\ is_trivia (cur s') = false.
Proof. unfold p_skip_all. apply p_skip_h. Qed.

Lemma p_eat_h strict txt s h s' : HTileH strict txt s h -> p_eat s = Some s' ->
  exists h', HTileH strict txt s' h' /\ is_trivia (cur s') = false.
Proof.
  intros H. unfold p_eat. destruct (p_save s) as [s1|] eqn:SV; [|discriminate].
  destruct (p_save_h _ _ _ _ H _ SV) as (pre & H1). apply p_skip_all_h with (h := h ++ [curx s pre]).
  apply p_lex_h; exact H1.
Qed.

Lemma htile_with_bld strict txt s h b : pushed b = pushed (bld s) -> bleaves b = bleaves (bld s) ->
  HTileH strict txt s h -> HTileH strict txt (with_bld s b) h.
Proof.
  intros EP EB (T & st0 & r0 & len & pre & HH & EN & ERW & CT & CL & BL & ER).
  split; [apply tile_with_bld; assumption|]. exists st0, r0, len, pre.
  cbn [with_bld raw pp cur cur_lo cur_text bld errs]. rewrite EB. repeat split; assumption.
Qed.

Lemma p_start_node_h strict txt s h k : HTileH strict txt s h -> HTileH strict txt (p_start_node s k) h.
Proof.
  intros H. pose proof (htile_with_bld strict txt s h (b_start_node (bld s) k) (pushed_start_node _ _) (bleaves_start_node _ _) H)
    as (T & st0 & r0 & len & pre & HH & EN & ERW & CT & CL & BL & ER).
  split; [apply p_start_node_tile; destruct H; assumption|]. exists st0, r0, len, pre. repeat split; assumption.
Qed.

Lemma p_start_node_at_h strict txt s h cp k s' : HTileH strict txt s h -> p_start_node_at s cp k = Some s' -> HTileH strict txt s' h.
Proof.
  intros H. unfold p_start_node_at. destruct (b_start_node_at (bld s) cp k) as [b|] eqn:E; [|discriminate].
  intros X; inversion X; subst. apply htile_with_bld; [eapply pushed_start_node_at; exact E|eapply bleaves_start_node_at; exact E|exact H].
Qed.

Lemma p_finish_node_h strict txt s h s' : HTileH strict txt s h -> p_finish_node s = Some s' -> HTileH strict txt s' h.
Proof.
  intros H. unfold p_finish_node. destruct (b_finish_node (bld s)) as [b|] eqn:E; [|discriminate].
  intros X; inversion X; subst. apply htile_with_bld; [eapply pushed_finish_node; exact E|eapply bleaves_finish_node; exact E|exact H].
Qed.

Lemma p_error_h strict txt s h m : HTileH strict txt s h ->
  is_trivia (cur s) = false \/ (strict = false /\ h = []) -> HTileH strict txt (p_error s m) h.
Proof.
  intros (T & st0 & r0 & len & pre & HH & EN & ERW & CT & CL & BL & ER) C.
  split; [apply p_error_tile; exact T|]. exists st0, r0, len, pre.
  cbn [p_error raw pp cur cur_lo cur_text bld errs]. repeat split; try assumption.
  constructor; [|exact ER]. unfold err_at, cur_hi. exists h, (curx s pre), [].
  repeat split; [exact CL|cbn [curx xcov fst snd]; rewrite CT, bytes_raw_text_sumlen; reflexivity|exact C].
Qed.

(** ** the outer invariant is preserved by every primitive *)

Lemma ht_of strict txt s h : HTileH strict txt s h -> is_trivia (cur s) = false -> HT strict txt s.
Proof. intros H C. exists h. auto. Qed.

Lemma p_eat_ht strict txt s h s' : HTileH strict txt s h -> p_eat s = Some s' -> HT strict txt s'.
Proof. intros H E. destruct (p_eat_h _ _ _ _ _ H E) as (h' & H' & C). eapply ht_of; eassumption. Qed.

Lemma p_skip_all_ht strict txt s h s' : HTileH strict txt s h -> p_skip_all s = Some s' -> HT strict txt s'.
Proof. intros H E. destruct (p_skip_all_h _ _ _ _ _ H E) as (h' & H' & C). eapply ht_of; eassumption. Qed.

Lemma p_error_ht strict txt s m : HT strict txt s -> HT strict txt (p_error s m).
Proof. intros (h & H & C). exists h. split; [apply p_error_h; assumption|exact C]. Qed.

Lemma p_eat_if_ht strict txt s k b s' : HT strict txt s -> p_eat_if s k = Some (b, s') -> HT strict txt s'.
Proof.
  intros (h & H & C). unfold p_eat_if. destruct (p_at s k).
  - destruct (p_eat s) as [s1|] eqn:E; [|discriminate]. intros X; inversion X; subst. eapply p_eat_ht; eassumption.
  - intros X; inversion X; subst. exists h. auto.
Qed.

Lemma p_assert_ht strict txt s k s' : HT strict txt s -> p_assert s k = Some s' -> HT strict txt s'.
Proof.
  intros H. unfold p_assert. destruct (p_eat_if s k) as [[[|] s1]|] eqn:E; try discriminate.
  intros X; inversion X; subst. eapply p_eat_if_ht; eassumption.
Qed.

Lemma p_expect_ht strict txt s k m s' : HT strict txt s -> p_expect s k m = Some s' -> HT strict txt s'.
Proof.
  intros H. unfold p_expect. destruct (p_eat_if s k) as [[[|] s1]|] eqn:E; try discriminate.
  - intros X; inversion X; subst. eapply p_eat_if_ht; eassumption.
  - pose proof (p_eat_if_ht _ _ _ _ _ _ H E) as H1.
    destruct (after_err s1); intros X; inversion X; subst; [exact H1|apply p_error_ht; exact H1].
Qed.

Lemma error_eat_finish_ht strict txt s m s' : HT strict txt s ->
  match p_eat (with_bld (p_error s m) (b_start_node (bld (p_error s m)) S_Error)) with
  | Some s3 => p_finish_node s3 | None => None end = Some s' -> HT strict txt s'.
Proof.
  intros (h & H & C).
  assert (H2 : HTileH strict txt (with_bld (p_error s m) (b_start_node (bld (p_error s m)) S_Error)) h).
  { apply htile_with_bld; [apply pushed_start_node|apply bleaves_start_node|apply p_error_h; assumption]. }
  destruct (p_eat _) as [s3|] eqn:E; [|discriminate]. intros F.
  destruct (p_eat_h _ _ _ _ _ H2 E) as (h' & H' & C'). exists h'. split; [eapply p_finish_node_h; eassumption|].
  left. unfold p_finish_node in F. destruct (b_finish_node (bld s3)); [|discriminate]. inversion F; subst. exact C'.
Qed.

Lemma p_error_and_eat_ht strict txt s m s' : HT strict txt s -> p_error_and_eat s m = Some s' -> HT strict txt s'.
Proof. intros H. unfold p_error_and_eat. apply error_eat_finish_ht, H. Qed.

Lemma p_error_and_recover_ht strict txt rec s m s' : HT strict txt s -> p_error_and_recover rec s m = Some s' -> HT strict txt s'.
Proof.
  intros H. unfold p_error_and_recover.
  destruct (negb (p_at_set (p_error s m) rec) && negb (p_eof (p_error s m))).
  - apply error_eat_finish_ht, H.
  - intros X; inversion X; subst. apply p_error_ht, H.
Qed.

Lemma ht_same_cur strict txt s s' h : HTileH strict txt s' h -> cur s' = cur s ->
  (is_trivia (cur s) = false \/ (strict = false /\ h = [])) -> HT strict txt s'.
Proof. intros H E C. exists h. rewrite E. auto. Qed.

Lemma exec_prim_ht strict txt p pr en s : HT strict txt s -> res_inv (HT strict txt) (exec_prim p pr en s).
Proof.
  intros HTs. pose proof HTs as (h & H & C). destruct pr; cbn [exec_prim].
  - cbn. eapply ht_same_cur; [apply p_start_node_h; exact H|reflexivity|exact C].
  - apply lift_inv. intros s' F. eapply ht_same_cur; [eapply p_finish_node_h; eassumption| |exact C].
    unfold p_finish_node in F. destruct (b_finish_node (bld s)); [|discriminate]. inversion F; reflexivity.
  - cbn. exact HTs.
  - destruct (env_get en x) as [[b|cp]|]; cbn; auto. apply lift_inv. intros s' F.
    eapply ht_same_cur; [eapply p_start_node_at_h; eassumption| |exact C].
    unfold p_start_node_at in F. destruct (b_start_node_at (bld s) cp k); [|discriminate]. inversion F; reflexivity.
  - apply lift_inv. intros s'. apply p_assert_ht, HTs.
  - apply lift_inv. intros s'. apply p_expect_ht, HTs.
  - apply lift_inv. intros s'. eapply p_eat_ht, H.
  - destruct (p_eat_if s k) as [[b s1]|] eqn:E; cbn; [|exact I]. eapply p_eat_if_ht; eassumption.
  - apply lift_inv. intros s'. eapply p_skip_all_ht, H.
  - cbn. apply p_error_ht, HTs.
  - apply lift_inv. intros s'. apply p_error_and_eat_ht, HTs.
  - apply lift_inv. intros s'. apply p_error_and_recover_ht, HTs.
  - cbn. exact HTs.
Qed.

(** * 4. Every program of the grammar DSL *)

Section Generic.
  Variable P : pst -> Prop.
  Hypothesis prim_ok : forall p pr en s, P s -> res_inv P (exec_prim p pr en s).

  (** the interpreter reaches the parser state only through the primitives (proof as GTile.gexec_tile) *)
  Theorem gexec_inv p : forall n e en s, P s -> res_inv P (gexec n p e en s).
  Proof.
    induction n as [|n IH]; intros e en s T; [exact I|].
    destruct e as [b|x|a|pr|f arg|a b|c a b|c b| |a|x a]; cbn [gexec].
    - exact T.
    - destruct (env_get en x); cbn; auto.
    - pose proof (IH a en s T) as H. destruct (gexec n p a en s) as [[b|m] en1 s1| | | |]; cbn in *; auto.
    - apply prim_ok, T.
    - destruct (fn_body p f) as [body|]; [|exact I].
      destruct (match arg with Some (x, _) => match env_get en x with Some v => Some [v] | None => None end | None => Some [] end) as [cen0|]; [|exact I].
      pose proof (IH body cen0 s T) as H.
      destruct (gexec n p body cen0 s) as [v cen1 s1|cen1 s1|v cen1 s1| |]; cbn in *; auto;
        destruct arg as [[x [|]]|]; cbn; auto; destruct cen1; cbn; auto.
    - pose proof (IH a en s T) as H. destruct (gexec n p a en s) as [v en1 s1| | | |]; cbn in *; auto.
    - pose proof (IH c en s T) as H. destruct (gexec n p c en s) as [[[|]|m] en1 s1| | | |]; cbn in *; auto.
    - pose proof (IH c en s T) as H. destruct (gexec n p c en s) as [[[|]|m] en1 s1| | | |]; cbn in *; auto.
      pose proof (IH b en1 s1 H) as H2. destruct (gexec n p b en1 s1) as [v en2 s2|en2 s2| | |]; cbn in *; auto.
    - exact T.
    - pose proof (IH a en s T) as H. destruct (gexec n p a en s) as [v en1 s1| | | |]; cbn in *; auto.
    - pose proof (IH a en s T) as H. destruct (gexec n p a en s) as [v en1 s1| | | |]; cbn in *; auto.
  Qed.
End Generic.

Lemma p_new_h strict txt : HTileH strict txt (p_new txt) [].
Proof.
  unfold p_new. apply p_lex_h. split.
  { constructor; cbn [raw src pp cursor bld errs]; try reflexivity.
    - unfold raw_text. symmetry. apply raw_lex_concat.
    - apply raw_ok_lex.
    - constructor. }
  cbn [raw src pp cursor bld errs]. repeat split; constructor.
Qed.

Lemma p_finish_leaves s t es : p_finish s = Some (t, es) -> tleaves t = bleaves (bld s) /\ es = rev (errs s).
Proof.
  unfold p_finish. destruct (b_finish (bld s)) as [t0|] eqn:E; [|discriminate].
  intros H; inversion H; subst. split; [eapply bleaves_finish; exact E|reflexivity].
Qed.

Lemma parse_with_res (P : pst -> Prop) p entry fuel txt t errs st :
  res_inv P (gexec fuel p (ECall entry None) [] (p_new txt)) ->
  parse_with fuel p entry txt = ParseOk t errs st ->
  P st /\ tleaves t = bleaves (bld st) /\ errs = rev (ParserPrims.errs st).
Proof.
  unfold parse_with. intros T H.
  destruct (gexec fuel p (ECall entry None) [] (p_new txt)) as [v en s|en s|v en s| |]; try discriminate;
    cbn in T; destruct (p_finish s) as [[t0 es]|] eqn:F; try discriminate;
    inversion H; subst; destruct (p_finish_leaves _ _ _ F) as (F1 & F2); auto.
Qed.

Theorem parse_with_ht p entry fuel txt t errs st :
  parse_with fuel p entry txt = ParseOk t errs st ->
  HT false txt st /\ tleaves t = bleaves (bld st) /\ errs = rev (ParserPrims.errs st).
Proof.
  apply parse_with_res. apply gexec_inv; [intros; apply exec_prim_ht; assumption|].
  exists []. split; [apply p_new_h|]. right. auto.
Qed.

Lemma strip_leaves t : map strip (leaves t) = tleaves t.
Proof. apply strip_leaves_from. Qed.

(** * 5. Leaves = delivered entries *)

Definition not_eof_leaf (l : SyntaxKind * text) : bool := negb (sk_eqb (fst l) S_Eof).
Definition vis_leaf (l : SyntaxKind * text) : bool := negb (sk_is_trivia (fst l)) && negb (sk_eqb (fst l) S_Eof).
Definition tok_leaf (t : rtok) : SyntaxKind * text := (sk_of_tk (rk t), rtext t).

Lemma sk_of_tk_eof k : sk_eqb (sk_of_tk k) S_Eof = tk_eqb k T_Eof.
Proof. destruct k; reflexivity. Qed.
(** the five directive kinds (never delivered by the preprocessor) are the only ones whose syntax
    kind is trivia although the token kind is not *)
Lemma sk_of_tk_trivia k : is_directive k = false -> sk_is_trivia (sk_of_tk k) = is_trivia k.
Proof. destruct k; intros H; try reflexivity; discriminate H. Qed.

Lemma hist_not_directive st raw h st' raw' : hist st raw h st' raw' ->
  Forall (fun x => is_directive (xkind x) = false) h.
Proof.
  induction 1 as [st raw|st raw k len st1 r1 pre h st' raw' HN E _ IH]; constructor; [|exact IH].
  exact (prep_next_not_directive_b _ _ _ _ _ _ HN).
Qed.

Lemma filter_map_comm_in {A B} (f : A -> B) (p : B -> bool) (q : A -> bool) l :
  (forall x, In x l -> p (f x) = q x) -> filter p (map f l) = map f (filter q l).
Proof.
  induction l as [|x l IH]; intros E; [reflexivity|]. cbn [map filter]. rewrite (E x (or_introl eq_refl)).
  rewrite IH by (intros y Y; apply E; right; exact Y). destruct (q x); reflexivity.
Qed.

Lemma not_eof_leaf_xleaf x : not_eof_leaf (xleaf x) = not_eofx x.
Proof. unfold not_eof_leaf, xleaf, not_eofx. cbn [fst]. rewrite sk_of_tk_eof. reflexivity. Qed.

Lemma filter_map_comm {A B} (f : A -> B) (p : B -> bool) (q : A -> bool) l :
  (forall x, p (f x) = q x) -> filter p (map f l) = map f (filter q l).
Proof.
  intros E. induction l as [|x l IH]; [reflexivity|]. cbn [map filter]. rewrite E.
  destruct (q x); cbn [map]; rewrite IH; reflexivity.
Qed.

Lemma filter_andb {A} (p q : A -> bool) l : filter (fun x => p x && q x) l = filter p (filter q l).
Proof.
  induction l as [|x l IH]; [reflexivity|]. cbn [filter]. destruct (q x); cbn [filter].
  - rewrite andb_true_r. destruct (p x); rewrite IH; reflexivity.
  - rewrite andb_false_r. exact IH.
Qed.

Lemma filter_true {A} (p : A -> bool) l : Forall (fun x => p x = true) l -> filter p l = l.
Proof. induction 1 as [|x l Px _ IH]; [reflexivity|]. cbn [filter]. rewrite Px, IH. reflexivity. Qed.

(** (A) the leaves of the tree are, in order, the entries the preprocessor delivered *)
Theorem parse_leaves_any_program p entry fuel txt t errs st :
  parse_with fuel p entry txt = ParseOk t errs st ->
  exists h st0 r0, hist pinit (raw_lex txt) h st0 r0
    /\ map strip (leaves t) = map xleaf h
    /\ (cur st = T_Eof ->
        filter not_eofx h = filter not_eofx (prep_runx (raw_lex txt))
        /\ filter not_eof_leaf (map strip (leaves t)) = map xleaf (filter not_eofx (prep_runx (raw_lex txt)))).
Proof.
  intros H. destruct (parse_with_ht _ _ _ _ _ _ _ H) as ((h & (T & st0 & r0 & len & pre & HH & EN & _ & _ & _ & BL & _) & _) & TL & _).
  exists h, st0, r0. split; [exact HH|].
  assert (L : map strip (leaves t) = map xleaf h) by (rewrite strip_leaves, TL; exact BL).
  split; [exact L|]. intros E. rewrite E in EN.
  pose proof (hist_runx _ _ _ _ _ _ _ (raw_lex_no_eof txt) HH EN) as R. split; [exact R|].
  rewrite L, (filter_map_comm xleaf not_eof_leaf not_eofx _ not_eof_leaf_xleaf), R. reflexivity.
Qed.

(** * 6. Well-nested arrangements: the delivered entries, entry by entry *)

Definition not_ppx (x : xentry) : bool := negb (tk_eqb (xkind x) T_PreProcessor).
Definition nontrivx (x : xentry) : bool := negb (is_trivia (xkind x)).

Lemma xent_selects_x : forall items, items_ok items = true -> forall ms,
  filter not_ppx (xent ms items) = map deliverx (snd (select ms items)).
Proof.
  apply (items_ind2
    (fun i => item_ok i = true -> forall ms, filter not_ppx (xent_item ms i) = map deliverx (snd (select_item ms i)))
    (fun l => items_ok l = true -> forall ms, filter not_ppx (xent ms l) = map deliverx (snd (select ms l)))).
  - intros t OK ms. cbn [xent_item select_item snd map filter].
    apply plain_tok_spec in OK. destruct OK as (_ & _ & _ & _ & _ & _ & G & _).
    unfold not_ppx, deliverx, xkind. cbn [fst]. rewrite G. reflexivity.
  - intros h OK ms. reflexivity.
  - intros k h th el en IHth IHel OK ms.
    rewrite item_ok_cond in OK. apply andb_true_iff in OK. destruct OK as [OK EN].
    apply andb_true_iff in OK. destruct OK as [OK EL]. apply andb_true_iff in OK. destruct OK as [HD TH].
    rewrite select_item_cond, xent_item_cond.
    destruct (taken k ms (rtext (h_name h))).
    + destruct el as [[et els]|]; rewrite !filter_app; cbn [filter not_ppx xkind ppx fst app];
        change (tk_eqb T_PreProcessor T_PreProcessor) with true; cbn [negb app]; rewrite app_nil_r;
        apply IHth; exact TH.
    + destruct el as [[et els]|].
      * cbn [el_ok] in EL. apply andb_true_iff in EL. destruct EL as [ET ELS].
        rewrite !filter_app; cbn [filter not_ppx xkind ppx fst app].
        change (tk_eqb T_PreProcessor T_PreProcessor) with true. cbn [negb app]. rewrite app_nil_r. apply (IHel ELS).
      * reflexivity.
  - intros _ ms. reflexivity.
  - intros i l IHi IHl OK ms. rewrite items_ok_cons in OK. apply andb_true_iff in OK. destruct OK as [OKi OKl].
    rewrite xent_cons, select_cons. cbn [snd]. rewrite filter_app, map_app, (IHi OKi), (IHl OKl). reflexivity.
Qed.

Lemma pruns_shape st raw l stf : pruns st raw l stf ->
  exists l' pre, l = l' ++ [(T_Eof, pre, None)] /\ Forall (fun x => not_eofx x = true) l'.
Proof.
  induction 1 as [st raw len st1 r1 pre HN E|st raw len st1 r1 pre e st2 l stf HN E T R IH
                  |st raw k len st1 r1 pre l stf HN E K1 K2 R IH].
  - exists [], pre. split; [reflexivity|constructor].
  - destruct IH as (l' & pre' & -> & F). exists ((T_Error, pre, e) :: l'), pre'. split; [reflexivity|].
    constructor; [reflexivity|exact F].
  - destruct IH as (l' & pre' & -> & F). exists ((k, pre, None) :: l'), pre'. split; [reflexivity|].
    constructor; [unfold not_eofx; cbn [xkind fst]; rewrite K1; reflexivity|exact F].
Qed.

Lemma xent_no_eof items : items_ok items = true -> Forall (fun x => not_eofx x = true) (xent [] items).
Proof.
  intros OK. destruct (run_items items OK) as (stf & _ & R).
  destruct (pruns_shape _ _ _ _ R) as (l' & pre & E & F). apply app_inj_tail in E. destruct E as [-> _]. exact F.
Qed.

Lemma runx_items_not_eof items : items_ok items = true ->
  filter not_eofx (prep_runx (render_items items)) = xent [] items.
Proof.
  intros OK. destruct (run_items_eq items OK) as (_ & B & _).
  rewrite B, filter_app, (filter_true _ _ (xent_no_eof items OK)). cbn. apply app_nil_r.
Qed.

Lemma nontrivx_not_ppx x : nontrivx x = true -> not_ppx x = true.
Proof.
  unfold nontrivx, not_ppx. destruct (tk_eqb (xkind x) T_PreProcessor) eqn:K; [|reflexivity].
  apply LexBasics.tk_eqb_eq in K. rewrite K. intros H. exact H.
Qed.

Lemma xleaf_deliverx t : xleaf (deliverx t) = tok_leaf t.
Proof. unfold xleaf, deliverx, tok_leaf, raw_text. cbn [xkind xcov fst snd map concat]. rewrite app_nil_r. reflexivity. Qed.

(** a delivered entry of a well-nested arrangement that is not T_PreProcessor trivia is a selected token *)
Lemma xent_in_selected items x : items_ok items = true -> In x (xent [] items) -> not_ppx x = true ->
  exists tok, In tok (snd (select [] items)) /\ x = deliverx tok.
Proof.
  intros OK IN NP. assert (I2 : In x (filter not_ppx (xent [] items))) by (apply filter_In; auto).
  rewrite (xent_selects_x items OK) in I2. apply in_map_iff in I2. destruct I2 as (tok & E & I). eauto.
Qed.

(** (B) *)
Theorem parse_disabled_no_nodes p entry fuel txt t errs st items :
  parse_with fuel p entry txt = ParseOk t errs st ->
  raw_lex txt = render_items items -> items_ok items = true -> cur st = T_Eof ->
  filter vis_leaf (map strip (leaves t))
  = map tok_leaf (filter (fun tok => negb (is_trivia (rk tok))) (snd (select [] items)))
  /\ (forall tok, In tok (disabled [] items) ->
        exists c, In (S_PreProcessor, raw_text c) (map strip (leaves t)) /\ In tok c).
Proof.
  intros H RL OK E.
  destruct (parse_leaves_any_program _ _ _ _ _ _ _ H) as (h & st0 & r0 & HH & L & EOF).
  destruct (EOF E) as (R & _). rewrite RL, (runx_items_not_eof items OK) in R. split.
  - rewrite L.
    rewrite (filter_map_comm_in xleaf vis_leaf (fun x => nontrivx x && not_eofx x)).
    2:{ intros x IN. pose proof (hist_not_directive _ _ _ _ _ HH) as ND. rewrite Forall_forall in ND.
        unfold vis_leaf, xleaf, nontrivx, not_eofx. cbn [fst]. rewrite (sk_of_tk_trivia _ (ND x IN)), sk_of_tk_eof. reflexivity. }
    rewrite filter_andb, R, <- (filter_filter_imp not_ppx nontrivx _ nontrivx_not_ppx), (xent_selects_x items OK).
    rewrite (filter_map_comm deliverx nontrivx (fun tok => negb (is_trivia (rk tok)))) by (intros; reflexivity).
    rewrite map_map. apply map_ext. apply xleaf_deliverx.
  - intros tok IN. destruct (xent_covers_disabled items [] tok IN) as (c & I1 & I2). exists c. split; [|exact I2].
    rewrite L. change (S_PreProcessor, raw_text c) with (xleaf (ppx c)). apply in_map.
    rewrite <- R in I1. apply filter_In in I1. tauto.
Qed.

(** (C) every recorded error is the range of one delivered entry *)
Theorem parse_errors_any_program p entry fuel txt t errs st :
  parse_with fuel p entry txt = ParseOk t errs st ->
  exists h pre st0 r0, hist pinit (raw_lex txt) (h ++ [curx st pre]) st0 r0
    /\ map strip (leaves t) = map xleaf h
    /\ Forall (err_at false (h ++ [curx st pre])) errs.
Proof.
  intros H. destruct (parse_with_ht _ _ _ _ _ _ _ H) as ((h & (T & st0 & r0 & len & pre & HH & EN & ERW & _ & _ & BL & ER) & _) & TL & ->).
  exists h, pre, (after_save (cur st) (pp st)), (raw st).
  split; [exact (hist_snoc _ _ _ _ _ HH _ _ _ _ _ EN ERW)|].
  split; [rewrite strip_leaves, TL; exact BL|]. apply Forall_rev. exact ER.
Qed.

(** where an error may sit, for a well-nested arrangement parsed to the end *)
Definition err_on_selected (items : list item) (hall : list xentry) (e : N * N * parse_msg) (first_ok : bool) : Prop :=
  let '(lo, hi, _) := e in
  exists a x b, hall = a ++ x :: b /\ lo = hlen a /\ hi = lo + sumlen (xcov x)
    /\ ((first_ok = true /\ a = []) \/ xkind x = T_Eof
        \/ exists tok, In tok (snd (select [] items)) /\ is_trivia (rk tok) = false /\ x = deliverx tok).

Lemma err_at_selected strict items h xc e :
  items_ok items = true -> filter not_eofx h = xent [] items -> xkind xc = T_Eof ->
  err_at strict (h ++ [xc]) e -> err_on_selected items (h ++ [xc]) e (negb strict).
Proof.
  intros OK R XE. destruct e as [[lo hi] m]. intros (a & x & b & E & L & Hh & C).
  exists a, x, b. repeat split; try assumption.
  destruct C as [NT|(-> & ->)]; [|left; auto]. right.
  destruct (tk_eqb (xkind x) T_Eof) eqn:K; [left; apply LexBasics.tk_eqb_eq; exact K|right].
  assert (IN : In x (h ++ [xc])) by (rewrite E; apply in_or_app; right; left; reflexivity).
  apply in_app_or in IN. destruct IN as [IN|[<-|[]]]; [|rewrite XE in K; discriminate].
  assert (I2 : In x (filter not_eofx h)) by (apply filter_In; split; [exact IN|unfold not_eofx; rewrite K; reflexivity]).
  rewrite R in I2.
  destruct (xent_in_selected items x OK I2) as (tok & I3 & ->).
  { apply nontrivx_not_ppx. unfold nontrivx. rewrite NT. reflexivity. }
  exists tok. repeat split; [exact I3|exact NT].
Qed.

Lemma parse_errors_selected strict p entry fuel txt t errs st items :
  (parse_with fuel p entry txt = ParseOk t errs st ->
   HT strict txt st /\ tleaves t = bleaves (bld st) /\ errs = rev (ParserPrims.errs st)) ->
  parse_with fuel p entry txt = ParseOk t errs st ->
  raw_lex txt = render_items items -> items_ok items = true -> cur st = T_Eof ->
  exists hall st0 r0, hist pinit (raw_lex txt) hall st0 r0
    /\ Forall (fun e => err_on_selected items hall e (negb strict)) errs.
Proof.
  intros INV H RL OK E.
  destruct (INV H) as ((h & (T & st0 & r0 & len & pre & HH & EN & ERW & _ & _ & BL & ER) & _) & TL & ->).
  exists (h ++ [curx st pre]), (after_save (cur st) (pp st)), (raw st).
  split; [exact (hist_snoc _ _ _ _ _ HH _ _ _ _ _ EN ERW)|].
  apply Forall_rev. eapply Forall_impl; [|exact ER]. intros e. apply err_at_selected; [exact OK| |exact E].
  rewrite E in EN. rewrite (hist_runx _ _ _ _ _ _ _ (raw_lex_no_eof txt) HH EN), RL. apply runx_items_not_eof, OK.
Qed.

Theorem parse_disabled_no_errors p entry fuel txt t errs st items :
  parse_with fuel p entry txt = ParseOk t errs st ->
  raw_lex txt = render_items items -> items_ok items = true -> cur st = T_Eof ->
  exists hall st0 r0, hist pinit (raw_lex txt) hall st0 r0
    /\ Forall (fun e => err_on_selected items hall e true) errs.
Proof. intros H. exact (parse_errors_selected false _ _ _ _ _ _ _ items (parse_with_ht _ _ _ _ _ _ _) H). Qed.

(** * 7. Programs that skip before anything else (D) *)

(** weak invariant: between lex and save, every error so far on a non-trivia entry; nothing is known
    about the look-ahead (it may be trivia: the state right after [p_new]) *)
Definition W (txt : text) (s : pst) : Prop := exists h, HTileH true txt s h.

Inductive verdict := Harmless | Done | Bad.

(** a static criterion: the expression certainly reaches [skip] / [eat] before it can report an error,
    inspect the look-ahead in a way that matters, or finish *)
Fixpoint lead (n : nat) (p : prog) (e : expr) {struct n} : verdict :=
  match n with
  | O => Bad
  | S m =>
      match e with
      | EB _ | EVar _ => Harmless
      | EPrim (PStartNode _) | EPrim PCheckpoint | EPrim (PAtSet _) => Harmless
      | EPrim PSkip | EPrim PEat => Done
      | ESeq a b => match lead m p a with Done => Done | Harmless => lead m p b | Bad => Bad end
      | ECall f None =>
          match fn_body p f with
          | Some body => match lead m p body with Done => Done | _ => Bad end
          | None => Bad
          end
      | _ => Bad
      end
  end.

Definition res_val (P : pst -> Prop) (r : res) : Prop :=
  match r with
  | RVal _ _ s => P s
  | RBrk _ _ | RRet _ _ _ => False
  | RPanic | ROOF => True
  end.

Lemma gexec_ht txt p n e en s : HT true txt s -> res_inv (HT true txt) (gexec n p e en s).
Proof. apply gexec_inv. intros; apply exec_prim_ht; assumption. Qed.

Lemma lead_sound txt p : forall n e,
  (lead n p e = Harmless -> forall fuel en s, W txt s -> res_val (W txt) (gexec fuel p e en s)) /\
  (lead n p e = Done -> forall fuel en s, W txt s -> res_inv (HT true txt) (gexec fuel p e en s)).
Proof.
  induction n as [|m IH]; intros e; [split; discriminate|].
  destruct e as [b|x|a|pr|f arg|a b|c a b|c b| |a|x a]; cbn [lead]; split; intros L; try discriminate L;
    intros fuel en s Ws; (destruct fuel as [|fu]; [exact I|]); cbn [gexec].
  - (* EB *) exact Ws.
  - (* EVar *) destruct (env_get en x); cbn; auto.
  - (* EPrim harmless *)
    destruct pr; try discriminate L; cbn [exec_prim res_val].
    + destruct Ws as (h & H). exists h. apply p_start_node_h, H.
    + exact Ws.
    + exact Ws.
  - (* EPrim done *)
    destruct Ws as (h & H). destruct pr; try discriminate L; cbn [exec_prim]; apply lift_inv; intros s' E.
    + eapply p_eat_ht; eassumption.
    + eapply p_skip_all_ht; eassumption.
  - (* ECall harmless: impossible *)
    exfalso. destruct arg; [discriminate|]. destruct (fn_body p f); [|discriminate]. destruct (lead m p e); discriminate.
  - (* ECall done *)
    destruct arg; [discriminate|]. destruct (fn_body p f) as [body|]; [|discriminate].
    destruct (lead m p body) eqn:LB; try discriminate.
    pose proof (proj2 (IH body) LB fu [] s Ws) as R.
    destruct (gexec fu p body [] s); cbn in *; auto.
  - (* ESeq harmless *)
    destruct (lead m p a) eqn:LA; try discriminate.
    pose proof (proj1 (IH a) LA fu en s Ws) as RA.
    destruct (gexec fu p a en s); cbn in RA |- *; try contradiction; try exact I.
    apply (proj1 (IH b) L). exact RA.
  - (* ESeq done *)
    destruct (lead m p a) eqn:LA; try discriminate.
    + pose proof (proj1 (IH a) LA fu en s Ws) as RA.
      destruct (gexec fu p a en s); cbn in RA |- *; try contradiction; try exact I.
      apply (proj2 (IH b) L). exact RA.
    + pose proof (proj2 (IH a) LA fu en s Ws) as RA.
      destruct (gexec fu p a en s); cbn in RA |- *; try exact RA; try exact I.
      apply gexec_ht. exact RA.
Qed.

Theorem parse_with_ht_strict n p entry fuel txt t errs st :
  lead n p (ECall entry None) = Done ->
  parse_with fuel p entry txt = ParseOk t errs st ->
  HT true txt st /\ tleaves t = bleaves (bld st) /\ errs = rev (ParserPrims.errs st).
Proof.
  intros L. apply parse_with_res. apply (proj2 (lead_sound txt p n (ECall entry None)) L).
  exists []. apply p_new_h.
Qed.

Lemma grammar_lead : lead 8 grammar_prog (ECall grammar_entry None) = Done.
Proof. vm_compute. reflexivity. Qed.

(** (D) for a program that skips first, every error is the range of a NON-TRIVIA delivered entry *)
Theorem parse_errors_strict n p entry fuel txt t errs st :
  lead n p (ECall entry None) = Done ->
  parse_with fuel p entry txt = ParseOk t errs st ->
  exists h pre st0 r0, hist pinit (raw_lex txt) (h ++ [curx st pre]) st0 r0
    /\ map strip (leaves t) = map xleaf h
    /\ Forall (err_at true (h ++ [curx st pre])) errs.
Proof.
  intros LD H. destruct (parse_with_ht_strict _ _ _ _ _ _ _ _ LD H) as ((h & (T & st0 & r0 & len & pre & HH & EN & ERW & _ & _ & BL & ER) & _) & TL & ->).
  exists h, pre, (after_save (cur st) (pp st)), (raw st).
  split; [exact (hist_snoc _ _ _ _ _ HH _ _ _ _ _ EN ERW)|].
  split; [rewrite strip_leaves, TL; exact BL|]. apply Forall_rev. exact ER.
Qed.

Theorem grammar_errors_non_trivia fuel txt t errs st :
  parse_with fuel grammar_prog grammar_entry txt = ParseOk t errs st ->
  exists h pre st0 r0, hist pinit (raw_lex txt) (h ++ [curx st pre]) st0 r0
    /\ map strip (leaves t) = map xleaf h
    /\ Forall (err_at true (h ++ [curx st pre])) errs.
Proof. exact (parse_errors_strict _ _ _ _ _ _ _ _ grammar_lead). Qed.

Theorem grammar_disabled_no_errors fuel txt t errs st items :
  parse_with fuel grammar_prog grammar_entry txt = ParseOk t errs st ->
  raw_lex txt = render_items items -> items_ok items = true -> cur st = T_Eof ->
  exists hall st0 r0, hist pinit (raw_lex txt) hall st0 r0
    /\ Forall (fun e => err_on_selected items hall e false) errs.
Proof.
  intros H. exact (parse_errors_selected true _ _ _ _ _ _ _ items (parse_with_ht_strict _ _ _ _ _ _ _ _ grammar_lead) H).
Qed.

(** * 8. Concrete programs texts (non-vacuity; used by the Examples of props/C15.v) *)

(** #ifdef A
    .. <dquote>x           -- an unterminated string literal
    #define B
    #endif
    class C;
    #ifdef B
    }
    #endif                 -- A undefined: the first region (two raw Error tokens, a #define) is disabled;
                              B is therefore undefined and the second region (a stray brace) is disabled too *)
Definition ex_src : text := [35; 105; 102; 100; 101; 102; 32; 65; 10; 46; 46; 32; 34; 120; 10; 35; 100; 101; 102; 105; 110; 101; 32; 66; 10; 35; 101; 110; 100; 105; 102; 10; 99; 108; 97; 115; 115; 32; 67; 59; 10; 35; 105; 102; 100; 101; 102; 32; 66; 10; 125; 10; 35; 101; 110; 100; 105; 102; 10].
Definition ex_tk (i : nat) : rtok := nth i (raw_lex ex_src) eof_tok.
Definition ex_src_items : list item :=
  [ ICond IfDef (mkhead (ex_tk 0) [ex_tk 1] (ex_tk 2))
      [ITok (ex_tk 3); ITok (ex_tk 4); ITok (ex_tk 5); ITok (ex_tk 6);
       IDefine (mkhead (ex_tk 7) [ex_tk 8] (ex_tk 9)); ITok (ex_tk 10)] None (ex_tk 11);
    ITok (ex_tk 12); ITok (ex_tk 13); ITok (ex_tk 14); ITok (ex_tk 15); ITok (ex_tk 16); ITok (ex_tk 17);
    ICond IfDef (mkhead (ex_tk 18) [ex_tk 19] (ex_tk 20))
      [ITok (ex_tk 21); ITok (ex_tk 22); ITok (ex_tk 23)] None (ex_tk 24);
    ITok (ex_tk 25) ].

(** #ifdef A
    ..
    #endif
    }                      -- the disabled ".." yields no diagnostic, the enabled stray brace yields one *)
Definition ex_src2 : text := [35; 105; 102; 100; 101; 102; 32; 65; 10; 46; 46; 10; 35; 101; 110; 100; 105; 102; 10; 125; 10].
Definition ex_tk2 (i : nat) : rtok := nth i (raw_lex ex_src2) eof_tok.
Definition ex_src2_items : list item :=
  [ ICond IfDef (mkhead (ex_tk2 0) [ex_tk2 1] (ex_tk2 2)) [ITok (ex_tk2 3); ITok (ex_tk2 4); ITok (ex_tk2 5)] None (ex_tk2 6);
    ITok (ex_tk2 7); ITok (ex_tk2 8); ITok (ex_tk2 9) ].

Definition parse_view (o : parse_out) :=
  match o with
  | ParseOk t errs st => Some (map strip (leaves t), errs, cur st)
  | _ => None
  end.
