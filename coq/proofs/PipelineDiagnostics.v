(** PipelineDiagnostics (group symmap): the diagnostics of the model pipeline AS A WHOLE ([Indexer.diagnostics]: the
    syntax errors of every workspace file, then the index diagnostics).
    - [perrs_spec]: the parse-error ranges of the Core workspace built by [Pipeline.analyze] are exactly the errors the
      modelled parser reports for the workspace files, each tagged with the number of its file;
    - [c13_pipeline_syntax_errors]: every syntax error of every workspace file appears in the diagnostics, at its range;
    - [c17_pipeline_diagnostics]: EVERY diagnostic range of the pipeline is valid in the texts of the analysis (syntax
      errors: C02/C17 tree part; index diagnostics: proofs/IndexerRanges.v). *)
From Coq Require Import List NArith Bool Lia.
From TG.Gen Require Import GenTokens GenGrammar.
From TG.Model Require Import Chars Tree ParserPrims GInterp CoreAst CoreParts AstToCore Scope Indexer IndexerOps Pipeline.
From TG.Model Require SymbolMap SymbolWf.
From TG.Proofs Require Import PipelineProofs BridgeSymbol.
From TG.Proofs Require SymbolRangesTree DiagLocal IndexerPipeline.
Import ListNotations.
Open Scope N_scope.

Lemma number_from_In {A} : forall (l : list A) s k x, In (k, x) (number_from s l) <-> exists j, k = s + N.of_nat j /\ nth_error l j = Some x.
Proof.
  induction l as [|y l IH]; intros s k x; cbn [number_from].
  - split; [intros []|intros (j & _ & H); destruct j; discriminate].
  - split.
    + intros [H|H].
      * inversion H; subst. exists 0%nat. split; [lia|reflexivity].
      * apply IH in H. destruct H as (j & -> & H). exists (S j). split; [lia|exact H].
    + intros (j & -> & H). destruct j as [|j]; cbn in H.
      * left. inversion H. f_equal. lia.
      * right. apply IH. exists j. split; [lia|exact H].
Qed.

(** the parse-error ranges of the assembled workspace *)
Theorem perrs_spec : forall pfuel cfuel files root a w,
  analyze pfuel cfuel files root = Some a -> an_core a = Ok w ->
  forall r, In r (ws_perrs w) <->
    exists k f p lo hi m, nth_error (an_files a) k = Some (f, p) /\ In (lo, hi, m) (pf_errors p) /\ r = mkR (N.of_nat k) lo hi.
Proof.
  intros pfuel cfuel files root a w A E r.
  destruct (analyze_assemble _ _ _ _ _ A) as (ids & dl & wsf & -> & _ & _).
  unfold assemble in E. cbn [an_core] in E.
  destruct (firstErr (map (core_of_pfile ids dl) (number_from 0 wsf))) as [fl|e|]; try discriminate.
  inversion E; subst w. cbn [ws_perrs an_files]. clear E. rewrite in_map_iff. split.
  - intros ([[[k0 lo] hi] m] & <- & Hin). apply in_flat_map in Hin. destruct Hin as ([k [f p]] & Hk & Hin).
    apply in_map_iff in Hin. destruct Hin as ([[lo' hi'] m'] & Heq & Hin). cbn [fst snd] in Heq. inversion Heq; subst.
    apply number_from_In in Hk. destruct Hk as (j & -> & Hj). exists j, f, p, lo, hi, m. cbn [fst snd].
    split; [exact Hj|]. split; [exact Hin|]. f_equal; lia.
  - intros (k & f & p & lo & hi & m & Hk & Hin & ->). exists (N.of_nat k, lo, hi, m). split; [reflexivity|].
    apply in_flat_map. exists (N.of_nat k, (f, p)). split.
    + apply number_from_In. exists k. split; [lia|exact Hk].
    + apply in_map_iff. exists (lo, hi, m). split; [reflexivity|exact Hin].
Qed.

(** every syntax error of every workspace file is a diagnostic of the pipeline, at its range *)
Theorem c13_pipeline_syntax_errors : forall pfuel cfuel files root a w,
  analyze pfuel cfuel files root = Some a -> an_core a = Ok w ->
  forall k f p t errs st lo hi m,
    nth_error (an_files a) k = Some (f, p) -> pf_out p = ParseOk t errs st -> In (lo, hi, m) errs ->
    In (mkR (N.of_nat k) lo hi, DSyntax) (an_diagnostics w).
Proof.
  intros pfuel cfuel files root a w A E k f p t errs st lo hi m Hk Ho Hin. unfold an_diagnostics.
  apply DiagLocal.syntax_error_reported. apply (perrs_spec _ _ _ _ _ _ A E). exists k, f, p, lo, hi, m.
  split; [exact Hk|]. split; [unfold pf_errors; rewrite Ho; exact Hin|reflexivity].
Qed.

(** ... and the parse of a workspace file is the modelled parser's answer on its text *)
Theorem pipeline_files_parsed : forall pfuel cfuel files root a,
  analyze pfuel cfuel files root = Some a ->
  forall k f p, nth_error (an_files a) k = Some (f, p) ->
    exists fuel, pf_out p = parse_with fuel grammar_prog grammar_entry (pf_text p).
Proof.
  intros pfuel cfuel files root a A k f p Hk. destruct (analyze_assemble _ _ _ _ _ A) as (ids & dl & wsf & -> & _ & OKs).
  cbn [an_files] in Hk. rewrite Forall_forall in OKs. apply (OKs (f, p)). eapply nth_error_In. exact Hk.
Qed.

(** EVERY diagnostic range of the pipeline is valid in the texts of the analysis *)
Theorem c17_pipeline_diagnostics : forall pfuel cfuel files root a w,
  analyze pfuel cfuel files root = Some a -> an_core a = Ok w ->
  forall d, In d (an_diagnostics w) ->
    SymbolWf.range_valid (an_texts a) (SymbolMap.mkFR (r_file (fst d)) (r_lo (fst d)) (r_hi (fst d))) = true.
Proof.
  intros pfuel cfuel files root a w A E d Hd. unfold an_diagnostics, diagnostics in Hd. apply in_app_or in Hd. destruct Hd as [Hd|Hd].
  - apply in_map_iff in Hd. destruct Hd as (r & <- & Hr). cbn [fst].
    apply (perrs_spec _ _ _ _ _ _ A E) in Hr. destruct Hr as (k & f & p & lo & hi & m & Hk & Hin & ->). cbn [r_file r_lo r_hi].
    destruct (pipeline_files_parsed _ _ _ _ _ A k f p Hk) as (fuel & Ho).
    unfold pf_errors in Hin. destruct (pf_out p) as [t errs st| |] eqn:Eo; try (destruct Hin).
    assert (G : SymbolMap.fmap_get (an_texts a) (N.of_nat k) = Some (pf_text p)).
    { unfold an_texts. pose proof (fmap_get_numbered (an_files a) 0 k f p Hk) as G. rewrite N.add_0_l in G. exact G. }
    destruct (SymbolRangesTree.c17_parse_ranges_valid fuel (pf_text p) t errs st (an_texts a) (N.of_nat k) G (eq_sym Ho)) as (H1 & _).
    exact (H1 lo hi m Hin).
  - destruct (IndexerPipeline.c17_pipeline_core _ _ _ _ _ _ A E) as (_ & _ & _ & _ & H5).
    apply (H5 (cv (fst d))). cbn [abs SymbolMap.sm_diags]. apply in_map_iff. exists d. split; [reflexivity|exact Hd].
Qed.
Print Assumptions perrs_spec.
Print Assumptions c13_pipeline_syntax_errors.
Print Assumptions c17_pipeline_diagnostics.
