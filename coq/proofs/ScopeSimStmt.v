(** ScopeSimStmt: agreement of the indexer model with the declarative resolver ScopeSpec for the block
    statements of the fragment: assert, dump, defvar, foreach, if/else, let (any nesting), over values of the
    fragment [frag_value].  (Statements that declare records - class, def, defm, defset, multiclass - are the
    next stage; they need the arena invariants.) *)
From Coq Require Import List NArith Bool Lia Arith.
From TG.Model Require Import CoreAst Scope BangOps Indexer ScopeSpec.
From TG.Proofs Require Import ScopeBalance ScopeFrame GenericResp ScopeSim.
Import ListNotations.
Open Scope N_scope.

Fixpoint fragA_stmt (x : stmt) : bool :=
  let stmts := fix go (l : list stmt) : bool := match l with [] => true | y :: r => fragA_stmt y && go r end in
  match x with
  | SAssert c m => frag_value c && frag_value m
  | SDefvar _ v | SDump v => frag_value v
  | SForeach _ init b => match init with FeRange => true | FeValue v => frag_value v end && stmts b
  | SIf c th el => frag_value c && stmts th && match el with Some b => stmts b | None => true end
  | SLet vs b => forallb frag_value vs && stmts b
  | _ => false
  end.
Fixpoint fragA_stmts (l : list stmt) : bool :=
  match l with [] => true | y :: r => fragA_stmt y && fragA_stmts r end.

(** the specification's statement list as a top-level function *)
Lemma spec_stmts_cons : forall f e y r,
    spec_stmts f e (y :: r)
    = let '(ev1, e1) := spec_stmt f e y in let '(ev2, e2) := spec_stmts f e1 r in (ev1 ++ ev2, e2).
Proof. reflexivity. Qed.

(** block statements do not touch the global tables of the environment *)
Definition same_globals (e e' : env) : Prop :=
  e_cls e' = e_cls e /\ e_mcs e' = e_mcs e /\ e_defs e' = e_defs e /\ e_dsets e' = e_dsets e.
Lemma same_globals_refl : forall e, same_globals e e. Proof. intros; repeat split. Qed.
Lemma same_globals_trans : forall a b c, same_globals a b -> same_globals b c -> same_globals a c.
Proof. intros a b c (A1 & A2 & A3 & A4) (B1 & B2 & B3 & B4). repeat split; congruence. Qed.
Lemma same_globals_add_var : forall e n r, same_globals e (add_var e n r).
Proof. intros. unfold add_var. destruct (e_frames e); repeat split. Qed.
Lemma same_globals_push : forall e vs, same_globals e (push_vars e vs).
Proof. intros; repeat split. Qed.
Lemma leave_same : forall e e1, same_globals e e1 -> leave e e1 = e.
Proof. intros [fr c m d ds] [fr1 c1 m1 d1 ds1] (A1 & A2 & A3 & A4). simpl in *. subst. reflexivity. Qed.

Lemma spec_local : forall f l e,
    (fix go (e : env) (l : list stmt) {struct l} : list ev * env :=
       match l with
       | [] => ([], e)
       | y :: r => let '(ev1, e1) := spec_stmt f e y in let '(ev2, e2) := go e1 r in (ev1 ++ ev2, e2)
       end) e l = spec_stmts f e l.
Proof.
  intros f l. induction l as [|y r IH]; intros e; [reflexivity|].
  simpl. destruct (spec_stmt f e y) as [ev1 e1]. rewrite IH. reflexivity.
Qed.

Lemma spec_foreach : forall f e i init b,
    spec_stmt f e (SForeach i init b)
    = let ev0 := match init with FeRange => [] | FeValue v => spec_value f e v end in
      let '(ev1, e1) := spec_stmts f (push_vars e [(i_name i, at_file f (i_rng i))]) b in
      (ev0 ++ ev1, leave e e1).
Proof. intros. simpl. rewrite spec_local. reflexivity. Qed.
Lemma spec_if : forall f e c th el,
    spec_stmt f e (SIf c th el)
    = let '(ev1, e1) := spec_stmts f (push_vars e []) th in
      let '(ev2, e2) := match el with
                        | Some b => spec_stmts f (push_vars (leave e e1) []) b
                        | None => ([], e1)
                        end in
      (spec_value f e c ++ ev1 ++ ev2, leave e e2).
Proof. intros. simpl. rewrite spec_local. destruct (spec_stmts f (push_vars e []) th). destruct el; [rewrite spec_local|]; reflexivity. Qed.
Lemma spec_let : forall f e vs b,
    spec_stmt f e (SLet vs b)
    = let '(ev1, e1) := spec_stmts f (push_vars e []) b in (spec_values f e vs ++ ev1, leave e e1).
Proof. intros. simpl. rewrite spec_local. reflexivity. Qed.

(** ---- a few more steps *)
Lemma StepV_refl : forall s, StepV s s [].
Proof. intros. apply Step_StepV, Step_refl. Qed.
Lemma Pre_StepV : forall f e s s' E, Pre f e s -> Step s s' E -> Pre f e s'.
Proof. intros. eapply Pre_Step; eassumption. Qed.
Lemma StepV_nonempty : forall s s' E, StepV s s' E -> s_scopes s <> [] -> s_scopes s' <> [].
Proof.
  intros s s' E [_ _ [vs H] _] Hn. rewrite H. destruct (s_scopes s); [congruence|simpl; discriminate].
Qed.

Lemma Step_add_leaf : forall s l, Step s (snd (add_leaf l s)) [].
Proof.
  intros. unfold add_leaf; simpl. unfold add_pos. destruct (rng_empty (lf_loc l)); simpl; split; simpl; auto;
    repeat split; auto; eexists; reflexivity.
Qed.

Lemma leaves_add_leaf : forall l s, s_leaves (snd (add_leaf l s)) = s_leaves s ++ [l].
Proof. intros. unfold add_leaf; simpl. unfold add_pos. destruct (rng_empty (lf_loc l)); reflexivity. Qed.

(** a foreach block: the loop variable is the only thing the new scope contributes *)
Lemma resolve_id_pushed_foreach : forall nmv vid s nm,
    resolve_id (pushed (KForeach nmv vid) s) nm
    = if name_eqb nm nmv then Some (SyLeaf vid) else resolve_id s nm.
Proof.
  intros. unfold resolve_id, find_local, pushed; simpl.
  unfold scope_find at 1, sc_find_variable; simpl. destruct (name_eqb nm nmv); reflexivity.
Qed.
Lemma Pre_pushed_foreach : forall f e s i vid loc,
    Pre f e s -> option_map lf_loc (nthN (s_leaves s) vid) = Some loc ->
    Pre f (push_vars e [(i_name i, loc)]) (pushed (KForeach (i_name i) vid) s).
Proof.
  intros f e s i vid loc [P1 P2 P3 P4 P5 P6 P7] Hl. split; auto.
  - intros nm d H. unfold lookup_view. rewrite resolve_id_pushed_foreach.
    unfold lookup_id, push_vars in H. simpl in H. unfold frame_lookup at 1 in H. simpl in H.
    destruct (name_eqb nm (i_name i)).
    + injection H as <-. simpl. exact Hl.
    + apply P2. exact H.
  - intros nm H. rewrite resolve_id_pushed_foreach.
    unfold lookup_id, push_vars in H. simpl in H. unfold frame_lookup at 1 in H. simpl in H.
    destruct (name_eqb nm (i_name i)); [discriminate|]. apply P3. exact H.
Qed.

(** ---------------------------------------------------------------------------------------------
    block statements *)
Record ResA (f : N) (e : env) (s s' : st) (E : list ev) (e' : env) : Prop := mkResA {
  ra_step : StepV s s' E;
  ra_pre : Pre f e' s';
  ra_glob : same_globals e e';
  ra_frames : e_frames e' <> [] }.

Definition sim_A (files : list (list stmt)) (n : nat) : Prop := forall x f e s,
    fragA_stmt x = true -> Pre f e s -> e_frames e <> [] -> s_scopes s <> [] ->
    forallb resolved (fst (spec_stmt f e x)) = true ->
    s_bad (snd (index_stmt files n x s)) = false ->
    ResA f e s (snd (index_stmt files n x s)) (fst (spec_stmt f e x)) (snd (spec_stmt f e x)).

Lemma BM_stmts : forall files n l, resp BadMono (iterM (index_stmt files n) l).
Proof. intros. apply (resp_iterM BadMono BM_refl BM_trans). intros; apply BM_index_stmt. Qed.

Lemma stmtsA_sim : forall files n, sim_A files n -> forall l f e s,
    fragA_stmts l = true -> Pre f e s -> e_frames e <> [] -> s_scopes s <> [] ->
    forallb resolved (fst (spec_stmts f e l)) = true ->
    s_bad (snd (iterM (index_stmt files n) l s)) = false ->
    ResA f e s (snd (iterM (index_stmt files n) l s)) (fst (spec_stmts f e l)) (snd (spec_stmts f e l)).
Proof.
  intros files n IH l. induction l as [|y r IHl]; intros f e s Hf P He Hs HR Hb.
  - simpl. split; [apply StepV_refl|exact P|apply same_globals_refl|exact He].
  - simpl in Hf. apply andb_true_iff in Hf. destruct Hf as [Hf1 Hf2].
    rewrite spec_stmts_cons in *. simpl in Hb |- *. unfold seq in *.
    destruct (spec_stmt f e y) as [ev1 e1] eqn:E1.
    destruct (spec_stmts f e1 r) as [ev2 e2] eqn:E2. simpl in *.
    rewrite forallb_app in HR. apply andb_true_iff in HR. destruct HR as [HR1 HR2].
    assert (Hb1 : s_bad (snd (index_stmt files n y s)) = false)
      by (eapply (bad_false_before _ (iterM (index_stmt files n) r)); [apply BM_stmts|exact Hb]).
    pose proof (IH y f e s Hf1 P He Hs) as R1. rewrite E1 in R1. simpl in R1.
    destruct (R1 HR1 Hb1) as [S1 P1 G1 F1]. clear R1.
    pose proof (IHl f e1 (snd (index_stmt files n y s)) Hf2 P1 F1 (StepV_nonempty _ _ _ S1 Hs)) as R2.
    rewrite E2 in R2. simpl in R2. destruct (R2 HR2 Hb) as [S2 P2 G2 F2]. clear R2.
    split; [eapply StepV_trans; eassumption|exact P2|eapply same_globals_trans; eassumption|exact F2].
Qed.

Section StmtCasesA.
  Variable files : list (list stmt).
  Variable n : nat.
  Hypothesis IH : sim_A files n.

  (** a block statement list run in a fresh plain block *)
  Lemma block_sim : forall k b f e s,
      plain_kind k = true -> fragA_stmts b = true -> Pre f e s -> e_frames e <> [] ->
      forallb resolved (fst (spec_stmts f (push_vars e []) b)) = true ->
      s_bad (snd (scoped k (iterM (index_stmt files n) b) s)) = false ->
      Step s (snd (scoped k (iterM (index_stmt files n) b) s)) (fst (spec_stmts f (push_vars e []) b))
      /\ same_globals e (snd (spec_stmts f (push_vars e []) b)).
  Proof.
    intros k b f e s Hk Hf P He HR Hb. apply scoped_bad in Hb.
    destruct (stmtsA_sim files n IH b f (push_vars e []) (pushed k s) Hf) as [S1 _ G1 _]; auto.
    - now apply Pre_pushed.
    - discriminate.
    - discriminate.
    - split; [now apply scoped_simV|]. eapply same_globals_trans; [apply same_globals_push|exact G1].
  Qed.

  Lemma BM_block : forall k b, resp BadMono (scoped k (iterM (index_stmt files n) b)).
  Proof. intros. apply (r_scoped BadMono BM_refl BM_trans); try bm_prim. apply BM_stmts. Qed.

  Lemma case_A : sim_A files (S n).
  Proof.
    intros x f e s Hf P He Hs HR Hb. destruct x; try discriminate.
    - (* assert *)
      simpl in Hf. apply andb_true_iff in Hf. destruct Hf as [Hfc Hfm].
      change (spec_stmt f e (SAssert c m)) with (spec_value f e m ++ spec_value f e c, e) in *. simpl in HR |- *.
      rewrite forallb_app in HR. apply andb_true_iff in HR. destruct HR as [HR1 HR2].
      simpl in Hb. unfold seq in *. simpl in *.
      assert (Hb1 : s_bad (snd (index_value n m s)) = false)
        by (eapply (bad_false_before _ (index_value n c)); [apply BM_index_value|exact Hb]).
      pose proof (value_agrees n m f e s Hfm P HR1 Hb1) as S1.
      pose proof (value_agrees n c f e _ Hfc (Pre_Step _ _ _ _ _ P S1) HR2 Hb) as S2.
      split; [apply Step_StepV; eapply Step_trans; eassumption| |apply same_globals_refl|exact He].
      eapply Pre_Step; [eapply Pre_Step; eassumption|exact S2].
    - (* defvar *)
      change (spec_stmt f e (SDefvar i v)) with (spec_value f e v, add_var e (i_name i) (at_file f (i_rng i))) in *.
      simpl in Hf, HR, Hb |- *. unfold index_defvar, bind, here, get, try_ in *. simpl in *.
      destruct (index_value n v s) as [o s1] eqn:E1. simpl in *.
      set (l := mkLeaf LVar (i_name i) match o with Some t => t | None => MUnknown end false
                       {| r_file := current_file s; r_lo := r_lo (i_rng i); r_hi := r_hi (i_rng i) |}) in *.
      assert (Hb1 : s_bad s1 = false).
      { eapply (bad_false_before _ (scopes_add_variable l)); [bm_prim|exact Hb]. }
      assert (S1 : Step s s1 (spec_value f e v)).
      { replace s1 with (snd (index_value n v s)) by now rewrite E1. apply value_agrees; auto. now rewrite E1. }
      assert (P1 : Pre f e s1) by (eapply Pre_Step; eassumption).
      destruct (s_scopes s1) as [|c t] eqn:Esc; [destruct S1 as [_ _ Sc _]; congruence|].
      fold (with_var s1 l).
      assert (Hl : l = mkLeaf LVar (i_name i) match o with Some t => t | None => MUnknown end false
                          (mkR f (r_lo (i_rng i)) (r_hi (i_rng i)))).
      { unfold l. now rewrite (pre_file f e s P). }
      split.
      + rewrite <- (app_nil_r (spec_value f e v)). eapply StepV_trans; [apply Step_StepV; exact S1|].
        eapply StepV_with_var; eassumption.
      + rewrite Hl. apply (Pre_with_var f e s1 i _ c t); assumption.
      + apply same_globals_add_var.
      + unfold add_var. destruct (e_frames e); [congruence|discriminate].
    - (* dump *)
      change (spec_stmt f e (SDump v)) with (spec_value f e v, e) in *. simpl in Hf, HR, Hb |- *.
      unfold seq in *. simpl in *.
      pose proof (value_agrees n v f e s Hf P HR Hb) as S1.
      split; [apply Step_StepV; exact S1|eapply Pre_Step; eassumption|apply same_globals_refl|exact He].
    - (* foreach *)
      simpl in Hf. apply andb_true_iff in Hf. destruct Hf as [Hfi Hfb].
      assert (Hfb' : fragA_stmts body = true).
      { clear -Hfb. induction body as [|y r IHr]; [reflexivity|]. simpl in *.
        apply andb_true_iff in Hfb. destruct Hfb as [H1 H2]. rewrite H1. simpl. now apply IHr. }
      rewrite spec_foreach in *.
      set (e2 := push_vars e [(i_name i, at_file f (i_rng i))]) in *.
      destruct (spec_stmts f e2 body) as [ev1 e1] eqn:Eb. simpl in HR |- *.
      rewrite forallb_app in HR. apply andb_true_iff in HR. destruct HR as [HR0 HR1].
      simpl in Hb |- *. unfold bind at 1 in Hb. unfold bind at 1. unfold here, get in *. simpl in *.
      unfold bind at 1 in Hb. unfold bind at 1. unfold try_ in *.
      set (minit := match init with
                    | FeRange => ret MInt
                    | FeValue v => bind (index_value n v) (fun t => lift (element_typ t))
                    end) in *.
      set (ev0 := match init with FeRange => [] | FeValue v => spec_value f e v end) in *.
      (* the initialiser *)
      assert (BMi : resp BadMono minit).
      { unfold minit. destruct init; [apply (resp_ret BadMono BM_refl)|].
        apply (resp_bind BadMono BM_trans); [apply BM_index_value|intros; apply (resp_lift BadMono BM_refl)]. }
      destruct (minit s) as [o s1] eqn:Ei. simpl in *.
      set (loc := {| r_file := current_file s; r_lo := r_lo (i_rng i); r_hi := r_hi (i_rng i) |}) in *.
      set (lf := mkLeaf LVar (i_name i) match o with Some t => t | None => MUnknown end false loc) in *.
      unfold bind at 1 in Hb. unfold bind at 1.
      assert (Hadd : add_leaf lf s1 = (Some (lenN (s_leaves s1)), snd (add_leaf lf s1))) by reflexivity.
      rewrite Hadd in *. simpl in Hb |- *.
      set (s2 := snd (add_leaf lf s1)) in *.
      assert (Hb2 : s_bad s2 = false)
        by (eapply (bad_false_before _ (scoped (KForeach (i_name i) (lenN (s_leaves s1))) (iterM (index_stmt files n) body)));
            [apply BM_block|exact Hb]).
      assert (Hb1 : s_bad s1 = false) by (eapply (bad_false_before _ (add_leaf lf)); [bm_prim|exact Hb2]).
      assert (S0 : Step s s1 ev0).
      { unfold minit, ev0 in *. destruct init as [|v].
        - injection Ei as _ <-. apply Step_refl.
        - unfold bind in Ei. destruct (index_value n v s) as [[t|] s1'] eqn:Ev; simpl in Ei;
            injection Ei as _ <-; replace s1' with (snd (index_value n v s)) by (now rewrite Ev);
            apply value_agrees; auto; now rewrite Ev. }
      assert (S1 : Step s1 s2 []) by apply Step_add_leaf.
      assert (P2 : Pre f e s2) by (eapply Pre_Step; [eapply Pre_Step; eassumption|exact S1]).
      assert (Hloc : loc = at_file f (i_rng i)) by (unfold loc, at_file; now rewrite (pre_file f e s P)).
      assert (Hleaf : option_map lf_loc (nthN (s_leaves s2) (lenN (s_leaves s1))) = Some (at_file f (i_rng i))).
      { unfold s2. rewrite leaves_add_leaf, nthN_app_last. simpl. now rewrite Hloc. }
      pose proof (Pre_pushed_foreach f e s2 i (lenN (s_leaves s1)) (at_file f (i_rng i)) P2 Hleaf) as P3.
      fold e2 in P3.
      assert (Hb3 := Hb). apply scoped_bad in Hb3.
      pose proof (stmtsA_sim files n IH body f e2 (pushed (KForeach (i_name i) (lenN (s_leaves s1))) s2) Hfb' P3) as R3.
      rewrite Eb in R3. simpl in R3.
      destruct R3 as [S3 _ G3 _]; try assumption; try discriminate.
      assert (S4 : Step s2 (snd (scoped (KForeach (i_name i) (lenN (s_leaves s1))) (iterM (index_stmt files n) body) s2)) ev1)
        by now apply scoped_simV.
      assert (G : same_globals e e1) by (eapply same_globals_trans; [apply same_globals_push|exact G3]).
      rewrite (leave_same e e1 G).
      assert (ST : Step s (snd (scoped (KForeach (i_name i) (lenN (s_leaves s1))) (iterM (index_stmt files n) body) s2)) (ev0 ++ ev1)).
      { eapply Step_trans; [exact S0|]. change ev1 with ([] ++ ev1). eapply Step_trans; [exact S1|exact S4]. }
      split; [apply Step_StepV; exact ST|eapply Pre_Step; eassumption|apply same_globals_refl|exact He].
    - (* if *)
      simpl in Hf. apply andb_true_iff in Hf. destruct Hf as [Hf Hfe]. apply andb_true_iff in Hf. destruct Hf as [Hfc Hft].
      assert (Hft' : fragA_stmts th = true).
      { clear -Hft. induction th as [|y r IHr]; [reflexivity|]. simpl in *.
        apply andb_true_iff in Hft. destruct Hft as [H1 H2]. rewrite H1. simpl. now apply IHr. }
      rewrite spec_if in *.
      destruct (spec_stmts f (push_vars e []) th) as [ev1 e1] eqn:Et.
      simpl in Hb |- *. unfold seq at 1 in Hb. unfold seq at 1.
      assert (BMrest : resp BadMono (iterM (fun body => scoped KBlock (iterM (index_stmt files n) body))
                                          (th :: match el with Some e0 => [e0] | None => [] end))).
      { apply (resp_iterM BadMono BM_refl BM_trans). intros; apply BM_block. }
      assert (Hbc : s_bad (snd (index_value n c s)) = false) by (eapply bad_false_before; [exact BMrest|exact Hb]).
      simpl in Hb |- *. unfold seq at 1 in Hb. unfold seq at 1.
      set (s1 := snd (index_value n c s)) in *.
      destruct el as [eb|].
      + (* with else *)
        assert (Hfe' : fragA_stmts eb = true).
        { clear -Hfe. induction eb as [|y r IHr]; [reflexivity|]. simpl in *.
          apply andb_true_iff in Hfe. destruct Hfe as [H1 H2]. rewrite H1. simpl. now apply IHr. }
        simpl in Hb |- *. try unfold seq at 1 in Hb. try unfold seq at 1. simpl in Hb |- *.
        set (s2 := snd (scoped KBlock (iterM (index_stmt files n) th) s1)) in *.
        assert (Hb2 : s_bad s2 = false) by (eapply (bad_false_before _ (scoped KBlock (iterM (index_stmt files n) eb))); [apply BM_block|exact Hb]).
        destruct (spec_stmts f (push_vars (leave e e1) []) eb) as [ev2 e2] eqn:Ee. simpl in HR |- *.
        rewrite forallb_app in HR. apply andb_true_iff in HR. destruct HR as [HRc HR].
        rewrite forallb_app in HR. apply andb_true_iff in HR. destruct HR as [HR1 HR2].
        pose proof (value_agrees n c f e s Hfc P HRc Hbc) as S0. fold s1 in S0.
        assert (P1 : Pre f e s1) by (eapply Pre_Step; eassumption).
        pose proof (block_sim KBlock th f e s1 eq_refl Hft' P1 He) as R1. rewrite Et in R1. simpl in R1.
        destruct (R1 HR1 Hb2) as [S1 G1]. clear R1. fold s2 in S1.
        assert (P2 : Pre f e s2) by (eapply Pre_Step; eassumption).
        rewrite (leave_same e e1 G1) in Ee.
        pose proof (block_sim KBlock eb f e s2 eq_refl Hfe' P2 He) as R2. rewrite Ee in R2. simpl in R2.
        destruct (R2 HR2 Hb) as [S2 G2]. clear R2.
        rewrite (leave_same e e2 G2).
        assert (ST : Step s (snd (scoped KBlock (iterM (index_stmt files n) eb) s2)) (spec_value f e c ++ ev1 ++ ev2)).
        { eapply Step_trans; [exact S0|]. eapply Step_trans; [exact S1|exact S2]. }
        split; [apply Step_StepV; exact ST|eapply Pre_Step; eassumption|apply same_globals_refl|exact He].
      + (* without else *)
        simpl in Hb, HR |- *.
        rewrite forallb_app in HR. apply andb_true_iff in HR. destruct HR as [HRc HR].
        rewrite app_nil_r in *.
        pose proof (value_agrees n c f e s Hfc P HRc Hbc) as S0. fold s1 in S0.
        assert (P1 : Pre f e s1) by (eapply Pre_Step; eassumption).
        pose proof (block_sim KBlock th f e s1 eq_refl Hft' P1 He) as R1. rewrite Et in R1. simpl in R1.
        destruct (R1 HR Hb) as [S1 G1]. clear R1.
        rewrite (leave_same e e1 G1).
        assert (ST : Step s (snd (scoped KBlock (iterM (index_stmt files n) th) s1)) (spec_value f e c ++ ev1))
          by (eapply Step_trans; eassumption).
        split; [apply Step_StepV; exact ST|eapply Pre_Step; eassumption|apply same_globals_refl|exact He].
    - (* let *)
      simpl in Hf. apply andb_true_iff in Hf. destruct Hf as [Hfv Hfb].
      assert (Hfb' : fragA_stmts body = true).
      { clear -Hfb. induction body as [|y r IHr]; [reflexivity|]. simpl in *.
        apply andb_true_iff in Hfb. destruct Hfb as [H1 H2]. rewrite H1. simpl. now apply IHr. }
      rewrite spec_let in *.
      destruct (spec_stmts f (push_vars e []) body) as [ev1 e1] eqn:Eb. simpl in HR |- *.
      rewrite forallb_app in HR. apply andb_true_iff in HR. destruct HR as [HRv HR1].
      simpl in Hb |- *. unfold seq at 1 in Hb. unfold seq at 1.
      set (s1 := snd (iterM (index_value n) vs s)) in *.
      assert (Hb1 : s_bad s1 = false) by (eapply (bad_false_before _ (scoped KBlock (iterM (index_stmt files n) body))); [apply BM_block|exact Hb]).
      assert (S0 : Step s s1 (spec_values f e vs)).
      { unfold spec_values, s1. apply (iter_sim _ _ (index_value n) (spec_value f e) f e); auto.
        - intros; apply BM_index_value.
        - intros x s0 Hin P0 HR0 Hb0. apply value_agrees; auto. eapply forallb_In; eassumption. }
      assert (P1 : Pre f e s1) by (eapply Pre_Step; eassumption).
      pose proof (block_sim KBlock body f e s1 eq_refl Hfb' P1 He) as R1. rewrite Eb in R1. simpl in R1.
      destruct (R1 HR1 Hb) as [S1 G1]. clear R1. rewrite (leave_same e e1 G1).
      assert (ST : Step s (snd (scoped KBlock (iterM (index_stmt files n) body) s1)) (spec_values f e vs ++ ev1))
        by (eapply Step_trans; eassumption).
      split; [apply Step_StepV; exact ST|eapply Pre_Step; eassumption|apply same_globals_refl|exact He].
  Qed.
End StmtCasesA.

Theorem blocks_agree : forall files n, sim_A files n.
Proof.
  intros files n. induction n as [|n IH].
  - intros x f e s Hf P He Hs HR Hb. simpl in Hb. discriminate.
  - apply case_A. exact IH.
Qed.

(** the workspace-level statement for one file of block statements *)
Theorem blocks_resolution : forall files n l,
    fragA_stmts l = true ->
    forallb resolved (fst (spec_stmts 0 env0 l)) = true ->
    s_bad (snd (iterM (index_stmt files n) l st0)) = false ->
    rev (s_uses (snd (iterM (index_stmt files n) l st0))) = fst (spec_stmts 0 env0 l) /\
    nf (snd (iterM (index_stmt files n) l st0)) = [].
Proof.
  intros files n l Hf HR Hb.
  destruct (stmtsA_sim files n (blocks_agree files n) l 0 env0 st0 Hf Pre_initial) as [[U _ _ N] _ _ _]; auto;
    try discriminate.
  split.
  - rewrite U. simpl. rewrite app_nil_r. apply rev_involutive.
  - rewrite N. reflexivity.
Qed.
