(** C16 / C07: over a FINITE world every session returns, with one explicit fuel for all steps.

    [finite_session w h R D]: the list [R] contains every file that exists on disk and every path the
    editor touches, none of them is a file-system root, and every text involved (on disk or sent by
    the editor) has at most [D] include statements.  Then every history step (set_root_file =
    collect_sources) returns with fuel >= 1 + |R| * (1 + D): [run_total].  With it the hypotheses of
    C07_history_independent are discharged: [history_independent_total]. *)
From Coq Require Import List NArith Bool Lia Arith.
From TG.Model Require Import Includes Host.
From TG.Proofs Require Import IncludesGraph IncludesRefine HostIndex IncludesLinks HostHistory HostTheorems.
Import ListNotations.
Local Open Scope nat_scope.

Section Total.
Context {path istr : Type} {PA : PathAlg path istr} {PAok : PathAlgOk path istr}.
Notation content := (content istr).
Notation world := (world path istr).
Notation state := (@state path istr).

Definition n_includes (c : content) : nat := length (list_includes (c_items c)).

Record finite_session (w : world) (h : list (path * content)) (R : list path) (D : nat) : Prop := {
  fs_disk : forall q, disk w q <> None -> In q R;
  fs_touched : forall q c, In (q, c) h -> In q R;
  fs_parent : forall q, In q R -> parent q <> None;
  fs_disk_deg : forall q c, disk w q = Some c -> n_includes c <= D;
  fs_hist_deg : forall q c, In (q, c) h -> n_includes c <= D
}.

Lemma assoc_in : forall (B : Type) (q : path) (l : list (path * B)) b,
  assoc q l = Some b -> In (q, b) l.
Proof.
  intros B q. induction l as [|[q' b'] l IH]; intros b H; [discriminate|]. cbn [assoc] in H.
  destruct (path_eqb q' q) eqn:E.
  - apply path_eqb_ok in E. subst q'. injection H as <-. left. reflexivity.
  - right. apply IH. exact H.
Qed.

Lemma reach_readable : forall (rd : path -> option content) extra p q,
  reach rd extra p q -> q = p \/ rd q <> None.
Proof.
  intros rd extra p q H. destruct H as [|p' sid q Hp Hs]; [left; reflexivity|].
  right. eapply succs_readable. exact Hs.
Qed.

Lemma succs_length : forall (rd : path -> option content) extra q,
  length (succs rd extra q) <= match rd q with Some c => n_includes c | None => 0 end.
Proof.
  intros rd extra q. unfold succs. destruct (rd q) as [c|]; [|cbn; lia].
  destruct (dirs_of extra q); [apply presolve_all_length|cbn; lia].
Qed.

Theorem run_total : forall (w : world) h R D fuel,
  finite_session w h R D ->
  1 + length R * (1 + D) <= fuel ->
  exists st, run fuel w st_init h = Done st.
Proof.
  intros w h R D fuel FS Hf.
  assert (G : forall h2 h1 st, h = h1 ++ h2 -> run fuel w st_init h1 = Done st ->
                exists st', run fuel w st h2 = Done st').
  { induction h2 as [|[p c] r IH]; intros h1 st Eh E1; [exists st; reflexivity|].
    destruct (run_hinv w fuel h1 st_init st (hinv_init w) E1) as [Hinv Hop].
    cbn [st_init fst fs_init opened] in Hop. rewrite app_nil_r in Hop.
    assert (Hpc : In (p, c) h) by (rewrite Eh; apply in_or_app; right; left; reflexivity).
    (* what the walk can read comes from the history or from the disk *)
    assert (Heff : forall q c0, eff w st p c q = Some c0 ->
                     In (q, c0) h \/ disk w q = Some c0).
    { intros q c0 Hq. unfold eff, read in Hq. cbn [set_open opened] in Hq.
      destruct (assoc q ((p, c) :: opened (fst st))) as [c1|] eqn:Ea.
      - injection Hq as <-. left. apply assoc_in in Ea. destruct Ea as [Ea|Ea].
        + injection Ea as <- <-. exact Hpc.
        + rewrite Hop in Ea. apply in_rev in Ea. rewrite Eh. apply in_or_app. left. exact Ea.
      - right. exact Hq. }
    assert (Hcover : forall q, reach (eff w st p c) (extra w) p q -> In q R).
    { intros q Hq. destruct (reach_readable _ _ _ _ Hq) as [->|Hr].
      - eapply fs_touched; eauto.
      - destruct (eff w st p c q) as [c0|] eqn:Eq; [|congruence].
        destruct (Heff q c0 Eq) as [Hh|Hd].
        + eapply fs_touched; eauto.
        + eapply fs_disk; eauto. congruence. }
    assert (Hbound : fuel_bound (eff w st p c) (extra w) R <= fuel).
    { eapply Nat.le_trans; [apply (session_fuel_bound _ _ R D)|exact Hf].
      intros q _. eapply Nat.le_trans; [apply succs_length|].
      destruct (eff w st p c q) as [c0|] eqn:Eq; [|lia].
      destruct (Heff q c0 Eq) as [Hh|Hd]; [eapply fs_hist_deg; eauto|eapply fs_disk_deg; eauto]. }
    destruct (touch_terminates w st p c R fuel Hinv Hcover
                (fun q Hq => fs_parent w h R D FS q (Hcover q Hq)) Hbound) as [st1 Et].
    assert (E2 : run fuel w st_init (h1 ++ [(p, c)]) = Done st1).
    { apply run_app. exists st. split; [exact E1|]. cbn [run]. rewrite Et. reflexivity. }
    destruct (IH (h1 ++ [(p, c)]) st1) as [st' E']; [rewrite <- app_assoc; exact Eh|exact E2|].
    exists st'. cbn [run]. rewrite Et. exact E'. }
  apply (G h [] st_init); reflexivity.
Qed.

(** the fresh host of C07 lives in the same finite world *)
Lemma finite_overlay : forall (w : world) h p c R D,
  finite_session w (h ++ [(p, c)]) R D ->
  finite_session (overlay w (h ++ [(p, c)])) [(p, c)] R D.
Proof.
  intros w h p c R D FS.
  assert (Ht : forall q c0, truth w (h ++ [(p, c)]) q = Some c0 ->
                 In (q, c0) (h ++ [(p, c)]) \/ disk w q = Some c0).
  { intros q c0 H. unfold truth, last_text in H.
    destruct (assoc q (rev (h ++ [(p, c)]))) as [c1|] eqn:Ea.
    - injection H as <-. left. apply assoc_in in Ea. apply in_rev in Ea. exact Ea.
    - right. exact H. }
  constructor; cbn [overlay disk extra].
  - intros q Hq. destruct (truth w (h ++ [(p, c)]) q) as [c0|] eqn:E; [|congruence].
    destruct (Ht q c0 E) as [Hh|Hd]; [eapply fs_touched; eauto|eapply fs_disk; eauto; congruence].
  - intros q c0 [Hq|[]]. injection Hq as <- <-. eapply fs_touched; eauto.
    apply in_or_app. right. left. reflexivity.
  - eapply fs_parent; eauto.
  - intros q c0 Hq. destruct (Ht q c0 Hq) as [Hh|Hd]; [eapply fs_hist_deg; eauto|eapply fs_disk_deg; eauto].
  - intros q c0 [Hq|[]]. injection Hq as <- <-. eapply fs_hist_deg; eauto.
    apply in_or_app. right. left. reflexivity.
Qed.

Theorem history_independent_total : forall (w : world) h p c R D fuel,
  finite_session w (h ++ [(p, c)]) R D ->
  1 + length R * (1 + D) <= fuel ->
  exists st1 st2 V,
    run fuel w st_init (h ++ [(p, c)]) = Done st1 /\
    run fuel (overlay w (h ++ [(p, c)])) st_init [(p, c)] = Done st2 /\
    view st1 = Some (p, V) /\ view st2 = Some (p, V).
Proof.
  intros w h p c R D fuel FS Hf.
  destruct (run_total w _ R D fuel FS Hf) as [st1 E1].
  destruct (run_total _ _ R D fuel (finite_overlay w h p c R D FS) Hf) as [st2 E2].
  destruct (history_independent w h p c fuel fuel st1 st2 E1 E2) as [Hv [V [Hv1 _]]].
  exists st1, st2, V. split; [exact E1|]. split; [exact E2|]. split; [exact Hv1|congruence].
Qed.

End Total.
