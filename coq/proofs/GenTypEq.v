(** GenTypEq: the rendering of crates/ide/src/symbol_map/typ.rs that tools/translate/t_typ.py regenerates on every
    run (coq/gen/GenTyp.v) equals b-scope's hand model of the type functions (coq/model/Scope.v, read-only):
    element_typ, is_bits / is_list / is_record, ty_find_field, can_cast.  `is_subclass_of` / `find_field` of
    record.rs are, on BOTH sides, b-scope's plain depth-first functions `Scope.is_subclass_of (rec_fuel s) (s_recs s)`
    / `Scope.find_field ..`: this tie is relative to them (their relation to the visited-set code of record.rs is
    C05_subclass_visited_set / GenSymbolMap). *)
From Coq Require Import List NArith Bool String.
From TG.Model Require Import CoreAst Scope.
From TG.Gen Require Import GenTyp.
Import ListNotations.
Open Scope N_scope.

Lemma element_typ_eq t : src_Type_element_typ t = element_typ t.
Proof. destruct t; reflexivity. Qed.
Lemma is_bits_eq t : src_Type_is_bits t = is_bits t.
Proof. destruct t; reflexivity. Qed.
Lemma is_list_eq t : src_Type_is_list t = is_list t.
Proof. destruct t; reflexivity. Qed.
Lemma is_record_eq t : src_Type_is_record t = is_record t.
Proof. destruct t; reflexivity. Qed.
Lemma find_field_eq s t nm : src_Type_find_field s t nm = ty_find_field s t nm.
Proof. destruct t; reflexivity. Qed.

Lemma can_cast_eq s : forall a b, src_Type_can_be_casted_to s a b = can_cast s a b.
Proof.
  induction a as [| | | | |n|x IH|i nm| | |]; intros b; destruct b as [| | | | |m|y|j nm'| | |];
    cbn [src_Type_can_be_casted_to can_cast];
    first [ reflexivity | apply IH | (destruct (i =? j); reflexivity) ].
Qed.

(** the enum and the TY! macro as the translators of the indexer / bang operators assume them *)
Lemma enum_Type_eq :
  src_enum_Type = [ ("Bit", 0%nat); ("Int", 0%nat); ("String", 0%nat); ("Code", 0%nat); ("Dag", 0%nat); ("Bits", 1%nat);
                    ("List", 1%nat); ("Record", 2%nat); ("Uninitialized", 0%nat); ("Unknown", 0%nat); ("Any", 0%nat) ]%string.
Proof. reflexivity. Qed.
Lemma TY_macro_eq :
  src_TY_macro = [ ("bit", "Bit", ""); ("int", "Int", ""); ("string", "String", ""); ("code", "Code", "");
                   ("dag", "Dag", ""); ("bits", "Bits", "$x"); ("list", "List", "Box::new(TY!($x))");
                   ("?", "Uninitialized", "") ]%string.
Proof. reflexivity. Qed.

Theorem typ_model_is_source :
  (forall t, src_Type_element_typ t = element_typ t)
  /\ (forall t, src_Type_is_bits t = is_bits t) /\ (forall t, src_Type_is_list t = is_list t)
  /\ (forall t, src_Type_is_record t = is_record t)
  /\ (forall s t nm, src_Type_find_field s t nm = ty_find_field s t nm)
  /\ (forall s a b, src_Type_can_be_casted_to s a b = can_cast s a b)
  /\ typ_functions_rendered = [ "element_typ"; "find_field"; "can_be_casted_to"; "is_bits"; "is_list"; "is_record" ]%string
  /\ typ_functions_not_rendered = [ "Display::fmt" ]%string.
Proof.
  exact (conj element_typ_eq (conj is_bits_eq (conj is_list_eq (conj is_record_eq (conj find_field_eq
         (conj can_cast_eq (conj eq_refl eq_refl))))))).
Qed.
