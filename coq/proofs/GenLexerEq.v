(** GenLexerEq: the rendering of crates/syntax/src/lexer.rs that tools/translate/t_lexer.py regenerates on
    every run (coq/gen/GenLexer.v, shallow state-monad embedding over model/ScanMonad.v) computes exactly
    what the hand model coq/model/Lexer.v computes, for ALL texts.  Any semantic edit of lexer.rs changes
    GenLexer.v and breaks this file; every theorem about Lexer.lex_text then also holds of the source
    rendering. *)
From Coq Require Import List Arith PeanoNat NArith ZArith Bool Lia String.
From TG.Gen Require Import GenTokens GenLexTables GenLexer.
From TG.Model Require Import Chars Lexer ScanMonad.
From TG.Proofs Require Import LexBasics.
Import ListNotations.
Open Scope N_scope.

(** * The driver: the TokenStream protocol exactly as harness/src/bin/lexdump.rs and ParserBase use it
    (cursor; eat; cursor; take_error iff the kind is Error; text(range)) *)
Definition run_val {A} (r : res A * lx) : option (A * lx) :=
  match r with (Norm a, st) => Some (a, st) | _ => None end.

Fixpoint gen_drive (fuel : nat) (st : lx) : list (TokenKind * option string * text) :=
  match fuel with
  | O => []
  | S n =>
      match run_val (g_cursor st) with
      | Some (lo, st0) =>
          match run_val (g_eat st0) with
          | Some (k, st1) =>
              match run_val (g_cursor st1) with
              | Some (hi, st2) =>
                  match run_val (g_text (lo, hi) st2) with
                  | Some (lexeme, st3) =>
                      let '(e, st4) := if tk_eqb k T_Error
                                       then match run_val (g_take_error st3) with Some (e, s') => (e, s') | None => (None, st3) end
                                       else (None, st3) in
                      (k, e, lexeme) :: (if tk_eqb k T_Eof then [] else gen_drive n st4)
                  | None => []
                  end
              | None => []
              end
          | None => []
          end
      | None => []
      end
  end.
Definition gen_lex_text (txt : text) := gen_drive (S (List.length txt)) (g_new txt).

Definition hand_view (x : TokenKind * option lex_err * text) : TokenKind * option string * text :=
  let '(k, e, a) := x in (k, option_map lex_err_msg e, a).

Definition sample_texts : list text :=
  [ [48; 98]; [99; 108; 97; 115; 115; 32; 65; 59]; [34; 120; 92; 92; 34; 32; 47; 42; 32; 97; 32; 47; 42; 32; 98; 32; 42; 47; 32; 42; 47; 32; 52; 120; 32; 45; 49; 32; 43];
    [35; 105; 102; 100; 101; 102; 32; 65; 10; 46; 46; 10; 35; 120]; [233; 32; 32; 120]; [33; 97; 100; 100; 40; 36; 120; 44; 91; 123; 32; 125; 93; 41; 46; 46; 46];
    [48; 120; 49; 103; 32; 48; 98; 49; 50; 32; 34; 97; 10]; [47; 47; 32; 120; 13; 10; 47; 42]; [57; 57; 57; 57; 57; 57; 57; 57; 57; 57; 57; 57; 57; 57; 57; 57; 57; 57; 57; 57; 57] ].
Example gen_agrees_on_samples : map gen_lex_text sample_texts = map (fun t => map hand_view (lex_text t)) sample_texts.
Proof. vm_compute. reflexivity. Qed.

(** * States, agreement *)
Definition stt (b s : text) (e : option string) : lx := mk_lx (mk_scanner b s) e.
Definition upd (e : option string) (eo : option lex_err) : option string :=
  match eo with Some x => Some (lex_err_msg x) | None => e end.
Definition outcome (b : text) (e : option string) (r : lexres) : res TokenKind * lx :=
  let '(k, eo, a, rest) := r in (Norm k, stt (b ++ a) rest (upd e eo)).
(** [m] run with [b] before the cursor and [s] after it behaves like the list function [f] on [s] *)
Definition agrees (m : M TokenKind) (f : text -> lexres) : Prop :=
  forall b s e, m (stt b s e) = outcome b e (f s).

Ltac mred1 :=
  cbv beta iota zeta delta [bind ret fn_body early m_unreachable with_scanner set_error take_error_field
       s_cursor s_done s_peek s_eat s_at_pred s_eat_if_pred s_eat_if_char s_eat_if_str s_eat_while
       s_eat_until_pred s_eat_until_str s_from s_get s_jump loop_fuel
       l_s l_error sc_before sc_after sc_cursor sc_string stt outcome tok err].
Ltac mred := mred1; repeat (progress (cbn [negb andb orb]); mred1).

(** * Byte offsets *)
Lemma utf8_len_pos c : 0 < utf8_len c.
Proof. unfold utf8_len. destruct (c <? 128); [lia|]. destruct (c <? 2048); [lia|]. destruct (c <? 65536); lia. Qed.

Lemma bytes_app a b : bytes (a ++ b) = bytes a + bytes b.
Proof. induction a as [|c a IH]; cbn [app bytes]; [reflexivity|]. rewrite IH. lia. Qed.

Lemma split_b_app x : forall y, split_b (bytes x) (x ++ y) = (x, y).
Proof.
  induction x as [|c x IH]; intros y; cbn [app bytes].
  - destruct y as [|d y]; [reflexivity|]. cbn [split_b]. pose proof (utf8_len_pos d).
    destruct (utf8_len d <=? 0) eqn:E; [apply N.leb_le in E; lia|reflexivity].
  - cbn [split_b]. replace (utf8_len c <=? utf8_len c + bytes x) with true by (symmetry; apply N.leb_le; lia).
    replace (utf8_len c + bytes x - utf8_len c) with (bytes x) by lia. rewrite IH. reflexivity.
Qed.

Lemma split_b_exact x : split_b (bytes x) x = (x, []).
Proof. rewrite <- (app_nil_r x) at 2. apply split_b_app. Qed.

Lemma bytes_zero x : bytes x = 0 -> x = [].
Proof. destruct x as [|c x]; [reflexivity|]. cbn [bytes]. pose proof (utf8_len_pos c). lia. Qed.

(** * The simple scanners *)
Lemma g_error_run msg b s e : g_error msg (stt b s e) = (Norm T_Error, stt b s (Some msg)).
Proof. reflexivity. Qed.

Lemma agrees_whitespace :
  agrees g_whitespace (fun s => let '(a, rest) := eat_while is_ascii_whitespace s in tok T_Whitespace a rest).
Proof.
  intros b s e. unfold g_whitespace. mred. destruct (eat_while is_ascii_whitespace s) as [a r]. reflexivity.
Qed.

Lemma agrees_line_comment :
  agrees g_line_comment (fun s => let '(a, rest) := eat_until is_newline s in tok T_LineComment a rest).
Proof.
  intros b s e. unfold g_line_comment. mred.
  change (eat_until g_is_newline s) with (eat_until is_newline s).
  destruct (eat_until is_newline s) as [a r]. reflexivity.
Qed.

Lemma str_lookup_eq {A} (tbl : list (text * A)) k : str_lookup tbl k = lookup tbl k.
Proof. induction tbl as [|[k' v] tbl IH]; cbn [str_lookup lookup]; [reflexivity|]. rewrite IH. reflexivity. Qed.

Lemma from_suffix b x : snd (split_b (bytes b) (b ++ x)) = x.
Proof. rewrite split_b_app. reflexivity. Qed.

Lemma agrees_identifier b c s e :
  g_identifier (bytes b) (stt (b ++ [c]) s e) = outcome (b ++ [c]) e (identifier c s).
Proof.
  unfold g_identifier, identifier. mred.
  change (eat_while g_is_identifier_continue s) with (eat_while is_identifier_continue s).
  destruct (eat_while is_identifier_continue s) as [a r]. mred.
  rewrite <- (app_assoc b [c] a), from_suffix. cbn [app]. rewrite str_lookup_eq.
  change (lookup _ (c :: a)) with (lookup keyword_table (c :: a)).
  destruct (lookup keyword_table (c :: a)); mred; rewrite <- app_assoc; reflexivity.
Qed.

Lemma agrees_var_name : agrees g_var_name var_name.
Proof.
  intros b s e. unfold g_var_name, var_name, g_error. destruct s as [|c r]; mred.
  - rewrite app_nil_r. reflexivity.
  - change (g_is_identifier_start c) with (is_identifier_start c).
    destruct (is_identifier_start c); mred; [|rewrite app_nil_r; reflexivity].
    change (eat_while g_is_identifier_continue r) with (eat_while is_identifier_continue r).
    destruct (eat_while is_identifier_continue r) as [a r']. mred. rewrite <- app_assoc. reflexivity.
Qed.

Lemma agrees_bangoperator : agrees g_bangoperator bangoperator.
Proof.
  intros b s e. unfold g_bangoperator, bangoperator. mred.
  destruct (eat_while is_ascii_alphabetic s) as [a r]. mred.
  rewrite from_suffix, str_lookup_eq. change (lookup _ a) with (lookup bangop_table a).
  destruct (lookup bangop_table a); reflexivity.
Qed.

Lemma agrees_preprocessor : agrees g_preprocessor preprocessor.
Proof.
  intros b s e. unfold g_preprocessor, preprocessor. mred.
  destruct (eat_while is_alphabetic s) as [a r] eqn:E. mred.
  rewrite from_suffix, str_lookup_eq. change (lookup _ a) with (lookup directive_table a).
  destruct (lookup directive_table a); [reflexivity|]. mred.
  rewrite <- app_assoc, split_b_app.
  apply eat_while_split in E. subst s. rewrite app_nil_r. reflexivity.
Qed.

(** eat_until("}]") *)
Lemma until_str2 x y s : until_str [x; y] s = eat_until2 x y s.
Proof.
  induction s as [|c r IH]; [reflexivity|]. cbn [until_str eat_until2 strip_prefix].
  destruct r as [|d r'].
  - destruct (x =? c); cbn [until_str]; reflexivity.
  - rewrite (N.eqb_sym x c), (N.eqb_sym y d). destruct (c =? x); cbn [andb].
    + destruct (d =? y); [reflexivity|]. rewrite IH. reflexivity.
    + rewrite IH. reflexivity.
Qed.

Lemma agrees_code_fragment : agrees g_code_fragment code_fragment.
Proof.
  intros b s e. unfold g_code_fragment. rewrite code_fragment_eq. mred. rewrite until_str2.
  destruct (eat_until2 125 93 s) as [a rest]. mred.
  destruct rest as [|x [|y r]]; cbn [strip_prefix hd_eqb tl andb].
  - reflexivity.
  - destruct (125 =? x) eqn:X; rewrite (N.eqb_sym x 125), X; reflexivity.
  - rewrite (N.eqb_sym x 125), (N.eqb_sym y 93). destruct (125 =? x); [|reflexivity].
    destruct (93 =? y); cbn [andb]; [|reflexivity]. mred. rewrite <- app_assoc. reflexivity.
Qed.

(** * block_comment: the `while depth > 0 && !done` loop *)
Definition bc_step (d : N) (b s : text) (e : option string) : res (ctl N) * lx :=
  if (0 <? d) && negb (match s with [] => true | _ => false end) then
    match strip_prefix [47; 42] s with
    | Some r => (Norm (Continue (d + 1)), stt (b ++ [47; 42]) r e)
    | None =>
        match strip_prefix [42; 47] s with
        | Some r => (Norm (Continue (d - 1)), stt (b ++ [42; 47]) r e)
        | None => match s with
                  | c :: r => (Norm (Continue d), stt (b ++ [c]) r e)
                  | [] => (Norm (Continue d), stt b s e)
                  end
        end
    end
  else (Norm (Break d), stt b s e).

Lemma block_comment_cons2 depth c d r' :
  block_comment depth (c :: d :: r') =
  if (c =? 47) && (d =? 42) then let '(a, b) := block_comment (S depth) r' in (c :: d :: a, b)
  else if (c =? 42) && (d =? 47) then
    match depth with
    | O => ([c; d], r')
    | S depth' => let '(a, b) := block_comment depth' r' in (c :: d :: a, b)
    end
  else let '(a, b) := block_comment depth (d :: r') in (c :: a, b).
Proof. reflexivity. Qed.

Lemma m_loop_S {S} n (body : S -> M (ctl S)) s st :
  m_loop (Datatypes.S n) body s st =
  match body s st with
  | (Norm (Continue s'), st') => m_loop n body s' st'
  | (Norm (Break s'), st') => (Norm s', st')
  | (Ret k, st') => (Ret k, st')
  | (Panic, st') => (Panic, st')
  | (Oof, st') => (Oof, st')
  end.
Proof.
  cbn [m_loop]. unfold bind. destruct (body s st) as [[c|k| |] st']; try reflexivity. destruct c; reflexivity.
Qed.

Lemma bc_loop (body : N -> M (ctl N)) :
  (forall d b s e, body d (stt b s e) = bc_step d b s e) ->
  forall n s, (List.length s < n)%nat -> forall d b e, 1 <= d ->
  exists d', m_loop n body d (stt b s e)
             = (Norm d', stt (b ++ fst (block_comment (N.to_nat d - 1) s)) (snd (block_comment (N.to_nat d - 1) s)) e).
Proof.
  intros HB. induction n as [|n IH]; intros s L d b e D; [lia|].
  rewrite m_loop_S, HB. unfold bc_step.
  replace (0 <? d) with true by (symmetry; apply N.ltb_lt; lia). cbn [andb].
  destruct s as [|c [|d0 r]].
  - cbn [negb]. exists d. cbn [block_comment fst snd]. rewrite app_nil_r. reflexivity.
  - cbn [negb]. assert (SP1 : strip_prefix [47; 42] [c] = None) by (cbn [strip_prefix]; destruct (47 =? c); reflexivity).
    assert (SP2 : strip_prefix [42; 47] [c] = None) by (cbn [strip_prefix]; destruct (42 =? c); reflexivity).
    rewrite SP1, SP2. destruct (IH [] ltac:(cbn in *; lia) d (b ++ [c]) e D) as (d' & E).
    exists d'. rewrite E. cbn [block_comment fst snd]. rewrite app_nil_r. reflexivity.
  - cbn [negb]. rewrite block_comment_cons2. cbn [strip_prefix].
    rewrite (N.eqb_sym 47 c), (N.eqb_sym 42 d0), (N.eqb_sym 42 c), (N.eqb_sym 47 d0).
    destruct (c =? 47) eqn:C1; [destruct (d0 =? 42) eqn:D1|]; cbn [andb].
    + (* nested open *)
      apply N.eqb_eq in C1, D1. subst c d0.
      destruct (IH r ltac:(cbn in *; lia) (d + 1) (b ++ [47; 42]) e ltac:(lia)) as (d' & E).
      exists d'. rewrite E.
      replace (N.to_nat (d + 1) - 1)%nat with (Datatypes.S (N.to_nat d - 1)) by lia.
      destruct (block_comment (Datatypes.S (N.to_nat d - 1)) r) as [a rest]. cbn [fst snd]. rewrite <- app_assoc. reflexivity.
    + (* '/' followed by something else *)
      apply N.eqb_eq in C1. subst c. change (47 =? 42) with false. cbn [andb].
      destruct (IH (d0 :: r) ltac:(cbn in *; lia) d (b ++ [47]) e D) as (d' & E).
      exists d'. rewrite E. destruct (block_comment (N.to_nat d - 1) (d0 :: r)) as [a rest]. cbn [fst snd].
      rewrite <- app_assoc. reflexivity.
    + destruct (c =? 42) eqn:C2; [destruct (d0 =? 47) eqn:D2|]; cbn [andb].
      * (* close *)
        apply N.eqb_eq in C2, D2. subst c d0.
        destruct (N.to_nat d - 1)%nat as [|depth'] eqn:DP.
        -- (* outermost: the next check ends the loop *)
           assert (d = 1) by lia. subst d. destruct n as [|n']; [cbn in L; lia|].
           rewrite m_loop_S, HB. unfold bc_step. change (0 <? 1 - 1) with false. cbn [andb].
           exists (1 - 1). cbn [fst snd]. reflexivity.
        -- destruct (IH r ltac:(cbn in *; lia) (d - 1) (b ++ [42; 47]) e ltac:(lia)) as (d' & E).
           exists d'. rewrite E. replace (N.to_nat (d - 1) - 1)%nat with depth' by lia.
           destruct (block_comment depth' r) as [a rest]. cbn [fst snd]. rewrite <- app_assoc. reflexivity.
      * apply N.eqb_eq in C2. subst c.
        destruct (IH (d0 :: r) ltac:(cbn in *; lia) d (b ++ [42]) e D) as (d' & E).
        exists d'. rewrite E. destruct (block_comment (N.to_nat d - 1) (d0 :: r)) as [a rest]. cbn [fst snd].
        rewrite <- app_assoc. reflexivity.
      * destruct (IH (d0 :: r) ltac:(cbn in *; lia) d (b ++ [c]) e D) as (d' & E).
        exists d'. rewrite E. destruct (block_comment (N.to_nat d - 1) (d0 :: r)) as [a rest]. cbn [fst snd].
        rewrite <- app_assoc. reflexivity.
Qed.

Lemma agrees_block_comment :
  agrees g_block_comment (fun s => let '(a, rest) := block_comment O s in tok T_BlockComment a rest).
Proof.
  intros b s e. unfold g_block_comment. mred.
  match goal with |- context [m_loop _ ?B 1 _] =>
    destruct (bc_loop B) with (n := Datatypes.S (List.length s)) (s := s) (d := 1) (b := b) (e := e) as (d' & E)
  end.
  - intros d b0 s0 e0. unfold bc_step. mred.
    destruct (0 <? d); cbn [andb]; [|reflexivity].
    destruct s0 as [|c r]; cbn [negb]; [reflexivity|].
    destruct (strip_prefix [47; 42] (c :: r)); [reflexivity|].
    destruct (strip_prefix [42; 47] (c :: r)); reflexivity.
  - lia.
  - lia.
  - fold (stt b s e). rewrite E. change (N.to_nat 1 - 1)%nat with O.
    destruct (block_comment 0 s) as [a rest]. reflexivity.
Qed.

(** * string: the `loop { match self.s.eat() .. }` with the `escaped` flag *)
Definition str_step (esc : bool) (b s : text) (e : option string) : res (ctl bool) * lx :=
  match s with
  | [] => (Ret T_Error, stt b [] (Some (lex_err_msg EEofInString)))
  | c :: r =>
      if (c =? 92) && negb esc then (Norm (Continue true), stt (b ++ [c]) r e)
      else if (c =? 34) && negb esc then (Norm (Break esc), stt (b ++ [c]) r e)
      else if (c =? 13) || (c =? 10) then (Ret T_Error, stt (b ++ [c]) r (Some (lex_err_msg EEolInString)))
      else (Norm (Continue false), stt (b ++ [c]) r e)
  end.

Definition str_loop_ok (out : res bool * lx) (b : text) (e : option string) (r : lexres) : Prop :=
  let '(k, eo, a, rest) := r in
  match eo with
  | None => k = T_StrVal /\ exists esc', out = (Norm esc', stt (b ++ a) rest e)
  | Some x => k = T_Error /\ out = (Ret T_Error, stt (b ++ a) rest (Some (lex_err_msg x)))
  end.

Lemma str_loop (body : bool -> M (ctl bool)) :
  (forall esc b s e, body esc (stt b s e) = str_step esc b s e) ->
  forall n s, (List.length s < n)%nat -> forall esc b e,
  str_loop_ok (m_loop n body esc (stt b s e)) b e (string_body esc s).
Proof.
  intros HB. induction n as [|n IH]; intros s L esc b e; [lia|].
  rewrite m_loop_S, HB. destruct s as [|c r]; cbn [str_step string_body].
  - cbn. rewrite app_nil_r. split; reflexivity.
  - destruct ((c =? 92) && negb esc).
    + specialize (IH r ltac:(cbn in *; lia) true (b ++ [c]) e).
      destruct (string_body true r) as [[[k eo] a] rest]. unfold str_loop_ok in *.
      rewrite <- app_assoc in IH. exact IH.
    + destruct ((c =? 34) && negb esc).
      * cbn. split; [reflexivity|]. exists esc. reflexivity.
      * destruct ((c =? 13) || (c =? 10)).
        -- cbn. split; reflexivity.
        -- specialize (IH r ltac:(cbn in *; lia) false (b ++ [c]) e).
           destruct (string_body false r) as [[[k eo] a] rest]. unfold str_loop_ok in *.
           rewrite <- app_assoc in IH. exact IH.
Qed.

Lemma agrees_string : agrees g_string (string_body false).
Proof.
  intros b s e. unfold g_string, g_error. mred.
  match goal with |- context [m_loop _ ?B false _] =>
    pose proof (str_loop B) as SL
  end.
  specialize (SL ltac:(
    intros esc b0 s0 e0; unfold str_step; mred; destruct s0 as [|c r]; mred; [reflexivity|];
    unfold opt_is, opt_none; destruct ((c =? 92) && negb esc); [reflexivity|];
    destruct ((c =? 34) && negb esc); [reflexivity|];
    destruct ((c =? 13) || (c =? 10)); reflexivity)
    (Datatypes.S (List.length s)) s ltac:(lia) false b e).
  fold (stt b s e). destruct (string_body false s) as [[[k eo] a] rest]. unfold str_loop_ok in SL.
  destruct eo as [x|].
  - destruct SL as [-> ->]. reflexivity.
  - destruct SL as [-> (esc' & ->)]. reflexivity.
Qed.

(** * interpret_number *)
Lemma digits_value_eq radix bound ds :
  (forall c, In c ds -> digit_of radix c = Some (digit_val c)) ->
  forall acc, digits_value radix bound acc ds = parse_digits radix bound acc ds.
Proof.
  induction ds as [|d ds IH]; intros H acc; cbn [digits_value parse_digits]; [reflexivity|].
  rewrite (H d (or_introl eq_refl)). cbv zeta. destruct (bound <=? acc * radix + digit_val d); [reflexivity|].
  apply IH. intros c I. apply H. right. exact I.
Qed.

Lemma digit_of_dec c : is_ascii_digit c = true -> digit_of 10 c = Some (digit_val c).
Proof.
  intros D. unfold digit_of, digit_val. rewrite D. unfold is_ascii_digit in D.
  apply andb_true_iff in D. destruct D as [D1 D2]. apply N.leb_le in D1, D2.
  replace (c - 48 <? 10) with true by (symmetry; apply N.ltb_lt; lia). reflexivity.
Qed.
Lemma digit_of_bin c : is_bin_digit c = true -> digit_of 2 c = Some (digit_val c).
Proof.
  unfold is_bin_digit. intros D. apply orb_true_iff in D. destruct D as [D|D]; apply N.eqb_eq in D; subst; reflexivity.
Qed.
Lemma digit_of_hex c : is_ascii_hexdigit c = true -> digit_of 16 c = Some (digit_val c).
Proof.
  unfold is_ascii_hexdigit, digit_of, digit_val. destruct (is_ascii_digit c) eqn:D.
  - intros _. unfold is_ascii_digit in D. apply andb_true_iff in D. destruct D as [D1 D2]. apply N.leb_le in D1, D2.
    replace (c - 48 <? 16) with true by (symmetry; apply N.ltb_lt; lia). reflexivity.
  - cbn [orb]. intros H. apply orb_true_iff in H. destruct H as [H|H]; apply andb_true_iff in H; destruct H as [H1 H2];
      apply N.leb_le in H1, H2.
    + replace ((97 <=? c) && (c <=? 122)) with false
        by (symmetry; apply andb_false_iff; left; apply N.leb_gt; lia).
      replace ((65 <=? c) && (c <=? 90)) with true
        by (symmetry; apply andb_true_iff; split; apply N.leb_le; lia).
      replace (97 <=? c) with false by (symmetry; apply N.leb_gt; lia).
      replace (c - 65 + 10 <? 16) with true by (symmetry; apply N.ltb_lt; lia).
      f_equal. lia.
    + replace ((97 <=? c) && (c <=? 122)) with true
        by (symmetry; apply andb_true_iff; split; apply N.leb_le; lia).
      replace (97 <=? c) with true by (symmetry; apply N.leb_le; lia).
      replace (c - 97 + 10 <? 16) with true by (symmetry; apply N.ltb_lt; lia).
      f_equal. lia.
Qed.

Lemma forallb_In {A} (p : A -> bool) l : forallb p l = true -> forall x, In x l -> p x = true.
Proof. intros H. apply forallb_forall. exact H. Qed.

Definition num_text (c : N) (pfx ds : text) : text := c :: pfx ++ ds.

Lemma u64_radix_noplus radix d t :
  (d =? 43) = false -> u64_from_str_radix (d :: t) radix = digits_value radix ScanMonad.two64 0 (d :: t).
Proof.
  intros E. unfold u64_from_str_radix.
  destruct d as [|p]; [reflexivity|]. repeat (destruct p as [p|p|]; try reflexivity). discriminate E.
Qed.

(** radix literals *)
Lemma interp_hex ds : forallb is_ascii_hexdigit ds = true ->
  opt_none (g_interpret_number (num_text 48 [120] ds)) = negb (interpret_ok 16 0 ds).
Proof.
  intros H. unfold g_interpret_number, num_text. cbn [app strip_prefix]. change (48 =? 48) with true. change (120 =? 120) with true.
  cbv iota. unfold interpret_ok.
  destruct ds as [|d ds']; [reflexivity|].
  assert (NP : (d =? 43) = false).
  { cbn [forallb] in H. apply andb_true_iff in H. destruct H as [H _].
    destruct (d =? 43) eqn:E; [apply N.eqb_eq in E; subst; discriminate H|reflexivity]. }
  rewrite (u64_radix_noplus 16 d ds' NP). change (0 =? 2) with false. cbv iota.
  rewrite (digits_value_eq 16 ScanMonad.two64 (d :: ds') (fun c I => digit_of_hex c (forallb_In _ _ H c I))).
  change ScanMonad.two64 with Lexer.two64.
  destruct (parse_digits 16 Lexer.two64 0 (d :: ds')); reflexivity.
Qed.

Lemma interp_bin ds : forallb is_bin_digit ds = true ->
  opt_none (g_interpret_number (num_text 48 [98] ds)) = negb (interpret_ok 2 0 ds).
Proof.
  intros H. unfold g_interpret_number, num_text. cbn [app strip_prefix]. change (48 =? 48) with true.
  change (120 =? 98) with false. change (98 =? 98) with true. cbv iota.
  unfold interpret_ok.
  destruct ds as [|d ds']; [reflexivity|].
  assert (NP : (d =? 43) = false).
  { cbn [forallb] in H. apply andb_true_iff in H. destruct H as [H _].
    unfold is_bin_digit in H. apply orb_true_iff in H. destruct H as [H|H]; apply N.eqb_eq in H; subst; reflexivity. }
  rewrite (u64_radix_noplus 2 d ds' NP). change (0 =? 2) with false. cbv iota.
  rewrite (digits_value_eq 2 ScanMonad.two64 (d :: ds') (fun c I => digit_of_bin c (forallb_In _ _ H c I))).
  change ScanMonad.two64 with Lexer.two64.
  destruct (parse_digits 2 Lexer.two64 0 (d :: ds')); reflexivity.
Qed.

Lemma digit_facts c : is_ascii_digit c = true ->
  (c =? 43) = false /\ (c =? 45) = false /\ (c =? 120) = false /\ (c =? 98) = false.
Proof.
  unfold is_ascii_digit. intros D. apply andb_true_iff in D. destruct D as [D1 D2]. apply N.leb_le in D1, D2.
  repeat split; apply N.eqb_neq; lia.
Qed.

Lemma strip_0x_digits x c ds : is_ascii_digit x = false -> forallb is_ascii_digit ds = true ->
  strip_prefix [48; x] (c :: ds) = None.
Proof.
  intros X D. cbn [strip_prefix]. destruct (48 =? c); [|reflexivity].
  destruct ds as [|y t]; [reflexivity|]. cbn [forallb] in D. apply andb_true_iff in D. destruct D as [Dy _].
  destruct (x =? y) eqn:E; [apply N.eqb_eq in E; subst; congruence|reflexivity].
Qed.

Lemma opt_none_map {A B} (f : A -> B) o : opt_none (option_map f o) = opt_none o.
Proof. destruct o; reflexivity. Qed.

Lemma interp_dec c ds : is_ascii_digit c = true -> forallb is_ascii_digit ds = true ->
  opt_none (g_interpret_number (num_text c [] ds)) = negb (interpret_ok 10 0 (c :: ds)).
Proof.
  intros C D. destruct (digit_facts c C) as (P & M & _ & _).
  unfold g_interpret_number, num_text. cbn [app].
  rewrite (strip_0x_digits 120 c ds eq_refl D), (strip_0x_digits 98 c ds eq_refl D).
  unfold str_starts_with_char. rewrite M. rewrite opt_none_map. unfold parse_u64.
  rewrite (u64_radix_noplus 10 c ds P). unfold interpret_ok. change (0 =? 2) with false. cbv iota.
  assert (DD : forallb is_ascii_digit (c :: ds) = true) by (cbn [forallb]; rewrite C, D; reflexivity).
  rewrite (digits_value_eq 10 ScanMonad.two64 (c :: ds) (fun x I => digit_of_dec x (forallb_In _ _ DD x I))).
  change ScanMonad.two64 with Lexer.two64.
  destruct (parse_digits 10 Lexer.two64 0 (c :: ds)); reflexivity.
Qed.

Lemma interp_plus ds : forallb is_ascii_digit ds = true ->
  opt_none (g_interpret_number (num_text 43 [] ds)) = negb (interpret_ok 10 1 ds).
Proof.
  intros D. unfold g_interpret_number, num_text. cbn [app strip_prefix]. change (48 =? 43) with false. cbv iota.
  unfold str_starts_with_char. change (43 =? 45) with false. cbv iota. rewrite opt_none_map.
  unfold parse_u64, u64_from_str_radix, interpret_ok. change (1 =? 2) with false. cbv iota.
  destruct ds as [|d ds']; [reflexivity|].
  rewrite (digits_value_eq 10 ScanMonad.two64 (d :: ds') (fun x I => digit_of_dec x (forallb_In _ _ D x I))).
  change ScanMonad.two64 with Lexer.two64.
  destruct (parse_digits 10 Lexer.two64 0 (d :: ds')); reflexivity.
Qed.

Lemma interp_minus ds : forallb is_ascii_digit ds = true ->
  opt_none (g_interpret_number (num_text 45 [] ds)) = negb (interpret_ok 10 2 ds).
Proof.
  intros D. unfold g_interpret_number, num_text. cbn [app strip_prefix]. change (48 =? 45) with false. cbv iota.
  unfold str_starts_with_char. change (45 =? 45) with true. cbv iota.
  unfold parse_i64, interpret_ok. change (2 =? 2) with true. cbv iota.
  destruct ds as [|d ds']; [reflexivity|]. rewrite opt_none_map.
  rewrite (digits_value_eq 10 (ScanMonad.two63 + 1) (d :: ds') (fun x I => digit_of_dec x (forallb_In _ _ D x I))).
  change ScanMonad.two63 with Lexer.two63.
  destruct (parse_digits 10 (Lexer.two63 + 1) 0 (d :: ds')); reflexivity.
Qed.

(** * number: decomposition of the generated function into its statements (checked by conversion) *)
Open Scope m_scope.
Definition nb_first (c : N) : M unit :=
  c_6 <- (t_2 <- (t_1 <- s_peek ;; ret (opt_some t_1 && (let c2 := opt_get t_1 in is_ascii_digit c2))) ;; ret (negb t_2)) ;;
  if c_6 then (if c =? 43 then early T_Plus else if c =? 45 then early T_Minus else ret tt) else ret tt.
Definition nb_base (c : N) : M N :=
  if c =? 48 then (c_8 <- s_eat_if_char 98 ;;
                   if c_8 then ret 2 else (c_7 <- s_eat_if_char 120 ;; if c_7 then ret 16 else ret 10))
  else ret 10.
Definition nb_digits (base : N) : M unit :=
  if base =? 2 then (s_eat_while (fun c => (c =? 48) || (c =? 49)) ;;; ret tt)
  else if base =? 10 then (s_eat_while is_ascii_digit ;;; ret tt)
  else if base =? 16 then (s_eat_while is_ascii_hexdigit ;;; ret tt)
  else m_unreachable.
Definition nb_tail (start c base : N) : M TokenKind :=
  _ <- (c_13 <- (if (base =? 10) && is_ascii_digit c then s_at_pred g_is_identifier_start else ret false) ;;
        if c_13 then (r <- g_identifier start ;; early r) else ret tt) ;;
  _ <- (c_17 <- (if negb (base =? 10) then (t <- s_cursor ;; ret (t =? start + 2)) else ret false) ;;
        if c_17 then (r <- g_identifier start ;; early r) else ret tt) ;;
  number <- (t <- s_cursor ;; s_get start t) ;;
  _ <- (if opt_none (g_interpret_number number) then
          (if base =? 2 then (r <- g_error "Invalid binary number"%string ;; early r)
           else if base =? 10 then (r <- g_error "Invalid number"%string ;; early r)
           else if base =? 16 then (r <- g_error "Invalid hexadecimal number"%string ;; early r)
           else m_unreachable)
        else ret tt) ;;
  if base =? 2 then ret T_BinaryIntVal else if (base =? 10) || (base =? 16) then ret T_IntVal else m_unreachable.

Lemma g_number_decomp start c :
  g_number start c = fn_body (nb_first c ;;; (base <- nb_base c ;; nb_digits base ;;; nb_tail start c base)).
Proof. reflexivity. Qed.
Close Scope m_scope.

Lemma run_identifier b w s e :
  g_identifier (bytes b) (stt (b ++ w) s e) =
  let '(a, r) := eat_while is_identifier_continue s in
  (Norm (match lookup keyword_table (w ++ a) with Some k => k | None => T_Id end), stt ((b ++ w) ++ a) r e).
Proof.
  unfold g_identifier. mred.
  change (eat_while g_is_identifier_continue s) with (eat_while is_identifier_continue s).
  destruct (eat_while is_identifier_continue s) as [a r]. mred.
  rewrite <- (app_assoc b w a), from_suffix, str_lookup_eq.
  change (lookup _ (w ++ a)) with (lookup keyword_table (w ++ a)).
  destruct (lookup keyword_table (w ++ a)); reflexivity.
Qed.

Definition peek_digit (s : text) : bool := match s with d :: _ => is_ascii_digit d | [] => false end.

Lemma nb_first_run c B s e :
  nb_first c (stt B s e) =
  if negb (peek_digit s) && (c =? 43) then (Ret T_Plus, stt B s e)
  else if negb (peek_digit s) && (c =? 45) then (Ret T_Minus, stt B s e)
  else (Norm tt, stt B s e).
Proof.
  unfold nb_first, peek_digit. destruct s as [|d r]; mred; unfold opt_some, opt_get; mred.
  - destruct (c =? 43); [reflexivity|]. destruct (c =? 45); reflexivity.
  - destruct (is_ascii_digit d); mred; [reflexivity|].
    destruct (c =? 43); [reflexivity|]. destruct (c =? 45); reflexivity.
Qed.

Lemma nb_base_run c B s e :
  nb_base c (stt B s e) = let '(base, pfx, s1) := num_pfx c s in (Norm base, stt (B ++ pfx) s1 e).
Proof.
  unfold nb_base, num_pfx. destruct (c =? 48); mred; [|rewrite app_nil_r; reflexivity].
  destruct s as [|x r]; cbn [hd_eqb tl]; mred; [rewrite app_nil_r; reflexivity|].
  rewrite (N.eqb_sym 98 x).
  destruct (x =? 98) eqn:E1; mred.
  - apply N.eqb_eq in E1. subst x. reflexivity.
  - rewrite (N.eqb_sym 120 x). destruct (x =? 120) eqn:E2; mred.
    + apply N.eqb_eq in E2. subst x. reflexivity.
    + rewrite app_nil_r. reflexivity.
Qed.

Lemma nb_digits_run base B s e : base = 2 \/ base = 10 \/ base = 16 ->
  nb_digits base (stt B s e) =
  let '(ds, rest) := if base =? 2 then eat_while is_bin_digit s
                     else if base =? 10 then eat_while is_ascii_digit s else eat_while is_ascii_hexdigit s in
  (Norm tt, stt (B ++ ds) rest e).
Proof.
  unfold nb_digits. intros [ -> | [ -> | -> ] ].
  - change (2 =? 2) with true. mred. change (eat_while (fun c => (c =? 48) || (c =? 49)) s) with (eat_while is_bin_digit s).
    destruct (eat_while is_bin_digit s); reflexivity.
  - change (10 =? 2) with false. change (10 =? 10) with true. mred. destruct (eat_while is_ascii_digit s); reflexivity.
  - change (16 =? 2) with false. change (16 =? 10) with false. change (16 =? 16) with true. mred.
    destruct (eat_while is_ascii_hexdigit s); reflexivity.
Qed.

Lemma get_lexeme b w rest :
  fst (split_b (bytes (b ++ w) - bytes (fst (split_b (bytes b) ((b ++ w) ++ rest))))
               (snd (split_b (bytes b) ((b ++ w) ++ rest)))) = w.
Proof.
  rewrite <- app_assoc, split_b_app. cbn [fst snd]. rewrite bytes_app.
  replace (bytes b + bytes w - bytes b) with (bytes w) by lia. rewrite split_b_app. reflexivity.
Qed.

(** the statements after the digits, against the corresponding part of the hand model *)
Definition finish (r : res TokenKind * lx) : res TokenKind * lx :=
  match r with (Ret k, st) => (Norm k, st) | x => x end.

Definition hand_tail (c base sign : N) (pfx ds rest : text) : lexres :=
  let digits := if (base =? 10) && (sign =? 0) then c :: ds else ds in
  if (base =? 10) && (sign =? 0) && (match rest with d :: _ => is_identifier_start d | [] => false end) then
    let '(a, rest') := eat_while is_identifier_continue rest in
    match lookup keyword_table (c :: ds ++ a) with
    | Some k => tok k (ds ++ a) rest'
    | None => tok T_Id (ds ++ a) rest'
    end
  else if negb (base =? 10) && (match ds with [] => true | _ :: _ => false end) then
    let '(a, rest') := eat_while is_identifier_continue rest in
    match lookup keyword_table (c :: pfx ++ a) with
    | Some k => tok k (pfx ++ a) rest'
    | None => tok T_Id (pfx ++ a) rest'
    end
  else if interpret_ok base sign digits then
    tok (if base =? 2 then T_BinaryIntVal else T_IntVal) (pfx ++ ds) rest
  else
    err (if base =? 2 then EInvalidBinary else if base =? 10 then EInvalidNumber else EInvalidHex) (pfx ++ ds) rest.

Lemma number_staged c s :
  number c s =
  if negb (peek_digit s) && (c =? 43) then tok T_Plus [] s
  else if negb (peek_digit s) && (c =? 45) then tok T_Minus [] s
  else
    let sign := if c =? 43 then 1 else if c =? 45 then 2 else 0 in
    let '(base, pfx, s1) := num_pfx c s in
    let '(ds, rest) :=
      if base =? 2 then eat_while is_bin_digit s1
      else if base =? 10 then eat_while is_ascii_digit s1
      else eat_while is_ascii_hexdigit s1 in
    hand_tail c base sign pfx ds rest.
Proof. rewrite number_eq. reflexivity. Qed.

Ltac split_here := rewrite <- ?app_assoc; rewrite split_b_app; mred.

(** unsigned decimal *)
Lemma tail_dec b c ds rest e : is_ascii_digit c = true -> forallb is_ascii_digit ds = true ->
  finish (nb_tail (bytes b) c 10 (stt (b ++ num_text c [] ds) rest e))
  = outcome (b ++ [c]) e (hand_tail c 10 0 [] ds rest).
Proof.
  intros C D. unfold nb_tail, hand_tail, g_error.
  change (10 =? 10) with true. change (10 =? 2) with false. change (0 =? 0) with true. rewrite C. mred.
  change (match rest with [] => false | c0 :: _ => g_is_identifier_start c0 end)
    with (match rest with d :: _ => is_identifier_start d | [] => false end).
  destruct (match rest with d :: _ => is_identifier_start d | [] => false end); mred.
  - unfold num_text. cbn [app]. fold (stt (b ++ c :: ds) rest e). rewrite (run_identifier b (c :: ds) rest e).
    destruct (eat_while is_identifier_continue rest) as [a r']. cbn [finish app].
    destruct (lookup keyword_table (c :: ds ++ a)); mred; rewrite <- !app_assoc; reflexivity.
  - unfold num_text at 1 2. cbn [app]. split_here. rewrite bytes_app.
    replace (bytes b + bytes (c :: ds) - bytes b) with (bytes (c :: ds)) by lia. rewrite split_b_app. cbn [fst].
    change (c :: ds) with (num_text c [] ds) at 1. rewrite (interp_dec c ds C D).
    destruct (interpret_ok 10 0 (c :: ds)); mred; cbn [finish]; unfold num_text; cbn [app]; rewrite <- ?app_assoc; reflexivity.
Qed.

(** signed decimal *)
Lemma tail_signed b c ds rest e : ((c =? 43) || (c =? 45)) = true -> forallb is_ascii_digit ds = true ->
  finish (nb_tail (bytes b) c 10 (stt (b ++ num_text c [] ds) rest e))
  = outcome (b ++ [c]) e (hand_tail c 10 (if c =? 43 then 1 else if c =? 45 then 2 else 0) [] ds rest).
Proof.
  intros C D. unfold nb_tail, hand_tail, g_error.
  change (10 =? 10) with true. change (10 =? 2) with false.
  apply orb_true_iff in C. destruct C as [C|C]; apply N.eqb_eq in C; subst c.
  - change (is_ascii_digit 43) with false. change (43 =? 43) with true. cbv iota. change (1 =? 0) with false. mred.
    unfold num_text at 1 2. cbn [app]. split_here. rewrite bytes_app.
    replace (bytes b + bytes (43 :: ds) - bytes b) with (bytes (43 :: ds)) by lia. rewrite split_b_app. cbn [fst].
    change (43 :: ds) with (num_text 43 [] ds) at 1. rewrite (interp_plus ds D).
    destruct (interpret_ok 10 1 ds); mred; cbn [finish]; unfold num_text; cbn [app]; rewrite <- ?app_assoc; reflexivity.
  - change (is_ascii_digit 45) with false. change (45 =? 43) with false. change (45 =? 45) with true.
    cbv iota. change (2 =? 0) with false. mred.
    unfold num_text at 1 2. cbn [app]. split_here. rewrite bytes_app.
    replace (bytes b + bytes (45 :: ds) - bytes b) with (bytes (45 :: ds)) by lia. rewrite split_b_app. cbn [fst].
    change (45 :: ds) with (num_text 45 [] ds) at 1. rewrite (interp_minus ds D).
    destruct (interpret_ok 10 2 ds); mred; cbn [finish]; unfold num_text; cbn [app]; rewrite <- ?app_assoc; reflexivity.
Qed.

Lemma cursor_plus2 b x ds : (bytes (b ++ 48 :: x :: ds) =? bytes b + 2) = (match ds with [] => true | _ :: _ => false end) \/ 128 <= x.
Proof.
  destruct (x <? 128) eqn:X; [left|right; apply N.ltb_ge; exact X].
  rewrite bytes_app. cbn [bytes]. change (utf8_len 48) with 1. unfold utf8_len at 1. rewrite X.
  destruct ds as [|d ds']; cbn [bytes].
  - apply N.eqb_eq. lia.
  - apply N.eqb_neq. pose proof (utf8_len_pos d). lia.
Qed.

(** 0x / 0b *)
Lemma tail_radix b base x (p : N -> bool) ds rest e :
  (base = 16 /\ x = 120 /\ p = is_ascii_hexdigit) \/ (base = 2 /\ x = 98 /\ p = is_bin_digit) ->
  forallb p ds = true ->
  finish (nb_tail (bytes b) 48 base (stt (b ++ num_text 48 [x] ds) rest e))
  = outcome (b ++ [48]) e (hand_tail 48 base 0 [x] ds rest).
Proof.
  intros SH D. unfold nb_tail, hand_tail, g_error.
  assert (B10 : (base =? 10) = false) by (destruct SH as [(-> & _)|(-> & _)]; reflexivity).
  rewrite B10. mred. unfold num_text. cbn [app].
  destruct (cursor_plus2 b x ds) as [CP|CP]; [|destruct SH as [(_ & -> & _)|(_ & -> & _)]; discriminate CP || lia].
  rewrite CP. destruct ds as [|d ds'].
  - (* identifier 0x / 0b *)
    mred. fold (stt (b ++ [48; x]) rest e). rewrite (run_identifier b [48; x] rest e).
    destruct (eat_while is_identifier_continue rest) as [a r']. cbn [finish app].
    destruct (lookup keyword_table (48 :: x :: a)); mred; rewrite <- !app_assoc; reflexivity.
  - mred. split_here. rewrite bytes_app.
    replace (bytes b + bytes (48 :: x :: d :: ds') - bytes b) with (bytes (48 :: x :: d :: ds')) by lia.
    rewrite split_b_app. cbn [fst].
    destruct SH as [(-> & -> & ->)|(-> & -> & ->)].
    + change (48 :: 120 :: d :: ds') with (num_text 48 [120] (d :: ds')) at 1. rewrite (interp_hex _ D).
      destruct (interpret_ok 16 0 (d :: ds')); mred; cbn [finish]; unfold num_text; cbn [app]; rewrite <- ?app_assoc; reflexivity.
    + change (48 :: 98 :: d :: ds') with (num_text 48 [98] (d :: ds')) at 1. rewrite (interp_bin _ D).
      destruct (interpret_ok 2 0 (d :: ds')); mred; cbn [finish]; unfold num_text; cbn [app]; rewrite <- ?app_assoc; reflexivity.
Qed.

Lemma fn_body_finish m st : fn_body m st = finish (m st).
Proof. unfold fn_body, finish. destruct (m st) as [[a|k| |] st']; reflexivity. Qed.

Lemma eat_while_forall (p : N -> bool) s a r : eat_while p s = (a, r) -> forallb p a = true.
Proof.
  revert a r. induction s as [|c s IH]; intros a r H; cbn [eat_while] in H.
  - inversion H. reflexivity.
  - destruct (p c) eqn:P.
    + destruct (eat_while p s) as [a' r'] eqn:E. inversion H; subst. cbn [forallb]. rewrite P. apply (IH a' r). reflexivity.
    + inversion H; subst. reflexivity.
Qed.

Lemma bind_run {A B} (m : M A) (f : A -> M B) st a st' : m st = (Norm a, st') -> bind m f st = f a st'.
Proof. unfold bind. intros ->. reflexivity. Qed.
Lemma bind_ret_run {A B} (m : M A) (f : A -> M B) st k st' : m st = (Ret k, st') -> bind m f st = (Ret k, st').
Proof. unfold bind. intros ->. reflexivity. Qed.

Lemma agrees_number b c s e : (is_ascii_digit c || (c =? 45) || (c =? 43)) = true ->
  g_number (bytes b) c (stt (b ++ [c]) s e) = outcome (b ++ [c]) e (number c s).
Proof.
  intros CC. rewrite g_number_decomp, number_staged, fn_body_finish.
  pose proof (nb_first_run c (b ++ [c]) s e) as F1.
  destruct (negb (peek_digit s) && (c =? 43)) eqn:P.
  { rewrite (bind_ret_run _ _ _ _ _ F1). cbn [finish]. mred. rewrite app_nil_r. reflexivity. }
  destruct (negb (peek_digit s) && (c =? 45)) eqn:M.
  { rewrite (bind_ret_run _ _ _ _ _ F1). cbn [finish]. mred. rewrite app_nil_r. reflexivity. }
  rewrite (bind_run _ _ _ _ _ F1). clear F1. cbv zeta.
  pose proof (nb_base_run c (b ++ [c]) s e) as F2.
  destruct (num_pfx c s) as [[base pfx] s1] eqn:NP.
  rewrite (bind_run _ _ _ _ _ F2). clear F2.
  assert (SH : (base = 10 /\ pfx = []) \/ (c = 48 /\ base = 16 /\ pfx = [120]) \/ (c = 48 /\ base = 2 /\ pfx = [98])).
  { unfold num_pfx in NP. destruct (c =? 48) eqn:Z.
    - apply N.eqb_eq in Z. destruct (hd_eqb 98 s); [inversion NP; auto|].
      destruct (hd_eqb 120 s); inversion NP; auto.
    - inversion NP; auto. }
  assert (B3 : base = 2 \/ base = 10 \/ base = 16) by (destruct SH as [(-> & _)|[(_ & -> & _)|(_ & -> & _)]]; auto).
  pose proof (nb_digits_run base ((b ++ [c]) ++ pfx) s1 e B3) as F3.
  destruct (if base =? 2 then eat_while is_bin_digit s1
            else if base =? 10 then eat_while is_ascii_digit s1 else eat_while is_ascii_hexdigit s1) as [ds rest] eqn:ED.
  rewrite (bind_run _ _ _ _ _ F3). clear F3.
  replace (((b ++ [c]) ++ pfx) ++ ds) with (b ++ num_text c pfx ds)
    by (unfold num_text; rewrite <- !app_assoc; reflexivity).
  destruct SH as [(-> & ->)|[(-> & -> & ->)|(-> & -> & ->)]].
  - (* decimal *)
    change (10 =? 2) with false in ED. change (10 =? 10) with true in ED. cbv iota in ED.
    pose proof (eat_while_forall _ _ _ _ ED) as D.
    destruct (is_ascii_digit c) eqn:DC.
    + destruct (digit_facts c DC) as (C43 & C45 & _). rewrite C43, C45. apply tail_dec; assumption.
    + cbn [orb] in CC. apply tail_signed; [rewrite orb_comm; exact CC|exact D].
  - change (16 =? 2) with false in ED. change (16 =? 10) with false in ED. cbv iota in ED.
    pose proof (eat_while_forall _ _ _ _ ED) as D. change (48 =? 43) with false. change (48 =? 45) with false. cbv iota.
    apply (tail_radix b 16 120 is_ascii_hexdigit); [left; auto|exact D].
  - change (2 =? 2) with true in ED. cbv iota in ED.
    pose proof (eat_while_forall _ _ _ _ ED) as D. change (48 =? 43) with false. change (48 =? 45) with false. cbv iota.
    apply (tail_radix b 2 98 is_bin_digit); [right; auto|exact D].
Qed.

(** * next_token *)
Lemma outcome_cons b c e x : outcome (b ++ [c]) e x = outcome b e (cons_lexeme c x).
Proof. destruct x as [[[k eo] a] rest]. cbn [outcome cons_lexeme]. rewrite <- app_assoc. reflexivity. Qed.

Lemma finish_outcome b e x : finish (outcome b e x) = outcome b e x.
Proof. destruct x as [[[k eo] a] rest]. reflexivity. Qed.

Ltac fold_state :=
  match goal with
  | |- context [{| l_s := {| sc_before := ?B; sc_after := ?S |}; l_error := ?E |}] => fold (stt B S E)
  end.

Ltac eval_closed :=
  repeat match goal with
  | |- context [N.eqb ?x ?y] =>
      let v := eval vm_compute in (N.eqb x y) in
      lazymatch v with true => change (N.eqb x y) with true | false => change (N.eqb x y) with false end
  | |- context [is_whitespace ?x] =>
      let v := eval vm_compute in (is_whitespace x) in
      lazymatch v with true => change (is_whitespace x) with true | false => change (is_whitespace x) with false end
  | |- context [is_ascii_digit ?x] =>
      let v := eval vm_compute in (is_ascii_digit x) in
      lazymatch v with true => change (is_ascii_digit x) with true | false => change (is_ascii_digit x) with false end
  | |- context [is_identifier_start ?x] =>
      let v := eval vm_compute in (is_identifier_start x) in
      lazymatch v with true => change (is_identifier_start x) with true | false => change (is_identifier_start x) with false end
  | |- context [g_is_identifier_start ?x] =>
      let v := eval vm_compute in (g_is_identifier_start x) in
      lazymatch v with true => change (g_is_identifier_start x) with true | false => change (g_is_identifier_start x) with false end
  end.

Ltac conc := eval_closed; mred.

(** a call of a scanner function in tail position, against  cons_lexeme c (f r) *)
Ltac call L := fold_state; rewrite L; rewrite finish_outcome, outcome_cons; reflexivity.

Lemma next_token_nil b e : g_next_token (stt b [] e) = outcome b e (lex_one []).
Proof.
  change (lex_one []) with (tok T_Eof [] []).
  unfold g_next_token. rewrite fn_body_finish. mred. unfold opt_some, opt_is, opt_none, opt_get. mred.
  cbn [finish]. rewrite app_nil_r. reflexivity.
Qed.

Lemma ws_lexres c r :
  (let '(a, rest) := eat_while is_ascii_whitespace r in tok T_Whitespace (c :: a) rest)
  = cons_lexeme c (let '(a, rest) := eat_while is_ascii_whitespace r in tok T_Whitespace a rest).
Proof. destruct (eat_while is_ascii_whitespace r); reflexivity. Qed.

Lemma next_token_cons b c r e : g_next_token (stt b (c :: r) e) = outcome b e (lex_one (c :: r)).
Proof.
  rewrite lex_one_eq. unfold g_next_token. rewrite fn_body_finish. mred.
  unfold opt_some, opt_is, opt_none, opt_get. mred.
  change (g_is_identifier_start c) with (is_identifier_start c).
  (* white space *)
  destruct (is_whitespace c) eqn:WS.
  { fold_state. rewrite agrees_whitespace, finish_outcome. destruct (eat_while is_ascii_whitespace r).
    mred. rewrite <- !app_assoc. reflexivity. }
  (* '/' *)
  destruct (c =? 47) eqn:SL.
  { apply N.eqb_eq in SL. subst c. destruct r as [|x r']; cbn [hd_eqb tl]; conc.
    - cbn [finish]. reflexivity.
    - rewrite (N.eqb_sym 47 x). destruct (x =? 47) eqn:X1; mred.
      + apply N.eqb_eq in X1. subst x. fold_state. rewrite agrees_line_comment, finish_outcome.
        destruct (eat_until is_newline r'). mred. rewrite <- !app_assoc. reflexivity.
      + rewrite (N.eqb_sym 42 x). destruct (x =? 42) eqn:X2; mred.
        * apply N.eqb_eq in X2. subst x. fold_state. rewrite agrees_block_comment, finish_outcome.
          destruct (block_comment 0 r'). mred. rewrite <- !app_assoc. reflexivity.
        * conc. cbn [finish]. reflexivity. }
  cbn [andb].
  (* numbers *)
  destruct (is_ascii_digit c) eqn:DG.
  { fold_state. rewrite (agrees_number b c r e) by (rewrite DG; reflexivity).
    rewrite finish_outcome, outcome_cons. reflexivity. }
  destruct (c =? 45) eqn:MI.
  { apply N.eqb_eq in MI. subst c. fold_state. rewrite (agrees_number b 45 r e eq_refl).
    rewrite finish_outcome, outcome_cons. reflexivity. }
  destruct (c =? 43) eqn:PL.
  { apply N.eqb_eq in PL. subst c. fold_state. rewrite (agrees_number b 43 r e eq_refl).
    rewrite finish_outcome, outcome_cons. reflexivity. }
  (* identifiers *)
  destruct (is_identifier_start c) eqn:ID.
  { fold_state. rewrite agrees_identifier, finish_outcome, outcome_cons. reflexivity. }
  destruct (c =? 34) eqn:QU. { call agrees_string. }
  destruct (c =? 36) eqn:DO. { call agrees_var_name. }
  (* '[' and "[{" *)
  destruct (c =? 91) eqn:LB.
  { apply N.eqb_eq in LB. subst c. destruct r as [|x r']; cbn [hd_eqb tl andb]; conc.
    - cbn [finish]. reflexivity.
    - rewrite (N.eqb_sym 123 x). destruct (x =? 123) eqn:X1; mred.
      + apply N.eqb_eq in X1. subst x. fold_state. rewrite agrees_code_fragment, finish_outcome.
        destruct (code_fragment r') as [[[k eo] a] rest]. mred. rewrite <- !app_assoc. reflexivity.
      + conc. cbn [finish]. reflexivity. }
  cbn [andb].
  destruct (c =? 33) eqn:BA. { call agrees_bangoperator. }
  destruct (c =? 35) eqn:HA. { call agrees_preprocessor. }
  (* single-character punctuation, in the order of the source *)
  repeat match goal with
  | |- context [c =? ?K] =>
      lazymatch K with 46 => fail | _ => idtac end;
      let E := fresh "E" in
      destruct (c =? K) eqn:E;
      [ apply N.eqb_eq in E; subst c; conc; cbn [finish]; reflexivity | ]
  end.
  (* '.', "..", "..." *)
  destruct (c =? 46) eqn:DT.
  { apply N.eqb_eq in DT. subst c. destruct r as [|x r']; cbn [hd_eqb tl]; conc.
    - cbn [finish]. reflexivity.
    - rewrite (N.eqb_sym 46 x). destruct (x =? 46) eqn:X1; mred.
      + destruct r' as [|y r'']; cbn [hd_eqb tl]; mred.
        * cbn [finish]. apply N.eqb_eq in X1. subst x. rewrite <- !app_assoc. reflexivity.
        * rewrite (N.eqb_sym 46 y). apply N.eqb_eq in X1. subst x.
          destruct (y =? 46) eqn:Y1; mred; cbn [finish]; [apply N.eqb_eq in Y1; subst y|]; rewrite <- !app_assoc; reflexivity.
      + cbn [finish]. reflexivity. }
  (* anything else: unexpected character *)
  assert (LK : lookup1 punct_table c = None).
  { unfold punct_table. cbn [lookup1].
    repeat match goal with H : (c =? ?K) = false |- _ => rewrite (N.eqb_sym K c), H; clear H end.
    reflexivity. }
  rewrite LK. mred. cbn [finish]. reflexivity.
Qed.

Theorem next_token_eq b s e : g_next_token (stt b s e) = outcome b e (lex_one s).
Proof. destruct s as [|c r]; [apply next_token_nil|apply next_token_cons]. Qed.

(** * The whole token stream *)
Lemma s_get_run b a rest e : s_get (bytes b) (bytes (b ++ a)) (stt (b ++ a) rest e) = (Norm a, stt (b ++ a) rest e).
Proof.
  mred. rewrite <- app_assoc, split_b_app. mred. rewrite bytes_app.
  replace (bytes b + bytes a - bytes b) with (bytes a) by lia. rewrite split_b_app. reflexivity.
Qed.

Lemma drive_eq n : forall b s, gen_drive n (stt b s None) = map hand_view (lex_all n s).
Proof.
  induction n as [|n IH]; intros b s; [reflexivity|].
  rewrite lex_all_unfold. cbn [gen_drive].
  change (g_cursor (stt b s None)) with (Norm (bytes b), stt b s None). cbn [run_val].
  unfold g_eat. rewrite fn_body_finish, next_token_eq, finish_outcome.
  destruct (lex_one s) as [[[k eo] a] rest] eqn:L1. cbn [outcome run_val].
  change (g_cursor (stt (b ++ a) rest (upd None eo))) with (Norm (bytes (b ++ a)), stt (b ++ a) rest (upd None eo)).
  cbn [run_val]. unfold g_text. cbn [fst snd]. rewrite s_get_run. cbn [run_val].
  pose proof (lex_one_err _ _ _ _ _ L1) as ER.
  destruct (tk_eqb k T_Error) eqn:KE.
  - apply LexBasics.tk_eqb_eq in KE. subst k. destruct eo as [x|]; [|exfalso; apply (proj1 ER); reflexivity].
    change (tk_eqb T_Error T_Eof) with false. cbv iota.
    change (run_val (g_take_error (stt (b ++ a) rest (upd None (Some x)))))
      with (Some (Some (lex_err_msg x), stt (b ++ a) rest None)).
    cbn [map hand_view option_map]. rewrite IH. reflexivity.
  - destruct eo as [x|]; [exfalso; apply tk_eqb_neq in KE; apply KE; apply (proj2 ER); discriminate|].
    cbn [upd]. destruct (tk_eqb k T_Eof); cbn [map hand_view option_map]; [reflexivity|]. rewrite IH. reflexivity.
Qed.

Theorem gen_lex_text_eq txt : gen_lex_text txt = map hand_view (lex_text txt).
Proof. unfold gen_lex_text, lex_text. change (g_new txt) with (stt [] txt None). apply drive_eq. Qed.
