(** C04, completeness direction for (almost) the whole documented grammar, by the reflective LL(1)-style checker of
    model/GramComp.v (soundness: proofs/GramCompSound.v).  The certificate - which grammar function parses which documented
    nonterminal (by NAME), nullable / FIRST tables, FOLLOW sets and ranks - is computed here by untrusted iteration and
    validated by [check_complete]. *)
From Coq Require Import List NArith Bool Lia PeanoNat Arith String.
From TG.Gen Require Import GenTokens GenGrammar GenDocGrammar.
From TG.Model Require Import Chars Lexer Prep Tree ParserPrims GInterp DocGrammar GramAbs GramCert TokSem GramComp.
From TG.Proofs Require Import GramRx GramSound TokRefine TokFrame TokComplete GramCompRx GramCompSound TokLead.
Import ListNotations.
Open Scope string_scope.

(** certified functions: (grammar function, documented nonterminal) *)
Definition comp_functions : list (string * string) :=
  [ ("source_file", "SourceFile"); ("statement_list_TopLevel", "StatementList");
    ("value", "Value"); ("inner_value", "InnerValue"); ("simple_value", "SimpleValue");
    ("integer", "Integer"); ("string", "String"); ("code", "Code"); ("boolean", "Boolean"); ("uninitialized", "Uninitialized");
    ("bits", "Bits"); ("list", "List"); ("dag", "Dag"); ("dagarg", "DagArg");
    ("identifier", "Identifier"); ("class_id", "ClassId"); ("identifier_or_class_value", "ClassValue");
    ("arg_value_list", "ArgValueList");
    ("bang_operator", "BangOperator"); ("cond_operator", "CondOperator"); ("cond_clause", "CondClause");
    ("range_suffix", "RangeSuffix"); ("range_list", "RangeList"); ("range_piece", "RangePiece");
    ("slice_suffix", "SliceSuffix"); ("slice_elements", "SliceElements"); ("slice_element", "SliceElement");
    ("field_suffix", "FieldSuffix");
    ("type", "Type"); ("bit_type", "BitType"); ("int_type", "IntType"); ("string_type", "StringType"); ("dag_type", "DagType");
    ("bits_type", "BitsType"); ("list_type", "ListType"); ("code_type", "CodeType");
    ("statement", "Statement"); ("include", "Include"); ("assert", "Assert"); ("class", "Class"); ("def", "Def"); ("let", "Let");
    ("let_list", "LetList"); ("let_item", "LetItem"); ("multi_class", "MultiClass"); ("multi_class_statement", "MultiClassStatement");
    ("defm", "Defm"); ("defset", "Defset"); ("defvar", "Defvar"); ("dump", "Dump"); ("foreach", "Foreach");
    ("foreach_iterator", "ForeachIterator"); ("foreach_iterator_init", "ForeachIteratorInit");
    ("template_arg_list", "TemplateArgList"); ("template_arg_decl", "TemplateArgDecl"); ("record_body", "RecordBody");
    ("parent_class_list", "ParentClassList"); ("class_ref", "ClassRef"); ("body", "Body"); ("body_item", "BodyItem");
    ("field_def", "FieldDef"); ("field_let", "FieldLet"); ("name_value", "NameValue"); ("if", "If") ].
(** certified, but their callers execute them inline (their callers' residuals are not headed by these nonterminals) *)
Definition comp_inline_names : list string :=
  ["integer"; "identifier_or_class_value"; "string"; "code"; "boolean"; "uninitialized"; "identifier"; "class_id"].
(** The documented rule of If is RESTRICTED: `if c then if d then X else Y` makes the documented grammar ambiguous (dangling
    else), so "the function consumes exactly a word of If whatever follows" is false for the follower `else`.  In
    [comp_grammar] an `else` may follow a then-branch only when that branch is a block or a CLOSED statement (one that cannot
    end in an else-less `if`): def, class, defm, defvar, dump, assert, include, defset, multiclass, let / foreach with a block
    body.  Three nonterminals are appended for this; every word of [comp_grammar] is a
    word of the documented grammar ([comp_grammar_sub], by the validated inclusion test [sub_grammar_ok]). *)
Definition nt_of (s : string) : nat := match nt_index s with Some n => n | None => 0 end.
Definition comp_base : nat := List.length doc_rules_must.
Definition n_closed : nat := comp_base.
Definition n_let_c : nat := 1 + comp_base.
Definition n_foreach_c : nat := 2 + comp_base.
Definition comp_extra_names : list string := ["ClosedStatement"; "LetBlock"; "ForeachBlock"].
Definition comp_nt_names : list string := doc_nt_names ++ comp_extra_names.
Definition comp_phi (n : nat) : nat :=
  if Nat.ltb n comp_base then n else nth (n - comp_base) [nt_of "Statement"; nt_of "Let"; nt_of "Foreach"] 0.
Definition closed_names : list string := ["Def"; "Class"; "Defm"; "Defvar"; "Dump"; "Assert"; "Include"; "Defset"; "MultiClass"].
Definition closed_rule : rx :=
  fold_right (fun s acc => match nt_index s with Some n => RAlt (RSym (DNT n)) acc | None => acc end)
             (RAlt (RSym (DNT n_let_c)) (RSym (DNT n_foreach_c))) closed_names.
Definition if_restrict (r : rx) : rx :=
  match r with
  | RSeq i (RSeq v (RSeq t (RSeq (RAlt blk st) e))) => RSeq i (RSeq v (RSeq t (RAlt (RSeq blk e) (RAlt (RSeq (RSym (DNT n_closed)) e) st))))
  | _ => RNone
  end.
Definition block_body (r : rx) : rx :=          (* let / foreach with a block body *)
  match r with
  | RSeq a (RSeq b (RSeq c (RAlt blk st))) => RSeq a (RSeq b (RSeq c blk))
  | _ => RNone
  end.
Definition rule_of (s : string) : rx := nth (nt_of s) doc_rules_must RNone.
Definition comp_grammar : grammar := Eval vm_compute in
  (map (fun nr => if Nat.eqb (fst nr) (nt_of "If") then if_restrict (snd nr) else snd nr)
       (combine (seq 0 (List.length doc_rules_must)) doc_rules_must)
   ++ [closed_rule; block_body (rule_of "Let"); block_body (rule_of "Foreach")])%list.
Lemma comp_sub_ok : sub_grammar_ok doc_rules_must comp_grammar comp_phi 40 = true.
Proof. vm_compute. reflexivity. Qed.

Definition comp_mode (f : nat) : option nat :=
  match find (fun e => String.eqb (fst e) (fn_name f)) comp_functions with
  | Some (_, nt) => nt_index nt
  | None => None
  end.
Definition comp_inl (f : nat) : bool := existsb (String.eqb (fn_name f)) comp_inline_names.
Definition comp_tabs_v : tabs := Eval vm_compute in comp_tabs comp_grammar.
(** FOLLOW sets: the least solution for [comp_grammar], seeded with the end of input (T_Eof stands for "no token left")
    after SourceFile *)
Definition comp_follow_seed : list (string * list TokenKind) := [ ("SourceFile", [T_Eof]) ].
Definition comp_follow_init : list (list TokenKind) :=
  map (fun n => flat_map (fun e => match nt_index (fst e) with Some m => if Nat.eqb m n then snd e else [] | None => [] end) comp_follow_seed)
      (seq 0 (List.length comp_grammar)).
Definition comp_follow_v : list (list TokenKind) := Eval vm_compute in comp_follow comp_grammar comp_tabs_v comp_follow_init.
Definition comp_ranks_v : list nat := Eval vm_compute in comp_ranks comp_grammar comp_tabs_v.
Definition comp_mode_v : list (option nat) := Eval vm_compute in map comp_mode (seq 0 (List.length (fns grammar_prog))).
Definition comp_inl_v : list bool := Eval vm_compute in map comp_inl (seq 0 (List.length (fns grammar_prog))).
Definition comp_cert : ccert :=
  {| cc_mode := fun f => nth f comp_mode_v None; cc_inl := fun f => nth f comp_inl_v false;
     cc_fol := fun m => nth m comp_follow_v []; cc_rank := fun m => nth m comp_ranks_v 0;
     cc_tabs := comp_tabs_v; cc_dfuel := 30; cc_rounds := 12 |}.
Definition comp_fuel : nat := 60.

Lemma comp_check : check_complete comp_grammar grammar_prog comp_cert comp_fuel = true.
Proof. vm_cast_no_check (eq_refl true). Qed.

(** the covered (nonterminal, function) pairs *)
Definition comp_covered : list (nat * nat) :=
  flat_map (fun f => match nth f comp_mode_v None with Some m => [(m, f)] | None => [] end) (seq 0 (List.length (fns grammar_prog))).
Definition comp_followers (m : nat) : list TokenKind := nth m comp_follow_v [].
Lemma comp_covered_all : List.length comp_covered = List.length comp_functions.
Proof. vm_compute. reflexivity. Qed.

Close Scope string_scope.

Theorem comp_complete_tok : forall m f, In (m, f) comp_covered ->
  forall w, derives comp_grammar m w -> forall tail e, In (hdT tail) (comp_followers m) ->
  exists n0, forall n, n0 <= n ->
    texec n grammar_prog (ECall f None) [] (mk_ts (w ++ tail) e) = TVal (VB true) [] (mk_ts tail e).
Proof.
  intros m f Hin w Hd tail e Hk.
  unfold comp_covered in Hin. apply in_flat_map in Hin as (f0 & Hf0 & Hin).
  destruct (nth f0 comp_mode_v None) as [m0|] eqn:E; [|contradiction]. destruct Hin as [Hin|[]]. inversion Hin. subst m0 f0.
  apply in_seq in Hf0.
  destruct (check_complete_sound comp_grammar grammar_prog comp_cert comp_fuel comp_check m f w E ltac:(lia) Hd tail e [] Hk) as (n0 & H).
  exists n0. intros n Hn. rewrite (texec_fuel grammar_prog n0 _ _ _ ltac:(rewrite H; exact I) n Hn). exact H.
Qed.

(** the same for the full parser model; [tail] may be empty (end of input) *)
Theorem comp_complete_model : forall m f, In (m, f) comp_covered ->
  forall w, derives comp_grammar m w -> forall tail, In (hdT tail) (comp_followers m) ->
  forall s, Toks s (w ++ tail) -> after_err s = false ->
  exists n0, forall n, n0 <= n ->
    match gexec n grammar_prog (ECall f None) [] s with
    | RPanic => True
    | RVal v _ s' => v = VB true /\ Toks s' tail /\ nerr s' = nerr s /\ after_err s' = false
    | _ => False
    end.
Proof.
  intros m f Hin w Hd tail Hk s HT Ha.
  destruct (comp_complete_tok m f Hin w Hd tail (nerr s) Hk) as (n0 & H0).
  exists n0. intros n Hn.
  assert (R0 : TR s (mk_ts (w ++ tail) (nerr s))) by (repeat split; auto).
  exact (refine_done grammar_prog n (ECall f None) s (mk_ts (w ++ tail) (nerr s)) (mk_ts tail (nerr s)) R0 (H0 n Hn)).
Qed.

(** words of the restricted grammar are words of the documented grammar *)
Lemma comp_grammar_sub n w : derives comp_grammar n w -> derives doc_rules_must (comp_phi n) w.
Proof. unfold derives. intros H. exact (sub_grammar_sound doc_rules_must comp_grammar comp_phi 40 comp_sub_ok _ _ H). Qed.
Lemma comp_phi_id : forallb (fun n => Nat.eqb (comp_phi n) n) (seq 0 (List.length doc_rules_must)) = true.
Proof. vm_compute. reflexivity. Qed.

(** nonterminals that cannot reach `If`: for them the theorem holds for the documented grammar itself *)
Definition mentions (R : list nat) (r : rx) : bool := existsb (fun m => existsb (Nat.eqb m) R) (rx_nts r).
Definition reach_step (G : grammar) (R : list nat) : list nat :=
  R ++ filter (fun n => negb (existsb (Nat.eqb n) R) && match nth_error G n with Some rhs => mentions R rhs | None => false end)
              (seq 0 (List.length G)).
Definition comp_iffree : list nat :=
  Eval vm_compute in
    let R := iter (List.length doc_rules_must) (reach_step doc_rules_must) [nt_of "If"] in
    filter (fun n => negb (existsb (Nat.eqb n) R)) (seq 0 (List.length doc_rules_must)).
Lemma comp_iffree_closed : nts_closed doc_rules_must comp_iffree = true.
Proof. vm_compute. reflexivity. Qed.
Lemma comp_iffree_agree : rules_agree doc_rules_must comp_grammar comp_iffree = true.
Proof. vm_compute. reflexivity. Qed.
Lemma comp_iffree_keep n w : In n comp_iffree -> derives doc_rules_must n w -> derives comp_grammar n w.
Proof.
  intros Hn Hd. unfold derives in *.
  apply (agree_keep doc_rules_must comp_grammar comp_iffree comp_iffree_closed comp_iffree_agree); auto.
  intros m [<-|[]]. exact Hn.
Qed.

Theorem comp_complete_doc : forall m f, In (m, f) comp_covered -> In m comp_iffree ->
  forall w, derives doc_rules_must m w -> forall tail, In (hdT tail) (comp_followers m) ->
  forall s, Toks s (w ++ tail) -> after_err s = false ->
  exists n0, forall n, n0 <= n ->
    match gexec n grammar_prog (ECall f None) [] s with
    | RPanic => True
    | RVal v _ s' => v = VB true /\ Toks s' tail /\ nerr s' = nerr s /\ after_err s' = false
    | _ => False
    end.
Proof.
  intros m f Hin Hfree w Hd. apply comp_complete_model; auto. now apply comp_iffree_keep.
Qed.

(** whole files: every if-free sentence of the documented grammar, from any parser state whose upcoming tokens are the
    sentence followed by the end of input *)
Definition nt_SourceFile : nat := match nt_index "SourceFile"%string with Some m => m | None => 0 end.
Lemma source_file_covered : In (nt_SourceFile, grammar_entry) comp_covered /\ In T_Eof (comp_followers nt_SourceFile).
Proof. vm_compute. tauto. Qed.
Theorem comp_complete_file : forall w, derives comp_grammar nt_SourceFile w ->
  forall s, Toks s w -> after_err s = false ->
  exists n0, forall n, n0 <= n ->
    match gexec n grammar_prog (ECall grammar_entry None) [] s with
    | RPanic => True
    | RVal v _ s' => v = VB true /\ Toks s' [] /\ nerr s' = nerr s /\ after_err s' = false
    | _ => False
    end.
Proof.
  intros w Hd s HT Ha. destruct source_file_covered as [Hc Hf].
  apply (comp_complete_model nt_SourceFile grammar_entry Hc w Hd [] Hf s); auto. now rewrite app_nil_r.
Qed.

(** which nonterminals are covered for the documented grammar itself / only for the if-free grammar *)
Definition comp_covered_doc_names : list string :=
  map (fun mf => nth (fst mf) comp_nt_names ""%string) (filter (fun mf => existsb (Nat.eqb (fst mf)) comp_iffree) comp_covered).
Definition comp_covered_iffree_only_names : list string :=
  map (fun mf => nth (fst mf) comp_nt_names ""%string) (filter (fun mf => negb (existsb (Nat.eqb (fst mf)) comp_iffree)) comp_covered).

(** non-vacuity *)
Ltac dnt := eapply MNT; [vm_compute; reflexivity|].
Ltac tok := constructor; vm_compute; tauto.
Lemma comp_value_word : derives doc_rules_must (match nt_index "Value"%string with Some m => m | None => 0 end)
  ([T_Id] ++ ([T_Paste] ++ [T_IntVal]) ++ []).
Proof.
  assert (Inner : forall t, rmatch doc_rules_must (RSym (DNT 52)) [t] -> rmatch doc_rules_must (RSym (DNT 43)) ([t] ++ [])).
  { intros t H. dnt. apply MSeq; [exact H|constructor]. }
  unfold derives. dnt. apply MSeq.
  - apply Inner. dnt. do 8 apply MAltR. apply MAltL. dnt. tok.
  - apply MStarS; [|constructor]. apply MSeq; [tok|].
    change [T_IntVal] with ([T_IntVal] ++ []). apply Inner. dnt. apply MAltL. dnt. tok.
Qed.
Lemma comp_def_word : derives doc_rules_must (match nt_index "Def"%string with Some m => m | None => 0 end)
  ([T_Def] ++ [T_Id] ++ [T_Semi]).
Proof.
  unfold derives. dnt. apply MSeq; [tok|]. apply MSeq.
  - apply MAltR. dnt. change [T_Id] with ([T_Id] ++ []). apply MSeq; [|constructor].
    dnt. change [T_Id] with ([T_Id] ++ []). apply MSeq; [|constructor].
    dnt. do 7 apply MAltR. apply MAltL. dnt. tok.
  - dnt. change [T_Semi] with ([] ++ [T_Semi]). apply MSeq.
    + dnt. apply MAltL. constructor.
    + dnt. apply MAltL. tok.
Qed.

(** ... and for the parse function itself: a text whose token sequence (no leading trivia, no lexical error) is an if-free
    sentence of the documented grammar is parsed with ZERO errors (or the model panics: excluded by C02) *)
Theorem comp_complete_parse : forall txt w, Toks (p_new txt) w -> derives comp_grammar nt_SourceFile w ->
  exists n0, forall n, n0 <= n ->
    parse_with n grammar_prog grammar_entry txt = ParsePanic \/
    exists t st, parse_with n grammar_prog grammar_entry txt = ParseOk t [] st.
Proof.
  intros txt w HT Hd. destruct (p_new_init txt) as (E1 & E2 & _).
  destruct (comp_complete_file w Hd (p_new txt) HT E2) as (n0 & H). exists n0. intros n Hn. specialize (H n Hn).
  unfold parse_with. destruct (gexec n grammar_prog (ECall grammar_entry None) [] (p_new txt)) as [v en s'| | | |]; try contradiction; auto.
  destruct H as (_ & _ & Hne & _). unfold nerr in Hne. rewrite E1 in Hne. cbn in Hne.
  unfold p_finish. destruct (b_finish (bld s')) as [t|]; auto. right. exists t, s'.
  destruct (errs s'); [reflexivity|discriminate Hne].
Qed.

(** non-vacuity of the hypotheses of [comp_complete_parse] *)
Ltac toks_step :=
  first [ apply Toks_nil; vm_compute; reflexivity
        | apply Toks_cons; [vm_compute; reflexivity|discriminate|discriminate|reflexivity|];
          let s' := fresh "s" in let H := fresh "H" in intros s' H; vm_compute in H; inversion H; subst s'; clear H ].
Definition comp_example_text : list N := Eval vm_compute in map (fun a => N.of_nat (Ascii.nat_of_ascii a)) (list_ascii_of_string "def x;"%string).
Example comp_example_toks : Toks (p_new comp_example_text) ([T_Def] ++ [T_Id] ++ [T_Semi]).
Proof. cbn [app]. repeat toks_step. Qed.
Example comp_example_sentence : derives comp_grammar nt_SourceFile ([T_Def] ++ [T_Id] ++ [T_Semi]).
Proof.
  assert (D : derives comp_grammar (match nt_index "Def"%string with Some m => m | None => 0 end) ([T_Def] ++ [T_Id] ++ [T_Semi])).
  { apply comp_iffree_keep; [vm_compute; tauto|exact comp_def_word]. }
  unfold derives in *. eapply MNT; [vm_compute; reflexivity|]. eapply MNT; [vm_compute; reflexivity|].
  rewrite <- (app_nil_r ([T_Def] ++ [T_Id] ++ [T_Semi])). apply MStarS; [|constructor].
  eapply MNT; [vm_compute; reflexivity|]. do 3 apply MAltR. apply MAltL. exact D.
Qed.

(** order-insensitive comparison (the order of the computed lists follows the order of the functions in the sources) *)
Definition same_strings (a b : list string) : bool :=
  forallb (fun x => existsb (String.eqb x) b) a && forallb (fun x => existsb (String.eqb x) a) b.
Definition same_kinds (a b : list TokenKind) : bool :=
  forallb (fun x => kset_mem x b) a && forallb (fun x => kset_mem x a) b.

(** * Every text: trivia (white space, comments, preprocessor directives and the regions they disable) anywhere *)
Lemma grammar_lead_skip : lead_skip 8 grammar_prog (ECall grammar_entry None) = Done.
Proof. vm_compute. reflexivity. Qed.

Theorem comp_complete_text : forall txt w, ntk txt = Some w -> derives comp_grammar nt_SourceFile w ->
  exists n0, forall n, n0 <= n ->
    parse_with n grammar_prog grammar_entry txt = ParsePanic \/
    exists t st, parse_with n grammar_prog grammar_entry txt = ParseOk t [] st.
Proof.
  intros txt w Hn Hd. destruct source_file_covered as [Hc Hf].
  destruct (comp_complete_tok nt_SourceFile grammar_entry Hc w Hd [] 0 Hf) as (n0 & H0). exists n0. intros n Hle.
  specialize (H0 n Hle). rewrite app_nil_r in H0.
  pose proof (proj2 (lead_refine grammar_prog 8 (ECall grammar_entry None)) grammar_lead_skip n [] []
                (p_new txt) _ (TP_new txt w Hn) (Forall2_nil _)) as R.
  change {| tks := w; terr := 0; tafter := false |} with (mk_ts w 0) in R. rewrite H0 in R.
  unfold parse_with. destruct (gexec n grammar_prog (ECall grammar_entry None) [] (p_new txt)) as [v en s'| | | |]; cbn [prim_ok] in R; try contradiction; auto.
  destruct R as (_ & _ & (_ & Hne & _)). cbn [terr mk_ts] in Hne. unfold nerr in Hne.
  unfold p_finish. destruct (b_finish (bld s')) as [t|]; auto. right. exists t, s'.
  destruct (errs s'); [reflexivity|discriminate Hne].
Qed.

(** non-vacuity: comments, white space and a disabled #ifdef region anywhere *)
Definition comp_example_text2 : list N := Eval vm_compute in
  map (fun a => N.of_nat (Ascii.nat_of_ascii a))
      (list_ascii_of_string "// c
#ifdef X
 junk } ]
#endif
  def /* c */ x ; // end
"%string).
Example comp_example_ntk2 : lex_clean comp_example_text2 = true /\ text_tokens comp_example_text2 = [T_Def] ++ [T_Id] ++ [T_Semi].
Proof. vm_compute. auto. Qed.

(** in terms of the preprocessor model's run: [text_tokens txt] = the non-trivia kinds of [prep_text txt] *)
Theorem comp_complete_any_text : forall txt, lex_clean txt = true -> derives comp_grammar nt_SourceFile (text_tokens txt) ->
  exists n0, forall n, n0 <= n ->
    parse_with n grammar_prog grammar_entry txt = ParsePanic \/
    exists t st, parse_with n grammar_prog grammar_entry txt = ParseOk t [] st.
Proof. intros txt Hc Hd. exact (comp_complete_text txt (text_tokens txt) (ntk_text txt Hc) Hd). Qed.
