(** C04, completeness direction for (almost) the whole documented grammar, by the reflective LL(1)-style checker of
    model/GramComp.v (soundness: proofs/GramCompSound.v).  The certificate - which grammar function parses which documented
    nonterminal (by NAME), nullable / FIRST tables, FOLLOW sets and ranks - is computed here by untrusted iteration and
    validated by [check_complete]. *)
From Coq Require Import List NArith Bool Lia PeanoNat Arith String.
From TG.Gen Require Import GenTokens GenGrammar GenDocGrammar.
From TG.Model Require Import Chars Lexer Prep Tree ParserPrims GInterp DocGrammar GramAbs GramCert TokSem GramComp.
From TG.Proofs Require Import GramRx GramSound TokRefine TokFrame TokComplete GramCompRx GramCompSound.
Import ListNotations.
Open Scope string_scope.

(** certified functions: (grammar function, documented nonterminal) *)
Definition comp_functions : list (string * string) :=
  [ ("value", "Value"); ("inner_value", "InnerValue"); ("simple_value", "SimpleValue");
    ("integer", "Integer"); ("string", "String"); ("code", "Code"); ("boolean", "Boolean"); ("uninitialized", "Uninitialized");
    ("bits", "Bits"); ("list", "List"); ("dag", "Dag"); ("dagarg", "DagArg");
    ("identifier", "Identifier"); ("class_id", "ClassId"); ("identifier_or_class_value", "ClassValue");
    ("arg_value_list", "ArgValueList");
    ("bang_operator", "BangOperator"); ("cond_operator", "CondOperator"); ("cond_clause", "CondClause");
    ("range_suffix", "RangeSuffix"); ("range_list", "RangeList"); ("range_piece", "RangePiece");
    ("slice_suffix", "SliceSuffix"); ("slice_elements", "SliceElements"); ("slice_element", "SliceElement");
    ("field_suffix", "FieldSuffix");
    ("type", "Type"); ("bit_type", "BitType"); ("int_type", "IntType"); ("string_type", "StringType"); ("dag_type", "DagType");
    ("bits_type", "BitsType"); ("list_type", "ListType"); ("code_type", "CodeType");
    ("statement", "Statement"); ("include", "Include"); ("assert", "Assert"); ("class", "Class"); ("def", "Def"); ("let", "Let");
    ("let_list", "LetList"); ("let_item", "LetItem"); ("multi_class", "MultiClass"); ("multi_class_statement", "MultiClassStatement");
    ("defm", "Defm"); ("defset", "Defset"); ("defvar", "Defvar"); ("dump", "Dump"); ("foreach", "Foreach");
    ("foreach_iterator", "ForeachIterator"); ("foreach_iterator_init", "ForeachIteratorInit");
    ("template_arg_list", "TemplateArgList"); ("template_arg_decl", "TemplateArgDecl"); ("record_body", "RecordBody");
    ("parent_class_list", "ParentClassList"); ("class_ref", "ClassRef"); ("body", "Body"); ("body_item", "BodyItem");
    ("field_def", "FieldDef"); ("field_let", "FieldLet"); ("name_value", "NameValue") ].
(** certified, but their callers execute them inline (their callers' residuals are not headed by these nonterminals) *)
Definition comp_inline_names : list string :=
  ["integer"; "identifier_or_class_value"; "string"; "code"; "boolean"; "uninitialized"; "identifier"; "class_id"].
(** the rule of If is emptied: `if c then if d then X else Y` makes the documented grammar ambiguous (dangling else), so
    "the function consumes exactly a word of If whatever follows" is false for the follower `else` *)
Definition comp_blanked_names : list string := ["If"].

Definition comp_mode (f : nat) : option nat :=
  match find (fun e => String.eqb (fst e) (fn_name f)) comp_functions with
  | Some (_, nt) => nt_index nt
  | None => None
  end.
Definition comp_inl (f : nat) : bool := existsb (String.eqb (fn_name f)) comp_inline_names.
Definition comp_blanked : list nat := flat_map (fun s => match nt_index s with Some n => [n] | None => [] end) comp_blanked_names.
Definition comp_grammar : grammar := Eval vm_compute in blank comp_blanked doc_rules_must.
Definition comp_tabs_v : tabs := Eval vm_compute in comp_tabs comp_grammar.
(** FOLLOW sets: the least solution for the if-free grammar, seeded with the tokens that follow in the emptied rule of If
    (`if` after a statement, `then` after a value; `else` cannot be admitted: dangling else) *)
Definition comp_follow_seed : list (string * list TokenKind) :=
  [ ("Statement", [T_If]); ("MultiClassStatement", [T_If]); ("Value", [T_Then]) ].
Definition comp_follow_init : list (list TokenKind) :=
  map (fun n => flat_map (fun e => match nt_index (fst e) with Some m => if Nat.eqb m n then snd e else [] | None => [] end) comp_follow_seed)
      (seq 0 (List.length comp_grammar)).
Definition comp_follow_v : list (list TokenKind) := Eval vm_compute in comp_follow comp_grammar comp_tabs_v comp_follow_init.
Definition comp_ranks_v : list nat := Eval vm_compute in comp_ranks comp_grammar comp_tabs_v.
Definition comp_mode_v : list (option nat) := Eval vm_compute in map comp_mode (seq 0 (List.length (fns grammar_prog))).
Definition comp_inl_v : list bool := Eval vm_compute in map comp_inl (seq 0 (List.length (fns grammar_prog))).
Definition comp_cert : ccert :=
  {| cc_mode := fun f => nth f comp_mode_v None; cc_inl := fun f => nth f comp_inl_v false;
     cc_fol := fun m => nth m comp_follow_v []; cc_rank := fun m => nth m comp_ranks_v 0;
     cc_tabs := comp_tabs_v; cc_dfuel := 30; cc_rounds := 12 |}.
Definition comp_fuel : nat := 60.

Lemma comp_check : check_complete comp_grammar grammar_prog comp_cert comp_fuel = true.
Proof. vm_cast_no_check (eq_refl true). Qed.

(** the covered (nonterminal, function) pairs *)
Definition comp_covered : list (nat * nat) :=
  flat_map (fun f => match nth f comp_mode_v None with Some m => [(m, f)] | None => [] end) (seq 0 (List.length (fns grammar_prog))).
Definition comp_followers (m : nat) : list TokenKind := nth m comp_follow_v [].
Lemma comp_covered_all : List.length comp_covered = List.length comp_functions.
Proof. vm_compute. reflexivity. Qed.

Close Scope string_scope.

Theorem comp_complete_tok : forall m f, In (m, f) comp_covered ->
  forall w, derives comp_grammar m w -> forall k rest e, In k (comp_followers m) ->
  exists n0, forall n, n0 <= n ->
    texec n grammar_prog (ECall f None) [] (mk_ts (w ++ k :: rest) e) = TVal (VB true) [] (mk_ts (k :: rest) e).
Proof.
  intros m f Hin w Hd k rest e Hk.
  unfold comp_covered in Hin. apply in_flat_map in Hin as (f0 & Hf0 & Hin).
  destruct (nth f0 comp_mode_v None) as [m0|] eqn:E; [|contradiction]. destruct Hin as [Hin|[]]. inversion Hin. subst m0 f0.
  apply in_seq in Hf0.
  destruct (check_complete_sound comp_grammar grammar_prog comp_cert comp_fuel comp_check m f w E ltac:(lia) Hd k rest e [] Hk) as (n0 & H).
  exists n0. intros n Hn. rewrite (texec_fuel grammar_prog n0 _ _ _ ltac:(rewrite H; exact I) n Hn). exact H.
Qed.

(** the same for the full parser model *)
Theorem comp_complete_model : forall m f, In (m, f) comp_covered ->
  forall w, derives comp_grammar m w -> forall k rest, In k (comp_followers m) ->
  exists n0, forall n s, n0 <= n -> Toks s (w ++ k :: rest) -> after_err s = false ->
    match gexec n grammar_prog (ECall f None) [] s with
    | RPanic => True
    | RVal v _ s' => v = VB true /\ Toks s' (k :: rest) /\ nerr s' = nerr s /\ after_err s' = false
    | _ => False
    end.
Proof.
  intros m f Hin w Hd k rest Hk.
  (* the fuel bound does not depend on the error count: take the one for 0 and use the frame theorem? no: texec_fuel per e *)
  destruct (comp_complete_tok m f Hin w Hd k rest 0 Hk) as (n0 & H0).
  exists n0. intros n s Hn HT Ha.
  assert (R0 : TR s (mk_ts (w ++ k :: rest) (nerr s))) by (repeat split; auto).
  (* transport the run from error count 0 to nerr s with the frame theorem (d = nerr s, no appended tokens) *)
  pose proof (H0 n Hn) as Ht.
  pose proof (frame_done grammar_prog [] (nerr s) n (ECall f None) [] (mk_ts (w ++ k :: rest) 0) (VB true) [] (mk_ts (k :: rest) 0) Ht ltac:(discriminate)) as F.
  unfold frame, mk_ts in F. cbn [tks terr tafter Nat.add] in F. rewrite !app_nil_r in F.
  exact (refine_done grammar_prog n (ECall f None) s (mk_ts (w ++ k :: rest) (nerr s)) (mk_ts (k :: rest) (nerr s)) R0 F).
Qed.

(** words of the if-free grammar are words of the documented grammar *)
Lemma comp_grammar_sub n w : derives comp_grammar n w -> derives doc_rules_must n w.
Proof. unfold derives. apply (blank_sub comp_blanked doc_rules_must). Qed.

(** nonterminals that cannot reach `If`: for them the theorem holds for the documented grammar itself *)
Definition mentions (R : list nat) (r : rx) : bool := existsb (fun m => existsb (Nat.eqb m) R) (rx_nts r).
Definition reach_step (G : grammar) (R : list nat) : list nat :=
  R ++ filter (fun n => negb (existsb (Nat.eqb n) R) && match nth_error G n with Some rhs => mentions R rhs | None => false end)
              (seq 0 (List.length G)).
Definition comp_iffree : list nat :=
  Eval vm_compute in
    let R := iter (List.length doc_rules_must) (reach_step doc_rules_must) comp_blanked in
    filter (fun n => negb (existsb (Nat.eqb n) R)) (seq 0 (List.length doc_rules_must)).
Lemma comp_iffree_closed : nts_closed doc_rules_must comp_iffree = true.
Proof. vm_compute. reflexivity. Qed.
Lemma comp_iffree_disjoint : forallb (fun n => negb (existsb (Nat.eqb n) comp_blanked)) comp_iffree = true.
Proof. vm_compute. reflexivity. Qed.
Lemma comp_iffree_keep n w : In n comp_iffree -> derives doc_rules_must n w -> derives comp_grammar n w.
Proof.
  intros Hn Hd. unfold derives in *.
  apply (blank_keep comp_blanked doc_rules_must comp_iffree comp_iffree_closed); auto.
  - intros m Hm. pose proof comp_iffree_disjoint as D. rewrite forallb_forall in D. specialize (D m Hm). now apply negb_true_iff in D.
  - intros m [<-|[]]. exact Hn.
Qed.

Theorem comp_complete_doc : forall m f, In (m, f) comp_covered -> In m comp_iffree ->
  forall w, derives doc_rules_must m w -> forall k rest, In k (comp_followers m) ->
  exists n0, forall n s, n0 <= n -> Toks s (w ++ k :: rest) -> after_err s = false ->
    match gexec n grammar_prog (ECall f None) [] s with
    | RPanic => True
    | RVal v _ s' => v = VB true /\ Toks s' (k :: rest) /\ nerr s' = nerr s /\ after_err s' = false
    | _ => False
    end.
Proof.
  intros m f Hin Hfree w Hd. apply comp_complete_model; auto. now apply comp_iffree_keep.
Qed.

(** which nonterminals are covered for the documented grammar itself / only for the if-free grammar *)
Definition comp_covered_doc_names : list string :=
  map (fun mf => nth (fst mf) doc_nt_names ""%string) (filter (fun mf => existsb (Nat.eqb (fst mf)) comp_iffree) comp_covered).
Definition comp_covered_iffree_only_names : list string :=
  map (fun mf => nth (fst mf) doc_nt_names ""%string) (filter (fun mf => negb (existsb (Nat.eqb (fst mf)) comp_iffree)) comp_covered).

(** non-vacuity *)
Ltac dnt := eapply MNT; [vm_compute; reflexivity|].
Ltac tok := constructor; vm_compute; tauto.
Lemma comp_value_word : derives doc_rules_must (match nt_index "Value"%string with Some m => m | None => 0 end)
  ([T_Id] ++ ([T_Paste] ++ [T_IntVal]) ++ []).
Proof.
  assert (Inner : forall t, rmatch doc_rules_must (RSym (DNT 52)) [t] -> rmatch doc_rules_must (RSym (DNT 43)) ([t] ++ [])).
  { intros t H. dnt. apply MSeq; [exact H|constructor]. }
  unfold derives. dnt. apply MSeq.
  - apply Inner. dnt. do 8 apply MAltR. apply MAltL. dnt. tok.
  - apply MStarS; [|constructor]. apply MSeq; [tok|].
    change [T_IntVal] with ([T_IntVal] ++ []). apply Inner. dnt. apply MAltL. dnt. tok.
Qed.
Lemma comp_def_word : derives doc_rules_must (match nt_index "Def"%string with Some m => m | None => 0 end)
  ([T_Def] ++ [T_Id] ++ [T_Semi]).
Proof.
  unfold derives. dnt. apply MSeq; [tok|]. apply MSeq.
  - apply MAltR. dnt. change [T_Id] with ([T_Id] ++ []). apply MSeq; [|constructor].
    dnt. change [T_Id] with ([T_Id] ++ []). apply MSeq; [|constructor].
    dnt. do 7 apply MAltR. apply MAltL. dnt. tok.
  - dnt. change [T_Semi] with ([] ++ [T_Semi]). apply MSeq.
    + dnt. apply MAltL. constructor.
    + dnt. apply MAltL. tok.
Qed.
