(** Concrete meaning of the A-bld abstract states (BldAn.v) and the builder-level preservation lemmas.
    [BG P0 lo a en b]: the builder [b] has [dep a] open nodes above the parents [P0] that were open at function
    entry; the `first_child` indices of these nodes are ascending between [lo] and the number of pending children
    (so that finish_node never drains a child that existed below [lo]); every local typed [TCp d] holds a
    checkpoint that lies inside the segment of the node at depth [d] (exactly rowan's assertion in start_node_at);
    every local typed [TBool] holds a boolean. *)
From Coq Require Import List Arith NArith Bool Lia.
From TG.Gen Require Import GenTokens.
From TG.Model Require Import Chars Lexer Prep Tree ParserPrims GInterp.
From TG.Proofs Require Import BldAn.
Import ListNotations.
Open Scope nat_scope.

Definition frames := list (SyntaxKind * nat).
Definition nc (b : builder) : nat := List.length (children b).

Fixpoint chain (lo : nat) (NP : frames) (ub : nat) : Prop :=
  match NP with
  | [] => lo <= ub
  | (_, f) :: rest => f <= ub /\ chain lo rest f
  end.
Definition base (lo : nat) (NP : frames) : nat := match NP with [] => lo | (_, f) :: _ => f end.

(** the checkpoint [n] lies in the segment of depth [d] *)
Fixpoint cpv (lo : nat) (NP : frames) (ub : nat) (n d : nat) : Prop :=
  match NP with
  | [] => d = 0 /\ lo <= n /\ n <= ub
  | (_, f) :: rest => if Nat.eqb d (List.length NP) then f <= n /\ n <= ub else cpv lo rest f n d
  end.

Lemma chain_base lo NP ub : chain lo NP ub -> base lo NP <= ub.
Proof. destruct NP as [|[k f] r]; cbn; tauto. Qed.
Lemma chain_ub lo NP ub ub' : chain lo NP ub -> base lo NP <= ub' -> chain lo NP ub'.
Proof. destruct NP as [|[k f] r]; cbn; tauto. Qed.
Lemma chain_grow lo NP ub ub' : chain lo NP ub -> ub <= ub' -> chain lo NP ub'.
Proof. intros C L. eapply chain_ub; [exact C|]. apply chain_base in C. lia. Qed.

Lemma cpv_depth lo : forall NP ub n d, cpv lo NP ub n d -> d <= List.length NP.
Proof.
  induction NP as [|[k f] r IH]; intros ub n d H; cbn [cpv List.length] in H.
  - destruct H; subst; cbn; lia.
  - cbn [List.length]. destruct (Nat.eqb_spec d (S (List.length r))); [lia|]. apply IH in H. lia.
Qed.
Lemma cpv_grow lo NP ub ub' n d : cpv lo NP ub n d -> ub <= ub' -> cpv lo NP ub' n d.
Proof.
  destruct NP as [|[k f] r]; cbn [cpv]; intros H L.
  - destruct H as (A & B & C). repeat split; auto; lia.
  - destruct (Nat.eqb d (List.length ((k, f) :: r))); [destruct H; split; auto; lia|exact H].
Qed.
Lemma cpv_low lo NP ub ub' n d : cpv lo NP ub n d -> d < List.length NP -> cpv lo NP ub' n d.
Proof.
  destruct NP as [|[k f] r]; cbn [cpv List.length]; intros H L; [lia|].
  destruct (Nat.eqb_spec d (S (List.length r))); [lia|exact H].
Qed.
Lemma cpv_top_bounds lo NP ub n : cpv lo NP ub n (List.length NP) -> base lo NP <= n /\ n <= ub.
Proof.
  destruct NP as [|[k f] r]; cbn [cpv base].
  - intros (_ & A & B). auto.
  - rewrite Nat.eqb_refl. auto.
Qed.
Lemma cpv_top_self lo NP ub n : cpv lo NP ub n (List.length NP) -> cpv lo NP n n (List.length NP).
Proof.
  destruct NP as [|[k f] r]; cbn [cpv].
  - intros (A & B & C). repeat split; auto.
  - rewrite Nat.eqb_refl. intros (A & B). split; auto.
Qed.
Lemma cpv_push lo NP ub k f n d : cpv lo NP f n d -> cpv lo ((k, f) :: NP) ub n d.
Proof.
  intros H. cbn [cpv]. pose proof (cpv_depth _ _ _ _ _ H) as D. cbn [List.length].
  destruct (Nat.eqb_spec d (S (List.length NP))); [lia|exact H].
Qed.
Lemma cpv_pop lo NP ub k f n d : cpv lo ((k, f) :: NP) ub n d -> d <= List.length NP -> cpv lo NP f n d.
Proof.
  cbn [cpv List.length]. intros H D. destruct (Nat.eqb_spec d (S (List.length NP))); [lia|exact H].
Qed.

(** * status *)
Fixpoint bottom_first (NP : frames) (ub : nat) : nat :=
  match NP with [] => ub | (_, f) :: rest => bottom_first rest f end.
Definition sta_ok (st : status) (lo : nat) (NP : frames) (b : builder) : Prop :=
  match st with
  | SMany => True
  | SZero => bottom_first NP (nc b) = lo
  | SOne => NP = [] /\ nc b = S lo /\ exists k cs r, children b = Node k cs :: r
  end.

(** * locals *)
Definition ty_ok (lo : nat) (NP : frames) (ub : nat) (t : aty) (o : option val) : Prop :=
  match t with
  | TBool => exists bv, o = Some (VB bv)
  | TCp d => exists n, o = Some (VN n) /\ cpv lo NP ub n d
  | TAny => True
  end.
Definition tys_ok (lo : nat) (NP : frames) (ub : nat) (tl : list aty) (en : env) : Prop :=
  forall x, ty_ok lo NP ub (ty_at tl x) (env_get en x).
Definition vok (lo : nat) (NP : frames) (ub : nat) (vt : vty) (v : val) : Prop :=
  match vt with
  | VBool => exists bv, v = VB bv
  | VCp d => exists n, v = VN n /\ cpv lo NP ub n d
  end.

Definition NPof (a : bst) (b : builder) : frames := firstn (dep a) (parents b).

(** first_child of the innermost node that was open at function entry (0 when none) *)
Definition base0 (P : frames) : nat := match P with [] => 0 | (_, f) :: _ => f end.

Record BG (P0 : frames) (lo : nat) (a : bst) (en : env) (b : builder) : Prop := {
  bg_lo : base0 P0 <= lo;
  bg_len : List.length (parents b) = dep a + List.length P0;
  bg_p0 : skipn (dep a) (parents b) = P0;
  bg_chain : chain lo (NPof a b) (nc b);
  bg_sta : sta_ok (sta a) lo (NPof a b) b;
  bg_tys : tys_ok lo (NPof a b) (nc b) (tys a) en
}.

Lemma NPof_length P0 lo a en b : BG P0 lo a en b -> List.length (NPof a b) = dep a.
Proof. intros H. unfold NPof. rewrite firstn_length. pose proof (bg_len _ _ _ _ _ H). lia. Qed.

(** * env / type lists *)
Lemma env_get_set_same : forall en x v, env_get (env_set en x v) x = Some v.
Proof.
  unfold env_get. intros en x; revert en. induction x as [|x IH]; intros [|a r] v; cbn; auto.
Qed.
Lemma env_get_set_other : forall en x y v w, x <> y -> env_get en y = Some w -> env_get (env_set en x v) y = Some w.
Proof.
  unfold env_get. intros en x; revert en. induction x as [|x IH]; intros [|a r] y v w N H; destruct y as [|y]; cbn in *;
    try congruence; try discriminate; try exact H.
  apply IH; [congruence|exact H].
Qed.
Lemma ty_at_set_same : forall l x t, ty_at (ty_set l x t) x = t.
Proof. unfold ty_at. intros l x; revert l. induction x as [|x IH]; intros [|a r] t; cbn; auto. Qed.
Lemma ty_at_set_other : forall l x y t, x <> y -> ty_at (ty_set l x t) y = ty_at l y.
Proof.
  unfold ty_at. intros l x; revert l. induction x as [|x IH]; intros [|a r] y t N; destruct y as [|y]; cbn; try congruence.
  - destruct y; reflexivity.
  - rewrite IH by congruence. destruct y; reflexivity.
  - apply IH. congruence.
Qed.
Lemma ty_at_nil x : ty_at [] x = TAny.
Proof. unfold ty_at. destruct x; reflexivity. Qed.

Lemma ty_at_forget d l x : ty_at (forget_from d l) x = forget1 d (ty_at l x).
Proof.
  unfold ty_at, forget_from. revert x. induction l as [|t r IH]; intros [|x]; cbn; auto.
Qed.
Lemma ty_at_forget_but d x0 : forall l i x, ty_at (forget_from_but d x0 i l) x =
  if Nat.eqb (i + x) x0 then ty_at l x else forget1 d (ty_at l x).
Proof.
  unfold ty_at. induction l as [|t r IH]; intros i [|x]; cbn [forget_from_but nth].
  - destruct (Nat.eqb (i + 0) x0); reflexivity.
  - destruct (Nat.eqb (i + S x) x0); reflexivity.
  - rewrite Nat.add_0_r. reflexivity.
  - rewrite IH. replace (S i + x) with (i + S x) by lia. reflexivity.
Qed.

Lemma ty_ok_forget1 lo NP ub d t o : ty_ok lo NP ub t o -> ty_ok lo NP ub (forget1 d t) o.
Proof. destruct t as [|d'|]; cbn; auto. destruct (Nat.leb d d'); cbn; auto. Qed.

(** transport of a typed value to other frames / bounds, for every type that survives [forget1 d] *)
Lemma ty_ok_transport lo NP ub NP' ub' d t o :
  (forall n d', d' < d -> cpv lo NP ub n d' -> cpv lo NP' ub' n d') ->
  ty_ok lo NP ub t o -> ty_ok lo NP' ub' (forget1 d t) o.
Proof.
  intros T. destruct t as [|d'|]; cbn; auto. destruct (Nat.leb_spec d d'); cbn; auto.
  intros (n & E & C). exists n. split; [exact E|]. apply T; [lia|exact C].
Qed.

(** * joins and refinement *)
Lemma aty_eqb_eq a b : aty_eqb a b = true -> a = b.
Proof. destruct a, b; cbn; try discriminate; auto. intros H. apply Nat.eqb_eq in H. congruence. Qed.
Lemma sta_eqb_eq a b : sta_eqb a b = true -> a = b.
Proof. destruct a, b; cbn; try discriminate; auto. Qed.
Lemma vty_eqb_eq a b : vty_eqb a b = true -> a = b.
Proof. destruct a, b; cbn; try discriminate; auto. intros H. apply Nat.eqb_eq in H. congruence. Qed.

Lemma ty_at_join : forall a b x, ty_at (tys_join a b) x = TAny \/ (ty_at (tys_join a b) x = ty_at a x /\ ty_at a x = ty_at b x).
Proof.
  unfold ty_at. induction a as [|t a IH]; intros [|u b] [|x]; cbn; auto.
  unfold aty_join. destruct (aty_eqb t u) eqn:E; auto. right. split; auto. apply aty_eqb_eq. exact E.
Qed.

Lemma tys_ok_join_l lo NP ub a b en : tys_ok lo NP ub a en -> tys_ok lo NP ub (tys_join a b) en.
Proof. intros H x. destruct (ty_at_join a b x) as [E|(E & _)]; rewrite E; [exact I|apply H]. Qed.
Lemma tys_ok_join_r lo NP ub a b en : tys_ok lo NP ub b en -> tys_ok lo NP ub (tys_join a b) en.
Proof. intros H x. destruct (ty_at_join a b x) as [E|(E & E2)]; rewrite E; [exact I|rewrite E2; apply H]. Qed.

Lemma sta_ok_join_l lo NP b s1 s2 : sta_ok s1 lo NP b -> sta_ok (sta_join s1 s2) lo NP b.
Proof. unfold sta_join. destruct (sta_eqb s1 s2); [auto|intros _; exact I]. Qed.
Lemma sta_ok_join_r lo NP b s1 s2 : sta_ok s2 lo NP b -> sta_ok (sta_join s1 s2) lo NP b.
Proof. unfold sta_join. destruct (sta_eqb s1 s2) eqn:E; [apply sta_eqb_eq in E; subst; auto|intros _; exact I]. Qed.

Lemma BG_sjoin_l P0 lo a1 a2 a3 en b : sjoin (Some a1) (Some a2) = (Some a3, true) -> BG P0 lo a1 en b -> BG P0 lo a3 en b.
Proof.
  unfold sjoin. destruct (Nat.eqb_spec (dep a1) (dep a2)) as [E|]; [|discriminate]. intros H; inversion H; subst; clear H.
  intros [H0 H1 H2 H3 H4 H5]. constructor; unfold NPof in *; cbn [dep sta tys]; auto using sta_ok_join_l, tys_ok_join_l.
Qed.
Lemma BG_sjoin_r P0 lo a1 a2 a3 en b : sjoin (Some a1) (Some a2) = (Some a3, true) -> BG P0 lo a2 en b -> BG P0 lo a3 en b.
Proof.
  unfold sjoin. destruct (Nat.eqb_spec (dep a1) (dep a2)) as [E|]; [|discriminate]. intros H; inversion H; subst; clear H.
  intros [H0 H1 H2 H3 H4 H5]. constructor; unfold NPof in *; cbn [dep sta tys]; rewrite ?E; auto using sta_ok_join_r, tys_ok_join_r.
Qed.

Lemma tys_le_spec : forall l l' x, tys_le l' l = true -> ty_at l x = TAny \/ ty_at l' x = ty_at l x.
Proof.
  induction l as [|t r IH]; intros l' x H.
  - left. apply ty_at_nil.
  - cbn [tys_le] in H. apply andb_prop in H. destruct H as [H1 H2]. destruct x as [|x].
    + unfold ty_at at 1 3. cbn. destruct t; auto; right; apply aty_eqb_eq in H1; exact H1.
    + destruct (IH (tl l') x H2) as [E|E]; [left; exact E|right].
      unfold ty_at in *. cbn. rewrite <- E. destruct l'; cbn; [destruct x; reflexivity|reflexivity].
Qed.

Lemma BG_ble P0 lo a' a en b : ble a' a = true -> BG P0 lo a' en b -> BG P0 lo a en b.
Proof.
  unfold ble. intros H. apply andb_prop in H. destruct H as [H HT]. apply andb_prop in H. destruct H as [HD HS].
  apply Nat.eqb_eq in HD. intros [H0 H1 H2 H3 H4 H5]. unfold NPof in *. rewrite HD in *.
  constructor; unfold NPof; auto.
  - unfold sta_le in HS. apply orb_prop in HS. destruct HS as [E|E]; apply sta_eqb_eq in E; [rewrite <- E; exact H4|rewrite E; exact I].
  - intros x. destruct (tys_le_spec _ _ x HT) as [E|E]; [rewrite E; exact I|rewrite <- E; apply H5].
Qed.

(** * builder operations *)

(** the builder received children at the current depth (tokens, finished nodes), nothing else changed *)
Lemma BG_grow P0 lo a en b b' : BG P0 lo a en b -> parents b' = parents b -> nc b <= nc b' -> BG P0 lo (grow a) en b'.
Proof.
  intros [H0 H1 H2 H3 H4 H5] EP LE. constructor; unfold NPof in *; cbn [grow dep sta tys]; rewrite ?EP; auto.
  - eapply chain_grow; eauto.
  - destruct (Nat.eqb_spec (dep a) 0) as [Z|NZ]; [exact I|].
    destruct (sta a); cbn in *; auto.
    + destruct (firstn (dep a) (parents b)) as [|[k f] r] eqn:F; [|exact H4].
      exfalso. apply (f_equal (@List.length _)) in F. rewrite firstn_length in F. cbn in F. lia.
    + destruct H4 as (N & _). exfalso. apply (f_equal (@List.length _)) in N. rewrite firstn_length in N. cbn in N. lia.
  - intros x. specialize (H5 x). destruct (ty_at (tys a) x); cbn in *; auto.
    destruct H5 as (n & E & C). exists n. split; [exact E|]. eapply cpv_grow; eauto.
Qed.

Lemma BG_same P0 lo a en b b' : BG P0 lo a en b -> parents b' = parents b -> children b' = children b -> BG P0 lo a en b'.
Proof.
  intros [H0 H1 H2 H3 H4 H5] EP EC. unfold nc, NPof in *.
  constructor; unfold nc, NPof; rewrite ?EP, ?EC; auto.
  destruct (sta a); cbn in *; unfold nc in *; rewrite ?EC; auto.
Qed.

Lemma BG_start_node P0 lo a en b k :
  BG P0 lo a en b ->
  BG P0 lo {| dep := S (dep a);
              sta := if Nat.eqb (dep a) 0 then (match sta a with SZero => SZero | _ => SMany end) else sta a;
              tys := tys a |} en (b_start_node b k).
Proof.
  intros G. pose proof (NPof_length _ _ _ _ _ G) as NL. destruct G as [H0 H1 H2 H3 H4 H5].
  assert (NP' : firstn (S (dep a)) (parents (b_start_node b k)) = (k, nc b) :: NPof a b) by reflexivity.
  constructor; unfold NPof; cbn [dep sta tys]; rewrite ?NP'.
  - exact H0.
  - cbn. lia.
  - exact H2.
  - cbn [chain]. split; [reflexivity|exact H3].
  - unfold nc. cbn [b_start_node children]. fold (nc b).
    destruct (Nat.eqb_spec (dep a) 0) as [Z|NZ].
    + destruct (sta a); cbn; auto.
    + destruct (sta a); cbn in *; auto.
      destruct H4 as (N & _). rewrite N in NL. cbn in NL. lia.
  - intros x. specialize (H5 x). unfold nc. cbn [b_start_node children]. fold (nc b).
    destruct (ty_at (tys a) x); cbn [ty_ok] in *; auto.
    destruct H5 as (n & E & C). exists n. split; [exact E|]. apply cpv_push. exact C.
Qed.

Lemma BG_finish_node P0 lo a en b d :
  dep a = S d -> BG P0 lo a en b ->
  exists b', b_finish_node b = Some b' /\
    BG P0 lo {| dep := d;
                sta := if Nat.eqb d 0 then (match sta a with SZero => SOne | _ => SMany end) else sta a;
                tys := forget_from (S d) (tys a) |} en b'.
Proof.
  intros D G. pose proof (NPof_length _ _ _ _ _ G) as NL. destruct G as [H0 H1 H2 H3 H4 H5].
  unfold NPof in *. rewrite D in *.
  destruct (parents b) as [|[k f] ps] eqn:PB; [cbn in H1; lia|].
  cbn [firstn] in *. cbn [chain] in H3. destruct H3 as (FU & CH). fold (nc b) in *.
  unfold b_finish_node. rewrite PB. eexists; split; [reflexivity|].
  match goal with |- BG _ _ _ _ ?bb => set (b' := bb) end.
  assert (NC : nc b' = S f).
  { unfold nc, b'. cbn [children List.length]. rewrite skipn_length. unfold nc in FU. lia. }
  assert (PB' : parents b' = ps) by reflexivity.
  constructor; unfold NPof; cbn [dep sta tys]; rewrite ?PB'.
  - exact H0.
  - cbn in H1. lia.
  - exact H2.
  - rewrite NC. eapply chain_grow; [exact CH|lia].
  - destruct (Nat.eqb_spec d 0) as [Z|NZ].
    + subst d. destruct (sta a); cbn in *; auto.
      repeat split; [|do 3 eexists; reflexivity]. rewrite NC. cbn in H4. congruence.
    + destruct (sta a); cbn in *; auto.
      * destruct (firstn d ps) as [|[k0 f0] r] eqn:F; [|exact H4].
        exfalso. apply (f_equal (@List.length _)) in F. rewrite firstn_length in F. cbn in F, H1. lia.
      * destruct H4 as (N & _). discriminate.
  - intros x. rewrite ty_at_forget, NC. eapply ty_ok_transport; [|apply H5].
    intros n d' LT C. cbn [List.length] in NL.
    eapply cpv_grow; [eapply cpv_pop; [exact C|lia]|lia].
Qed.

Lemma BG_checkpoint P0 lo a en b : BG P0 lo a en b -> vok lo (NPof a b) (nc b) (VCp (dep a)) (VN (b_checkpoint b)).
Proof.
  intros G. pose proof (NPof_length _ _ _ _ _ G) as NL. destruct G as [H0 H1 H2 H3 H4 H5].
  cbn. exists (nc b). split; [reflexivity|]. apply chain_base in H3.
  destruct (NPof a b) as [|[k f] r]; cbn [cpv base] in *.
  - cbn in NL. repeat split; auto; lia.
  - rewrite <- NL. rewrite Nat.eqb_refl. lia.
Qed.

Lemma BG_start_node_at P0 lo a en b x k :
  ty_at (tys a) x = TCp (dep a) -> BG P0 lo a en b ->
  exists n b', env_get en x = Some (VN n) /\ b_start_node_at b n k = Some b' /\
    BG P0 lo {| dep := S (dep a); sta := if Nat.eqb (dep a) 0 then SMany else sta a;
                tys := forget_from_but (dep a) x 0 (tys a) |} en b'.
Proof.
  intros TX G. pose proof (NPof_length _ _ _ _ _ G) as NL. destruct G as [H0 H1 H2 H3 H4 H5].
  pose proof (H5 x) as HX. rewrite TX in HX. cbn in HX. destruct HX as (n & EX & CX).
  rewrite <- NL in CX. pose proof (cpv_top_bounds _ _ _ _ CX) as (BL & BU).
  exists n.
  assert (SN : exists b', b_start_node_at b n k = Some b' /\ parents b' = (k, n) :: parents b /\ children b' = children b).
  { unfold b_start_node_at. fold (nc b). destruct (Nat.leb_spec n (nc b)); [|lia].
    destruct (parents b) as [|[k0 f0] ps] eqn:PB.
    - eexists; split; [reflexivity|]. split; reflexivity.
    - assert (f0 <= n).
      { unfold NPof in *. rewrite PB in *. destruct (dep a) as [|da]; cbn [firstn base] in *.
        - cbn in H2. rewrite <- H2 in H0. cbn in H0. cbn [base] in BL. lia.
        - exact BL. }
      destruct (Nat.leb_spec f0 n); [|lia]. eexists; split; [reflexivity|]. split; reflexivity. }
  destruct SN as (b' & SN & PB' & CB'). exists b'. split; [exact EX|]. split; [exact SN|].
  assert (NP' : firstn (S (dep a)) (parents b') = (k, n) :: NPof a b) by (rewrite PB'; reflexivity).
  assert (NC' : nc b' = nc b) by (unfold nc; rewrite CB'; reflexivity).
  constructor; unfold NPof; cbn [dep sta tys]; rewrite ?NP', ?NC'.
  - exact H0.
  - rewrite PB'. cbn. lia.
  - rewrite PB'. exact H2.
  - cbn [chain]. split; [exact BU|]. eapply chain_ub; [exact H3|exact BL].
  - destruct (Nat.eqb_spec (dep a) 0) as [Z|NZ]; [exact I|].
    destruct (sta a); cbn in *; auto.
    + destruct (NPof a b) as [|[k0 f0] r]; [cbn in NL; lia|exact H4].
    + destruct H4 as (N & _). rewrite N in NL. cbn in NL. lia.
  - intros y. rewrite ty_at_forget_but. cbn [Nat.add]. destruct (Nat.eqb_spec y x) as [->|NE].
    + rewrite TX. cbn [ty_ok]. exists n. split; [exact EX|].
      apply cpv_push. rewrite <- NL. eapply cpv_top_self. exact CX.
    + eapply ty_ok_transport; [|apply H5].
      intros m d' LT C. apply cpv_push. eapply cpv_low; [exact C|lia].
Qed.

(** a callee returned: its frame is gone, the children count is at least the callee's [lo'] *)
Lemma BG_after_call P0 lo a en b b' lo' :
  BG P0 lo a en b -> parents b' = parents b -> base lo (NPof a b) <= lo' -> lo' <= nc b' ->
  BG P0 lo {| dep := dep a; sta := sta (grow a); tys := forget_from (dep a) (tys a) |} en b'.
Proof.
  intros G EP BL LE. pose proof (NPof_length _ _ _ _ _ G) as NL. destruct G as [H0 H1 H2 H3 H4 H5].
  constructor; unfold NPof in *; cbn [grow dep sta tys]; rewrite ?EP; auto.
  - eapply chain_ub; [exact H3|lia].
  - destruct (Nat.eqb_spec (dep a) 0) as [Z|NZ]; [exact I|].
    destruct (sta a); cbn in *; auto.
    + destruct (firstn (dep a) (parents b)) as [|[k f] r]; [cbn in NL; lia|exact H4].
    + destruct H4 as (N & _). rewrite N in NL. cbn in NL. lia.
  - intros x. rewrite ty_at_forget. eapply ty_ok_transport; [|apply H5].
    intros n d' LT C. eapply cpv_low; [exact C|lia].
Qed.

(** entry of a callee *)
Lemma BG_entry (P : frames) lo' tl en b :
  parents b = P -> base0 P <= lo' -> lo' <= nc b -> tys_ok lo' [] (nc b) tl en ->
  BG P lo' {| dep := 0; sta := SMany; tys := tl |} en b.
Proof.
  intros EP B0 LE T. constructor; unfold NPof; cbn [dep sta tys firstn]; auto.
  - rewrite EP. reflexivity.
  - exact I.
Qed.

(** exit of a callee: depth 0 *)
Lemma BG_exit P lo' a en b : BG P lo' a en b -> dep a = 0 -> parents b = P /\ lo' <= nc b.
Proof.
  intros [H0 H1 H2 H3 H4 H5] D. unfold NPof in *. rewrite D in *. cbn in *. auto.
Qed.

(** Parser::finish on the entry function's exit *)
Lemma BG_finish a en b : BG [] 0 a en b -> dep a = 0 -> sta a = SOne -> exists t, b_finish b = Some t.
Proof.
  intros [H0 H1 H2 H3 H4 H5] D S. rewrite S in H4. cbn in H4. destruct H4 as (_ & N & (k & cs & r & C)).
  unfold b_finish. rewrite C. unfold nc in N. rewrite C in N. cbn in N.
  destruct r; [|cbn in N; lia]. destruct (parents b); eauto.
Qed.
