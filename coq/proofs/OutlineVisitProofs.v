(** C18, source level, MULTI-FILE: the declarations the indexer slice registers are exactly the events of the syntactic
    visit [OutlineSpec.sv] of the workspace (include traversal with the indexed-once guard, lexical same-file defset
    membership, classes declared so far), for every workspace on which the slice does not hit a modelled panic. *)
From Coq Require Import List NArith Bool Lia.
From TG.Model Require Import Chars CoreAst SymbolMap Outline OutlineIndex OutlineSpec.
From TG.Proofs Require Import OutlineProofs SymbolMapBasics SymbolOps OutlineIndexProofs OutlineSourceProofs.
Import ListNotations.
Open Scope N_scope.

(** ---- unfolding [sv] ---- *)
Definition sv_body (files : list (list stmt)) (n : nat) (g : N) (dset : bool) (x : stmt) (v : vstate)
  : option (list fdecl * vstate) :=
  let many := sv_list files n in
  match x with
  | SInclude _ None => Some ([], v)
  | SInclude _ (Some f) =>
      if existsb (N.eqb f) (v_indexed v) then Some ([], v)
      else let v1 := mkV (f :: v_indexed v) (v_known v) (v_skipped v) in
           match nth_error files (N.to_nat f) with
           | None => Some ([], v1)
           | Some body => many f false body v1
           end
  | SClass i _ _ _ => Some ([sdecl g DClass i], mkV (v_indexed v) (i_name i :: v_known v) (v_skipped v))
  | SDef (Some nm) _ _ _ =>
      match value_first_ident nm with
      | Some i => Some (if dset then [] else [sdecl g DDef i], v)
      | None => Some ([], v)
      end
  | SDef None _ _ _ => Some ([], v)
  | SDefset t i b =>
      if ty_ok (v_known v) t
      then match many g true b v with
           | None => None
           | Some (e, v') => Some (sdecl g DDefset i :: e, v')
           end
      else Some ([], mkV (v_indexed v) (v_known v) true)
  | SMulticlass i _ _ b =>
      match many g dset b v with
      | None => None
      | Some (e, v') => Some (sdecl g DMulticlass i :: e, v')
      end
  | SForeach _ _ b | SLet _ b => many g dset b v
  | SIf _ th el =>
      match many g dset th v with
      | None => None
      | Some (e1, v1) =>
          match el with
          | None => Some (e1, v1)
          | Some e => match many g dset e v1 with
                      | None => None
                      | Some (e2, v2) => Some (e1 ++ e2, v2)
                      end
          end
      end
  | SAssert _ _ | SDefm _ _ _ | SDefvar _ _ | SDump _ => Some ([], v)
  end.

Lemma sv_S : forall files n g dset x v, sv files (S n) g dset x v = sv_body files n g dset x v.
Proof.
  intros files n g dset x v.
  assert (forall g d b v,
    (fix many (g : N) (d : bool) (b : list stmt) (v : vstate) {struct b} : option (list fdecl * vstate) :=
       match b with
       | [] => Some ([], v)
       | y :: r => match sv files n g d y v with
                   | None => None
                   | Some (e1, v1) => match many g d r v1 with
                                      | None => None
                                      | Some (e2, v2) => Some (e1 ++ e2, v2)
                                      end
                   end
       end) g d b v = sv_list files n g d b v) as Hm.
  { intros g0 d b. induction b as [|y r IH]; intros v0; [reflexivity|].
    cbn [sv_list]. destruct (sv files n g0 d y v0) as [[e1 v1]|]; [|reflexivity]. now rewrite IH. }
  unfold sv_body. destruct x; cbn [sv]; rewrite ?Hm; try reflexivity.
  all: repeat (match goal with
               | |- context [match ?e with _ => _ end] => destruct e
               | |- context [if ?e then _ else _] => destruct e
               end; rewrite ?Hm; try reflexivity).
Qed.

(** ---- extension of symbol maps: entries stay, with their define_loc ---- *)
Definition ext (a b : symbol_map) : Prop :=
  forall s e, get_entry a s = Some e -> exists e', get_entry b s = Some e' /\ e_def e' = e_def e.
Lemma ext_refl : forall a, ext a a.
Proof. intros a s e H. eauto. Qed.
Lemma ext_trans : forall a b c, ext a b -> ext b c -> ext a c.
Proof.
  intros a b c H1 H2 s e H. destruct (H1 s e H) as (e1 & A & B). destruct (H2 s e1 A) as (e2 & C & D).
  exists e2. split; [exact C|congruence].
Qed.
Lemma ext_apply_op : forall S o S', apply_op S o = SOk S' -> ext S S'.
Proof. intros S o S' H s e He. eapply entry_def_preserved; eauto. Qed.

(** ---- the class-name map changes only by add_record(Class) ---- *)
Definition op_class (o : op) : option SymbolMap.name :=
  match o with OpAddRecord n RKClass _ _ _ => Some n | _ => None end.

Lemma classes_set_arena : forall S k l, sm_name_to_class (set_arena S k l) = sm_name_to_class S.
Proof. intros S [] l; reflexivity. Qed.

Lemma classes_add_to_pos : forall S loc s S', add_to_pos S loc s = SOk S' -> sm_name_to_class S' = sm_name_to_class S.
Proof.
  intros S loc s S' H. unfold add_to_pos in H. destruct (fr_is_empty loc); [now injection H as <-|].
  apply sbind_ok in H. destruct H as (m & _ & H). now injection H as <-.
Qed.

Lemma classes_add_symbol : forall S k e il ip lg S', add_symbol S k e il ip lg = SOk S' ->
  sm_name_to_class S' = sm_name_to_class S.
Proof.
  intros S k e il ip lg S' H. unfold add_symbol, alloc in H. apply sbind_ok in H. destruct H as (u & _ & H).
  assert (sm_name_to_class (if il then push_file_sym (set_arena S k (get_arena S k ++ [e])) (fr_file (e_def e)) (k, next_id S k)
                            else set_arena S k (get_arena S k ++ [e])) = sm_name_to_class S) as E.
  { destruct il; [unfold push_file_sym; cbn|]; apply classes_set_arena. }
  destruct ip; [apply classes_add_to_pos in H; congruence|injection H as <-; exact E].
Qed.

Lemma classes_with_cur : forall S k g S', with_cur S k g = SOk S' -> sm_name_to_class S' = sm_name_to_class S.
Proof.
  intros S k g S' H. unfold with_cur in H. destruct (sm_cur S) as [[k' id]|]; [|discriminate].
  destruct (sym_kind_eqb k k'); [|discriminate]. destruct (get_entry S (k, id)); [|discriminate].
  injection H as <-. unfold update_entry. apply classes_set_arena.
Qed.

Lemma classes_apply_op : forall S o S', apply_op S o = SOk S' ->
  sm_name_to_class S' = match op_class o with
                        | Some n => amap_insert (sm_name_to_class S) n (next_id S KRecord)
                        | None => sm_name_to_class S
                        end.
Proof.
  intros S o S' H.
  destruct o; cbn [apply_op op_class] in *;
    try (apply classes_with_cur in H; exact H);
    try (unfold borrow_mut in H; destruct (get_entry S _); [|discriminate]; now injection H as <-);
    try (apply classes_add_symbol in H; exact H).
  - destruct k; apply classes_add_symbol in H; exact H.
  - destruct (get_entry S s); [|discriminate]. apply classes_add_to_pos in H. rewrite H. unfold update_entry.
    apply classes_set_arena.
  - now injection H as <-.
Qed.

(** ---- emitted file declarations ---- *)
Definition EF (s : ostate) : list fdecl := ops_fdecls (rev (oi_ops s)).

Lemma ops_fdecls_app : forall a b, ops_fdecls (a ++ b) = ops_fdecls a ++ ops_fdecls b.
Proof. intros. unfold ops_fdecls. apply flat_map_app. Qed.

(** what [emit] does *)
Lemma emit_cases : forall o s,
  (oi_bad s = true /\ emit o s = s) \/
  (oi_bad s = false /\ (exists e, apply_op (oi_sm s) o = SErr e) /\ emit o s = set_bad s) \/
  (oi_bad s = false /\ exists sm', apply_op (oi_sm s) o = SOk sm' /\ emit o s = set_sm_ops s sm' (o :: oi_ops s) false).
Proof.
  intros o s. unfold emit. destruct (oi_bad s) eqn:B; [now left|]. right.
  destruct (apply_op (oi_sm s) o) as [sm'|e]; [right|left]; eauto.
Qed.

(** a transformer that registers nothing and keeps everything the simulation looks at *)
Definition quiet (f : ostate -> ostate) : Prop :=
  forall s, EF (f s) = EF s /\ oi_scopes (f s) = oi_scopes s /\ oi_trace (f s) = oi_trace s /\
            oi_indexed (f s) = oi_indexed s /\
            sm_name_to_class (oi_sm (f s)) = sm_name_to_class (oi_sm s) /\
            ext (oi_sm s) (oi_sm (f s)) /\
            (oi_bad s = true -> oi_bad (f s) = true).

Lemma quiet_id : quiet (fun s => s).
Proof. intros s. repeat split; auto using ext_refl. Qed.

Lemma quiet_comp : forall f g, quiet f -> quiet g -> quiet (fun s => g (f s)).
Proof.
  intros f g Hf Hg s. destruct (Hf s) as (A1 & A2 & A3 & A4 & A5 & A6 & A7).
  destruct (Hg (f s)) as (B1 & B2 & B3 & B4 & B5 & B6 & B7).
  repeat split; try congruence; eauto using ext_trans.
Qed.

Lemma quiet_fold : forall (A : Type) (f : A -> ostate -> ostate) (l : list A),
  (forall a, quiet (f a)) -> quiet (fun s => fold_left (fun st a => f a st) l s).
Proof.
  intros A f l Hf. induction l as [|a l IH]; cbn [fold_left]; [apply quiet_id|].
  apply (quiet_comp (f a) (fun s => fold_left (fun st a0 => f a0 st) l s)); auto.
Qed.

Lemma quiet_set_bad : quiet set_bad.
Proof. intros s. repeat split; auto using ext_refl. Qed.

Lemma quiet_emit : forall o, op_fdecl o = [] -> op_class o = None -> quiet (emit o).
Proof.
  intros o Hd Hc s. destruct (emit_cases o s) as [[B ->]|[(B & _ & ->)|(B & sm' & Ea & ->)]].
  - repeat split; auto using ext_refl.
  - repeat split; auto using ext_refl.
  - repeat split; cbn; auto.
    + unfold EF. cbn [set_sm_ops oi_ops rev]. rewrite ops_fdecls_app. cbn [ops_fdecls flat_map]. rewrite Hd.
      now rewrite !app_nil_r.
    + rewrite (classes_apply_op _ _ _ Ea), Hc. reflexivity.
    + eapply ext_apply_op; eauto.
    + congruence.
Qed.

Lemma quiet_index_targ : forall a, quiet (index_targ a).
Proof.
  intros [t i d] s. unfold index_targ. destruct (ty_string (oi_sm s) t) as [typ|]; [|apply quiet_id].
  set (s1 := emit _ s).
  assert (quiet (emit (OpAddTemplateArg (i_name i) typ (loc_of s (i_rng i)) (next_id (oi_sm s) KTemplateArg)))) as H1
    by (apply quiet_emit; reflexivity).
  destruct (first_record (oi_scopes s1)) as [rid|].
  - apply (quiet_comp _ (fun x => emit (OpRecAddTemplateArg (i_name i) _) (emit (OpRecordMut rid) x)) H1).
    apply (quiet_comp (emit (OpRecordMut rid)) (emit _)); apply quiet_emit; reflexivity.
  - destruct (first_multiclass (oi_scopes s1)) as [mid|].
    + apply (quiet_comp _ (fun x => emit (OpMcAddTemplateArg (i_name i) _) (emit (OpMulticlassMut mid) x)) H1).
      apply (quiet_comp (emit (OpMulticlassMut mid)) (emit _)); apply quiet_emit; reflexivity.
    + apply (quiet_comp _ set_bad H1). apply quiet_set_bad.
Qed.

Lemma quiet_index_parent : forall rid c, quiet (index_parent rid c).
Proof.
  intros rid [i a r] s. unfold index_parent. destruct (find_class (oi_sm s) (i_name i)) as [cid|]; [|apply quiet_id].
  destruct (cid =? rid); [apply quiet_id|].
  apply (quiet_comp (emit (OpRecordMut rid)) (emit (OpRecAddParent cid))); apply quiet_emit; reflexivity.
Qed.

Lemma quiet_index_item : forall rid it, quiet (index_item rid it).
Proof.
  intros rid it s. destruct it; cbn [index_item]; try apply quiet_id.
  - destruct (ty_string (oi_sm s) t) as [typ|]; [|apply quiet_id].
    apply (quiet_comp (emit _) (fun x => emit (OpRecAddField (i_name i) _) (emit (OpRecordMut rid) x)));
      [apply quiet_emit; reflexivity|].
    apply (quiet_comp (emit (OpRecordMut rid)) (emit _)); apply quiet_emit; reflexivity.
  - destruct (find_field _ _ _ _) as [[f0|]|e]; [|apply quiet_id|apply quiet_set_bad].
    destruct (get_entry _ _) as [fe|]; [|apply quiet_set_bad].
    apply (quiet_comp (emit _) (fun x => emit (OpRecAddField (i_name i) _) (emit (OpRecordMut rid) x)));
      [apply quiet_emit; reflexivity|].
    apply (quiet_comp (emit (OpRecordMut rid)) (emit _)); apply quiet_emit; reflexivity.
Qed.

Lemma quiet_record_body : forall rid ps b, quiet (index_record_body rid ps b).
Proof.
  intros rid ps b. unfold index_record_body.
  apply (quiet_comp (fun s => fold_left (fun st c => index_parent rid c st) ps s)
                    (fun s => fold_left (fun st it => index_item rid it st) b s)).
  - apply (quiet_fold _ (fun c st => index_parent rid c st)). intros; apply quiet_index_parent.
  - apply (quiet_fold _ (fun it st => index_item rid it st)). intros; apply quiet_index_item.
Qed.

Lemma quiet_targs : forall (targs : option (list targ)),
  quiet (fun st => match targs with Some l => fold_left (fun a t => index_targ t a) l st | None => st end).
Proof.
  intros [l|]; [|apply quiet_id]. apply (quiet_fold _ (fun t a => index_targ t a)). intros; apply quiet_index_targ.
Qed.

(** ---- a modelled panic is never undone ---- *)
Definition sticky (f : ostate -> ostate) : Prop := forall s, oi_bad s = true -> oi_bad (f s) = true.

Lemma sticky_quiet : forall f, quiet f -> sticky f.
Proof. intros f H s. now destruct (H s) as (_ & _ & _ & _ & _ & _ & B). Qed.
Lemma sticky_comp : forall f g, sticky f -> sticky g -> sticky (fun s => g (f s)).
Proof. intros f g Hf Hg s H. auto. Qed.
Lemma sticky_fold : forall (A : Type) (f : A -> ostate -> ostate) (l : list A),
  (forall a, sticky (f a)) -> sticky (fun s => fold_left (fun st a => f a st) l s).
Proof. intros A f l Hf. induction l as [|a l IH]; cbn [fold_left]; intros s H; auto. apply IH. now apply Hf. Qed.
Lemma sticky_emit : forall o, sticky (emit o).
Proof. intros o s H. destruct (emit_cases o s) as [[_ ->]|[(B & _)|(B & _)]]; congruence. Qed.
Lemma sticky_push : forall k, sticky (push_scope k). Proof. intros k s H. exact H. Qed.
Lemma sticky_pop : sticky pop_scope. Proof. intros s H. exact H. Qed.

Lemma sticky_index_stmt : forall files fuel x, sticky (index_stmt files fuel x).
Proof.
  intros files. induction fuel as [|n IH]; intros x s H; cbn [index_stmt]; [reflexivity|].
  assert (forall b, sticky (fun st => fold_left (fun a y => index_stmt files n y a) b st)) as Hst.
  { intros b. apply (sticky_fold _ (fun y a => index_stmt files n y a)). intros; apply IH. }
  destruct x.
  - destruct target as [f|]; [|exact H]. destruct (existsb _ _); [exact H|].
    destruct (nth_error files (N.to_nat f)); [|exact H]. cbn. apply Hst. exact H.
  - exact H.
  - apply sticky_pop. apply (sticky_quiet _ (quiet_record_body _ _ _)).
    apply (sticky_quiet _ (quiet_targs targs)). apply sticky_push. now apply sticky_emit.
  - destruct nm as [v|].
    + destruct (value_first_ident v); [|exact H].
      apply sticky_pop, (sticky_quiet _ (quiet_record_body _ _ _)), sticky_push.
      destruct (first_defset _); repeat apply sticky_emit; exact H.
    + apply sticky_pop, (sticky_quiet _ (quiet_record_body _ _ _)), sticky_push.
      destruct (first_defset _); repeat apply sticky_emit; exact H.
  - destruct nm; exact H.
  - destruct (ty_string _ _); [|exact H]. apply sticky_pop, Hst, sticky_push. now apply sticky_emit.
  - exact H.
  - exact H.
  - apply sticky_pop, Hst, sticky_push. exact H.
  - assert (oi_bad (pop_scope (fold_left (fun a y => index_stmt files n y a) th (push_scope OBlock s))) = true) as H1
      by (apply sticky_pop, Hst, sticky_push; exact H).
    destruct el; [|exact H1]. apply sticky_pop, Hst, sticky_push. exact H1.
  - apply sticky_pop, Hst, sticky_push. exact H.
  - apply sticky_pop, Hst. apply (sticky_quiet _ (quiet_targs targs)). apply sticky_push. now apply sticky_emit.
Qed.

(** ---- the relation between a state of the slice and a state of the syntactic visit ---- *)
Fixpoint dsets_ok (sm : symbol_map) (ix : list N) (l : list oscope) : Prop :=
  match l with
  | [] => True
  | ODefset d :: r => (exists de, get_entry sm (KDefset, d) = Some de /\ In (fr_file (e_def de)) ix) /\ dsets_ok sm ix r
  | _ :: r => dsets_ok sm ix r
  end.

Definition good (s : ostate) : Prop :=
  dsets_ok (oi_sm s) (oi_indexed s) (oi_scopes s) /\
  (forall f, In f (oi_trace s) -> In f (oi_indexed s)) /\ oi_trace s <> [].

Definition lex (s : ostate) (dset : bool) : Prop :=
  match first_defset (oi_scopes s) with
  | None => dset = false
  | Some d => exists de, get_entry (oi_sm s) (KDefset, d) = Some de /\ dset = (fr_file (e_def de) =? cur_file s)
  end.

Definition classes_rel (sm : symbol_map) (known : list SymbolMap.name) : Prop :=
  forall n, (exists id, find_class sm n = Some id) <-> In n known.

Definition rel (s : ostate) (v : vstate) (dset : bool) : Prop :=
  oi_indexed s = v_indexed v /\ classes_rel (oi_sm s) (v_known v) /\ lex s dset.

Lemma dsets_ok_ext : forall sm sm' ix ix' l, ext sm sm' -> incl ix ix' -> dsets_ok sm ix l -> dsets_ok sm' ix' l.
Proof.
  intros sm sm' ix ix' l He Hi. induction l as [|k l IH]; intros H; [exact I|].
  destruct k; cbn [dsets_ok] in *; auto. destruct H as [(de & Hd & Hf) Hr]. split; [|auto].
  destruct (He _ _ Hd) as (de' & H1 & H2). exists de'. split; [exact H1|]. rewrite H2. now apply Hi.
Qed.

Lemma lex_frame : forall s s' dset, lex s dset -> oi_scopes s' = oi_scopes s -> oi_trace s' = oi_trace s ->
  ext (oi_sm s) (oi_sm s') -> lex s' dset.
Proof.
  intros s s' dset H Hs Ht He. unfold lex, cur_file in *. rewrite Hs, Ht.
  destruct (first_defset (oi_scopes s)) as [d|]; [|exact H].
  destruct H as (de & Hd & ->). destruct (He _ _ Hd) as (de' & H1 & H2). exists de'. split; [exact H1|]. now rewrite H2.
Qed.

Lemma classes_rel_eq : forall a b known, sm_name_to_class a = sm_name_to_class b -> classes_rel a known -> classes_rel b known.
Proof. intros a b known E H n. unfold find_class in *. rewrite <- E. apply H. Qed.

Lemma quiet_good_rel : forall f s v dset, quiet f -> good s -> rel s v dset -> good (f s) /\ rel (f s) v dset.
Proof.
  intros f s v dset Hq (G1 & G2 & G3) (R1 & R2 & R3). destruct (Hq s) as (A1 & A2 & A3 & A4 & A5 & A6 & A7).
  split.
  - repeat split.
    + rewrite A2, A4. eapply dsets_ok_ext; [exact A6|apply incl_refl|exact G1].
    + rewrite A3, A4. exact G2.
    + now rewrite A3.
  - split; [congruence|]. split; [eapply classes_rel_eq; [symmetry; exact A5|exact R2]|eapply lex_frame; eauto].
Qed.

(** ---- types resolve exactly when the visit knows the classes ---- *)
Lemma ty_string_ok : forall sm known t, classes_rel sm known ->
  (ty_ok known t = true -> exists typ, ty_string sm t = Some typ) /\
  (ty_ok known t = false -> ty_string sm t = None).
Proof.
  intros sm known t Hc. induction t as [| | | | |n|e IH|i]; cbn [ty_ok ty_string]; try (split; [eauto|discriminate]).
  - destruct IH as [I1 I2]. split; intros H.
    + destruct (I1 H) as (x & ->). eauto.
    + now rewrite (I2 H).
  - split; intros H.
    + apply existsb_exists in H. destruct H as (k & Hk & E). apply list_eqb_eq' in E. subst k.
      apply Hc in Hk. destruct Hk as (id & ->). eauto.
    + destruct (find_class sm (i_name i)) as [id|] eqn:F; [|reflexivity].
      assert (In (i_name i) known) as Hin by (apply Hc; eauto).
      assert (existsb (list_eqb (i_name i)) known = true) as Ht.
      { apply existsb_exists. exists (i_name i). split; [exact Hin|]. now apply list_eqb_eq'. }
      congruence.
Qed.

(** ---- the simulation ---- *)
Definition sim (f : ostate -> ostate) (spec : N -> bool -> vstate -> option (list fdecl * vstate)) : Prop :=
  forall s v dset, good s -> rel s v dset -> oi_bad (f s) = false ->
    exists ev v', spec (cur_file s) dset v = Some (ev, v') /\ EF (f s) = EF s ++ ev /\
                  good (f s) /\ rel (f s) v' dset /\
                  oi_scopes (f s) = oi_scopes s /\ oi_trace (f s) = oi_trace s /\ ext (oi_sm s) (oi_sm (f s)).

Lemma sim_quiet : forall f, quiet f -> sim f (fun _ _ v => Some ([], v)).
Proof.
  intros f Hq s v dset Hg Hr _. destruct (quiet_good_rel f s v dset Hq Hg Hr) as [G R].
  destruct (Hq s) as (A1 & A2 & A3 & A4 & A5 & A6 & A7).
  exists [], v. rewrite app_nil_r. split; [reflexivity|]. split; [exact A1|]. split; [exact G|]. split; [exact R|]. auto.
Qed.

Lemma sim_list : forall files n (b : list stmt),
  (forall y, sim (index_stmt files n y) (fun g d v => sv files n g d y v)) ->
  sim (fun s => fold_left (fun a y => index_stmt files n y a) b s) (fun g d v => sv_list files n g d b v).
Proof.
  intros files n b Hy. induction b as [|y b IH]; intros s v dset Hg Hr Hb; cbn [fold_left sv_list] in *.
  - exists [], v. rewrite app_nil_r. split; [reflexivity|]. split; [reflexivity|]. split; [exact Hg|]. split; [exact Hr|].
    auto using ext_refl.
  - assert (oi_bad (index_stmt files n y s) = false) as Hb1.
    { destruct (oi_bad (index_stmt files n y s)) eqn:B; [|reflexivity].
      rewrite (sticky_fold _ (fun y0 a => index_stmt files n y0 a) b (fun a => sticky_index_stmt files n a) _ B) in Hb.
      discriminate. }
    destruct (Hy y s v dset Hg Hr Hb1) as (e1 & v1 & S1 & E1 & G1 & R1 & Sc1 & T1 & X1).
    destruct (IH (index_stmt files n y s) v1 dset G1 R1 Hb) as (e2 & v2 & S2 & E2 & G2 & R2 & Sc2 & T2 & X2).
    assert (cur_file (index_stmt files n y s) = cur_file s) as Hc by (unfold cur_file; now rewrite T1).
    rewrite Hc in S2. rewrite S1, S2.
    exists (e1 ++ e2), v2. split; [reflexivity|]. split; [rewrite E2, E1; now rewrite app_assoc|].
    split; [exact G2|]. split; [exact R2|]. split; [congruence|]. split; [congruence|]. eapply ext_trans; eauto.
Qed.

(** ---- successful emits ---- *)
Lemma emit_ok_facts : forall o s v dset, oi_bad (emit o s) = false -> good s -> rel s v dset ->
  EF (emit o s) = EF s ++ op_fdecl o /\ good (emit o s) /\
  oi_scopes (emit o s) = oi_scopes s /\ oi_trace (emit o s) = oi_trace s /\ oi_indexed (emit o s) = oi_indexed s /\
  ext (oi_sm s) (oi_sm (emit o s)) /\
  rel (emit o s) (mkV (v_indexed v) (match op_class o with Some n => n :: v_known v | None => v_known v end) (v_skipped v)) dset /\
  apply_op (oi_sm s) o = SOk (oi_sm (emit o s)).
Proof.
  intros o s v dset Hb (G1 & G2 & G3) (R1 & R2 & R3).
  destruct (emit_cases o s) as [[B E]|[(B & _ & E)|(B & sm' & Ea & E)]]; rewrite E in *; try (cbn in Hb; congruence).
  clear E. pose proof (ext_apply_op _ _ _ Ea) as Hx.
  split; [unfold EF; cbn [set_sm_ops oi_ops rev]; rewrite ops_fdecls_app; cbn [ops_fdecls flat_map]; now rewrite app_nil_r|].
  split; [split; [cbn; eapply dsets_ok_ext; [exact Hx|apply incl_refl|exact G1]|split; [exact G2|exact G3]]|].
  split; [reflexivity|]. split; [reflexivity|]. split; [reflexivity|]. split; [exact Hx|]. split; [|exact Ea].
  split; [exact R1|]. split.
  - intros n. unfold find_class. cbn [oi_sm set_sm_ops v_known]. rewrite (classes_apply_op _ _ _ Ea).
    destruct (op_class o) as [cn|]; [|apply R2].
    unfold amap_get in *. fold (amap_get (amap_insert (sm_name_to_class (oi_sm s)) cn (next_id (oi_sm s) KRecord)) n).
    rewrite amap_insert_get. destruct (list_eqb cn n) eqn:Q.
    + apply list_eqb_eq' in Q. subst n. split; [intros _; now left|eauto].
    + split.
      * intros H. right. now apply R2.
      * intros [->|H]; [|now apply R2]. assert (list_eqb n n = true) by (now apply list_eqb_eq'). congruence.
  - eapply (lex_frame s); [exact R3|reflexivity|reflexivity|exact Hx].
Qed.

Lemma not_bad_before : forall f s, sticky f -> oi_bad (f s) = false -> oi_bad s = false.
Proof. intros f s Hf H. destruct (oi_bad s) eqn:B; [|reflexivity]. rewrite (Hf s B) in H. discriminate. Qed.

(** push a non-defset scope, run, pop *)
Lemma sim_wrap : forall k F spec, (forall d, k <> ODefset d) -> sim F spec ->
  sim (fun s => pop_scope (F (push_scope k s))) spec.
Proof.
  intros k F spec Hk HF s v dset (G1 & G2 & G3) (R1 & R2 & R3) Hb.
  assert (first_defset (k :: oi_scopes s) = first_defset (oi_scopes s)) as Hfd.
  { destruct k; try reflexivity. exfalso. now apply (Hk id). }
  assert (good (push_scope k s)) as GP.
  { split; [|split; [exact G2|exact G3]]. cbn. destruct k; try exact G1. exfalso. now apply (Hk id). }
  assert (rel (push_scope k s) v dset) as RP.
  { split; [exact R1|]. split; [exact R2|]. unfold lex in *. cbn [push_scope set_scopes oi_scopes]. rewrite Hfd. exact R3. }
  destruct (HF (push_scope k s) v dset GP RP Hb) as (ev & v' & S1 & E1 & (A1 & A2 & A3) & (B1 & B2 & B3) & Sc & Tr & X).
  exists ev, v'. split; [exact S1|]. split; [exact E1|].
  cbn [push_scope set_scopes oi_scopes] in Sc.
  split; [|split; [|split; [|split; [|exact X]]]].
  - split; [|split; [exact A2|exact A3]]. cbn [pop_scope set_scopes oi_scopes oi_sm oi_indexed]. rewrite Sc in *. cbn [tl].
    destruct k; cbn [dsets_ok] in A1; try exact A1. exfalso. now apply (Hk id).
  - split; [exact B1|]. split; [exact B2|]. unfold lex in *. cbn [pop_scope set_scopes oi_scopes oi_sm].
    rewrite Sc in *. cbn [tl]. rewrite Hfd in B3. exact B3.
  - cbn [pop_scope set_scopes oi_scopes]. now rewrite Sc.
  - exact Tr.
Qed.

Lemma sim_after_quiet : forall q F spec, quiet q -> sticky F -> sim F spec -> sim (fun s => F (q s)) spec.
Proof.
  intros q F spec Hq HsF HF s v dset Hg Hr Hb.
  destruct (quiet_good_rel q s v dset Hq Hg Hr) as [G R].
  destruct (Hq s) as (A1 & A2 & A3 & A4 & A5 & A6 & A7).
  destruct (HF (q s) v dset G R Hb) as (ev & v' & S1 & E1 & G2 & R2 & Sc & Tr & X).
  assert (cur_file (q s) = cur_file s) as Hc by (unfold cur_file; now rewrite A3). rewrite Hc in S1.
  exists ev, v'. split; [exact S1|]. split; [now rewrite E1, A1|]. split; [exact G2|]. split; [exact R2|].
  split; [congruence|]. split; [congruence|]. eapply ext_trans; eauto.
Qed.

Lemma quiet_record_block : forall rid (targs : option (list targ)) ps b,
  quiet (fun st => pop_scope (index_record_body rid ps b
           (match targs with Some l => fold_left (fun a t => index_targ t a) l (push_scope (ORecord rid) st)
            | None => push_scope (ORecord rid) st end))).
Proof.
  intros rid targs ps b s.
  pose proof (quiet_comp _ _ (quiet_targs targs) (quiet_record_body rid ps b) (push_scope (ORecord rid) s)) as H.
  cbv beta in H. destruct H as (A1 & A2 & A3 & A4 & A5 & A6 & A7).
  repeat split; auto.
  cbn [pop_scope set_scopes oi_scopes]. rewrite A2. reflexivity.
Qed.

Lemma sticky_stmts : forall files n b, sticky (fun st => fold_left (fun a y => index_stmt files n y a) b st).
Proof. intros. apply (sticky_fold _ (fun y a => index_stmt files n y a)). intros; apply sticky_index_stmt. Qed.

Theorem sim_stmt : forall files fuel x, sim (index_stmt files fuel x) (fun g d v => sv files fuel g d x v).
Proof.
  intros files. induction fuel as [|n IH]; intros x.
  - intros s v dset _ _ Hb. cbn in Hb. discriminate.
  - pose proof (fun b => sim_list files n b IH) as HL.
    intros s v dset Hg Hr Hb. rewrite sv_S. revert Hb.
    destruct x; cbn [index_stmt sv_body]; intros Hb.
    + (* include *)
      destruct Hg as (G1 & G2 & G3). destruct Hr as (R1 & R2 & R3).
      destruct target as [f|].
      2:{ exists [], v. rewrite app_nil_r. split; [reflexivity|]. split; [reflexivity|].
          split; [exact (conj G1 (conj G2 G3))|]. split; [exact (conj R1 (conj R2 R3))|]. auto using ext_refl. }
      rewrite <- R1. destruct (existsb (N.eqb f) (oi_indexed s)) eqn:Ex.
      { exists [], v. rewrite app_nil_r. split; [reflexivity|]. split; [reflexivity|].
        split; [exact (conj G1 (conj G2 G3))|]. split; [exact (conj R1 (conj R2 R3))|]. auto using ext_refl. }
      assert (~ In f (oi_indexed s)) as Hnf.
      { intros Hin. assert (existsb (N.eqb f) (oi_indexed s) = true) as Ht; [|congruence].
        apply existsb_exists. exists f. split; [exact Hin|apply N.eqb_refl]. }
      destruct (nth_error files (N.to_nat f)) as [body|].
      2:{ exists [], (mkV (f :: oi_indexed s) (v_known v) (v_skipped v)). rewrite app_nil_r.
          split; [reflexivity|]. split; [reflexivity|].
          split; [split; [cbn; eapply dsets_ok_ext; [apply ext_refl|apply incl_tl, incl_refl|exact G1]
                         |split; [intros g Hin; right; now apply G2|exact G3]]|].
          split; [split; [reflexivity|split; [exact R2|exact R3]]|]. auto using ext_refl. }
      set (s1 := set_files s (f :: oi_trace s) (f :: oi_indexed s)) in *.
      set (v1 := mkV (f :: oi_indexed s) (v_known v) (v_skipped v)).
      assert (good s1) as GS.
      { split; [cbn; eapply dsets_ok_ext; [apply ext_refl|apply incl_tl, incl_refl|exact G1]|].
        split; [|discriminate]. intros g [<-|Hin]; [now left|right; now apply G2]. }
      assert (rel s1 v1 false) as RS.
      { split; [reflexivity|]. split; [exact R2|]. unfold lex. cbn [s1 set_files oi_scopes oi_sm].
        destruct (first_defset (oi_scopes s)) as [d|] eqn:Fd; [|reflexivity].
        assert (exists de, get_entry (oi_sm s) (KDefset, d) = Some de /\ In (fr_file (e_def de)) (oi_indexed s)) as (de & Hd & Hin).
        { clear - G1 Fd. induction (oi_scopes s) as [|k l IHl]; [discriminate|].
          destruct k; cbn [first_defset dsets_ok] in *; auto. injection Fd as <-. tauto. }
        exists de. split; [exact Hd|]. unfold cur_file. cbn. symmetry. apply N.eqb_neq. intros Heq. apply Hnf. now rewrite <- Heq. }
      cbn [set_files oi_bad] in Hb.
      destruct (HL body s1 v1 false GS RS Hb) as (ev & v' & S1 & E1 & (A1 & A2 & A3) & (B1 & B2 & B3) & Sc & Tr & X).
      change (cur_file s1) with f in S1.
      exists ev, v'. split; [exact S1|]. split; [exact E1|].
      cbn [s1 set_files oi_trace oi_scopes oi_sm] in Tr, Sc, X.
      split; [|split; [|split; [exact Sc|split; [cbn; now rewrite Tr|exact X]]]].
      * split; [exact A1|]. cbn [set_files oi_trace oi_indexed]. rewrite Tr. cbn [tl].
        split; [|exact G3]. intros g Hin. apply A2. rewrite Tr. now right.
      * split; [exact B1|]. split; [exact B2|].
        eapply (lex_frame s); [exact R3|exact Sc|cbn; now rewrite Tr|exact X].
    + (* assert *) exists [], v. rewrite app_nil_r. split; [reflexivity|]. split; [reflexivity|]. split; [exact Hg|]. split; [exact Hr|]. auto using ext_refl.
    + (* class *)
      set (o := OpAddRecord (i_name i) RKClass (loc_of s (i_rng i)) true (next_id (oi_sm s) KRecord)) in *.
      pose proof (quiet_record_block (next_id (oi_sm s) KRecord) targs parents body) as HQ.
      assert (oi_bad (emit o s) = false) as Hbe by (eapply (not_bad_before _ _ (sticky_quiet _ HQ)); exact Hb).
      destruct (emit_ok_facts o s v dset Hbe Hg Hr) as (E1 & G1 & Sc1 & Tr1 & Ix1 & X1 & R1 & _).
      destruct (quiet_good_rel _ (emit o s) _ dset HQ G1 R1) as [G2 R2].
      destruct (HQ (emit o s)) as (A1 & A2 & A3 & A4 & A5 & A6 & A7).
      eexists _, _. split; [reflexivity|]. split; [rewrite A1, E1; reflexivity|]. split; [exact G2|].
      split; [exact R2|]. split; [congruence|]. split; [congruence|]. eapply ext_trans; eauto.
    + (* def *)
      destruct nm as [vv|].
      * destruct (value_first_ident vv) as [i|] eqn:Ev.
        2:{ exists [], v. rewrite app_nil_r. split; [reflexivity|]. split; [reflexivity|]. split; [exact Hg|]. split; [exact Hr|]. auto using ext_refl. }
        set (rid := next_id (oi_sm s) KRecord) in *.
        set (same_file := match first_defset (oi_scopes s) with
                          | Some d => match get_entry (oi_sm s) (KDefset, d) with
                                      | Some de => fr_file (e_def de) =? cur_file s | None => false end
                          | None => false end) in *.
        assert (same_file = dset) as Hsf.
        { destruct Hr as (_ & _ & R3). unfold lex in R3. unfold same_file.
          destruct (first_defset (oi_scopes s)); [|now rewrite R3]. destruct R3 as (de & -> & ->). reflexivity. }
        set (o := OpAddRecord (i_name i) RKDef (loc_of s (i_rng i)) (negb same_file) rid) in *.
        set (R := fun st => pop_scope (index_record_body rid parents body (push_scope (ORecord rid)
                    (match first_defset (oi_scopes s) with
                     | Some d => emit (OpDefsetAddDef rid) (emit (OpDefsetMut d) st)
                     | None => st end)))).
        assert (quiet R) as HQ.
        { unfold R. apply (quiet_comp (fun st => match first_defset (oi_scopes s) with
                     | Some d => emit (OpDefsetAddDef rid) (emit (OpDefsetMut d) st) | None => st end)
                     (fun st => pop_scope (index_record_body rid parents body (push_scope (ORecord rid) st)))).
          - destruct (first_defset (oi_scopes s)) as [d|]; [|apply quiet_id].
            apply (quiet_comp (emit (OpDefsetMut d)) (emit (OpDefsetAddDef rid))); apply quiet_emit; reflexivity.
          - apply (quiet_record_block rid None parents body). }
        change (oi_bad (R (emit o s)) = false) in Hb.
        assert (oi_bad (emit o s) = false) as Hbe by (eapply (not_bad_before _ _ (sticky_quiet _ HQ)); exact Hb).
        destruct (emit_ok_facts o s v dset Hbe Hg Hr) as (E1 & G1 & Sc1 & Tr1 & Ix1 & X1 & R1 & _).
        cbn [op_class o] in R1. destruct v as [vi vk vs]. cbn [v_indexed v_known v_skipped] in R1.
        destruct (quiet_good_rel _ (emit o s) _ dset HQ G1 R1) as [G2 R2].
        destruct (HQ (emit o s)) as (A1 & A2 & A3 & A4 & A5 & A6 & A7).
        eexists _, _. split; [reflexivity|]. split.
        { change (EF (R (emit o s)) = EF s ++ (if dset then [] else [sdecl (cur_file s) DDef i])).
          rewrite A1, E1. f_equal. unfold o. cbn [op_fdecl]. rewrite Hsf. destruct dset; reflexivity. }
        split; [exact G2|]. split; [exact R2|]. split; [exact (eq_trans A2 Sc1)|]. split; [exact (eq_trans A3 Tr1)|].
        eapply ext_trans; [exact X1|exact A6].
      * (* anonymous def: nothing registered *)
        set (rid := next_id (oi_sm s) KRecord) in *.
        set (R := fun st => pop_scope (index_record_body rid parents body (push_scope (ORecord rid)
                    (match first_defset (oi_scopes s) with
                     | Some d => emit (OpDefsetAddDef rid) (emit (OpDefsetMut d)
                                   (emit (OpAddAnonymousDef (anonymous_name (oi_anon s)) (loc_of s r) rid) (set_anon st (oi_anon s + 1))))
                     | None => emit (OpAddAnonymousDef (anonymous_name (oi_anon s)) (loc_of s r) rid) (set_anon st (oi_anon s + 1))
                     end)))).
        assert (quiet R) as HQ.
        { assert (quiet (fun st => emit (OpAddAnonymousDef (anonymous_name (oi_anon s)) (loc_of s r) rid) (set_anon st (oi_anon s + 1)))) as Q1.
          { apply (quiet_comp (fun st => set_anon st (oi_anon s + 1)) (emit _)); [|apply quiet_emit; reflexivity].
            intros st. repeat split; auto using ext_refl. }
          unfold R. apply (quiet_comp (fun st => match first_defset (oi_scopes s) with
                     | Some d => emit (OpDefsetAddDef rid) (emit (OpDefsetMut d)
                                   (emit (OpAddAnonymousDef (anonymous_name (oi_anon s)) (loc_of s r) rid) (set_anon st (oi_anon s + 1))))
                     | None => emit (OpAddAnonymousDef (anonymous_name (oi_anon s)) (loc_of s r) rid) (set_anon st (oi_anon s + 1)) end)
                     (fun st => pop_scope (index_record_body rid parents body (push_scope (ORecord rid) st)))).
          - destruct (first_defset (oi_scopes s)) as [d|]; [|exact Q1].
            apply (quiet_comp _ (fun st => emit (OpDefsetAddDef rid) (emit (OpDefsetMut d) st)) Q1).
            apply (quiet_comp (emit (OpDefsetMut d)) (emit (OpDefsetAddDef rid))); apply quiet_emit; reflexivity.
          - apply (quiet_record_block rid None parents body). }
        assert (index_stmt files (S n) (SDef None r parents body) s = R s) as ER.
        { unfold R. cbn [index_stmt]. destruct (first_defset (oi_scopes s)); reflexivity. }
        apply (sim_quiet R HQ s v dset Hg Hr). change (oi_bad (R s) = false). now rewrite <- ER.
    + (* defm *)
      destruct nm.
      * exists [], v. rewrite app_nil_r. split; [reflexivity|]. split; [reflexivity|]. split; [exact Hg|]. split; [exact Hr|]. auto using ext_refl.
      * apply (sim_quiet (fun st => set_anon st (oi_anon st + 1))); auto.
        intros st. repeat split; auto using ext_refl.
    + (* defset *)
      destruct Hr as (R1 & R2 & R3).
      destruct (ty_string_ok (oi_sm s) (v_known v) t R2) as [T1 T2].
      destruct (ty_ok (v_known v) t) eqn:Tk.
      2:{ rewrite (T2 eq_refl) in *. exists [], (mkV (v_indexed v) (v_known v) true). rewrite app_nil_r.
          split; [reflexivity|]. split; [reflexivity|]. split; [exact Hg|]. split; [split; [exact R1|split; [exact R2|exact R3]]|].
          auto using ext_refl. }
      destruct (T1 eq_refl) as (typ & Ety). rewrite Ety in *.
      set (did := next_id (oi_sm s) KDefset) in *.
      set (o := OpAddDefset (i_name i) typ (loc_of s (i_rng i)) did) in *.
      assert (sticky (fun st => pop_scope (fold_left (fun a y => index_stmt files n y a) body (push_scope (ODefset did) st)))) as HS.
      { intros st B. apply sticky_pop, sticky_stmts, sticky_push. exact B. }
      assert (oi_bad (emit o s) = false) as Hbe by (eapply (not_bad_before _ _ HS); exact Hb).
      destruct (emit_ok_facts o s v dset Hbe Hg (conj R1 (conj R2 R3))) as (E1 & (G1 & G2 & G3) & Sc1 & Tr1 & Ix1 & X1 & (Q1 & Q2 & Q3) & Ea).
      cbn [op_class o] in Q2. cbn [v_indexed v_known] in Q1, Q2.
      destruct (add_defset_entry _ _ _ _ _ _ Ea) as (de & Hde & Hloc). fold did in Hde.
      set (sP := push_scope (ODefset did) (emit o s)) in *.
      assert (In (cur_file s) (oi_indexed s)) as Hcur.
      { destruct Hg as (_ & H2 & H3). apply H2. unfold cur_file. destruct (oi_trace s); [congruence|now left]. }
      assert (good sP) as GP.
      { split; [|split; [exact G2|exact G3]]. unfold sP. cbn [push_scope set_scopes oi_scopes oi_sm oi_indexed dsets_ok].
        split; [|exact G1]. exists de. split; [exact Hde|]. rewrite Hloc, Ix1. exact Hcur. }
      assert (rel sP v true) as RP.
      { destruct v as [vi vk vs]. split; [exact Q1|]. split; [exact Q2|].
        unfold lex, sP. cbn [push_scope set_scopes oi_scopes first_defset oi_sm]. exists de. split; [exact Hde|].
        rewrite Hloc. unfold cur_file. cbn [push_scope set_scopes oi_trace]. rewrite Tr1.
        unfold loc_of, cur_file. cbn [fr_file]. symmetry. apply N.eqb_refl. }
      change (oi_bad (fold_left (fun a y => index_stmt files n y a) body sP) = false) in Hb.
      destruct (HL body sP v true GP RP Hb) as (ev & v' & S1 & E2 & (A1 & A2 & A3) & (B1 & B2 & B3) & Sc & Tr & X).
      assert (cur_file sP = cur_file s) as Hc by (unfold cur_file, sP; cbn [push_scope set_scopes oi_trace]; now rewrite Tr1).
      rewrite Hc in S1. rewrite S1.
      exists (sdecl (cur_file s) DDefset i :: ev), v'. split; [reflexivity|].
      assert (oi_scopes sP = ODefset did :: oi_scopes s) as HscP by (unfold sP; cbn [push_scope set_scopes oi_scopes]; now rewrite Sc1).
      assert (oi_trace sP = oi_trace s) as HtrP by (unfold sP; cbn [push_scope set_scopes oi_trace]; exact Tr1).
      assert (oi_sm sP = oi_sm (emit o s)) as HsmP by reflexivity.
      split.
      { change (EF (pop_scope ?z)) with (EF z). rewrite E2. change (EF sP) with (EF (emit o s)). rewrite E1.
        rewrite <- app_assoc. reflexivity. }
      assert (ext (oi_sm s) (oi_sm (fold_left (fun a y => index_stmt files n y a) body sP))) as XX
        by (eapply ext_trans; [exact X1|]; rewrite <- HsmP; exact X).
      split; [|split; [|split; [|split; [|exact XX]]]].
      * split; [|split; [exact A2|exact A3]]. cbn [pop_scope set_scopes oi_scopes oi_sm oi_indexed].
        rewrite Sc, HscP in *. cbn [tl]. cbn [dsets_ok] in A1. tauto.
      * split; [exact B1|]. split; [exact B2|].
        eapply (lex_frame s); [exact R3| | |exact XX].
        -- cbn [pop_scope set_scopes oi_scopes]. rewrite Sc, HscP. reflexivity.
        -- cbn [pop_scope set_scopes oi_trace]. rewrite Tr. exact HtrP.
      * cbn [pop_scope set_scopes oi_scopes]. rewrite Sc, HscP. reflexivity.
      * cbn [pop_scope set_scopes oi_trace]. rewrite Tr. exact HtrP.
    + (* defvar *) exists [], v. rewrite app_nil_r. split; [reflexivity|]. split; [reflexivity|]. split; [exact Hg|]. split; [exact Hr|]. auto using ext_refl.
    + (* dump *) exists [], v. rewrite app_nil_r. split; [reflexivity|]. split; [reflexivity|]. split; [exact Hg|]. split; [exact Hr|]. auto using ext_refl.
    + (* foreach *) exact (sim_wrap OBlock _ _ ltac:(discriminate) (HL body) s v dset Hg Hr Hb).
    + (* if *)
      assert (oi_bad (pop_scope (fold_left (fun a y => index_stmt files n y a) th (push_scope OBlock s))) = false) as Hb1.
      { destruct el; [|exact Hb].
        eapply (not_bad_before (fun st => pop_scope (fold_left (fun a y => index_stmt files n y a) l (push_scope OBlock st))));
          [|exact Hb]. intros st B. apply sticky_pop, sticky_stmts, sticky_push. exact B. }
      destruct (sim_wrap OBlock _ _ ltac:(discriminate) (HL th) s v dset Hg Hr Hb1) as (e1 & v1 & S1 & E1 & G1 & R1 & Sc1 & Tr1 & X1).
      rewrite S1. destruct el as [e|].
      * destruct (sim_wrap OBlock _ _ ltac:(discriminate) (HL e) _ v1 dset G1 R1 Hb) as (e2 & v2 & S2 & E2 & G2 & R2 & Sc2 & Tr2 & X2).
        assert (cur_file (pop_scope (fold_left (fun a y => index_stmt files n y a) th (push_scope OBlock s))) = cur_file s) as Hc
          by (unfold cur_file; now rewrite Tr1).
        rewrite Hc in S2. rewrite S2.
        exists (e1 ++ e2), v2. split; [reflexivity|]. split; [rewrite E2, E1; now rewrite app_assoc|].
        split; [exact G2|]. split; [exact R2|]. split; [congruence|]. split; [congruence|]. eapply ext_trans; eauto.
      * exists e1, v1. split; [reflexivity|]. split; [exact E1|]. auto.
    + (* let *) exact (sim_wrap OBlock _ _ ltac:(discriminate) (HL body) s v dset Hg Hr Hb).
    + (* multiclass *)
      set (mid := next_id (oi_sm s) KMulticlass) in *.
      set (o := OpAddMulticlass (i_name i) (loc_of s (i_rng i)) mid) in *.
      set (F := fun st => fold_left (fun a y => index_stmt files n y a) body
                 (match targs with Some l => fold_left (fun a t => index_targ t a) l st | None => st end)).
      assert (sim F (fun g d v0 => sv_list files n g d body v0)) as HF.
      { apply (sim_after_quiet _ (fun st => fold_left (fun a y => index_stmt files n y a) body st) _ (quiet_targs targs));
          [apply sticky_stmts|apply HL]. }
      pose proof (sim_wrap (OMulticlass mid) F _ ltac:(discriminate) HF) as HW.
      assert (sticky (fun st => pop_scope (F (push_scope (OMulticlass mid) st)))) as HS.
      { intros st B. apply sticky_pop. unfold F. apply sticky_stmts. apply (sticky_quiet _ (quiet_targs targs)). exact B. }
      change (oi_bad (pop_scope (F (push_scope (OMulticlass mid) (emit o s)))) = false) in Hb.
      assert (oi_bad (emit o s) = false) as Hbe by (eapply (not_bad_before _ _ HS); exact Hb).
      destruct (emit_ok_facts o s v dset Hbe Hg Hr) as (E1 & G1 & Sc1 & Tr1 & Ix1 & X1 & R1 & _).
      cbn [op_class o] in R1. destruct v as [vi vk vs]. cbn [v_indexed v_known v_skipped] in R1.
      destruct (HW (emit o s) _ dset G1 R1 Hb) as (ev & v' & S1 & E2 & G2 & R2 & Sc & Tr & X).
      assert (cur_file (emit o s) = cur_file s) as Hc by (unfold cur_file; now rewrite Tr1).
      rewrite Hc in S1. rewrite S1.
      exists (sdecl (cur_file s) DMulticlass i :: ev), v'. split; [reflexivity|].
      split.
      { change (EF (pop_scope (F (push_scope (OMulticlass mid) (emit o s)))) = EF s ++ sdecl (cur_file s) DMulticlass i :: ev).
        rewrite E2, E1. rewrite <- app_assoc. reflexivity. }
      split; [exact G2|]. split; [exact R2|]. split; [exact (eq_trans Sc Sc1)|]. split; [exact (eq_trans Tr Tr1)|].
      eapply ext_trans; [exact X1|exact X].
Qed.

(** ---- the workspace theorem: what the slice registers IS the syntactic visit ---- *)
Theorem oix_visit : forall w, oi_bad (oix w) = false ->
  exists ev v', visit_ws w = Some (ev, v') /\ ops_fdecls (oix_ops w) = ev /\ oi_indexed (oix w) = v_indexed v'.
Proof.
  intros w Hb. unfold visit_ws, oix_ops, oix in *. destruct (ws_files w) as [|root rest] eqn:Ef.
  - exists [], v0. repeat split.
  - assert (good o0) as G0.
    { split; [exact I|]. split; [intros f H; exact H|discriminate]. }
    assert (rel o0 v0 false) as R0.
    { split; [reflexivity|]. split; [|reflexivity]. intros n. split; [intros (id & H); discriminate|intros []]. }
    destruct (sim_list (root :: rest) (ws_fuel w) root (sim_stmt (root :: rest) (ws_fuel w)) o0 v0 false G0 R0 Hb)
      as (ev & v' & S1 & E1 & _ & (R1 & _) & _).
    exists ev, v'. split; [exact S1|]. split; [exact E1|exact R1].
Qed.

(** ================= purely syntactic: the visit, projected on one file ================= *)
Definition mem (f : N) (l : list N) : bool := existsb (N.eqb f) l.

Lemma mem_In : forall f l, mem f l = true <-> In f l.
Proof.
  intros f l. unfold mem. rewrite existsb_exists. split.
  - intros (x & H & E). apply N.eqb_eq in E. now subst.
  - intros H. exists f. split; [exact H|apply N.eqb_refl].
Qed.

Lemma mem_incl : forall f l l', incl l l' -> mem f l = true -> mem f l' = true.
Proof. intros f l l' Hi H. apply mem_In. apply Hi. now apply mem_In. Qed.

Lemma dof_app : forall f a b, decls_of_file f (a ++ b) = decls_of_file f a ++ decls_of_file f b.
Proof. intros. unfold decls_of_file. now rewrite filter_app, map_app. Qed.

Lemma dof_cons : forall f g d e, decls_of_file f ((g, d) :: e) = (if g =? f then [d] else []) ++ decls_of_file f e.
Proof. intros. unfold decls_of_file. cbn [filter fst]. destruct (g =? f); reflexivity. Qed.

(** contribution of the files entered for the first time between two visit states *)
Definition newly (files : list (list stmt)) (f : N) (v v' : vstate) : list decl :=
  if mem f (v_indexed v) then [] else if mem f (v_indexed v') then file_decls files f else [].

Definition proj_ok (files : list (list stmt)) (g : N) (own : list decl) (v : vstate) (ev : list fdecl) (v' : vstate) : Prop :=
  incl (v_indexed v) (v_indexed v') /\ v_skipped v = false /\
  forall f, decls_of_file f ev = (if g =? f then own else []) ++ newly files f v v'.

Lemma newly_same : forall files f v v', v_indexed v' = v_indexed v -> newly files f v v' = [].
Proof. intros files f v v' E. unfold newly. rewrite E. now destruct (mem f (v_indexed v)). Qed.

Lemma proj_nothing : forall files g v, v_skipped v = false -> proj_ok files g [] v [] v.
Proof.
  intros files g v Hs. split; [apply incl_refl|]. split; [exact Hs|]. intros f.
  rewrite newly_same by reflexivity. now destruct (g =? f).
Qed.

Lemma proj_seq : forall files g own1 own2 v ev1 v1 ev2 v2,
  In g (v_indexed v) ->
  proj_ok files g own1 v ev1 v1 -> proj_ok files g own2 v1 ev2 v2 ->
  proj_ok files g (own1 ++ own2) v (ev1 ++ ev2) v2.
Proof.
  intros files g own1 own2 v ev1 v1 ev2 v2 Hg (I1 & S1 & P1) (I2 & S2 & P2).
  split; [eapply incl_tran; eauto|]. split; [exact S1|]. intros f. rewrite dof_app, P1, P2. unfold newly.
  destruct (g =? f) eqn:Q.
  - apply N.eqb_eq in Q. subst f. assert (mem g (v_indexed v) = true) as M by (now apply mem_In).
    rewrite M, (mem_incl _ _ _ I1 M). now rewrite !app_nil_r.
  - cbn [app]. destruct (mem f (v_indexed v)) eqn:M.
    + now rewrite (mem_incl _ _ _ I1 M).
    + destruct (mem f (v_indexed v1)) eqn:M1.
      * rewrite (mem_incl _ _ _ I2 M1). now rewrite app_nil_r.
      * reflexivity.
Qed.

Lemma skipped_mono_stmt : forall files fuel g dset x v ev v', sv files fuel g dset x v = Some (ev, v') ->
  v_skipped v' = false -> v_skipped v = false.
Proof.
  intros files. induction fuel as [|n IH]; intros g dset x v ev v' H Hs; [discriminate|].
  assert (forall b g d v ev v', sv_list files n g d b v = Some (ev, v') -> v_skipped v' = false -> v_skipped v = false) as HL.
  { induction b as [|y b IHb]; intros g0 d v1 ev1 v1' H1 Hs1; cbn [sv_list] in H1.
    - injection H1 as _ <-. exact Hs1.
    - destruct (sv files n g0 d y v1) as [[e1 w1]|] eqn:E1; [|discriminate].
      destruct (sv_list files n g0 d b w1) as [[e2 w2]|] eqn:E2; [|discriminate]. injection H1 as _ <-.
      eapply IH; [exact E1|]. eapply IHb; eauto. }
  rewrite sv_S in H. destruct x; cbn [sv_body] in H.
  + destruct target as [f|]; [|injection H as _ <-; exact Hs].
    destruct (existsb _ _); [injection H as _ <-; exact Hs|].
    destruct (nth_error files (N.to_nat f)); [apply HL in H; auto|injection H as _ <-; exact Hs].
  + injection H as _ <-; exact Hs.
  + injection H as _ <-; exact Hs.
  + destruct nm as [vv|]; [destruct (value_first_ident vv)|]; injection H as _ <-; exact Hs.
  + injection H as _ <-; exact Hs.
  + destruct (ty_ok _ _).
    * destruct (sv_list files n g true body v) as [[e w]|] eqn:E; [|discriminate]. injection H as _ <-. eapply HL; eauto.
    * injection H as _ <-. cbn in Hs. discriminate.
  + injection H as _ <-; exact Hs.
  + injection H as _ <-; exact Hs.
  + eapply HL; eauto.
  + destruct (sv_list files n g dset th v) as [[e1 w1]|] eqn:E1; [|discriminate]. destruct el as [e|].
    * destruct (sv_list files n g dset e w1) as [[e2 w2]|] eqn:E2; [|discriminate]. injection H as _ <-.
      eapply HL; [exact E1|]. eapply HL; eauto.
    * injection H as _ <-. eapply HL; eauto.
  + eapply HL; eauto.
  + destruct (sv_list files n g dset body v) as [[e w]|] eqn:E; [|discriminate]. injection H as _ <-. eapply HL; eauto.
Qed.

Theorem sv_proj : forall files fuel g dset x v ev v',
  sv files fuel g dset x v = Some (ev, v') -> v_skipped v' = false -> In g (v_indexed v) ->
  proj_ok files g (stmt_decls dset x) v ev v'.
Proof.
  intros files. induction fuel as [|n IH]; intros g dset x v ev v' H Hs Hg; [discriminate|].
  assert (forall b g d v ev v', sv_list files n g d b v = Some (ev, v') -> v_skipped v' = false -> In g (v_indexed v) ->
            proj_ok files g (flat_map (stmt_decls d) b) v ev v') as HL.
  { induction b as [|y b IHb]; intros g0 d v1 ev1 v1' H1 Hs1 Hg1; cbn [sv_list flat_map] in *.
    - injection H1 as <- <-. apply proj_nothing. exact Hs1.
    - destruct (sv files n g0 d y v1) as [[e1 w1]|] eqn:E1; [|discriminate].
      destruct (sv_list files n g0 d b w1) as [[e2 w2]|] eqn:E2; [|discriminate]. injection H1 as <- <-.
      assert (v_skipped w1 = false) as Hw1.
      { clear - E2 Hs1. revert w1 e2 w2 E2 Hs1. induction b as [|z b IHz]; intros w1 e2 w2 E2 Hs1; cbn [sv_list] in E2.
        - injection E2 as _ <-. exact Hs1.
        - destruct (sv files n g0 d z w1) as [[a1 u1]|] eqn:A1; [|discriminate].
          destruct (sv_list files n g0 d b u1) as [[a2 u2]|] eqn:A2; [|discriminate]. injection E2 as _ <-.
          eapply skipped_mono_stmt; [exact A1|]. eapply IHz; eauto. }
      pose proof (IH _ _ _ _ _ _ E1 Hw1 Hg1) as P1.
      assert (In g0 (v_indexed w1)) as Hg2 by (destruct P1 as (I1 & _); now apply I1).
      apply (proj_seq files g0 _ _ v1 e1 w1 e2 w2 Hg1 P1). eapply IHb; eauto. }
  rewrite sv_S in H. destruct x; cbn [sv_body stmt_decls] in *.
  - (* include *)
    destruct target as [h|]; [|injection H as <- <-; now apply proj_nothing].
    destruct (existsb (N.eqb h) (v_indexed v)) eqn:Mh; [injection H as <- <-; now apply proj_nothing|].
    destruct (nth_error files (N.to_nat h)) as [body|] eqn:Nh.
    + pose proof (HL body h false _ _ _ H Hs ltac:(now left)) as (I1 & S1 & P1).
      cbn [v_indexed v_skipped] in *.
      split; [intros z Hz; apply I1; now right|]. split; [exact S1|]. intros f. rewrite P1. unfold newly.
      cbn [v_indexed]. change (existsb (N.eqb f) (h :: v_indexed v)) with (mem f (h :: v_indexed v)).
      assert (g =? f = true -> mem f (v_indexed v) = true) as Hgf.
      { intros Q. apply N.eqb_eq in Q. subst f. now apply mem_In. }
      destruct (h =? f) eqn:Q.
      * apply N.eqb_eq in Q. subst f.
        assert (mem h (h :: v_indexed v) = true) as M1 by (apply mem_In; now left).
        rewrite M1. change (mem h (v_indexed v)) with (existsb (N.eqb h) (v_indexed v)). rewrite Mh.
        assert (mem h (v_indexed v') = true) as M2 by (apply mem_In, I1; now left).
        rewrite M2. unfold file_decls, program_decls. rewrite Nh.
        destruct (g =? h) eqn:Q2; [specialize (Hgf eq_refl); unfold mem in Hgf; congruence|]. now rewrite app_nil_r.
      * assert (mem f (h :: v_indexed v) = mem f (v_indexed v)) as M1.
        { unfold mem. cbn [existsb]. rewrite N.eqb_sym, Q. reflexivity. }
        rewrite M1. destruct (g =? f) eqn:Q2; [rewrite (Hgf eq_refl); reflexivity|reflexivity].
    + injection H as <- <-. split; [intros z Hz; now right|]. split; [exact Hs|]. intros f. unfold newly. cbn [v_indexed].
      change (existsb (N.eqb f) (h :: v_indexed v)) with (mem f (h :: v_indexed v)).
      unfold decls_of_file. cbn [filter map].
      destruct (mem f (v_indexed v)) eqn:M; [now destruct (g =? f)|].
      destruct (mem f (h :: v_indexed v)) eqn:M1; [|now destruct (g =? f)].
      assert (f = h) as ->.
      { apply mem_In in M1. destruct M1 as [->|M1]; [reflexivity|]. apply mem_In in M1. congruence. }
      unfold file_decls. rewrite Nh. now destruct (g =? h).
  - injection H as <- <-. now apply proj_nothing.
  - (* class *)
    injection H as <- <-. split; [apply incl_refl|]. split; [exact Hs|]. intros f. unfold sdecl. rewrite dof_cons.
    rewrite newly_same by reflexivity. unfold decls_of_file. cbn [filter map]. now destruct (g =? f).
  - (* def *)
    destruct nm as [vv|].
    + destruct (value_first_ident vv) as [i|].
      * injection H as <- <-. split; [apply incl_refl|]. split; [exact Hs|]. intros f.
        rewrite newly_same by reflexivity. destruct dset.
        -- unfold decls_of_file. cbn [filter map]. now destruct (g =? f).
        -- unfold sdecl. rewrite dof_cons. unfold decls_of_file. cbn [filter map]. now destruct (g =? f).
      * injection H as <- <-. now apply proj_nothing.
    + injection H as <- <-. now apply proj_nothing.
  - injection H as <- <-. now apply proj_nothing.
  - (* defset *)
    destruct (ty_ok (v_known v) t).
    + destruct (sv_list files n g true body v) as [[e w]|] eqn:E; [|discriminate]. injection H as <- <-.
      destruct (HL _ _ _ _ _ _ E Hs Hg) as (I1 & S1 & P1).
      split; [exact I1|]. split; [exact S1|]. intros f. unfold sdecl. rewrite dof_cons, P1.
      destruct (g =? f); reflexivity.
    + injection H as <- <-. cbn in Hs. discriminate.
  - injection H as <- <-. now apply proj_nothing.
  - injection H as <- <-. now apply proj_nothing.
  - (* foreach *) eapply HL; eauto.
  - (* if *)
    destruct (sv_list files n g dset th v) as [[e1 w1]|] eqn:E1; [|discriminate]. destruct el as [e|].
    + destruct (sv_list files n g dset e w1) as [[e2 w2]|] eqn:E2; [|discriminate]. injection H as <- <-.
      assert (v_skipped w1 = false) as Hw1.
      { clear - E2 Hs. revert w1 e2 w2 E2 Hs. induction e as [|z b IHz]; intros w1 e2 w2 E2 Hs; cbn [sv_list] in E2.
        - injection E2 as _ <-. exact Hs.
        - destruct (sv files n g dset z w1) as [[a1 u1]|] eqn:A1; [|discriminate].
          destruct (sv_list files n g dset b u1) as [[a2 u2]|] eqn:A2; [|discriminate]. injection E2 as _ <-.
          eapply skipped_mono_stmt; [exact A1|]. eapply IHz; eauto. }
      pose proof (HL _ _ _ _ _ _ E1 Hw1 Hg) as P1.
      assert (In g (v_indexed w1)) as Hg2 by (destruct P1 as (I1 & _); now apply I1).
      apply (proj_seq files g _ _ v e1 w1 e2 w2 Hg P1). eapply HL; eauto.
    + injection H as <- <-. rewrite app_nil_r. eapply HL; eauto.
  - (* let *) eapply HL; eauto.
  - (* multiclass *)
    destruct (sv_list files n g dset body v) as [[e w]|] eqn:E; [|discriminate]. injection H as <- <-.
    destruct (HL _ _ _ _ _ _ E Hs Hg) as (I1 & S1 & P1).
    split; [exact I1|]. split; [exact S1|]. intros f. unfold sdecl. rewrite dof_cons, P1.
    destruct (g =? f); reflexivity.
Qed.

Lemma skipped_mono_list : forall files n g d b v ev v', sv_list files n g d b v = Some (ev, v') ->
  v_skipped v' = false -> v_skipped v = false.
Proof.
  intros files n g d b. induction b as [|z b IHz]; intros v ev v' E Hs; cbn [sv_list] in E.
  - injection E as _ <-. exact Hs.
  - destruct (sv files n g d z v) as [[a1 u1]|] eqn:A1; [|discriminate].
    destruct (sv_list files n g d b u1) as [[a2 u2]|] eqn:A2; [|discriminate]. injection E as _ <-.
    eapply skipped_mono_stmt; [exact A1|]. eapply IHz; eauto.
Qed.

Lemma sv_list_proj : forall files n b g d v ev v',
  sv_list files n g d b v = Some (ev, v') -> v_skipped v' = false -> In g (v_indexed v) ->
  proj_ok files g (flat_map (stmt_decls d) b) v ev v'.
Proof.
  intros files n. induction b as [|y b IHb]; intros g d v ev v' H Hs Hg; cbn [sv_list flat_map] in *.
  - injection H as <- <-. apply proj_nothing. exact Hs.
  - destruct (sv files n g d y v) as [[e1 w1]|] eqn:E1; [|discriminate].
    destruct (sv_list files n g d b w1) as [[e2 w2]|] eqn:E2; [|discriminate]. injection H as <- <-.
    pose proof (skipped_mono_list _ _ _ _ _ _ _ _ E2 Hs) as Hw1.
    pose proof (sv_proj _ _ _ _ _ _ _ _ E1 Hw1 Hg) as P1.
    assert (In g (v_indexed w1)) as Hg2 by (destruct P1 as (I1 & _); now apply I1).
    apply (proj_seq files g _ _ v e1 w1 e2 w2 Hg P1). eapply IHb; eauto.
Qed.

(** ---- per file: for every workspace whose declarations are well-formed ([decls_wf], decidable) and on which the slice
         hits no modelled panic, the declarations registered for a file are EXACTLY the file's declarations in source
         preorder if the file is visited (root, or reached through include), and none otherwise ---- *)
Theorem outline_files_complete : forall w, oi_bad (oix w) = false -> decls_wf w = true ->
  forall f, decls_of_file f (ops_fdecls (oix_ops w)) =
            if mem f (oi_indexed (oix w)) then file_decls (ws_files w) f else [].
Proof.
  intros w Hb Hwf f. destruct (oix_visit w Hb) as (ev & v' & Hv & -> & ->).
  unfold decls_wf in Hwf. rewrite Hv in Hwf. apply negb_true_iff in Hwf.
  unfold visit_ws in Hv. destruct (ws_files w) as [|root rest] eqn:Ef.
  - injection Hv as <- <-. unfold file_decls. destruct (mem f (v_indexed v0)); [|reflexivity].
    destruct (N.to_nat f); reflexivity.
  - destruct (sv_list_proj _ _ _ _ _ _ _ _ Hv Hwf ltac:(now left)) as (I1 & _ & P). rewrite P. unfold newly.
    cbn [v0 v_indexed]. destruct (0 =? f) eqn:Q.
    + apply N.eqb_eq in Q. subst f. assert (mem 0 [0] = true) as M by reflexivity. rewrite M, (mem_incl _ _ _ I1 M).
      rewrite app_nil_r. reflexivity.
    + assert (mem f [0] = false) as M by (unfold mem; cbn [existsb]; rewrite N.eqb_sym, Q; reflexivity).
      rewrite M. reflexivity.
Qed.
