(** Lemmas for property C04 (grammar conformance). *)
From Coq Require Import List NArith Bool String Lia.
From TG.Gen Require Import GenTokens GenLexTables GenGrammar GenAst GenCompletion GenDocGrammar.
From TG.Model Require Import Chars Lexer Prep Tree ParserPrims GInterp DocGrammar Completion.
From TG.Proofs Require Import C20Proofs.
Import ListNotations.
Close Scope string_scope.
Open Scope list_scope.

Definition t_text (s : string) : list N := C20Proofs.t s.

(** * The documented grammar speaks about the lexer's tokens: every quoted literal of syntax.md / the rule
      comments is lexed by the lexer model as exactly one token, of the kind used in the generated grammar *)
Definition literal_ok_b (lk : list N * TokenKind) : bool :=
  match lex_single (fst lk) with Some k => tk_eqb k (snd lk) | None => false end.
Lemma doc_literals_all : forallb literal_ok_b doc_literals = true.
Proof. vm_compute. reflexivity. Qed.
Lemma C04_doc_literals_lex_proof : forall l k, In (l, k) doc_literals -> lexes_as l k.
Proof.
  intros l k H. pose proof (proj1 (forallb_forall _ _) doc_literals_all _ H) as F.
  unfold literal_ok_b in F. cbn [fst snd] in F.
  destruct (lex_single l) as [k'|] eqn:S; try discriminate.
  apply tk_eqb_eq in F. subst. now apply lex_single_sound.
Qed.

(** * Zero errors => sentence (soundness direction, for ALL texts) *)
From TG.Model Require Import GramAbs GramCert.
From TG.Proofs Require Import GramRx GramSound.

(** the reflective obligation: re-evaluated whenever the grammar program, the documents or the certificate change *)
Lemma check_doc_sound_grammar :
  check_all doc_rules_sound grammar_prog grammar_cert check_fuel grammar_entry doc_start = true.
Proof. vm_compute. reflexivity. Qed.

Lemma C04_errors_or_sentence_proof :
  forall fuel txt t st, parse_with fuel grammar_prog grammar_entry txt = ParseOk t [] st ->
  exists u : list TokenKind, derives doc_rules_sound doc_start u /\ map sk_of_tk u = filter nontriv (tkinds t).
Proof. exact (check_all_sound _ _ _ _ _ _ check_doc_sound_grammar). Qed.

(** the check really discriminates: against the documents WITHOUT the known accept-deltas it fails *)
Lemma check_doc_trail_fails :
  check_all doc_rules_trail grammar_prog grammar_cert check_fuel grammar_entry doc_start = false.
Proof. vm_compute. reflexivity. Qed.

(** non-vacuity: a text that parses with zero errors *)
Example zero_error_parse_exists :
  exists t st, parse_with 4000 grammar_prog grammar_entry (t_text "class A<int x> : B<1> { let y = [1, 2]; }"%string) = ParseOk t [] st.
Proof. vm_compute. eexists. eexists. reflexivity. Qed.
