(** Lemmas for property C04 (grammar conformance). *)
From Coq Require Import List NArith Bool String Lia.
From TG.Gen Require Import GenTokens GenLexTables GenGrammar GenAst GenCompletion GenDocGrammar.
From TG.Model Require Import Chars Lexer Prep Tree ParserPrims GInterp DocGrammar Completion.
From TG.Proofs Require Import C20Proofs.
Import ListNotations.
Close Scope string_scope.
Open Scope list_scope.

(** * The documented grammar speaks about the lexer's tokens: every quoted literal of syntax.md / the rule
      comments is lexed by the lexer model as exactly one token, of the kind used in the generated grammar *)
Definition literal_ok_b (lk : list N * TokenKind) : bool :=
  match lex_single (fst lk) with Some k => tk_eqb k (snd lk) | None => false end.
Lemma doc_literals_all : forallb literal_ok_b doc_literals = true.
Proof. vm_compute. reflexivity. Qed.
Lemma C04_doc_literals_lex_proof : forall l k, In (l, k) doc_literals -> lexes_as l k.
Proof.
  intros l k H. pose proof (proj1 (forallb_forall _ _) doc_literals_all _ H) as F.
  unfold literal_ok_b in F. cbn [fst snd] in F.
  destruct (lex_single l) as [k'|] eqn:S; try discriminate.
  apply tk_eqb_eq in F. subst. now apply lex_single_sound.
Qed.
