(** Soundness of nullability and partial derivatives of model/GramAbs.v w.r.t. the derivation relation
    [rmatch] of model/DocGrammar.v (the easy direction: what the derivative accepts, the regex accepts after the letter). *)
From Coq Require Import List NArith Bool Lia PeanoNat Arith.
From TG.Gen Require Import GenTokens.
From TG.Model Require Import DocGrammar GramAbs.
Import ListNotations.

Lemma kinds_eqb_eq a : forall b, kinds_eqb a b = true -> a = b.
Proof.
  induction a as [|x a IH]; intros [|y b] H; simpl in H; try discriminate; auto.
  apply andb_true_iff in H as [H1 H2]. apply tk_eqb_eq in H1. f_equal; auto.
Qed.
Lemma dsym_eqb_eq a b : dsym_eqb a b = true -> a = b.
Proof.
  destruct a, b; simpl; intros H; try discriminate.
  - f_equal. now apply kinds_eqb_eq.
  - f_equal. now apply Nat.eqb_eq.
Qed.
Lemma rx_eqb_eq a : forall b, rx_eqb a b = true -> a = b.
Proof.
  induction a; intros b H; destruct b; simpl in H; try discriminate; auto.
  - f_equal. now apply dsym_eqb_eq.
  - apply andb_true_iff in H as [H1 H2]. f_equal; auto.
  - apply andb_true_iff in H as [H1 H2]. f_equal; auto.
  - f_equal; auto.
Qed.
Lemma rx_eqb_refl a : rx_eqb a a = true.
Proof.
  induction a; simpl; auto.
  - destruct s; simpl; [|apply Nat.eqb_refl].
    induction ks; simpl; auto. now rewrite tk_eqb_refl.
  - now rewrite IHa1, IHa2.
  - now rewrite IHa1, IHa2.
Qed.

Lemma dedup_rx_In x l : In x (dedup_rx l) -> In x l.
Proof.
  induction l as [|y l IH]; simpl; auto.
  destruct (existsb (rx_eqb y) l); simpl; intuition.
Qed.

Section Sound.
  Variable G : grammar.
  Variable unf : nat -> bool.

  Lemma match_eps_inv v : rmatch G REps v -> v = [].
  Proof. intros H. inversion H. reflexivity. Qed.
  Lemma match_none_inv v : ~ rmatch G RNone v.
  Proof. intros H. inversion H. Qed.

  Lemma mk_seq_match a b v : rmatch G (mk_seq a b) v -> exists v1 v2, v = v1 ++ v2 /\ rmatch G a v1 /\ rmatch G b v2.
  Proof.
    destruct a; simpl; intros H.
    - now apply match_none_inv in H.
    - exists [], v. repeat split; auto. constructor.
    - inversion H; subst. eauto.
    - inversion H; subst. eauto.
    - inversion H; subst. eauto.
    - inversion H; subst. eauto.
  Qed.

  Lemma nullable_sound : forall fuel r, nullable G unf fuel r = true -> rmatch G r [].
  Proof.
    induction fuel as [|n IH]; intros r H; simpl in H; try discriminate.
    destruct r; try discriminate.
    - constructor.
    - destruct s; try discriminate.
      destruct (unf n0); try discriminate.
      destruct (nth_error G n0) as [rhs|] eqn:E; try discriminate.
      eapply MNT; eauto.
    - apply andb_true_iff in H as [H1 H2]. change (@nil TokenKind) with (@nil TokenKind ++ []). constructor; auto.
    - apply orb_true_iff in H as [H|H]; [apply MAltL|apply MAltR]; auto.
    - constructor.
  Qed.

  (** the word a letter stands for *)
  Definition letter_word (l : letter) (w : list TokenKind) : Prop :=
    match l with inl k => w = [k] | inr m => derives G m w end.

  Lemma pd_sound : forall fuel l r r', In r' (pd G unf fuel l r) ->
    forall lw v, letter_word l lw -> rmatch G r' v -> rmatch G r (lw ++ v).
  Proof.
    induction fuel as [|n IH]; intros l r r' Hin lw v Hl Hm; simpl in Hin; [contradiction|].
    destruct r; try contradiction.
    - destruct s as [ks|m].
      + destruct l as [k|m']; try contradiction.
        destruct (existsb (tk_eqb k) ks) eqn:E; try contradiction.
        destruct Hin as [<-|[]]. apply match_eps_inv in Hm. subst v. simpl in Hl. subst lw.
        apply existsb_exists in E as (k' & Hk & E). apply tk_eqb_eq in E. subst k'.
        rewrite app_nil_r. now constructor.
      + apply in_app_or in Hin as [Hin|Hin].
        * destruct l as [k|m']; try contradiction.
          destruct (Nat.eqb m m') eqn:E; try contradiction.
          apply Nat.eqb_eq in E. subst m'. destruct Hin as [<-|[]].
          apply match_eps_inv in Hm. subst v. rewrite app_nil_r. exact Hl.
        * destruct (unf m); try contradiction.
          destruct (nth_error G m) as [rhs|] eqn:E; try contradiction.
          eapply MNT; eauto.
    - apply in_app_or in Hin as [Hin|Hin].
      + apply in_map_iff in Hin as (a' & <- & Hin).
        apply mk_seq_match in Hm as (v1 & v2 & -> & H1 & H2).
        rewrite app_assoc. constructor; auto. eapply IH; eauto.
      + destruct (nullable G unf n r1) eqn:E; try contradiction.
        apply nullable_sound in E.
        change (lw ++ v) with ([] ++ (lw ++ v)). constructor; auto. eapply IH; eauto.
    - apply in_app_or in Hin as [Hin|Hin]; [apply MAltL|apply MAltR]; eapply IH; eauto.
    - apply in_map_iff in Hin as (a' & <- & Hin).
      apply mk_seq_match in Hm as (v1 & v2 & -> & H1 & H2).
      rewrite app_assoc. constructor; auto. eapply IH; eauto.
  Qed.
End Sound.
