(** Non-vacuity of the hypotheses of the C16 / C07 / C12 theorems on a concrete session of the
    executable instance (segment-list paths), and the raw-API counterexample of C07.

    World: a.td includes b.td, c.td, itself and a missing file; b.td and c.td include d.td
    (diamond); d.td includes a.td (cycle).  On disk b.td has another text than in the editor. *)
From Coq Require Import List NArith Bool Lia Arith.
From TG.Model Require Import Includes Host HostInst.
From TG.Proofs Require Import IncludesGraph IncludesRefine HostIndex IncludesLinks HostHistory HostTheorems.
Import ListNotations.
Local Open Scope N_scope.

Definition pa : spath := [1]. Definition pb : spath := [2].
Definition pc : spath := [3]. Definition pd : spath := [4].
Definition pe : spath := [5].

Definition inc (lo : N) (s : spath) : item spath := IInc (lo, lo + 5) true (Some (s, (lo + 1, lo + 4))).

Definition ca : scontent :=
  {| c_tag := 1; c_items := [IDecl 10; inc 0 pb; inc 6 pc; inc 12 pa; inc 18 [9]] |}.
Definition cb_disk : scontent := {| c_tag := 2; c_items := [IDecl 21] |}.
Definition cb_editor : scontent := {| c_tag := 3; c_items := [inc 0 pd; IDecl 20] |}.
Definition cc : scontent := {| c_tag := 4; c_items := [inc 0 pd; IDecl 30] |}.
Definition cd : scontent := {| c_tag := 5; c_items := [IDecl 40; inc 0 pa] |}.
Definition ce : scontent := {| c_tag := 6; c_items := [IDecl 50] |}.
(* b.td with one more include, used by the raw-API counterexample *)
Definition cb_more : scontent := {| c_tag := 7; c_items := [inc 0 pd; inc 6 pe; IDecl 20] |}.

Definition ex_world : sworld :=
  mk_world [(pa, ca); (pb, cb_disk); (pc, cc); (pd, cd); (pe, ce)] [].

(** the editor opens b.td (with a text that differs from the disk), then a.td *)
Definition ex_hist : list (spath * scontent) := [(pb, cb_editor)].
Definition ex_R : list spath := [pa; pb; pc; pd].

Definition ex_state : sstate :=
  match run 10 ex_world st_init ex_hist with Done st => st | _ => st_init end.

Lemma ex_state_run : run 10 ex_world st_init ex_hist = Done ex_state.
Proof. vm_compute. reflexivity. Qed.

Definition mem_path (q : spath) (l : list spath) : bool := existsb (fun x => lN_eqb x q) l.

Lemma mem_path_in : forall q l, mem_path q l = true -> In q l.
Proof.
  intros q l H. unfold mem_path in H. apply existsb_exists in H. destruct H as [x [Hx E]].
  apply lN_eqb_ok in E. subst. exact Hx.
Qed.

(** the hypotheses of C16_terminates hold here: ex_R covers the reachable set, every reachable
    file has a parent, and the walk does return with the explicit fuel *)
Lemma ex_cover : forall q, reach (eff ex_world ex_state pa ca) (extra ex_world) pa q -> In q ex_R.
Proof.
  apply reach_closed.
  - left. reflexivity.
  - intros p sid q Hp Hs.
    assert (K : forallb (fun p => forallb (fun sq => mem_path (snd sq) ex_R)
                                          (succs (eff ex_world ex_state pa ca) (extra ex_world) p)) ex_R = true)
      by (vm_compute; reflexivity).
    rewrite forallb_forall in K. specialize (K p Hp). rewrite forallb_forall in K.
    apply mem_path_in. exact (K (sid, q) Hs).
Qed.

Lemma ex_parents : forall q, reach (eff ex_world ex_state pa ca) (extra ex_world) pa q -> parent q <> None.
Proof.
  intros q H. apply ex_cover in H.
  repeat (destruct H as [<-|H]; [cbn; discriminate|]). contradiction.
Qed.

Example ex_terminates_hyps :
  run 10 ex_world st_init ex_hist = Done ex_state /\
  (forall q, reach (eff ex_world ex_state pa ca) (extra ex_world) pa q -> In q ex_R) /\
  (forall q, reach (eff ex_world ex_state pa ca) (extra ex_world) pa q -> parent q <> None) /\
  fuel_bound (eff ex_world ex_state pa ca) (extra ex_world) ex_R = 11%nat.
Proof.
  split; [exact ex_state_run|]. split; [exact ex_cover|]. split; [exact ex_parents|].
  vm_compute. reflexivity.
Qed.

Definition ex_state' : sstate :=
  match touch 11 ex_world ex_state pa ca with Done st => st | _ => st_init end.

(** the state after selecting a.td: 4 files (cycle, diamond and self include inside), the missing
    include is not in the map, b.td holds the editor text *)
Example ex_touch :
  touch 11 ex_world ex_state pa ca = Done ex_state' /\
  option_map (fun v => (fst v, map (fun e => (e_path e, c_tag (e_content e), length (e_links e))) (snd v)))
             (view ex_state')
  = Some (pa, [(pd, 5, 1%nat); (pc, 4, 1%nat); (pb, 3, 1%nat); (pa, 1, 3%nat)]).
Proof. split; vm_compute; reflexivity. Qed.

Example ex_index :
  exists tr, index 5 (snd ex_state') = Done tr /\
             files_of tr = [2; 0; 1; 3] /\          (* a, b, d (through b), c: each once *)
             notfound_of 2 tr = [(18, 23)] /\ outline_of 1 tr = [40].
Proof. eexists. split; [vm_compute; reflexivity|]. vm_compute. repeat split. Qed.

Example ex_sids : forall c, In c [ca; cb_editor; cc; cd] -> NoDup (inc_sids (c_items c)).
Proof.
  intros c H. repeat (destruct H as [<-|H]; [cbn; repeat constructor; cbn; intuition discriminate|]).
  contradiction.
Qed.

(** C07: a history with several edits and a root switch, and the fresh host over the final texts:
    both runs return, so the hypotheses of the theorem are satisfiable; the common view is not trivial *)
Definition ex_hist7 : list (spath * scontent) :=
  [(pb, cb_more); (pa, ca); (pd, cd); (pb, cb_editor)].

Example ex_c07 :
  exists st1 st2,
    run 20 ex_world st_init (ex_hist7 ++ [(pa, ca)]) = Done st1 /\
    run 20 (overlay ex_world (ex_hist7 ++ [(pa, ca)])) st_init [(pa, ca)] = Done st2 /\
    option_map (fun v => length (snd v)) (view st1) = Some 4%nat /\
    ids (fst st1) <> ids (fst st2).           (* the FileIds differ, the views do not *)
Proof.
  eexists. eexists. split; [vm_compute; reflexivity|]. split; [vm_compute; reflexivity|].
  split; [vm_compute; reflexivity|]. vm_compute. discriminate.
Qed.

(** C07 does not extend to the raw AnalysisHost API (set_file_content without set_root_file, never
    used by the server): the include map of an edited included file is not refreshed *)
Definition raw_state : outcome sstate :=
  match touch 20 ex_world st_init pa ca with
  | Done st => Done (raw_set_content st pb cb_more)
  | OutOfFuel => OutOfFuel
  | Panic e => Panic e
  end.

Theorem raw_api_refuted :
  exists st1 st2,
    raw_state = Done st1 /\
    run 20 (overlay ex_world [(pa, ca); (pb, cb_more)]) st_init [(pa, ca)] = Done st2 /\
    view st1 <> view st2.
Proof.
  eexists. eexists. split; [vm_compute; reflexivity|]. split; [vm_compute; reflexivity|].
  intro H.
  apply (f_equal (option_map (fun v => length (snd v)))) in H. vm_compute in H. discriminate.
Qed.

(** C12: b.td is open with a text that differs from the disk and is reached only through the
    include of a.td: the database holds the editor text; c.td was never opened: the disk text *)
Example ex_c12 :
  exists st, run 11 ex_world st_init (ex_hist ++ [(pa, ca)]) = Done st /\
    disk ex_world pb = Some cb_disk /\
    option_map c_tag (fc (snd st) 0) = Some 3 /\      (* id 0 = b.td: editor text *)
    option_map c_tag (fc (snd st) 3) = Some 4.        (* id 3 = c.td: disk text *)
Proof. eexists. split; [vm_compute; reflexivity|]. vm_compute. repeat split. Qed.
