(** DiagLocal: the checks of index.rs that produce the diagnostics of the C13 fault classes, one lemma per
    check: WHEN the indexer executes the step at a faulty site it emits the diagnostic of that class on the
    range of the site (in the current file), and [diagnostics_persist]: a diagnostic, once emitted, is in the
    final list whatever is indexed afterwards (for all programs, fuels, states). *)
From Coq Require Import List NArith Bool Lia Arith.
From TG.Model Require Import CoreAst Scope BangOps Indexer.
From TG.Proofs Require Import ScopeBalance ScopeFrame GenericResp.
Import ListNotations.
Open Scope N_scope.

(** ---- the diagnostics list only grows *)
Definition diags_grow (s s' : st) : Prop := exists new, s_diags s' = new ++ s_diags s.
Lemma dg_refl : forall s, diags_grow s s. Proof. intros s; now exists []. Qed.
Lemma dg_trans : forall a b c, diags_grow a b -> diags_grow b c -> diags_grow a c.
Proof. intros a b c [n1 H1] [n2 H2]. exists (n2 ++ n1). now rewrite H2, H1, app_assoc. Qed.
Lemma dg_same : forall A (m : M A), (forall s, s_diags (snd (m s)) = s_diags s) -> resp diags_grow m.
Proof. intros A m H s. exists []. apply H. Qed.
Lemma diags_add_pos : forall r id s, s_diags (add_pos r id s) = s_diags s.
Proof. intros r id s. unfold add_pos. destruct (rng_empty r); reflexivity. Qed.

Ltac dg_prim :=
  intros;
  match goal with
  | |- resp diags_grow (error _ _) => let s := fresh "s" in intros s; eexists [_]; reflexivity
  | _ => apply dg_same; let s := fresh "s" in intros s;
         unfold add_reference, add_record, add_leaf, add_defset, add_multiclass, record_mut, multiclass_mut,
           pop_scope, pop_file, scopes_add_variable, bind, upd, add_leaf; simpl;
         rewrite ?diags_add_pos;
         repeat match goal with |- context [match ?x with _ => _ end] => destruct x end;
         simpl; rewrite ?diags_add_pos; reflexivity
  end.

Lemma dg_index_stmt : forall files n x, resp diags_grow (index_stmt files n x).
Proof. apply (r_index_stmt diags_grow dg_refl dg_trans); dg_prim. Qed.
Lemma dg_index_value : forall n v, resp diags_grow (index_value n v).
Proof. apply (r_index_value diags_grow dg_refl dg_trans); dg_prim. Qed.
Lemma dg_index_item : forall n it, resp diags_grow (index_item n it).
Proof. apply (r_index_item diags_grow dg_refl dg_trans); dg_prim. Qed.
Lemma dg_index_ty : forall t, resp diags_grow (index_ty t).
Proof. apply (r_index_ty diags_grow dg_refl dg_trans); dg_prim. Qed.

Lemma dg_In : forall s s' d, diags_grow s s' -> In d (s_diags s) -> In d (s_diags s').
Proof. intros s s' d [new E] H. rewrite E. apply in_or_app. now right. Qed.

(** a diagnostic present at some point of the indexing of a file is in the final list *)
Theorem diagnostics_persist : forall files n l s d,
    In d (s_diags s) -> In d (s_diags (snd (iterM (index_stmt files n) l s))).
Proof.
  intros files n l s d H. eapply dg_In; [|exact H].
  apply (resp_iterM diags_grow dg_refl dg_trans). intros; apply dg_index_stmt.
Qed.

Definition here_rng (s : st) (r : rng) : rng := mkR (current_file s) (r_lo r) (r_hi r).

(** ---- undefined class: type position, parent position, class-value position *)
Theorem undefined_class_in_type : forall i s,
    find_class s (i_name i) = None ->
    index_ty (TyClass i) s = (None, set_diags ((here_rng s (i_rng i), DClassNotFound) :: s_diags s) s).
Proof. intros i s H. simpl. unfold bind, here, state, get; simpl. rewrite H. reflexivity. Qed.

Theorem undefined_class_as_parent : forall n i args r s,
    find_class s (i_name i) = None ->
    resolve_class_ref_as_class n (CRef i args r) s
    = (None, set_diags ((here_rng s (i_rng i), DClassNotFound) :: s_diags s) s).
Proof. intros n i args r s H. simpl. unfold bind, here, state, get; simpl. rewrite H. reflexivity. Qed.

Theorem undefined_class_as_value : forall n i args r s,
    find_class s (i_name i) = None ->
    index_simple (S n) (SClassVal i args r) s
    = (None, set_diags ((here_rng s (i_rng i), DClassNotFound) :: s_diags s) s).
Proof. intros n i args r s H. simpl. unfold bind, here, state, get; simpl. rewrite H. reflexivity. Qed.

Theorem undefined_multiclass : forall n i args r s,
    find_multiclass s (i_name i) = None ->
    resolve_class_ref_as_multiclass n (CRef i args r) s
    = (None, set_diags ((here_rng s (i_rng i), DMulticlassNotFound) :: s_diags s) s).
Proof. intros n i args r s H. simpl. unfold bind, here, state, get; simpl. rewrite H. reflexivity. Qed.

Theorem undefined_identifier : forall n i s,
    resolve_id s (i_name i) = None -> name_eqb (i_name i) name_NAME = false ->
    index_simple (S n) (SId i) s
    = (None, set_diags ((here_rng s (i_rng i), DSymbolNotFound) :: s_diags s) s).
Proof. intros n i s H Hn. simpl. unfold bind, here, state, get; simpl. rewrite H, Hn. reflexivity. Qed.

Theorem undefined_include : forall files n r s,
    index_stmt files (S n) (SInclude r None) s
    = (None, set_diags ((here_rng s r, DIncludeNotFound) :: s_diags s) s).
Proof. intros. reflexivity. Qed.

(** ---- template arguments *)
Theorem surplus_template_argument : forall s targs args r,
    (length targs < length args)%nat -> check_template_args s targs args r = [(r, DTooManyArgs)].
Proof.
  intros s targs args r H. unfold check_template_args, argv, dg in *.
  destruct (Nat.ltb_spec (length targs) (length args)); [reflexivity|lia].
Qed.

Lemma cta_loop_cons : forall s targs k unsolved x rest,
    exists d u', fst (cta_loop s targs k unsolved (x :: rest)) = d ++ fst (cta_loop s targs (S k) u' rest).
Proof.
  intros. simpl. destruct x as [[[onm t0] r0]|]; [|exists [], unsolved; reflexivity].
  destruct onm as [nm|].
  - destruct (remove_name nm unsolved) as [was u'] eqn:Er. destruct was.
    + destruct (find_targ nm targs) as [a|]; simpl.
      * destruct (cta_loop s targs (S k) u' rest) eqn:E. simpl.
        exists (if can_cast s t0 (lf_ty a) then [] else [(r0, DArgType)]), u'. now rewrite E.
      * destruct (cta_loop s targs (S k) u' rest) eqn:E. simpl. exists [], u'. now rewrite E.
    + destruct (find_targ nm targs) as [a|]; simpl;
        destruct (cta_loop s targs (S k) u' rest) eqn:E; simpl.
      * exists [(r0, DArgOnce)], u'. now rewrite E.
      * exists [(r0, DArgNotExist)], u'. now rewrite E.
  - destruct (nth_error targs k) as [a|]; simpl.
    + destruct (cta_loop s targs (S k) (snd (remove_name (lf_name a) unsolved)) rest) eqn:E. simpl.
      exists (if can_cast s t0 (lf_ty a) then [] else [(r0, DArgType)]), (snd (remove_name (lf_name a) unsolved)).
      now rewrite E.
    + destruct (cta_loop s targs (S k) unsolved rest) eqn:E. simpl. exists [], unsolved. now rewrite E.
Qed.

Lemma cta_loop_arg_type : forall s targs args k unsolved j vty vr a,
    nth_error args j = Some (Some (None, vty, vr)) -> nth_error targs (k + j) = Some a ->
    can_cast s vty (lf_ty a) = false ->
    In (vr, DArgType) (fst (cta_loop s targs k unsolved args)).
Proof.
  intros s targs args. induction args as [|x rest IH]; intros k unsolved j vty vr a Hj Ha Hc.
  - destruct j; discriminate.
  - destruct j as [|j]; simpl in Hj.
    + injection Hj as ->. simpl. rewrite Nat.add_0_r in Ha. rewrite Ha, Hc.
      destruct (cta_loop s targs (S k) (snd (remove_name (lf_name a) unsolved)) rest). simpl. now left.
    + assert (Ha' : nth_error targs (S k + j) = Some a) by (now rewrite <- plus_n_Sm in Ha).
      destruct (cta_loop_cons s targs k unsolved x rest) as [d [u' E]]. unfold dg, argv in *. rewrite E.
      apply in_or_app. right. apply (IH (S k) u' j vty vr a Hj Ha' Hc).
Qed.

Theorem incompatible_template_argument : forall s targs args r j vty vr a,
    (length args <= length targs)%nat ->
    nth_error args j = Some (Some (None, vty, vr)) -> nth_error targs j = Some a ->
    can_cast s vty (lf_ty a) = false ->
    In (vr, DArgType) (check_template_args s targs args r).
Proof.
  intros s targs args r j vty vr a Hlen Hj Ha Hc. unfold check_template_args, argv, dg in *.
  destruct (Nat.ltb_spec (length targs) (length args)); [lia|].
  pose proof (cta_loop_arg_type s targs args 0 (map lf_name targs) j vty vr a Hj Ha Hc) as G.
  destruct (cta_loop s targs 0 (map lf_name targs) args). simpl in G. apply in_or_app. now left.
Qed.

(** ---- operator arity *)
Lemma trace_index_ty : forall t s, s_trace (snd (index_ty t s)) = s_trace s.
Proof.
  induction t; intros s; simpl; try reflexivity.
  - unfold bind. specialize (IHt s). destruct (index_ty t s) as [[x|] s1]; simpl in *; assumption.
  - unfold bind, here, state, get; simpl. destruct (find_class s (i_name i)); simpl; [|reflexivity].
    unfold seq, add_reference, upd; simpl. unfold add_pos. destruct (rng_empty _); reflexivity.
Qed.

Lemma trace_err : forall r k s, s_trace (snd (err r k s)) = s_trace s.
Proof. intros. reflexivity. Qed.
Lemma trace_index_annot : forall op an r s, s_trace (snd (index_annot op an r s)) = s_trace s.
Proof.
  intros op an r s. unfold index_annot.
  destruct (bang_annot op); destruct an as [[t tr]|]; simpl; try reflexivity.
  - unfold try_. pose proof (trace_index_ty t s). destruct (index_ty t s); assumption.
  - unfold try_. pose proof (trace_index_ty t s). destruct (index_ty t s); assumption.
Qed.
Lemma dg_index_bang_ops : forall n op a vs r, resp diags_grow (index_bang_ops n op a vs r).
Proof. apply (r_index_bang_ops diags_grow dg_refl dg_trans); dg_prim. Qed.
Lemma dg_index_annot : forall op an r, resp diags_grow (index_annot op an r).
Proof. apply (r_index_annot diags_grow dg_refl dg_trans); dg_prim. Qed.

Theorem wrong_operator_arity : forall n op annot vs r s,
    arity_ok (bang_arity op) (length vs) = false ->
    In (here_rng s r, DArity) (s_diags (snd (index_bang (S n) op annot vs r s))).
Proof.
  intros n op annot vs r s H. simpl. unfold bind.
  pose proof (trace_index_annot op annot r s) as Ht.
  destruct (index_annot op annot r s) as [[a|] s1] eqn:E; simpl in *.
  - unfold seq. eapply dg_In; [apply dg_index_bang_ops|].
    unfold check_arity. rewrite H. simpl. left. unfold here_rng, current_file. now rewrite Ht.
  - (* index_annot always returns a value *)
    exfalso. unfold index_annot in E.
    destruct (bang_annot op); destruct annot as [[t tr]|]; simpl in E; unfold seq, try_ in E; simpl in E;
      try discriminate; destruct (index_ty t s); discriminate.
Qed.

(** ---- type-incompatible initialiser / override *)
Theorem incompatible_field_initialiser : forall n t i v s rid typ s1 vt s4,
    current_record_id s = Some rid -> nthN (s_recs s) rid <> None ->
    index_ty t s = (Some typ, s1) ->
    s_recs s1 = s_recs s ->
    (forall s2 fid s3, add_leaf (mkLeaf LField (i_name i) typ false (here_rng s (i_rng i))) s1 = (Some fid, s2) ->
                       snd (record_mut rid (rec_add_field (i_name i) fid) s2) = s3 ->
                       index_value n v s3 = (Some vt, s4)) ->
    can_cast s4 vt typ = false ->
    In (here_rng s4 (value_rng v), DFieldIncompat) (s_diags (snd (index_item n (IField t i (Some v)) s))).
Proof.
  intros n t i v s rid typ s1 vt s4 Hr Hv Hty Hrecs Hval Hc.
  simpl. unfold bind at 1, state at 1, get; simpl. rewrite Hr.
  unfold bind at 1, here at 1, get; simpl.
  unfold bind at 1. rewrite Hty.
  unfold bind at 1.
  destruct (add_leaf (mkLeaf LField (i_name i) typ false
             {| r_file := current_file s; r_lo := r_lo (i_rng i); r_hi := r_hi (i_rng i) |}) s1) as [[fid|] s2] eqn:El.
  2:{ unfold add_leaf in El. discriminate. }
  unfold seq at 1.
  specialize (Hval s2 fid _ El eq_refl).
  unfold bind at 1, lift at 1. unfold bind at 1. rewrite Hval.
  unfold bind at 1, state at 1, get; simpl. rewrite Hc. simpl. now left.
Qed.

(** ---- syntax errors: every error of the parser (of every workspace file) is reported *)
Theorem syntax_error_reported : forall w r, In r (ws_perrs w) -> In (r, DSyntax) (diagnostics w).
Proof.
  intros w r H. unfold diagnostics. apply in_or_app. left. apply in_map_iff. now exists r.
Qed.

(** ---- missing template argument *)
Lemma remove_name_keeps : forall x u nm,
    In nm u -> name_eqb x nm = false -> In nm (snd (remove_name x u)).
Proof.
  intros x u nm. induction u as [|y r IH]; intros Hin Hne; [destruct Hin|].
  simpl. destruct (name_eqb x y) eqn:E.
  - destruct Hin as [->|Hin]; [congruence|exact Hin].
  - destruct (remove_name x r) as [b r'] eqn:Er. simpl in *.
    destruct Hin as [->|Hin]; [now left|right; now apply IH].
Qed.

Definition positional (a : option argv) : bool :=
  match a with Some (None, _, _) => true | _ => false end.

Lemma cta_loop_unsolved : forall s targs args k u nm,
    forallb positional args = true -> In nm u ->
    (forall i a', (k <= i < k + length args)%nat -> nth_error targs i = Some a' -> name_eqb (lf_name a') nm = false) ->
    In nm (snd (cta_loop s targs k u args)).
Proof.
  intros s targs args. induction args as [|x rest IH]; intros k u nm Hp Hin Hd; [exact Hin|].
  simpl in Hp. apply andb_true_iff in Hp. destruct Hp as [Hx Hp].
  destruct x as [[[[n0|] t0] r0]|]; try discriminate.
  simpl. destruct (nth_error targs k) as [a|] eqn:Ek.
  - destruct (cta_loop s targs (S k) (snd (remove_name (lf_name a) u)) rest) as [d3 u3] eqn:E3. simpl.
    replace u3 with (snd (cta_loop s targs (S k) (snd (remove_name (lf_name a) u)) rest)) by now rewrite E3.
    apply IH; auto.
    + apply remove_name_keeps; auto. apply (Hd k a); [cbn [length]; lia|exact Ek].
    + intros i a' Hi. apply Hd. cbn [length]. lia.
  - destruct (cta_loop s targs (S k) u rest) as [d3 u3] eqn:E3. simpl.
    replace u3 with (snd (cta_loop s targs (S k) u rest)) by now rewrite E3.
    apply IH; auto. intros i a' Hi. apply Hd. cbn [length]. lia.
Qed.

Lemma name_eqb_refl : forall n, name_eqb n n = true.
Proof. induction n as [|x r IH]; simpl; [reflexivity|]. now rewrite N.eqb_refl, IH. Qed.

Theorem missing_template_argument : forall s targs args r a,
    forallb positional args = true -> (length args <= length targs)%nat ->
    In a targs -> lf_default a = false ->
    (* the name of [a] is not the name of one of the arguments that are given (positions < length args) ... *)
    (forall i a', (i < length args)%nat -> nth_error targs i = Some a' -> name_eqb (lf_name a') (lf_name a) = false) ->
    (* ... and no template argument of that name has a default *)
    (forall a', In a' targs -> name_eqb (lf_name a') (lf_name a) = true -> lf_default a' = false) ->
    In (r, DArgMissing) (check_template_args s targs args r).
Proof.
  intros s targs args r a Hp Hlen Hin Hnd Hdiff Hall. unfold check_template_args, argv, dg in *.
  destruct (Nat.ltb_spec (length targs) (length args)); [lia|].
  pose proof (cta_loop_unsolved s targs args 0 (map lf_name targs) (lf_name a) Hp) as G.
  destruct (cta_loop s targs 0 (map lf_name targs) args) as [d un]. simpl in G.
  apply in_or_app. right. apply in_flat_map. exists (lf_name a). split.
  - apply G; [now apply in_map|]. intros i a' Hi. apply Hdiff. destruct Hi as [_ Hi]. simpl in Hi. exact Hi.
  - unfold find_targ. destruct (find (fun a0 => name_eqb (lf_name a0) (lf_name a)) targs) as [a'|] eqn:Ef.
    + apply find_some in Ef. destruct Ef as [Hi He]. rewrite (Hall a' Hi He). now left.
    + exfalso. pose proof (find_none _ _ Ef a Hin) as Hc. simpl in Hc. rewrite name_eqb_refl in Hc. discriminate.
Qed.
