(** IndexerSim (group symmap, bridge to group scope): the symbol-map state [abs s] that a state [s] of the indexer
    model stands for (model/IndexerOps.v) satisfies the invariants of the symbol-map theorems whenever [s] is valid
    (proofs/IndexerValid.v) -- and every state the indexer model reaches is valid.  Hence the conclusions of
    C03_symbol_map_total_partial hold for the indexer model's result on EVERY workspace, with no hypothesis on an
    op log. *)
From Coq Require Import List Arith NArith Bool Lia.
From TG.Model Require Import CoreAst Scope BangOps Indexer IndexerOps.
From TG.Model Require SymbolMap SymbolWf.
From TG.Proofs Require Import IndexerValid.
From TG.Proofs Require SymbolMapBasics SymbolOps SymbolIds.
Import ListNotations.
Open Scope N_scope.

Module SM := SymbolMap.
Module B := SymbolMapBasics.
Module W := SymbolWf.
Module I := SymbolIds.

(** ---- indexed lists *)
Lemma indexed_from_length : forall A (l : list A) i, length (indexed_from i l) = length l.
Proof. induction l as [|x r IH]; intros i; cbn; [reflexivity|rewrite IH; reflexivity]. Qed.
Lemma nth_indexed_from : forall A (l : list A) i n,
  nth_error (indexed_from i l) n = option_map (fun x => (i + N.of_nat n, x)) (nth_error l n).
Proof.
  induction l as [|x r IH]; intros i n; destruct n; cbn; try reflexivity.
  - rewrite N.add_0_r. reflexivity.
  - rewrite IH. destruct (nth_error r n); cbn; [|reflexivity]. f_equal. f_equal. lia.
Qed.
Lemma nthN_indexed : forall A (l : list A) i, nthN (indexed l) i = option_map (fun x => (i, x)) (nthN l i).
Proof.
  intros A l i. unfold nthN, indexed. rewrite nth_indexed_from. rewrite Nnat.N2Nat.id. reflexivity.
Qed.
Lemma nthN_map : forall A B (f : A -> B) l i, nthN (map f l) i = option_map f (nthN l i).
Proof. intros. unfold nthN. apply nth_error_map. Qed.

(** ---- arenas of [abs] *)
Lemma get_rec_abs : forall s i,
  SM.get_entry (abs s) (SM.KRecord, i) = option_map (rec_entry s i) (nthN (s_recs s) i).
Proof.
  intros s i. unfold SM.get_entry, SM.nth_N. cbn [fst snd abs SM.get_arena SM.sm_records]. unfold arena_recs.
  change (nth_error (map (fun p => rec_entry s (fst p) (snd p)) (indexed (s_recs s))) (N.to_nat i))
    with (nthN (map (fun p => rec_entry s (fst p) (snd p)) (indexed (s_recs s))) i).
  rewrite nthN_map, nthN_indexed. destruct (nthN (s_recs s) i); reflexivity.
Qed.
Lemma next_rec_abs : forall s, SM.next_id (abs s) SM.KRecord = nrec s.
Proof.
  intros s. unfold SM.next_id, SM.len_N, nrec, lenN. cbn [abs SM.get_arena SM.sm_records]. unfold arena_recs, indexed.
  rewrite map_length, indexed_from_length. reflexivity.
Qed.
Lemma next_mc_abs : forall s, SM.next_id (abs s) SM.KMulticlass = nmc s.
Proof.
  intros s. unfold SM.next_id, SM.len_N, nmc, lenN. cbn [abs SM.get_arena SM.sm_multiclasses]. unfold arena_mcs, indexed.
  rewrite map_length, indexed_from_length. reflexivity.
Qed.

Lemma leafkind_eqb_refl : forall k, leafkind_eqb k k = true.
Proof. destruct k; reflexivity. Qed.

Lemma filter_indexed_length : forall k (l : list leaf) i,
  N.of_nat (length (filter (fun p : N * leaf => leafkind_eqb (lf_kind (snd p)) k) (indexed_from i l))) = count_kind k l.
Proof.
  intros k. induction l as [|x r IH]; intros i; cbn [indexed_from filter count_kind length]; [reflexivity|].
  cbn [snd]. destruct (leafkind_eqb (lf_kind x) k); cbn [length]; rewrite <- (IH (i + 1)); lia.
Qed.
Lemma next_leaf_abs : forall s k, SM.next_id (abs s) (lk_kind k) = count_kind k (s_leaves s).
Proof.
  intros s k. unfold SM.next_id, SM.len_N.
  assert (H : SM.get_arena (abs s) (lk_kind k) = arena_leaves s k) by (destruct k; reflexivity).
  rewrite H. unfold arena_leaves. rewrite map_length. apply filter_indexed_length.
Qed.

Lemma count_kind_firstn_lt : forall k (l : list leaf) n x,
  nth_error l n = Some x -> lf_kind x = k -> count_kind k (firstn n l) < count_kind k l.
Proof.
  intros k. induction l as [|y r IH]; intros n x E Hk; destruct n; cbn in E; try discriminate.
  - inversion E. subst. cbn. rewrite leafkind_eqb_refl. lia.
  - cbn [firstn count_kind]. specialize (IH n x E Hk). lia.
Qed.

(** every allocated id of the indexer model is an allocated id of [abs] *)
Lemma sid_of_valid : forall s id, sym_ok s id -> W.valid_id (abs s) (fst (sid_of s id)) (snd (sid_of s id)) = true.
Proof.
  intros s id H. unfold W.valid_id. apply N.ltb_lt. destruct id as [i|i|i]; cbn [sid_of fst snd].
  - rewrite next_rec_abs. exact H.
  - rewrite next_mc_abs. exact H.
  - cbn in H. unfold leaf_sid. destruct (nthN (s_leaves s) i) as [l|] eqn:E.
    + cbn [fst snd]. rewrite next_leaf_abs. eapply count_kind_firstn_lt; [exact E|reflexivity].
    + exfalso. unfold nthN in E. apply nth_error_None in E. unfold nleaf, lenN in H. lia.
Qed.

(** ---- the interval maps of [abs]: every entry stems from an entry of the position log *)
Lemma posf_pos_ins : forall S P loc sid f x,
  SM.sm_pos S = pos_ins P loc sid -> In x (B.posf S f) ->
  x = (SM.fr_lo loc, SM.fr_hi loc, sid) \/
  In x (match SM.fmap_get P f with Some m => m | None => [] end).
Proof.
  intros S P loc sid f x HS Hin. unfold B.posf in Hin. rewrite HS in Hin. unfold pos_ins in Hin.
  destruct (SM.fr_is_empty loc); [right; exact Hin|].
  rewrite B.fmap_get_set in Hin. destruct (SM.fr_file loc =? f) eqn:Ef; [|right; exact Hin].
  apply N.eqb_eq in Ef. subst f. apply B.In_ivl_insert in Hin. exact Hin.
Qed.

Lemma abs_pos_entries : forall s log f x,
  In x (match SM.fmap_get (fold_right (fun e P => pos_ins P (cv (fst e)) (sid_of s (snd e))) [] log) f with
        | Some m => m | None => [] end) ->
  exists e, In e log /\ snd x = sid_of s (snd e) /\ r_file (fst e) = f /\ fst (fst x) = r_lo (fst e) /\ snd (fst x) = r_hi (fst e).
Proof.
  intros s. induction log as [|e log IH]; intros f x Hin; cbn [fold_right] in Hin; [destruct Hin|].
  set (P := fold_right (fun e P => pos_ins P (cv (fst e)) (sid_of s (snd e))) [] log) in *.
  unfold pos_ins in Hin. destruct (SM.fr_is_empty (cv (fst e))).
  - destruct (IH f x Hin) as (e0 & H0 & H1). exists e0. split; [right; exact H0|exact H1].
  - rewrite B.fmap_get_set in Hin. cbn [cv SM.fr_file SM.fr_lo SM.fr_hi] in Hin.
    destruct (r_file (fst e) =? f) eqn:Ef.
    + apply N.eqb_eq in Ef. apply B.In_ivl_insert in Hin. destruct Hin as [Hin|Hin].
      * exists e. subst x. cbn. split; [left; reflexivity|]. repeat split; auto.
      * rewrite Ef in Hin. destruct (IH f x Hin) as (e0 & H0 & H1). exists e0. split; [right; exact H0|exact H1].
    + destruct (IH f x Hin) as (e0 & H0 & H1). exists e0. split; [right; exact H0|exact H1].
Qed.

(** ---- IdsInv of [abs] *)
Theorem abs_ids_inv : forall s, Valid s -> I.IdsInv (abs s).
Proof.
  intros s Hv. split.
  - intros f lo hi sid Hin. unfold B.posf in Hin. cbn [abs SM.sm_pos] in Hin. unfold abs_pos in Hin.
    destruct (abs_pos_entries s (s_pos s) f (lo, hi, sid) Hin) as (e & He & Hs & _). cbn [snd] in Hs. subst sid.
    apply sid_of_valid. pose proof (v_pos _ _ _ _ Hv) as Hp. rewrite Forall_forall in Hp. apply (Hp e He).
  - intros r e He p Hin. rewrite get_rec_abs in He. destruct (nthN (s_recs s) r) as [rc|] eqn:Er; [|discriminate].
    inversion He. subst e. cbn in Hin.
    pose proof (nthN_Forall _ _ _ _ _ (v_recs _ _ _ _ Hv) Er) as (_ & _ & Hps). rewrite Forall_forall in Hps.
    unfold W.valid_id. apply N.ltb_lt. rewrite next_rec_abs. apply Hps. exact Hin.
Qed.

(** ---- C03 for the Core fragment: no hypothesis on an op log *)
Theorem c03_symbol_map_total_core : forall w,
  let S := abs (index_ws w) in
  (forall f p, exists o, SM.find_symbol_at S f p = SM.SOk o) /\
  (forall f p, exists o, SM.goto_definition S f p = SM.SOk o) /\
  (forall f p, exists o, SM.references S f p = SM.SOk o) /\
  (forall loc, exists o, SM.iter_symbols_in_range S loc = SM.SOk o) /\
  (forall r n, r < SM.next_id S SM.KRecord ->
     exists o, SM.find_field (Datatypes.S (length (SM.sm_records S))) S r n = SM.SOk o) /\
  (forall r other, r < SM.next_id S SM.KRecord ->
     exists b, SM.is_subclass_of (Datatypes.S (length (SM.sm_records S))) S r other = SM.SOk b) /\
  (forall r n, r < SM.next_id S SM.KRecord ->
     (fst (SM.find_field_calls (Datatypes.S (length (SM.sm_records S))) S r n []) <= Datatypes.S (length (SM.sm_records S)))%nat).
Proof.
  intros w S. pose proof (abs_ids_inv _ (index_ws_valid w)) as HI. fold S in HI.
  split; [intros; apply I.find_symbol_at_ok; exact HI|].
  split; [intros; apply I.goto_definition_ok; exact HI|].
  split; [intros; apply I.references_ok; exact HI|].
  split; [intros; apply I.iter_symbols_in_range_ok|].
  assert (Hent : forall r, r < SM.next_id S SM.KRecord -> exists e, SM.get_entry S (SM.KRecord, r) = Some e).
  { intros r Hr. apply I.valid_record_entry. unfold W.valid_id. apply N.ltb_lt. exact Hr. }
  split; [|split].
  - intros r n Hr. destruct (Hent r Hr) as [e He]. eapply I.find_field_ok; eassumption.
  - intros r other Hr. destruct (Hent r Hr) as [e He]. eapply I.is_subclass_of_ok; eassumption.
  - intros r n Hr. destruct (Hent r Hr) as [e He]. eapply I.find_field_work_bound; eassumption.
Qed.
