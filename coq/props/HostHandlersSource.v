(** The model IS the source: handlers/document_link.rs `exec` and handlers/diagnostics.rs `exec` (group outline's translator
    t_handlers.py -> coq/gen/GenHandlersHost.v, regenerated on every run).
    ONLY theorem statements (each closed by [exact <lemma of proofs/>]), [Check] pins, [Print Assumptions].
    Database = [HandlerHostApi.host_db]: the salsa queries the two handlers read (resolved_include_map, parse, source_root().iter_files(),
    index().diagnostics()); HashMap<FileId, _> = association list, spoken about per key. *)
From Coq Require Import List NArith Bool.
From TG.Gen Require Import GenHandlersHost.
From TG.Model Require Import Chars SymbolMap Includes HandlerApi HandlerSymApi HandlerHostApi.
From TG.Model Require Host Pipeline CoreAst Scope Indexer.
From TG.Proofs Require Import GenHandlersHostEq.
Import ListNotations.
Open Scope N_scope.

(** document links: the rendering equals group host's [Host.links_of] (the include items of the file whose id is in the resolved map,
    with the link range, in document order) over group bridge's item abstraction [Pipeline.include_items] of the parsed tree
    (Include descendants in document order; path through the GENERATED accessor table; link range = utils::range_excluding_trivia)
    -- for ALL databases and files; hence it is [Host.document_link] of every input database that holds these values. *)
Theorem Links_model_is_source :
  (forall db f, src_document_link_exec db f =
                Some (Host.links_of (hdb_rim db f) (Pipeline.include_items (fst (hdb_parse db f))))) /\
  (forall (db : host_db) (hdb : @inputs Pipeline.fpath text) f c,
     rim hdb f = Some (hdb_rim db f) -> fc hdb f = Some c -> c_items c = Pipeline.include_items (fst (hdb_parse db f)) ->
     exists l, src_document_link_exec db f = Some l /\ Host.document_link hdb f = Includes.Done l).
Proof. split; [exact src_document_link_exec_eq|exact links_model_is_source]. Qed.
Check Links_model_is_source :
  (forall db f, src_document_link_exec db f =
                Some (Host.links_of (hdb_rim db f) (Pipeline.include_items (fst (hdb_parse db f))))) /\
  (forall (db : host_db) (hdb : @inputs Pipeline.fpath text) f c,
     rim hdb f = Some (hdb_rim db f) -> fc hdb f = Some c -> c_items c = Pipeline.include_items (fst (hdb_parse db f)) ->
     exists l, src_document_link_exec db f = Some l /\ Host.document_link hdb f = Includes.Done l).
Print Assumptions Links_model_is_source.

(** diagnostics: the rendering returns the map [diag_map db] (seed every workspace file with the empty list, then push every
    diagnostic of [all_diags db] = the parse errors of EVERY workspace file in `iter_files` order (fix f7fce69) ++ the index
    diagnostics, under its own file).  Per key: a file is a key iff it is a workspace file or has a diagnostic, and its value is the
    sublist of [all_diags db] of that file, in that order.  Combination of the two hand models: the keys contain every file of
    group host's [Host.workspace]; projected to (range, class) the reported list is group scope's [Indexer.diagnostics w]
    whenever the database's parse errors / index diagnostics are the workspace's. *)
Theorem Diagnostics_model_is_source :
  (forall db, src_diagnostics_exec db = Done (diag_map db)) /\
  (forall db f, hm_get (diag_map db) f =
                if existsb (fun g => g =? f) (hdb_files db) || existsb (of_file f) (all_diags db)
                then Some (filter (of_file f) (all_diags db)) else None) /\
  (forall (db : host_db) (hdb : @inputs Pipeline.fpath text) fset,
     Host.workspace hdb = Some fset -> hdb_files db = map fst fset ->
     forall f, In f (map fst fset) -> exists l, hm_get (diag_map db) f = Some l /\ l = filter (of_file f) (all_diags db)) /\
  (forall (db : host_db) (w : CoreAst.workspace) (cls : text -> Scope.dkind),
     map (fun d : diag => (rng_of (fst d), cls (snd d))) (parse_diags db) = map (fun r => (r, Scope.DSyntax)) (CoreAst.ws_perrs w) ->
     map (fun d : diag => (rng_of (fst d), cls (snd d))) (hdb_index_diags db) = rev (Scope.s_diags (Indexer.index_ws w)) ->
     map (fun d : diag => (rng_of (fst d), cls (snd d))) (all_diags db) = Indexer.diagnostics w).
Proof.
  split; [exact src_diagnostics_exec_eq|]. split; [exact diag_map_get|].
  split; [exact diagnostics_keys_workspace|exact diagnostics_values_indexer].
Qed.
Check Diagnostics_model_is_source :
  (forall db, src_diagnostics_exec db = Done (diag_map db)) /\
  (forall db f, hm_get (diag_map db) f =
                if existsb (fun g => g =? f) (hdb_files db) || existsb (of_file f) (all_diags db)
                then Some (filter (of_file f) (all_diags db)) else None) /\
  (forall (db : host_db) (hdb : @inputs Pipeline.fpath text) fset,
     Host.workspace hdb = Some fset -> hdb_files db = map fst fset ->
     forall f, In f (map fst fset) -> exists l, hm_get (diag_map db) f = Some l /\ l = filter (of_file f) (all_diags db)) /\
  (forall (db : host_db) (w : CoreAst.workspace) (cls : text -> Scope.dkind),
     map (fun d : diag => (rng_of (fst d), cls (snd d))) (parse_diags db) = map (fun r => (r, Scope.DSyntax)) (CoreAst.ws_perrs w) ->
     map (fun d : diag => (rng_of (fst d), cls (snd d))) (hdb_index_diags db) = rev (Scope.s_diags (Indexer.index_ws w)) ->
     map (fun d : diag => (rng_of (fst d), cls (snd d))) (all_diags db) = Indexer.diagnostics w).
Print Assumptions Diagnostics_model_is_source.
