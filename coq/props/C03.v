(** C03 Analysis totality: every IDE query answers on every workspace state.

    FULL STATEMENT (DESIGN C03_no_panic), kept visible:
      forall ws (wf : acyclic_includes ws) q, query_model ws q <> Panic /\ query_model ws q <> OutOfFuel
    for q over the nine query kinds at every offset, query_model = parse -> collect -> index -> handler.

    PROVED HERE (`_partial`): the symbol-map layer.  For ALL op sequences (the calls the indexer makes, hook H3)
    satisfying the id side conditions [ops_ids_wf] (every id passed was allocated, `x.add_*` follows the matching
    `x_mut`, and `record.add_parent p` on record r has p < r -- CHECKED on the real op log of every generated
    workspace): no op panics; the read-only API and the handlers that only read the map (find_symbol_at,
    goto_definition, references, iter_symbols_in_range with the guard of fix 751cf5a) never panic at any
    position / range; and the recursion through `parent_list` (`find_field`, `is_subclass_of`) terminates
    within fuel = number of records for every record and name (parents are strictly older, so the relation is
    well founded; mutual recursion is impossible because a redefinition allocates a new record).
    The two fixes are shown necessary: without the guard of 751cf5a the empty range query panics in iset
    ([C03_unguarded_range_query_panics], D11); without the guard of fb9cd66 the log of `class A : A {…}` makes
    `find_field` diverge for every fuel ([C03_self_parent_diverges], D3).
    MISSING for the full statement: the indexer itself (scope-stack panic sites, bang-operator arms, tree
    navigation), hover / completion / document_symbol / folding / links, and the native stack.  Those stay an
    oracle: checks/C03.py runs ALL queries at ALL offsets on generated programs, every prefix, single-token
    edits and semantic stress patterns in a child process with a 2 MiB stack and a timeout. *)
From Coq Require Import List NArith.
From TG.Model Require Import Chars SymbolMap SymbolWf.
From TG.Proofs Require Import SymbolIds.
Import ListNotations.
Open Scope N_scope.

Theorem C03_symbol_map_total_partial : forall ops,
  ops_ids_wf ops = true ->
  exists S, run_ops ops = SOk S /\
    (forall f p, exists o, find_symbol_at S f p = SOk o) /\
    (forall f p, exists o, goto_definition S f p = SOk o) /\
    (forall f p, exists o, references S f p = SOk o) /\
    (forall loc, exists o, iter_symbols_in_range S loc = SOk o) /\
    (forall r n, r < next_id S KRecord -> exists o, find_field (length (sm_records S)) S r n = SOk o) /\
    (forall r other, r < next_id S KRecord -> exists b, is_subclass_of (length (sm_records S)) S r other = SOk b).
Proof. exact c03_symbol_map_total. Qed.

Theorem C03_unguarded_range_query_panics :
  exists S loc, iter_symbols_in_range_g false S loc = SErr EIntervalEmpty.
Proof. exact iter_symbols_in_range_unguarded_panics. Qed.

Theorem C03_self_parent_diverges :
  ops_ids_wf d3_ops = false /\
  exists S, run_ops d3_ops = SOk S /\ forall fuel, find_field fuel S 0 [121] = SErr EOutOfFuel.
Proof. exact c03_self_parent_diverges. Qed.

(** non-vacuity: `class A; class B : A; class A : B;` satisfies the hypothesis (the second A is a new record) *)
Theorem C03_nonvacuous : ops_ids_wf c03_ex_ops = true /\
  exists S, run_ops c03_ex_ops = SOk S /\ record_parents S 2 = [1] /\ record_parents S 1 = [0] /\ record_parents S 0 = [] /\
            is_subclass_of 3 S 2 0 = SOk true /\ is_subclass_of 3 S 0 2 = SOk false.
Proof. exact c03_ex. Qed.

Check C03_symbol_map_total_partial : forall ops,
  ops_ids_wf ops = true ->
  exists S, run_ops ops = SOk S /\
    (forall f p, exists o, find_symbol_at S f p = SOk o) /\
    (forall f p, exists o, goto_definition S f p = SOk o) /\
    (forall f p, exists o, references S f p = SOk o) /\
    (forall loc, exists o, iter_symbols_in_range S loc = SOk o) /\
    (forall r n, r < next_id S KRecord -> exists o, find_field (length (sm_records S)) S r n = SOk o) /\
    (forall r other, r < next_id S KRecord -> exists b, is_subclass_of (length (sm_records S)) S r other = SOk b).
Print Assumptions C03_symbol_map_total_partial.
Print Assumptions C03_unguarded_range_query_panics.
Print Assumptions C03_self_parent_diverges.
Print Assumptions C03_nonvacuous.

(** every panic site of the `ide` crate found in the CURRENT sources (tools/translate/t_panicsites.py) has a
    disposition in proofs/SymbolPanicSites.v (proved at op level / oracle / other property) *)
From TG.Proofs Require Import SymbolPanicSites.
Theorem C03_panic_sites_inventoried : all_sites_disposed = true.
Proof. exact panic_sites_disposed. Qed.
Print Assumptions C03_panic_sites_inventoried.
