(** C03 Analysis totality: every IDE query answers on every workspace state.

    FULL STATEMENT (DESIGN C03_no_panic), kept visible:
      forall ws (wf : acyclic_includes ws) q, query_model ws q <> Panic /\ query_model ws q <> OutOfFuel
    for q over the nine query kinds at every offset, query_model = parse -> collect -> index -> handler.

    PROVED HERE (`_partial`): the symbol-map layer.  For ALL op sequences (the calls the indexer makes, hook H3)
    satisfying the id side conditions [ops_ids_wf] (every id passed was allocated, `x.add_*` follows the matching
    `x_mut` -- CHECKED on the real op log of every generated workspace): no op panics; the read-only API and the
    handlers that only read the map (find_symbol_at, goto_definition, references, iter_symbols_in_range with the
    guard of fix 751cf5a) never panic at any position / range; and the recursion through `parent_list`
    (`find_field`, `is_subclass_of`, with the visited set of fix 1b571ae) terminates within depth
    (number of records + 1) and makes at most (number of records + 1) invocations, for every record and name and
    for EVERY parent relation (also a cyclic one: since 1b571ae the self-parent guard of fb9cd66 is no longer
    needed for termination).
    The fixes are shown necessary: without the guard of 751cf5a the empty range query panics in iset
    ([C03_unguarded_range_query_panics], D11); without the visited set the log of `class A : A {…}` makes
    `find_field_v0` diverge for every fuel ([C03_self_parent_diverges_v0], D3) and a 10-layer duplicate-parent
    chain costs 2047 instead of 11 invocations ([C03_diamond_exponential_v0], D35).
    MISSING for the full statement: the indexer itself (scope-stack panic sites, bang-operator arms, tree
    navigation), hover / completion / document_symbol / folding / links, and the native stack.  Those stay an
    oracle: checks/C03.py runs ALL queries at ALL offsets on generated programs, every prefix, single-token
    edits and semantic stress patterns in a child process with a 2 MiB stack and a timeout. *)
From Coq Require Import List NArith.
From TG.Model Require Import Chars SymbolMap SymbolWf.
From TG.Proofs Require Import SymbolIds.
Import ListNotations.
Open Scope N_scope.

Theorem C03_symbol_map_total_partial : forall ops,
  ops_ids_wf ops = true ->
  exists S, run_ops ops = SOk S /\
    (forall f p, exists o, find_symbol_at S f p = SOk o) /\
    (forall f p, exists o, goto_definition S f p = SOk o) /\
    (forall f p, exists o, references S f p = SOk o) /\
    (forall loc, exists o, iter_symbols_in_range S loc = SOk o) /\
    (forall r n, r < next_id S KRecord -> exists o, find_field (Datatypes.S (length (sm_records S))) S r n = SOk o) /\
    (forall r other, r < next_id S KRecord -> exists b, is_subclass_of (Datatypes.S (length (sm_records S))) S r other = SOk b) /\
    (* WORK bound (what defect D35 violated): at most (number of records + 1) invocations per lookup *)
    (forall r n, r < next_id S KRecord ->
       (fst (find_field_calls (Datatypes.S (length (sm_records S))) S r n []) <= Datatypes.S (length (sm_records S)))%nat).
Proof. exact c03_symbol_map_total. Qed.

Theorem C03_unguarded_range_query_panics :
  exists S loc, iter_symbols_in_range_g false S loc = SErr EIntervalEmpty.
Proof. exact iter_symbols_in_range_unguarded_panics. Qed.

(** D3: before fix 1b571ae (no visited set) the log of `class A : A {..}` without the guard of fb9cd66 made
    `find_field` diverge for EVERY fuel; with the visited set the same state is harmless. *)
Theorem C03_self_parent_diverges_v0 :
  exists S, run_ops d3_ops = SOk S /\ (forall fuel, find_field_v0 fuel S 0 [121] = SErr EOutOfFuel) /\
            find_field 2 S 0 [121] = SOk None /\ is_subclass_of 2 S 0 0 = SOk true.
Proof. exact c03_self_parent_diverges_v0. Qed.

(** D35: before fix 1b571ae a chain `class C0 { int a; } class Ci : Ci-1, Ci-1;` (i = 1..10) and a failing lookup
    cost 2^11 - 1 = 2047 invocations; the repaired function makes 11 and gives the same answers. *)
Theorem C03_diamond_exponential_v0 :
  ops_ids_wf d35_ops = true /\
  exists S, run_ops d35_ops = SOk S /\
    find_field_calls_v0 12 S 10 [113] = 2047%nat /\ find_field_v0 12 S 10 [113] = SOk None /\
    fst (find_field_calls 12 S 10 [113] []) = 11%nat /\ find_field 12 S 10 [113] = SOk None /\
    find_field 12 S 10 [97] = SOk (Some 0) /\ find_field_v0 12 S 10 [97] = SOk (Some 0).
Proof. exact c03_diamond_exponential_v0. Qed.

(** non-vacuity: `class A; class B : A; class A : B;` satisfies the hypothesis (the second A is a new record) *)
Theorem C03_nonvacuous : ops_ids_wf c03_ex_ops = true /\
  exists S, run_ops c03_ex_ops = SOk S /\ record_parents S 2 = [1] /\ record_parents S 1 = [0] /\ record_parents S 0 = [] /\
            is_subclass_of 4 S 2 0 = SOk true /\ is_subclass_of 4 S 0 2 = SOk false.
Proof. exact c03_ex. Qed.

Check C03_symbol_map_total_partial : forall ops,
  ops_ids_wf ops = true ->
  exists S, run_ops ops = SOk S /\
    (forall f p, exists o, find_symbol_at S f p = SOk o) /\
    (forall f p, exists o, goto_definition S f p = SOk o) /\
    (forall f p, exists o, references S f p = SOk o) /\
    (forall loc, exists o, iter_symbols_in_range S loc = SOk o) /\
    (forall r n, r < next_id S KRecord -> exists o, find_field (Datatypes.S (length (sm_records S))) S r n = SOk o) /\
    (forall r other, r < next_id S KRecord -> exists b, is_subclass_of (Datatypes.S (length (sm_records S))) S r other = SOk b) /\
    (forall r n, r < next_id S KRecord ->
       (fst (find_field_calls (Datatypes.S (length (sm_records S))) S r n []) <= Datatypes.S (length (sm_records S)))%nat).
Print Assumptions C03_symbol_map_total_partial.
Print Assumptions C03_unguarded_range_query_panics.
Print Assumptions C03_self_parent_diverges_v0.
Print Assumptions C03_diamond_exponential_v0.
Print Assumptions C03_nonvacuous.

(** every panic site of the `ide` crate found in the CURRENT sources (tools/translate/t_panicsites.py) has a
    disposition in proofs/SymbolPanicSites.v (proved at op level / oracle / other property) *)
From TG.Proofs Require Import SymbolPanicSites.
Theorem C03_panic_sites_inventoried : all_sites_disposed = true.
Proof. exact panic_sites_disposed. Qed.
Print Assumptions C03_panic_sites_inventoried.

(** ---- Core fragment, NO hypothesis on an op log (bridge to the indexer model of group scope) ----
    For EVERY workspace over the typed Core AST (CoreAst.v), every fuel the model uses and every program -- valid or
    not --, the symbol-map state [abs (index_ws w)] that the result of the indexer MODEL (Indexer.v over Scope.v, a
    faithful model of index.rs) stands for (model/IndexerOps.v) satisfies all conclusions of
    C03_symbol_map_total_partial.  The hypothesis `ops_ids_wf` is discharged by proofs/IndexerValid.v: one Hoare-style
    traversal of the whole indexer model shows that every id it stores (name maps, scopes, template-argument / field /
    parent lists, position log, reference log) was allocated before ([index_ws_valid]). *)
From TG.Model Require CoreAst Scope Indexer IndexerOps.
From TG.Proofs Require IndexerValid IndexerSim.
Theorem C03_indexer_ids_valid_core : forall w : CoreAst.workspace, IndexerValid.Valid (Indexer.index_ws w).
Proof. exact IndexerValid.index_ws_valid. Qed.
Theorem C03_symbol_map_total_core : forall w : CoreAst.workspace,
  let S := IndexerOps.abs (Indexer.index_ws w) in
  (forall f p, exists o, find_symbol_at S f p = SOk o) /\
  (forall f p, exists o, goto_definition S f p = SOk o) /\
  (forall f p, exists o, references S f p = SOk o) /\
  (forall loc, exists o, iter_symbols_in_range S loc = SOk o) /\
  (forall r n, r < next_id S KRecord -> exists o, find_field (Datatypes.S (length (sm_records S))) S r n = SOk o) /\
  (forall r other, r < next_id S KRecord -> exists b, is_subclass_of (Datatypes.S (length (sm_records S))) S r other = SOk b) /\
  (forall r n, r < next_id S KRecord ->
     (fst (find_field_calls (Datatypes.S (length (sm_records S))) S r n []) <= Datatypes.S (length (sm_records S)))%nat).
Proof. exact IndexerSim.c03_symbol_map_total_core. Qed.
Print Assumptions C03_indexer_ids_valid_core.
Print Assumptions C03_symbol_map_total_core.

(** ---- the TRANSLATED SOURCE of the recursive readers (tie of group "lines": coq/gen/GenSymbolMap.v is regenerated from
    symbol_map.rs + symbol_map/*.rs by t_symbolmap; props/SymbolMapSource.v [SymbolMap_model_is_source] relates every
    function to the hand model, the clauses about Record::find_field / is_subclass_of conditionally on "the model does not
    answer EOutOfFuel").  Composed with the totality theorems above the condition disappears: with (number of records + 1)
    fuel the translated `Record::find_field` and `Record::is_subclass_of` return without error, with the model's answer,
    for every allocated record -- on every state reached by an op log with allocated ids, and on every state the indexer
    model reaches (Core fragment, no hypothesis). *)
From TG.Gen Require GenSymbolMap.
From TG.Proofs Require SymbolSource.
Theorem C03_source_recursion_total : forall ops S r,
  ops_ids_wf ops = true -> run_ops ops = SOk S -> r < next_id S KRecord ->
  let fuel := Datatypes.S (length (sm_records S)) in
  (forall n, exists o, find_field fuel S r n = SOk o /\
                       sbind (record S r) (fun e => GenSymbolMap.src_Record_find_field fuel e S n) = SOk o) /\
  (forall other, exists b, is_subclass_of fuel S r other = SOk b /\
                           sbind (record S r) (fun e => GenSymbolMap.src_Record_is_subclass_of fuel e S other) = SOk b).
Proof. exact SymbolSource.source_recursion_total. Qed.
Theorem C03_source_recursion_total_core : forall (w : CoreAst.workspace) r,
  let S := IndexerOps.abs (Indexer.index_ws w) in
  r < next_id S KRecord ->
  let fuel := Datatypes.S (length (sm_records S)) in
  (forall n, exists o, find_field fuel S r n = SOk o /\
                       sbind (record S r) (fun e => GenSymbolMap.src_Record_find_field fuel e S n) = SOk o) /\
  (forall other, exists b, is_subclass_of fuel S r other = SOk b /\
                           sbind (record S r) (fun e => GenSymbolMap.src_Record_is_subclass_of fuel e S other) = SOk b).
Proof. exact SymbolSource.source_recursion_total_core. Qed.
Print Assumptions C03_source_recursion_total.
Print Assumptions C03_source_recursion_total_core.
