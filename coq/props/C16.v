(** C16 Include graphs: termination, exact reachability, links, not-found diagnostics, single indexing.

    Statements only; proofs in TG.Proofs.{IncludesGraph,IncludesRefine,HostIndex,IncludesLinks,
    HostHistory,HostTheorems}.  All theorems are about the executable model M-host
    (TG.Model.Includes / TG.Model.Host: [touch] = lsp Server::set_file_content =
    Vfs::set_open_document; assign_or_get_file_id; AnalysisHost::set_file_content;
    AnalysisHost::set_root_file -> collect_sources), for EVERY path algebra with a decidable
    equality, EVERY world (disk : path -> option content is any function: no bound on the number of
    files, of include statements, or on the shape of the graph), EVERY state [st] of EVERY session
    (history of touches), EVERY new root [p] with text [c].

    [eff w st p c] = the file system the walk reads (Vfs::read_content once the new text is
    registered: open documents first, then the disk).  [reach rd extra p q] = q is reachable from p
    through include statements that resolve ([presolve]: the file's own directory, then
    $INCLUDE_DIR). *)
From Coq Require Import List NArith Bool.
From TG.Model Require Import Includes Host HostInst FsOps.
From TG.Gen Require Import GenFileSystem.
From TG.Proofs Require Import IncludesGraph IncludesRefine HostIndex IncludesLinks HostHistory
     HostTheorems HostTotal HostExamples GenFileSystemEq.
Import ListNotations.
Local Open Scope nat_scope.

(** selecting the root terminates: with fuel >= [fuel_bound R], for any list R that covers the
    reachable files, [collect_sources] returns (never OutOfFuel, never a panic); the reachable
    set must be finite (covered by a list) and no reachable path may be a file-system root
    (Path::parent = None makes the real code panic: "file dir not found") *)
Theorem C16_terminates :
  forall (path istr : Type) (PA : PathAlg path istr) (PAok : PathAlgOk path istr)
         (w : world path istr) fuel0 h (st : @state path istr) p c R fuel,
  run fuel0 w st_init h = Done st ->
  (forall q, reach (eff w st p c) (extra w) p q -> In q R) ->
  (forall q, reach (eff w st p c) (extra w) p q -> parent q <> None) ->
  fuel_bound (eff w st p c) (extra w) R <= fuel ->
  exists st', touch fuel w st p c = Done st'.
Proof. exact (@session_terminates). Qed.

(** the bound as a function of the number of files: 1 + |R| * (1 + D), D = max number of
    resolvable include statements of a file of R *)
Theorem C16_fuel_bound :
  forall (path istr : Type) (PA : PathAlg path istr)
         (rd : path -> option (content istr)) extra R D,
  (forall q, In q R -> length (succs rd extra q) <= D) ->
  fuel_bound rd extra R <= 1 + length R * (1 + D).
Proof. exact (@session_fuel_bound). Qed.

(** whole sessions over a FINITE world: [R] contains every file on disk and every touched path (none a
    file-system root), every text involved has at most [D] include statements; then ONE explicit fuel,
    1 + |R|*(1+D), makes every step of every history return *)
Theorem C16_session_terminates :
  forall (path istr : Type) (PA : PathAlg path istr) (PAok : PathAlgOk path istr)
         (w : world path istr) h R D fuel,
  finite_session w h R D ->
  1 + length R * (1 + D) <= fuel ->
  exists st : @state path istr, run fuel w st_init h = Done st.
Proof. exact (@run_total). Qed.

(** the workspace (SourceRoot) is exactly the set of files reachable through resolvable includes,
    each once, rooted at the touched document *)
Theorem C16_reach :
  forall (path istr : Type) (PA : PathAlg path istr) (PAok : PathAlgOk path istr)
         (w : world path istr) fuel0 h (st : @state path istr) fuel p c st',
  run fuel0 w st_init h = Done st ->
  touch fuel w st p c = Done st' ->
  exists fset root,
    sroot (snd st') = Some (fset, root) /\
    path_for_file (fst st') root = Some p /\
    NoDup (map snd fset) /\ NoDup (map fst fset) /\
    (forall f q, In (f, q) fset -> path_for_file (fst st') f = Some q) /\
    (forall q, In q (map snd fset) <-> reach (eff w st p c) (extra w) p q).
Proof. exact (@session_reach). Qed.

(** document_link of every workspace file = one link per include statement that resolves, on the
    range of its string, to precisely the file it resolves to, in document order
    ([spec_links]); [NoDup (inc_sids ..)]: distinct Include nodes have distinct ranges *)
Theorem C16_links :
  forall (path istr : Type) (PA : PathAlg path istr) (PAok : PathAlgOk path istr)
         (w : world path istr) fuel0 h (st : @state path istr) fuel p c st' fset root f q,
  run fuel0 w st_init h = Done st ->
  touch fuel w st p c = Done st' ->
  sroot (snd st') = Some (fset, root) -> In (f, q) fset ->
  exists c0 d,
    eff w st p c q = Some c0 /\ parent q = Some d /\ fc (snd st') f = Some c0 /\
    (NoDup (inc_sids (c_items c0)) ->
     exists l, document_link (snd st') f = Done l /\
       Forall2 (fun a b => fst a = fst b /\ path_for_file (fst st') (snd a) = Some (snd b))
               l (spec_links (eff w st p c) (d :: extra w) (c_items c0))).
Proof. exact (@session_links). Qed.

(** the not-found diagnostics of every workspace file the indexer enters = the include statements
    it arrives at that do not resolve (including `include` without a file name), in document
    order ([spec_notfound]); files it does not enter have none *)
Theorem C16_notfound :
  forall (path istr : Type) (PA : PathAlg path istr) (PAok : PathAlgOk path istr)
         (w : world path istr) fuel0 h (st : @state path istr) fuel p c st' fset root fuel' tr f q,
  run fuel0 w st_init h = Done st ->
  touch fuel w st p c = Done st' ->
  sroot (snd st') = Some (fset, root) ->
  index fuel' (snd st') = Done tr ->
  In (f, q) fset ->
  exists c0 d,
    eff w st p c q = Some c0 /\ parent q = Some d /\
    (In f (files_of tr) -> NoDup (inc_sids (c_items c0)) ->
       notfound_of f tr = spec_notfound (eff w st p c) (d :: extra w) (c_items c0)) /\
    (~ In f (files_of tr) -> notfound_of f tr = []).
Proof. exact (@session_notfound). Qed.

(** completeness of the not-found clause: when every include statement of the workspace is reached by
    the indexer (all well-formed enclosing statements; [all_reached]), EVERY workspace file is entered -
    so by C16_notfound every include statement of the workspace that does not resolve has its diagnostic *)
Theorem C16_all_entered :
  forall (path istr : Type) (PA : PathAlg path istr) (PAok : PathAlgOk path istr)
         (w : world path istr) fuel0 h (st : @state path istr) fuel p c st' fset root fuel' tr,
  run fuel0 w st_init h = Done st ->
  touch fuel w st p c = Done st' ->
  sroot (snd st') = Some (fset, root) ->
  index fuel' (snd st') = Done tr ->
  (forall q c0, reach (eff w st p c) (extra w) p q -> eff w st p c q = Some c0 ->
                NoDup (inc_sids (c_items c0)) /\ all_reached (c_items c0)) ->
  forall f q, In (f, q) fset -> In f (files_of tr).
Proof. exact (@session_all_entered). Qed.

(** for EVERY database (any include maps): no file is entered twice, and the outline of an entered
    file is exactly the declarations of its text - once, however many paths lead to it *)
Theorem C16_once :
  forall (path istr : Type) (db : @inputs path istr) fuel tr,
  index fuel db = Done tr ->
  NoDup (files_of tr) /\
  forall g, (In g (files_of tr) -> outline_of g tr = decls (items_of db g)) /\
            (~ In g (files_of tr) -> outline_of g tr = []).
Proof. exact (@session_once). Qed.

(** the indexer's include recursion returns with fuel > number of workspace files
    (no stack overflow on cycles, no read of an unset salsa input) *)
Theorem C16_index_terminates :
  forall (path istr : Type) (PA : PathAlg path istr) (PAok : PathAlgOk path istr)
         (w : world path istr) fuel0 h (st : @state path istr) fuel p c st' fset root fuel',
  run fuel0 w st_init h = Done st ->
  touch fuel w st p c = Done st' ->
  sroot (snd st') = Some (fset, root) ->
  length fset < fuel' ->
  exists tr, index fuel' (snd st') = Done tr.
Proof. exact (@session_index_terminates). Qed.

(** non-vacuity: a session (self include + cycle + diamond + missing target + an open document whose
    editor text differs from the disk) satisfying every hypothesis above *)
Example C16_hypotheses_satisfiable :
  run 10 ex_world st_init ex_hist = Done ex_state /\
  (forall q, reach (eff ex_world ex_state pa ca) (extra ex_world) pa q -> In q ex_R) /\
  (forall q, reach (eff ex_world ex_state pa ca) (extra ex_world) pa q -> parent q <> None) /\
  fuel_bound (eff ex_world ex_state pa ca) (extra ex_world) ex_R = 11.
Proof. exact ex_terminates_hyps. Qed.

Example C16_example_touch :
  touch 11 ex_world ex_state pa ca = Done ex_state' /\
  option_map (fun v => (fst v, map (fun e => (e_path e, c_tag (e_content e), length (e_links e))) (snd v)))
             (view ex_state')
  = Some (pa, [(pd, 5%N, 1); (pc, 4%N, 1); (pb, 3%N, 1); (pa, 1%N, 3)]).
Proof. exact ex_touch. Qed.

Example C16_example_index :
  exists tr, index 5 (snd ex_state') = Done tr /\
             files_of tr = [2; 0; 1; 3]%N /\
             notfound_of 2%N tr = [(18, 23)%N] /\ outline_of 1%N tr = [40%N].
Proof. exact ex_index. Qed.

Example C16_example_sids : forall c, In c [ca; cb_editor; cc; cd] -> NoDup (inc_sids (c_items c)).
Proof. exact ex_sids. Qed.

(** THE MODEL IS THE SOURCE (tie by translation + proof): the Gallina rendering of the CURRENT
    crates/ide/src/file_system.rs (FileSet methods, resolve_include_file, collect_sources; list_includes by
    shape), regenerated on every run by tools/translate/t_filesystem.py into TG.Gen.GenFileSystem, equals
    the hand model for all arguments ([emb_ids] / [emb_fset]: the model's association lists as FileSets;
    [model_fso]: the model's implementation of trait FileSystem) *)
Theorem C16_model_is_source :
  forall (path istr : Type) (PA : PathAlg path istr) (w : world path istr),
  (gen_FileSet_new = emb_ids (path := path) [] /\ gen_FileSet_new = emb_fset (path := path) []) /\
  (forall (l : list (path * N)) f p, gen_FileSet_insert (emb_ids l) f p = emb_ids ((p, f) :: l)) /\
  (forall (l : list (N * path)) f p, gen_FileSet_insert (emb_fset l) f p = emb_fset ((f, p) :: l)) /\
  (forall (l : list (path * N)) p, gen_FileSet_file_for_path (emb_ids l) p = assoc p l) /\
  (forall (l : list (path * N)) f, gen_FileSet_path_for_file (emb_ids l) f =
               match rassoc f l with Some p => Done p | None => Panic PNoPath end) /\
  (forall (l : list (N * path)) f, gen_FileSet_contains (emb_fset l) f = fset_mem f l) /\
  (forall s dirs db fs, gen_resolve_include_file (model_fso w) db fs s dirs =
                        let '(fs', db', o) := resolve w fs db s dirs in (db', fs', o)) /\
  (forall fuel db fs root, gen_collect_sources w (model_fso w) fuel db fs root =
                           collect_result (collect fuel w fs db [root] []) root).
Proof. exact (@c16_model_is_source). Qed.

Check C16_terminates :
  forall (path istr : Type) (PA : PathAlg path istr) (PAok : PathAlgOk path istr)
         (w : world path istr) fuel0 h (st : @state path istr) p c R fuel,
  run fuel0 w st_init h = Done st ->
  (forall q, reach (eff w st p c) (extra w) p q -> In q R) ->
  (forall q, reach (eff w st p c) (extra w) p q -> parent q <> None) ->
  fuel_bound (eff w st p c) (extra w) R <= fuel ->
  exists st', touch fuel w st p c = Done st'.
Check C16_reach :
  forall (path istr : Type) (PA : PathAlg path istr) (PAok : PathAlgOk path istr)
         (w : world path istr) fuel0 h (st : @state path istr) fuel p c st',
  run fuel0 w st_init h = Done st ->
  touch fuel w st p c = Done st' ->
  exists fset root,
    sroot (snd st') = Some (fset, root) /\
    path_for_file (fst st') root = Some p /\
    NoDup (map snd fset) /\ NoDup (map fst fset) /\
    (forall f q, In (f, q) fset -> path_for_file (fst st') f = Some q) /\
    (forall q, In q (map snd fset) <-> reach (eff w st p c) (extra w) p q).
Check C16_once :
  forall (path istr : Type) (db : @inputs path istr) fuel tr,
  index fuel db = Done tr ->
  NoDup (files_of tr) /\
  forall g, (In g (files_of tr) -> outline_of g tr = decls (items_of db g)) /\
            (~ In g (files_of tr) -> outline_of g tr = []).

Print Assumptions C16_terminates.
Print Assumptions C16_fuel_bound.
Print Assumptions C16_session_terminates.
Print Assumptions C16_reach.
Print Assumptions C16_links.
Print Assumptions C16_notfound.
Print Assumptions C16_all_entered.
Print Assumptions C16_once.
Print Assumptions C16_index_terminates.
Print Assumptions C16_model_is_source.
