(** C18 Outline and folding mirror the declaration structure.
    ONLY theorem statements (each closed by [exact <lemma of proofs/>]), [Check] pins, [Print Assumptions].
    Folding part: theorems about [Folding.folding_model] (hand model of folding_range::exec +
    utils::range_excluding_trivia, kind list regenerated from the source into GenFoldKinds.v), FOR ALL TREES. *)
From Coq Require Import List NArith Bool Sorted String.
From TG.Gen Require Import GenTokens GenFoldKinds.
From TG.Model Require Import Chars Tree TreeNav Folding SymbolMap Outline CoreAst OutlineIndex OutlineSpec OutlineChildSpec.
From TG.Proofs Require Import TreeNavProofs FoldingProofs OutlineProofs OutlineIndexProofs OutlineSourceProofs OutlineVisitProofs OutlineChildProofs OutlineTotalProofs.
From TG.Model Require AstToCore Pipeline.
From TG.Proofs Require OutlineTextProofs.
From TG.Proofs Require Import SymbolOps OutlineKeepProofs.
From TG.Gen Require Import GenHandlers.
From TG.Proofs Require GenHandlersEq GenHandlersSymEq.
From TG.Model Require HandlerApi HandlerSymApi.
Import ListNotations.
Open Scope N_scope.

(** Folding ranges correspond one-to-one (position by position, in preorder = source order) to the nodes of the
    folding kinds; each starts at the statement's start and ends at the end of its last non-trivia (non-empty)
    token -- or is the empty range at the start when the statement has no such token. *)
Theorem C18_fold_one_to_one : forall t : tree,
  Forall2 fold_spec (filter fold_node (descendants t)) (folding_model t).
Proof. exact fold_one_to_one. Qed.
Check C18_fold_one_to_one : forall t : tree,
  Forall2 fold_spec (filter fold_node (descendants t)) (folding_model t).
Print Assumptions C18_fold_one_to_one.

(** ... and there are exactly as many ranges as statements of those kinds (independent structural count) *)
Theorem C18_fold_count : forall t : tree, List.length (folding_model t) = count_fold t.
Proof. exact fold_count. Qed.
Check C18_fold_count : forall t : tree, List.length (folding_model t) = count_fold t.
Print Assumptions C18_fold_count.

(** the kinds are exactly class, def, defset, foreach, if, let, multiclass (re-proved against the regenerated list) *)
Theorem C18_fold_kinds :
  fold_kinds = [S_Class; S_Def; S_Defset; S_Foreach; S_If; S_Let; S_MultiClass] /\
  forall k, is_fold_kind k = existsb (sk_eqb k) fold_kinds.
Proof. exact fold_kinds_are_the_block_statements. Qed.
Check C18_fold_kinds :
  fold_kinds = [S_Class; S_Def; S_Defset; S_Foreach; S_If; S_Let; S_MultiClass] /\
  forall k, is_fold_kind k = existsb (sk_eqb k) fold_kinds.
Print Assumptions C18_fold_kinds.

(** the start of a statement node is the start of its first token *)
Theorem C18_fold_starts_at_first_token : forall (t : tree) lo hi n l,
  In (lo, hi, n) (descendants t) -> hd_error (leaves_from lo n) = Some l -> lf_lo l = lo.
Proof. exact fold_starts_at_first_token. Qed.
Check C18_fold_starts_at_first_token : forall (t : tree) lo hi n l,
  In (lo, hi, n) (descendants t) -> hd_error (leaves_from lo n) = Some l -> lf_lo l = lo.
Print Assumptions C18_fold_starts_at_first_token.

(** every range is well-formed and inside the file *)
Theorem C18_fold_wf : forall (t : tree) r, In r (folding_model t) -> fst r <= snd r /\ snd r <= tree_len t.
Proof. exact fold_wf. Qed.
Check C18_fold_wf : forall (t : tree) r, In r (folding_model t) -> fst r <= snd r /\ snd r <= tree_len t.
Print Assumptions C18_fold_wf.

(** pairwise nested or disjoint (laminar family) *)
Theorem C18_fold_laminar : forall (t : tree) a b,
  In a (folding_model t) -> In b (folding_model t) -> nested a b \/ nested b a \/ disjoint a b.
Proof. exact fold_laminar. Qed.
Check C18_fold_laminar : forall (t : tree) a b,
  In a (folding_model t) -> In b (folding_model t) -> nested a b \/ nested b a \/ disjoint a b.
Print Assumptions C18_fold_laminar.

(** listed in source order *)
Theorem C18_fold_source_order : forall t : tree, StronglySorted N.le (map fst (folding_model t)).
Proof. exact fold_source_order. Qed.
Check C18_fold_source_order : forall t : tree, StronglySorted N.le (map fst (folding_model t)).
Print Assumptions C18_fold_source_order.

(** Non-vacuity: a tree with nested statements of the folding kinds, trailing trivia and an empty node.
    `let a in { class F ; }  ` as   Let[ LetKw "let" ws  StatementList[ LBrace  Class[ ClassKw Identifier[Id ws]
    RecordBody[ParentClassList[] Body[Semi ws]] ] RBrace ws ] ] *)
Definition ex_tree : tree :=
  Node S_SourceFile [Node S_StatementList [
    Node S_Let [Tok S_LetKw [108;101;116]; Tok S_Whitespace [32];
      Node S_StatementList [Tok S_LBrace [123];
        Node S_Class [Tok S_ClassKw [99;108;97;115;115]; Tok S_Whitespace [32];
                      Node S_Identifier [Tok S_Id [70]; Tok S_Whitespace [32]];
                      Node S_RecordBody [Node S_ParentClassList []; Node S_Body [Tok S_Semi [59]; Tok S_Whitespace [32]]]];
        Tok S_RBrace [125]; Tok S_Whitespace [32; 32]]]]].
Example C18_fold_example : folding_model ex_tree = [(0, 16); (5, 14)].
Proof. vm_compute. reflexivity. Qed.
Example C18_fold_example_hyps :
  In (0, 16) (folding_model ex_tree) /\ In (5, 14) (folding_model ex_tree) /\ nested (5, 14) (0, 16) /\
  count_fold ex_tree = 2%nat.
Proof. vm_compute. repeat split; auto; discriminate. Qed.

(** ================= Outline part: theorems about [Outline.document_symbol] over the symbol-map state machine
    [SymbolMap.apply_op] (replayed from the real op log by the check) ================= *)

(** For EVERY op sequence that replays: the per-file symbol list read by document_symbol::exec holds exactly the global
    symbols added for that file (global records, variables, defsets, multiclasses, global defms), each once, in the
    order of their `add_*` calls -- nothing missing, duplicated or misplaced; the file has no list iff nothing was added. *)
Theorem C18_outline_file_list : forall ops S f, run_ops ops = SOk S ->
  iter_symbols_in_file S f = match globals_in f ops with [] => None | l => Some l end.
Proof. exact outline_file_list. Qed.
Check C18_outline_file_list : forall ops S f, run_ops ops = SOk S ->
  iter_symbols_in_file S f = match globals_in f ops with [] => None | l => Some l end.
Print Assumptions C18_outline_file_list.

(** For every state: the outline of a file is, in the order of that list, the entry of every symbol that has one. *)
Theorem C18_outline_of_file : forall S f ds, document_symbol S f = SOk (Some ds) ->
  exists ids rs, iter_symbols_in_file S f = Some ids /\ Forall2 (entry_spec S) ids rs /\ ds = filter_some rs.
Proof. exact outline_of_file. Qed.
Check C18_outline_of_file : forall S f ds, document_symbol S f = SOk (Some ds) ->
  exists ids rs, iter_symbols_in_file S f = Some ids /\ Forall2 (entry_spec S) ids rs /\ ds = filter_some rs.
Print Assumptions C18_outline_of_file.

(** ... and an entry ([entry_spec], proofs/OutlineProofs.v) is: for a class its name, kind Class, the range of the declaring
    identifier, one child per template argument (map order) then one per field; for a def the same without template
    arguments; for a defset its defs declared in the defset's own file as children (fix 28899f7); for a multiclass its template arguments; nothing for variables / defms. *)
Theorem C18_outline_entry : forall S s r, symbol_to_document_symbol S s = SOk r -> entry_spec S s r.
Proof. exact outline_entry. Qed.
Check C18_outline_entry : forall S s r, symbol_to_document_symbol S s = SOk r -> entry_spec S s r.
Print Assumptions C18_outline_entry.

(** the template-argument and field maps are IndexMaps: keys stay distinct and in first-declaration order *)
Theorem C18_outline_children_order : forall (V : Type) (m : list (name * V)) k v,
  map fst (amap_insert m k v) = if existsb (fun k' => list_eqb k' k) (map fst m) then map fst m else map fst m ++ [k].
Proof. exact amap_insert_keys. Qed.
Check C18_outline_children_order : forall (V : Type) (m : list (name * V)) k v,
  map fst (amap_insert m k v) = if existsb (fun k' => list_eqb k' k) (map fst m) then map fst m else map fst m ++ [k].
Print Assumptions C18_outline_children_order.

(** ... and for EVERY op sequence that replays, the names in the template-argument map and in the field map of every
    record / multiclass are pairwise distinct: one outline child per template-argument name and per field name *)
Theorem C18_outline_children_distinct : forall ops S, run_ops ops = SOk S ->
  forall s e, get_entry S s = Some e ->
    NoDup (map fst (p_targs (e_payload e))) /\ NoDup (map fst (p_fields (e_payload e))).
Proof. exact outline_children_distinct. Qed.
Check C18_outline_children_distinct : forall ops S, run_ops ops = SOk S ->
  forall s e, get_entry S s = Some e ->
    NoDup (map fst (p_targs (e_payload e))) /\ NoDup (map fst (p_fields (e_payload e))).
Print Assumptions C18_outline_children_distinct.

(** Non-vacuity: a replayable op sequence (the shape of the real log of
    `class A<int x> { int f = x; } defvar v = 1; defset list<A> S = { def d; } multiclass M<int q> {..}`) *)
Definition ex_ops : list op :=
  [ OpAddRecord (s2n "A") RKClass (mkFR 0 6 7) true 0;
    OpAddTemplateArg (s2n "x") (s2n "int") (mkFR 0 12 13) 0; OpRecordMut 0; OpRecAddTemplateArg (s2n "x") 0;
    OpAddRecordField (s2n "f") (s2n "int") (mkFR 0 21 22) 0 0; OpRecordMut 0; OpRecAddField (s2n "f") 0;
    OpAddReference (KTemplateArg, 0) (mkFR 0 25 26);
    OpAddVariable (s2n "v") (s2n "int") (mkFR 0 40 41) 0;
    OpAddDefset (s2n "S") (s2n "list<A>") (mkFR 0 75 76) 0;
    OpAddRecord (s2n "d") RKDef (mkFR 0 85 86) false 1; OpDefsetMut 0; OpDefsetAddDef 1;
    OpAddMulticlass (s2n "M") (mkFR 0 117 118) 0;
    OpAddTemplateArg (s2n "q") (s2n "int") (mkFR 0 123 124) 1; OpMulticlassMut 0; OpMcAddTemplateArg (s2n "q") 1;
    OpAddReference (KRecord, 0) (mkFR 1 0 1) ].
Example C18_outline_example : exists S, run_ops ex_ops = SOk S /\
  globals_in 0 ex_ops = [(KRecord, 0); (KVariable, 0); (KDefset, 0); (KMulticlass, 0)] /\
  document_symbol S 0 = SOk (Some
    [ DocSym (s2n "A") (s2n "class") 6 7 DKClass
        [DocSym (s2n "x") (s2n "int") 12 13 DKTemplateArgument []; DocSym (s2n "f") (s2n "int") 21 22 DKField []];
      DocSym (s2n "S") (s2n "defset") 75 76 DKDefset [DocSym (s2n "d") (s2n "def") 85 86 DKDef []];
      DocSym (s2n "M") (s2n "multiclass") 117 118 DKMulticlass [DocSym (s2n "q") (s2n "int") 123 124 DKTemplateArgument []] ]).
Proof. eexists. split; [vm_compute; reflexivity|]. split; vm_compute; reflexivity. Qed.

(** What an add-op registers is what the final state shows: for EVERY op sequence that replays without error, the entry
    allocated by an add-op ([SymbolOps.op_alloc o = Some (kind, initial entry, _)]: add_record, add_anonymous_def,
    add_template_argument, add_record_field, add_variable, add_defset, add_multiclass, add_defm) at its fresh id keeps, to the
    end, the op's name, define_loc, type string and record kind -- exactly what C18_outline_entry reads from the final state
    to build the entry (later ops only extend child lists and reference lists). *)
Theorem C18_outline_registration_kept : forall ops1 o ops2 S1 S k e0 keyed,
  run_ops ops1 = SOk S1 -> run_ops (ops1 ++ o :: ops2) = SOk S -> op_alloc o = Some (k, e0, keyed) ->
  exists e, get_entry S (k, next_id S1 k) = Some e /\
            (e_name e, e_def e, payload_typ (e_payload e), payload_rk (e_payload e)) =
            (e_name e0, e_def e0, payload_typ (e_payload e0), payload_rk (e_payload e0)).
Proof. exact registration_kept. Qed.
Check C18_outline_registration_kept : forall ops1 o ops2 S1 S k e0 keyed,
  run_ops ops1 = SOk S1 -> run_ops (ops1 ++ o :: ops2) = SOk S -> op_alloc o = Some (k, e0, keyed) ->
  exists e, get_entry S (k, next_id S1 k) = Some e /\
            (e_name e, e_def e, payload_typ (e_payload e), payload_rk (e_payload e)) =
            (e_name e0, e_def e0, payload_typ (e_payload e0), payload_rk (e_payload e0)).
Print Assumptions C18_outline_registration_kept.

(** ================= The model IS the source =================
    coq/gen/GenHandlers.v is the rendering of the CURRENT text of handlers/folding_range.rs `exec` and utils.rs
    `range_excluding_trivia` (tools/translate/t_handlers.py, re-run by every check; rowan's cursor API and the iterator
    adaptors are the modelled vocabulary coq/model/HandlerApi.v).  For ALL inputs the rendering equals the hand model that the
    theorems above are about -- so they are theorems about the source text, and an edit of those functions either leaves the
    translator's subset or breaks this equality. *)
Theorem C18_model_is_source :
  (forall c, src_range_excluding_trivia c = range_excluding_trivia (cur_offset c) (fst c)) /\
  (forall db f, src_folding_exec db f = Some (folding_model (db f))).
Proof. exact GenHandlersEq.c18_model_is_source. Qed.
Check C18_model_is_source :
  (forall c, src_range_excluding_trivia c = range_excluding_trivia (cur_offset c) (fst c)) /\
  (forall db f, src_folding_exec db f = Some (folding_model (db f))).
Print Assumptions C18_model_is_source.

(** ... and the same for the outline: the rendering of handlers/document_symbol.rs `exec` and `symbol_to_document_symbol`
    (enum Symbol = a view of the arena entry, the panicking accessors of the symbol map in the control monad, the recursion
    through a defset's defs rendered with the depth bound 2) equals Outline.document_symbol / symbol_to_document_symbol for ALL
    symbol-map states: the C18_outline_* theorems are theorems about the source text of the handler. *)
Theorem C18_outline_model_is_source :
  (forall M s e, symbol M s = SOk e ->
     src_symbol_to_document_symbol 2 M (HandlerSymApi.sv_of (fst s) e) =
     HandlerSymApi.outcome_of_sres (symbol_to_document_symbol M s)) /\
  (forall M trees f, src_document_symbol_exec (HandlerSymApi.mkIdb M trees) f =
                     HandlerSymApi.outcome_of_sres (document_symbol M f)).
Proof. exact GenHandlersSymEq.c18_outline_model_is_source. Qed.
Check C18_outline_model_is_source :
  (forall M s e, symbol M s = SOk e ->
     src_symbol_to_document_symbol 2 M (HandlerSymApi.sv_of (fst s) e) =
     HandlerSymApi.outcome_of_sres (symbol_to_document_symbol M s)) /\
  (forall M trees f, src_document_symbol_exec (HandlerSymApi.mkIdb M trees) f =
                     HandlerSymApi.outcome_of_sres (document_symbol M f)).
Print Assumptions C18_outline_model_is_source.

(** C18_fold_one_to_one restated over the rendering of the source *)
Theorem C18_source_fold : forall db f,
  exists rs, src_folding_exec db f = Some rs /\ Forall2 fold_spec (filter fold_node (descendants (db f))) rs.
Proof. exact GenHandlersEq.c18_source_fold. Qed.
Check C18_source_fold : forall db f,
  exists rs, src_folding_exec db f = Some rs /\ Forall2 fold_spec (filter fold_node (descendants (db f))) rs.
Print Assumptions C18_source_fold.

(** ================= Source programs: the outline-relevant slice of the indexer (OutlineIndex.oix, hand model of the
    Class / Def / Defset / MultiClass / TemplateArgDecl / FieldDef / FieldLet / ParentClassList arms of index.rs over the typed
    AST; tied to the code by comparing its op sequence with the projection of the REAL op log) ================= *)

(** The slice is TOTAL: for EVERY workspace AST it neither reaches one of the modelled panics (an id that is not in its
    arena -- `record_mut` / `symbol(id)` on a dangling id -- or popping an empty scope stack) nor runs out of the fuel
    [ws_fuel w] (each file is entered at most once by the indexed-once guard, each statement of an entered file is visited
    once).  Proof: an invariant (every id in the scope stack, in the name tables and in the field maps of the arenas is
    valid; arenas only grow) and the potential "size of the statement + sizes of the files not yet entered <= fuel". *)
Theorem C18_outline_slice_total : forall w, oi_bad (oix w) = false.
Proof. exact oix_total. Qed.
Check C18_outline_slice_total : forall w, oi_bad (oix w) = false.
Print Assumptions C18_outline_slice_total.

(** For EVERY workspace AST: the ops the slice emits replay, in the symbol-map state machine, to exactly the state the
    slice computed -- so every theorem above about all op sequences applies to the
    outline of every program. *)
Theorem C18_outline_slice_replays : forall w, run_ops (oix_ops w) = SOk (oi_sm (oix w)).
Proof. exact (fun w => oix_replays w (oix_total w)). Qed.
Check C18_outline_slice_replays : forall w, run_ops (oix_ops w) = SOk (oi_sm (oix w)).
Print Assumptions C18_outline_slice_replays.

(** ... in particular the per-file list behind the outline of a program is the list of the global add-ops the indexer slice
    makes for that file, in indexing order *)
Theorem C18_outline_slice_file_list : forall w f,
  iter_symbols_in_file (oi_sm (oix w)) f = match globals_in f (oix_ops w) with [] => None | l => Some l end.
Proof. exact (fun w f => oix_file_list w f (oix_total w)). Qed.
Check C18_outline_slice_file_list : forall w f,
  iter_symbols_in_file (oi_sm (oix w)) f = match globals_in f (oix_ops w) with [] => None | l => Some l end.
Print Assumptions C18_outline_slice_file_list.

(** Non-vacuity: the AST of `class A<int x> { int f; }  defset list<A> S = { def d; def ; }  multiclass M<int q> { def e; }`:
    no panic, 19 ops, and the outline the statement describes (the anonymous def is the defset's second child). *)
Definition ex_id (lo hi : N) (s : string) : ident := mkId (mkR 0 lo hi) (s2n s).
Definition ex_ws : workspace :=
  mkWs [[ SClass (ex_id 6 7 "A") (Some [TArg TyInt (ex_id 12 13 "x") None]) [] [IField TyInt (ex_id 21 22 "f") None];
          SDefset (TyList (TyClass (ex_id 40 41 "A"))) (ex_id 43 44 "S")
            [ SDef (Some (Val (mkR 0 55 56) [Inner (SId (ex_id 55 56 "d")) []])) (mkR 0 51 57) [] [];
              SDef None (mkR 0 58 63) [] [] ];
          SMulticlass (ex_id 77 78 "M") (Some [TArg TyInt (ex_id 83 84 "q") None]) []
            [ SDef (Some (Val (mkR 0 92 93) [Inner (SId (ex_id 92 93 "e")) []])) (mkR 0 88 94) [] [] ] ]] [].
Example C18_outline_slice_example :
  oi_bad (oix ex_ws) = false /\ List.length (oix_ops ex_ws) = 19%nat /\
  outline_of_ws ex_ws 0 = SOk (Some
    [ DocSym (s2n "A") (s2n "class") 6 7 DKClass
        [DocSym (s2n "x") (s2n "int") 12 13 DKTemplateArgument []; DocSym (s2n "f") (s2n "int") 21 22 DKField []];
      DocSym (s2n "S") (s2n "defset") 43 44 DKDefset
        [DocSym (s2n "d") (s2n "def") 55 56 DKDef []; DocSym (s2n "anonymous_0") (s2n "def") 58 63 DKDef []];
      DocSym (s2n "M") (s2n "multiclass") 77 78 DKMulticlass [DocSym (s2n "q") (s2n "int") 83 84 DKTemplateArgument []];
      DocSym (s2n "e") (s2n "def") 92 93 DKDef [] ]).
Proof. repeat split; vm_compute; reflexivity. Qed.

(** Source level, for EVERY single-file program without include statements (any nesting of foreach / if / let / defset /
    multiclass, any fuel-free AST): the global declarations the indexer slice registers ([ops_decls]: kind, name, range of
    the declaring identifier of every global class / def / defset / multiclass add-op, in indexing order) form a SUBSEQUENCE
    of the program's declarations in source preorder ([program_decls]: every class, every def named by an identifier that is
    not lexically inside a defset, every defset, every multiclass) -- nothing foreign, nothing twice, nothing out of order. *)
Theorem C18_outline_source_subseq : forall root perrs,
  forallb no_include root = true ->
  subseq (ops_decls (oix_ops (mkWs [root] perrs))) (program_decls root).
Proof. exact outline_source_subseq. Qed.
Check C18_outline_source_subseq : forall root perrs,
  forallb no_include root = true ->
  subseq (ops_decls (oix_ops (mkWs [root] perrs))) (program_decls root).
Print Assumptions C18_outline_source_subseq.

(** ... hence they are EXACTLY the program's declarations in source order whenever the counts agree (nothing was skipped:
    no defset whose type does not resolve, no modelled panic); the check evaluates this condition on every generated program. *)
Theorem C18_outline_source_complete : forall root perrs,
  forallb no_include root = true ->
  List.length (ops_decls (oix_ops (mkWs [root] perrs))) = List.length (program_decls root) ->
  ops_decls (oix_ops (mkWs [root] perrs)) = program_decls root.
Proof. exact outline_source_complete. Qed.
Check C18_outline_source_complete : forall root perrs,
  forallb no_include root = true ->
  List.length (ops_decls (oix_ops (mkWs [root] perrs))) = List.length (program_decls root) ->
  ops_decls (oix_ops (mkWs [root] perrs)) = program_decls root.
Print Assumptions C18_outline_source_complete.

(** Non-vacuity: the example program satisfies both hypotheses, and its four declarations are registered in source order
    (the def `d` inside the defset and the anonymous def are not global; the def `e` inside the multiclass is). *)
Example C18_outline_source_example :
  match ws_files ex_ws with
  | [root] => forallb no_include root = true /\
              List.length (ops_decls (oix_ops ex_ws)) = List.length (program_decls root) /\
              ops_decls (oix_ops ex_ws) =
                [(DClass, s2n "A", 6, 7); (DDefset, s2n "S", 43, 44); (DMulticlass, s2n "M", 77, 78); (DDef, s2n "e", 92, 93)]
  | _ => False
  end.
Proof. vm_compute. repeat split; reflexivity. Qed.

(** ================= Source level, MULTI-FILE workspaces (include) =================
    [OutlineSpec.visit_ws] is the visit of a workspace stated on the AST alone: statements in source order, an `include`
    entering its target the first time it is met (indexed-once guard), a def registered globally unless it is lexically
    inside a defset OF THE SAME FILE, a defset skipped with its body when its type names a class not declared earlier in
    visit order. *)

(** For EVERY workspace: the global declarations it registers -- file, kind, name,
    identifier range, in indexing order -- are EXACTLY the events of the syntactic visit (so the only declarations ever
    dropped are the defsets whose type does not resolve, and what their bodies contain), and the files it indexed are the
    files the visit entered. *)
Theorem C18_outline_visit : forall w,
  exists ev v', visit_ws w = Some (ev, v') /\ ops_fdecls (oix_ops w) = ev /\ oi_indexed (oix w) = v_indexed v'.
Proof. exact (fun w => oix_visit w (oix_total w)). Qed.
Check C18_outline_visit : forall w,
  exists ev v', visit_ws w = Some (ev, v') /\ ops_fdecls (oix_ops w) = ev /\ oi_indexed (oix w) = v_indexed v'.
Print Assumptions C18_outline_visit.

(** Per file, without any count condition: if the declarations of the workspace are well-formed ([decls_wf]: a decidable,
    purely syntactic predicate -- the visit completes and every defset's type names only classes declared earlier in visit
    order), then the declarations registered for file f are exactly f's class / named-def-outside-a-defset / defset /
    multiclass statements in source preorder when f is visited (the root, or reached through include), and none otherwise. *)
Theorem C18_outline_files_complete : forall w, decls_wf w = true ->
  forall f, decls_of_file f (ops_fdecls (oix_ops w)) =
            if mem f (oi_indexed (oix w)) then file_decls (ws_files w) f else [].
Proof. exact (fun w => outline_files_complete w (oix_total w)). Qed.
Check C18_outline_files_complete : forall w, decls_wf w = true ->
  forall f, decls_of_file f (ops_fdecls (oix_ops w)) =
            if mem f (oi_indexed (oix w)) then file_decls (ws_files w) f else [].
Print Assumptions C18_outline_files_complete.

(** Non-vacuity: root file 0 = `class A; defset list<A> S = { include <file 1>  def a; }  include <file 1>`,
    file 1 = `def x; class K;`, file 2 (never included) = `class Z;`.  No panic, well-formed; file 1 is entered once (inside
    the defset): its def `x` is global there (not a member of S's outline), file 2 contributes nothing. *)
Definition ex_def (lo hi : N) (f : N) (s : string) : stmt :=
  SDef (Some (Val (mkR f lo hi) [Inner (SId (mkId (mkR f lo hi) (s2n s))) []])) (mkR f lo hi) [] [].
Definition ex_ws2 : workspace :=
  mkWs [ [ SClass (ex_id 6 7 "A") None [] [];
           SDefset (TyList (TyClass (ex_id 20 21 "A"))) (ex_id 23 24 "S") [SInclude (mkR 0 30 45) (Some 1); ex_def 50 51 0 "a"];
           SInclude (mkR 0 60 75) (Some 1) ];
         [ ex_def 4 5 1 "x"; SClass (mkId (mkR 1 14 15) (s2n "K")) None [] [] ];
         [ SClass (mkId (mkR 2 6 7) (s2n "Z")) None [] [] ] ] [].
Example C18_outline_files_example :
  oi_bad (oix ex_ws2) = false /\ decls_wf ex_ws2 = true /\ oi_indexed (oix ex_ws2) = [1; 0] /\
  decls_of_file 0 (ops_fdecls (oix_ops ex_ws2)) = [(DClass, s2n "A", 6, 7); (DDefset, s2n "S", 23, 24)] /\
  decls_of_file 1 (ops_fdecls (oix_ops ex_ws2)) = [(DDef, s2n "x", 4, 5); (DClass, s2n "K", 14, 15)] /\
  decls_of_file 2 (ops_fdecls (oix_ops ex_ws2)) = [].
Proof. vm_compute. repeat split; reflexivity. Qed.

(** ================= Source level, CHILDREN =================
    [OutlineChildSpec.visitc_ws] extends the visit with everything a record gets, computed from the AST alone with a table of
    the records declared so far: each template argument `T a` whose type resolves (CTArg, in declaration order), each body
    item `T f;` whose type resolves (CField), and each `let f = ..;` whose field f is visible in the record -- declared or
    overridden earlier in the same body, or inherited through the resolved parent classes, depth-first in written order,
    each ancestor once -- registered with f's declared type (CField); plus the record / defset / multiclass registrations. *)

(** For EVERY workspace: the complete registration stream of the slice
    ([ops_cevs]: add_record / add_anonymous_def / add_defset / add_multiclass / add_template_argument / add_record_field with
    file, name, type string, identifier range, in order) IS that visit.  With C18_outline_entry / _children_order /
    _children_distinct (each registration is inserted into the record's IndexMap under its name) this is the statement's
    "one child per template argument and per field declared or overridden in its body". *)
Theorem C18_outline_children : forall w,
  exists ev c', visitc_ws w = Some (ev, c') /\ ops_cevs (oix_ops w) = ev.
Proof. exact (fun w => oix_children w (oix_total w)). Qed.
Check C18_outline_children : forall w,
  exists ev c', visitc_ws w = Some (ev, c') /\ ops_cevs (oix_ops w) = ev.
Print Assumptions C18_outline_children.

(** Non-vacuity: `class A<int x, Q y> { int f; }  class B : A { let f = ..; let g = ..; string h; }`  (Q undeclared,
    g not a field of B): A registers x (not y) and f; B registers the override of f with f's declared type `int` and h,
    not g. *)
Definition ex_dv : value := Val (mkR 0 0 0) [].
Definition ex_ws3 : workspace :=
  mkWs [[ SClass (ex_id 6 7 "A") (Some [TArg TyInt (ex_id 12 13 "x") None; TArg (TyClass (ex_id 15 16 "Q")) (ex_id 17 18 "y") None]) []
            [IField TyInt (ex_id 26 27 "f") None];
          SClass (ex_id 37 38 "B") None [CRef (ex_id 41 42 "A") [] (mkR 0 41 42)]
            [ILet (ex_id 49 50 "f") ex_dv; ILet (ex_id 60 61 "g") ex_dv; IField TyString (ex_id 78 79 "h") None] ]] [].
Example C18_outline_children_example :
  oi_bad (oix ex_ws3) = false /\
  ops_cevs (oix_ops ex_ws3) =
    [ CRec 0 RKClass (s2n "A") 6 7 true; CTArg 0 (s2n "x") (s2n "int") 12 13; CField 0 (s2n "f") (s2n "int") 26 27;
      CRec 0 RKClass (s2n "B") 37 38 true; CField 0 (s2n "f") (s2n "int") 49 50; CField 0 (s2n "h") (s2n "string") 78 79 ] /\
  outline_of_ws ex_ws3 0 = SOk (Some
    [ DocSym (s2n "A") (s2n "class") 6 7 DKClass
        [DocSym (s2n "x") (s2n "int") 12 13 DKTemplateArgument []; DocSym (s2n "f") (s2n "int") 26 27 DKField []];
      DocSym (s2n "B") (s2n "class") 37 38 DKClass
        [DocSym (s2n "f") (s2n "int") 49 50 DKField []; DocSym (s2n "h") (s2n "string") 78 79 DKField []] ]).
Proof. vm_compute. repeat split; reflexivity. Qed.

(** ================= End to end FROM THE TEXTS (composition with group bridge's pipeline) =================
    [Pipeline.analyze pfuel cfuel files root]: the in-memory disk [files] (path, text) is parsed by the model parser, the source
    set of [root] is collected through the modelled include resolution, each tree is turned into its typed AST by
    AstToCore.core_of_tree (generated accessor table) -- [an_core a = Ok w] when every file is in the Core fragment.
    For EVERY disk, root and fuels: when the declarations are well-formed, every top-level declaration the indexer slice
    registers for file number f -- hence every top-level outline entry of f (C18_outline_slice_file_list, C18_outline_of_file) --
    carries a name that STANDS IN THE TEXT of file f at exactly the entry's (selection) range. *)
Theorem C18_outline_in_text : forall pfuel cfuel files root a w,
  Pipeline.analyze pfuel cfuel files root = Some a -> Pipeline.an_core a = AstToCore.Ok w -> decls_wf w = true ->
  forall f k n lo hi, In (k, n, lo, hi) (decls_of_file f (ops_fdecls (oix_ops w))) ->
  exists txt, nth_error (map (fun fp => Pipeline.pf_text (snd fp)) (Pipeline.an_files a)) (N.to_nat f) = Some txt /\
              exists pre suf, txt = pre ++ n ++ suf /\ lo = bytes pre /\ hi = bytes pre + bytes n.
Proof. exact OutlineTextProofs.outline_decls_in_text. Qed.
Check C18_outline_in_text : forall pfuel cfuel files root a w,
  Pipeline.analyze pfuel cfuel files root = Some a -> Pipeline.an_core a = AstToCore.Ok w -> decls_wf w = true ->
  forall f k n lo hi, In (k, n, lo, hi) (decls_of_file f (ops_fdecls (oix_ops w))) ->
  exists txt, nth_error (map (fun fp => Pipeline.pf_text (snd fp)) (Pipeline.an_files a)) (N.to_nat f) = Some txt /\
              exists pre suf, txt = pre ++ n ++ suf /\ lo = bytes pre /\ hi = bytes pre + bytes n.
Print Assumptions C18_outline_in_text.

(** ... and the same for the CHILDREN, without any side condition: every registration of the slice -- record, defset,
    multiclass, template argument, field, field override; hence every outline entry at any depth -- carries a name that stands
    in the text of the file it is registered in, at exactly its range.  The one exception is the synthesized name
    `anonymous_N` of an anonymous def. *)
Theorem C18_outline_children_in_text : forall pfuel cfuel files root a w,
  Pipeline.analyze pfuel cfuel files root = Some a -> Pipeline.an_core a = AstToCore.Ok w ->
  let texts := map (fun fp => Pipeline.pf_text (snd fp)) (Pipeline.an_files a) in
  let at_ := fun (f : N) (n : SymbolMap.name) (lo hi : N) =>
    exists txt, nth_error texts (N.to_nat f) = Some txt /\ exists pre suf, txt = pre ++ n ++ suf /\ lo = bytes pre /\ hi = bytes pre + bytes n in
  forall e, In e (ops_cevs (oix_ops w)) ->
  match e with
  | CRec f _ n lo hi _ | CMc f n lo hi | CDefset f n _ lo hi | CTArg f n _ lo hi | CField f n _ lo hi => at_ f n lo hi
  | CAnon _ _ _ _ => True
  end.
Proof. exact OutlineTextProofs.outline_children_in_text'. Qed.
Check C18_outline_children_in_text : forall pfuel cfuel files root a w,
  Pipeline.analyze pfuel cfuel files root = Some a -> Pipeline.an_core a = AstToCore.Ok w ->
  let texts := map (fun fp => Pipeline.pf_text (snd fp)) (Pipeline.an_files a) in
  let at_ := fun (f : N) (n : SymbolMap.name) (lo hi : N) =>
    exists txt, nth_error texts (N.to_nat f) = Some txt /\ exists pre suf, txt = pre ++ n ++ suf /\ lo = bytes pre /\ hi = bytes pre + bytes n in
  forall e, In e (ops_cevs (oix_ops w)) ->
  match e with
  | CRec f _ n lo hi _ | CMc f n lo hi | CDefset f n _ lo hi | CTArg f n _ lo hi | CField f n _ lo hi => at_ f n lo hi
  | CAnon _ _ _ _ => True
  end.
Print Assumptions C18_outline_children_in_text.

(** Non-vacuity, computed from the texts alone: /r/main.td = `include "inc.td"\nclass A<int x> { int f; }\ndef d : A<1>;\n`,
    /r/inc.td = `class K;\n`.  The pipeline yields a Core workspace with well-formed declarations; file 0 lists A (with its
    template argument and field) and d, file 1 lists K. *)
Definition ex_t_main : text := [105;110;99;108;117;100;101;32;34;105;110;99;46;116;100;34;10;99;108;97;115;115;32;65;60;105;110;116;32;120;62;32;123;32;105;110;116;32;102;59;32;125;10;100;101;102;32;100;32;58;32;65;60;49;62;59;10].
Definition ex_t_inc : text := [99;108;97;115;115;32;75;59;10].
Definition ex_p_main : text := [47;114;47;109;97;105;110;46;116;100].
Definition ex_p_inc : text := [47;114;47;105;110;99;46;116;100].
Example C18_outline_in_text_example :
  match Pipeline.analyze 4000 10 [(ex_p_main, ex_t_main); (ex_p_inc, ex_t_inc)] ex_p_main with
  | Some a =>
      match Pipeline.an_core a with
      | AstToCore.Ok w =>
          decls_wf w = true /\
          decls_of_file 0 (ops_fdecls (oix_ops w)) = [(DClass, s2n "A", 23, 24); (DDef, s2n "d", 47, 48)] /\
          decls_of_file 1 (ops_fdecls (oix_ops w)) = [(DClass, s2n "K", 6, 7)] /\
          outline_of_ws w 0 = SOk (Some
            [ DocSym (s2n "A") (s2n "class") 23 24 DKClass
                [DocSym (s2n "x") (s2n "int") 29 30 DKTemplateArgument []; DocSym (s2n "f") (s2n "int") 38 39 DKField []];
              DocSym (s2n "d") (s2n "def") 47 48 DKDef [] ])
      | _ => False
      end
  | None => False
  end.
Proof. vm_compute. repeat split; reflexivity. Qed.
