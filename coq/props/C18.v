(** C18 Outline and folding mirror the declaration structure.
    ONLY theorem statements (each closed by [exact <lemma of proofs/>]), [Check] pins, [Print Assumptions].
    Folding part: theorems about [Folding.folding_model] (hand model of folding_range::exec +
    utils::range_excluding_trivia, kind list regenerated from the source into GenFoldKinds.v), FOR ALL TREES. *)
From Coq Require Import List NArith Bool Sorted.
From TG.Gen Require Import GenTokens GenFoldKinds.
From TG.Model Require Import Chars Tree TreeNav Folding.
From TG.Proofs Require Import TreeNavProofs FoldingProofs.
Import ListNotations.
Open Scope N_scope.

(** Folding ranges correspond one-to-one (position by position, in preorder = source order) to the nodes of the
    folding kinds; each starts at the statement's start and ends at the end of its last non-trivia (non-empty)
    token -- or is the empty range at the start when the statement has no such token. *)
Theorem C18_fold_one_to_one : forall t : tree,
  Forall2 fold_spec (filter fold_node (descendants t)) (folding_model t).
Proof. exact fold_one_to_one. Qed.
Check C18_fold_one_to_one : forall t : tree,
  Forall2 fold_spec (filter fold_node (descendants t)) (folding_model t).
Print Assumptions C18_fold_one_to_one.

(** ... and there are exactly as many ranges as statements of those kinds (independent structural count) *)
Theorem C18_fold_count : forall t : tree, length (folding_model t) = count_fold t.
Proof. exact fold_count. Qed.
Check C18_fold_count : forall t : tree, length (folding_model t) = count_fold t.
Print Assumptions C18_fold_count.

(** the kinds are exactly class, def, defset, foreach, if, let, multiclass (re-proved against the regenerated list) *)
Theorem C18_fold_kinds :
  fold_kinds = [S_Class; S_Def; S_Defset; S_Foreach; S_If; S_Let; S_MultiClass] /\
  forall k, is_fold_kind k = existsb (sk_eqb k) fold_kinds.
Proof. exact fold_kinds_are_the_block_statements. Qed.
Check C18_fold_kinds :
  fold_kinds = [S_Class; S_Def; S_Defset; S_Foreach; S_If; S_Let; S_MultiClass] /\
  forall k, is_fold_kind k = existsb (sk_eqb k) fold_kinds.
Print Assumptions C18_fold_kinds.

(** the start of a statement node is the start of its first token *)
Theorem C18_fold_starts_at_first_token : forall (t : tree) lo hi n l,
  In (lo, hi, n) (descendants t) -> hd_error (leaves_from lo n) = Some l -> lf_lo l = lo.
Proof. exact fold_starts_at_first_token. Qed.
Check C18_fold_starts_at_first_token : forall (t : tree) lo hi n l,
  In (lo, hi, n) (descendants t) -> hd_error (leaves_from lo n) = Some l -> lf_lo l = lo.
Print Assumptions C18_fold_starts_at_first_token.

(** every range is well-formed and inside the file *)
Theorem C18_fold_wf : forall (t : tree) r, In r (folding_model t) -> fst r <= snd r /\ snd r <= tree_len t.
Proof. exact fold_wf. Qed.
Check C18_fold_wf : forall (t : tree) r, In r (folding_model t) -> fst r <= snd r /\ snd r <= tree_len t.
Print Assumptions C18_fold_wf.

(** pairwise nested or disjoint (laminar family) *)
Theorem C18_fold_laminar : forall (t : tree) a b,
  In a (folding_model t) -> In b (folding_model t) -> nested a b \/ nested b a \/ disjoint a b.
Proof. exact fold_laminar. Qed.
Check C18_fold_laminar : forall (t : tree) a b,
  In a (folding_model t) -> In b (folding_model t) -> nested a b \/ nested b a \/ disjoint a b.
Print Assumptions C18_fold_laminar.

(** listed in source order *)
Theorem C18_fold_source_order : forall t : tree, StronglySorted N.le (map fst (folding_model t)).
Proof. exact fold_source_order. Qed.
Check C18_fold_source_order : forall t : tree, StronglySorted N.le (map fst (folding_model t)).
Print Assumptions C18_fold_source_order.

(** Non-vacuity: a tree with nested statements of the folding kinds, trailing trivia and an empty node.
    `let a in { class F ; }  ` as   Let[ LetKw "let" ws  StatementList[ LBrace  Class[ ClassKw Identifier[Id ws]
    RecordBody[ParentClassList[] Body[Semi ws]] ] RBrace ws ] ] *)
Definition ex_tree : tree :=
  Node S_SourceFile [Node S_StatementList [
    Node S_Let [Tok S_LetKw [108;101;116]; Tok S_Whitespace [32];
      Node S_StatementList [Tok S_LBrace [123];
        Node S_Class [Tok S_ClassKw [99;108;97;115;115]; Tok S_Whitespace [32];
                      Node S_Identifier [Tok S_Id [70]; Tok S_Whitespace [32]];
                      Node S_RecordBody [Node S_ParentClassList []; Node S_Body [Tok S_Semi [59]; Tok S_Whitespace [32]]]];
        Tok S_RBrace [125]; Tok S_Whitespace [32; 32]]]]].
Example C18_fold_example : folding_model ex_tree = [(0, 16); (5, 14)].
Proof. vm_compute. reflexivity. Qed.
Example C18_fold_example_hyps :
  In (0, 16) (folding_model ex_tree) /\ In (5, 14) (folding_model ex_tree) /\ nested (5, 14) (0, 16) /\
  count_fold ex_tree = 2%nat.
Proof. vm_compute. repeat split; auto; discriminate. Qed.
