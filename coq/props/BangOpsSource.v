(** The hand model of the bang operators (TG.Model.BangOps + the `index_bang` / `index_bang_ops` part of TG.Model.Indexer,
    group scope; only imported) vs its source crates/ide/src/index/bang_operator.rs (helper of builder "lexprep"):
    coq/gen/GenBangOps.v is regenerated on every run by tools/translate/t_bangops.py from the CURRENT text of the file:
    the five helpers of `mod common`, every arm of `match self.kind()? { .. }` (one definition per arm) and the
    dispatcher (which SyntaxKind goes to which arm).

    Statement: the five helpers equal the corresponding pieces of Indexer.v (`expect_values`, rendered from its match
    on the range bounds, equals `check_arity` with the arity table `BangOps.bang_arity` for every operator), and for
    every operator in [covered_ops] (all 51 constructors of CoreAst.bop: [covered_ops_complete]) the rendered arm the
    operator is dispatched to, with the open recursion (`value.index(ctx)`, `typ.index(ctx)`, `utils::identifier`)
    instantiated by the hand model ([m_env n]), equals `index_bang (S (S n))`: same result AND same final state
    (annotation, arity diagnostic, operands, operand diagnostics in emission order, scopes / variables of the three
    binder arms), for all fuel values n, annotations, operand lists, ranges and states.  "partial" refers to what is
    trusted, not to the operators: the tables of the translator (typed accessors -> CoreAst fields, calls into
    scope.rs / context.rs / typ.rs rendered as the model's functions, message -> dkind, Vec / iterator / RangeBounds
    idioms of TG.Model.BangOpsSrc); see design/notes-translator-bangops.md.
    Statement only; proofs in TG.Proofs.GenBangOpsEq. *)
From Coq Require Import List NArith Bool.
From TG.Model Require Import CoreAst Scope BangOps Indexer IndexerSrc BangOpsSrc.
From TG.Gen Require Import GenBangOps.
From TG.Proofs Require Import GenBangOpsEq.
Import ListNotations.
Open Scope N_scope.
Open Scope ix_scope.

Theorem BangOps_model_is_source_partial :
  (* mod common *)
  (forall E annot vs r s,
     src_common_unexpect_type_annotation E (mkBang annot vs r) s =
     (match annot with Some (_, tr) => err tr DUnexpectAnnot | None => ret tt end) s) /\
  (forall E annot vs r s,
     src_common_expect_type_annotation E (mkBang annot vs r) s =
     (match annot with Some (t, _) => ix_Type E t | None => err r DExpectAnnot ;; none end) s) /\
  (forall E op annot vs r s,
     src_common_expect_values E (mkBang annot vs r) (bounds_of (bang_arity op)) s = (check_arity op vs r ;; ret vs) s) /\
  (forall E vs s,
     src_common_index_values E vs s = (os <- mapM_opt (ix_Value E) vs ;; ret (combine (map value_rng vs) os)) s) /\
  (forall n vs expected s,
     src_common_index_values_and_check_types (m_env n) vs expected s = (iterM (each_m n expected) vs ;; ret tt) s) /\
  (* `match self.kind()? { .. }`: dispatcher and arms *)
  (forall op, In op covered_ops -> forall n annot vs r s,
     src_ix_BangOperator (m_env n) op (mkBang annot vs r) s = index_bang (S (S n)) op annot vs r s).
Proof. exact bangops_model_is_source_partial. Qed.

Check BangOps_model_is_source_partial :
  (forall E annot vs r s,
     src_common_unexpect_type_annotation E (mkBang annot vs r) s =
     (match annot with Some (_, tr) => err tr DUnexpectAnnot | None => ret tt end) s) /\
  (forall E annot vs r s,
     src_common_expect_type_annotation E (mkBang annot vs r) s =
     (match annot with Some (t, _) => ix_Type E t | None => err r DExpectAnnot ;; none end) s) /\
  (forall E op annot vs r s,
     src_common_expect_values E (mkBang annot vs r) (bounds_of (bang_arity op)) s = (check_arity op vs r ;; ret vs) s) /\
  (forall E vs s,
     src_common_index_values E vs s = (os <- mapM_opt (ix_Value E) vs ;; ret (combine (map value_rng vs) os)) s) /\
  (forall n vs expected s,
     src_common_index_values_and_check_types (m_env n) vs expected s = (iterM (each_m n expected) vs ;; ret tt) s) /\
  (forall op, In op covered_ops -> forall n annot vs r s,
     src_ix_BangOperator (m_env n) op (mkBang annot vs r) s = index_bang (S (S n)) op annot vs r s).
Print Assumptions BangOps_model_is_source_partial.

(** every operator of CoreAst.bop is covered, and none of the arms was refused by the translator *)
Theorem BangOps_covered_ops_complete : forall op, In op covered_ops.
Proof. exact covered_ops_complete. Qed.
Check BangOps_covered_ops_complete : forall op, In op covered_ops.
Print Assumptions BangOps_covered_ops_complete.

Theorem BangOps_all_arms_rendered : bang_arms_not_rendered = [].
Proof. reflexivity. Qed.
Check BangOps_all_arms_rendered : bang_arms_not_rendered = [].

(** consequence: for every operator, without the side condition *)
Theorem BangOps_model_is_source_all : forall op n annot vs r s,
  src_ix_BangOperator (m_env n) op (mkBang annot vs r) s = index_bang (S (S n)) op annot vs r s.
Proof.
  intros op. exact (proj2 (proj2 (proj2 (proj2 (proj2 bangops_model_is_source_partial)))) op (covered_ops_complete op)).
Qed.
Check BangOps_model_is_source_all : forall op n annot vs r s,
  src_ix_BangOperator (m_env n) op (mkBang annot vs r) s = index_bang (S (S n)) op annot vs r s.
Print Assumptions BangOps_model_is_source_all.
