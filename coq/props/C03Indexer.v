(** C03 (the analysis returns without panicking, overflowing or hanging), INDEXER part and end-to-end pipeline.
    ONLY statements; proofs: proofs/IndexerTotalBase.v, IndexerTotalValues.v, IndexerTotal.v, IndexerTotalPipeline.v
    (group bridge).  Complements props/C03.v (group symmap: every stored id is allocated, C03 core over the op log).

    The indexer model (model/Scope.v, BangOps.v, Indexer.v, group scope) records every modelled Rust panic and every
    exhaustion of the recursion fuel in the flag [s_bad]: pop of an empty scope stack / file trace, add_variable on an
    empty scope stack, record_mut / multiclass_mut on an unallocated id, template-argument / parent-list / field
    definitions outside of a record, multiclass or defm scope, fuel exhaustion of index_value & co and index_stmt. *)
From Coq Require Import List NArith Bool String.
From TG.Gen Require Import GenTokens GenGrammar.
From TG.Model Require Import Chars Tree ParserPrims GInterp CoreAst AstToCore Scope Indexer Pipeline.
From TG.Proofs Require Import IndexerTotal IndexerTotalPipeline.
Import ListNotations.
Close Scope string_scope.
Open Scope N_scope.

(** THE INDEXER: for EVERY CoreAst workspace (any number of files, any include structure - cycles, repeated and
    missing includes -, any nesting depth, ill-typed and ill-scoped programs alike) indexing with the fuel [ws_fuel w]
    ends with no modelled panic and without running out of fuel.  No hypothesis. *)
Theorem C03_indexer_total_core : forall w : workspace, s_bad (index_ws w) = false.
Proof. exact index_ws_total. Qed.
Check C03_indexer_total_core : forall w : workspace, s_bad (index_ws w) = false.
Print Assumptions C03_indexer_total_core.

(** every statement, from any good state, with any fuel that covers its size plus the files not yet indexed *)
Theorem C03_index_stmt_total : forall files n x s,
  IndexerTotalBase.Good s -> fits files (stmt_size x) n s ->
  IndexerTotalBase.Good (snd (index_stmt files n x s)) /\ IndexerTotalBase.Step s (snd (index_stmt files n x s)).
Proof. intros files n x s G F. destruct (t_index_stmt files n x s G F) as (G' & S' & _). split; assumption. Qed.
Check C03_index_stmt_total : forall files n x s,
  IndexerTotalBase.Good s -> fits files (stmt_size x) n s ->
  IndexerTotalBase.Good (snd (index_stmt files n x s)) /\ IndexerTotalBase.Step s (snd (index_stmt files n x s)).
Print Assumptions C03_index_stmt_total.

(** END TO END: for every in-memory disk and root (no path being a file-system root: `Path::parent() = None` makes
    collect_sources panic, C16) there are fuels with which [Pipeline.analyze] returns: every workspace file parses
    (C02_total), include resolution returns (C16_terminates / C16_links), the bridge returns a Core AST or a
    "noncore" reason (never out of fuel), and on every Core workspace the indexer reaches no modelled panic. *)
Theorem C03_analyze_total : forall (files : list (text * text)) (root : text),
  components root <> [] -> Forall (fun pt => components (fst pt) <> []) files ->
  exists pfuel cfuel a,
    analyze pfuel cfuel files root = Some a /\
    Forall (fun fp => exists t es st, pf_out (snd fp) = ParseOk t es st) (an_files a) /\
    an_core a <> Fuel /\
    (forall w, an_core a = Ok w -> s_bad (an_state w) = false).
Proof. exact analyze_total. Qed.
Check C03_analyze_total : forall (files : list (text * text)) (root : text),
  components root <> [] -> Forall (fun pt => components (fst pt) <> []) files ->
  exists pfuel cfuel a,
    analyze pfuel cfuel files root = Some a /\
    Forall (fun fp => exists t es st, pf_out (snd fp) = ParseOk t es st) (an_files a) /\
    an_core a <> Fuel /\
    (forall w, an_core a = Ok w -> s_bad (an_state w) = false).
Print Assumptions C03_analyze_total.

(** Non-vacuity: a two-file disk (the root includes the other file twice and a missing file; classes, a def with a
    parent and a field let, a multiclass with template argument, a defm, a foreach with a !foreach inside) satisfies
    the hypotheses; with explicit fuels the analysis returns a Core workspace of 2 files, and the indexer leaves
    diagnostics (the missing include) but no panic. *)
Definition c03_main : text :=
  [105;110;99;108;117;100;101;32;34;97;46;116;100;34;10;105;110;99;108;117;100;101;32;34;97;46;116;100;34;10;
   105;110;99;108;117;100;101;32;34;122;46;116;100;34;10;
   100;101;102;32;100;32;58;32;65;60;49;62;32;123;32;108;101;116;32;121;32;61;32;50;59;32;125;10;
   109;117;108;116;105;99;108;97;115;115;32;77;60;105;110;116;32;112;62;32;123;32;100;101;102;32;88;32;123;32;105;110;116;32;119;32;61;32;112;59;32;125;32;125;10;
   100;101;102;109;32;90;32;58;32;77;60;51;62;59;10;
   102;111;114;101;97;99;104;32;105;32;61;32;91;49;44;50;93;32;105;110;32;100;101;102;32;69;35;105;32;123;32;108;105;115;116;60;105;110;116;62;32;108;32;61;32;33;102;111;114;101;97;99;104;40;120;44;32;91;105;93;44;32;33;97;100;100;40;120;44;49;41;41;59;32;125;10].
Definition c03_a : text := [99;108;97;115;115;32;65;60;105;110;116;32;120;62;32;123;32;105;110;116;32;121;32;61;32;120;59;32;125;10].
Definition c03_disk : list (text * text) :=
  [([47;119;47;109;46;116;100], c03_main); ([47;119;47;97;46;116;100], c03_a)].
Example C03_analyze_nonvacuous :
  components [47;119;47;109;46;116;100] <> [] /\ Forall (fun pt => components (fst pt) <> []) c03_disk /\
  exists a w, analyze 400 20 c03_disk [47;119;47;109;46;116;100] = Some a /\ an_core a = Ok w /\
              List.length (ws_files w) = 2%nat /\ List.length (an_diagnostics w) = 1%nat /\ s_bad (an_state w) = false.
Proof.
  split; [vm_compute; discriminate|]. split; [repeat constructor; vm_compute; discriminate|].
  destruct (analyze 400 20 c03_disk [47;119;47;109;46;116;100]) as [a|] eqn:A; [|vm_compute in A; discriminate A].
  assert (Q : (match analyze 400 20 c03_disk [47;119;47;109;46;116;100] with
               | Some a0 => match an_core a0 with
                            | Ok w0 => Nat.eqb (List.length (ws_files w0)) 2 && Nat.eqb (List.length (an_diagnostics w0)) 1
                            | _ => false end
               | None => false end) = true) by (vm_compute; reflexivity).
  rewrite A in Q. destruct (an_core a) as [w| |] eqn:C; try discriminate Q. exists a, w.
  apply andb_true_iff in Q. destruct Q as [Q1 Q2]. apply PeanoNat.Nat.eqb_eq in Q1, Q2.
  repeat split; auto. apply index_ws_total.
Qed.
