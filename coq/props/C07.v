(** C07 Incremental consistency: results never depend on the edit history.

    Statements only; proofs in TG.Proofs.{IncludesGraph,IncludesRefine,HostHistory,HostTheorems}.
    Model: M-host (TG.Model.Includes / TG.Model.Host).  A history is a list of (path, new text)
    operations, each one [touch] = lsp Server::set_file_content (store the text, make the document
    the root, re-walk the include graph): text edits, added/removed include statements and root
    switches are all histories.  Quantification: EVERY path algebra with a decidable equality, EVERY
    world (any disk function, any $INCLUDE_DIR list), EVERY history (induction on the history;
    no bound on its length, on the number of files or on the graph).

    [view st] is the observation of the three salsa inputs keyed by path (FileIds differ between a
    history and a fresh start): root path, and for every file of the source root, in walk order,
    its path, its file_content and its resolved_include_map with the targets translated to paths.
    [overlay w h] is the world "given only the final file contents": the disk overlaid by the last
    text of every touched path.

    Reduction (trusted base, DESIGN section 2): salsa returns for a derived query what the query
    function returns on the current inputs, and the query functions read file_content /
    resolved_include_map only for files of the source root; hence equal views give equal answers
    (tested against the real AnalysisHost by checks/C07.py: every query after every history vs a
    fresh host). *)
From Coq Require Import List NArith Bool.
From TG.Model Require Import Chars Includes Host HostInst FsOps CoreAst AstToCore Pipeline PipelineHost PipelineAll PipelineAllHost.
From TG.Gen Require Import GenFileSystem.
From TG.Proofs Require Import IncludesGraph IncludesRefine HostHistory HostTheorems HostFrame HostTotal HostExamples GenFileSystemEq PipelineHostFresh PipelineHostFrame PipelineHostExample PipelineAllHostProofs.
Import ListNotations.
Local Open Scope nat_scope.

(** after ANY history ending with the touch of [p], the inputs are those of a fresh host that is
    given only the final texts and touches [p] once; they are the breadth-first walk over the final
    texts from [p] and nothing else (nothing of an earlier revision survives) *)
Theorem C07_history_independent :
  forall (path istr : Type) (PA : PathAlg path istr) (PAok : PathAlgOk path istr)
         (w : world path istr) h p c fuel1 fuel2 (st1 st2 : @state path istr),
  run fuel1 w st_init (h ++ [(p, c)]) = Done st1 ->
  run fuel2 (overlay w (h ++ [(p, c)])) st_init [(p, c)] = Done st2 ->
  view st1 = view st2 /\
  exists V, view st1 = Some (p, V) /\
            pcollect (truth w (h ++ [(p, c)])) (extra w) fuel1 [p] [] = Done V.
Proof. exact (@history_independent). Qed.

(** the same without the "both runs return" hypotheses, over a FINITE world: [R] contains every file
    on disk and every touched path (none a file-system root), every text involved has at most [D]
    include statements; then with fuel >= 1 + |R|*(1+D) the session after the history and the fresh
    session both return, with the same view *)
Theorem C07_history_independent_total :
  forall (path istr : Type) (PA : PathAlg path istr) (PAok : PathAlgOk path istr)
         (w : world path istr) h p c R D fuel,
  finite_session w (h ++ [(p, c)]) R D ->
  1 + length R * (1 + D) <= fuel ->
  exists (st1 st2 : @state path istr) V,
    run fuel w st_init (h ++ [(p, c)]) = Done st1 /\
    run fuel (overlay w (h ++ [(p, c)])) st_init [(p, c)] = Done st2 /\
    view st1 = Some (p, V) /\ view st2 = Some (p, V).
Proof. exact (@history_independent_total). Qed.

(** frame, for the MODELLED derived queries (the real handlers: assumed + tested): read through the
    id table - every FileId translated to its path - the workspace, the indexer's whole event trace
    (files entered, declarations, not-found diagnostics; any fuel, including the failing outcomes) and
    document_link of every workspace file are the same after the history and after the fresh start *)
Theorem C07_queries :
  forall (path istr : Type) (PA : PathAlg path istr) (PAok : PathAlgOk path istr)
         (w : world path istr) h p c fuel1 fuel2 (st1 st2 : @state path istr),
  run fuel1 w st_init (h ++ [(p, c)]) = Done st1 ->
  run fuel2 (overlay w (h ++ [(p, c)])) st_init [(p, c)] = Done st2 ->
  workspace_by_path st1 = workspace_by_path st2 /\
  (forall fuelq, index_by_path st1 fuelq = index_by_path st2 fuelq) /\
  (forall q, In q (match workspace_by_path st1 with Some l => l | None => [] end) ->
             links_by_path st1 q = links_by_path st2 q).
Proof. exact (@queries_history_independent). Qed.

(** non-vacuity: a history with several edits of an included file, a removed include and two root
    switches; both runs return; the FileIds differ, the views agree by the theorem *)
Example C07_hypotheses_satisfiable :
  exists st1 st2,
    run 20 ex_world st_init (ex_hist7 ++ [(pa, ca)]) = Done st1 /\
    run 20 (overlay ex_world (ex_hist7 ++ [(pa, ca)])) st_init [(pa, ca)] = Done st2 /\
    option_map (fun v => length (snd v)) (view st1) = Some 4 /\
    ids (fst st1) <> ids (fst st2).
Proof. exact ex_c07. Qed.

(** NOT claimed (API precondition, DESIGN C07): the raw AnalysisHost API - set_file_content of an
    included file WITHOUT set_root_file, a history the server never produces - leaves the include
    map of the edited file stale *)
Theorem C07_raw_api_refuted :
  exists st1 st2,
    raw_state = Done st1 /\
    run 20 (overlay ex_world [(pa, ca); (pb, cb_more)]) st_init [(pa, ca)] = Done st2 /\
    view st1 <> view st2.
Proof. exact raw_api_refuted. Qed.

(** THE MODEL IS THE SOURCE (tie by translation + proof): the rendering of the CURRENT
    crates/ide/src/analysis.rs AnalysisHost::{set_file_content, set_root_file} (TG.Gen.GenFileSystem,
    regenerated on every run) equals [set_fc] / [Includes.set_root_file] for all arguments
    (collect_sources itself: C16_model_is_source) *)
Theorem C07_model_is_source :
  forall (path istr : Type) (PA : PathAlg path istr) (w : world path istr),
  (forall (db : @inputs path istr) f c,
     gen_AnalysisHost_set_file_content (mk_gAnalysisHost db) f c = mk_gAnalysisHost (set_fc db f c)) /\
  (forall fuel db fs root,
     gen_AnalysisHost_set_root_file w (model_fso w) fuel (mk_gAnalysisHost db) fs root =
     match set_root_file fuel w fs db root with
     | Done (fs', db') => Done (mk_gAnalysisHost db', fs')
     | OutOfFuel => OutOfFuel
     | Panic e => Panic e
     end).
Proof. exact (@c07_model_is_source). Qed.

(** C07 FOR THE WHOLE MODELLED PIPELINE (b-bridge's TG.Model.Pipeline: model lexer + preprocessor + parser,
    M-host, the AST -> Core bridge, the indexer and its queries).
    [disk0] = the files on disk (path string, text); [Ht ++ [(p, t)]] = the history of touches (path string, new
    text): text edits, added / removed / retargeted includes, root switches; [final] = the final contents as a
    file list in which earlier entries shadow later ones (latest touch first, then the disk) - exactly how
    [analyze]'s in-memory disk looks a path up.  The history is replayed on M-host with the contents [analyze]
    builds for these texts.  [analyze_from_state] (TG.Model.PipelineHost) assembles the analysis from ANY
    session state, files numbered in walk order; on the fresh state it IS [analyze] ([C07_analyze_is_from_state]).
    Then: from the POST-HISTORY state the pipeline computes the same parsed files, parse errors, Core ASTs, Core
    workspace - hence the same diagnostics, goto_definition and references at every position - as [analyze] from
    scratch over the final contents.  The host state is read only through [view]
    (PipelineHostFrame.from_state_obs); what remains assumed for the real code is the step model query -> real
    query, which the correspondence runs of the checks test. *)
Theorem C07_pipeline_history_independent :
  forall pfuel cfuel1 cfuel2 (disk0 Ht : list (text * text)) (p t : text) (st1 : @Host.state fpath text) an,
  let final := rev (Ht ++ [(p, t)]) ++ disk0 in
  let dfs := disk_files_of pfuel final in
  let n := S (List.length Ht) in
  Host.run cfuel1 (world_of (skipn n dfs)) Host.st_init (rev (firstn n dfs)) = Done st1 ->
  analyze pfuel cfuel2 final p = Some an ->
  exists a1, analyze_from_state pfuel final st1 = Some a1 /\
    an_obs a1 = an_obs an /\
    forall ws1 ws2, an_core a1 = AstToCore.Ok ws1 -> an_core an = AstToCore.Ok ws2 ->
      an_diagnostics ws1 = an_diagnostics ws2 /\
      (forall f pos, an_goto (an_state ws1) f pos = an_goto (an_state ws2) f pos) /\
      (forall f pos, an_references (an_state ws1) f pos = an_references (an_state ws2) f pos).
Proof. exact pipeline_queries_history_independent. Qed.

(** ... and for the COMPLETE modelled analysis (b-bridge's TG.Model.PipelineAll.analyze_all: index state, complete
    symbol map, trees, links, per-file diagnostics): from the post-history state ([all_from_state],
    TG.Model.PipelineAllHost) all NINE queries - goto_definition, references, diagnostics, document_symbol, hover,
    inlay_hint, folding_range, document_link, completion - answer exactly as [analyze_all] from scratch over the
    final contents, at every file number, position and range *)
Theorem C07_nine_queries_history_independent :
  forall pfuel cfuel1 cfuel2 (disk0 Ht : list (text * text)) (p t : text) (st1 : @Host.state fpath text) A,
  let final := rev (Ht ++ [(p, t)]) ++ disk0 in
  let dfs := disk_files_of pfuel final in
  let n := S (List.length Ht) in
  Host.run cfuel1 (world_of (skipn n dfs)) Host.st_init (rev (firstn n dfs)) = Done st1 ->
  analyze_all pfuel cfuel2 final p = Some A ->
  exists A1, all_from_state pfuel final st1 = Some A1 /\
    (forall f pos, q_goto A1 f pos = q_goto A f pos) /\
    (forall f pos, q_references A1 f pos = q_references A f pos) /\
    (forall f, q_diagnostics A1 f = q_diagnostics A f) /\
    (forall f, q_outline A1 f = q_outline A f) /\
    (forall f pos, q_hover A1 f pos = q_hover A f pos) /\
    (forall f lo hi, q_inlay A1 f lo hi = q_inlay A f lo hi) /\
    (forall f, q_folding A1 f = q_folding A f) /\
    (forall f, q_links A1 f = q_links A f) /\
    (forall f pos trig, q_completion A1 f pos trig = q_completion A f pos trig).
Proof. exact nine_queries_history_independent. Qed.

(** [analyze] is [analyze_from_state] of the state after the first touch of a fresh host (there, ascending FileId
    order is walk order: HostAscending.touch_fresh_ascending) *)
Theorem C07_analyze_is_from_state :
  forall pfuel cfuel files root,
  analyze pfuel cfuel files root =
  let dfs := disk_files_of pfuel files in
  let rootp := components root in
  let rc := match Includes.assoc rootp dfs with
            | Some c => c
            | None => {| c_tag := N.of_nat (List.length files); c_items := [] |}
            end in
  match Host.touch cfuel (world_of dfs) Host.st_init rootp rc with
  | Done st => analyze_from_state pfuel files st
  | _ => None
  end.
Proof. exact analyze_is_from_state. Qed.

(** non-vacuity: disk a.td (includes b.td), b.td, c.td; history: a.td retargets its include to c.td, b.td is
    touched (root switch; it now includes a.td), a.td is touched again (root switch back); both sides run inside
    Coq; the history's host knows 3 FileIds, a fresh start 2 *)
Example C07_pipeline_hypotheses_satisfiable :
  exists st1 an ws,
    Host.run 20 (world_of (skipn 3 (disk_files_of 400 px_final))) Host.st_init
             (rev (firstn 3 (disk_files_of 400 px_final))) = Done st1 /\
    analyze 400 20 px_final px_a = Some an /\
    an_core an = AstToCore.Ok ws /\ List.length (ws_files ws) = 2 /\ an_perrs an = [] /\
    List.length (ids (fst st1)) = 3.
Proof. exact pipeline_hypotheses_satisfiable. Qed.

Check C07_history_independent :
  forall (path istr : Type) (PA : PathAlg path istr) (PAok : PathAlgOk path istr)
         (w : world path istr) h p c fuel1 fuel2 (st1 st2 : @state path istr),
  run fuel1 w st_init (h ++ [(p, c)]) = Done st1 ->
  run fuel2 (overlay w (h ++ [(p, c)])) st_init [(p, c)] = Done st2 ->
  view st1 = view st2 /\
  exists V, view st1 = Some (p, V) /\
            pcollect (truth w (h ++ [(p, c)])) (extra w) fuel1 [p] [] = Done V.

Print Assumptions C07_history_independent.
Print Assumptions C07_queries.
Print Assumptions C07_history_independent_total.
Print Assumptions C07_raw_api_refuted.
Print Assumptions C07_model_is_source.
Print Assumptions C07_pipeline_history_independent.
Print Assumptions C07_analyze_is_from_state.
Print Assumptions C07_nine_queries_history_independent.
