(** The model IS the source: handlers/completion.rs `exec` (group outline's translator t_handlers.py -> coq/gen/GenHandlersCompletion.v).
    ONLY theorem statements (each closed by [exact <lemma of proofs/>]), [Check] pins, [Print Assumptions]. *)
From Coq Require Import List NArith Bool.
From TG.Model Require Import SymbolMap HandlerApi HandlerSymApi.
Import ListNotations.
Open Scope N_scope.

(** completion.rs `exec`: the rendering of the function BODY (token left of the cursor, its grand-parent's kind, the trigger test,
    the `match` with the `ast::Type::can_cast` guard) equals group grammar's [Completion.completion_model], whose dispatch is the arm
    TABLE tools/translate/t_completion.py reads from the same function -- for ALL states, trees, offsets and trigger characters.
    The four vocabulary methods and `complete_classes` are the item tables / format constants of GenCompletion.v in both;
    `symbol_map.iter_class()` is [HandlerCompApi.cm_classes] (HashMap order: unspecified, association-list order in the model). *)
From TG.Gen Require GenHandlersCompletion.
From TG.Model Require Completion HandlerCompApi.
From TG.Proofs Require GenHandlersCompletionEq.

Theorem C20_dispatch_is_source : forall M trees pos trig,
  GenHandlersCompletion.src_completion_exec (mkIdb M trees) pos trig =
  Done (Completion.completion_model (HandlerCompApi.cm_classes M) (trees (fst pos)) (snd pos) trig).
Proof. exact GenHandlersCompletionEq.src_completion_exec_eq. Qed.
Check C20_dispatch_is_source : forall M trees pos trig,
  GenHandlersCompletion.src_completion_exec (mkIdb M trees) pos trig =
  Done (Completion.completion_model (HandlerCompApi.cm_classes M) (trees (fst pos)) (snd pos) trig).
Print Assumptions C20_dispatch_is_source.
