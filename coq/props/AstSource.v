(** AstSource: the hand-written methods of crates/syntax/src/ast.rs and the glue of crates/syntax/src/lib.rs are tied to
    the source by TRANSLATION + PROOF.  ONLY statements; proofs in proofs/GenAstMethodsEq.v, proofs/GenLibGlueEq.v.
    gen/GenAstMethods.v (tools/translate/t_astmethods.py) and gen/GenLibGlue.v (t_libglue.py) are regenerated from the
    CURRENT sources on every run; a semantic edit of one of the methods changes the generated file and breaks these
    obligations for every tree. *)
From Coq Require Import List NArith ZArith Bool String.
From TG.Gen Require Import GenTokens GenAst GenLexer GenAstMethods GenLibGlue.
From TG.Model Require Import Chars Tree CoreAst AstAccess AstToCore ParserMonad GInterp RowanApi LibGlueApi.
From TG.Proofs Require Import GenParserEq GenAstMethodsEq GenLibGlueEq.
Import ListNotations.

(** every hand-modelled accessor method of ast.rs: the source rendering returns (without panic) exactly what the
    bridge's hand model (model/AstToCore.v) returns, on every located tree *)
Theorem Ast_methods_are_source : forall (c : cx) (x : lnode),
  gam_Identifier_value x = Some (option_map i_name (m_identifier c x)) /\
  gam_Identifier_range x = Some (option_map (fun i => (r_lo (i_rng i), r_hi (i_rng i))) (m_identifier c x)) /\
  gam_Integer_value x = Some (m_integer_value x) /\
  gam_String_value x = Some (m_string_value x) /\
  gam_SliceSuffix_is_single_element x = Some (m_is_single_element x) /\
  gam_BangOperator_kind x = Some (m_bang_kind x).
Proof.
  intros c x.
  split; [exact (identifier_value_eq c x)|].
  split; [exact (identifier_range_eq c x)|].
  split; [exact (integer_value_eq x)|].
  split; [exact (string_value_eq x)|].
  split; [exact (is_single_element_eq x)|exact (bang_kind_eq x)].
Qed.
Check Ast_methods_are_source : forall (c : cx) (x : lnode),
  gam_Identifier_value x = Some (option_map i_name (m_identifier c x)) /\
  gam_Identifier_range x = Some (option_map (fun i => (r_lo (i_rng i), r_hi (i_rng i))) (m_identifier c x)) /\
  gam_Integer_value x = Some (m_integer_value x) /\
  gam_String_value x = Some (m_string_value x) /\
  gam_SliceSuffix_is_single_element x = Some (m_is_single_element x) /\
  gam_BangOperator_kind x = Some (m_bang_kind x).
Print Assumptions Ast_methods_are_source.

(** the hand-written methods of ast.rs are exactly these nine: six proved equal to the bridge's models above, three
    (no hand model) proved panic-free below; a method added to or removed from ast.rs changes [gen_ast_methods] *)
Theorem Ast_methods_covered : gen_ast_methods =
  [ "SliceSuffix::is_single_element"; "Integer::value"; "String::value"; "Code::value"; "Boolean::value";
    "VarName::value"; "Identifier::value"; "Identifier::range"; "BangOperator::kind" ]%string.
Proof. reflexivity. Qed.
Check Ast_methods_covered : gen_ast_methods =
  [ "SliceSuffix::is_single_element"; "Integer::value"; "String::value"; "Code::value"; "Boolean::value";
    "VarName::value"; "Identifier::value"; "Identifier::range"; "BangOperator::kind" ]%string.

(** `lexer::interpret_number` as Integer::value calls it (the GENERATED lexer function) is the bridge's *)
Theorem Ast_interpret_number_is_source : forall s : text, g_interpret_number s = AstToCore.interpret_number s.
Proof. exact interpret_number_eq. Qed.
Check Ast_interpret_number_is_source : forall s : text, g_interpret_number s = AstToCore.interpret_number s.
Print Assumptions Ast_interpret_number_is_source.

(** the three methods nobody models by hand (Code::value, Boolean::value, VarName::value) never panic *)
Theorem Ast_other_methods_total : forall x : lnode,
  gam_Code_value x <> None /\ gam_Boolean_value x <> None /\ gam_VarName_value x <> None.
Proof. exact other_methods_total. Qed.
Check Ast_other_methods_total : forall x : lnode,
  gam_Code_value x <> None /\ gam_Boolean_value x <> None /\ gam_VarName_value x <> None.
Print Assumptions Ast_other_methods_total.

(** lib.rs: `parse` is the composition the C01/C02/C15 theorems speak about; raw kinds round-trip without panic;
    `syntax_node` is the located root *)
Theorem Lib_glue_is_source :
  (forall fuel p entry txt, glib_parse (fun g => ggexec fuel p (ECall entry None) [] g) txt = gparse_with fuel p entry txt) /\
  (forall k, glib_kind_from_raw (glib_kind_to_raw k) = Some k) /\
  (forall raw k, glib_kind_from_raw raw = Some k -> glib_kind_to_raw k = raw) /\
  (forall g es, glib_syntax_node (mk_parse g es) = (0%N, g)) /\
  (forall g es, glib_source_file (mk_parse g es) = if sk_eqb (kind_of g) S_SourceFile then Some (0%N, g) else None) /\
  (forall g es, glib_errors (mk_parse g es) = es).
Proof.
  split; [exact glib_parse_eq|].
  split; [exact kind_raw_roundtrip|].
  split; [exact kind_from_raw_inverse|].
  split; [exact syntax_node_root|].
  split; [exact source_file_cast|reflexivity].
Qed.
Check Lib_glue_is_source :
  (forall fuel p entry txt, glib_parse (fun g => ggexec fuel p (ECall entry None) [] g) txt = gparse_with fuel p entry txt) /\
  (forall k, glib_kind_from_raw (glib_kind_to_raw k) = Some k) /\
  (forall raw k, glib_kind_from_raw raw = Some k -> glib_kind_to_raw k = raw) /\
  (forall g es, glib_syntax_node (mk_parse g es) = (0%N, g)) /\
  (forall g es, glib_source_file (mk_parse g es) = if sk_eqb (kind_of g) S_SourceFile then Some (0%N, g) else None) /\
  (forall g es, glib_errors (mk_parse g es) = es).
Print Assumptions Lib_glue_is_source.
