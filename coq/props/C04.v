(** Property C04: grammar conformance.  Only statements here; proofs in TG.Proofs.C04Proofs / GramSound.
    [grammar_prog] (the whole recursive-descent grammar), [doc_rules_*] (syntax.md + rule comments) and
    [ast_nodes] are regenerated from the current source on every run. *)
From Coq Require Import List NArith Bool String.
From TG.Gen Require Import GenTokens GenLexTables GenGrammar GenAst GenDocGrammar.
From TG.Model Require Import Chars Lexer Tree ParserPrims GInterp DocGrammar Completion GramAbs GramCert AstAccess AstAccessInst TokSem.
From TG.Model Require Import GramComp.
From TG.Model Require Import Prep.
From TG.Proofs Require Import GramSound AccessProofs TokRefine TokFrame TokComplete TokType TokRange C04Proofs GramCompSound TokLead C04Complete.
Import ListNotations.
Close Scope string_scope.
Open Scope list_scope.

(** every quoted literal of the documented grammar is one token of the lexer model, of the kind the grammar value uses *)
Theorem C04_doc_literals_lex :
  forall l k, In (l, k) doc_literals -> lex_text l = [(k, None, l); (T_Eof, None, [])].
Proof. exact C04_doc_literals_lex_proof. Qed.
Print Assumptions C04_doc_literals_lex.

(** Soundness direction, for ALL texts and ALL fuels: if the parser model returns a tree with ZERO syntax errors, the
    sequence of non-trivia token kinds of that tree (= of the input, by C01) is derivable from SourceFile in the documented
    grammar with the trailing-separator allowance and the listed known accept-deltas ([doc_rules_sound]).
    Contrapositive: a token sequence that is not derivable yields at least one syntax error.
    Full statement (refuted by the known findings accepts:*, see known_findings.txt): the same against [doc_rules_trail]. *)
Theorem C04_errors_or_sentence :
  forall fuel txt t st, parse_with fuel grammar_prog grammar_entry txt = ParseOk t [] st ->
  exists u : list TokenKind,
    derives doc_rules_sound doc_start u /\ map sk_of_tk u = filter (fun k => negb (sk_is_trivia k)) (tkinds t).
Proof. exact C04_errors_or_sentence_proof. Qed.
Print Assumptions C04_errors_or_sentence.

(** the generic theorem behind it: for every grammar program, documented grammar and certificate accepted by the checker *)
Theorem C04_check_all_sound :
  forall G p C cfuel entry start, check_all G p C cfuel entry start = true ->
  forall fuel txt t st, parse_with fuel p entry txt = ParseOk t [] st ->
  exists u : list TokenKind, derives G start u /\ map sk_of_tk u = filter (fun k => negb (sk_is_trivia k)) (tkinds t).
Proof. exact check_all_sound. Qed.
Print Assumptions C04_check_all_sound.

(** Completeness direction, PARTIAL.  Full statement (not proved; covered by the Earley oracle of checks/C04.py only):
      forall u txt, derives doc_rules_must doc_start u -> token kinds of txt = u -> parse of txt has zero errors.
    Proved: the parser model accepts with zero errors every member of the covering set [doc_cover_sentences]
    (one generated sentence per reached alternative of every rule of the documented grammar). *)
Theorem C04_complete_partial :
  forall txt, In txt doc_cover_sentences -> exists t st, parse_with parse_fuel grammar_prog grammar_entry txt = ParseOk t [] st.
Proof. exact C04_complete_partial_proof. Qed.
Print Assumptions C04_complete_partial.

(** Completeness direction, for the COVERED nonterminals and ALL their words, in ALL contexts:
    [fin_covered] = BitType IntType StringType DagType CodeType BitsType ClassId Integer String Code Boolean Uninitialized
                    Identifier RangePiece FieldSuffix Include            (the rules with a finite language; with their functions)
    For every word w of the documented rule (doc_rules_must = syntax.md + rule comments, minus the rejects:* deltas), every
    admissible follower token k ([fin_followers]: COMPUTED; all 112 token kinds except StrVal after String/Include and
    Minus / DotDotDot / IntVal after RangePiece) and every parser state whose upcoming tokens are  w ++ k :: rest  (no lexical
    error token among them), the grammar function returns true having consumed exactly w and recorded NO error - unless the
    model panics (excluded by C02).  Infinite languages are below: Type/ListType (recursion: C04_complete_type), RangeList / RangeSuffix
    (Kleene star: C04_complete_rangelist, C04_complete_rangesuffix).  NOT covered (still only C04_complete_partial + the
    oracle): Value and everything that contains it (the statements); see design/notes-C04.md for what a proof would need. *)
Theorem C04_complete_for : forall nf, In nf fin_covered ->
  forall w k rest s, derives doc_rules_must (fst nf) w -> In k (fin_followers nf) ->
    Toks s (w ++ k :: rest) -> after_err s = false ->
    match gexec cfuel grammar_prog (ECall (snd nf) None) [] s with
    | RPanic => True
    | RVal v _ s' => v = VB true /\ Toks s' (k :: rest) /\ nerr s' = nerr s /\ after_err s' = false
    | _ => False
    end.
Proof. exact C04_complete_for_proof. Qed.
Print Assumptions C04_complete_for.
(** the covered table resolves completely and is not vacuous (every covered rule has words; >= 100 admissible followers) *)
Check fin_covered_resolved : List.length fin_covered = List.length fin_covered_names.
Check fin_covered_nonvacuous.

(** The RECURSIVE nonterminal Type (Type ::= BitType | IntType | StringType | DagType | BitsType | ListType | ClassId,
    ListType ::= "list" "<" Type ">"): EVERY word, every follower token, every context; by induction on the derivation
    (the fuel needed grows with the nesting depth, hence "for all sufficiently large fuels") *)
Theorem C04_complete_type : forall w, derives doc_rules_must nt_Type w ->
  exists n0, forall n k rest s, n0 <= n -> Toks s (w ++ k :: rest) -> after_err s = false ->
    match gexec n grammar_prog (ECall f_type None) [] s with
    | RPanic => True
    | RVal v _ s' => v = VB true /\ Toks s' (k :: rest) /\ nerr s' = nerr s /\ after_err s' = false
    | _ => False
    end.
Proof. exact type_complete_model. Qed.
Print Assumptions C04_complete_type.
Example C04_type_word_example :
  derives doc_rules_must nt_Type [T_List; T_Less; T_List; T_Less; T_Bits; T_Less; T_IntVal; T_Greater; T_Greater; T_Greater].
Proof. exact type_word_example. Qed.

(** A KLEENE STAR: RangeList ::= RangePiece ( "," RangePiece )*  (infinite language; induction on the number of pieces over
    the `while !eof { range_piece(); if !eat_if(,) break }` loop of `range_list`) and RangeSuffix ::= "{" RangeList "}".
    RangeList: every word, every context, every follower except  ,  -  ...  IntVal  (after which the documented grammar
    itself continues the list or the last piece); RangeSuffix: every word, EVERY follower, every context. *)
Theorem C04_complete_rangelist : forall w, derives doc_rules_must nt_RangeList w ->
  exists n0, forall n k rest s, n0 <= n -> In k rl_followers -> Toks s (w ++ k :: rest) -> after_err s = false ->
    match gexec n grammar_prog (ECall f_range_list None) [] s with
    | RPanic => True
    | RVal v _ s' => v = VB true /\ Toks s' (k :: rest) /\ nerr s' = nerr s /\ after_err s' = false
    | _ => False
    end.
Proof. exact range_list_complete_model. Qed.
Print Assumptions C04_complete_rangelist.
Theorem C04_complete_rangesuffix : forall w, derives doc_rules_must nt_RangeSuffix w ->
  exists n0, forall n k rest s, n0 <= n -> Toks s (w ++ k :: rest) -> after_err s = false ->
    match gexec n grammar_prog (ECall f_range_suffix None) [] s with
    | RPanic => True
    | RVal v _ s' => v = VB true /\ Toks s' (k :: rest) /\ nerr s' = nerr s /\ after_err s' = false
    | _ => False
    end.
Proof. exact range_suffix_complete_model. Qed.
Print Assumptions C04_complete_rangesuffix.
Check range_fn_names : fn_name f_range_list = "range_list"%string /\ fn_name f_range_suffix = "range_suffix"%string.
Example C04_rangelist_followers : List.length rl_followers = 108 /\ In T_RBrace rl_followers /\ In T_Greater rl_followers /\ In T_Semi rl_followers.
Proof. vm_compute. tauto. Qed.
Example C04_rangesuffix_word_example :
  derives doc_rules_must nt_RangeSuffix
    [T_LBrace; T_IntVal; T_Comma; T_IntVal; T_Minus; T_IntVal; T_Comma; T_IntVal; T_DotDotDot; T_IntVal; T_RBrace].
Proof. exact range_suffix_example. Qed.

(** ---- Completeness for (almost) the whole documented grammar, by a reflective LL(1)-style checker (model/GramComp.v) ----
    [check_complete G p C fuel] executes every certified grammar function symbolically on ALL words of its nonterminal
    (residuals = partial derivatives of the documented right-hand side; current token split over FIRST / FOLLOW; calls of
    certified functions through the derivative by the callee's nonterminal, falling back to the callee's body; loops by
    saturation with a progress check; anything that records an error, panics or leaves part of the word fails the check).
    The certificate C (function -> nonterminal by NAME, nullable / FIRST tables, FOLLOW sets, ranks) is computed by untrusted
    iteration and VALIDATED by the check.  Soundness, once and for all, for every grammar, program and certificate: *)
Theorem C04_complete_checker_sound : forall G p C fuel, check_complete G p C fuel = true ->
  forall M f w, cc_mode C f = Some M -> (f < List.length (fns p))%nat -> derives G M w ->
  forall tail e en, In (hdT tail) (cc_fol C M) ->
    exists m, texec m p (ECall f None) en (mk_ts (w ++ tail) e) = TVal (VB true) en (mk_ts tail e).
Proof. exact check_complete_sound. Qed.
Print Assumptions C04_complete_checker_sound.
(** [hdT tail] = the first token of what follows the word, or T_Eof when nothing follows (end of input) *)
Check (eq_refl : hdT [] = T_Eof).

(** Instance: the generated grammar program against the documented grammar (doc_rules_must = syntax.md + rule comments minus
    the rejects:* deltas).  [comp_covered] = 64 (nonterminal, function) pairs.  For the 55 nonterminals that cannot reach `If`
    ([comp_iffree]) the statement is about the documented grammar itself: EVERY word w of the nonterminal, every rest of
    input [tail] whose first token (or the end of input) is in the FOLLOW set [comp_followers] (computed; validated), every
    parser state whose upcoming tokens are  w ++ tail : the function returns true, has consumed exactly w and recorded NO
    error (or the model panics: excluded by C02), for all sufficiently large fuels. *)
Theorem C04_complete_all : forall m f, In (m, f) comp_covered -> In m comp_iffree ->
  forall w, derives doc_rules_must m w -> forall tail, In (hdT tail) (comp_followers m) ->
  forall s, Toks s (w ++ tail) -> after_err s = false ->
  exists n0, forall n, (n0 <= n)%nat ->
    match gexec n grammar_prog (ECall f None) [] s with
    | RPanic => True
    | RVal v _ s' => v = VB true /\ Toks s' tail /\ nerr s' = nerr s /\ after_err s' = false
    | _ => False
    end.
Proof. exact comp_complete_doc. Qed.
Print Assumptions C04_complete_all.
(** For the other 9 covered nonterminals (If and what contains statements) the same holds for [comp_grammar] = the
    documented grammar with the rule of `If` RESTRICTED: `if c then if d then X else Y` makes the documented grammar
    ambiguous (dangling else), so "consumes exactly a word of If, whatever admissible token follows" is false for the
    follower `else`.  In [comp_grammar] an `else` may follow a then-branch only if that branch is a block { .. } or a CLOSED
    statement (def, class, defm, defvar, dump, assert, include, defset, multiclass, let / foreach with a block body), i.e.
    one that cannot end in an else-less `if`; everything else about `if` is as documented.  [comp_grammar] only has fewer
    words ([C04_complete_restricted_if_sub], by the validated inclusion test sub_grammar_ok). *)
Theorem C04_complete_restricted_if : forall m f, In (m, f) comp_covered ->
  forall w, derives comp_grammar m w -> forall tail, In (hdT tail) (comp_followers m) ->
  forall s, Toks s (w ++ tail) -> after_err s = false ->
  exists n0, forall n, (n0 <= n)%nat ->
    match gexec n grammar_prog (ECall f None) [] s with
    | RPanic => True
    | RVal v _ s' => v = VB true /\ Toks s' tail /\ nerr s' = nerr s /\ after_err s' = false
    | _ => False
    end.
Proof. exact comp_complete_model. Qed.
Print Assumptions C04_complete_restricted_if.
(** WHOLE FILES, EVERY TEXT.  [text_tokens txt] = the kinds of the tokens the preprocessor model delivers for txt
    ([prep_text], the object of property C15) without trivia - white space, comments, preprocessor directives and the regions
    they disable - and without the final Eof.  [lex_clean txt] is the decidable exclusion: no lexical / preprocessor Error
    token among them (and the run ends with Eof, which it always does).  If the non-trivia token sequence of a text is a
    sentence of the documented grammar (with the restricted `if`), the parser model parses the text with ZERO errors - or
    panics (excluded by C02).  Together with C04_errors_or_sentence this is property C04, on the model, in both
    directions. *)
Theorem C04_complete_parse : forall txt, lex_clean txt = true -> derives comp_grammar nt_SourceFile (text_tokens txt) ->
  exists n0, forall n, (n0 <= n)%nat ->
    parse_with n grammar_prog grammar_entry txt = ParsePanic \/
    exists t st, parse_with n grammar_prog grammar_entry txt = ParseOk t [] st.
Proof. exact comp_complete_any_text. Qed.
Print Assumptions C04_complete_parse.
(* the definitions the statement rests on (printed, not re-checked by conversion: unfolding the lexer on an open text is slow) *)
Print text_tokens. Print text_kinds. Print is_word_kind. Print lex_clean.
(** non-vacuity: a text with comments, white space and a disabled #ifdef region around `def x ;` *)
Example C04_complete_parse_nonvacuous :
  lex_clean comp_example_text2 = true /\ text_tokens comp_example_text2 = [T_Def] ++ [T_Id] ++ [T_Semi] /\
  derives comp_grammar nt_SourceFile ([T_Def] ++ [T_Id] ++ [T_Semi]).
Proof. exact (conj (proj1 comp_example_ntk2) (conj (proj2 comp_example_ntk2) comp_example_sentence)). Qed.
Theorem C04_complete_restricted_if_sub : forall n w, derives comp_grammar n w -> derives doc_rules_must (comp_phi n) w.
Proof. exact comp_grammar_sub. Qed.
(** [comp_phi] is the identity on the documented nonterminals and maps the three added ones (ClosedStatement, LetBlock,
    ForeachBlock) to Statement, Let, Foreach *)
Check comp_phi_id : forallb (fun n => Nat.eqb (comp_phi n) n) (seq 0 (List.length doc_rules_must)) = true.
Example C04_complete_restricted_if_rule : nth_error comp_grammar (nt_of "If"%string) = Some (if_restrict (rule_of "If"%string)).
Proof. vm_compute. reflexivity. Qed.
(** precisely what is covered *)
Example C04_complete_covered_doc : same_strings comp_covered_doc_names
  ["Include"; "String"; "Assert"; "Value"; "InnerValue"; "SimpleValue"; "Integer"; "Code"; "Boolean"; "Uninitialized"; "Bits"; "List";
   "Type"; "BitType"; "IntType"; "StringType"; "DagType"; "BitsType"; "ListType"; "CodeType"; "ClassId"; "Identifier"; "Dag"; "DagArg";
   "ClassValue"; "ArgValueList"; "BangOperator"; "CondOperator"; "CondClause"; "RangeSuffix"; "RangeList"; "RangePiece"; "SliceSuffix";
   "SliceElements"; "SliceElement"; "FieldSuffix"; "Class"; "TemplateArgList"; "TemplateArgDecl"; "RecordBody"; "ParentClassList";
   "ClassRef"; "Body"; "BodyItem"; "FieldDef"; "FieldLet"; "Defvar"; "Dump"; "Def"; "NameValue"; "Defm"; "ForeachIterator";
   "ForeachIteratorInit"; "LetList"; "LetItem"]%string = true.
Proof. vm_compute. reflexivity. Qed.
Example C04_complete_covered_iffree_only : same_strings comp_covered_iffree_only_names
  ["SourceFile"; "StatementList"; "Statement"; "Defset"; "Foreach"; "If"; "Let"; "MultiClass"; "MultiClassStatement"]%string = true.
Proof. vm_compute. reflexivity. Qed.
(** NOT covered: an `else` after a bare then-branch that is an if / let / foreach statement (ambiguity above); the helper
    rules no function parses are unfolded inside the others.  Followers, e.g.: *)
Example C04_complete_followers_value :
  same_kinds (match nt_index "Value"%string with Some m => comp_followers m | None => [] end)
  [T_Then; T_In; T_Equal; T_Greater; T_Semi; T_DotDotDot; T_Minus; T_IntVal; T_BinaryIntVal; T_RBrace; T_RSquare; T_Colon; T_Comma; T_RParen] = true.
Proof. vm_compute. reflexivity. Qed.
Example C04_complete_followers_statement :
  same_kinds (match nt_index "Statement"%string with Some m => comp_followers m | None => [] end)
  [T_Include; T_Class; T_Defset; T_Defvar; T_MultiClass; T_If; T_Eof; T_Assert; T_Def; T_Defm; T_Dump; T_Foreach; T_Let; T_RBrace] = true.
Proof. vm_compute. reflexivity. Qed.
(** non-vacuity: `x # 1` is a word of Value, `def x ;` a word of Def *)
Example C04_complete_value_word : derives doc_rules_must (match nt_index "Value"%string with Some m => m | None => 0 end)
  ([T_Id] ++ ([T_Paste] ++ [T_IntVal]) ++ []).
Proof. exact comp_value_word. Qed.
Example C04_complete_def_word : derives doc_rules_must (match nt_index "Def"%string with Some m => m | None => 0 end)
  ([T_Def] ++ [T_Id] ++ [T_Semi]).
Proof. exact comp_def_word. Qed.

(** The two generic theorems behind it (for EVERY grammar program): the full parser model refines to the token-level
    semantics [texec] (token kinds only), and a token-level run that leaves a token unread is unchanged by appending tokens
    and by a larger initial error count (one-token look-ahead). *)
Theorem C04_token_level_refines : forall p n e en ten s ts, TR s ts -> env_rel en ten ->
  prim_ok (gexec n p e en s) (texec n p e ten ts).
Proof. exact refine. Qed.
Print Assumptions C04_token_level_refines.
Theorem C04_token_level_frame : forall p rest d n e en ts, unread (texec n p e en ts) ->
  texec n p e en (frame rest d ts) = frame_res rest d (texec n p e en ts).
Proof. exact texec_frame. Qed.
Print Assumptions C04_token_level_frame.

(** Typed accessors.  [kid_frames] = for every node kind the possible multisets of child node kinds, computed from
    [grammar_prog] by the reflective analysis of model/AstAccess.v (start_node / start_node_at / finish_node on all paths).
    For every tree node that conforms to one of its frames, every child node - except Error nodes and the known pairs
    (FieldLet.RangeList; the undocumented <Type> suffix of List) - is returned by a typed accessor of ast.rs, and every
    accessor returns an order-preserving sub-sequence of the children (source order).
    NOT proved: that the trees the parser builds conform to [kid_frames] (checked on real trees by checks/C04.py with the
    extracted [tree_conforms]); full statement without the exceptions is refuted ([C04_accessors_cover_refuted]). *)
Theorem C04_accessors_reach :
  forall t f, In (kind_of t, f) kid_frames -> node_conforms f t = true ->
  forall c, In c (node_children t) -> kind_of c <> S_Error -> pair_in (kind_of t, kind_of c) known_unreachable = false ->
  exists a, In a (accessors_of (kind_of t)) /\ In c (access t (acc_kinds a) (acc_mode_of a)) /\
            Sublist (access t (acc_kinds a) (acc_mode_of a)) (node_children t).
Proof. exact C04_accessors_reach_proof. Qed.
Print Assumptions C04_accessors_reach.
Theorem C04_accessors_cover_refuted : covers_all [] kid_frames = false.
Proof. exact accessors_cover_refuted. Qed.

(** the obligation is not vacuous: without the known accept-deltas the same check FAILS on the current grammar ... *)
Theorem C04_check_discriminates :
  check_all doc_rules_trail grammar_prog grammar_cert check_fuel grammar_entry doc_start = false.
Proof. exact check_doc_trail_fails. Qed.
(** ... and the hypothesis of C04_errors_or_sentence is satisfiable *)
Example C04_zero_error_parse_exists :
  exists t st, parse_with 4000 grammar_prog grammar_entry (t_text "class A<int x> : B<1> { let y = [1, 2]; }"%string) = ParseOk t [] st.
Proof. exact zero_error_parse_exists. Qed.
