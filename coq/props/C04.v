(** Property C04: grammar conformance.  Only statements here; proofs in TG.Proofs.C04Proofs / GramSound.
    [grammar_prog] (the whole recursive-descent grammar), [doc_rules_*] (syntax.md + rule comments) and
    [ast_nodes] are regenerated from the current source on every run. *)
From Coq Require Import List NArith Bool String.
From TG.Gen Require Import GenTokens GenLexTables GenGrammar GenAst GenDocGrammar.
From TG.Model Require Import Chars Lexer Tree GInterp DocGrammar Completion GramAbs GramCert AstAccess AstAccessInst.
From TG.Proofs Require Import GramSound AccessProofs C04Proofs.
Import ListNotations.
Close Scope string_scope.
Open Scope list_scope.

(** every quoted literal of the documented grammar is one token of the lexer model, of the kind the grammar value uses *)
Theorem C04_doc_literals_lex :
  forall l k, In (l, k) doc_literals -> lex_text l = [(k, None, l); (T_Eof, None, [])].
Proof. exact C04_doc_literals_lex_proof. Qed.
Print Assumptions C04_doc_literals_lex.

(** Soundness direction, for ALL texts and ALL fuels: if the parser model returns a tree with ZERO syntax errors, the
    sequence of non-trivia token kinds of that tree (= of the input, by C01) is derivable from SourceFile in the documented
    grammar with the trailing-separator allowance and the listed known accept-deltas ([doc_rules_sound]).
    Contrapositive: a token sequence that is not derivable yields at least one syntax error.
    Full statement (refuted by the known findings accepts:*, see known_findings.txt): the same against [doc_rules_trail]. *)
Theorem C04_errors_or_sentence :
  forall fuel txt t st, parse_with fuel grammar_prog grammar_entry txt = ParseOk t [] st ->
  exists u : list TokenKind,
    derives doc_rules_sound doc_start u /\ map sk_of_tk u = filter (fun k => negb (sk_is_trivia k)) (tkinds t).
Proof. exact C04_errors_or_sentence_proof. Qed.
Print Assumptions C04_errors_or_sentence.

(** the generic theorem behind it: for every grammar program, documented grammar and certificate accepted by the checker *)
Theorem C04_check_all_sound :
  forall G p C cfuel entry start, check_all G p C cfuel entry start = true ->
  forall fuel txt t st, parse_with fuel p entry txt = ParseOk t [] st ->
  exists u : list TokenKind, derives G start u /\ map sk_of_tk u = filter (fun k => negb (sk_is_trivia k)) (tkinds t).
Proof. exact check_all_sound. Qed.
Print Assumptions C04_check_all_sound.

(** Completeness direction, PARTIAL.  Full statement (not proved; covered by the Earley oracle of checks/C04.py only):
      forall u txt, derives doc_rules_must doc_start u -> token kinds of txt = u -> parse of txt has zero errors.
    Proved: the parser model accepts with zero errors every member of the covering set [doc_cover_sentences]
    (one generated sentence per reached alternative of every rule of the documented grammar). *)
Theorem C04_complete_partial :
  forall txt, In txt doc_cover_sentences -> exists t st, parse_with parse_fuel grammar_prog grammar_entry txt = ParseOk t [] st.
Proof. exact C04_complete_partial_proof. Qed.
Print Assumptions C04_complete_partial.

(** Typed accessors.  [kid_frames] = for every node kind the possible multisets of child node kinds, computed from
    [grammar_prog] by the reflective analysis of model/AstAccess.v (start_node / start_node_at / finish_node on all paths).
    For every tree node that conforms to one of its frames, every child node - except Error nodes and the known pairs
    (FieldLet.RangeList; the undocumented <Type> suffix of List) - is returned by a typed accessor of ast.rs, and every
    accessor returns an order-preserving sub-sequence of the children (source order).
    NOT proved: that the trees the parser builds conform to [kid_frames] (checked on real trees by checks/C04.py with the
    extracted [tree_conforms]); full statement without the exceptions is refuted ([C04_accessors_cover_refuted]). *)
Theorem C04_accessors_reach :
  forall t f, In (kind_of t, f) kid_frames -> node_conforms f t = true ->
  forall c, In c (node_children t) -> kind_of c <> S_Error -> pair_in (kind_of t, kind_of c) known_unreachable = false ->
  exists a, In a (accessors_of (kind_of t)) /\ In c (access t (acc_kinds a) (acc_mode_of a)) /\
            Sublist (access t (acc_kinds a) (acc_mode_of a)) (node_children t).
Proof. exact C04_accessors_reach_proof. Qed.
Print Assumptions C04_accessors_reach.
Theorem C04_accessors_cover_refuted : covers_all [] kid_frames = false.
Proof. exact accessors_cover_refuted. Qed.

(** the obligation is not vacuous: without the known accept-deltas the same check FAILS on the current grammar ... *)
Theorem C04_check_discriminates :
  check_all doc_rules_trail grammar_prog grammar_cert check_fuel grammar_entry doc_start = false.
Proof. exact check_doc_trail_fails. Qed.
(** ... and the hypothesis of C04_errors_or_sentence is satisfiable *)
Example C04_zero_error_parse_exists :
  exists t st, parse_with 4000 grammar_prog grammar_entry (t_text "class A<int x> : B<1> { let y = [1, 2]; }"%string) = ParseOk t [] st.
Proof. exact zero_error_parse_exists. Qed.
