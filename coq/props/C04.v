(** Property C04: grammar conformance.  Only statements here; proofs in TG.Proofs.C04Proofs. *)
From Coq Require Import List NArith Bool String.
From TG.Gen Require Import GenTokens GenLexTables GenGrammar GenAst GenDocGrammar.
From TG.Model Require Import Chars Lexer Tree GInterp DocGrammar Completion.
From TG.Proofs Require Import C04Proofs.
Import ListNotations.
Close Scope string_scope.
Open Scope list_scope.

(** every quoted literal of the documented grammar is one token of the lexer model, of the kind the grammar value uses *)
Theorem C04_doc_literals_lex :
  forall l k, In (l, k) doc_literals -> lex_text l = [(k, None, l); (T_Eof, None, [])].
Proof. exact C04_doc_literals_lex_proof. Qed.
Print Assumptions C04_doc_literals_lex.
