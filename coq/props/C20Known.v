(** Property C20, known finding D20 (both tables are pinned by snapshot tests of the repository):
    the unrestricted statements are refuted by the faithful model, and every member of the two known
    classes is a real discrepancy.  Kept in a separate module: when the finding is repaired these
    theorems become unprovable and are deleted, while TG.Props.C20 stays valid. *)
From Coq Require Import List NArith Bool String.
From TG.Gen Require Import GenTokens GenLexTables GenCompletion.
From TG.Model Require Import Chars Lexer Completion.
From TG.Proofs Require Import C20Proofs.
Import ListNotations.
Close Scope string_scope.
Open Scope list_scope.
Open Scope N_scope.

Theorem C20_offered_lexes_refuted : exists o, In o offered_bangops /\ ~ bangop_ok o.
Proof. exact C20_offered_refuted_proof. Qed.
Print Assumptions C20_offered_lexes_refuted.

Theorem C20_lexed_offered_refuted :
  exists o k, lexes_as (bang_text o) k /\ is_operator_kind k = true /\ ~ In o offered_bangops.
Proof. exact C20_lexed_refuted_proof. Qed.
Print Assumptions C20_lexed_offered_refuted.

Theorem C20_known_offered_not_lexed_real :
  forall o, In o known_offered_not_lexed -> In o offered_bangops /\ ~ bangop_ok o.
Proof. exact C20_known_offered_not_lexed_real_proof. Qed.
Print Assumptions C20_known_offered_not_lexed_real.

Theorem C20_known_lexed_not_offered_real :
  forall o, In o known_lexed_not_offered ->
            exists k, lexes_as (bang_text o) k /\ is_operator_kind k = true /\ ~ In o offered_bangops.
Proof. exact C20_known_lexed_not_offered_real_proof. Qed.
Print Assumptions C20_known_lexed_not_offered_real.
