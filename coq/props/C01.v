(** C01 Lossless syntax tree.  ONLY statements; proofs are in proofs/ParserTile.v, proofs/GTile.v. *)
From Coq Require Import List NArith.
From TG.Gen Require Import GenTokens GenGrammar GenGrammarCert GenLibGlue.
From TG.Model Require Import Chars Lexer Prep Tree ParserPrims GInterp.
From TG.Model Require Import ParserMonad.
From TG.Proofs Require Import LexBasics ParserTile GTile LookProg ParserTop GenParserEq ParserSource.
Import ListNotations.
Open Scope N_scope.

(** [lossless txt t]: the leaf texts of [t] concatenate to [txt], every leaf range is the running byte
    position of its text, every leaf boundary is a character boundary of [txt]. *)
Definition C01_lossless_stmt (txt : text) (t : tree) : Prop :=
  tree_text t = txt /\
  concat (map leaf_text (leaves t)) = txt /\
  running 0 (leaves t) /\
  Forall (leaf_on_boundary txt) (leaves t).

(** THE PROPERTY, for the grammar regenerated from the current sources: every completed parse of every text,
    with any fuel, yields a lossless tree.  (That a parse always completes is C02_total.)
    Proof: G-tile for every program + A-eof: the certificate check [chk_all]/[chk_eof], evaluated by
    vm_compute on gen/GenGrammar.v + gen/GenGrammarCert.v, shows that source_file returns only at Eof. *)
Theorem C01_lossless :
  forall (fuel : nat) (txt : text) t errs st,
    parse_with fuel grammar_prog grammar_entry txt = ParseOk t errs st -> C01_lossless_stmt txt t.
Proof. exact grammar_lossless. Qed.
Check C01_lossless :
  forall (fuel : nat) (txt : text) t errs st,
    parse_with fuel grammar_prog grammar_entry txt = ParseOk t errs st -> C01_lossless_stmt txt t.
Print Assumptions C01_lossless.

(** The same for EVERY program and certificate accepted by the reflective checks (this is what is re-evaluated
    when the grammar changes). *)
Theorem C01_lossless_checked :
  forall (p : prog) (ce : cert) (entry : nat),
    chk_all p ce entry = true -> chk_eof ce entry = true ->
    forall (fuel : nat) (txt : text) t errs st,
      parse_with fuel p entry txt = ParseOk t errs st -> C01_lossless_stmt txt t.
Proof. exact lossless_checked. Qed.
Check C01_lossless_checked :
  forall (p : prog) (ce : cert) (entry : nat),
    chk_all p ce entry = true -> chk_eof ce entry = true ->
    forall (fuel : nat) (txt : text) t errs st,
      parse_with fuel p entry txt = ParseOk t errs st -> C01_lossless_stmt txt t.
Print Assumptions C01_lossless_checked.

(** For EVERY program of the grammar DSL (whatever tools/translate/t_grammar.py regenerates), every text
    and every fuel: a parse that ends with the look-ahead at Eof yields a lossless tree. *)
Theorem C01_lossless_any_program :
  forall (p : prog) (entry fuel : nat) (txt : text) t errs st,
    parse_with fuel p entry txt = ParseOk t errs st -> cur st = T_Eof -> C01_lossless_stmt txt t.
Proof. exact lossless_any_program. Qed.
Check C01_lossless_any_program :
  forall (p : prog) (entry fuel : nat) (txt : text) t errs st,
    parse_with fuel p entry txt = ParseOk t errs st -> cur st = T_Eof -> C01_lossless_stmt txt t.
Print Assumptions C01_lossless_any_program.

(** Without any hypothesis on where the parse stops: nothing is dropped, duplicated or reordered -- the
    tree text followed by the look-ahead text and the unread source IS the input. *)
Theorem C01_prefix_any_program :
  forall (p : prog) (entry fuel : nat) (txt : text) t errs st,
    parse_with fuel p entry txt = ParseOk t errs st -> tree_text t ++ cur_text st ++ src st = txt.
Proof. exact prefix_any_program. Qed.
Check C01_prefix_any_program :
  forall (p : prog) (entry fuel : nat) (txt : text) t errs st,
    parse_with fuel p entry txt = ParseOk t errs st -> tree_text t ++ cur_text st ++ src st = txt.
Print Assumptions C01_prefix_any_program.

(** The lexer part: the raw tokens of a text concatenate to the text (builder lexprep's lemma). *)
Theorem C01_lexer_lossless : forall txt : text, concat (map rtext (raw_lex txt)) = txt.
Proof. exact raw_lex_concat. Qed.
Check C01_lexer_lossless : forall txt : text, concat (map rtext (raw_lex txt)) = txt.
Print Assumptions C01_lexer_lossless.

(** Non-vacuity: a text with a disabled #ifdef region, an #else region, a non-ASCII error token and
    trailing trivia parses (with the generated grammar) to ParseOk with the look-ahead at Eof. *)
Definition C01_example_text : text :=
  [35; 105; 102; 100; 101; 102; 32; 88; 10; 113; 10; 35; 101; 108; 115; 101; 10; 99; 108; 97; 115; 115; 32; 65; 59;
   32; 233; 10; 35; 101; 110; 100; 105; 102; 10].
Example C01_nonvacuous :
  exists t errs st, parse_with 100 grammar_prog grammar_entry C01_example_text = ParseOk t errs st
                    /\ cur st = T_Eof /\ List.length (leaves t) = 11%nat /\ List.length errs = 2%nat.
Proof. vm_compute. do 3 eexists. repeat split. Qed.

(** * The tie to the source by TRANSLATION + PROOF (in addition to the differential runs)
    [gparse_with] (proofs/GenParserEq.v, builder lexprep) runs a grammar program over the renderings of parser.rs,
    preprocessor.rs and lexer.rs that tools/translate/{t_parser,t_prep,t_lexer}.py regenerate from the CURRENT sources
    on every run (gen/GenParser.v over gen/GenPrep.v over gen/GenLexer.v).  For EVERY program, text and fuel it
    computes exactly what the hand model [parse_with] (model/ParserPrims.v, Prep.v, Lexer.v) computes: any semantic edit
    of one of the three files changes a generated file and breaks this obligation for all inputs. *)
Theorem C01_prims_are_source : forall (fuel : nat) (p : prog) (entry : nat) (txt : text),
  gparse_with fuel p entry txt = parse_view (parse_with fuel p entry txt).
Proof. exact gparse_with_eq. Qed.
Check C01_prims_are_source : forall (fuel : nat) (p : prog) (entry : nat) (txt : text),
  gparse_with fuel p entry txt = parse_view (parse_with fuel p entry txt).
Print Assumptions C01_prims_are_source.

(** hence C01 for the source rendering itself *)
Theorem C01_lossless_source : forall (fuel : nat) (txt : text) t es,
  gparse_with fuel grammar_prog grammar_entry txt = GParseOk t es -> C01_lossless_stmt txt t.
Proof. exact source_lossless. Qed.
Check C01_lossless_source : forall (fuel : nat) (txt : text) t es,
  gparse_with fuel grammar_prog grammar_entry txt = GParseOk t es -> C01_lossless_stmt txt t.
Print Assumptions C01_lossless_source.

(** ... and for `syntax::parse` ITSELF, rendered from the current crates/syntax/src/lib.rs (tools/translate/t_libglue.py,
    gen/GenLibGlue.v: Lexer::new -> PreProcessor::new -> Parser::new -> grammar::source_file -> Parser::finish ->
    `Parse { green_node, errors }`; [ParserSource.lib_parse] = that rendering with the regenerated grammar program as
    `grammar::source_file`): it is [gparse_with], its tree is lossless, `Parse::syntax_node` is that tree located at
    offset 0 and `Parse::errors` the error list. *)
Theorem C01_parse_is_source : forall (fuel : nat) (txt : text),
  lib_parse fuel txt = gparse_with fuel grammar_prog grammar_entry txt.
Proof. exact lib_parse_is_gparse. Qed.
Check C01_parse_is_source : forall (fuel : nat) (txt : text),
  lib_parse fuel txt = gparse_with fuel grammar_prog grammar_entry txt.
Print Assumptions C01_parse_is_source.

Theorem C01_lossless_lib_parse : forall (fuel : nat) (txt : text) t es,
  lib_parse fuel txt = GParseOk t es ->
  C01_lossless_stmt txt t /\ glib_syntax_node (mk_parse t es) = (0, t) /\ glib_errors (mk_parse t es) = es.
Proof. exact lib_parse_lossless. Qed.
Check C01_lossless_lib_parse : forall (fuel : nat) (txt : text) t es,
  lib_parse fuel txt = GParseOk t es ->
  C01_lossless_stmt txt t /\ glib_syntax_node (mk_parse t es) = (0, t) /\ glib_errors (mk_parse t es) = es.
Print Assumptions C01_lossless_lib_parse.
