(** THE COMPLETE ANALYSIS IN COQ (group bridge).  ONLY statements; proofs: proofs/PipelineAllProofs.v, PipelineAllRanges.v.

    model/PipelineAll.v [analyze_all] = Pipeline.analyze (texts -> modelled parser -> include resolution -> typed AST)
    + the indexer model + the complete symbol map + the trees + the document links + the per-file diagnostics, and the
    nine queries of crates/ide as functions of that record, each computed by the model of the group owning the handler:
      q_goto q_references (Scope.v)   q_diagnostics (handlers/diagnostics.rs merge)   q_outline q_hover q_inlay (Outline.v,
      DocComments.v)   q_folding (Folding.v)   q_links (Host.document_link)   q_completion (Completion.v).
    Correspondence with the real Analysis for all nine: tools/bridge_selftest.py stage check_all (extraction unit
    "bridgeall"), at every offset / file / sampled inlay-hint range. *)
From Coq Require Import List NArith Bool String.
From TG.Gen Require Import GenTokens GenGrammar GenCompletion.
From TG.Model Require Import Chars Tree ParserPrims GInterp CoreAst AstToCore Scope Indexer Pipeline PipelineAll.
From TG.Model Require SymbolMap SymbolWf IndexerOps OutlineIndex Outline DocComments SymbolClosed.
From TG.Proofs Require Import BridgeSymbol PipelineAllProofs PipelineAllRanges.
From TG.Proofs Require BridgeText IndexerPipeline SymbolClosedProofs.
Import ListNotations.
Close Scope string_scope.
Open Scope N_scope.

(** The joined symbol map [aa_sm] is CONSERVATIVE over b-symmap's abstraction of the indexer model: same interval maps,
    same index diagnostics, same define_loc / reference_locs entry by entry.  Every reader of positions answers on it
    what it answers on [IndexerOps.abs (index_ws w)]: the statements of C03 / C06 / C09 / C17 about that state hold for
    the state the nine handlers are evaluated on. *)
Theorem PipelineAll_conservative : forall pfuel cfuel files root A,
  analyze_all pfuel cfuel files root = Some A ->
  let S := IndexerOps.abs (index_ws (aa_ws A)) in
  (forall f p, q_goto_sm A f p = SymbolMap.goto_definition S f p) /\
  (forall f p, q_references_sm A f p = SymbolMap.references S f p) /\
  (forall loc, SymbolMap.iter_symbols_in_range (aa_sm A) loc = SymbolMap.iter_symbols_in_range S loc) /\
  SymbolMap.sm_diags (aa_sm A) = SymbolMap.sm_diags S.
Proof. exact q_sm_is_abs. Qed.
Check PipelineAll_conservative : forall pfuel cfuel files root A,
  analyze_all pfuel cfuel files root = Some A ->
  let S := IndexerOps.abs (index_ws (aa_ws A)) in
  (forall f p, q_goto_sm A f p = SymbolMap.goto_definition S f p) /\
  (forall f p, q_references_sm A f p = SymbolMap.references S f p) /\
  (forall loc, SymbolMap.iter_symbols_in_range (aa_sm A) loc = SymbolMap.iter_symbols_in_range S loc) /\
  SymbolMap.sm_diags (aa_sm A) = SymbolMap.sm_diags S.
Print Assumptions PipelineAll_conservative.

(** what the record contains *)
Theorem PipelineAll_fields : forall pfuel cfuel files root A,
  analyze_all pfuel cfuel files root = Some A ->
  analyze pfuel cfuel files root = Some (aa_an A) /\ an_core (aa_an A) = Ok (aa_ws A) /\
  aa_st A = index_ws (aa_ws A) /\
  aa_sm A = fst (full_state (index_ws (aa_ws A)) (OutlineIndex.oix (aa_ws A))) /\
  aa_trees A = map (fun fp : N * pfile => pf_tree (snd fp)) (an_files (aa_an A)) /\
  aa_diags A = map (fun kp : N * (N * pfile) => diags_of_file (aa_an A) (aa_st A) (fst kp)) (number_from 0 (an_files (aa_an A))).
Proof. exact analyze_all_inv. Qed.
Print Assumptions PipelineAll_fields.

(** TOTALITY, end to end: for every in-memory disk and root (no path being a file-system root) there are fuels with
    which the pipeline returns; on every Core workspace [analyze_all] returns the record, the indexer model and its
    outline slice reach no modelled panic, and the symbol-map readers (find_symbol_at behind goto_definition and
    references; iter_symbols_in_range behind inlay_hint) do not fail on the joined state.  The six answers without an
    error channel (q_goto q_references q_diagnostics q_folding q_links q_completion) are total functions.
    (q_outline / q_hover / q_inlay: their `expect("invalid id")` lookups go through payload ids; see
    PipelineAll_handlers_total_if_closed below.) *)
Theorem analyze_all_total : forall (files : list (text * text)) (root : text),
  components root <> [] -> Forall (fun pt => components (fst pt) <> []) files ->
  exists pfuel cfuel a,
    analyze pfuel cfuel files root = Some a /\
    Forall (fun fp => exists t es st, pf_out (snd fp) = ParseOk t es st) (an_files a) /\
    an_core a <> Fuel /\
    (forall w, an_core a = Ok w ->
       exists A, analyze_all pfuel cfuel files root = Some A /\ aa_an A = a /\ aa_ws A = w /\
         s_bad (aa_st A) = false /\
         OutlineIndex.oi_bad (OutlineIndex.oix w) = false /\
         (forall f p, exists o, q_goto_sm A f p = SymbolMap.SOk o) /\
         (forall f p, exists o, q_references_sm A f p = SymbolMap.SOk o) /\
         (forall loc, exists o, SymbolMap.iter_symbols_in_range (aa_sm A) loc = SymbolMap.SOk o)).
Proof. exact PipelineAllRanges.analyze_all_total. Qed.
Check analyze_all_total : forall (files : list (text * text)) (root : text),
  components root <> [] -> Forall (fun pt => components (fst pt) <> []) files ->
  exists pfuel cfuel a,
    analyze pfuel cfuel files root = Some a /\
    Forall (fun fp => exists t es st, pf_out (snd fp) = ParseOk t es st) (an_files a) /\
    an_core a <> Fuel /\
    (forall w, an_core a = Ok w ->
       exists A, analyze_all pfuel cfuel files root = Some A /\ aa_an A = a /\ aa_ws A = w /\
         s_bad (aa_st A) = false /\
         OutlineIndex.oi_bad (OutlineIndex.oix w) = false /\
         (forall f p, exists o, q_goto_sm A f p = SymbolMap.SOk o) /\
         (forall f p, exists o, q_references_sm A f p = SymbolMap.SOk o) /\
         (forall loc, exists o, SymbolMap.iter_symbols_in_range (aa_sm A) loc = SymbolMap.SOk o)).
Print Assumptions analyze_all_total.

(** The three handlers that follow payload ids (`expect("invalid … id")`): on an id-closed joined state
    (model/SymbolClosed.v [sm_closedb]: every id in a payload, a per-file symbol list or an interval map is allocated and
    every payload has the shape of its arena -- an executable check that the extracted analysis evaluates on every
    workspace ("closed") and tools/bridge_selftest.py requires to be true) they never fail.  A CHECKED hypothesis, not a
    theorem about the two indexer models. *)
Theorem PipelineAll_handlers_total_if_closed : forall A : all_answers,
  SymbolClosed.sm_closedb (aa_sm A) = true ->
  (forall f, exists o, q_outline A f = SymbolMap.SOk o) /\
  (forall f p, exists o, q_hover A f p = SymbolMap.SOk o) /\
  (forall f lo hi, exists o, q_inlay A f lo hi = SymbolMap.SOk o).
Proof.
  intros A C. split; [|split].
  - intros f. exact (SymbolClosedProofs.document_symbol_ok _ C f).
  - intros f p. exact (SymbolClosedProofs.hover_ok _ C _ f p).
  - intros f lo hi. exact (SymbolClosedProofs.inlay_hint_ok _ C _ _).
Qed.
Check PipelineAll_handlers_total_if_closed : forall A : all_answers,
  SymbolClosed.sm_closedb (aa_sm A) = true ->
  (forall f, exists o, q_outline A f = SymbolMap.SOk o) /\
  (forall f p, exists o, q_hover A f p = SymbolMap.SOk o) /\
  (forall f lo hi, exists o, q_inlay A f lo hi = SymbolMap.SOk o).
Print Assumptions PipelineAll_handlers_total_if_closed.

(** RANGE VALIDITY (C17 for the whole record): every range in the definition / references answers and in the symbol
    list of a range, every diagnostic range of every file (syntax errors and index diagnostics, as merged per file) and
    every folding range names a workspace file and lies on character boundaries inside that file's text.  Composed from
    C17_pipeline_core, C17_pipeline_diagnostics, C17_parse_ranges_valid (b-symmap) through PipelineAll_conservative. *)
Theorem analyze_all_ranges_valid : forall pfuel cfuel files root A,
  analyze_all pfuel cfuel files root = Some A ->
  let ws := an_texts (aa_an A) in
  (forall f p t, q_goto_sm A f p = SymbolMap.SOk (Some t) -> SymbolWf.range_valid ws t = true) /\
  (forall f p rs r, q_references_sm A f p = SymbolMap.SOk (Some rs) -> In r rs -> SymbolWf.range_valid ws r = true) /\
  (forall loc l r s, SymbolMap.iter_symbols_in_range (aa_sm A) loc = SymbolMap.SOk (Some l) -> In (r, s) l ->
     SymbolWf.range_valid ws r = true) /\
  (forall f l lo hi m, q_diagnostics A f = Some l -> In (lo, hi, m) l -> SymbolWf.range_valid ws (SymbolMap.mkFR f lo hi) = true) /\
  (forall f l r, q_folding A f = Some l -> In r l -> SymbolWf.range_valid ws (SymbolMap.mkFR f (fst r) (snd r)) = true).
Proof. exact PipelineAllRanges.analyze_all_ranges_valid. Qed.
Check analyze_all_ranges_valid : forall pfuel cfuel files root A,
  analyze_all pfuel cfuel files root = Some A ->
  let ws := an_texts (aa_an A) in
  (forall f p t, q_goto_sm A f p = SymbolMap.SOk (Some t) -> SymbolWf.range_valid ws t = true) /\
  (forall f p rs r, q_references_sm A f p = SymbolMap.SOk (Some rs) -> In r rs -> SymbolWf.range_valid ws r = true) /\
  (forall loc l r s, SymbolMap.iter_symbols_in_range (aa_sm A) loc = SymbolMap.SOk (Some l) -> In (r, s) l ->
     SymbolWf.range_valid ws r = true) /\
  (forall f l lo hi m, q_diagnostics A f = Some l -> In (lo, hi, m) l -> SymbolWf.range_valid ws (SymbolMap.mkFR f lo hi) = true) /\
  (forall f l r, q_folding A f = Some l -> In r l -> SymbolWf.range_valid ws (SymbolMap.mkFR f (fst r) (snd r)) = true).
Print Assumptions analyze_all_ranges_valid.

(** NON-VACUITY: `class A<int x> { int y = x; }` / `def d : A<1> { let y = !add(y, 2); }` (one file).  All nine answers
    computed inside Coq: definition of the `A` in the parent list, references of the class, no diagnostics, the outline
    (class A with template argument x and field y; def d with field y), the hover signatures "class A<int x>" and
    "int x", both kinds of inlay hints ("x:" before the argument 1, ":int" after the overridden y), two folding ranges,
    no links, the statement keywords at offset 0 and the value keywords inside the argument list. *)
Definition pa_ex : option all_answers :=
  analyze_all 200 10 [(IndexerPipeline.pipe_ex_path, BridgeText.bridge_example_text)] IndexerPipeline.pipe_ex_path.
Theorem PipelineAll_nonvacuous : exists A, pa_ex = Some A /\
  aa_sm_ok A = true /\
  SymbolClosed.sm_closedb (aa_sm A) = true /\
  q_goto A 0 38 = Some (mkR 0 6 7) /\
  q_references A 0 6 = Some [mkR 0 38 39] /\
  q_goto_sm A 0 38 = SymbolMap.SOk (Some (SymbolMap.mkFR 0 6 7)) /\
  q_diagnostics A 0 = Some [] /\
  q_outline A 0 = SymbolMap.SOk (Some
    [Outline.DocSym [65] [99; 108; 97; 115; 115] 6 7 Outline.DKClass
       [Outline.DocSym [120] [105; 110; 116] 12 13 Outline.DKTemplateArgument [];
        Outline.DocSym [121] [105; 110; 116] 21 22 Outline.DKField []];
     Outline.DocSym [100] [100; 101; 102] 34 35 Outline.DKDef
       [Outline.DocSym [121] [105; 110; 116] 49 50 Outline.DKField []]]) /\
  q_hover A 0 38 = SymbolMap.SOk (Some ([99; 108; 97; 115; 115; 32; 65; 60; 105; 110; 116; 32; 120; 62], DocComments.DocNone)) /\
  q_hover A 0 25 = SymbolMap.SOk (Some ([105; 110; 116; 32; 120], DocComments.DocNone)) /\
  q_inlay A 0 0 100 = SymbolMap.SOk (Some [Outline.mkHint 40 [120; 58] Outline.HKTemplateArg;
                                           Outline.mkHint 50 [58; 105; 110; 116] Outline.HKFieldLet]) /\
  q_folding A 0 = Some [(0, 29); (30, 66)] /\
  q_links A 0 = Some [] /\
  option_map (@List.length _) (q_completion A 0 0 None) = Some 12%nat /\
  q_completion A 0 41 None = Some [([102; 97; 108; 115; 101], None, IKKeyword); ([116; 114; 117; 101], None, IKKeyword)].
Proof.
  destruct pa_ex as [A|] eqn:E; [|vm_compute in E; discriminate].
  exists A. split; [reflexivity|].
  assert (H : Some A = pa_ex) by (symmetry; exact E). clear E.
  vm_compute in H. inversion H; subst A; clear H.
  repeat split; vm_compute; reflexivity.
Qed.
Print Assumptions PipelineAll_nonvacuous.
