(** Bridge (integration, not a property of properties.jsonl): the statements about the typed-AST layer
    model/AstToCore.v (tree -> CoreAst through the accessor table regenerated from ast.rs) and the end-to-end
    pipeline model/Pipeline.v.  ONLY statements; proofs are in proofs/BridgeProofs.v, BridgeText.v, ShapeSound.v,
    PipelineProofs.v.  See design/notes-bridge.md. *)
From Coq Require Import List NArith Bool String.
From TG.Gen Require Import GenTokens GenAst GenGrammar.
From TG.Model Require Import Chars Lexer Prep Tree ParserPrims GInterp AstAccess CoreAst AstToCore CoreParts ShapeChk Pipeline.
From TG.Model Require Import SymbolMap SymbolWf BridgeToks TreeComplete.
From TG.Proofs Require Import BridgeProofs BridgeText ShapeSound PipelineProofs BridgeSymbol IdNonEmpty BridgeLinear BridgeNoDup BridgeComplete.
Import ListNotations.
Close Scope string_scope.
Open Scope N_scope.

(** the located accessors of the bridge are the accessors of AstAccess.v (interpreted from gen/GenAst.v) *)
Theorem Bridge_accessors : forall x ks m, map snd (laccess x ks m) = access (snd x) ks m.
Proof. exact laccess_access. Qed.
Check Bridge_accessors : forall x ks m, map snd (laccess x ks m) = access (snd x) ks m.
Print Assumptions Bridge_accessors.

(** (c) totality: on EVERY tree the bridge returns a Core AST or a "noncore" reason, never out of fuel *)
Theorem Bridge_total : forall file links t, core_of_tree file links t <> Fuel.
Proof. exact core_of_tree_total. Qed.
Check Bridge_total : forall file links t, core_of_tree file links t <> Fuel.
Print Assumptions Bridge_total.

(** ... and from EVERY text, with the parser of the current grammar *)
Theorem Bridge_total_text : forall file links txt,
  exists fuel, (exists ss, core_of_text fuel file links txt = Some (Ok ss)) \/
               (exists why, core_of_text fuel file links txt = Some (Err why)).
Proof. exact core_of_text_total. Qed.
Check Bridge_total_text : forall file links txt,
  exists fuel, (exists ss, core_of_text fuel file links txt = Some (Ok ss)) \/
               (exists why, core_of_text fuel file links txt = Some (Err why)).
Print Assumptions Bridge_total_text.

(** (a) every range of the Core AST (identifier ranges included) is the range of a node or of a token of the tree *)
Theorem Bridge_ranges_in_tree : forall file links t ss,
  core_of_tree file links t = Ok ss ->
  Forall (fun r => r_file r = file /\ in_tree t (r_lo r) (r_hi r)) (file_rngs ss).
Proof. exact core_ranges_in_tree. Qed.
Check Bridge_ranges_in_tree : forall file links t ss,
  core_of_tree file links t = Ok ss ->
  Forall (fun r => r_file r = file /\ in_tree t (r_lo r) (r_hi r)) (file_rngs ss).
Print Assumptions Bridge_ranges_in_tree.

(** ... hence (C01_lossless) delimits a slice of the parsed text: lo = bytes of a prefix, hi = lo + bytes of the slice *)
Theorem Bridge_ranges_in_text : forall fuel file links txt ss,
  core_of_text fuel file links txt = Some (Ok ss) ->
  Forall (fun r => r_file r = file /\ slice_of txt (r_lo r) (r_hi r)) (file_rngs ss).
Proof. exact core_ranges_in_text. Qed.
Check Bridge_ranges_in_text : forall fuel file links txt ss,
  core_of_text fuel file links txt = Some (Ok ss) ->
  Forall (fun r => r_file r = file /\ slice_of txt (r_lo r) (r_hi r)) (file_rngs ss).
Print Assumptions Bridge_ranges_in_text.

(** (b) every identifier of the Core AST is an Id TOKEN of the parse tree with exactly its range and its text
    (for every parse of the current grammar; the shape of Identifier nodes is a theorem: ShapeSound) *)
Theorem Bridge_idents_are_id_tokens : forall fuel file links txt t errs st ss,
  parse_with fuel grammar_prog grammar_entry txt = ParseOk t errs st ->
  core_of_tree file links t = Ok ss ->
  Forall (fun i => r_file (i_rng i) = file /\
                   In (S_Id, r_lo (i_rng i), r_hi (i_rng i), i_name i) (leaves t)) (file_idents ss).
Proof. exact core_idents_are_id_tokens_parsed. Qed.
Check Bridge_idents_are_id_tokens : forall fuel file links txt t errs st ss,
  parse_with fuel grammar_prog grammar_entry txt = ParseOk t errs st ->
  core_of_tree file links t = Ok ss ->
  Forall (fun i => r_file (i_rng i) = file /\
                   In (S_Id, r_lo (i_rng i), r_hi (i_rng i), i_name i) (leaves t)) (file_idents ss).
Print Assumptions Bridge_idents_are_id_tokens.

(** for EVERY grammar program that passes the syntactic check (what is re-evaluated when grammar/*.rs changes) *)
Theorem Bridge_ident_shape_checked : forall p entry, shape_chk_prog p = true ->
  forall fuel txt t errs st, parse_with fuel p entry txt = ParseOk t errs st -> ident_shape t = true.
Proof. exact parse_ident_shape. Qed.
Check Bridge_ident_shape_checked : forall p entry, shape_chk_prog p = true ->
  forall fuel txt t errs st, parse_with fuel p entry txt = ParseOk t errs st -> ident_shape t = true.
Print Assumptions Bridge_ident_shape_checked.

(** include targets of the Core AST are targets of the links handed to the bridge *)
Theorem Bridge_targets : forall file links t ss,
  core_of_tree file links t = Ok ss -> Forall (link_tgt links) (file_targets ss).
Proof. exact core_targets_are_links. Qed.
Check Bridge_targets : forall file links t ss,
  core_of_tree file links t = Ok ss -> Forall (link_tgt links) (file_targets ss).
Print Assumptions Bridge_targets.

(** THE PIPELINE: the workspace handed to the indexer model is well formed w.r.t. the texts of its files: one
    statement list per file; ranges and identifiers of file k carry the number k and are slices of file k's text
    (an identifier's name being the slice); every include target is the number of a workspace file *)
Theorem Bridge_pipeline_wf : forall pfuel cfuel files root a w,
  analyze pfuel cfuel files root = Some a -> an_core a = Ok w ->
  ws_wf (map (fun fp => pf_text (snd fp)) (an_files a)) w.
Proof. exact analyze_wf. Qed.
Check Bridge_pipeline_wf : forall pfuel cfuel files root a w,
  analyze pfuel cfuel files root = Some a -> an_core a = Ok w ->
  ws_wf (map (fun fp => pf_text (snd fp)) (an_files a)) w.
Print Assumptions Bridge_pipeline_wf.

(** for EVERY program of the grammar DSL: every Id token of every tree the parser returns is non-empty *)
Theorem Bridge_id_tokens_nonempty : forall p entry fuel txt t errs st,
  parse_with fuel p entry txt = ParseOk t errs st ->
  forall lo hi tx, In (S_Id, lo, hi, tx) (leaves t) -> tx <> [] /\ lo < hi.
Proof. exact parse_id_nonempty. Qed.
Check Bridge_id_tokens_nonempty : forall p entry fuel txt t errs st,
  parse_with fuel p entry txt = ParseOk t errs st ->
  forall lo hi tx, In (S_Id, lo, hi, tx) (leaves t) -> tx <> [] /\ lo < hi.
Print Assumptions Bridge_id_tokens_nonempty.

(** A locally complete tree IS Core: [tree_complete] (model/TreeComplete.v) is a decidable LOCAL condition - every node has
    the children the bridge insists on for its kind, Identifier nodes have a token, bits lengths are in 0 .. 2^63-1,
    BangOperator nodes start with one of the 51 operators.  Contrapositive: every "noncore" refusal is a local defect of
    some node.  (That an error-free parse is locally complete - up to the bits-length refusal - is the remaining,
    grammar-level half; the pipeline reports [tree_complete] per file and the self-test checks it on every input.) *)
Theorem Bridge_complete_is_core : forall file links cs,
  tree_complete (Node S_SourceFile cs) = true -> exists ss, core_of_tree file links (Node S_SourceFile cs) = Ok ss.
Proof. exact complete_is_core. Qed.
Check Bridge_complete_is_core : forall file links cs,
  tree_complete (Node S_SourceFile cs) = true -> exists ss, core_of_tree file links (Node S_SourceFile cs) = Ok ss.
Print Assumptions Bridge_complete_is_core.

(** the bridge is LINEAR: the identifier occurrences of the CoreAst of a parsed file have pairwise different ranges
    (every Identifier node is visited at most once; different accessor fields select different children: a check on
    the generated table, BridgeLinear.field_nonoverlap); per file of every workspace of the pipeline *)
Theorem Bridge_idents_nodup : forall fuel file links txt t errs st ss,
  parse_with fuel grammar_prog grammar_entry txt = ParseOk t errs st ->
  core_of_tree file links t = Ok ss -> NoDup (map i_rng (file_idents ss)).
Proof. exact core_idents_nodup. Qed.
Check Bridge_idents_nodup : forall fuel file links txt t errs st ss,
  parse_with fuel grammar_prog grammar_entry txt = ParseOk t errs st ->
  core_of_tree file links t = Ok ss -> NoDup (map i_rng (file_idents ss)).
Print Assumptions Bridge_idents_nodup.
Theorem Bridge_pipeline_idents_nodup : forall pfuel cfuel files root a w,
  analyze pfuel cfuel files root = Some a -> an_core a = Ok w ->
  forall k fl, nth_error (ws_files w) k = Some fl -> NoDup (map i_rng (file_idents fl)).
Proof. exact pipeline_idents_nodup. Qed.
Check Bridge_pipeline_idents_nodup : forall pfuel cfuel files root a w,
  analyze pfuel cfuel files root = Some a -> an_core a = Ok w ->
  forall k fl, nth_error (ws_files w) k = Some fl -> NoDup (map i_rng (file_idents fl)).
Print Assumptions Bridge_pipeline_idents_nodup.

(** the side conditions of group symmap (model/SymbolWf.v) on the MODEL side: the identifier-token list of ANY trees
    satisfies [toks_sorted] (hypothesis of C06_coherent / C06_total / C03) *)
Theorem Bridge_toks_sorted : forall trees, toks_sorted (ws_id_toks trees) = true.
Proof. exact ws_id_toks_sorted. Qed.
Check Bridge_toks_sorted : forall trees, toks_sorted (ws_id_toks trees) = true.
Print Assumptions Bridge_toks_sorted.

(** ... and for EVERY analysis of the pipeline that yields a Core workspace: every identifier of the CoreAst is
    non-empty and found in that list by [tok_name] with its name ([def_ok] / [op_coh_ok]'s test on the ranges and names the
    indexer hands to the symbol map), every range of the CoreAst is [range_valid] (C17's [op_range_ok]) *)
Theorem Bridge_symbol_side_conditions : forall pfuel cfuel files root a w,
  analyze pfuel cfuel files root = Some a -> an_core a = Ok w ->
  toks_sorted (ws_id_toks (an_trees a)) = true /\
  forall k fl, nth_error (ws_files w) k = Some fl ->
    Forall (fun i => r_lo (i_rng i) < r_hi (i_rng i) /\
                     tok_name (ws_id_toks (an_trees a)) (mkFR (r_file (i_rng i)) (r_lo (i_rng i)) (r_hi (i_rng i))) = Some (i_name i))
           (file_idents fl) /\
    Forall (fun r => range_valid (an_texts a) (mkFR (r_file r) (r_lo r) (r_hi r)) = true) (file_rngs fl).
Proof. exact pipeline_symbol_side_conditions. Qed.
Check Bridge_symbol_side_conditions : forall pfuel cfuel files root a w,
  analyze pfuel cfuel files root = Some a -> an_core a = Ok w ->
  toks_sorted (ws_id_toks (an_trees a)) = true /\
  forall k fl, nth_error (ws_files w) k = Some fl ->
    Forall (fun i => r_lo (i_rng i) < r_hi (i_rng i) /\
                     tok_name (ws_id_toks (an_trees a)) (mkFR (r_file (i_rng i)) (r_lo (i_rng i)) (r_hi (i_rng i))) = Some (i_name i))
           (file_idents fl) /\
    Forall (fun r => range_valid (an_texts a) (mkFR (r_file r) (r_lo r) (r_hi r)) = true) (file_rngs fl).
Print Assumptions Bridge_symbol_side_conditions.

(** Non-vacuity: parser + bridge on a Core program (vm_compute) *)
Example Bridge_nonvacuous :
  exists t errs st ss,
    parse_with 200 grammar_prog grammar_entry bridge_example_text = ParseOk t errs st /\ errs = [] /\
    ident_shape t = true /\
    core_of_tree 0 [] t = Ok ss /\ List.length ss = 2%nat /\ List.length (file_idents ss) = 8%nat.
Proof. exact bridge_nonvacuous. Qed.
