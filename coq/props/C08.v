(** Property C08 — Server liveness: no interleaving of edits and requests deadlocks the server.
    Statements only; proofs are in TG.Proofs.SchedProofs / SchedTraceProofs.
    Vocabulary (TG.Model.Sched): the lock protocol of crates/lsp/src/server.rs as a labelled transition system:
      main loop executing a script (list of [mact]); any number of snapshot tasks (workers), each with the
      skeleton (list of [wact]) fixed at spawn; V = the vfs RwLock ([vw], [wv], queued writer [vwait], policy =
      ANY function of the reader count deciding whether a new reader passes a queued writer), Q = the salsa revision
      lock (shared by a worker until [WDrop], exclusive for [MBar]/[MQW]), P = the published_files mutex.
      [exec pol l s] = the step of thread [l] (LMain, LMainWait = main queues as a writer, LWorker i);
      [reach], [run] its closures; [final] = script finished and every task finished (its response is sent);
      [stuck] = no thread can step.  [script_ok] = the static discipline "no salsa write while V is write-held unless no
      snapshot is live; V released at the end; spawned skeletons take one lock at a time and release what they
      take" — a decidable check; [script_of items] = the script of the real server (after fix 0d12b07) for ANY
      sequence of didOpen/didChange notifications and requests of the eight kinds, [script_old] the same before
      the fix. *)
From Coq Require Import List Bool Arith.
From TG.Model Require Import Sched SchedTrace.
From TG.Gen Require Import GenServerSkel.
From TG.Proofs Require Import SchedProofs SchedWaitFree SchedTraceProofs SchedSource.
Import ListNotations.

(** Deadlock freedom: in every reachable state that is not final some thread can step.  For every policy,
    every script passing [script_ok] (any number of handlers, requests, tasks). *)
Theorem C08_deadlock_free : forall (P : Type) (pol : policy) (script : list (mact P)) (s : st P),
  script_ok false true script = true -> reach pol (init script) s -> ~ final s ->
  exists l s', exec pol l s = Some s'.
Proof. exact @deadlock_free. Qed.
Check C08_deadlock_free : forall (P : Type) (pol : policy) (script : list (mact P)) (s : st P),
  script_ok false true script = true -> reach pol (init script) s -> ~ final s ->
  exists l s', exec pol l s = Some s'.
Print Assumptions C08_deadlock_free.

(** Termination: every step decreases [measure]; every schedule (any sequence of steps, from any state) has at
    most [measure s] steps. *)
Theorem C08_terminates : forall (P : Type) (pol : policy) (tr : list label) (s s' : st P),
  run pol tr s = Some s' -> length tr + measure s' <= measure s.
Proof. exact @run_bounded. Qed.
Check C08_terminates : forall (P : Type) (pol : policy) (tr : list label) (s s' : st P),
  run pol tr s = Some s' -> length tr + measure s' <= measure s.
Print Assumptions C08_terminates.

(** Liveness of the real server: for every sequence of messages, every policy, every reachable state:
    a stuck state is final; a final state is reachable; in a final state there is one finished task per
    message (every request got its response, every notification was processed and its diagnostics task ran).
    Together with [C08_terminates]: every maximal schedule is finite and ends in such a state.  "Maximal" is
    the fairness assumption: the tokio blocking pool eventually runs every spawned task (trusted base). *)
Theorem C08_live : forall (P : Type) (pol : policy) (items : list (item P)) (s : st P),
  reach pol (init (script_of items)) s ->
  (stuck pol s -> final s) /\
  (exists tr s', run pol tr s = Some s' /\ final s') /\
  (final s -> length (ws s) = length items /\ forall w, In w (ws s) -> rem w = []).
Proof. exact @server_live. Qed.
Check C08_live : forall (P : Type) (pol : policy) (items : list (item P)) (s : st P),
  reach pol (init (script_of items)) s ->
  (stuck pol s -> final s) /\
  (exists tr s', run pol tr s = Some s' /\ final s') /\
  (final s -> length (ws s) = length items /\ forall w, In w (ws s) -> rem w = []).
Print Assumptions C08_live.

(** Tasks never wait for the main loop nor for each other: in every reachable state of the real server's
    protocol every unfinished task can step (its vfs.read() and mutex acquisitions are never blocked), so a
    request is answered as soon as its own task has been scheduled [length (skeleton kind)] times - weak
    fairness towards that one task is enough. *)
Theorem C08_tasks_never_blocked : forall (P : Type) (pol : policy) (items : list (item P)) (s : st P) (i : nat) (w : worker P),
  reach pol (init (script_of items)) s -> nth_error (ws s) i = Some w -> rem w <> [] ->
  exists s', exec pol (LWorker i) s = Some s'.
Proof. exact @tasks_never_blocked. Qed.
Check C08_tasks_never_blocked : forall (P : Type) (pol : policy) (items : list (item P)) (s : st P) (i : nat) (w : worker P),
  reach pol (init (script_of items)) s -> nth_error (ws s) i = Some w -> rem w <> [] ->
  exists s', exec pol (LWorker i) s = Some s'.
Print Assumptions C08_tasks_never_blocked.

(** The protocol the theorems above speak about IS the one of the current sources: gen/GenServerSkel.v is regenerated on
    every run from crates/lsp/src/server.rs + from_proto.rs by tools/translate/t_server.py (the ordered synchronisation
    operations of every LanguageServer handler, of set_file_content / update_diagnostics / spawn_with_snapshot and of the
    from_proto lookups they call, hook points included); every request skeleton, the diagnostics task, the didOpen and
    didChange scripts and hence the script of ANY message sequence, assembled from the generated pieces only, equal
    the model's. *)
Theorem C08_protocol_is_source : forall (P : Type),
  (forall k : kind, gen_skeleton k = @skeleton P k) /\
  (forall pubs : list P, gen_diag pubs = diag pubs) /\
  (forall (k : nat) (pubs : list P), gen_main_did_open k pubs = handler k pubs /\ gen_main_did_change k pubs = handler k pubs) /\
  (forall k : kind, gen_request k = @block P (IReq k)) /\
  (forall items : list (item P), gen_script items = script_of items).
Proof. exact @skeletons_are_source. Qed.
Check C08_protocol_is_source : forall (P : Type),
  (forall k : kind, gen_skeleton k = @skeleton P k) /\
  (forall pubs : list P, gen_diag pubs = diag pubs) /\
  (forall (k : nat) (pubs : list P), gen_main_did_open k pubs = handler k pubs /\ gen_main_did_change k pubs = handler k pubs) /\
  (forall k : kind, gen_request k = @block P (IReq k)) /\
  (forall items : list (item P), gen_script items = script_of items).
Print Assumptions C08_protocol_is_source.

(** Non-vacuity: a reachable, non-final state of the real protocol with a live request task and a live
    diagnostics task (didOpen; definition request; didChange). *)
Example C08_nonvacuous : exists (tr : list label) (s : st nat),
  run WriterPref tr (init (script_of [INotif 1 [7]; IReq (KDefinition true); INotif 0 [8; 9]])) = Some s /\
  ~ final s /\ length (ws s) = 2 /\ noq (ws s) = false.
Proof. exact nonvacuous. Qed.

(** Sanity: before fix 0d12b07 (no barrier) didOpen immediately followed by didChange reaches, under every
    policy, a state where nobody can step and that is not final: main holds the vfs write lock and waits for
    the salsa write, the diagnostics task of didOpen holds its snapshot and waits for vfs.read(). *)
Theorem C08_old_deadlocks : forall (P : Type) (pol : policy) (p : P),
  exists tr s, run pol tr (init (script_old [INotif 0 [p]; INotif 0 [p]])) = Some s /\ stuck pol s /\ ~ final s.
Proof. exact @old_deadlocks. Qed.
Check C08_old_deadlocks : forall (P : Type) (pol : policy) (p : P),
  exists tr s, run pol tr (init (script_old [INotif 0 [p]; INotif 0 [p]])) = Some s /\ stuck pol s /\ ~ final s.
Print Assumptions C08_old_deadlocks.

(** The trace-inclusion checker used by checks/C08.py on hook-H2 traces of the real server only executes steps of
    the LTS: an accepted event sequence is the observable projection of a run. *)
Theorem C08_trace_checker_sound : forall (P : Type) (od : bool) (pol : policy) (evs : list ev) (pos : nat) (s : st P) (b : bool),
  accepts od pol evs pos s = Accepted b -> exists tr s', run pol tr s = Some s' /\ final_b s' = b.
Proof. exact @accepts_sound. Qed.
Check C08_trace_checker_sound : forall (P : Type) (od : bool) (pol : policy) (evs : list ev) (pos : nat) (s : st P) (b : bool),
  accepts od pol evs pos s = Accepted b -> exists tr s', run pol tr s = Some s' /\ final_b s' = b.
Print Assumptions C08_trace_checker_sound.
