(** C02 Parser totality.  ONLY statements; proofs are in proofs/{ParserTile,GTile,LookProg*,ParserMsgs,ParserTop}.v. *)
From Coq Require Import List NArith String.
From TG.Gen Require Import GenTokens GenGrammar GenGrammarCert.
From TG.Model Require Import Chars Lexer Prep Tree ParserPrims GInterp.
From TG.Model Require Import ParserMonad.
From TG.Proofs Require Import LexBasics ParserTile GTile LookProg BldAn ParserMsgs CostAn CostSound ParserWork ParserTop GenParserEq ParserSource.
Import ListNotations.

(** THE PROPERTY (termination + panic-freedom), for the grammar regenerated from the current sources: on EVERY text
    the model of syntax::parse returns a tree and an error list -- it neither runs out of fuel (no loop without
    progress, no left recursion) nor reaches a panic: no failing `assert!(eat_if(k))`, no `expect("error token without
    message")`, no GreenNodeBuilder assertion (finish_node on an empty stack, stale checkpoint, finish() with other
    than one root), no ill-typed local.  Proof: three reflective checks evaluated by vm_compute on
    gen/GenGrammar.v + gen/GenGrammarCert.v ([chk_all]: A-look + A-prog; [bchk_all]: A-bld) and their soundness
    theorems (LookProgSound.term_main, SafeSound.safe_sound) + the tiling invariant of the primitives. *)
Theorem C02_total : forall txt : text, exists fuel t errs st, parse_with fuel grammar_prog grammar_entry txt = ParseOk t errs st.
Proof. exact grammar_total. Qed.
Check C02_total : forall txt : text, exists fuel t errs st, parse_with fuel grammar_prog grammar_entry txt = ParseOk t errs st.
Print Assumptions C02_total.

(** the same for EVERY program, certificate and signature table accepted by the reflective checks *)
Theorem C02_total_checked : forall (p : prog) (ce : cert) (sigs : list fsig) (entry : nat),
  chk_all p ce entry = true -> bchk_all p sigs entry = true ->
  forall txt : text, exists fuel t errs st, parse_with fuel p entry txt = ParseOk t errs st.
Proof. exact parse_total. Qed.
Check C02_total_checked : forall (p : prog) (ce : cert) (sigs : list fsig) (entry : nat),
  chk_all p ce entry = true -> bchk_all p sigs entry = true ->
  forall txt : text, exists fuel t errs st, parse_with fuel p entry txt = ParseOk t errs st.
Print Assumptions C02_total_checked.

(** Capstone (C01 + C02 together): on EVERY text the parser model returns a tree and an error list; the tree is
    lossless, every error is well-formed, the work is linear in the number of raw tokens. *)
Theorem C02_parse_spec : forall txt : text, exists fuel t errs st,
  parse_with fuel grammar_prog grammar_entry txt = ParseOk t errs st /\
  lossless txt t /\
  Forall (error_wf txt) errs /\
  (N.to_nat (nlex st) + N.to_nat (nstart st) <= grammar_K * (List.length (raw_lex txt) + 1))%nat.
Proof. exact grammar_parse_spec. Qed.
Print Assumptions C02_parse_spec.

(** Termination (A-prog): for the grammar regenerated from the current sources, on EVERY text, the parser does not run
    out of fuel for some fuel -- every loop iteration consumes a token or exits, there is no left recursion.
    Proof: certificate check [chk_all] (vm_compute on gen/GenGrammar.v + gen/GenGrammarCert.v) + its soundness
    theorem (lexicographic induction on measure at function entry, rank, measure, expression). *)
Theorem C02_terminates : forall txt : text, exists fuel, parse_with fuel grammar_prog grammar_entry txt <> ParseOOF.
Proof. exact grammar_terminates. Qed.
Check C02_terminates : forall txt : text, exists fuel, parse_with fuel grammar_prog grammar_entry txt <> ParseOOF.
Print Assumptions C02_terminates.

(** the same for EVERY program and certificate accepted by the reflective check *)
Theorem C02_terminates_checked : forall (p : prog) (ce : cert) (entry : nat), chk_all p ce entry = true ->
  forall txt : text, exists fuel, parse_with fuel p entry txt <> ParseOOF.
Proof. exact parse_terminates. Qed.
Check C02_terminates_checked : forall (p : prog) (ce : cert) (entry : nat), chk_all p ce entry = true ->
  forall txt : text, exists fuel, parse_with fuel p entry txt <> ParseOOF.
Print Assumptions C02_terminates_checked.

(** Linear work (A-cost): the work counters of a completed parse -- calls of ParserBase::lex plus calls of
    ParserBase::start_node -- are at most [grammar_K] times (number of raw lexer tokens + 1), for EVERY text.
    [grammar_K] is computed from the regenerated grammar (null-work bound per function, loop overheads, ranks).
    Proof: potential W + B * msr; a consumed token pays B units and leaves slack for the enclosing loop iteration
    and for the chain of wrapper functions entered before it (strictly decreasing ranks); CostSound.cost_sound. *)
Theorem C02_linear : forall fuel txt t errs st,
  parse_with fuel grammar_prog grammar_entry txt = ParseOk t errs st ->
  (N.to_nat (nlex st) + N.to_nat (nstart st) <= grammar_K * (List.length (raw_lex txt) + 1))%nat.
Proof. exact grammar_linear. Qed.
Check C02_linear : forall fuel txt t errs st,
  parse_with fuel grammar_prog grammar_entry txt = ParseOk t errs st ->
  (N.to_nat (nlex st) + N.to_nat (nstart st) <= grammar_K * (List.length (raw_lex txt) + 1))%nat.
Print Assumptions C02_linear.
Eval vm_compute in (N.of_nat grammar_K).

(** the same for EVERY program, certificate and constant table accepted by the reflective checks *)
Theorem C02_linear_checked : forall (p : prog) (ce : cert) (entry : nat) (k : cconsts),
  chk_all p ce entry = true -> cchk p ce k = true ->
  forall fuel txt t errs st, parse_with fuel p entry txt = ParseOk t errs st ->
  (N.to_nat (nlex st) + N.to_nat (nstart st) <= lin_K k entry * (List.length (raw_lex txt) + 1))%nat.
Proof. exact parse_linear. Qed.
Print Assumptions C02_linear_checked.

(** Work accounting (every program): the counters are the size of the tree -- nlex = 1 + leaves,
    nstart <= nodes (+ nodes left open) -- so the bound above is a bound on the size of the syntax tree, which is
    what the check measures on the real parser (rowan: one node per start_node(_at), one leaf per token()). *)
Theorem C02_work_is_tree_size : forall (p : prog) (entry fuel : nat) txt t errs st,
  parse_with fuel p entry txt = ParseOk t errs st ->
  N.to_nat (nlex st) = S (List.length (leaves t)) /\
  (N.to_nat (nstart st) <= nnodes t + List.length (parents (bld st)))%nat.
Proof. exact work_accounting. Qed.
Print Assumptions C02_work_is_tree_size.

(** Every syntax error reported has a non-empty message and a range inside the text on character boundaries. *)
Definition C02_error_wf (txt : text) (e : N * N * parse_msg) : Prop :=
  let '(lo, hi, m) := e in
  msg_text m <> EmptyString /\ (lo <= hi)%N /\ (hi <= bytes txt)%N /\ on_char_boundary txt lo /\ on_char_boundary txt hi.
Theorem C02_errors_wellformed : forall fuel txt t errs st,
  parse_with fuel grammar_prog grammar_entry txt = ParseOk t errs st -> Forall (C02_error_wf txt) errs.
Proof. exact grammar_errors_wf. Qed.
Check C02_errors_wellformed : forall fuel txt t errs st,
  parse_with fuel grammar_prog grammar_entry txt = ParseOk t errs st -> Forall (C02_error_wf txt) errs.
Print Assumptions C02_errors_wellformed.

(** The token stream never panics in a state that satisfies the tiling invariant (every reachable state does:
    GTile.gexec_tile): an Error token always has a pending message (`expect("error token without message")`),
    and the trivia loop of skip() terminates. *)
Theorem C02_token_stream_total : forall txt s, Tile txt s ->
  (exists s', p_eat s = Some s') /\ (exists s', p_skip_all s = Some s') /\ (forall k m, exists s', p_expect s k m = Some s').
Proof. exact stream_total. Qed.
Check C02_token_stream_total : forall txt s, Tile txt s ->
  (exists s', p_eat s = Some s') /\ (exists s', p_skip_all s = Some s') /\ (forall k m, exists s', p_expect s k m = Some s').
Print Assumptions C02_token_stream_total.
Theorem C02_reachable_states_tile : forall txt p n e en,
  match gexec n p e en (p_new txt) with RVal _ _ s | RBrk _ s | RRet _ _ s => Tile txt s | _ => True end.
Proof. intros. apply (gexec_tile txt p n e en (p_new txt) (p_new_tile txt)). Qed.
Print Assumptions C02_reachable_states_tile.

(** * The tie to the source by TRANSLATION + PROOF (see props/C01.v: C01_prims_are_source) *)
Theorem C02_prims_are_source : forall (fuel : nat) (p : prog) (entry : nat) (txt : text),
  gparse_with fuel p entry txt = parse_view (parse_with fuel p entry txt).
Proof. exact gparse_with_eq. Qed.
Check C02_prims_are_source : forall (fuel : nat) (p : prog) (entry : nat) (txt : text),
  gparse_with fuel p entry txt = parse_view (parse_with fuel p entry txt).
Print Assumptions C02_prims_are_source.

(** hence C02 for the source rendering itself (generated ParserBase methods over the generated preprocessor over the
    generated lexer, driven by the regenerated grammar program): on EVERY text a tree and an error list -- no panic of
    parser.rs (assert!, expect("error token without message"), TextRange::new), of the modelled rowan builder, of the
    lexer's unreachable!() -- the tree is lossless, every error well-formed; and no fuel at all leads to a panic. *)
Definition C02_serror_wf (txt : text) (e : syntax_error) : Prop :=
  let '(lo, hi, m) := e in
  m <> EmptyString /\ (lo <= hi)%N /\ (hi <= bytes txt)%N /\ on_char_boundary txt lo /\ on_char_boundary txt hi.
Theorem C02_total_source : forall txt : text, exists fuel t es,
  gparse_with fuel grammar_prog grammar_entry txt = GParseOk t es /\ lossless txt t /\ Forall (C02_serror_wf txt) es.
Proof. exact source_total. Qed.
Print Assumptions C02_total_source.
Theorem C02_source_never_panics : forall fuel (txt : text), gparse_with fuel grammar_prog grammar_entry txt <> GParsePanic.
Proof. exact source_never_panics. Qed.
Print Assumptions C02_source_never_panics.

(** ... and for `syntax::parse` ITSELF as rendered from the current crates/syntax/src/lib.rs (t_libglue.py,
    gen/GenLibGlue.v; [ParserSource.lib_parse]): same function, total, never panics *)
Theorem C02_parse_is_source : forall (fuel : nat) (txt : text),
  lib_parse fuel txt = gparse_with fuel grammar_prog grammar_entry txt.
Proof. exact lib_parse_is_gparse. Qed.
Print Assumptions C02_parse_is_source.
Theorem C02_total_lib_parse : forall txt : text, exists fuel t es,
  lib_parse fuel txt = GParseOk t es /\ lossless txt t /\ Forall (C02_serror_wf txt) es.
Proof. exact lib_parse_total. Qed.
Print Assumptions C02_total_lib_parse.
Theorem C02_lib_parse_never_panics : forall fuel (txt : text), lib_parse fuel txt <> GParsePanic.
Proof. exact lib_parse_never_panics. Qed.
Print Assumptions C02_lib_parse_never_panics.

(** Non-vacuity: an input with an unterminated string, an unterminated #ifdef and a stray character parses to ParseOk
    with 3 errors. *)
Definition C02_example_text : text :=
  [35; 105; 102; 100; 101; 102; 32; 88; 10; 35; 101; 108; 115; 101; 10; 100; 101; 102; 32; 120; 32; 123; 32; 105; 110;
   116; 32; 118; 32; 61; 32; 34; 97; 98; 99; 10; 64]%N.
Example C02_nonvacuous :
  exists t errs st, parse_with 100 grammar_prog grammar_entry C02_example_text = ParseOk t errs st /\ (3 <= List.length errs)%nat.
Proof. vm_compute. do 3 eexists. split; [reflexivity|]. repeat constructor. Qed.
