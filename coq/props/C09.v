(** Property C09 — Location fidelity: ranges sent to the client denote the analysed span.
    Statements only; proofs are in TG.Proofs.ServerProofs (plumbing) on top of TG.Proofs.LineIndexImpl (C10: the model
    of line_index.rs / to_proto.rs computes the specification [pos_of]).
    Vocabulary (TG.Model.ServerProto, part 2): [content f] = the text of file f in the snapshot; [h_*] = the model of
    the conversion step of each handler of server.rs (which LineIndex it takes, what to_proto does with it), with
    explicit Panic outcomes; the ide-level result is the argument; URIs are identified with file ids.
    [spec_range content f r] = ([pos_of (content f) (fst r)], [pos_of (content f) (snd r)]): the LSP range that
    DENOTES the byte range r in the current text of file f (C10_line / C10_roundtrip say what pos_of means).
    Hypotheses: [small f] (the file is below 4 GiB) and [range_ok f r] (the analysis returned offsets on character
    boundaries of the file the result names: property C17). *)
From Coq Require Import List Bool Arith NArith.
From TG.Model Require Import Chars LineIndex ServerProto.
From TG.Gen Require Import GenServerConv GenLineIndex.
From TG.Model Require Import SymbolMap SymbolWf.
From TG.Model Require CoreAst AstToCore Indexer IndexerOps Pipeline PipelineAll.
From TG.Proofs Require BridgeSymbol.
From TG.Proofs Require Import ServerProofs ServerSource ServerPipeline.
Import ListNotations.
Open Scope N_scope.

(** textDocument/definition: the location is expressed in the coordinates of the file IT names. *)
Theorem C09_definition : forall (content : file -> text) (reqf : file) (loc : file * rng),
  small content reqf -> small content (fst loc) -> range_ok content (fst loc) (snd loc) ->
  h_definition content reqf (Some loc) = Ok (Some (fst loc, spec_range content (fst loc) (snd loc))).
Proof. exact c09_definition. Qed.
Check C09_definition : forall (content : file -> text) (reqf : file) (loc : file * rng),
  small content reqf -> small content (fst loc) -> range_ok content (fst loc) (snd loc) ->
  h_definition content reqf (Some loc) = Ok (Some (fst loc, spec_range content (fst loc) (snd loc))).
Print Assumptions C09_definition.

(** textDocument/references: every location with the table of its own file. *)
Theorem C09_references : forall (content : file -> text) (reqf : file) (locs : list (file * rng)),
  small content reqf ->
  (forall it, In it locs -> small content (fst it) /\ range_ok content (fst it) (snd it)) ->
  h_references content reqf (Some locs) =
    Ok (Some (map (fun it => (fst it, spec_range content (fst it) (snd it))) locs)).
Proof. exact c09_references. Qed.
Check C09_references : forall (content : file -> text) (reqf : file) (locs : list (file * rng)),
  small content reqf ->
  (forall it, In it locs -> small content (fst it) /\ range_ok content (fst it) (snd it)) ->
  h_references content reqf (Some locs) =
    Ok (Some (map (fun it => (fst it, spec_range content (fst it) (snd it))) locs)).
Print Assumptions C09_references.

(** documentSymbol (whole tree, range and selectionRange), foldingRange (start/end line), inlayHint (position),
    documentLink (range in the requested file, target = the linked file). *)
Theorem C09_document_symbol : forall (content : file -> text) (f : file) (l : list dsym),
  small content f -> (forall s, In s l -> sym_ok content f s) ->
  h_document_symbol content f (Some l) = Ok (Some (map (spec_symbol content f) l)).
Proof. exact c09_document_symbol. Qed.
Check C09_document_symbol : forall (content : file -> text) (f : file) (l : list dsym),
  small content f -> (forall s, In s l -> sym_ok content f s) ->
  h_document_symbol content f (Some l) = Ok (Some (map (spec_symbol content f) l)).
Print Assumptions C09_document_symbol.

Theorem C09_folding_range : forall (content : file -> text) (f : file) (l : list rng),
  small content f -> h_folding_range content f (Some l) = Ok (Some (map (spec_lines content f) l)).
Proof. exact c09_folding_range. Qed.
Check C09_folding_range : forall (content : file -> text) (f : file) (l : list rng),
  small content f -> h_folding_range content f (Some l) = Ok (Some (map (spec_lines content f) l)).
Print Assumptions C09_folding_range.

Theorem C09_inlay_hint : forall (content : file -> text) (f : file) (l : list N),
  small content f -> (forall o, In o l -> on_char_boundary (content f) o) ->
  h_inlay_hint content f (Some l) = Ok (Some (map (pos_of (content f)) l)).
Proof. exact c09_inlay_hint. Qed.
Check C09_inlay_hint : forall (content : file -> text) (f : file) (l : list N),
  small content f -> (forall o, In o l -> on_char_boundary (content f) o) ->
  h_inlay_hint content f (Some l) = Ok (Some (map (pos_of (content f)) l)).
Print Assumptions C09_inlay_hint.

Theorem C09_document_link : forall (content : file -> text) (f : file) (l : list (rng * file)),
  small content f -> (forall x, In x l -> range_ok content f (fst x)) ->
  h_document_link content f (Some l) = Ok (Some (map (fun x => (spec_range content f (fst x), snd x)) l)).
Proof. exact c09_document_link. Qed.
Check C09_document_link : forall (content : file -> text) (f : file) (l : list (rng * file)),
  small content f -> (forall x, In x l -> range_ok content f (fst x)) ->
  h_document_link content f (Some l) = Ok (Some (map (fun x => (spec_range content f (fst x), snd x)) l)).
Print Assumptions C09_document_link.

(** publishDiagnostics: every entry of the diagnostic map is sent under the URI of ITS file with ranges in that
    file's coordinates. *)
Theorem C09_diagnostics : forall (content : file -> text) (M : Type) (dm : list (file * list (rng * M))),
  (forall e, In e dm -> small content (fst e) /\ forall d, In d (snd e) -> range_ok content (fst e) (fst d)) ->
  h_diagnostics content dm =
    Ok (map (fun e => (fst e, map (fun d => (spec_range content (fst e) (fst d), snd d)) (snd e))) dm).
Proof. exact c09_diagnostics. Qed.
Check C09_diagnostics : forall (content : file -> text) (M : Type) (dm : list (file * list (rng * M))),
  (forall e, In e dm -> small content (fst e) /\ forall d, In d (snd e) -> range_ok content (fst e) (fst d)) ->
  h_diagnostics content dm =
    Ok (map (fun e => (fst e, map (fun d => (spec_range content (fst e) (fst d), snd d)) (snd e))) dm).
Print Assumptions C09_diagnostics.

(** The plumbing model the theorems above speak about IS the data flow of the current sources: gen/GenServerConv.v is
    regenerated on every run by tools/translate/t_serverconv.py from crates/lsp/src/server.rs, to_proto.rs and
    from_proto.rs - for every handler which file's LineIndex converts each location (the requesting document's, or
    `snap.analysis.line_index(<value>.file)` of the very value converted, or the key of the publish loop), which file the
    URI is made from, which to_proto wrapper is applied (scalar / element-wise), and for every wrapper which primitive
    is applied to which field with the LineIndex parameter - and equals the model's h_* functions; the primitives
    to_proto::{range, position, folding_range} are rendered from the source by t_lineindex.py (gen/GenLineIndex.v) and
    equal the model's (group "lines"). *)
Theorem C09_plumbing_is_source : forall (content : file -> text),
  (forall reqf r, gen_h_definition content reqf r = h_definition content reqf r) /\
  (forall reqf r, gen_h_references content reqf r = h_references content reqf r) /\
  (forall reqf r, gen_h_document_symbol content reqf r = h_document_symbol content reqf r) /\
  (forall reqf r, gen_h_folding_range content reqf r = h_folding_range content reqf r) /\
  (forall reqf r, gen_h_inlay_hint content reqf r = h_inlay_hint content reqf r) /\
  (forall reqf r, gen_h_document_link content reqf r = h_document_link content reqf r) /\
  (forall (M : Type) (dm : list (file * list (rng * M))), gen_h_diagnostics content dm = h_diagnostics content dm) /\
  (forall li r, src_to_proto_range li r = to_proto_range li r) /\
  (forall li o, src_to_proto_position li o = to_proto_position li o) /\
  (forall li r, src_to_proto_folding_range li r = to_proto_folding_range li r).
Proof. exact plumbing_is_source. Qed.
Check C09_plumbing_is_source : forall (content : file -> text),
  (forall reqf r, gen_h_definition content reqf r = h_definition content reqf r) /\
  (forall reqf r, gen_h_references content reqf r = h_references content reqf r) /\
  (forall reqf r, gen_h_document_symbol content reqf r = h_document_symbol content reqf r) /\
  (forall reqf r, gen_h_folding_range content reqf r = h_folding_range content reqf r) /\
  (forall reqf r, gen_h_inlay_hint content reqf r = h_inlay_hint content reqf r) /\
  (forall reqf r, gen_h_document_link content reqf r = h_document_link content reqf r) /\
  (forall (M : Type) (dm : list (file * list (rng * M))), gen_h_diagnostics content dm = h_diagnostics content dm) /\
  (forall li r, src_to_proto_range li r = to_proto_range li r) /\
  (forall li o, src_to_proto_position li o = to_proto_position li o) /\
  (forall li r, src_to_proto_folding_range li r = to_proto_folding_range li r).
Print Assumptions C09_plumbing_is_source.

(** Composition with C17 (group symmap/bridge: every range the modelled analysis produces is valid in its file) and
    C10 (group lines: exactness of the position mapping): for EVERY analysis of the model pipeline (Pipeline.analyze:
    texts -> modelled parser -> tree -> CoreAst -> Indexer) that yields a Core workspace, with only the size hypothesis
    left ([small_ws]: every text below 4 GiB): every definition answer, every references answer and every
    publication of index diagnostics sends, under the URI of the file the analysed range names, an LSP range that
    [denotes] it: computed with THAT file's text ([pos_of t lo], [pos_of t hi], iii), lo <= hi <= length, and each end
    is [faithful]: its line exists (line <= number of terminators), and either the offset is not between a CR and its
    LF, the character is at most the UTF-16 length of that line's content (i) and from_proto converts the position back
    to exactly the offset (ii) - or it is between CR and LF (one column past the content; converts back to the CR). *)
Theorem C09_pipeline : forall (pfuel cfuel : nat) (files : list (text * text)) (root : text)
    (a : Pipeline.analysis) (w : CoreAst.workspace),
  Pipeline.analyze pfuel cfuel files root = Some a -> Pipeline.an_core a = AstToCore.Ok w ->
  let S := IndexerOps.abs (Indexer.index_ws w) in
  let ws := BridgeSymbol.an_texts a in
  let content := content_of ws in
  small_ws ws ->
  (forall f p t, goto_definition S f p = SOk (Some t) ->
     exists lr, h_definition content (N.to_nat f) (Some (loc_of t)) = Ok (Some (N.to_nat (fr_file t), lr)) /\
                denotes ws t lr) /\
  (forall f p rs, references S f p = SOk (Some rs) ->
     exists lrs, h_references content (N.to_nat f) (Some (map loc_of rs)) = Ok (Some lrs) /\
                 Forall2 (fun r out => fst out = N.to_nat (fr_file r) /\ denotes ws r (snd out)) rs lrs) /\
  (forall (M : Type) (dm : list (file * list (rng * M))),
     (forall e d, In e dm -> In d (snd e) ->
        exists r, In r (sm_diags S) /\ fst e = N.to_nat (fr_file r) /\ fst d = (fr_lo r, fr_hi r)) ->
     exists out, h_diagnostics content dm = Ok out /\
       Forall2 (fun e o => fst o = fst e /\
                  Forall2 (fun d od => snd od = snd d /\
                             exists r, In r (sm_diags S) /\ fst e = N.to_nat (fr_file r) /\ denotes ws r (fst od))
                          (snd e) (snd o))
               dm out).
Proof. exact c09_pipeline. Qed.
Print Assumptions C09_pipeline.

(** what [faithful] / [denotes] say, pinned *)
Check (eq_refl : faithful = fun (t : text) (o : N) =>
  let l := fst (pos_of t o) in
  let c := snd (pos_of t o) in
  l <= count_terms t /\
  exists li, li_new t = Ok li /\
    ((~ inside_crlf t o /\
      (exists q content rest, is_line t l q content rest /\ c <= u16 content) /\
      from_proto_position li (pos_of t o) = Ok o) \/
     (inside_crlf t o /\ from_proto_position li (pos_of t o) = Ok (o - 1)))).
Check (eq_refl : denotes = fun (ws : list wtext) (r : file_range) (lr : lrange) =>
  exists t, fmap_get ws (fr_file r) = Some t /\
    lr = (pos_of t (fr_lo r), pos_of t (fr_hi r)) /\
    fr_lo r <= fr_hi r /\ fr_hi r <= bytes t /\
    faithful t (fr_lo r) /\ faithful t (fr_hi r)).

(** every character-boundary offset of every text below 4 GiB is faithful (C10 + the line lemma) *)
Theorem C09_position_faithful : forall (t : text) (o : N),
  bytes t <= u32_max -> on_char_boundary t o -> faithful t o.
Proof. exact position_faithful. Qed.
Print Assumptions C09_position_faithful.

(** The same for the COMPLETE model analysis of group bridge (PipelineAll.analyze_all: everything the handlers read; range
    validity by its `analyze_all_ranges_valid`): with only [small_ws], definition and references on the complete symbol
    map, and the per-file diagnostics exactly as update_diagnostics sends them - syntax errors AND index diagnostics,
    merged per file ([q_diagnostics A f]) - are converted with file f's text, under file f's URI, to ranges that [denote]
    them (inside the document, converting back to the analysed span). *)
Theorem C09_pipeline_all : forall (pfuel cfuel : nat) (files : list (text * text)) (root : text) (A : PipelineAll.all_answers),
  PipelineAll.analyze_all pfuel cfuel files root = Some A ->
  let ws := BridgeSymbol.an_texts (PipelineAll.aa_an A) in
  let content := content_of ws in
  small_ws ws ->
  (forall f p t, PipelineAll.q_goto_sm A f p = SOk (Some t) ->
     exists lr, h_definition content (N.to_nat f) (Some (loc_of t)) = Ok (Some (N.to_nat (fr_file t), lr)) /\
                denotes ws t lr) /\
  (forall f p rs, PipelineAll.q_references_sm A f p = SOk (Some rs) ->
     exists lrs, h_references content (N.to_nat f) (Some (map loc_of rs)) = Ok (Some lrs) /\
                 Forall2 (fun r out => fst out = N.to_nat (fr_file r) /\ denotes ws r (snd out)) rs lrs) /\
  (forall f l, PipelineAll.q_diagnostics A f = Some l ->
     h_diagnostics content [diag_entry f l] =
       Ok [(N.to_nat f, map (fun e => (spec_range content (N.to_nat f) (fst (fst e), snd (fst e)), snd e)) l)] /\
     forall e, In e l ->
       denotes ws (mkFR f (fst (fst e)) (snd (fst e))) (spec_range content (N.to_nat f) (fst (fst e), snd (fst e)))).
Proof. exact pipeline_all. Qed.
Print Assumptions C09_pipeline_all.

(** The remaining handlers from validity in C17's own vocabulary ([range_valid ws r = true] is what the C17 theorems
    conclude), so that they compose with a C17 statement about the corresponding query of the complete model analysis
    (PipelineAll.q_links / q_inlay / q_outline of group bridge) as soon as one exists: under [small_ws] only, document
    links and inlay hints are answered with positions that denote / are faithful to the analysed offsets, document
    symbols with the specification tree. *)
Theorem C09_from_validity : forall (ws : list wtext), small_ws ws ->
  let content := content_of ws in
  (forall (f : N) (l : list (rng * file)),
     (forall x, In x l -> range_valid ws (mkFR f (fst (fst x)) (snd (fst x))) = true) ->
     h_document_link content (N.to_nat f) (Some l) =
       Ok (Some (map (fun x => (spec_range content (N.to_nat f) (fst x), snd x)) l)) /\
     forall x, In x l -> denotes ws (mkFR f (fst (fst x)) (snd (fst x))) (spec_range content (N.to_nat f) (fst x))) /\
  (forall (f : N) (l : list N),
     (forall o, In o l -> range_valid ws (mkFR f o o) = true) ->
     h_inlay_hint content (N.to_nat f) (Some l) = Ok (Some (map (pos_of (content (N.to_nat f))) l)) /\
     forall o, In o l -> exists t, fmap_get ws f = Some t /\ content (N.to_nat f) = t /\ o <= bytes t /\ faithful t o) /\
  (forall (f : N) (l : list dsym),
     (forall s, In s l -> sym_valid ws f s) ->
     h_document_symbol content (N.to_nat f) (Some l) = Ok (Some (map (spec_symbol content (N.to_nat f)) l))).
Proof.
  intros ws Hs content. split; [|split].
  - exact (valid_document_link ws Hs). - exact (valid_inlay_hint ws Hs). - exact (valid_document_symbol ws Hs).
Qed.
Print Assumptions C09_from_validity.

(** Folding ranges only send line numbers and need no validity: for the folding answer of the complete model analysis
    (PipelineAll.analyze_all / q_folding) every line sent is the specification's line of the analysed offset in the
    requested file and exists in it. *)
Theorem C09_pipeline_folding : forall (pfuel cfuel : nat) (files : list (text * text)) (root : text)
    (A : PipelineAll.all_answers) (f : N) (l : list (N * N)),
  PipelineAll.analyze_all pfuel cfuel files root = Some A -> PipelineAll.q_folding A f = Some l ->
  let ws := BridgeSymbol.an_texts (PipelineAll.aa_an A) in
  let content := content_of ws in
  small_ws ws ->
  h_folding_range content (N.to_nat f) (Some l) = Ok (Some (map (spec_lines content (N.to_nat f)) l)) /\
  forall r, In r l -> fst (spec_lines content (N.to_nat f) r) <= count_terms (content (N.to_nat f)) /\
                      snd (spec_lines content (N.to_nat f) r) <= count_terms (content (N.to_nat f)).
Proof. exact pipeline_all_folding. Qed.
Print Assumptions C09_pipeline_folding.

(** Non-vacuity: main.td = include "sub.td"\n/* é */ class Foo : Bar;   sub.td = // ü😀\nclass Bar;  (by vm_compute
    through the whole model pipeline): the hypotheses hold; `Bar` is answered in sub.td's coordinates; `Foo`, which
    follows a two-byte character on its line, at UTF-16 columns 14..17 (byte columns would be 15..18). *)
Example C09_pipeline_nonvacuous :
  exists a w,
    Pipeline.analyze 200 10 [(ex_main_path, ex_main); (ex_sub_path, ex_sub)] ex_main_path = Some a /\
    Pipeline.an_core a = AstToCore.Ok w /\
    small_ws (BridgeSymbol.an_texts a) /\
    let S := IndexerOps.abs (Indexer.index_ws w) in
    let content := content_of (BridgeSymbol.an_texts a) in
    goto_definition S 0 38 = SOk (Some (mkFR 1 16 19)) /\
    h_definition content 0%nat (Some (loc_of (mkFR 1 16 19))) = Ok (Some (1%nat, ((1, 6), (1, 9)))) /\
    goto_definition S 0 33 = SOk (Some (mkFR 0 32 35)) /\
    h_definition content 0%nat (Some (loc_of (mkFR 0 32 35))) = Ok (Some (0%nat, ((1, 14), (1, 17)))) /\
    references S 1 16 = SOk (Some [mkFR 0 38 41]).
Proof. exact c09_pipeline_nonvacuous. Qed.

(** Non-vacuity (and the defect repaired by 5c4888d, D6): on the workspace root = include "sub.td"\nclass Foo : Bar;
    sub.td = \n\nclass Bar; the hypotheses hold for the definition of Bar (bytes 8..11 of sub.td); the repaired handler
    answers line 2 columns 6..9 of sub.td (by C09_definition), the handler before the fix answered line 0 columns
    8..11 - the coordinates those bytes have in the ROOT file. *)
Theorem C09_old_refuted : exists (content : file -> text) (reqf : file) (loc : file * rng),
  small content reqf /\ small content (fst loc) /\ range_ok content (fst loc) (snd loc) /\
  h_definition_old content reqf (Some loc) = Ok (Some (1%nat, ((0, 8), (0, 11)))) /\
  spec_range content (fst loc) (snd loc) = ((2, 6), (2, 9)).
Proof. exact c09_old_refuted. Qed.
Check C09_old_refuted : exists (content : file -> text) (reqf : file) (loc : file * rng),
  small content reqf /\ small content (fst loc) /\ range_ok content (fst loc) (snd loc) /\
  h_definition_old content reqf (Some loc) = Ok (Some (1%nat, ((0, 8), (0, 11)))) /\
  spec_range content (fst loc) (snd loc) = ((2, 6), (2, 9)).
Print Assumptions C09_old_refuted.
