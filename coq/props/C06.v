(** C06 Definition/reference coherence on arbitrary input.

    The theorems are about the executable model of `symbol_map.rs`, `handlers/goto_definition.rs` and
    `handlers/references.rs` (TG.Model.SymbolMap), for ALL op sequences and ALL identifier-token lists that
    satisfy the side conditions [toks_sorted] / [ops_wf] (TG.Model.SymbolWf).  The side conditions are what the
    indexer guarantees about the calls it makes (each definition / reference range is the range of an
    identifier token with the symbol's name; a range is keyed for two different symbols only in the `let`
    pair; ids are the ones the arenas allocate); they are CHECKED by checks/C06.py on the real op log
    (hook H3) and the real token list of every generated workspace, and the model's answers are compared with
    the real ones at every offset. *)
From Coq Require Import List NArith.
From TG.Model Require Import Chars SymbolMap SymbolWf.
From TG.Proofs Require Import SymbolCoh.
Import ListNotations.
Open Scope N_scope.

(** If go-to-definition answers at (f, p) with target t then: there is an identifier token c under the cursor
    (the only one) with text n; t is an identifier token with text n; find-references answers rs; every r in rs
    is an identifier token with text n and go-to-definition from every offset inside r gives t again; c is t
    or one of rs. *)
Theorem C06_coherent : forall toks ops,
  toks_sorted toks = true -> ops_wf toks ops = true ->
  exists S, run_ops ops = SOk S /\
  forall f p t, goto_definition S f p = SOk (Some t) ->
  exists c n rs,
    tok_name toks c = Some n /\ (fr_file c = f /\ fr_lo c <= p /\ p < fr_hi c) /\
    (forall c' n', In (c', n') toks -> (fr_file c' = f /\ fr_lo c' <= p /\ p < fr_hi c') -> c' = c) /\
    tok_name toks t = Some n /\
    references S f p = SOk (Some rs) /\
    (forall r, In r rs -> tok_name toks r = Some n /\
       forall q, fr_lo r <= q -> q < fr_hi r -> goto_definition S (fr_file r) q = SOk (Some t)) /\
    (t = c \/ In c rs).
Proof. exact c06_coherent. Qed.

(** Both queries never fail on such a state and answer together. *)
Theorem C06_total : forall toks ops,
  toks_sorted toks = true -> ops_wf toks ops = true ->
  exists S, run_ops ops = SOk S /\
  forall f p, (goto_definition S f p = SOk None /\ references S f p = SOk None) \/
              (exists t rs, goto_definition S f p = SOk (Some t) /\ references S f p = SOk (Some rs)).
Proof. exact c06_total. Qed.

(** Non-vacuity: a log with a redefinition-free class hierarchy and the `let` pair satisfies the hypotheses,
    and the queries answer. *)
Theorem C06_nonvacuous : toks_sorted ex_toks = true /\ ops_wf ex_toks ex_ops = true.
Proof. exact ex_wf. Qed.
Theorem C06_nonvacuous_answers : exists S, run_ops ex_ops = SOk S /\
  goto_definition S 0 37 = SOk (Some (mkFR 0 14 15)) /\
  references S 0 37 = SOk (Some [mkFR 0 37 38]) /\
  goto_definition S 0 52 = SOk (Some (mkFR 0 37 38)) /\
  goto_definition S 0 29 = SOk (Some (mkFR 0 6 7)).
Proof. exact ex_answers. Qed.

(** The hypothesis is needed: the op log of a file indexed twice (defect D2) is rejected by [ops_wf], and its
    final state is incoherent (a reference whose go-to-definition is another target). *)
Theorem C06_double_visit_incoherent :
  ops_wf d2_toks d2_ops = false /\
  exists S, run_ops d2_ops = SOk S /\
    goto_definition S 0 6 = SOk (Some (mkFR 0 6 7)) /\
    references S 0 6 = SOk (Some [mkFR 2 10 11]) /\
    goto_definition S 2 10 = SOk (Some (mkFR 1 6 7)).
Proof. exact c06_double_visit_incoherent. Qed.

Check C06_coherent : forall toks ops,
  toks_sorted toks = true -> ops_wf toks ops = true ->
  exists S, run_ops ops = SOk S /\
  forall f p t, goto_definition S f p = SOk (Some t) ->
  exists c n rs,
    tok_name toks c = Some n /\ (fr_file c = f /\ fr_lo c <= p /\ p < fr_hi c) /\
    (forall c' n', In (c', n') toks -> (fr_file c' = f /\ fr_lo c' <= p /\ p < fr_hi c') -> c' = c) /\
    tok_name toks t = Some n /\
    references S f p = SOk (Some rs) /\
    (forall r, In r rs -> tok_name toks r = Some n /\
       forall q, fr_lo r <= q -> q < fr_hi r -> goto_definition S (fr_file r) q = SOk (Some t)) /\
    (t = c \/ In c rs).
Check C06_total : forall toks ops,
  toks_sorted toks = true -> ops_wf toks ops = true ->
  exists S, run_ops ops = SOk S /\
  forall f p, (goto_definition S f p = SOk None /\ references S f p = SOk None) \/
              (exists t rs, goto_definition S f p = SOk (Some t) /\ references S f p = SOk (Some rs)).
Print Assumptions C06_coherent.
Print Assumptions C06_total.
Print Assumptions C06_nonvacuous.
Print Assumptions C06_nonvacuous_answers.
Print Assumptions C06_double_visit_incoherent.

(** ---- Core fragment, NO hypothesis on an op log (bridge to the indexer model of group scope) ----
    `_partial`: the single-visit condition is the decidable hypothesis [log_fresh] on the position log of the indexer
    MODEL's final state (evaluated by the bridge driver on every generated Core workspace; not yet derived from "the
    identifier ranges of the AST are pairwise distinct").
    For EVERY Core workspace (any number of files, includes) whose identifiers are identifier tokens OF THEIR FILE carrying
    their text ([stmt_ok toks g] for the statements of file g: the output condition of the tree -> CoreAst bridge, proved
    for the model pipeline in coq/proofs/BridgeSymbol.v by builder "bridge"), the symbol-map state [abs (index_ws w)] that
    the indexer model (Indexer.v) stands for satisfies the four clauses of the property at every position of every file.
    Name agreement, token-ness and allocation of every id (the side conditions op_coh_ok / op_ids_ok that were CHECKED on
    op logs) are PROVED here from the structure of the program: proofs/IndexerCoh.v, one Hoare-style traversal of Indexer.v
    carrying the invariant "every lookup structure maps a name to a symbol with that name whose definition is a keyed
    identifier token", with the include stack (current file = file of the statements being indexed) in the triple. *)
From TG.Model Require CoreAst Scope Indexer IndexerOps.
From TG.Proofs Require IndexerCoh.
Theorem C06_coherent_core_partial : forall toks (w : CoreAst.workspace),
  toks_sorted toks = true ->
  (forall g body, Scope.nthN (CoreAst.ws_files w) g = Some body -> Forall (IndexerCoh.stmt_ok toks g) body) ->
  let s := Indexer.index_ws w in
  IndexerOps.log_fresh s = true ->
  forall f p t, goto_definition (IndexerOps.abs s) f p = SOk (Some t) ->
  exists c n rs,
    tok_name toks c = Some n /\ (fr_file c = f /\ fr_lo c <= p /\ p < fr_hi c) /\
    (forall c' n', In (c', n') toks -> (fr_file c' = f /\ fr_lo c' <= p /\ p < fr_hi c') -> c' = c) /\
    tok_name toks t = Some n /\
    references (IndexerOps.abs s) f p = SOk (Some rs) /\
    (forall r, In r rs -> tok_name toks r = Some n /\
       forall q, fr_lo r <= q -> q < fr_hi r -> goto_definition (IndexerOps.abs s) (fr_file r) q = SOk (Some t)) /\
    (t = c \/ In c rs).
Proof. exact IndexerCoh.c06_coherent_core. Qed.

(** non-vacuity: `class A { int x; } class B : A { let x = 1; }` satisfies all hypotheses (incl. the `let` pair) *)
Theorem C06_core_nonvacuous :
  toks_sorted IndexerCoh.core_ex_toks = true /\ Forall (IndexerCoh.stmt_ok IndexerCoh.core_ex_toks 0) IndexerCoh.core_ex_root /\
  IndexerOps.log_fresh (Indexer.index_ws (CoreAst.mkWs [IndexerCoh.core_ex_root] [])) = true /\
  goto_definition (IndexerOps.abs (Indexer.index_ws (CoreAst.mkWs [IndexerCoh.core_ex_root] []))) 0 37 = SOk (Some (mkFR 0 14 15)) /\
  references (IndexerOps.abs (Indexer.index_ws (CoreAst.mkWs [IndexerCoh.core_ex_root] []))) 0 14 = SOk (Some [mkFR 0 37 38]).
Proof. exact IndexerCoh.core_ex_hyps. Qed.
Print Assumptions C06_coherent_core_partial.
Print Assumptions C06_core_nonvacuous.

(** ---- composed with the model pipeline of builder "bridge" (Pipeline.analyze: texts -> modelled parser -> trees ->
    CoreAst): for EVERY analysis that yields a Core workspace, with [toks] = the identifier tokens of its trees
    (BridgeToks.ws_id_toks), the four clauses hold at every position of every file -- the only remaining hypothesis is the
    decidable [log_fresh] (no hypothesis on the AST, none on an op log).
    Trusted links to the Rust code: Indexer.v + IndexerOps.abs = index.rs + symbol_map.rs (CHECKED state equality, evidence
    bridge_to_indexer_model) and harness coreast = AstToCore.core_of_tree, parser model = syntax crate (bridge's / parser
    group's checked ties). *)
From TG.Model Require AstToCore Pipeline BridgeToks.
From TG.Proofs Require BridgeSymbol BridgeText IndexerPipeline.
Theorem C06_pipeline_core_partial : forall pfuel cfuel files root a w,
  Pipeline.analyze pfuel cfuel files root = Some a -> Pipeline.an_core a = AstToCore.Ok w ->
  let toks := BridgeToks.ws_id_toks (BridgeSymbol.an_trees a) in
  let s := Indexer.index_ws w in
  IndexerOps.log_fresh s = true ->
  forall f p t, goto_definition (IndexerOps.abs s) f p = SOk (Some t) ->
  exists c n rs,
    tok_name toks c = Some n /\ (fr_file c = f /\ fr_lo c <= p /\ p < fr_hi c) /\
    (forall c' n', In (c', n') toks -> (fr_file c' = f /\ fr_lo c' <= p /\ p < fr_hi c') -> c' = c) /\
    tok_name toks t = Some n /\
    references (IndexerOps.abs s) f p = SOk (Some rs) /\
    (forall r, In r rs -> tok_name toks r = Some n /\
       forall q, fr_lo r <= q -> q < fr_hi r -> goto_definition (IndexerOps.abs s) (fr_file r) q = SOk (Some t)) /\
    (t = c \/ In c rs).
Proof. exact IndexerPipeline.c06_pipeline_core. Qed.

Theorem C06_pipeline_nonvacuous :
  exists a w, Pipeline.analyze 200 10 [(IndexerPipeline.pipe_ex_path, BridgeText.bridge_example_text)] IndexerPipeline.pipe_ex_path = Some a /\
    Pipeline.an_core a = AstToCore.Ok w /\
    IndexerOps.log_fresh (Indexer.index_ws w) = true /\
    goto_definition (IndexerOps.abs (Indexer.index_ws w)) 0 58 = SOk (Some (mkFR 0 49 50)).
Proof. exact IndexerPipeline.c06_pipeline_nonvacuous. Qed.
Print Assumptions C06_pipeline_core_partial.
Print Assumptions C06_pipeline_nonvacuous.

(** ---- the single-visit condition PROVED (proofs/IndexerFresh.v): for EVERY Core workspace in which the identifier ranges
    of each file's AST are pairwise distinct ([IndexerFresh.keys g parts] = the ranges of CoreParts.file_idents tagged with
    the file number g), the position log of the indexer model satisfies [log_fresh].  Every identifier occurrence is keyed
    at most once; the `let` of a record body keys its range twice -- definition of the new field, then reference to the
    overridden field, whose own definition range was consumed earlier and is therefore different. *)
From TG.Model Require CoreParts.
From TG.Proofs Require IndexerFresh.
Theorem C06_log_fresh_core : forall w : CoreAst.workspace,
  (forall g body, Scope.nthN (CoreAst.ws_files w) g = Some body ->
     NoDup (map (fun i => CoreAst.mkR g (CoreAst.r_lo (CoreAst.i_rng i)) (CoreAst.r_hi (CoreAst.i_rng i))) (CoreParts.file_idents body))) ->
  IndexerOps.log_fresh (Indexer.index_ws w) = true.
Proof. exact IndexerFresh.index_ws_log_fresh_idents. Qed.

(** C06 for the Core fragment with hypotheses on the AST only *)
Theorem C06_coherent_core : forall toks (w : CoreAst.workspace),
  toks_sorted toks = true ->
  (forall g body, Scope.nthN (CoreAst.ws_files w) g = Some body -> Forall (IndexerCoh.stmt_ok toks g) body) ->
  (forall g body, Scope.nthN (CoreAst.ws_files w) g = Some body ->
     NoDup (map (fun i => CoreAst.mkR g (CoreAst.r_lo (CoreAst.i_rng i)) (CoreAst.r_hi (CoreAst.i_rng i))) (CoreParts.file_idents body))) ->
  let s := Indexer.index_ws w in
  forall f p t, goto_definition (IndexerOps.abs s) f p = SOk (Some t) ->
  exists c n rs,
    tok_name toks c = Some n /\ (fr_file c = f /\ fr_lo c <= p /\ p < fr_hi c) /\
    (forall c' n', In (c', n') toks -> (fr_file c' = f /\ fr_lo c' <= p /\ p < fr_hi c') -> c' = c) /\
    tok_name toks t = Some n /\
    references (IndexerOps.abs s) f p = SOk (Some rs) /\
    (forall r, In r rs -> tok_name toks r = Some n /\
       forall q, fr_lo r <= q -> q < fr_hi r -> goto_definition (IndexerOps.abs s) (fr_file r) q = SOk (Some t)) /\
    (t = c \/ In c rs).
Proof. exact IndexerPipeline.c06_coherent_core_ast. Qed.

(** C06 for the model pipeline: NO hypothesis.  For EVERY analysis of Pipeline.analyze that yields a Core workspace, with
    [toks] = the identifier tokens of its trees, at every position of every file: the definition found is an identifier
    token with the name of the token under the cursor; every reference is such a token and leads back to the same
    definition; the cursor token is the definition or one of the references.  (toks_sorted, stmt_ok: builder bridge's
    ws_id_toks_sorted / pipeline_symbol_side_conditions / analyze_wf; NoDup: bridge's pipeline_idents_nodup.) *)
Theorem C06_pipeline_core : forall pfuel cfuel files root a w,
  Pipeline.analyze pfuel cfuel files root = Some a -> Pipeline.an_core a = AstToCore.Ok w ->
  let toks := BridgeToks.ws_id_toks (BridgeSymbol.an_trees a) in
  let s := Indexer.index_ws w in
  forall f p t, goto_definition (IndexerOps.abs s) f p = SOk (Some t) ->
  exists c n rs,
    tok_name toks c = Some n /\ (fr_file c = f /\ fr_lo c <= p /\ p < fr_hi c) /\
    (forall c' n', In (c', n') toks -> (fr_file c' = f /\ fr_lo c' <= p /\ p < fr_hi c') -> c' = c) /\
    tok_name toks t = Some n /\
    references (IndexerOps.abs s) f p = SOk (Some rs) /\
    (forall r, In r rs -> tok_name toks r = Some n /\
       forall q, fr_lo r <= q -> q < fr_hi r -> goto_definition (IndexerOps.abs s) (fr_file r) q = SOk (Some t)) /\
    (t = c \/ In c rs).
Proof. exact IndexerPipeline.c06_pipeline. Qed.
Print Assumptions C06_log_fresh_core.
Print Assumptions C06_coherent_core.
Print Assumptions C06_pipeline_core.
