(** C19 Hover and inlay hints describe the declaration they point at.
    ONLY theorem statements (each closed by [exact <lemma of proofs/>]), [Check] pins, [Print Assumptions].
    Doc-comment part: theorems about [DocComments.extract_doc_comments] (hand model of hover.rs
    extract_doc_comments with the hand-written prev_token walk of the repair e8de1c3) FOR ALL TREES AND RANGES. *)
From Coq Require Import List NArith Bool.
From TG.Gen Require Import GenTokens.
From TG.Model Require Import Chars Tree TreeNav DocComments.
From TG.Proofs Require Import TreeNavProofs DocProofs.
Import ListNotations.
Open Scope N_scope.

(** The hand-written `prev_token` of hover.rs returns, for every tree and every cursor, the token directly before
    the cursor in the file's token sequence (stepping over empty nodes), or nothing when there is none. *)
Theorem C19_prev_token : forall fuel c,
  match prev_token fuel c with
  | WFound e => exists l, cur_leaf e = Some l /\ leaves_before c = leaves_before e ++ [l]
  | WNone => leaves_before c = []
  | WOutOfFuel => True
  end.
Proof. exact prev_token_sound. Qed.
Check C19_prev_token : forall fuel c,
  match prev_token fuel c with
  | WFound e => exists l, cur_leaf e = Some l /\ leaves_before c = leaves_before e ++ [l]
  | WNone => leaves_before c = []
  | WOutOfFuel => True
  end.
Print Assumptions C19_prev_token.

(** ... and it terminates: [cur_measure c] iterations suffice *)
Theorem C19_prev_token_terminates : forall fuel c, (cur_measure c < fuel)%nat ->
  match prev_token fuel c with
  | WOutOfFuel => False
  | WFound e => (cur_measure e < cur_measure c)%nat
  | WNone => True
  end.
Proof. exact prev_token_terminates. Qed.
Check C19_prev_token_terminates : forall fuel c, (cur_measure c < fuel)%nat ->
  match prev_token fuel c with
  | WOutOfFuel => False
  | WFound e => (cur_measure e < cur_measure c)%nat
  | WNone => True
  end.
Print Assumptions C19_prev_token_terminates.

(** The documentation shown by hover is the adjacency rule [doc_spec] applied to the tokens before the
    declaration's first token -- for every tree and every identifier range; the loop never runs out of fuel. *)
Theorem C19_doc : forall root lo hi,
  extract_doc_comments root lo hi =
    match decl_first_token root lo hi with
    | Some d => doc_spec (leaves_before d)
    | None => DocNone
    end.
Proof. exact extract_doc_correct. Qed.
Check C19_doc : forall root lo hi,
  extract_doc_comments root lo hi =
    match decl_first_token root lo hi with
    | Some d => doc_spec (leaves_before d)
    | None => DocNone
    end.
Print Assumptions C19_doc.

(** [leaves_before d] really is the part of the FILE's token sequence directly above the declaration: the file's
    leaves are those, then the declaration's first token, then the rest. *)
Theorem C19_doc_prefix : forall root lo hi d, decl_first_token root lo hi = Some d ->
  exists l after, cur_leaf d = Some l /\ leaves root = leaves_before d ++ l :: after.
Proof. exact decl_first_token_prefix. Qed.
Check C19_doc_prefix : forall root lo hi d, decl_first_token root lo hi = Some d ->
  exists l after, cur_leaf d = Some l /\ leaves root = leaves_before d ++ l :: after.
Print Assumptions C19_doc_prefix.

(** What the adjacency rule says (L = tokens above the declaration, nearest first): exactly the maximal run of
    (whitespace containing exactly one newline, `//` line comment) pairs; it stops at the first pair that is not
    of that shape (blank line, block comment, code, start of file). *)
Theorem C19_doc_maximal_run : forall L, exists pairs rest,
  L = flat_map (fun p : leaf * leaf => [fst p; snd p]) pairs ++ rest /\
  Forall doc_pair_ok pairs /\
  doc_lines_rev L = map (fun p : leaf * leaf => comment_text (lf_text (snd p))) pairs /\
  match rest with
  | w :: c :: _ => is_ws_one_newline w && is_doc_comment c = false
  | _ => True
  end.
Proof. exact doc_lines_rev_maximal_run. Qed.
Check C19_doc_maximal_run : forall L, exists pairs rest,
  L = flat_map (fun p : leaf * leaf => [fst p; snd p]) pairs ++ rest /\
  Forall doc_pair_ok pairs /\
  doc_lines_rev L = map (fun p : leaf * leaf => comment_text (lf_text (snd p))) pairs /\
  match rest with
  | w :: c :: _ => is_ws_one_newline w && is_doc_comment c = false
  | _ => True
  end.
Print Assumptions C19_doc_maximal_run.

(** Non-vacuity, and the defect D25 as a theorem about the two walks: on the real tree of
    "class Foo\n// doc\nclass Bar;" (the first class has no body: its RecordBody holds two EMPTY nodes) the repaired
    walk finds the comment, rowan's own prev_token (used before the repair) gives up at the empty node. *)
Definition ex_d25 : tree :=
  Node S_SourceFile [Node S_StatementList [
    Node S_Class [Tok S_ClassKw [99;108;97;115;115]; Tok S_Whitespace [32];
                  Node S_Identifier [Tok S_Id [70;111;111]; Tok S_Whitespace [10]; Tok S_LineComment [47;47;32;100;111;99];
                                     Tok S_Whitespace [10]];
                  Node S_RecordBody [Node S_ParentClassList []; Node S_Body []]];
    Node S_Class [Tok S_ClassKw [99;108;97;115;115]; Tok S_Whitespace [32];
                  Node S_Identifier [Tok S_Id [66;97;114]];
                  Node S_RecordBody [Node S_ParentClassList []; Node S_Body [Tok S_Semi [59]]]]]].
Example C19_doc_example : extract_doc_comments ex_d25 23 26 = DocSome [100;111;99].
Proof. vm_compute. reflexivity. Qed.
Example C19_doc_example_decl : exists d, decl_first_token ex_d25 23 26 = Some d /\ length (leaves_before d) = 6%nat.
Proof. eexists. split; vm_compute; reflexivity. Qed.
Example C19_doc_rowan_prev_token_refuted :
  extract_doc_comments_rowan ex_d25 23 26 = DocNone /\ extract_doc_comments ex_d25 23 26 <> DocNone.
Proof. split; vm_compute; [reflexivity|discriminate]. Qed.
