(** C19 Hover and inlay hints describe the declaration they point at.
    ONLY theorem statements (each closed by [exact <lemma of proofs/>]), [Check] pins, [Print Assumptions].
    Doc-comment part: theorems about [DocComments.extract_doc_comments] (hand model of hover.rs
    extract_doc_comments with the hand-written prev_token walk of the repair e8de1c3) FOR ALL TREES AND RANGES. *)
From Coq Require Import List NArith Bool String.
From TG.Gen Require Import GenTokens.
From TG.Model Require Import Chars Tree TreeNav DocComments SymbolMap Outline.
From TG.Proofs Require Import TreeNavProofs DocProofs OutlineProofs.
From TG.Gen Require Import GenHandlers.
From TG.Model Require Import HandlerApi.
From TG.Proofs Require Import GenHandlersEq.
From TG.Model Require Import HandlerSymApi.
From TG.Proofs Require Import GenHandlersSymEq.
Import ListNotations.
Open Scope N_scope.

(** The hand-written `prev_token` of hover.rs returns, for every tree and every cursor, the token directly before
    the cursor in the file's token sequence (stepping over empty nodes), or nothing when there is none. *)
Theorem C19_prev_token : forall fuel c,
  match prev_token fuel c with
  | WFound e => exists l, cur_leaf e = Some l /\ leaves_before c = leaves_before e ++ [l]
  | WNone => leaves_before c = []
  | WOutOfFuel => True
  end.
Proof. exact prev_token_sound. Qed.
Check C19_prev_token : forall fuel c,
  match prev_token fuel c with
  | WFound e => exists l, cur_leaf e = Some l /\ leaves_before c = leaves_before e ++ [l]
  | WNone => leaves_before c = []
  | WOutOfFuel => True
  end.
Print Assumptions C19_prev_token.

(** ... and it terminates: [cur_measure c] iterations suffice *)
Theorem C19_prev_token_terminates : forall fuel c, (cur_measure c < fuel)%nat ->
  match prev_token fuel c with
  | WOutOfFuel => False
  | WFound e => (cur_measure e < cur_measure c)%nat
  | WNone => True
  end.
Proof. exact prev_token_terminates. Qed.
Check C19_prev_token_terminates : forall fuel c, (cur_measure c < fuel)%nat ->
  match prev_token fuel c with
  | WOutOfFuel => False
  | WFound e => (cur_measure e < cur_measure c)%nat
  | WNone => True
  end.
Print Assumptions C19_prev_token_terminates.

(** The documentation shown by hover is the adjacency rule [doc_spec] applied to the tokens before the
    declaration's first token -- for every tree and every identifier range; the loop never runs out of fuel. *)
Theorem C19_doc : forall root lo hi,
  extract_doc_comments root lo hi =
    match decl_first_token root lo hi with
    | Some d => doc_spec (leaves_before d)
    | None => DocNone
    end.
Proof. exact extract_doc_correct. Qed.
Check C19_doc : forall root lo hi,
  extract_doc_comments root lo hi =
    match decl_first_token root lo hi with
    | Some d => doc_spec (leaves_before d)
    | None => DocNone
    end.
Print Assumptions C19_doc.

(** [leaves_before d] really is the part of the FILE's token sequence directly above the declaration: the file's
    leaves are those, then the declaration's first token, then the rest. *)
Theorem C19_doc_prefix : forall root lo hi d, decl_first_token root lo hi = Some d ->
  exists l after, cur_leaf d = Some l /\ leaves root = leaves_before d ++ l :: after.
Proof. exact decl_first_token_prefix. Qed.
Check C19_doc_prefix : forall root lo hi d, decl_first_token root lo hi = Some d ->
  exists l after, cur_leaf d = Some l /\ leaves root = leaves_before d ++ l :: after.
Print Assumptions C19_doc_prefix.

(** What the adjacency rule says (L = tokens above the declaration, nearest first): exactly the maximal run of
    (whitespace containing exactly one newline, `//` line comment) pairs; it stops at the first pair that is not
    of that shape (blank line, block comment, code, start of file). *)
Theorem C19_doc_maximal_run : forall L, exists pairs rest,
  L = flat_map (fun p : leaf * leaf => [fst p; snd p]) pairs ++ rest /\
  Forall doc_pair_ok pairs /\
  doc_lines_rev L = map (fun p : leaf * leaf => comment_text (lf_text (snd p))) pairs /\
  match rest with
  | w :: c :: _ => is_ws_one_newline w && is_doc_comment c = false
  | _ => True
  end.
Proof. exact doc_lines_rev_maximal_run. Qed.
Check C19_doc_maximal_run : forall L, exists pairs rest,
  L = flat_map (fun p : leaf * leaf => [fst p; snd p]) pairs ++ rest /\
  Forall doc_pair_ok pairs /\
  doc_lines_rev L = map (fun p : leaf * leaf => comment_text (lf_text (snd p))) pairs /\
  match rest with
  | w :: c :: _ => is_ws_one_newline w && is_doc_comment c = false
  | _ => True
  end.
Print Assumptions C19_doc_maximal_run.

(** Non-vacuity, and the defect D25 as a theorem about the two walks: on the real tree of
    "class Foo\n// doc\nclass Bar;" (the first class has no body: its RecordBody holds two EMPTY nodes) the repaired
    walk finds the comment, rowan's own prev_token (used before the repair) gives up at the empty node. *)
Definition ex_d25 : tree :=
  Node S_SourceFile [Node S_StatementList [
    Node S_Class [Tok S_ClassKw [99;108;97;115;115]; Tok S_Whitespace [32];
                  Node S_Identifier [Tok S_Id [70;111;111]; Tok S_Whitespace [10]; Tok S_LineComment [47;47;32;100;111;99];
                                     Tok S_Whitespace [10]];
                  Node S_RecordBody [Node S_ParentClassList []; Node S_Body []]];
    Node S_Class [Tok S_ClassKw [99;108;97;115;115]; Tok S_Whitespace [32];
                  Node S_Identifier [Tok S_Id [66;97;114]];
                  Node S_RecordBody [Node S_ParentClassList []; Node S_Body [Tok S_Semi [59]]]]]].
Example C19_doc_example : extract_doc_comments ex_d25 23 26 = DocSome [100;111;99].
Proof. vm_compute. reflexivity. Qed.
Example C19_doc_example_decl : exists d, decl_first_token ex_d25 23 26 = Some d /\ List.length (leaves_before d) = 6%nat.
Proof. eexists. split; vm_compute; reflexivity. Qed.
Example C19_doc_rowan_prev_token_refuted :
  extract_doc_comments_rowan ex_d25 23 26 = DocNone /\ extract_doc_comments ex_d25 23 26 <> DocNone.
Proof. split; vm_compute; [reflexivity|discriminate]. Qed.

(** ================= Hover signature and inlay hints: theorems about the handler models of Outline.v over the
    symbol-map state machine (every state; the check replays the real op log into it) ================= *)

(** Hover describes the very symbol go-to-definition jumps to: the same [find_symbol_at] result, its define_loc,
    and a signature computed from that symbol. *)
Theorem C19_hover_same_symbol : forall S f p sig loc,
  extract_symbol_signature S f p = SOk (Some (sig, loc)) ->
  exists s e, find_symbol_at S f p = SOk (Some (s, e)) /\
              goto_definition S f p = SOk (Some loc) /\ loc = e_def e /\ signature S s e = SOk sig.
Proof. exact hover_same_symbol. Qed.
Check C19_hover_same_symbol : forall S f p sig loc,
  extract_symbol_signature S f p = SOk (Some (sig, loc)) ->
  exists s e, find_symbol_at S f p = SOk (Some (s, e)) /\
              goto_definition S f p = SOk (Some loc) /\ loc = e_def e /\ signature S s e = SOk sig.
Print Assumptions C19_hover_same_symbol.

(** hover answers exactly where go-to-definition answers *)
Theorem C19_hover_iff_definition : forall S f p,
  (extract_symbol_signature S f p = SOk None <-> goto_definition S f p = SOk None) /\
  (forall loc, goto_definition S f p = SOk (Some loc) ->
               (exists sig, extract_symbol_signature S f p = SOk (Some (sig, loc))) \/
               (exists err, extract_symbol_signature S f p = SErr err)).
Proof. exact hover_iff_definition. Qed.
Check C19_hover_iff_definition : forall S f p,
  (extract_symbol_signature S f p = SOk None <-> goto_definition S f p = SOk None) /\
  (forall loc, goto_definition S f p = SOk (Some loc) ->
               (exists sig, extract_symbol_signature S f p = SOk (Some (sig, loc))) \/
               (exists err, extract_symbol_signature S f p = SErr err)).
Print Assumptions C19_hover_iff_definition.

(** the signature shows kind word / name / declared type ([sig_spec], proofs/OutlineProofs.v):
    `class N<T a, ..>`, `def N`, `T n` (template argument, variable, defset), `T Parent::n` (field), `multiclass N`, `defm N` *)
Theorem C19_signature : forall S s e sig, signature S s e = SOk sig -> sig_spec S s e sig.
Proof. exact signature_shows. Qed.
Check C19_signature : forall S s e sig, signature S s e = SOk sig -> sig_spec S s e sig.
Print Assumptions C19_signature.

(** the documentation shown with it is [doc_spec] of the tokens above the DEFINITION, in the definition's file *)
Theorem C19_hover_doc : forall S trees f p sig doc, hover S trees f p = SOk (Some (sig, doc)) ->
  exists loc, extract_symbol_signature S f p = SOk (Some (sig, loc)) /\
    doc = match trees (fr_file loc) with
          | Some t => match decl_first_token t (fr_lo loc) (fr_hi loc) with
                      | Some d => doc_spec (leaves_before d)
                      | None => DocNone
                      end
          | None => DocNone
          end.
Proof. exact hover_doc. Qed.
Check C19_hover_doc : forall S trees f p sig doc, hover S trees f p = SOk (Some (sig, doc)) ->
  exists loc, extract_symbol_signature S f p = SOk (Some (sig, loc)) /\
    doc = match trees (fr_file loc) with
          | Some t => match decl_first_token t (fr_lo loc) (fr_hi loc) with
                      | Some d => doc_spec (leaves_before d)
                      | None => DocNone
                      end
          | None => DocNone
          end.
Print Assumptions C19_hover_doc.

(** Only hints inside the requested range are returned -- every state, every tree, every range (bounds inclusive,
    as TextRange::contains_inclusive). *)
Theorem C19_inlay_range : forall S trees loc hs, inlay_hint S trees loc = SOk (Some hs) ->
  Forall (fun h => fr_lo loc <= h_pos h /\ h_pos h <= fr_hi loc) hs.
Proof. exact inlay_range. Qed.
Check C19_inlay_range : forall S trees loc hs, inlay_hint S trees loc = SOk (Some hs) ->
  Forall (fun h => fr_lo loc <= h_pos h /\ h_pos h <= fr_hi loc) hs.
Print Assumptions C19_inlay_range.

(** every hint belongs to a symbol occurrence that overlaps the requested range *)
Theorem C19_inlay_from_symbols : forall S trees loc hs h, inlay_hint S trees loc = SOk (Some hs) -> In h hs ->
  exists t l x xs, trees (fr_file loc) = Some t /\ iter_symbols_in_range S loc = SOk (Some l) /\
                   In x l /\ hints_of_symbol S t x = SOk xs /\ In h xs.
Proof. exact inlay_from_symbols. Qed.
Check C19_inlay_from_symbols : forall S trees loc hs h, inlay_hint S trees loc = SOk (Some hs) -> In h hs ->
  exists t l x xs, trees (fr_file loc) = Some t /\ iter_symbols_in_range S loc = SOk (Some l) /\
                   In x l /\ hints_of_symbol S t x = SOk xs /\ In h xs.
Print Assumptions C19_inlay_from_symbols.

(** Positional argument i is labelled with template parameter i's name, at the argument's first character: the hints of
    a class reference are the zip of the starts of the maximal positional prefix of its argument list with the names of
    the class's template arguments in declaration order ... *)
Theorem C19_inlay_args : forall S t targs lo hi hs, inlay_hint_class S t targs lo hi = SOk hs ->
  (class_arg_list t lo hi = None /\ hs = []) \/
  exists al names rest,
    class_arg_list t lo hi = Some al /\
    Forall2 (fun id n => exists a, get_entry S (KTemplateArg, id) = Some a /\ n = e_name a) (amap_values targs) names /\
    child_node_cursors is_arg_value al =
      take_while (fun c => sk_eqb (kind_of (fst c)) S_PositionalArgValue) (child_node_cursors is_arg_value al) ++ rest /\
    match rest with [] => True | x :: _ => sk_eqb (kind_of (fst x)) S_PositionalArgValue = false end /\
    hs = zip_hints (map cur_offset (take_while (fun c => sk_eqb (kind_of (fst c)) S_PositionalArgValue)
                                               (child_node_cursors is_arg_value al))) names.
Proof. exact inlay_class_args. Qed.
Check C19_inlay_args : forall S t targs lo hi hs, inlay_hint_class S t targs lo hi = SOk hs ->
  (class_arg_list t lo hi = None /\ hs = []) \/
  exists al names rest,
    class_arg_list t lo hi = Some al /\
    Forall2 (fun id n => exists a, get_entry S (KTemplateArg, id) = Some a /\ n = e_name a) (amap_values targs) names /\
    child_node_cursors is_arg_value al =
      take_while (fun c => sk_eqb (kind_of (fst c)) S_PositionalArgValue) (child_node_cursors is_arg_value al) ++ rest /\
    match rest with [] => True | x :: _ => sk_eqb (kind_of (fst x)) S_PositionalArgValue = false end /\
    hs = zip_hints (map cur_offset (take_while (fun c => sk_eqb (kind_of (fst c)) S_PositionalArgValue)
                                               (child_node_cursors is_arg_value al))) names.
Print Assumptions C19_inlay_args.

(** ... where the i-th element of a zip is (i-th start, i-th name ++ ":"), and there are min(#args, #params) of them *)
Theorem C19_inlay_zip : forall starts names i h,
  nth_error (zip_hints starts names) i = Some h <->
  exists p n, nth_error starts i = Some p /\ nth_error names i = Some n /\ h = mkHint p (n ++ s2n ":") HKTemplateArg.
Proof. exact zip_hints_nth. Qed.
Check C19_inlay_zip : forall starts names i h,
  nth_error (zip_hints starts names) i = Some h <->
  exists p n, nth_error starts i = Some p /\ nth_error names i = Some n /\ h = mkHint p (n ++ s2n ":") HKTemplateArg.
Print Assumptions C19_inlay_zip.

Theorem C19_inlay_zip_length : forall starts names,
  List.length (zip_hints starts names) = Nat.min (List.length starts) (List.length names).
Proof. exact zip_hints_length. Qed.
Check C19_inlay_zip_length : forall starts names,
  List.length (zip_hints starts names) = Nat.min (List.length starts) (List.length names).
Print Assumptions C19_inlay_zip_length.

(** A field override is labelled with the field's declared type, right after the field name (the end of the identifier) *)
Theorem C19_inlay_let : forall t typ lo hi h, In h (inlay_hint_record_field t typ lo hi) ->
  h = mkHint hi (s2n ":" ++ typ) HKFieldLet /\ inlay_hint_record_field t typ lo hi = [h] /\
  exists idc fl, identifier_node t lo hi false = Some idc /\ parent idc = Some fl /\ kind_of (fst fl) = S_FieldLet.
Proof. exact inlay_field_let. Qed.
Check C19_inlay_let : forall t typ lo hi h, In h (inlay_hint_record_field t typ lo hi) ->
  h = mkHint hi (s2n ":" ++ typ) HKFieldLet /\ inlay_hint_record_field t typ lo hi = [h] /\
  exists idc fl, identifier_node t lo hi false = Some idc /\ parent idc = Some fl /\ kind_of (fst fl) = S_FieldLet.
Print Assumptions C19_inlay_let.

(** Non-vacuity: the state of `class A<int x> {..}` plus a reference `A<1>` in file 1 (tree below): hover at the
    class name, hints for the whole reference, and the D18 shape: requesting only the identifier [0,1] returns nothing. *)
Definition ex_ops19 : list op :=
  [ OpAddRecord (s2n "A") RKClass (mkFR 0 6 7) true 0;
    OpAddTemplateArg (s2n "x") (s2n "int") (mkFR 0 12 13) 0; OpRecordMut 0; OpRecAddTemplateArg (s2n "x") 0;
    OpAddReference (KRecord, 0) (mkFR 1 0 1) ].
Definition ex_ref_tree : tree :=
  Node S_SourceFile [Node S_ClassRef [Node S_Identifier [Tok S_Id [65]]; Tok S_Less [60];
     Node S_ArgValueList [Node S_PositionalArgValue [Node S_Value [Tok S_IntVal [49]]]]; Tok S_Greater [62]]].
Definition ex_trees (f : fileid) : option tree := if f =? 1 then Some ex_ref_tree else None.
Example C19_hover_inlay_example : exists S, run_ops ex_ops19 = SOk S /\
  extract_symbol_signature S 1 0 = SOk (Some (s2n "class A<int x>", mkFR 0 6 7)) /\
  goto_definition S 1 0 = SOk (Some (mkFR 0 6 7)) /\
  inlay_hint S ex_trees (mkFR 1 0 4) = SOk (Some [mkHint 2 (s2n "x:") HKTemplateArg]) /\
  inlay_hint S ex_trees (mkFR 1 0 1) = SOk (Some []).
Proof. eexists. split; [vm_compute; reflexivity|]. repeat split; vm_compute; reflexivity. Qed.

(** non-vacuity of C19_inlay_let: `let f = 1;` as FieldLet[LetKw ws Identifier[Id "f" ws] Equal ...]: the override of a
    field of type int whose name occupies [4,5) gets the hint ":int" at 5 *)
Definition ex_let_tree : tree :=
  Node S_SourceFile [Node S_FieldLet [Tok S_LetKw [108;101;116]; Tok S_Whitespace [32];
     Node S_Identifier [Tok S_Id [102]; Tok S_Whitespace [32]]; Tok S_Equal [61]; Tok S_Whitespace [32];
     Node S_Value [Tok S_IntVal [49]]; Tok S_Semi [59]]].
Example C19_inlay_let_example :
  inlay_hint_record_field ex_let_tree (s2n "int") 4 5 = [mkHint 5 (s2n ":int") HKFieldLet].
Proof. vm_compute. reflexivity. Qed.

(** ================= The model IS the source =================
    coq/gen/GenHandlers.v is the rendering of the CURRENT text of handlers/hover.rs `extract_doc_comments` and `prev_token`
    (tools/translate/t_handlers.py, re-run by every check) in the control monad of coq/model/HandlerApi.v (`?` / return / break /
    fuel of a rendered loop / rowan assertion); rowan's cursor API and the str operations are the modelled vocabulary.
    For ALL trees, cursors and ranges the rendering equals the hand models the theorems above are about; the rendered loops
    never run out of the fuel the translator annotates them with; outside rowan's contract for `covering_element`
    (empty / out-of-file range: never passed, it is the define_loc of an indexed symbol) the source panics. *)
Theorem C19_model_is_source :
  (forall c, src_prev_token c = outcome_of_walk (prev_token (S (cur_measure c)) c)) /\
  (forall c, src_prev_token c <> OutOfFuel) /\
  (forall root lo hi,
     src_extract_doc_comments (cur_root root) (lo, hi) =
       match covering_element root lo hi with
       | None => Panicked
       | Some _ => outcome_of_doc (extract_doc_comments root lo hi)
       end).
Proof. exact c19_model_is_source. Qed.
Check C19_model_is_source :
  (forall c, src_prev_token c = outcome_of_walk (prev_token (S (cur_measure c)) c)) /\
  (forall c, src_prev_token c <> OutOfFuel) /\
  (forall root lo hi,
     src_extract_doc_comments (cur_root root) (lo, hi) =
       match covering_element root lo hi with
       | None => Panicked
       | Some _ => outcome_of_doc (extract_doc_comments root lo hi)
       end).
Print Assumptions C19_model_is_source.

(** C19_doc restated over the rendering of the source: inside rowan's contract, the source returns the adjacency rule *)
Theorem C19_source_doc : forall root lo hi, covering_element root lo hi <> None ->
  src_extract_doc_comments (cur_root root) (lo, hi) =
    match decl_first_token root lo hi with
    | Some d => match doc_spec (leaves_before d) with DocSome t => Done (Some t) | _ => Done None end
    | None => Done None
    end.
Proof. exact c19_source_doc. Qed.
Check C19_source_doc : forall root lo hi, covering_element root lo hi <> None ->
  src_extract_doc_comments (cur_root root) (lo, hi) =
    match decl_first_token root lo hi with
    | Some d => match doc_spec (leaves_before d) with DocSome t => Done (Some t) | _ => Done None end
    | None => Done None
    end.
Print Assumptions C19_source_doc.

(** ... and the same for the inlay hints: the rendering of handlers/inlay_hint.rs `inlay_hint_record_field`, `inlay_hint_class`
    and `exec` equals the hand models of Outline.v (an absent `Option<Vec<_>>` is the empty list of the model: [olist]).
    `exec`: in every symbol-map state whose record-field arena holds record fields ([fields_kinded]: true of every replayed
    state, last conjunct) and for every range whose symbols lie inside their file (rowan's contract for `covering_element`).
    Iterator adaptors with a panicking closure are rendered eagerly (see design/notes-translator-handlers.md). *)
Theorem C19_inlay_model_is_source :
  (forall M trees fld loc,
     outcome_map olist (src_inlay_hint_record_field (mkIdb M trees) fld loc) =
       match covering_element (trees (fr_file loc)) (fr_lo loc) (fr_hi loc) with
       | None => Panicked
       | Some _ => Done (inlay_hint_record_field (trees (fr_file loc)) (en_typ fld) (fr_lo loc) (fr_hi loc))
       end) /\
  (forall M trees cls loc,
     outcome_map olist (src_inlay_hint_class (mkIdb M trees) M cls loc) =
       match covering_element (trees (fr_file loc)) (fr_lo loc) (fr_hi loc) with
       | None => Panicked
       | Some _ => outcome_of_sres (inlay_hint_class M (trees (fr_file loc)) (p_targs (e_payload cls)) (fr_lo loc) (fr_hi loc))
       end) /\
  (forall M trees loc, fields_kinded M ->
     (forall l, iter_symbols_in_range M loc = SOk (Some l) ->
        Forall (fun x : file_range * symbol_id =>
                  covering_element (trees (fr_file loc)) (fr_lo (fst x)) (fr_hi (fst x)) <> None) l) ->
     src_inlay_hint_exec (mkIdb M trees) loc = outcome_of_sres (inlay_hint M (fun f => Some (trees f)) loc)) /\
  (forall ops M, run_ops ops = SOk M -> fields_kinded M).
Proof. exact c19_inlay_model_is_source. Qed.
Check C19_inlay_model_is_source :
  (forall M trees fld loc,
     outcome_map olist (src_inlay_hint_record_field (mkIdb M trees) fld loc) =
       match covering_element (trees (fr_file loc)) (fr_lo loc) (fr_hi loc) with
       | None => Panicked
       | Some _ => Done (inlay_hint_record_field (trees (fr_file loc)) (en_typ fld) (fr_lo loc) (fr_hi loc))
       end) /\
  (forall M trees cls loc,
     outcome_map olist (src_inlay_hint_class (mkIdb M trees) M cls loc) =
       match covering_element (trees (fr_file loc)) (fr_lo loc) (fr_hi loc) with
       | None => Panicked
       | Some _ => outcome_of_sres (inlay_hint_class M (trees (fr_file loc)) (p_targs (e_payload cls)) (fr_lo loc) (fr_hi loc))
       end) /\
  (forall M trees loc, fields_kinded M ->
     (forall l, iter_symbols_in_range M loc = SOk (Some l) ->
        Forall (fun x : file_range * symbol_id =>
                  covering_element (trees (fr_file loc)) (fr_lo (fst x)) (fr_hi (fst x)) <> None) l) ->
     src_inlay_hint_exec (mkIdb M trees) loc = outcome_of_sres (inlay_hint M (fun f => Some (trees f)) loc)) /\
  (forall ops M, run_ops ops = SOk M -> fields_kinded M).
Print Assumptions C19_inlay_model_is_source.

(** ... and for hover itself: the rendering of hover.rs `extract_symbol_signature` and `exec` equals Outline.extract_symbol_signature /
    Outline.hover -- the functions C19_hover_same_symbol / C19_hover_iff_definition / C19_signature / C19_hover_doc are about -- in every
    state whose arenas hold entries of their own kind ([kinded]: true of every replayed state, last conjunct), for positions whose
    symbol's define_loc lies inside its file (rowan's contract for `covering_element`).  `VariableKind` is not part of the model: the
    `match variable.kind` is rendered because all its arms agree (the translator refuses it otherwise). *)
Theorem C19_hover_model_is_source :
  (forall M pos, kinded M ->
     src_extract_symbol_signature M pos = outcome_of_sres (extract_symbol_signature M (fst pos) (snd pos))) /\
  (forall M trees pos, kinded M ->
     (forall sig loc, extract_symbol_signature M (fst pos) (snd pos) = SOk (Some (sig, loc)) ->
        covering_element (trees (fr_file loc)) (fr_lo loc) (fr_hi loc) <> None) ->
     src_hover_exec (mkIdb M trees) pos =
       match hover M (fun f => Some (trees f)) (fst pos) (snd pos) with
       | SOk None => Done None
       | SOk (Some (sig, DocSome t)) => Done (Some (sig, Some t))
       | SOk (Some (sig, DocNone)) => Done (Some (sig, None))
       | SOk (Some (sig, DocOutOfFuel)) => OutOfFuel
       | SErr _ => Panicked
       end) /\
  (forall ops M, run_ops ops = SOk M -> kinded M).
Proof. exact c19_hover_model_is_source. Qed.
Check C19_hover_model_is_source :
  (forall M pos, kinded M ->
     src_extract_symbol_signature M pos = outcome_of_sres (extract_symbol_signature M (fst pos) (snd pos))) /\
  (forall M trees pos, kinded M ->
     (forall sig loc, extract_symbol_signature M (fst pos) (snd pos) = SOk (Some (sig, loc)) ->
        covering_element (trees (fr_file loc)) (fr_lo loc) (fr_hi loc) <> None) ->
     src_hover_exec (mkIdb M trees) pos =
       match hover M (fun f => Some (trees f)) (fst pos) (snd pos) with
       | SOk None => Done None
       | SOk (Some (sig, DocSome t)) => Done (Some (sig, Some t))
       | SOk (Some (sig, DocNone)) => Done (Some (sig, None))
       | SOk (Some (sig, DocOutOfFuel)) => OutOfFuel
       | SErr _ => Panicked
       end) /\
  (forall ops M, run_ops ops = SOk M -> kinded M).
Print Assumptions C19_hover_model_is_source.
