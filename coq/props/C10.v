(** Property C10 — Position mapping: byte offsets and LSP positions convert exactly.
    Statements only; proofs are in TG.Proofs.LineIndex{Proofs,Spec,Impl,C10}.
    Vocabulary (all defined in TG.Model.LineIndex / TG.Model.Chars, no line-start table involved):
      text = list of Unicode scalar values; bytes / u16 = UTF-8 / UTF-16 length;
      count_terms p  = number of line terminators of p (every LF, every CR not followed by LF);
      last_line p    = the part of p after its last CR / LF;
      on_char_boundary t o, inside_crlf t o;
      is_line t l q content rest : t = q ++ content ++ rest, q = the first l complete lines,
                                   content = the content of line l, rest = [] or starts with its terminator.
    pos_of / off_of = the specification; li_new, to_proto_*, from_proto_* = the model of
    line_index.rs, to_proto.rs, from_proto.rs (explicit Panic outcomes). *)
From Coq Require Import List NArith Bool.
From TG.Model Require Import Chars LineIndex.
From TG.Gen Require Import GenLineIndex.
From TG.Proofs Require Import LineIndexProofs LineIndexSpec LineIndexImpl LineIndexFloor LineIndexC10 GenLineIndexEq.
Import ListNotations.
Open Scope N_scope.

(** An offset maps to the zero-based line containing it (= number of terminators before it) and the
    UTF-16 column within that line (= UTF-16 length of the text between the last terminator and it). *)
Theorem C10_line : forall p s : text,
  ~ inside_crlf (p ++ s) (bytes p) ->
  pos_of (p ++ s) (bytes p) = (count_terms p, u16 (last_line p)).
Proof. exact c10_line. Qed.
Example C10_line_nonvacuous :
  ~ inside_crlf (ex_p ++ ex_s) (bytes ex_p) /\
  pos_of (ex_p ++ ex_s) (bytes ex_p) = (1, 3) /\ (count_terms ex_p, u16 (last_line ex_p)) = (1, 3).
Proof. exact (conj ex_not_inside ex_line_value). Qed.

(** The offset between a CR and its LF (producible by the lexer): same line, one column past the content;
    that position converts back to the end of the content. *)
Theorem C10_line_inside_crlf : forall p s : text,
  pos_of (p ++ 13 :: 10 :: s) (bytes p + 1) = (count_terms p, u16 (last_line p) + 1) /\
  off_of (p ++ 13 :: 10 :: s) (count_terms p) (u16 (last_line p) + 1) = bytes p.
Proof. exact c10_line_inside_crlf. Qed.

(** the two cases above are exhaustive for offsets on character boundaries *)
Theorem C10_boundary_cases : forall (t : text) (o : N),
  on_char_boundary t o -> inside_crlf t o \/ ~ inside_crlf t o.
Proof. exact c10_boundary_cases. Qed.

(** Converting back returns the same offset. *)
Theorem C10_roundtrip : forall (t : text) (o : N),
  on_char_boundary t o -> ~ inside_crlf t o ->
  off_of t (fst (pos_of t o)) (snd (pos_of t o)) = o.
Proof. exact c10_roundtrip. Qed.
Example C10_roundtrip_nonvacuous : on_char_boundary ex_t 11 /\ ~ inside_crlf ex_t 11.
Proof. exact ex_roundtrip_hyp. Qed.

(** A column past the end of a line means the line end; a line past the last one means the text end. *)
Theorem C10_clamp :
  (forall (t : text) (l : N) (q content rest : text) (c : N),
     is_line t l q content rest -> u16 content <= c -> off_of t l c = bytes q + bytes content) /\
  (forall (t : text) (l c : N), count_terms t < l -> off_of t l c = bytes t).
Proof. exact c10_clamp. Qed.
Example C10_clamp_nonvacuous :
  (is_line ex_t 1 [8364; 13; 10] [128512; 233] ex_s /\ u16 [128512; 233] <= 7) /\
  (off_of ex_t 1 7 = 11 /\ off_of ex_t 9 0 = 18 /\ bytes ex_t = 18 /\ count_terms ex_t = 3).
Proof. exact (conj ex_is_line ex_clamp_value). Qed.

(** A column inside a line: the last character boundary of the line whose UTF-16 column does not
    exceed it (a column between the two units of an astral character means the start of that character). *)
Theorem C10_column : forall (t : text) (l : N) (q x y rest : text) (c : N),
  is_line t l q (x ++ y) rest -> u16 x <= c ->
  (y = [] \/ exists d y', y = d :: y' /\ c < u16 x + utf16_len d) ->
  off_of t l c = bytes q + bytes x.
Proof. exact c10_column. Qed.
Example C10_column_nonvacuous :
  is_line ex_t 1 [8364; 13; 10] ([128512] ++ [233]) ex_s /\ u16 [128512] <= 2 /\
  exists d y', [233] = d :: y' /\ 2 < u16 [128512] + utf16_len d.
Proof. exact ex_column_hyp. Qed.

(** The hypotheses of C10_clamp / C10_column are satisfiable for every line of every text. *)
Theorem C10_line_exists : forall (t : text) (l : N),
  l <= count_terms t -> exists q content rest, is_line t l q content rest.
Proof. exact is_line_exists. Qed.

(** off_of is monotone in (line, column): an ordered LSP range is an ordered byte range. *)
Theorem C10_monotone : forall (t : text) (l1 c1 l2 c2 : N),
  l1 < l2 \/ (l1 = l2 /\ c1 <= c2) -> off_of t l1 c1 <= off_of t l2 c2.
Proof. exact off_of_mono. Qed.

(** Refinement: the model of the implementation computes the specification and never panics
    (texts below 4 GiB, the limit of text-size's TextSize):
    LineIndex::new succeeds; to_proto::position = pos_of on every character boundary and does not panic on
    ANY offset; from_proto::position = off_of on ANY (line, column); to_proto::range; from_proto::range on
    ordered ranges (the TextRange::new assertion cannot fail). *)
Theorem C10_impl_correct : forall t : text, bytes t <= u32_max ->
  exists li, li_new t = Ok li /\
    (forall o, on_char_boundary t o -> to_proto_position li o = Ok (pos_of t o)) /\
    (forall o, exists p, to_proto_position li o = Ok p) /\
    (forall l c, from_proto_position li (l, c) = Ok (off_of t l c)) /\
    (forall a b, on_char_boundary t a -> on_char_boundary t b ->
                 to_proto_range li (a, b) = Ok (pos_of t a, pos_of t b)) /\
    (forall l1 c1 l2 c2, l1 < l2 \/ (l1 = l2 /\ c1 <= c2) ->
                 from_proto_range li ((l1, c1), (l2, c2)) = Ok (off_of t l1 c1, off_of t l2 c2)).
Proof. exact impl_correct. Qed.
Example C10_impl_correct_nonvacuous :
  bytes ex_t <= u32_max /\
  text_to_position ex_t 11 = Ok (1, 3) /\ text_to_position ex_t 9 = Ok (1, 2) /\
  text_from_position ex_t 1 1 = Ok 5 /\ text_from_position ex_t 2 9 = Ok 17.
Proof. exact (conj ex_small ex_impl_value). Qed.

(** to_proto::folding_range reports the lines of the two ends (for ANY offsets, never panics); the other
    converters of to_proto.rs (inlay_hint, location, diagnostic, document_link, document_symbol) are position / range. *)
Theorem C10_impl_folding_range : forall (t : text) (a b : N), bytes t <= u32_max ->
  to_proto_folding_range (mkLI t (encode t) (line_starts t)) (a, b) = Ok (fst (pos_of t a), fst (pos_of t b)).
Proof. exact to_proto_folding_range_ok. Qed.
Theorem C10_impl_wrappers : forall t : text, bytes t <= u32_max ->
  (forall o, on_char_boundary t o ->
     to_proto_inlay_hint_position (mkLI t (encode t) (line_starts t)) o = Ok (pos_of t o)) /\
  (forall a b, on_char_boundary t a -> on_char_boundary t b ->
     to_proto_location_range (mkLI t (encode t) (line_starts t)) (a, b) = Ok (pos_of t a, pos_of t b) /\
     to_proto_diagnostic_range (mkLI t (encode t) (line_starts t)) (a, b) = Ok (pos_of t a, pos_of t b) /\
     to_proto_document_link_range (mkLI t (encode t) (line_starts t)) (a, b) = Ok (pos_of t a, pos_of t b) /\
     to_proto_document_symbol_range (mkLI t (encode t) (line_starts t)) (a, b) =
       Ok ((pos_of t a, pos_of t b), (pos_of t a, pos_of t b))).
Proof. exact to_proto_wrappers_ok. Qed.

(** Beyond the property: the model at offsets that are not character boundaries.  Strictly inside a multi-byte
    character: the position of the start of that character; past the end: the position of the end.  With
    C10_impl_correct the model of to_proto::position is characterised at EVERY offset. *)
Theorem C10_impl_every_offset : forall t : text, bytes t <= u32_max ->
  (forall p c s k, t = p ++ c :: s -> 0 < k < utf8_len c ->
     to_proto_position (mkLI t (encode t) (line_starts t)) (bytes p + k) = Ok (pos_of t (bytes p))) /\
  (forall o, bytes t <= o -> to_proto_position (mkLI t (encode t) (line_starts t)) o = Ok (pos_of t (bytes t))) /\
  (forall o, on_char_boundary t o \/
             (exists p c s k, t = p ++ c :: s /\ 0 < k < utf8_len c /\ o = bytes p + k) \/ bytes t < o).
Proof. exact to_proto_position_every_offset. Qed.

(** The model IS the source: coq/gen/GenLineIndex.v is regenerated on every run by tools/translate/t_lineindex.py
    from the current text of line_index.rs (every fn of impl LineIndex), to_proto.rs (position, range,
    folding_range) and from_proto.rs (position, range); its functions src_* equal the hand model, for all inputs.
    A semantic edit of those functions makes the translator refuse the source or breaks this obligation. *)
Theorem C10_model_is_source :
  (forall t, src_li_new t = li_new t) /\
  (forall li pos, src_li_pos_to_line li pos = pos_to_line li pos) /\
  (forall li line, src_li_line_to_pos li line = line_to_pos li line) /\
  (forall li pos, src_li_utf16_col li pos = utf16_col li pos) /\
  (forall li line col, src_li_offset_at li line col = offset_at li line col) /\
  (forall li o, src_to_proto_position li o = to_proto_position li o) /\
  (forall li r, src_to_proto_range li r = to_proto_range li r) /\
  (forall li r, src_to_proto_folding_range li r = to_proto_folding_range li r) /\
  (forall li p, src_from_proto_position li p = from_proto_position li p) /\
  (forall li r, src_from_proto_range li r = from_proto_range li r).
Proof. exact model_is_source. Qed.

(** hence the refinement theorem holds for the rendering of the source itself *)
Theorem C10_source_correct : forall t : text, bytes t <= u32_max ->
  exists li, src_li_new t = Ok li /\
    (forall o, on_char_boundary t o -> src_to_proto_position li o = Ok (pos_of t o)) /\
    (forall o, exists p, src_to_proto_position li o = Ok p) /\
    (forall l c, src_from_proto_position li (l, c) = Ok (off_of t l c)) /\
    (forall a b, on_char_boundary t a -> on_char_boundary t b ->
                 src_to_proto_range li (a, b) = Ok (pos_of t a, pos_of t b)) /\
    (forall l1 c1 l2 c2, l1 < l2 \/ (l1 = l2 /\ c1 <= c2) ->
                 src_from_proto_range li ((l1, c1), (l2, c2)) = Ok (off_of t l1 c1, off_of t l2 c2)) /\
    (forall a b, src_to_proto_folding_range li (a, b) = Ok (fst (pos_of t a), fst (pos_of t b))).
Proof. exact source_correct. Qed.

(** pieces of the refinement, individually *)
Theorem C10_impl_new : forall t : text, bytes t <= u32_max ->
  li_new t = Ok (mkLI t (encode t) (line_starts t)).
Proof. exact li_new_ok. Qed.
Theorem C10_impl_partitioned : forall (t : text) (pos : N), exists a b, line_starts t = a ++ b /\
  (forall x, In x a -> (x <=? pos) = true) /\ (forall x, In x b -> (x <=? pos) = false).
Proof. exact starts_partitioned. Qed.
Theorem C10_impl_char_boundary : forall p s : text, is_char_boundary (encode (p ++ s)) (bytes p) = true.
Proof. exact is_char_boundary_ok. Qed.

(** the spot values of DESIGN.md Appendix A.1 *)
Example C10_spot_values :
  pos_of [233; 10; 120] 2 = (0, 1) /\ pos_of [233; 10; 120] 3 = (1, 0) /\
  pos_of [97; 13; 10; 98] 2 = (0, 2) /\ pos_of [97; 12; 98; 10; 99] 2 = (0, 2) /\
  pos_of [128512; 97] 4 = (0, 2) /\ off_of [97; 98; 10; 99] 0 10 = 2 /\
  off_of [97; 98; 10; 99] 5 0 = 4 /\ off_of [97; 13; 10; 98] 0 5 = 1.
Proof. exact spot_values. Qed.

(* pins: the statements cannot drift from what this file says *)
Check C10_line : forall p s : text, ~ inside_crlf (p ++ s) (bytes p) ->
  pos_of (p ++ s) (bytes p) = (count_terms p, u16 (last_line p)).
Check C10_line_inside_crlf : forall p s : text,
  pos_of (p ++ 13 :: 10 :: s) (bytes p + 1) = (count_terms p, u16 (last_line p) + 1) /\
  off_of (p ++ 13 :: 10 :: s) (count_terms p) (u16 (last_line p) + 1) = bytes p.
Check C10_roundtrip : forall (t : text) (o : N), on_char_boundary t o -> ~ inside_crlf t o ->
  off_of t (fst (pos_of t o)) (snd (pos_of t o)) = o.
Check C10_clamp :
  (forall (t : text) (l : N) (q content rest : text) (c : N),
     is_line t l q content rest -> u16 content <= c -> off_of t l c = bytes q + bytes content) /\
  (forall (t : text) (l c : N), count_terms t < l -> off_of t l c = bytes t).
Check C10_column : forall (t : text) (l : N) (q x y rest : text) (c : N),
  is_line t l q (x ++ y) rest -> u16 x <= c ->
  (y = [] \/ exists d y', y = d :: y' /\ c < u16 x + utf16_len d) -> off_of t l c = bytes q + bytes x.
Check C10_line_exists : forall (t : text) (l : N),
  l <= count_terms t -> exists q content rest, is_line t l q content rest.
Check C10_monotone : forall (t : text) (l1 c1 l2 c2 : N),
  l1 < l2 \/ (l1 = l2 /\ c1 <= c2) -> off_of t l1 c1 <= off_of t l2 c2.
Check C10_impl_correct : forall t : text, bytes t <= u32_max ->
  exists li, li_new t = Ok li /\
    (forall o, on_char_boundary t o -> to_proto_position li o = Ok (pos_of t o)) /\
    (forall o, exists p, to_proto_position li o = Ok p) /\
    (forall l c, from_proto_position li (l, c) = Ok (off_of t l c)) /\
    (forall a b, on_char_boundary t a -> on_char_boundary t b ->
                 to_proto_range li (a, b) = Ok (pos_of t a, pos_of t b)) /\
    (forall l1 c1 l2 c2, l1 < l2 \/ (l1 = l2 /\ c1 <= c2) ->
                 from_proto_range li ((l1, c1), (l2, c2)) = Ok (off_of t l1 c1, off_of t l2 c2)).

Print Assumptions C10_line.
Print Assumptions C10_line_inside_crlf.
Print Assumptions C10_boundary_cases.
Print Assumptions C10_roundtrip.
Print Assumptions C10_clamp.
Print Assumptions C10_column.
Print Assumptions C10_line_exists.
Print Assumptions C10_monotone.
Print Assumptions C10_impl_correct.
Print Assumptions C10_impl_folding_range.
Print Assumptions C10_impl_wrappers.
Print Assumptions C10_impl_every_offset.
Print Assumptions C10_model_is_source.
Print Assumptions C10_source_correct.
Print Assumptions C10_impl_new.
Print Assumptions C10_impl_partitioned.
Print Assumptions C10_impl_char_boundary.
