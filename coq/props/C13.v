(** C13 Diagnostics are sound and complete on the supported core language.
    Theorems about the executable model of crates/ide/src/index.rs, index/bang_operator.rs, symbol_map/typ.rs
    and handlers/diagnostics.rs (coq/model/Scope.v, BangOps.v, Indexer.v).  Only statements; proofs in
    coq/proofs/DiagLocal.v.

    C13_complete_<fault> (partial): the check that must fire at a faulty site DOES emit the diagnostic of the
    class on the range of the site in the current file (for all programs/states/fuels), and
    C13_diagnostics_persist: nothing indexed afterwards removes it.  That the indexer reaches every USE site of a
    program of the fragment is C13_visited_all_*_partial below (the coverage lemma of C05_resolution, for one file,
    for workspaces, and with field accesses); C13_sound_no_not_found_*_partial is the resolution half of soundness on
    the same fragments.  Outside the fragments, and for the typing half of soundness, the correspondence and the
    oracle of checks/C13.py.  *)
From Coq Require Import List NArith Bool.
From TG.Model Require Import CoreAst Scope BangOps Indexer.
From TG.Model Require Import ScopeSpec.
From TG.Model Require ScopeSpecT.
From TG.Proofs Require ScopeSimT ScopeSimWsT.
From TG.Proofs Require Import DiagLocal ScopeSim ScopeSimRec ScopeSimWs IndexerTotal.
Import ListNotations.
Open Scope N_scope.

Theorem C13_complete_undefined_class_type : forall i s,
    find_class s (i_name i) = None ->
    index_ty (TyClass i) s = (None, set_diags ((here_rng s (i_rng i), DClassNotFound) :: s_diags s) s).
Proof. exact undefined_class_in_type. Qed.
Check C13_complete_undefined_class_type : forall i s,
    find_class s (i_name i) = None ->
    index_ty (TyClass i) s = (None, set_diags ((here_rng s (i_rng i), DClassNotFound) :: s_diags s) s).
Print Assumptions C13_complete_undefined_class_type.

Theorem C13_complete_undefined_class_parent : forall n i args r s,
    find_class s (i_name i) = None ->
    resolve_class_ref_as_class n (CRef i args r) s
    = (None, set_diags ((here_rng s (i_rng i), DClassNotFound) :: s_diags s) s).
Proof. exact undefined_class_as_parent. Qed.
Check C13_complete_undefined_class_parent : forall n i args r s,
    find_class s (i_name i) = None ->
    resolve_class_ref_as_class n (CRef i args r) s
    = (None, set_diags ((here_rng s (i_rng i), DClassNotFound) :: s_diags s) s).
Print Assumptions C13_complete_undefined_class_parent.

Theorem C13_complete_undefined_class_value : forall n i args r s,
    find_class s (i_name i) = None ->
    index_simple (S n) (SClassVal i args r) s
    = (None, set_diags ((here_rng s (i_rng i), DClassNotFound) :: s_diags s) s).
Proof. exact undefined_class_as_value. Qed.
Check C13_complete_undefined_class_value : forall n i args r s,
    find_class s (i_name i) = None ->
    index_simple (S n) (SClassVal i args r) s
    = (None, set_diags ((here_rng s (i_rng i), DClassNotFound) :: s_diags s) s).
Print Assumptions C13_complete_undefined_class_value.

Theorem C13_complete_undefined_multiclass : forall n i args r s,
    find_multiclass s (i_name i) = None ->
    resolve_class_ref_as_multiclass n (CRef i args r) s
    = (None, set_diags ((here_rng s (i_rng i), DMulticlassNotFound) :: s_diags s) s).
Proof. exact undefined_multiclass. Qed.
Check C13_complete_undefined_multiclass : forall n i args r s,
    find_multiclass s (i_name i) = None ->
    resolve_class_ref_as_multiclass n (CRef i args r) s
    = (None, set_diags ((here_rng s (i_rng i), DMulticlassNotFound) :: s_diags s) s).
Print Assumptions C13_complete_undefined_multiclass.

Theorem C13_complete_undefined_identifier : forall n i s,
    resolve_id s (i_name i) = None -> name_eqb (i_name i) name_NAME = false ->
    index_simple (S n) (SId i) s
    = (None, set_diags ((here_rng s (i_rng i), DSymbolNotFound) :: s_diags s) s).
Proof. exact undefined_identifier. Qed.
Check C13_complete_undefined_identifier : forall n i s,
    resolve_id s (i_name i) = None -> name_eqb (i_name i) name_NAME = false ->
    index_simple (S n) (SId i) s
    = (None, set_diags ((here_rng s (i_rng i), DSymbolNotFound) :: s_diags s) s).
Print Assumptions C13_complete_undefined_identifier.

Theorem C13_complete_undefined_include : forall files n r s,
    index_stmt files (S n) (SInclude r None) s
    = (None, set_diags ((here_rng s r, DIncludeNotFound) :: s_diags s) s).
Proof. exact undefined_include. Qed.
Check C13_complete_undefined_include : forall files n r s,
    index_stmt files (S n) (SInclude r None) s
    = (None, set_diags ((here_rng s r, DIncludeNotFound) :: s_diags s) s).
Print Assumptions C13_complete_undefined_include.

Theorem C13_complete_surplus_template_argument : forall s targs args r,
    (length targs < length args)%nat -> check_template_args s targs args r = [(r, DTooManyArgs)].
Proof. exact surplus_template_argument. Qed.
Check C13_complete_surplus_template_argument : forall s targs args r,
    (length targs < length args)%nat -> check_template_args s targs args r = [(r, DTooManyArgs)].
Print Assumptions C13_complete_surplus_template_argument.

Theorem C13_complete_missing_template_argument : forall s targs args r a,
    forallb positional args = true -> (length args <= length targs)%nat ->
    In a targs -> lf_default a = false ->
    (forall i a', (i < length args)%nat -> nth_error targs i = Some a' -> name_eqb (lf_name a') (lf_name a) = false) ->
    (forall a', In a' targs -> name_eqb (lf_name a') (lf_name a) = true -> lf_default a' = false) ->
    In (r, DArgMissing) (check_template_args s targs args r).
Proof. exact missing_template_argument. Qed.
Check C13_complete_missing_template_argument : forall s targs args r a,
    forallb positional args = true -> (length args <= length targs)%nat ->
    In a targs -> lf_default a = false ->
    (forall i a', (i < length args)%nat -> nth_error targs i = Some a' -> name_eqb (lf_name a') (lf_name a) = false) ->
    (forall a', In a' targs -> name_eqb (lf_name a') (lf_name a) = true -> lf_default a' = false) ->
    In (r, DArgMissing) (check_template_args s targs args r).
Print Assumptions C13_complete_missing_template_argument.

Theorem C13_complete_incompatible_argument : forall s targs args r j vty vr a,
    (length args <= length targs)%nat ->
    nth_error args j = Some (Some (None, vty, vr)) -> nth_error targs j = Some a ->
    can_cast s vty (lf_ty a) = false ->
    In (vr, DArgType) (check_template_args s targs args r).
Proof. exact incompatible_template_argument. Qed.
Check C13_complete_incompatible_argument : forall s targs args r j vty vr a,
    (length args <= length targs)%nat ->
    nth_error args j = Some (Some (None, vty, vr)) -> nth_error targs j = Some a ->
    can_cast s vty (lf_ty a) = false ->
    In (vr, DArgType) (check_template_args s targs args r).
Print Assumptions C13_complete_incompatible_argument.

Theorem C13_complete_incompatible_initialiser : forall n t i v s rid typ s1 vt s4,
    current_record_id s = Some rid -> nthN (s_recs s) rid <> None ->
    index_ty t s = (Some typ, s1) ->
    s_recs s1 = s_recs s ->
    (forall s2 fid s3, add_leaf (mkLeaf LField (i_name i) typ false (here_rng s (i_rng i))) s1 = (Some fid, s2) ->
                       snd (record_mut rid (rec_add_field (i_name i) fid) s2) = s3 ->
                       index_value n v s3 = (Some vt, s4)) ->
    can_cast s4 vt typ = false ->
    In (here_rng s4 (value_rng v), DFieldIncompat) (s_diags (snd (index_item n (IField t i (Some v)) s))).
Proof. exact incompatible_field_initialiser. Qed.
Check C13_complete_incompatible_initialiser : forall n t i v s rid typ s1 vt s4,
    current_record_id s = Some rid -> nthN (s_recs s) rid <> None ->
    index_ty t s = (Some typ, s1) ->
    s_recs s1 = s_recs s ->
    (forall s2 fid s3, add_leaf (mkLeaf LField (i_name i) typ false (here_rng s (i_rng i))) s1 = (Some fid, s2) ->
                       snd (record_mut rid (rec_add_field (i_name i) fid) s2) = s3 ->
                       index_value n v s3 = (Some vt, s4)) ->
    can_cast s4 vt typ = false ->
    In (here_rng s4 (value_rng v), DFieldIncompat) (s_diags (snd (index_item n (IField t i (Some v)) s))).
Print Assumptions C13_complete_incompatible_initialiser.

Theorem C13_complete_operator_arity : forall n op annot vs r s,
    arity_ok (bang_arity op) (length vs) = false ->
    In (here_rng s r, DArity) (s_diags (snd (index_bang (S n) op annot vs r s))).
Proof. exact wrong_operator_arity. Qed.
Check C13_complete_operator_arity : forall n op annot vs r s,
    arity_ok (bang_arity op) (length vs) = false ->
    In (here_rng s r, DArity) (s_diags (snd (index_bang (S n) op annot vs r s))).
Print Assumptions C13_complete_operator_arity.

Theorem C13_complete_syntax_error : forall w r, In r (ws_perrs w) -> In (r, DSyntax) (diagnostics w).
Proof. exact syntax_error_reported. Qed.
Check C13_complete_syntax_error : forall w r, In r (ws_perrs w) -> In (r, DSyntax) (diagnostics w).
Print Assumptions C13_complete_syntax_error.

Theorem C13_diagnostics_persist : forall files n l s d,
    In d (s_diags s) -> In d (s_diags (snd (iterM (index_stmt files n) l s))).
Proof. exact diagnostics_persist. Qed.
Check C13_diagnostics_persist : forall files n l s d,
    In d (s_diags s) -> In d (s_diags (snd (iterM (index_stmt files n) l s))).
Print Assumptions C13_diagnostics_persist.

(** C13_sound (full statement, not proved):
      forall ws, Core ws -> WellFormed ws -> diagnostics ws = [].
    The faithful model refutes it on the registered known finding (known_findings.txt key=if-sibling-records):
    `class A; def a : A; def b : A; def c { A x = !if(1, a, b); }` is accepted by llvm-tblgen, and the
    indexer reports "inconsistent types a and b for !if" on the third operand. *)
Definition ws_if_siblings : workspace :=
  (mkWs [[(SClass (mkId (mkR 0 6 7) [65]) None [] []); (SDef (Some (Val (mkR 0 13 15) [(Inner (SId (mkId (mkR 0 13 14) [97])) [])])) (mkR 0 9 20) [(CRef (mkId (mkR 0 17 18) [65]) [] (mkR 0 17 18))] []); (SDef (Some (Val (mkR 0 24 26) [(Inner (SId (mkId (mkR 0 24 25) [98])) [])])) (mkR 0 20 31) [(CRef (mkId (mkR 0 28 29) [65]) [] (mkR 0 28 29))] []); (SDef (Some (Val (mkR 0 35 37) [(Inner (SId (mkId (mkR 0 35 36) [99])) [])])) (mkR 0 31 60) [] [(IField (TyClass (mkId (mkR 0 39 40) [65])) (mkId (mkR 0 41 42) [120]) (Some (Val (mkR 0 45 57) [(Inner (SBang XIf None [(Val (mkR 0 49 50) [(Inner SInt [])]); (Val (mkR 0 52 53) [(Inner (SId (mkId (mkR 0 52 53) [97])) [])]); (Val (mkR 0 55 56) [(Inner (SId (mkId (mkR 0 55 56) [98])) [])])] (mkR 0 45 57)) [])])))])]] []).
Theorem C13_sound_refuted : diagnostics ws_if_siblings = [(mkR 0 55 56, DOperand)].
Proof. vm_compute. reflexivity. Qed.
Check C13_sound_refuted : diagnostics ws_if_siblings = [(mkR 0 55 56, DOperand)].
Print Assumptions C13_sound_refuted.

(** Non-vacuity of the implications above on non-trivial states: after `class A<int p>;` the class reference
    `B<1>` is an undefined parent, `A<1, 2>` has a surplus argument, `A<"s">` an incompatible one, and
    `!add(1)` a wrong arity; the indexer reports each on the expected range. *)
Definition ex_s : st :=
  snd (index_stmt [] 20 (SClass (mkId (mkR 0 6 7) [65]) (Some [TArg TyInt (mkId (mkR 0 12 13) [112]) None]) [] []) st0).
Definition ex_intv (lo hi : N) : value := Val (mkR 0 lo hi) [Inner SInt []].
Definition ex_strv (lo hi : N) : value := Val (mkR 0 lo hi) [Inner SString []].
Example C13_complete_nonvacuous :
  find_class ex_s [66] = None /\ find_class ex_s [65] <> None /\
  In (mkR 0 30 31, DClassNotFound)
     (s_diags (snd (resolve_class_ref_as_class 9 (CRef (mkId (mkR 0 30 31) [66]) [APos (ex_intv 32 33) (mkR 0 32 33)] (mkR 0 30 34)) ex_s))) /\
  In (mkR 0 30 37, DTooManyArgs)
     (s_diags (snd (resolve_class_ref_as_class 9 (CRef (mkId (mkR 0 30 31) [65])
        [APos (ex_intv 32 33) (mkR 0 32 33); APos (ex_intv 35 36) (mkR 0 35 36)] (mkR 0 30 37)) ex_s))) /\
  In (mkR 0 32 35, DArgType)
     (s_diags (snd (resolve_class_ref_as_class 9 (CRef (mkId (mkR 0 30 31) [65])
        [APos (ex_strv 32 35) (mkR 0 32 35)] (mkR 0 30 36)) ex_s))) /\
  In (mkR 0 40 47, DArity)
     (s_diags (snd (index_bang 9 XAdd None [ex_intv 45 46] (mkR 0 40 47) ex_s))).
Proof. vm_compute. repeat split; try congruence; auto. Qed.

(** C13_sound, resolution half (partial): a well-scoped program of the fragment of C05_resolution_partial (all
    statement kinds, classes / defs without parent classes, no field access, one file) yields NO "class not found",
    "multiclass not found" or "symbol not found" diagnostic; and (visited_all, the coverage half of
    C13_complete_<undefined ...>) every use the declarative resolver lists IS visited by the indexer: it is in the
    use log with the declaration the resolver assigns.  (The typing half of C13_sound is not under a theorem.) *)
Theorem C13_sound_no_not_found_partial : forall files n l,
    fragB_stmts l = true ->
    forallb resolved (fst (spec_stmts 0 env0 l)) = true ->
    s_bad (snd (iterM (index_stmt files n) l st0)) = false ->
    forall d, In d (s_diags (snd (iterM (index_stmt files n) l st0))) -> nf_kind (snd d) = false.
Proof.
  intros files n l Hf HR Hb d Hin.
  destruct (file_resolution files n l Hf HR Hb) as [_ Hnf].
  destruct (nf_kind (snd d)) eqn:E; [|reflexivity].
  assert (In d (nf (snd (iterM (index_stmt files n) l st0)))) by (unfold nf; apply filter_In; split; assumption).
  rewrite Hnf in H. destruct H.
Qed.
Check C13_sound_no_not_found_partial : forall files n l,
    fragB_stmts l = true ->
    forallb resolved (fst (spec_stmts 0 env0 l)) = true ->
    s_bad (snd (iterM (index_stmt files n) l st0)) = false ->
    forall d, In d (s_diags (snd (iterM (index_stmt files n) l st0))) -> nf_kind (snd d) = false.
Print Assumptions C13_sound_no_not_found_partial.

Theorem C13_visited_all_partial : forall files n l u,
    fragB_stmts l = true ->
    forallb resolved (fst (spec_stmts 0 env0 l)) = true ->
    s_bad (snd (iterM (index_stmt files n) l st0)) = false ->
    In u (fst (spec_stmts 0 env0 l)) -> In u (s_uses (snd (iterM (index_stmt files n) l st0))).
Proof.
  intros files n l u Hf HR Hb Hin.
  destruct (file_resolution files n l Hf HR Hb) as [Hu _].
  rewrite <- Hu in Hin. rewrite <- in_rev in Hin. exact Hin.
Qed.
Check C13_visited_all_partial : forall files n l u,
    fragB_stmts l = true ->
    forallb resolved (fst (spec_stmts 0 env0 l)) = true ->
    s_bad (snd (iterM (index_stmt files n) l st0)) = false ->
    In u (fst (spec_stmts 0 env0 l)) -> In u (s_uses (snd (iterM (index_stmt files n) l st0))).
Print Assumptions C13_visited_all_partial.

(** ... and the same two statements for a WORKSPACE of several files (includes at the top level of the files):
    no "not found" diagnostic on a well-scoped workspace of the fragment, and every use the resolver lists is
    visited. *)
Theorem C13_sound_no_not_found_workspace_partial : forall w,
    frag_ws w = true -> well_scoped w = true ->
    forall d, In d (s_diags (index_ws w)) -> nf_kind (snd d) = false.
Proof.
  intros w Hf HR d Hin. pose proof (index_ws_total w) as Hb.
  destruct (workspace_resolution w Hf HR Hb) as [_ Hnf].
  destruct (nf_kind (snd d)) eqn:E; [|reflexivity].
  assert (In d (nf (index_ws w))) by (unfold nf; apply filter_In; split; assumption).
  rewrite Hnf in H. destruct H.
Qed.
Check C13_sound_no_not_found_workspace_partial : forall w,
    frag_ws w = true -> well_scoped w = true ->
    forall d, In d (s_diags (index_ws w)) -> nf_kind (snd d) = false.
Print Assumptions C13_sound_no_not_found_workspace_partial.

Theorem C13_visited_all_workspace_partial : forall w u,
    frag_ws w = true -> well_scoped w = true ->
    In u (spec_uses w) -> In u (s_uses (index_ws w)).
Proof.
  intros w u Hf HR Hin. pose proof (index_ws_total w) as Hb.
  destruct (workspace_resolution w Hf HR Hb) as [Hu _].
  rewrite <- Hu in Hin. rewrite <- in_rev in Hin. exact Hin.
Qed.
Check C13_visited_all_workspace_partial : forall w u,
    frag_ws w = true -> well_scoped w = true ->
    In u (spec_uses w) -> In u (s_uses (index_ws w)).
Print Assumptions C13_visited_all_workspace_partial.

(** ... and over the TYPED resolver ScopeSpecT (field accesses `v.f` included; props/C05.v
    C05_resolution_field_access_partial): on a workspace of that fragment all of whose uses - field accesses
    included - the typed resolver resolves, the indexer emits no "class / multiclass / symbol not found" and no
    "cannot access field" diagnostic ([ScopeSimT.nf_kind] covers these four kinds), and it visits every use the
    resolver lists (so a `cannot access field` or a not-found on such a
    site cannot be masked by the site not being indexed). *)
Theorem C13_sound_no_not_found_field_access_partial : forall w,
    ScopeSpecT.frag_ws w = true -> ScopeSpecT.well_scoped w = true ->
    forall d, In d (s_diags (index_ws w)) -> ScopeSimT.nf_kind (snd d) = false.
Proof.
  intros w Hf HR d Hin. pose proof (index_ws_total w) as Hb.
  destruct (ScopeSimWsT.workspace_resolution w Hf HR Hb) as [_ Hnf].
  destruct (ScopeSimT.nf_kind (snd d)) eqn:E; [|reflexivity].
  assert (In d (ScopeSimT.nf (index_ws w))) by (unfold ScopeSimT.nf; apply filter_In; split; assumption).
  rewrite Hnf in H. destruct H.
Qed.
Check C13_sound_no_not_found_field_access_partial : forall w,
    ScopeSpecT.frag_ws w = true -> ScopeSpecT.well_scoped w = true ->
    forall d, In d (s_diags (index_ws w)) -> ScopeSimT.nf_kind (snd d) = false.
Print Assumptions C13_sound_no_not_found_field_access_partial.

Theorem C13_visited_all_field_access_partial : forall w u,
    ScopeSpecT.frag_ws w = true -> ScopeSpecT.well_scoped w = true ->
    In u (ScopeSpecT.spec_uses w) -> In u (s_uses (index_ws w)).
Proof.
  intros w u Hf HR Hin. pose proof (index_ws_total w) as Hb.
  destruct (ScopeSimWsT.workspace_resolution w Hf HR Hb) as [Hu _].
  rewrite <- Hu in Hin. rewrite <- in_rev in Hin. exact Hin.
Qed.
Check C13_visited_all_field_access_partial : forall w u,
    ScopeSpecT.frag_ws w = true -> ScopeSpecT.well_scoped w = true ->
    In u (ScopeSpecT.spec_uses w) -> In u (s_uses (index_ws w)).
Print Assumptions C13_visited_all_field_access_partial.
Example C13_field_access_kinds :
  ScopeSimT.nf_kind DCannotAccessField = true /\ ScopeSimT.nf_kind DSymbolNotFound = true /\
  ScopeSimT.nf_kind DClassNotFound = true /\ ScopeSimT.nf_kind DMulticlassNotFound = true /\
  ScopeSimT.nf_kind DFieldIncompat = false.
Proof. repeat split. Qed.
