(** C13 (diagnostics), pipeline level, syntax-error clause (group symmap; composition of builder bridge's model pipeline
    with group scope's [Indexer.diagnostics]).  Model-level version: props/C13.v [C13_complete_syntax_error]
    (every range of [ws_perrs w] is reported as DSyntax); here [ws_perrs] is connected to the parser:
    for EVERY analysis of [Pipeline.analyze] that yields a Core workspace, the parse-error ranges of the workspace are
    EXACTLY the errors the modelled parser reports for the workspace files, tagged with the file number
    ([C13_pipeline_perrs_exact]); hence every syntax error of every workspace file appears in the diagnostics of the
    pipeline with its range ([C13_pipeline_syntax_errors]); and the parse of each workspace file is the modelled parser's
    answer on the file's text ([C13_pipeline_files_parsed]; that every text parses: C02_total).
    Only statements; proofs in TG.Proofs.PipelineDiagnostics. *)
From Coq Require Import List NArith Bool.
From TG.Gen Require Import GenTokens GenGrammar.
From TG.Model Require Import Chars Tree ParserPrims GInterp CoreAst AstToCore Scope Indexer Pipeline.
From TG.Proofs Require PipelineDiagnostics.
Import ListNotations.
Open Scope N_scope.

Theorem C13_pipeline_perrs_exact : forall pfuel cfuel files root a w,
  analyze pfuel cfuel files root = Some a -> an_core a = Ok w ->
  forall r, In r (ws_perrs w) <->
    exists k f p lo hi m, nth_error (an_files a) k = Some (f, p) /\ In (lo, hi, m) (pf_errors p) /\ r = mkR (N.of_nat k) lo hi.
Proof. exact PipelineDiagnostics.perrs_spec. Qed.

Theorem C13_pipeline_syntax_errors : forall pfuel cfuel files root a w,
  analyze pfuel cfuel files root = Some a -> an_core a = Ok w ->
  forall k f p t errs st lo hi m,
    nth_error (an_files a) k = Some (f, p) -> pf_out p = ParseOk t errs st -> In (lo, hi, m) errs ->
    In (mkR (N.of_nat k) lo hi, DSyntax) (an_diagnostics w).
Proof. exact PipelineDiagnostics.c13_pipeline_syntax_errors. Qed.

Theorem C13_pipeline_files_parsed : forall pfuel cfuel files root a,
  analyze pfuel cfuel files root = Some a ->
  forall k f p, nth_error (an_files a) k = Some (f, p) ->
    exists fuel, pf_out p = parse_with fuel grammar_prog grammar_entry (pf_text p).
Proof. exact PipelineDiagnostics.pipeline_files_parsed. Qed.
Print Assumptions C13_pipeline_perrs_exact.
Print Assumptions C13_pipeline_syntax_errors.
Print Assumptions C13_pipeline_files_parsed.
