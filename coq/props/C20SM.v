(** Property C20, class clause over the symbol table (model/SymbolMap.v, the faithful state machine of symbol_map.rs):
    for EVERY op log that replays, the class items offered in a parent-class position are exactly the class records
    currently registered by name, each with one snippet tab stop per template argument of that record.
    Only statements; proofs in TG.Proofs.C20SMProofs. *)
From Coq Require Import List NArith Bool String.
From TG.Gen Require Import GenTokens GenCompletion.
From TG.Model Require Import Chars Tree SymbolMap Completion CompletionSM.
From TG.Proofs Require Import C20Proofs C20SMProofs.
Import ListNotations.
Close Scope string_scope.
Open Scope list_scope.

(** [sym_matches S (n, id) c]: c is built from record [id], which is a Class record named [n]; its placeholder count is
    the number of (distinct) template-argument names registered on THAT record *)
Check sym_matches : symbol_map -> name * N -> class_sym -> Prop.

(** for all op sequences: no panic (`symbol_map.record(id)` never fails on an id of name_to_class); one class symbol per
    entry of name_to_class, in its order; names distinct; a name is offered iff the log contains an add_record(name, Class),
    and it stands for the LAST such record ("redeclared names: last one wins") *)
Theorem C20_sm_classes_exact : forall ops S, run_ops ops = SOk S ->
  exists cl, class_syms S = SOk cl /\
    Forall2 (sym_matches S) (sm_name_to_class S) cl /\
    NoDup (map cs_name cl) /\
    (forall n, In n (map cs_name cl) <-> last_class_decl ops n None <> None) /\
    (forall n id, In (n, id) (sm_name_to_class S) <-> last_class_decl ops n None = Some id).
Proof. exact sm_classes_exact. Qed.
Print Assumptions C20_sm_classes_exact.

(** the handler on such a state, in a parent-class position *)
Theorem C20_sm_completion : forall ops S tr off p rest, run_ops ops = SOk S ->
  ancestors_at tr off = Some (p :: S_ClassRef :: rest) ->
  exists cl, completion_sm S tr off None = SOk (Some (map class_item cl)) /\
             Forall2 (sym_matches S) (sm_name_to_class S) cl.
Proof. exact sm_completion. Qed.
Print Assumptions C20_sm_completion.

(** label = the registered name; tab stops 1..k then $0 where k = number of template arguments of that record *)
Theorem C20_sm_placeholders : forall S nid c, sym_matches S nid c -> ~ In 36%N (fst nid) ->
  item_label (class_item c) = fst nid /\
  tabstops (class_snippet c) = map N.of_nat (seq 1 (List.length (record_targs S (snd nid)))) ++ [0%N].
Proof. exact sm_placeholders. Qed.
Print Assumptions C20_sm_placeholders.

(** non-vacuity: a log that redeclares class A (first with one, then with two template arguments) *)
Definition ex_ops : list op :=
  let A := t "A"%string in let fr := mkFR 0 0 1 in
  [ OpAddRecord A RKClass fr true 0; OpAddTemplateArg (t "x"%string) [] (mkFR 0 2 3) 0; OpRecordMut 0; OpRecAddTemplateArg (t "x"%string) 0;
    OpAddRecord (t "B"%string) RKClass (mkFR 0 4 5) true 1;
    OpAddRecord A RKClass (mkFR 0 6 7) true 2; OpAddTemplateArg (t "x"%string) [] (mkFR 0 8 9) 1; OpRecordMut 2; OpRecAddTemplateArg (t "x"%string) 1;
    OpAddTemplateArg (t "y"%string) [] (mkFR 0 10 11) 2; OpRecordMut 2; OpRecAddTemplateArg (t "y"%string) 2 ].
Example C20_sm_example :
  exists S, run_ops ex_ops = SOk S /\
    class_syms S = SOk [ {| cs_name := t "A"%string; cs_ntargs := 2 |}; {| cs_name := t "B"%string; cs_ntargs := 0 |} ].
Proof. eexists. split; vm_compute; reflexivity. Qed.
