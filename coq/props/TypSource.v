(** typ.rs is tied to the source by translation + proof: coq/gen/GenTyp.v is regenerated from
    crates/ide/src/symbol_map/typ.rs on every run (tools/translate/t_typ.py: enum Type checked against Scope.mty,
    the TY! macro as a table, every method of `impl Type` rendered arm by arm; `impl Display` only produces message
    texts and is listed as not rendered) and equals b-scope's hand model of the type functions for ALL inputs.
    The equality is RELATIVE to b-scope's plain depth-first `Scope.is_subclass_of (rec_fuel s) (s_recs s)` and
    `Scope.find_field (rec_fuel s) (s_recs s)` as the rendering of `Record::is_subclass_of` / `Record::find_field`
    (record.rs itself: b-lines' GenSymbolMap and b-scope's C05_subclass_visited_set). *)
From Coq Require Import List NArith Bool String.
From TG.Model Require Import CoreAst Scope.
From TG.Gen Require Import GenTyp.
From TG.Proofs Require GenTypEq.
Import ListNotations.
Open Scope N_scope.

Theorem Typ_model_is_source :
  (forall t, src_Type_element_typ t = element_typ t)
  /\ (forall t, src_Type_is_bits t = is_bits t) /\ (forall t, src_Type_is_list t = is_list t)
  /\ (forall t, src_Type_is_record t = is_record t)
  /\ (forall s t nm, src_Type_find_field s t nm = ty_find_field s t nm)
  /\ (forall s a b, src_Type_can_be_casted_to s a b = can_cast s a b)
  /\ typ_functions_rendered = [ "element_typ"; "find_field"; "can_be_casted_to"; "is_bits"; "is_list"; "is_record" ]%string
  /\ typ_functions_not_rendered = [ "Display::fmt" ]%string.
Proof. exact GenTypEq.typ_model_is_source. Qed.
Check Typ_model_is_source :
  (forall t, src_Type_element_typ t = element_typ t)
  /\ (forall t, src_Type_is_bits t = is_bits t) /\ (forall t, src_Type_is_list t = is_list t)
  /\ (forall t, src_Type_is_record t = is_record t)
  /\ (forall s t nm, src_Type_find_field s t nm = ty_find_field s t nm)
  /\ (forall s a b, src_Type_can_be_casted_to s a b = can_cast s a b)
  /\ typ_functions_rendered = [ "element_typ"; "find_field"; "can_be_casted_to"; "is_bits"; "is_list"; "is_record" ]%string
  /\ typ_functions_not_rendered = [ "Display::fmt" ]%string.
Print Assumptions Typ_model_is_source.

(** the enum declaration and the TY! macro are what the indexer / bang-operator translators assume *)
Theorem Typ_tables_are_source :
  src_enum_Type = [ ("Bit", 0%nat); ("Int", 0%nat); ("String", 0%nat); ("Code", 0%nat); ("Dag", 0%nat); ("Bits", 1%nat);
                    ("List", 1%nat); ("Record", 2%nat); ("Uninitialized", 0%nat); ("Unknown", 0%nat); ("Any", 0%nat) ]%string
  /\ src_TY_macro = [ ("bit", "Bit", ""); ("int", "Int", ""); ("string", "String", ""); ("code", "Code", "");
                      ("dag", "Dag", ""); ("bits", "Bits", "$x"); ("list", "List", "Box::new(TY!($x))");
                      ("?", "Uninitialized", "") ]%string.
Proof. exact (conj GenTypEq.enum_Type_eq GenTypEq.TY_macro_eq). Qed.
Check Typ_tables_are_source :
  src_enum_Type = [ ("Bit", 0%nat); ("Int", 0%nat); ("String", 0%nat); ("Code", 0%nat); ("Dag", 0%nat); ("Bits", 1%nat);
                    ("List", 1%nat); ("Record", 2%nat); ("Uninitialized", 0%nat); ("Unknown", 0%nat); ("Any", 0%nat) ]%string
  /\ src_TY_macro = [ ("bit", "Bit", ""); ("int", "Int", ""); ("string", "String", ""); ("code", "Code", "");
                      ("dag", "Dag", ""); ("bits", "Bits", "$x"); ("list", "List", "Box::new(TY!($x))");
                      ("?", "Uninitialized", "") ]%string.
Print Assumptions Typ_tables_are_source.
