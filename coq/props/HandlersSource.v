(** The model IS the source, for handlers shared by several properties (group outline's translator t_handlers.py).
    ONLY theorem statements (each closed by [exact <lemma of proofs/>]), [Check] pins, [Print Assumptions].

    coq/gen/GenHandlers.v is the rendering of the CURRENT text of handlers/goto_definition.rs `exec` and handlers/references.rs
    `exec` (regenerated on every run); [SymbolMap.goto_definition] / [SymbolMap.references] are group symmap's hand versions that
    the C05 / C06 / C17 theorems are about.  For ALL symbol-map states and positions the rendering equals the hand version
    (a panic of `find_symbol_at`'s lookup is [Panicked] / [SErr _]).  Modelled vocabulary: coq/model/HandlerSymApi.v
    (`enum Symbol` as a view of the arena entry, `find_symbol_at` = SymbolMap.find_symbol_at). *)
From Coq Require Import List NArith Bool.
From TG.Gen Require Import GenHandlers.
From TG.Model Require Import SymbolMap HandlerApi HandlerSymApi.
From TG.Proofs Require Import GenHandlersSymEq.
Import ListNotations.
Open Scope N_scope.

Theorem Goto_model_is_source : forall M trees pos,
  src_goto_definition_exec (mkIdb M trees) pos = outcome_of_sres (goto_definition M (fst pos) (snd pos)).
Proof. exact src_goto_definition_exec_eq. Qed.
Check Goto_model_is_source : forall M trees pos,
  src_goto_definition_exec (mkIdb M trees) pos = outcome_of_sres (goto_definition M (fst pos) (snd pos)).
Print Assumptions Goto_model_is_source.

Theorem References_model_is_source : forall M trees pos,
  src_references_exec (mkIdb M trees) pos = outcome_of_sres (references M (fst pos) (snd pos)).
Proof. exact src_references_exec_eq. Qed.
Check References_model_is_source : forall M trees pos,
  src_references_exec (mkIdb M trees) pos = outcome_of_sres (references M (fst pos) (snd pos)).
Print Assumptions References_model_is_source.
