(** Property C11 — Published diagnostics converge to the diagnostics of the final state; versions never decrease.
    Statements only; proofs are in TG.Proofs.ServerProofs (sequential protocol) and TG.Proofs.SchedProofs (every
    schedule of the concurrent server emits the sequential stream).
    Vocabulary (TG.Model.ServerProto): [dmap] = the result of Analysis::diagnostics() on the snapshot taken right
    after a notification (one entry per file of the workspace at that moment); [msg] = what the main loop handles
    (MsgNotif k m: didOpen/didChange whose snapshot has diagnostic map m; MsgReq kind); [history msgs] = the maps in
    order; [items_of init_server msgs] = the script of the lock-protocol LTS (TG.Model.Sched) in which the
    diagnostics task of the i-th notification publishes [task_pubs published_files m_i i] (one notification per entry of
    m_i, an empty one per file of published_files not in m_i); [out s] = the publications received by the client
    so far (FIFO channel), [last_pub f l] = the most recent publication for file f.
    No assumption on the order in which tasks complete: that the tasks publish in spawn order is a consequence of
    the lock protocol (a diagnostics task is spawned after a salsa input write, which waits for every earlier
    snapshot), proved for every policy and every interleaving. *)
From Coq Require Import List Bool Arith.
From TG.Model Require Import Sched ServerProto.
From TG.Gen Require Import GenServerSkel.
From TG.Proofs Require Import SchedProofs SchedWaitFree SchedSource ServerProofs.
Import ListNotations.

(** In every reachable state of every execution, for any two publications the client has received, the earlier
    one does not have a larger version (in particular per file). *)
Theorem C11_versions_monotone : forall (D : Type) (pol : policy) (msgs : list (msg D)) (s : st (pub D)),
  reach pol (init (script_of (items_of init_server msgs))) s ->
  forall (l1 : list (pub D)) (p : pub D) (l2 : list (pub D)) (q : pub D) (l3 : list (pub D)),
    out s = l1 ++ p :: l2 ++ q :: l3 -> pver p <= pver q.
Proof. exact @c11_monotone. Qed.
Check C11_versions_monotone : forall (D : Type) (pol : policy) (msgs : list (msg D)) (s : st (pub D)),
  reach pol (init (script_of (items_of init_server msgs))) s ->
  forall (l1 : list (pub D)) (p : pub D) (l2 : list (pub D)) (q : pub D) (l3 : list (pub D)),
    out s = l1 ++ p :: l2 ++ q :: l3 -> pver p <= pver q.
Print Assumptions C11_versions_monotone.

(** Once the server is idle (final state: every handler returned, every task finished) after any sequence of
    messages whose last notification has diagnostic map m (= the diagnostics of the final workspace state):
    the last publication of every file of the final workspace is its entry of m with the last version, and the
    last publication of every other file (never published, or no longer part of the workspace) is empty. *)
Theorem C11_converges : forall (D : Type) (pol : policy) (msgs : list (msg D)) (h : list (dmap D)) (m : dmap D) (s : st (pub D)),
  history msgs = h ++ [m] -> NoDup (keys m) ->
  reach pol (init (script_of (items_of init_server msgs))) s -> final s ->
  (forall f d, In (f, d) m -> last_pub f (out s) = Some (mkPub f d (length h))) /\
  (forall f p, ~ In f (keys m) -> last_pub f (out s) = Some p -> pdiags p = []).
Proof. exact @c11_converges. Qed.
Check C11_converges : forall (D : Type) (pol : policy) (msgs : list (msg D)) (h : list (dmap D)) (m : dmap D) (s : st (pub D)),
  history msgs = h ++ [m] -> NoDup (keys m) ->
  reach pol (init (script_of (items_of init_server msgs))) s -> final s ->
  (forall f d, In (f, d) m -> last_pub f (out s) = Some (mkPub f d (length h))) /\
  (forall f p, ~ In f (keys m) -> last_pub f (out s) = Some p -> pdiags p = []).
Print Assumptions C11_converges.

(** What the client receives is, at every moment, a prefix of the sequential publication stream, and the whole
    stream at quiescence (this is what checks/C11.py compares with the real server, task by task). *)
Theorem C11_stream_is_sequential : forall (D : Type) (pol : policy) (msgs : list (msg D)) (s : st (pub D)),
  reach pol (init (script_of (items_of init_server msgs))) s ->
  (exists rest, publications init_server (history msgs) = out s ++ rest) /\
  (final s -> out s = publications init_server (history msgs)).
Proof. exact @c11_stream. Qed.
Check C11_stream_is_sequential : forall (D : Type) (pol : policy) (msgs : list (msg D)) (s : st (pub D)),
  reach pol (init (script_of (items_of init_server msgs))) s ->
  (exists rest, publications init_server (history msgs) = out s ++ rest) /\
  (final s -> out s = publications init_server (history msgs)).
Print Assumptions C11_stream_is_sequential.

(** The read-modify-write of [published_files] (under its mutex) is executed by one diagnostics task at a time, in
    spawn order: in every reachable state at most one task still has business with the mutex ([Pind]: holds it or has
    its critical section ahead).  This is what justifies threading [published] sequentially through [items_of]. *)
Theorem C11_published_files_sequential : forall (P : Type) (pol : policy) (items : list (item P)) (s : st P),
  reach pol (init (script_of items)) s -> length (filter (@Pind P) (ws s)) <= 1.
Proof. exact @one_mutex_user. Qed.
Check C11_published_files_sequential : forall (P : Type) (pol : policy) (items : list (item P)) (s : st P),
  reach pol (init (script_of items)) s -> length (filter (@Pind P) (ws s)) <= 1.
Print Assumptions C11_published_files_sequential.

(** The diagnostics task and the scripts of the LTS used above are the ones of the current sources (regenerated by
    tools/translate/t_server.py on every run; the translator also insists that the critical section of published_files
    is the canonical difference-then-replace, that current_files is the key set of the diagnostic map and that the
    version of a task is the value returned by the read-then-increment bump_diagnostic_version). *)
Theorem C11_protocol_is_source : forall (P : Type),
  (forall pubs : list P, gen_diag pubs = diag pubs) /\
  (forall items : list (item P), gen_script items = script_of items).
Proof. exact @publication_protocol_is_source. Qed.
Check C11_protocol_is_source : forall (P : Type),
  (forall pubs : list P, gen_diag pubs = diag pubs) /\
  (forall items : list (item P), gen_script items = script_of items).
Print Assumptions C11_protocol_is_source.

(** Non-vacuity: a history in which a file with a problem leaves the workspace; the final state is reachable;
    its stream clears the file. *)
Example C11_nonvacuous : exists (msgs : list (msg nat)) (h : list (dmap nat)) (m : dmap nat) (s : st (pub nat)),
  history msgs = h ++ [m] /\ NoDup (keys m) /\
  reach WriterPref (init (script_of (items_of init_server msgs))) s /\ final s /\
  ~ In 1 (keys m) /\ last_pub 1 (out s) = Some (mkPub 1 [] 1) /\ last_pub 0 (out s) = Some (mkPub 0 [] 1) /\
  In (mkPub 1 [42] 0) (out s).
Proof. exact c11_nonvacuous. Qed.

(** Sanity: before fix 3457fbf (no record of what was published) a file that left the workspace kept its last
    non-empty publication. *)
Theorem C11_old_stale : forall (D : Type) (d : D), exists (h : list (dmap D)) (m : dmap D) (f : file) (p : pub D),
  ~ In f (keys m) /\ last_pub f (publications_old init_server (h ++ [m])) = Some p /\ pdiags p <> [].
Proof. exact @old_stale. Qed.
Check C11_old_stale : forall (D : Type) (d : D), exists (h : list (dmap D)) (m : dmap D) (f : file) (p : pub D),
  ~ In f (keys m) /\ last_pub f (publications_old init_server (h ++ [m])) = Some p /\ pdiags p <> [].
Print Assumptions C11_old_stale.
