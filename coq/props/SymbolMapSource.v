(** The hand model of the symbol map IS the source (obligation shared by C03, C06, C17 and the properties that
    import TG.Model.SymbolMap): coq/gen/GenSymbolMap.v is regenerated on every run by
    tools/translate/t_symbolmap.py from the CURRENT text of crates/ide/src/symbol_map.rs and
    symbol_map/{record,record_field,template_arg,variable,defset,multiclass,defm,symbol}.rs (items and statements under
    cfg(tablegen_lsp_verif), the op-log hook H3, are ignored); its functions src_* are related to SymbolMap.v here:
    every mutating method = apply_op of the corresponding op constructor, every reader = the reader of SymbolMap.v,
    for all states and arguments.  The only conditional clauses are the four about Record::find_field(_in) /
    is_subclass_of(_in): they hold whenever the hand model does not answer EOutOfFuel (see GenSymbolMapEq.v; group
    symmap proves that (number of records + 1) fuel always suffices).
    Statement only; proofs in TG.Proofs.GenSymbolMapEq.  Group "lines". *)
From Coq Require Import List NArith Bool.
From TG.Model Require Import Chars SymbolMap SymbolMapSrc.
From TG.Gen Require Import GenSymbolMap.
From TG.Proofs Require Import GenSymbolMapEq.
Import ListNotations.
Open Scope N_scope.

Theorem SymbolMap_model_is_source :
  (forall n k typ hdv vk parent loc,
     src_Record_new n k loc = SOk (mkEntry n loc [] (PRecord k [] [] [])) /\
     src_TemplateArgument_new n typ hdv loc = SOk (mkEntry n loc [] (PTemplateArg typ)) /\
     src_RecordField_new n typ parent loc = SOk (mkEntry n loc [] (PRecordField typ parent)) /\
     src_Variable_new n typ vk loc = SOk (mkEntry n loc [] (PVariable typ)) /\
     src_Defset_new n typ loc = SOk (mkEntry n loc [] (PDefset typ [])) /\
     src_Multiclass_new n loc = SOk (mkEntry n loc [] (PMulticlass [] [])) /\
     src_Defm_new n loc = SOk (mkEntry n loc [] (PDefm []))) /\
  (forall S n k loc g, src_sm_add_record S (mkEntry n loc [] (PRecord k [] [] [])) g =
     with_id (apply_op S (OpAddRecord n k loc g (next_id S KRecord))) (next_id S KRecord)) /\
  (forall S n loc, src_sm_add_anonymous_def S (mkEntry n loc [] (PRecord RKDef [] [] [])) =
     with_id (apply_op S (OpAddAnonymousDef n loc (next_id S KRecord))) (next_id S KRecord)) /\
  (forall S n typ loc, src_sm_add_template_argument S (mkEntry n loc [] (PTemplateArg typ)) =
     with_id (apply_op S (OpAddTemplateArg n typ loc (next_id S KTemplateArg))) (next_id S KTemplateArg)) /\
  (forall S n typ loc parent, src_sm_add_record_field S (mkEntry n loc [] (PRecordField typ parent)) =
     with_id (apply_op S (OpAddRecordField n typ loc parent (next_id S KRecordField))) (next_id S KRecordField)) /\
  (forall S n typ loc, src_sm_add_variable S (mkEntry n loc [] (PVariable typ)) =
     with_id (apply_op S (OpAddVariable n typ loc (next_id S KVariable))) (next_id S KVariable)) /\
  (forall S n typ loc, src_sm_add_defset S (mkEntry n loc [] (PDefset typ [])) =
     with_id (apply_op S (OpAddDefset n typ loc (next_id S KDefset))) (next_id S KDefset)) /\
  (forall S n loc, src_sm_add_multiclass S (mkEntry n loc [] (PMulticlass [] [])) =
     with_id (apply_op S (OpAddMulticlass n loc (next_id S KMulticlass))) (next_id S KMulticlass)) /\
  (forall S n loc g, src_sm_add_defm S (mkEntry n loc [] (PDefm [])) g =
     with_id (apply_op S (OpAddDefm n loc g (next_id S KDefm))) (next_id S KDefm)) /\
  (forall S n loc, src_sm_add_anonymous_defm S (mkEntry n loc [] (PDefm [])) =
     with_id (apply_op S (OpAddAnonymousDefm n loc (next_id S KDefm))) (next_id S KDefm)) /\
  (forall S s loc, src_sm_add_reference S s loc = apply_op S (OpAddReference s loc)) /\
  (forall S loc s, src_sm_add_to_pos_to_symbol_map S loc s = add_to_pos S loc s) /\
  (forall S id,
     apply_op S (OpRecordMut id) = sbind (src_sm_record_mut S id) (fun b => SOk (set_cur S (Some b))) /\
     apply_op S (OpDefsetMut id) = sbind (src_sm_defset_mut S id) (fun b => SOk (set_cur S (Some b))) /\
     apply_op S (OpMulticlassMut id) = sbind (src_sm_multiclass_mut S id) (fun b => SOk (set_cur S (Some b))) /\
     apply_op S (OpDefmMut id) = sbind (src_sm_defm_mut S id) (fun b => SOk (set_cur S (Some b)))) /\
  (forall S n id,
     apply_op S (OpRecAddTemplateArg n id) = with_cur_m S KRecord (fun e => src_Record_add_template_arg e n id) /\
     apply_op S (OpRecAddField n id) = with_cur_m S KRecord (fun e => src_Record_add_record_field e n id) /\
     apply_op S (OpRecAddParent id) = with_cur_m S KRecord (fun e => src_Record_add_parent e id) /\
     apply_op S (OpDefsetAddDef id) = with_cur_m S KDefset (fun e => src_Defset_add_def e id) /\
     apply_op S (OpMcAddTemplateArg n id) = with_cur_m S KMulticlass (fun e => src_Multiclass_add_template_arg e n id) /\
     apply_op S (OpMcAddParent id) = with_cur_m S KMulticlass (fun e => src_Multiclass_add_parent e id) /\
     apply_op S (OpDefmAddParent id) = with_cur_m S KDefm (fun e => src_Defm_add_parent e id)) /\
  (forall S n, src_sm_find_class S n = SOk (find_class S n) /\ src_sm_find_def S n = SOk (find_def S n) /\
               src_sm_find_defset S n = SOk (find_defset S n) /\ src_sm_find_multiclass S n = SOk (find_multiclass S n)) /\
  (forall S f, src_sm_iter_class S = SOk (iter_class S) /\ src_sm_iter_def S = SOk (iter_def S) /\
               src_sm_iter_symbols_in_file S f = SOk (iter_symbols_in_file S f)) /\
  (forall S id, src_sm_record S id = record S id /\ src_sm_template_arg S id = template_arg S id /\
                src_sm_record_field S id = record_field S id /\ src_sm_variable S id = variable S id /\
                src_sm_defset S id = defset S id /\ src_sm_multiclass S id = multiclass S id /\ src_sm_defm S id = defm S id) /\
  (forall S s, src_sm_symbol S s = sbind (symbol S s) (fun e => SOk (fst s, e))) /\
  (forall S f p, src_sm_find_symbol_at S (f, p) =
     sbind (find_symbol_at S f p) (fun r => SOk (option_map (fun se : symbol_id * entry => (fst (fst se), snd se)) r))) /\
  (forall S loc, src_sm_iter_symbols_in_range S loc = iter_symbols_in_range S loc) /\
  (forall fuel S rid n, find_field fuel S rid n <> SErr EOutOfFuel ->
     find_field fuel S rid n = sbind (record S rid) (fun e => src_Record_find_field fuel e S n)) /\
  (forall fuel S rid n vis, find_field_in fuel S rid n vis <> SErr EOutOfFuel ->
     find_field_in fuel S rid n vis = sbind (record S rid) (fun e => src_Record_find_field_in fuel e S n vis)) /\
  (forall fuel S rid other, is_subclass_of fuel S rid other <> SErr EOutOfFuel ->
     is_subclass_of fuel S rid other = sbind (record S rid) (fun e => src_Record_is_subclass_of fuel e S other)) /\
  (forall fuel S rid other vis, is_subclass_of_in fuel S rid other vis <> SErr EOutOfFuel ->
     is_subclass_of_in fuel S rid other vis = sbind (record S rid) (fun e => src_Record_is_subclass_of_in fuel e S other vis)).
Proof. exact symbolmap_model_is_source. Qed.

(** the fuel hypotheses are satisfiable on a diamond hierarchy, and both sides give the expected answers *)
Example SymbolMap_model_is_source_nonvacuous :
  exists S, run_ops ex_ops = SOk S /\
    find_field 4 S 2 [120] = SOk (Some 0) /\ find_field 4 S 2 [120] <> SErr EOutOfFuel /\
    sbind (record S 2) (fun e => src_Record_find_field 4 e S [120]) = SOk (Some 0) /\
    is_subclass_of 4 S 2 0 = SOk true /\ is_subclass_of 4 S 1 2 = SOk false /\
    is_subclass_of 4 S 1 2 <> SErr EOutOfFuel /\
    sbind (record S 1) (fun e => src_Record_is_subclass_of 4 e S 2) = SOk false.
Proof. exact src_example. Qed.

Print Assumptions SymbolMap_model_is_source.
Print Assumptions SymbolMap_model_is_source_nonvacuous.
