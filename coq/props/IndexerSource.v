(** The hand model of the indexer vs its source, PARTIAL (group "lines"; Scope.v / Indexer.v of group scope are only
    imported): coq/gen/GenIndexer.v is regenerated on every run by tools/translate/t_indexer.py from the CURRENT text of
    crates/ide/src/index/scope.rs, index/context.rs and index.rs.  This obligation covers exactly the functions listed in its
    statement:
    - index/scope.rs: 16 of its 17 fns (find_variable_in_current_scope is rendered but has no counterpart in the model);
    - index/context.rs: 8 of 9 (resolve_id_in_current_scope has no counterpart); IndexCtx::new on root file 0 is st0,
      IndexCtx::finish is the symbol-map components and the diagnostics of the state;
    - index.rs: all 40: the salsa query `index` (= IndexCtx::finish of index_ws w, for a workspace with a root file),
      utils::identifier, index_name_value, resolve_class_ref_as_class / _multiclass, check_template_args (equal to
      emitting the model's diagnostics list computed in the entry state), and the impls for
      SourceFile, StatementList, Statement, Include, Assert, Class, Def, Defm, Defset, Defvar, Dump, Foreach,
      ForeachIterator, ForeachIteratorInit, If, Let, LetList, LetItem, MultiClass, TemplateArgList, TemplateArgDecl,
      RecordBody, ParentClassList, ArgValueList, ArgValue, Body, BodyItem, FieldDef, FieldLet, Type, Integer, Value,
      InnerValue, SimpleValue (for every unflattening of the dag / !cond value lists).
    NOT covered: index/bang_operator.rs (a separate tie; the indexing of a bang operator is a parameter of the SimpleValue
    clause); see design/notes-translator-indexer.md.
    The index.rs clauses are by open recursion: the indexing of child nodes (and the calls of check_template_args /
    resolve_class_ref_* / index_name_value) are parameters of each rendering, instantiated here with the functions of the
    hand model.  Statement-level clauses compare the resulting STATES (the Option a statement's `index` returns is
    ignored by every caller); TemplateArgDecl is compared on the runs of the source that do not panic; Def / Defm are
    equal after forgetting the outline bookkeeping (is_global, in_defset_of_this_file, defset.add_def) and the names of
    anonymous records, which Scope.v does not model.  Statement only; proofs in TG.Proofs.GenIndexerEq. *)
From Coq Require Import List NArith Bool.
From TG.Model Require Import CoreAst Scope BangOps Indexer IndexerSrc.
From TG.Gen Require Import GenIndexer.
From TG.Proofs Require Import GenIndexerEq.
Import ListNotations.
Open Scope N_scope.
Open Scope ix_scope.

Theorem Indexer_model_is_source_partial :
  (* index/scope.rs *)
  (forall k, src_Scope_new k = mkScope k []) /\
  (forall c, src_Scope_record_id c = sc_record_id c /\ src_Scope_defset_id c = sc_defset_id c /\
             src_Scope_multiclass_id c = sc_multiclass_id c /\ src_Scope_defm_id c = sc_defm_id c) /\
  (forall c n id, src_Scope_add_variable c n id = mkScope (sc_kind c) ((n, id) :: sc_vars c)) /\
  (forall c n, src_Scope_find_variable c n = sc_find_variable c n) /\
  src_Scopes_default = s_scopes st0 /\
  (forall k s, src_Scopes_push k s = push_scope k s) /\
  (forall s, forget (src_Scopes_pop s) = pop_scope s) /\
  (forall s, src_Scopes_current_record_id (s_scopes s) = current_record_id s /\
             src_Scopes_current_defset_id (s_scopes s) = current_defset_id s /\
             src_Scopes_current_multiclass_id (s_scopes s) = current_multiclass_id s /\
             src_Scopes_current_defm_id (s_scopes s) = current_defm_id s) /\
  (forall l s, src_Scopes_add_variable l s = scopes_add_variable l s) /\
  (forall s n, src_Scopes_find_local (s_scopes s) s n = find_local s n) /\
  (* index/context.rs *)
  (forall s, s_trace s <> [] -> src_IndexCtx_current_file_id s = (Some (current_file s), s)) /\
  (forall f s, src_IndexCtx_push_file f s = push_file f s) /\
  (forall s, src_IndexCtx_pop_file s = pop_file s) /\
  (forall s n, src_IndexCtx_resolve_id s n = resolve_id s n) /\
  (forall r k s, s_trace s <> [] -> src_IndexCtx_error r k s = err r k s) /\
  (forall s, forget (src_IndexCtx_next_anonymous_def_name s) = next_anonymous s) /\
  src_IndexCtx_new 0 = st0 /\
  (forall s, src_IndexCtx_finish s =
     ((s_recs s, s_mcs s, s_leaves s, s_nclass s, s_ndef s, s_nmc s, s_ndset s, s_pos s, s_refs s, s_uses s), s_diags s)) /\
  (* index.rs *)
  (forall w, ws_files w <> [] ->
     src_index (ws_files w) (iterM (index_stmt (ws_files w) (ws_fuel w))) = src_IndexCtx_finish (index_ws w)) /\
  (forall i s, src_utils_identifier i s = (loc <- here (i_rng i) ;; ret (i_name i, loc)) s) /\
  (forall files n,
     (forall v s, snd (src_ix_Dump (index_value n) v s) = snd (index_stmt files (S n) (SDump v) s)) /\
     (forall c m s, snd (src_ix_Assert (index_value n) c m s) = snd (index_stmt files (S n) (SAssert c m) s)) /\
     (forall i v s, snd (src_ix_Defvar (index_value n) i v s) = snd (index_stmt files (S n) (SDefvar i v) s)) /\
     (forall i ta ps b s, snd (src_ix_Class (m_TemplateArgList n) (m_RecordBody n) i ta ps b s) =
                          snd (index_stmt files (S n) (SClass i ta ps b) s)) /\
     (forall i ta ps b s, snd (src_ix_MultiClass (m_StatementList files n) (m_TemplateArgList n) (index_parents n) i ta ps b s) =
                          snd (index_stmt files (S n) (SMulticlass i ta ps b) s)) /\
     (forall t i b s, snd (src_ix_Defset (m_StatementList files n) index_ty t i b s) =
                      snd (index_stmt files (S n) (SDefset t i b) s)) /\
     (forall vs b s, snd (src_ix_Let (m_StatementList files n) (m_LetList n) vs b s) =
                     snd (index_stmt files (S n) (SLet vs b) s)) /\
     (forall v s, snd (src_ix_LetItem (index_value n) v s) = snd (index_value n v s)) /\
     (forall vs s, snd (src_ix_LetList (src_ix_LetItem (index_value n)) vs s) = snd (m_LetList n vs s)) /\
     (forall l s, snd (src_ix_StatementList (index_stmt files n) l s) = snd (m_StatementList files n l s)) /\
     (forall l s, snd (src_ix_SourceFile (m_StatementList files n) l s) = snd (m_StatementList files n l s)) /\
     (forall l s, snd (src_ix_TemplateArgList (index_targ n) l s) = snd (m_TemplateArgList n l s)) /\
     (forall b s, snd (src_ix_Body (index_item n) b s) = snd (iterM (index_item n) b s)) /\
     (forall ps b s, snd (src_ix_RecordBody (index_parents n) (iterM (index_item n)) ps b s) = snd (m_RecordBody n (ps, b) s)) /\
     (forall init s, src_ix_ForeachIteratorInit (index_value n) init s =
        (match init with FeRange => ret MInt | FeValue v => t <- index_value n v ;; lift (element_typ t) end) s) /\
     (forall i init b s, snd (src_ix_Foreach (m_StatementList files n) (m_ForeachIterator n) i init b s) =
                         snd (index_stmt files (S n) (SForeach i init b) s)) /\
     (forall c th el s, snd (src_ix_If (m_StatementList files n) (index_value n) c th el s) =
                        snd (index_stmt files (S n) (SIf c th el) s)) /\
     (forall x s, snd (src_ix_Statement files (m_StatementList files n) (index_value n) index_ty (m_TemplateArgList n) (m_RecordBody n)
                         (index_parents n) (m_LetList n) (m_ForeachIterator n) index_name_value x s) =
                  snd (index_stmt files (S n) x s)) /\
     (forall nm r ps b s, snd (src_ix_Def (m_RecordBody n) index_name_value nm r ps b s) =
                          snd (index_stmt files (S n) (SDef nm r ps b) s)) /\
     (forall nm r ps s, snd (src_ix_Defm (index_parents n) index_name_value nm r ps s) =
                        snd (index_stmt files (S n) (SDefm nm r ps) s)) /\
     (forall r t s, snd (src_ix_Include files (m_StatementList files n) r t s) = snd (index_stmt files (S n) (SInclude r t) s)) /\
     (forall a s, src_ix_ArgValue (index_value n) a s = index_arg (S n) a s) /\
     (forall x s, snd (src_ix_BodyItem (index_value n) index_ty x s) = snd (index_item n x s)) /\
     (forall k s, src_ix_Integer k s = ret k s) /\
     (forall t s, src_ix_Type index_ty src_ix_Integer t s = index_ty t s) /\
     (forall v s, src_index_name_value v s = index_name_value v s) /\
     (forall t i v s, snd (src_ix_FieldDef (index_value n) index_ty t i v s) = snd (index_item n (IField t i v) s)) /\
     (forall i v s, snd (src_ix_FieldLet (index_value n) i v s) = snd (index_item n (ILet i v) s)) /\
     (forall t i d s, s_bad (snd (src_ix_TemplateArgDecl (index_value n) index_ty t i d s)) = false ->
        snd (src_ix_TemplateArgDecl (index_value n) index_ty t i d s) = snd (index_targ n (TArg t i d) s)) /\
     (forall args s, src_ix_ArgValueList (index_arg n) args s = index_args n args s) /\
     (forall i args r s, src_resolve_class_ref_as_class (index_args n) (m_check_template_args) i args r s =
                         resolve_class_ref_as_class n (CRef i args r) s) /\
     (forall i args r s, src_resolve_class_ref_as_multiclass (index_args n) (m_check_template_args) i args r s =
                         resolve_class_ref_as_multiclass n (CRef i args r) s) /\
     (forall targs avs r s, src_check_template_args targs avs r s =
                            (s2 <- state ;; emit (check_template_args s2 targs avs r)) s) /\
     (forall ps s, snd (src_ix_ParentClassList (resolve_class_ref_as_class n) (resolve_class_ref_as_multiclass n) ps s) =
                   snd (index_parents n ps s)) /\
     (forall v s, src_ix_Value (index_inner n) v s = index_value (S n) v s) /\
     (forall x s, src_ix_InnerValue (index_simple n) x s = index_inner (S n) x s) /\
     (forall dag_split cond_split sv s,
        (forall vs, opt_list (fst (dag_split vs)) ++ snd (dag_split vs) = vs) ->
        (forall vs, flat_map (fun c : option value * option value => opt_list (fst c) ++ opt_list (snd c)) (cond_split vs) = vs) ->
        src_ix_SimpleValue dag_split cond_split (index_value n) (index_args n) (m_BangOperator n) m_check_template_args sv s =
        index_simple (S n) sv s)).
Proof. exact indexer_model_is_source_partial. Qed.

Print Assumptions Indexer_model_is_source_partial.
