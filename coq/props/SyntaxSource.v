(** SyntaxSource — the parser primitives ARE the source: coq/gen/GenParser.v is regenerated from
    crates/syntax/src/parser.rs on every run (tools/translate/t_parser.py: every function of `ParserBase<T>` and of
    `CompletedMarker` rendered statement by statement in the shallow state-monad embedding of model/ParserMonad.v; the
    calls on the inner `T: TokenStream` run the GENERATED preprocessor coq/gen/GenPrep.v over the GENERATED lexer
    coq/gen/GenLexer.v; rowan's GreenNodeBuilder is the contract ParserPrims.b_...).  Statements only; proofs are in
    TG.Proofs.GenParserEq.
    Vocabulary:
      ParserPrims.pst / p_lex / p_save / p_skip_all / p_eat / ... = b-parser's hand model of parser.rs (unchanged);
      GInterp.exec_prim / gexec / parse_with = the interpreter of the grammar DSL over that hand model;
      GenParserEq.psim g s = the generated parser state [g] corresponds to the hand state [s] (spelt out by
        Parser_prims_are_source_relation); osim r o = "the generated call returned the value and a related state, or,
        when the hand model says None, panicked"; emsg = a syntax error with its message rendered as a string;
      gen_prim = the generated function a DSL primitive stands for; ggexec / gparse_with = GInterp.gexec / parse_with
        with the generated primitives and the generated `new` / `finish` instead of the hand model's. *)
From Coq Require Import List NArith Bool String.
From TG.Gen Require Import GenTokens.
From TG.Gen Require GenLexer GenPrep GenParser.
From TG.Model Require Import Chars Lexer Prep Tree ParserPrims GInterp.
From TG.Model Require ScanMonad PrepMonad ParserMonad.
From TG.Proofs Require GenPrepEq GenParserEq.
Import ListNotations.
Open Scope N_scope.

(** what the simulation relation says *)
Theorem Parser_prims_are_source_relation : forall (g : ParserMonad.gps) (s : pst), GenParserEq.psim g s ->
  GenPrepEq.sim (ParserMonad.pb_ts g) (ParserPrims.pp s) (src s) /\ raw s = raw_lex (src s)
  /\ ParserMonad.pb_current g = cur s /\ ParserMonad.pb_range g = (cur_lo s, cur_hi s) /\ ParserMonad.pb_builder g = bld s
  /\ ParserMonad.pb_errors g = map GenParserEq.emsg (rev (errs s)) /\ ParserMonad.pb_after g = after_err s
  /\ ScanMonad.sc_cursor (ScanMonad.l_s (PrepMonad.p_ts (ParserMonad.pb_ts g))) = cursor s
  /\ exists b0, ScanMonad.sc_before (ScanMonad.l_s (PrepMonad.p_ts (ParserMonad.pb_ts g))) = b0 ++ cur_text s /\ cur_lo s = bytes b0.
Proof. exact GenParserEq.psim_spelt. Qed.
Check Parser_prims_are_source_relation : forall (g : ParserMonad.gps) (s : pst), GenParserEq.psim g s ->
  GenPrepEq.sim (ParserMonad.pb_ts g) (ParserPrims.pp s) (src s) /\ raw s = raw_lex (src s)
  /\ ParserMonad.pb_current g = cur s /\ ParserMonad.pb_range g = (cur_lo s, cur_hi s) /\ ParserMonad.pb_builder g = bld s
  /\ ParserMonad.pb_errors g = map GenParserEq.emsg (rev (errs s)) /\ ParserMonad.pb_after g = after_err s
  /\ ScanMonad.sc_cursor (ScanMonad.l_s (PrepMonad.p_ts (ParserMonad.pb_ts g))) = cursor s
  /\ exists b0, ScanMonad.sc_before (ScanMonad.l_s (PrepMonad.p_ts (ParserMonad.pb_ts g))) = b0 ++ cur_text s /\ cur_lo s = bytes b0.
Print Assumptions Parser_prims_are_source_relation.

(** ParserBase::new over PreProcessor::new(Lexer::new(txt)) *)
Theorem Parser_prims_are_source_new : forall txt : list N,
  exists g t', GenParser.gpr_new (GenPrep.gp_new (GenLexer.g_new txt)) = (PrepMonad.FNorm g, t') /\ GenParserEq.psim g (p_new txt).
Proof. exact GenParserEq.gpr_new_sim. Qed.
Check Parser_prims_are_source_new : forall txt : list N,
  exists g t', GenParser.gpr_new (GenPrep.gp_new (GenLexer.g_new txt)) = (PrepMonad.FNorm g, t') /\ GenParserEq.psim g (p_new txt).
Print Assumptions Parser_prims_are_source_new.

(** lex / save / skip / eat (save: the `expect("error token without message")` panic <-> None; skip never panics and its
    fuel `characters left + 2` never runs out) *)
Theorem Parser_prims_are_source_lex : forall g s, GenParserEq.psim g s ->
  GenParserEq.osim (GenParser.gpr_lex g) (Some (tt, p_lex s)).
Proof. exact GenParserEq.gpr_lex_sim. Qed.
Check Parser_prims_are_source_lex : forall g s, GenParserEq.psim g s ->
  GenParserEq.osim (GenParser.gpr_lex g) (Some (tt, p_lex s)).
Print Assumptions Parser_prims_are_source_lex.

Theorem Parser_prims_are_source_save : forall g s, GenParserEq.psim g s ->
  GenParserEq.osim (GenParser.gpr_save g) (GenParserEq.ounit (p_save s)).
Proof. exact GenParserEq.gpr_save_sim. Qed.
Check Parser_prims_are_source_save : forall g s, GenParserEq.psim g s ->
  GenParserEq.osim (GenParser.gpr_save g) (GenParserEq.ounit (p_save s)).
Print Assumptions Parser_prims_are_source_save.

Theorem Parser_prims_are_source_skip : forall g s, GenParserEq.psim g s ->
  GenParserEq.osim (GenParser.gpr_skip g) (GenParserEq.ounit (p_skip_all s)).
Proof. exact GenParserEq.gpr_skip_sim. Qed.
Check Parser_prims_are_source_skip : forall g s, GenParserEq.psim g s ->
  GenParserEq.osim (GenParser.gpr_skip g) (GenParserEq.ounit (p_skip_all s)).
Print Assumptions Parser_prims_are_source_skip.

Theorem Parser_prims_are_source_eat : forall g s, GenParserEq.psim g s ->
  GenParserEq.osim (GenParser.gpr_eat g) (GenParserEq.ounit (p_eat s)).
Proof. exact GenParserEq.gpr_eat_sim. Qed.
Check Parser_prims_are_source_eat : forall g s, GenParserEq.psim g s ->
  GenParserEq.osim (GenParser.gpr_eat g) (GenParserEq.ounit (p_eat s)).
Print Assumptions Parser_prims_are_source_eat.

(** every primitive of the grammar DSL: start_node, finish_node, checkpoint, start_node_at, assert, expect(_with_msg), eat,
    eat_if, skip, error, error_and_eat, error_and_recover, at_set (at / eof / peek-tests), including panics *)
Theorem Parser_prims_are_source_exec : forall (p : prog) (pr : prim) (en : env) g s, GenParserEq.psim g s ->
  GenParserEq.rsim en (GenParserEq.gen_prim (recover_tokens p) pr en g) (exec_prim p pr en s).
Proof. exact GenParserEq.gen_prim_sim. Qed.
Check Parser_prims_are_source_exec : forall (p : prog) (pr : prim) (en : env) g s, GenParserEq.psim g s ->
  GenParserEq.rsim en (GenParserEq.gen_prim (recover_tokens p) pr en g) (exec_prim p pr en s).
Print Assumptions Parser_prims_are_source_exec.

(** at(k), eof(), expect(k) are the forms the DSL uses for them *)
Theorem Parser_prims_are_source_at_eof_expect : forall g s k, GenParserEq.psim g s ->
  GenParser.gpr_at k g = GenParser.gpr_at_set [k] g /\ GenParser.gpr_eof g = GenParser.gpr_at_set [T_Eof] g
  /\ GenParser.gpr_expect k g = GenParser.gpr_expect_with_msg k (msg_text (MExpected k)) g.
Proof.
  exact (fun g s k P => conj (GenParserEq.gpr_at_is_at_set g s k P)
                             (conj (GenParserEq.gpr_eof_is_at_set g s P) (GenParserEq.gpr_expect_is_with_msg k g))).
Qed.
Check Parser_prims_are_source_at_eof_expect : forall g s k, GenParserEq.psim g s ->
  GenParser.gpr_at k g = GenParser.gpr_at_set [k] g /\ GenParser.gpr_eof g = GenParser.gpr_at_set [T_Eof] g
  /\ GenParser.gpr_expect k g = GenParser.gpr_expect_with_msg k (msg_text (MExpected k)) g.
Print Assumptions Parser_prims_are_source_at_eof_expect.

(** Parser::finish *)
Theorem Parser_prims_are_source_finish : forall g s, GenParserEq.psim g s ->
  match p_finish s with
  | Some (t, es) => exists g', GenParser.gpr_finish g = (PrepMonad.FNorm (t, map GenParserEq.emsg es), g')
  | None => exists g', GenParser.gpr_finish g = (PrepMonad.FPanic, g')
  end.
Proof. exact GenParserEq.gpr_finish_sim. Qed.
Check Parser_prims_are_source_finish : forall g s, GenParserEq.psim g s ->
  match p_finish s with
  | Some (t, es) => exists g', GenParser.gpr_finish g = (PrepMonad.FNorm (t, map GenParserEq.emsg es), g')
  | None => exists g', GenParser.gpr_finish g = (PrepMonad.FPanic, g')
  end.
Print Assumptions Parser_prims_are_source_finish.

(** the DSL interpreter over the generated primitives is simulated by GInterp.gexec, for every program, expression,
    environment, fuel and related pair of states (values, environments, break / return / panic / out-of-fuel agree) *)
Theorem Parser_prims_are_source_interp : forall (p : prog) n e en g s, GenParserEq.psim g s ->
  GenParserEq.gsim (GenParserEq.ggexec n p e en g) (gexec n p e en s).
Proof. exact GenParserEq.ggexec_sim. Qed.
Check Parser_prims_are_source_interp : forall (p : prog) n e en g s, GenParserEq.psim g s ->
  GenParserEq.gsim (GenParserEq.ggexec n p e en g) (gexec n p e en s).
Print Assumptions Parser_prims_are_source_interp.

(** syntax::parse: Lexer::new, PreProcessor::new, Parser::new, the grammar program, finish - all but the grammar program
    generated from lexer.rs / preprocessor.rs / parser.rs - yields exactly the tree and the errors (messages rendered) of
    GInterp.parse_with, or panics / runs out of fuel exactly when it does; for every program, entry, fuel and text *)
Theorem Parser_prims_are_source_parse : forall fuel (p : prog) entry (txt : list N),
  GenParserEq.gparse_with fuel p entry txt = GenParserEq.parse_view (parse_with fuel p entry txt).
Proof. exact GenParserEq.gparse_with_eq. Qed.
Check Parser_prims_are_source_parse : forall fuel (p : prog) entry (txt : list N),
  GenParserEq.gparse_with fuel p entry txt = GenParserEq.parse_view (parse_with fuel p entry txt).
Print Assumptions Parser_prims_are_source_parse.

(** non-vacuity: the state after `Parser::new` on "#ifdef A\nx" is related to the hand model's; its current token is the
    PreProcessor token covering the whole text, and skipping it reaches the Error "reached EOF without matching #endif" *)
Example Parser_prims_are_source_nonvacuous :
  let txt := [35; 105; 102; 100; 101; 102; 32; 65; 10; 120] in
  (exists g t', GenParser.gpr_new (GenPrep.gp_new (GenLexer.g_new txt)) = (PrepMonad.FNorm g, t') /\ GenParserEq.psim g (p_new txt))
  /\ cur (p_new txt) = T_PreProcessor /\ cur_text (p_new txt) = txt
  /\ exists s', p_skip_all (p_new txt) = Some s' /\ cur s' = T_Error.
Proof. exact GenParserEq.psim_nonvacuous. Qed.
