(** Property C20, class clause, END TO END over the models (group symmap; composition of group grammar's theorems over
    the symbol table, props/C20SM.v, with the indexer model of group scope and the model pipeline of builder bridge).

    [ClassVisit.declared_classes w] (model/ClassVisit.v) reads the class declarations off the typed AST of a workspace
    in the order index.rs visits the statements: (name, number of template parameters), newest first; an `include` is
    entered once; the parameters of a class are the distinct names of its template-argument declarations whose type
    resolves; the body of a defset with an unresolvable type is skipped.  [last_decl n l]: the newest entry for n.

    [C20_core_classes]: for EVERY Core workspace the class symbols that handlers/completion.rs computes on the state
    [absN (index_ws w)] the indexer model stands for (no panic) have pairwise distinct names and are EXACTLY the declared
    classes, the last declaration of a name winning, each with its declared number of template parameters.
    [C20_pipeline_classes]: for EVERY analysis of the model pipeline that yields a Core workspace, in a parent-class
    position of any tree: the handler offers exactly one class item per declared class name (last declaration wins);
    its label is the name and its snippet has one tab stop per declared template parameter, then $0.
    The names of the CoreAst are the texts of the identifier tokens of the workspace files (props/Bridge.v).
    Only statements; proofs in TG.Proofs.IndexerC20 (IndexerClasses: the indexer registers what the specification reads). *)
From Coq Require Import List NArith Bool.
From TG.Gen Require Import GenTokens GenCompletion.
From TG.Model Require Import Chars Tree SymbolMap Completion CompletionSM.
From TG.Model Require CoreAst AstToCore Indexer IndexerOps ClassVisit Pipeline.
From TG.Proofs Require IndexerC20 IndexerPipeline BridgeText.
Import ListNotations.
Open Scope list_scope.

Theorem C20_core_classes : forall w : CoreAst.workspace,
  let St := IndexerOps.absN (Indexer.index_ws w) in
  exists cl, class_syms St = SOk cl /\
    NoDup (map cs_name cl) /\
    (forall c, In c cl -> ClassVisit.last_decl (cs_name c) (ClassVisit.declared_classes w) = Some (cs_ntargs c)) /\
    (forall n k, ClassVisit.last_decl n (ClassVisit.declared_classes w) = Some k -> In {| cs_name := n; cs_ntargs := k |} cl).
Proof. exact IndexerC20.classes_declared_short. Qed.

Theorem C20_pipeline_classes : forall pfuel cfuel files root a w,
  Pipeline.analyze pfuel cfuel files root = Some a -> Pipeline.an_core a = AstToCore.Ok w ->
  forall tr off p rest, ancestors_at tr off = Some (p :: S_ClassRef :: rest) ->
  exists cl, completion_sm (IndexerOps.absN (Indexer.index_ws w)) tr off None = SOk (Some (map class_item cl)) /\
    NoDup (map cs_name cl) /\
    (forall c, In c cl -> ClassVisit.last_decl (cs_name c) (ClassVisit.declared_classes w) = Some (cs_ntargs c)) /\
    (forall n k, ClassVisit.last_decl n (ClassVisit.declared_classes w) = Some k -> In {| cs_name := n; cs_ntargs := k |} cl) /\
    (forall c, In c cl -> ~ In 36%N (cs_name c) ->
       item_label (class_item c) = cs_name c /\
       tabstops (class_snippet c) = map N.of_nat (seq 1 (cs_ntargs c)) ++ [0%N]).
Proof. exact IndexerC20.pipeline_classes. Qed.

(** non-vacuity: the pipeline on `class A<int x> { int y = x; }` / `def d : A<1> { let y = !add(y, 2); }` declares class A
    with one template parameter, and the model state offers exactly that *)
Theorem C20_pipeline_nonvacuous :
  exists a w, Pipeline.analyze 200 10 [(IndexerPipeline.pipe_ex_path, BridgeText.bridge_example_text)] IndexerPipeline.pipe_ex_path = Some a /\
    Pipeline.an_core a = AstToCore.Ok w /\
    ClassVisit.declared_classes w = [([65%N], 1%nat)] /\
    class_syms (IndexerOps.absN (Indexer.index_ws w)) = SOk [ {| cs_name := [65%N]; cs_ntargs := 1 |} ].
Proof. exact IndexerC20.pipeline_classes_nonvacuous. Qed.
Print Assumptions C20_core_classes.
Print Assumptions C20_pipeline_classes.
Print Assumptions C20_pipeline_nonvacuous.
