(** C12 Editor buffers are the source of truth for open documents.

    Statements only; proofs in TG.Proofs.{IncludesRefine,HostHistory,HostTheorems}.
    Model: M-host (TG.Model.Includes: [read] = lsp Vfs::read_content, open documents first, then the
    disk; [set_open] = Vfs::set_open_document; TG.Model.Host: [touch] = Server::set_file_content
    for didOpen and didChange alike).  Quantification: EVERY path algebra with a decidable equality,
    EVERY world (static disk), EVERY history of opens/changes (induction on the history).

    [last_text h q] = the latest text the editor sent for [q] ([None]: never opened);
    [truth w h q] = that text if there is one, else the on-disk text. *)
From Coq Require Import List NArith Bool.
From TG.Model Require Import Includes Host HostInst FsOps.
From TG.Gen Require Import GenFileSystem.
From TG.Proofs Require Import IncludesGraph IncludesRefine HostHistory HostTheorems HostExamples GenFileSystemEq.
Import ListNotations.
Local Open Scope nat_scope.

(** at every point of a session:
    (1) every text the database holds, for any file it ever saw, is [truth] for the path of that
        file: re-analysing never replaces an open document's text by its on-disk version;
    (2) for every document ever opened the database holds the latest editor text - whether or not
        it is in the current workspace, and also when it is reached only through an include;
    (3) every file of the current workspace has a text in the database and it is [truth]:
        the editor text if opened, the disk text if never opened *)
Theorem C12_buffers_win :
  forall (path istr : Type) (PA : PathAlg path istr) (PAok : PathAlgOk path istr)
         (w : world path istr) fuel h (st : @state path istr),
  run fuel w st_init h = Done st ->
  (forall f c, fc (snd st) f = Some c ->
     exists q, path_for_file (fst st) f = Some q /\ truth w h q = Some c) /\
  (forall q c, last_text h q = Some c ->
     exists f, path_for_file (fst st) f = Some q /\ fc (snd st) f = Some c) /\
  (forall fset root f q, sroot (snd st) = Some (fset, root) -> In (f, q) fset ->
     path_for_file (fst st) f = Some q /\ fc (snd st) f = truth w h q /\ fc (snd st) f <> None).
Proof. exact (@buffers_win). Qed.

(** non-vacuity: b.td is open with an editor text that differs from the disk and is reached only
    through the include of the root a.td; c.td was never opened *)
Example C12_hypotheses_satisfiable :
  exists st, run 11 ex_world st_init (ex_hist ++ [(pa, ca)]) = Done st /\
    disk ex_world pb = Some cb_disk /\
    option_map c_tag (fc (snd st) 0%N) = Some 3%N /\
    option_map c_tag (fc (snd st) 3%N) = Some 4%N.
Proof. exact ex_c12. Qed.

(** THE MODEL IS THE SOURCE (tie by translation + proof): the rendering of the CURRENT crates/lsp/src/vfs.rs
    (struct Vfs, new, set_open_document, assign_or_get_file_id, path_for_file, read_content and their private
    helpers; TG.Gen.GenFileSystem, regenerated on every run) equals [fs_init] / [set_open] / [assign] /
    [path_for_file] / [read] on embedded states ([emb_vfs]) for all arguments *)
Theorem C12_model_is_source :
  forall (path istr : Type) (PA : PathAlg path istr) (w : world path istr),
  gen_Vfs_new = emb_vfs (@fs_init path istr) /\
  (forall (fs : @fsys path istr) p c, gen_Vfs_set_open_document (emb_vfs fs) p c = emb_vfs (set_open fs p c)) /\
  (forall (fs : @fsys path istr) p, gen_Vfs_assign_or_get_file_id (emb_vfs fs) p = let '(f, fs') := assign fs p in (emb_vfs fs', f)) /\
  (forall (fs : @fsys path istr) f, gen_Vfs_path_for_file (emb_vfs fs) f =
                match path_for_file fs f with Some p => Done p | None => Panic PNoPath end) /\
  (forall (fs : @fsys path istr) p, gen_Vfs_read_content w (emb_vfs fs) p = read w fs p).
Proof. exact (@c12_model_is_source). Qed.

Check C12_buffers_win :
  forall (path istr : Type) (PA : PathAlg path istr) (PAok : PathAlgOk path istr)
         (w : world path istr) fuel h (st : @state path istr),
  run fuel w st_init h = Done st ->
  (forall f c, fc (snd st) f = Some c ->
     exists q, path_for_file (fst st) f = Some q /\ truth w h q = Some c) /\
  (forall q c, last_text h q = Some c ->
     exists f, path_for_file (fst st) f = Some q /\ fc (snd st) f = Some c) /\
  (forall fset root f q, sroot (snd st) = Some (fset, root) -> In (f, q) fset ->
     path_for_file (fst st) f = Some q /\ fc (snd st) f = truth w h q /\ fc (snd st) f <> None).

Print Assumptions C12_buffers_win.
Print Assumptions C12_model_is_source.
