(** C14 Lexical conformance with the TableGen language reference.

    Specification: model/LexSpec.v (token classes [spec_tok], separators [spec_sep], the explicit
    side condition [not_merged], written from the LLVM TableGen Programmer's Reference, independent
    of the lexer model).  Implementation model: model/Lexer.v ([lex_text], one definition per function
    of crates/syntax/src/lexer.rs, tables regenerated from the sources).

    Proven for ALL piece lists of any length and every class: identifiers incl. digit-leading ones
    (4x, 0_foo, 0b, 0xg), decimal / hex / binary integers that fit 64 bits, strings with escapes, code
    fragments, $names, all 25 keywords, all 52 bang operators incl. !cond, all punctuation incl. "..."
    and "#", white space, // comments and NESTED /* */ comments; also with the five preprocessor
    directives as pieces.  [expected_tokens ps] = the pieces with their kinds and lexemes
    (= boundaries), no error message, then Eof. *)
From Coq Require Import List NArith Bool String.
From TG.Gen Require Import GenTokens.
From TG.Model Require Import Chars Lexer LexSpec.
From TG.Proofs Require LexConform.
Import ListNotations.
Open Scope N_scope.

Theorem C14_conforms : forall ps : list piece,
  forallb valid_piece ps = true -> not_merged ps = true ->
  lex_text (render ps) = expected_tokens ps.
Proof. exact LexConform.conforms_tokens. Qed.
Check C14_conforms : forall ps : list piece,
  forallb valid_piece ps = true -> not_merged ps = true ->
  lex_text (render ps) = expected_tokens ps.
Print Assumptions C14_conforms.

(** the same with preprocessor directives among the pieces *)
Theorem C14_conforms_directives : forall ps : list piece,
  forallb valid_piece_d ps = true -> not_merged ps = true ->
  lex_text (render ps) = expected_tokens ps.
Proof. exact LexConform.conforms. Qed.
Check C14_conforms_directives : forall ps : list piece,
  forallb valid_piece_d ps = true -> not_merged ps = true ->
  lex_text (render ps) = expected_tokens ps.
Print Assumptions C14_conforms_directives.

(** the per-class munch lemma behind it: a lexeme of any class followed by any text that the side
    condition allows is scanned as exactly that lexeme with that kind and no error *)
Theorem C14_munch : forall (k : TokenKind) (w r : stext),
  (spec_tok k w || spec_sep k w || spec_directive k w) = true -> follow_ok k r = true ->
  lex_one (w ++ r) = (k, None, w, r).
Proof. exact LexConform.munch. Qed.
Check C14_munch : forall (k : TokenKind) (w r : stext),
  (spec_tok k w || spec_sep k w || spec_directive k w) = true -> follow_ok k r = true ->
  lex_one (w ++ r) = (k, None, w, r).
Print Assumptions C14_munch.

(** consequence: under the side condition a text has at most one decomposition into pieces *)
Theorem C14_unambiguous : forall ps qs : list piece,
  forallb valid_piece_d ps = true -> not_merged ps = true ->
  forallb valid_piece_d qs = true -> not_merged qs = true ->
  render ps = render qs -> ps = qs.
Proof. exact LexConform.unambiguous. Qed.
Check C14_unambiguous : forall ps qs : list piece,
  forallb valid_piece_d ps = true -> not_merged ps = true ->
  forallb valid_piece_d qs = true -> not_merged qs = true ->
  render ps = render qs -> ps = qs.
Print Assumptions C14_unambiguous.

(** the side condition is NECESSARY: whatever the input, the lexer never ends a token where [follow_ok]
    fails (outside the deliberately coarse cases [conservative]: signed / hex / binary integer glued to a
    letter, '#', directives) ... *)
Theorem C14_follow_necessary : forall (s : stext) (k : TokenKind) (a rest : stext),
  lex_one s = (k, None, a, rest) -> conservative k a = false -> follow_ok k rest = true.
Proof. exact LexConform.follow_necessary. Qed.
Check C14_follow_necessary : forall (s : stext) (k : TokenKind) (a rest : stext),
  lex_one s = (k, None, a, rest) -> conservative k a = false -> follow_ok k rest = true.
Print Assumptions C14_follow_necessary.

(** ... so for piece lists without those cases it is EXACT: the lexer returns the pieces iff none is merged *)
Theorem C14_side_condition_exact : forall ps : list piece,
  forallb valid_piece_d ps = true -> no_conservative ps = true ->
  (lex_text (render ps) = expected_tokens ps <-> not_merged ps = true).
Proof. exact LexConform.side_condition_exact. Qed.
Check C14_side_condition_exact : forall ps : list piece,
  forallb valid_piece_d ps = true -> no_conservative ps = true ->
  (lex_text (render ps) = expected_tokens ps <-> not_merged ps = true).
Print Assumptions C14_side_condition_exact.

(** meaning of the generated Unicode range tables (char::is_whitespace / is_alphabetic of the Rust std):
    membership in a table row; the rows themselves are compared with the std on every scalar value by the check *)
Theorem C14_unicode_tables : forall (rs : list (N * N)) (c : N),
  in_ranges rs c = true <-> exists lo hi, In (lo, hi) rs /\ lo <= c /\ c <= hi.
Proof. exact LexConform.in_ranges_spec. Qed.
Check C14_unicode_tables : forall (rs : list (N * N)) (c : N),
  in_ranges rs c = true <-> exists lo hi, In (lo, hi) rs /\ lo <= c /\ c <= hi.
Print Assumptions C14_unicode_tables.

(** tokens separated by well-formed gaps (the form of the property statement): the side condition holds *)
Theorem C14_separated : forall ps : list piece,
  forallb valid_piece ps = true -> separated ps = true -> not_merged ps = true.
Proof. exact LexConform.separated_not_merged. Qed.
Check C14_separated : forall ps : list piece,
  forallb valid_piece ps = true -> separated ps = true -> not_merged ps = true.
Print Assumptions C14_separated.

(** every well-nested comment (a Dyck word of "/*" and "*/" around plain characters that form no
    accidental delimiter) is a block comment of the specification *)
Theorem C14_nested_comments : forall es : list cev,
  cev_closed O es = true -> cev_clean es = true ->
  spec_sep T_BlockComment (47 :: 42 :: render_cevs es) = true.
Proof. exact LexConform.nested_comment_in_spec. Qed.
Check C14_nested_comments : forall es : list cev,
  cev_closed O es = true -> cev_clean es = true ->
  spec_sep T_BlockComment (47 :: 42 :: render_cevs es) = true.
Print Assumptions C14_nested_comments.

(** * Non-vacuity: one sequence through every class, with tokens glued wherever [not_merged] allows *)
Definition P (k : TokenKind) (s : string) : piece := mkpiece k (cps s).
Definition ex_pieces : list piece :=
  [ P T_Id "a"; P T_Plus "+"; P T_Id "b"; P T_LSquare "["; P T_IntVal "0"; P T_DotDotDot "...";
    P T_IntVal "3"; P T_RSquare "]"; P T_Whitespace " "; P T_XAdd "!add"; P T_LParen "(";
    P T_StrVal """s\\"""; P T_Paste "#"; P T_Id "x4"; P T_Comma ","; P T_StrVal """\"""""; P T_RParen ")";
    P T_BlockComment "/* a /* b */ c **/"; P T_Id "4x"; P T_Whitespace " "; P T_IntVal "-1"; P T_Minus "-"; P T_LParen "(";
    P T_IntVal "0x1F"; P T_Whitespace " "; P T_BinaryIntVal "0b01"; P T_Semi ";"; P T_CodeFragment "[{ } ]}]";
    P T_VarName "$v"; P T_LineComment "// c /*"; mkpiece T_Whitespace [10; 32]; P T_Class "class";
    P T_Whitespace " "; P T_Id "classy"; P T_Dot "."; P T_XCond "!cond"; P T_Less "<"; P T_IntVal "18446744073709551615";
    P T_Greater ">"; P T_Question "?"; P T_Colon ":"; P T_Equal "="; P T_LBrace "{"; P T_RBrace "}";
    P T_IntVal "-9223372036854775808"; P T_Whitespace " "; P T_Id "0_foo"; P T_Minus "-"; P T_LParen "("; P T_Id "0b"; P T_Comma ","; P T_Id "0xg"; P T_Whitespace " ";
    P T_Id "0b2"; P T_Comma ","; P T_Id "0x" ]%string.

Example C14_nonvacuous :
  forallb valid_piece ex_pieces = true /\ not_merged ex_pieces = true
  /\ separated ex_pieces = false
  /\ List.length (lex_text (render ex_pieces)) = 57%nat.
Proof. vm_compute. repeat split. Qed.

Example C14_separated_nonvacuous :
  let ps := [ P T_Def "def"; P T_Whitespace " "; P T_Id "X"; P T_BlockComment "/**/"; P T_Colon ":";
              P T_LineComment "//"; mkpiece T_Whitespace [13; 10]; P T_Id "Y"; P T_Whitespace " " ]%string in
  forallb valid_piece ps = true /\ separated ps = true.
Proof. vm_compute. split; reflexivity. Qed.

Example C14_nested_comments_nonvacuous :
  let es := [CCh 97; CO; CCh 42; CCh 32; CO; CC; CCh 47; CCh 32; CC; CCh 42; CCh 42; CC] in
  cev_closed O es = true /\ cev_clean es = true.
Proof. vm_compute. split; reflexivity. Qed.

(** merged pieces: the lexer output differs (both directions of C14_side_condition_exact are non-vacuous) *)
Example C14_side_condition_nonvacuous :
  let bad := [ P T_Id "a"; P T_Id "b" ]%string in
  let bad2 := [ P T_Minus "-"; P T_IntVal "1" ]%string in
  forallb valid_piece_d bad = true /\ no_conservative bad = true /\ not_merged bad = false
  /\ lex_text (render bad) = expected_tokens [ P T_Id "ab" ]%string
  /\ no_conservative bad2 = true /\ not_merged bad2 = false
  /\ lex_text (render bad2) = expected_tokens [ P T_IntVal "-1" ]%string
  /\ no_conservative ex_pieces = false /\ conservative T_IntVal (cps "0x1F") = true.
Proof. vm_compute. repeat split; reflexivity. Qed.

(** * The model IS the source: coq/gen/GenLexer.v is regenerated from crates/syntax/src/lexer.rs on every run
    (tools/translate/t_lexer.py: every function rendered statement by statement in the shallow state-monad
    embedding of model/ScanMonad.v); run through the TokenStream protocol (cursor, eat, cursor, take_error iff
    Error, text) it yields, for EVERY text, exactly the token list of the hand model Lexer.lex_text (kinds,
    error messages, lexemes).  Every theorem above therefore also holds of the regenerated rendering, and any
    semantic edit of lexer.rs changes GenLexer.v and breaks this obligation. *)
From TG.Gen Require GenLexer.
From TG.Model Require ScanMonad.
From TG.Proofs Require GenLexerEq.

Theorem C14_model_is_source : forall txt : stext,
  GenLexerEq.gen_lex_text txt = map GenLexerEq.hand_view (lex_text txt).
Proof. exact GenLexerEq.gen_lex_text_eq. Qed.
Check C14_model_is_source : forall txt : stext,
  GenLexerEq.gen_lex_text txt = map GenLexerEq.hand_view (lex_text txt).
Print Assumptions C14_model_is_source.

(** per call of `next_token`: the generated function run with [b] before the cursor and [s] after it and
    any content of the error slot ends in the state and with the kind the list function [lex_one] prescribes *)
Theorem C14_next_token_is_source : forall (b s : stext) (e : option string),
  GenLexer.g_next_token (GenLexerEq.stt b s e) = GenLexerEq.outcome b e (lex_one s).
Proof. exact GenLexerEq.next_token_eq. Qed.
Check C14_next_token_is_source : forall (b s : stext) (e : option string),
  GenLexer.g_next_token (GenLexerEq.stt b s e) = GenLexerEq.outcome b e (lex_one s).
Print Assumptions C14_next_token_is_source.

(** conformance stated directly of the source rendering *)
Theorem C14_conforms_source : forall ps : list piece,
  forallb valid_piece ps = true -> not_merged ps = true ->
  GenLexerEq.gen_lex_text (render ps) = map GenLexerEq.hand_view (expected_tokens ps).
Proof. exact LexConform.conforms_source. Qed.
Check C14_conforms_source : forall ps : list piece,
  forallb valid_piece ps = true -> not_merged ps = true ->
  GenLexerEq.gen_lex_text (render ps) = map GenLexerEq.hand_view (expected_tokens ps).
Print Assumptions C14_conforms_source.
