(** C17 Range validity of every analysis result.

    FULL STATEMENT (DESIGN C17_ranges_valid), kept visible:
      forall ws q r, In r (ranges_of (query_model ws q)) ->
        In r.file (files ws) /\ r.lo <= r.hi <= bytes (text ws r.file) /\ boundary r.lo /\ boundary r.hi
    where query_model is parse -> collect -> index -> handler for all nine query kinds.

    PROVED HERE (`_partial`): the part that goes through the symbol map.  For ALL op sequences (the calls the
    indexer makes, hook H3) whose range arguments are valid in the workspace texts ([ops_ranges_wf ws ops], a
    CHECKED hypothesis: evaluated on the real op log and the real texts of every generated workspace, incl.
    non-ASCII and CRLF), every range that the modelled symbol map stores or returns -- definition and reference
    locations (goto_definition, references), the ranges `iter_symbols_in_range` hands to inlay_hint, define_loc /
    reference_locs of every symbol (document_symbol ranges, hover), and the index diagnostics -- is valid: names
    a workspace file, lo <= hi <= byte length, both ends on UTF-8 character boundaries ([range_valid_spec]).
    MISSING for the full statement: the indexer (index.rs: that it only passes ranges of tokens/nodes of the
    current tree paired with the file on top of the include stack) and the tree-derived ranges (folding ranges,
    document links, inlay-hint positions, syntax-error diagnostics, `range_excluding_trivia`).  Those are
    covered by the implementation-side oracle of checks/C17.py on EVERY range of EVERY real result. *)
From Coq Require Import List NArith.
From TG.Model Require Import Chars SymbolMap SymbolWf.
From TG.Proofs Require Import SymbolRanges.
Import ListNotations.
Open Scope N_scope.

Theorem C17_symbol_ranges_valid_partial : forall ws ops S,
  ops_ranges_wf ws ops = true -> run_ops ops = SOk S ->
  (forall f p t, goto_definition S f p = SOk (Some t) -> range_valid ws t = true) /\
  (forall f p rs r, references S f p = SOk (Some rs) -> In r rs -> range_valid ws r = true) /\
  (forall loc l r s, iter_symbols_in_range S loc = SOk (Some l) -> In (r, s) l -> range_valid ws r = true) /\
  (forall s e, get_entry S s = Some e ->
     range_valid ws (e_def e) = true /\ forall r, In r (e_refs e) -> range_valid ws r = true) /\
  (forall d, In d (sm_diags S) -> range_valid ws d = true).
Proof. exact c17_symbol_ranges_valid. Qed.

(** what [range_valid] says *)
Theorem C17_range_valid_meaning : forall ws r, range_valid ws r = true ->
  exists t, fmap_get ws (fr_file r) = Some t /\
    fr_lo r <= fr_hi r /\ fr_hi r <= bytes t /\
    (exists n, fr_lo r = bytes (firstn n t)) /\ (exists n, fr_hi r = bytes (firstn n t)).
Proof. exact range_valid_spec. Qed.

(** no range is invented: every returned range is literally the range argument of one of the ops *)
Theorem C17_ranges_come_from_ops : forall ops S,
  run_ops ops = SOk S ->
  (forall f p t, goto_definition S f p = SOk (Some t) -> In t (op_ranges ops)) /\
  (forall f p rs r, references S f p = SOk (Some rs) -> In r rs -> In r (op_ranges ops)) /\
  (forall loc l r s, iter_symbols_in_range S loc = SOk (Some l) -> In (r, s) l -> In r (op_ranges ops)).
Proof. exact c17_ranges_come_from_ops. Qed.

(** non-vacuity: a text with a two-byte character; the log of its indexing is valid; ranges cutting the
    character, past the end, or in another file are not *)
Theorem C17_nonvacuous : ops_ranges_wf [(0, c17_text)] c17_ops = true /\
  range_valid [(0, c17_text)] (mkFR 0 12 14) = true /\ range_valid [(0, c17_text)] (mkFR 0 13 14) = false /\
  range_valid [(0, c17_text)] (mkFR 0 26 28) = false /\ range_valid [(1, c17_text)] (mkFR 0 6 7) = false.
Proof. exact c17_ex. Qed.

Check C17_symbol_ranges_valid_partial : forall ws ops S,
  ops_ranges_wf ws ops = true -> run_ops ops = SOk S ->
  (forall f p t, goto_definition S f p = SOk (Some t) -> range_valid ws t = true) /\
  (forall f p rs r, references S f p = SOk (Some rs) -> In r rs -> range_valid ws r = true) /\
  (forall loc l r s, iter_symbols_in_range S loc = SOk (Some l) -> In (r, s) l -> range_valid ws r = true) /\
  (forall s e, get_entry S s = Some e ->
     range_valid ws (e_def e) = true /\ forall r, In r (e_refs e) -> range_valid ws r = true) /\
  (forall d, In d (sm_diags S) -> range_valid ws d = true).
Check C17_range_valid_meaning : forall ws r, range_valid ws r = true ->
  exists t, fmap_get ws (fr_file r) = Some t /\
    fr_lo r <= fr_hi r /\ fr_hi r <= bytes t /\
    (exists n, fr_lo r = bytes (firstn n t)) /\ (exists n, fr_hi r = bytes (firstn n t)).
Print Assumptions C17_symbol_ranges_valid_partial.
Print Assumptions C17_range_valid_meaning.
Print Assumptions C17_ranges_come_from_ops.
Print Assumptions C17_nonvacuous.
