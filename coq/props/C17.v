(** C17 Range validity of every analysis result.

    FULL STATEMENT (DESIGN C17_ranges_valid), kept visible:
      forall ws q r, In r (ranges_of (query_model ws q)) ->
        In r.file (files ws) /\ r.lo <= r.hi <= bytes (text ws r.file) /\ boundary r.lo /\ boundary r.hi
    where query_model is parse -> collect -> index -> handler for all nine query kinds.

    PROVED HERE (`_partial`): the part that goes through the symbol map.  For ALL op sequences (the calls the
    indexer makes, hook H3) whose range arguments are valid in the workspace texts ([ops_ranges_wf ws ops], a
    CHECKED hypothesis: evaluated on the real op log and the real texts of every generated workspace, incl.
    non-ASCII and CRLF), every range that the modelled symbol map stores or returns -- definition and reference
    locations (goto_definition, references), the ranges `iter_symbols_in_range` hands to inlay_hint, define_loc /
    reference_locs of every symbol (document_symbol ranges, hover), and the index diagnostics -- is valid: names
    a workspace file, lo <= hi <= byte length, both ends on UTF-8 character boundaries ([range_valid_spec]).
    ALSO PROVED (tree part, importing C01/C02 of the parser group and Folding of the outline group): for the
    parse of ANY text of a workspace file -- the syntax-error diagnostics, every node and token range, every
    `utils::range_excluding_trivia` of a node (document links = trimmed range of the include's path node) and
    every folding range (`Folding.folding_model`) are valid in that file ([C17_parse_ranges_valid]); for ANY
    green tree the same w.r.t. the tree's own text ([C17_tree_ranges_valid], [C17_folding_ranges_valid]).
    STILL MISSING for the full statement: the indexer (index.rs: that the ranges it passes to the symbol map
    are ranges of tokens/nodes of the tree of the file on top of the include stack -- this is the checked
    hypothesis ops_ranges_wf), the pairing of tree ranges with the right file in the handlers, and the
    inlay-hint positions as computed by inlay_hint.rs (they are starts of argument nodes / ends of interval keys,
    both covered above, but the handler itself is not connected).  The implementation-side oracle of
    checks/C17.py checks EVERY range of EVERY real result. *)
From Coq Require Import List NArith.
From TG.Model Require Import Chars SymbolMap SymbolWf.
From TG.Gen Require Import GenTokens GenGrammar.
From TG.Model Require Import Tree TreeNav ParserPrims GInterp Folding.
From TG.Proofs Require Import SymbolRanges SymbolRangesTree.
Import ListNotations.
Open Scope N_scope.

Theorem C17_symbol_ranges_valid_partial : forall ws ops S,
  ops_ranges_wf ws ops = true -> run_ops ops = SOk S ->
  (forall f p t, goto_definition S f p = SOk (Some t) -> range_valid ws t = true) /\
  (forall f p rs r, references S f p = SOk (Some rs) -> In r rs -> range_valid ws r = true) /\
  (forall loc l r s, iter_symbols_in_range S loc = SOk (Some l) -> In (r, s) l -> range_valid ws r = true) /\
  (forall s e, get_entry S s = Some e ->
     range_valid ws (e_def e) = true /\ forall r, In r (e_refs e) -> range_valid ws r = true) /\
  (forall d, In d (sm_diags S) -> range_valid ws d = true).
Proof. exact c17_symbol_ranges_valid. Qed.

(** what [range_valid] says *)
Theorem C17_range_valid_meaning : forall ws r, range_valid ws r = true ->
  exists t, fmap_get ws (fr_file r) = Some t /\
    fr_lo r <= fr_hi r /\ fr_hi r <= bytes t /\
    (exists n, fr_lo r = bytes (firstn n t)) /\ (exists n, fr_hi r = bytes (firstn n t)).
Proof. exact range_valid_spec. Qed.

(** no range is invented: every returned range is literally the range argument of one of the ops *)
Theorem C17_ranges_come_from_ops : forall ops S,
  run_ops ops = SOk S ->
  (forall f p t, goto_definition S f p = SOk (Some t) -> In t (op_ranges ops)) /\
  (forall f p rs r, references S f p = SOk (Some rs) -> In r rs -> In r (op_ranges ops)) /\
  (forall loc l r s, iter_symbols_in_range S loc = SOk (Some l) -> In (r, s) l -> In r (op_ranges ops)).
Proof. exact c17_ranges_come_from_ops. Qed.

(** non-vacuity: a text with a two-byte character; the log of its indexing is valid; ranges cutting the
    character, past the end, or in another file are not *)
Theorem C17_nonvacuous : ops_ranges_wf [(0, c17_text)] c17_ops = true /\
  range_valid [(0, c17_text)] (mkFR 0 12 14) = true /\ range_valid [(0, c17_text)] (mkFR 0 13 14) = false /\
  range_valid [(0, c17_text)] (mkFR 0 26 28) = false /\ range_valid [(1, c17_text)] (mkFR 0 6 7) = false.
Proof. exact c17_ex. Qed.

(** ---- tree-derived ranges *)

(** For ANY green tree and any workspace in which file f has the tree's text: every node range, every token
    range and every trimmed node range (utils::range_excluding_trivia) is valid in f. *)
Theorem C17_tree_ranges_valid : forall t ws f, fmap_get ws f = Some (tree_text t) ->
  (forall lo hi n, In (lo, hi, n) (descendants t) -> range_valid ws (mkFR f lo hi) = true) /\
  (forall l, In l (leaves t) -> range_valid ws (mkFR f (lf_lo l) (lf_hi l)) = true) /\
  (forall lo hi n, In (lo, hi, n) (descendants t) ->
     range_valid ws (mkFR f (fst (range_excluding_trivia lo n)) (snd (range_excluding_trivia lo n))) = true).
Proof. exact c17_tree_ranges_valid. Qed.

(** ... in particular every folding range of the model of folding_range::exec *)
Theorem C17_folding_ranges_valid : forall t ws f, fmap_get ws f = Some (tree_text t) ->
  forall r, In r (folding_model t) -> range_valid ws (mkFR f (fst r) (snd r)) = true.
Proof. exact c17_folding_ranges_valid. Qed.

(** The parse of the text of a workspace file, with the grammar regenerated from the current sources: syntax-error
    ranges (C02), node / token ranges and trimmed node ranges incl. document links (C01), folding ranges. *)
Theorem C17_parse_ranges_valid : forall fuel txt t errs st ws f,
  fmap_get ws f = Some txt ->
  parse_with fuel grammar_prog grammar_entry txt = ParseOk t errs st ->
  (forall lo hi m, In (lo, hi, m) errs -> range_valid ws (mkFR f lo hi) = true) /\
  (forall lo hi n, In (lo, hi, n) (descendants t) -> range_valid ws (mkFR f lo hi) = true) /\
  (forall l, In l (leaves t) -> range_valid ws (mkFR f (lf_lo l) (lf_hi l)) = true) /\
  (forall lo hi n, In (lo, hi, n) (descendants t) ->
     range_valid ws (mkFR f (fst (range_excluding_trivia lo n)) (snd (range_excluding_trivia lo n))) = true) /\
  (forall r, In r (folding_model t) -> range_valid ws (mkFR f (fst r) (snd r)) = true).
Proof. exact c17_parse_ranges_valid. Qed.

(** non-vacuity of the parse hypotheses: "class A;\n// é\nclass B : A;" parses; 2 folding ranges, the second one
    starts after the two-byte character *)
Theorem C17_parse_nonvacuous : exists t errs st,
  parse_with 100 grammar_prog grammar_entry c17_text = ParseOk t errs st /\
  folding_model t = [(0, 8); (15, 27)] /\ (10 <= List.length (descendants t))%nat.
Proof. exact c17_parse_ex. Qed.

Check C17_parse_ranges_valid : forall fuel txt t errs st ws f,
  fmap_get ws f = Some txt ->
  parse_with fuel grammar_prog grammar_entry txt = ParseOk t errs st ->
  (forall lo hi m, In (lo, hi, m) errs -> range_valid ws (mkFR f lo hi) = true) /\
  (forall lo hi n, In (lo, hi, n) (descendants t) -> range_valid ws (mkFR f lo hi) = true) /\
  (forall l, In l (leaves t) -> range_valid ws (mkFR f (lf_lo l) (lf_hi l)) = true) /\
  (forall lo hi n, In (lo, hi, n) (descendants t) ->
     range_valid ws (mkFR f (fst (range_excluding_trivia lo n)) (snd (range_excluding_trivia lo n))) = true) /\
  (forall r, In r (folding_model t) -> range_valid ws (mkFR f (fst r) (snd r)) = true).
Print Assumptions C17_tree_ranges_valid.
Print Assumptions C17_folding_ranges_valid.
Print Assumptions C17_parse_ranges_valid.

Check C17_symbol_ranges_valid_partial : forall ws ops S,
  ops_ranges_wf ws ops = true -> run_ops ops = SOk S ->
  (forall f p t, goto_definition S f p = SOk (Some t) -> range_valid ws t = true) /\
  (forall f p rs r, references S f p = SOk (Some rs) -> In r rs -> range_valid ws r = true) /\
  (forall loc l r s, iter_symbols_in_range S loc = SOk (Some l) -> In (r, s) l -> range_valid ws r = true) /\
  (forall s e, get_entry S s = Some e ->
     range_valid ws (e_def e) = true /\ forall r, In r (e_refs e) -> range_valid ws r = true) /\
  (forall d, In d (sm_diags S) -> range_valid ws d = true).
Check C17_range_valid_meaning : forall ws r, range_valid ws r = true ->
  exists t, fmap_get ws (fr_file r) = Some t /\
    fr_lo r <= fr_hi r /\ fr_hi r <= bytes t /\
    (exists n, fr_lo r = bytes (firstn n t)) /\ (exists n, fr_hi r = bytes (firstn n t)).
Print Assumptions C17_symbol_ranges_valid_partial.
Print Assumptions C17_range_valid_meaning.
Print Assumptions C17_ranges_come_from_ops.
Print Assumptions C17_nonvacuous.

(** ---- Core fragment, NO hypothesis on an op log (bridge to the indexer model of group scope) ----
    [C17_symbol_ranges_valid_core]: for EVERY Core workspace (any number of files, includes, any program): if every
    range of every file's AST (CoreParts.file_rngs: the collector of builder "bridge") is valid when paired with the
    number of ITS file, then every range stored in or returned from the symbol-map state [abs (index_ws w)] that the
    indexer MODEL (Indexer.v, group scope) stands for is valid.  The checked hypothesis ops_ranges_wf is replaced by a
    proof over Indexer.v (proofs/IndexerRanges.v): every range the indexer stores is `FileRange::new(current file,
    range of an AST part)` and the current file is the file whose statements are being indexed (file-trace discipline
    across `include`).
    [C17_ranges_come_from_ast_core]: the same with "is the range of an AST part of file g, tagged g" as predicate
    (no range is invented, none is attributed to the wrong file).
    [C17_pipeline_core]: composed with the model pipeline (Pipeline.analyze: texts -> modelled parser -> tree ->
    CoreAst; proofs/BridgeSymbol.v, PipelineProofs.v of builder "bridge"): for EVERY analysis that yields a Core
    workspace all those ranges are valid in the texts of the analysis -- no hypothesis on the AST either.
    What links this to the Rust code: (a) Indexer.v + IndexerOps.abs = index.rs + symbol_map.rs: CHECKED state equality
    (checks/C06.py, bridge_to_indexer_model); (b) coreast (harness) = AstToCore.core_of_tree: bridge's checked tie. *)
From TG.Model Require CoreAst CoreParts AstToCore Scope Indexer IndexerOps Pipeline.
From TG.Proofs Require BridgeSymbol BridgeText IndexerRanges IndexerPipeline.
Theorem C17_symbol_ranges_valid_core : forall ws (w : CoreAst.workspace),
  (forall g body, Scope.nthN (CoreAst.ws_files w) g = Some body ->
     Forall (fun r => range_valid ws (mkFR g (CoreAst.r_lo r) (CoreAst.r_hi r)) = true) (CoreParts.file_rngs body)) ->
  let S := IndexerOps.abs (Indexer.index_ws w) in
  (forall f p t, goto_definition S f p = SOk (Some t) -> range_valid ws t = true) /\
  (forall f p rs r, references S f p = SOk (Some rs) -> In r rs -> range_valid ws r = true) /\
  (forall loc l r s, iter_symbols_in_range S loc = SOk (Some l) -> In (r, s) l -> range_valid ws r = true) /\
  (forall s e, get_entry S s = Some e ->
     range_valid ws (e_def e) = true /\ forall r, In r (e_refs e) -> range_valid ws r = true) /\
  (forall d, In d (sm_diags S) -> range_valid ws d = true).
Proof. exact IndexerRanges.c17_symbol_ranges_valid_core. Qed.

Theorem C17_ranges_come_from_ast_core : forall w : CoreAst.workspace,
  let S := IndexerOps.abs (Indexer.index_ws w) in
  let from_ast := fun fr => exists g body r, Scope.nthN (CoreAst.ws_files w) g = Some body /\
                     In r (CoreParts.file_rngs body) /\ fr = mkFR g (CoreAst.r_lo r) (CoreAst.r_hi r) in
  (forall f p t, goto_definition S f p = SOk (Some t) -> from_ast t) /\
  (forall f p rs, references S f p = SOk (Some rs) -> Forall from_ast rs) /\
  (forall d, In d (sm_diags S) -> from_ast d).
Proof.
  intros w S from_ast. pose proof (IndexerRanges.c17_ranges_come_from_ast w) as HA.
  split; [|split].
  - intros f p t H. exact (SymbolRanges.all_ranges_goto _ _ f p t HA H).
  - intros f p rs H. exact (SymbolRanges.all_ranges_references _ _ _ _ _ HA H).
  - intros d Hd. pose proof (SymbolRanges.ar_diags _ _ HA) as HF. rewrite Forall_forall in HF. exact (HF d Hd).
Qed.

Theorem C17_pipeline_core : forall pfuel cfuel files root a w,
  Pipeline.analyze pfuel cfuel files root = Some a -> Pipeline.an_core a = AstToCore.Ok w ->
  let S := IndexerOps.abs (Indexer.index_ws w) in
  let ws := BridgeSymbol.an_texts a in
  (forall f p t, goto_definition S f p = SOk (Some t) -> range_valid ws t = true) /\
  (forall f p rs r, references S f p = SOk (Some rs) -> In r rs -> range_valid ws r = true) /\
  (forall loc l r s, iter_symbols_in_range S loc = SOk (Some l) -> In (r, s) l -> range_valid ws r = true) /\
  (forall s e, get_entry S s = Some e ->
     range_valid ws (e_def e) = true /\ forall r, In r (e_refs e) -> range_valid ws r = true) /\
  (forall d, In d (sm_diags S) -> range_valid ws d = true).
Proof. exact IndexerPipeline.c17_pipeline_core. Qed.

(** non-vacuity of the pipeline statement: `class A<int x> { int y = x; }` / `def d : A<1> { let y = !add(y, 2); }` *)
Theorem C17_pipeline_nonvacuous :
  exists a w, Pipeline.analyze 200 10 [(IndexerPipeline.pipe_ex_path, BridgeText.bridge_example_text)] IndexerPipeline.pipe_ex_path = Some a /\
    Pipeline.an_core a = AstToCore.Ok w /\
    goto_definition (IndexerOps.abs (Indexer.index_ws w)) 0 38 = SOk (Some (mkFR 0 6 7)) /\
    references (IndexerOps.abs (Indexer.index_ws w)) 0 6 = SOk (Some [mkFR 0 38 39]) /\
    goto_definition (IndexerOps.abs (Indexer.index_ws w)) 0 25 = SOk (Some (mkFR 0 12 13)).
Proof. exact IndexerPipeline.c17_pipeline_nonvacuous. Qed.
Print Assumptions C17_symbol_ranges_valid_core.
Print Assumptions C17_ranges_come_from_ast_core.
Print Assumptions C17_pipeline_core.
Print Assumptions C17_pipeline_nonvacuous.

(** ---- EVERY diagnostic of the pipeline (proofs/PipelineDiagnostics.v): [Pipeline.an_diagnostics w] = [Indexer.diagnostics w]
    = the syntax errors of every workspace file, then the index diagnostics.  For every analysis that yields a Core
    workspace every diagnostic range is valid in the texts of the analysis: names a workspace file, lo <= hi <= length,
    both ends on character boundaries.  (Syntax errors: the ranges the modelled parser reports for the file's text, C02 +
    the tree part above; index diagnostics: C17_pipeline_core.) *)
From TG.Proofs Require PipelineDiagnostics.
Theorem C17_pipeline_diagnostics : forall pfuel cfuel files root a w,
  Pipeline.analyze pfuel cfuel files root = Some a -> Pipeline.an_core a = AstToCore.Ok w ->
  forall d, In d (Pipeline.an_diagnostics w) ->
    range_valid (BridgeSymbol.an_texts a) (mkFR (CoreAst.r_file (fst d)) (CoreAst.r_lo (fst d)) (CoreAst.r_hi (fst d))) = true.
Proof. exact PipelineDiagnostics.c17_pipeline_diagnostics. Qed.
Print Assumptions C17_pipeline_diagnostics.
